/* fsfault: LD_PRELOAD shim for C12(c). Interposes the file-mutating libc calls Rust's std::fs makes
 * (open/open64/openat/creat with write intent, write on such descriptors, rename, unlink) for paths
 * containing FSFAULT_MATCH (default "wallet.seed"). Every such call is an *event* i = 0,1,2,...
 *
 *   FSFAULT_LOG=<file>     append one line "<i> <op> <len> <path>" per event (enumeration run)
 *   FSFAULT_KILL=<p>       SIGKILL the process at kill point p: p = 2i before event i, p = 2i+1 after it
 *   FSFAULT_SHORT=<i>:<n>  event i must be a write: write only the first n bytes, then SIGKILL
 *   FSFAULT_FAIL=<i>[:<n>] event i fails with EIO (a write first stores n bytes); the process continues
 */
#define _GNU_SOURCE
#include <dlfcn.h>
#include <errno.h>
#include <fcntl.h>
#include <signal.h>
#include <stdarg.h>
#include <stdio.h>
#include <stdlib.h>
#include <string.h>
#include <sys/syscall.h>
#include <sys/types.h>
#include <unistd.h>

static int inited = 0;
static long kill_at = -1, short_ev = -1, short_n = -1, fail_ev = -1, fail_n = -1;
static int logfd = -1;
static long counter = 0;
static const char *match = "wallet.seed";
#define MAXFD 1024
static unsigned char tracked[MAXFD];

static void init(void) {
	if (inited) return;
	inited = 1;
	const char *s;
	if ((s = getenv("FSFAULT_MATCH")) && *s) match = s;
	if ((s = getenv("FSFAULT_KILL"))) kill_at = atol(s);
	if ((s = getenv("FSFAULT_SHORT"))) { short_ev = atol(s); const char *c = strchr(s, ':'); short_n = c ? atol(c + 1) : 0; }
	if ((s = getenv("FSFAULT_FAIL"))) { fail_ev = atol(s); const char *c = strchr(s, ':'); fail_n = c ? atol(c + 1) : 0; }
	if ((s = getenv("FSFAULT_LOG"))) logfd = (int)syscall(SYS_openat, AT_FDCWD, s, O_WRONLY | O_CREAT | O_APPEND | O_CLOEXEC, 0644);
}

static void die(void) {
	kill(getpid(), SIGKILL);
	for (;;) pause();
}

static long before(const char *op, const char *path, long n) {
	init();
	long i = counter++;
	if (logfd >= 0) {
		char buf[4400];
		int l = snprintf(buf, sizeof buf, "%ld %s %ld %s\n", i, op, n, path ? path : "-");
		if (l > 0) syscall(SYS_write, logfd, buf, (size_t)(l < (int)sizeof buf ? l : (int)sizeof buf - 1));
	}
	if (kill_at == 2 * i) die();
	return i;
}
static void after(long i) {
	if (kill_at == 2 * i + 1) die();
}
static int hit(const char *p) { init(); return p && strstr(p, match) != NULL; }
static int wr(int flags) { return (flags & (O_WRONLY | O_RDWR | O_CREAT | O_TRUNC | O_APPEND)) != 0; }
static void track(int fd, int on) { if (fd >= 0 && fd < MAXFD) tracked[fd] = (unsigned char)on; }

#define REAL(name) static __typeof__(name) *real = NULL; if (!real) real = (__typeof__(name) *)dlsym(RTLD_NEXT, #name)

static int do_open(const char *op, int (*call)(const char *, int, mode_t), const char *path, int flags, mode_t mode) {
	if (!hit(path) || !wr(flags)) return call(path, flags, mode);
	long i = before(op, path, 0);
	if (fail_ev == i) { errno = EIO; return -1; }
	int fd = call(path, flags, mode);
	track(fd, 1);
	after(i);
	return fd;
}
static int c_open(const char *p, int f, mode_t m) { REAL(open); return real(p, f, m); }
static int c_open64(const char *p, int f, mode_t m) { REAL(open64); return real(p, f, m); }

int open(const char *path, int flags, ...) {
	mode_t m = 0;
	if (flags & (O_CREAT | O_TMPFILE)) { va_list ap; va_start(ap, flags); m = va_arg(ap, mode_t); va_end(ap); }
	return do_open("open", c_open, path, flags, m);
}
int open64(const char *path, int flags, ...) {
	mode_t m = 0;
	if (flags & (O_CREAT | O_TMPFILE)) { va_list ap; va_start(ap, flags); m = va_arg(ap, mode_t); va_end(ap); }
	return do_open("open", c_open64, path, flags, m);
}
int creat(const char *path, mode_t m) { return do_open("open", c_open, path, O_CREAT | O_WRONLY | O_TRUNC, m); }
int openat(int dfd, const char *path, int flags, ...) {
	REAL(openat);
	mode_t m = 0;
	if (flags & (O_CREAT | O_TMPFILE)) { va_list ap; va_start(ap, flags); m = va_arg(ap, mode_t); va_end(ap); }
	if (!hit(path) || !wr(flags)) return real(dfd, path, flags, m);
	long i = before("open", path, 0);
	if (fail_ev == i) { errno = EIO; return -1; }
	int fd = real(dfd, path, flags, m);
	track(fd, 1);
	after(i);
	return fd;
}
int openat64(int dfd, const char *path, int flags, ...) {
	REAL(openat64);
	mode_t m = 0;
	if (flags & (O_CREAT | O_TMPFILE)) { va_list ap; va_start(ap, flags); m = va_arg(ap, mode_t); va_end(ap); }
	if (!hit(path) || !wr(flags)) return real(dfd, path, flags, m);
	long i = before("open", path, 0);
	if (fail_ev == i) { errno = EIO; return -1; }
	int fd = real(dfd, path, flags, m);
	track(fd, 1);
	after(i);
	return fd;
}
int close(int fd) {
	REAL(close);
	track(fd, 0);
	return real(fd);
}
ssize_t write(int fd, const void *buf, size_t n) {
	REAL(write);
	if (fd < 0 || fd >= MAXFD || !tracked[fd]) return real(fd, buf, n);
	long i = before("write", "-", (long)n);
	if (short_ev == i) {
		size_t k = short_n < 0 ? 0 : ((size_t)short_n > n ? n : (size_t)short_n);
		if (k) real(fd, buf, k);
		die();
	}
	if (fail_ev == i) {
		size_t k = fail_n < 0 ? 0 : ((size_t)fail_n > n ? n : (size_t)fail_n);
		if (k) real(fd, buf, k);
		errno = EIO;
		return -1;
	}
	ssize_t r = real(fd, buf, n);
	after(i);
	return r;
}
int rename(const char *a, const char *b) {
	REAL(rename);
	if (!hit(a) && !hit(b)) return real(a, b);
	long i = before("rename", a, 0);
	if (fail_ev == i) { errno = EIO; return -1; }
	int r = real(a, b);
	after(i);
	return r;
}
int renameat(int ad, const char *a, int bd, const char *b) {
	REAL(renameat);
	if (!hit(a) && !hit(b)) return real(ad, a, bd, b);
	long i = before("rename", a, 0);
	if (fail_ev == i) { errno = EIO; return -1; }
	int r = real(ad, a, bd, b);
	after(i);
	return r;
}
int unlink(const char *p) {
	REAL(unlink);
	if (!hit(p)) return real(p);
	long i = before("unlink", p, 0);
	if (fail_ev == i) { errno = EIO; return -1; }
	int r = real(p);
	after(i);
	return r;
}
int unlinkat(int d, const char *p, int fl) {
	REAL(unlinkat);
	if (!hit(p)) return real(d, p, fl);
	long i = before("unlink", p, 0);
	if (fail_ev == i) { errno = EIO; return -1; }
	int r = real(d, p, fl);
	after(i);
	return r;
}
