//! C13 (thorough tier): coverage-guided fuzzing of the owner listener's request body.
//! Input format = `Step::Template` text of src/props/c13.rs ("@N@"/"@B@" are replaced by the nonce / body_enc of a
//! valid current-session envelope around a read-only call). The semantic oracle runs inside the target; failures
//! that are listed as open known findings ($GWV_KNOWN) are tolerated so the campaign continues; any other failure
//! writes a replay file to $GWV_REPLAY_DIR and aborts (=> libFuzzer artifact).
#![no_main]
use libfuzzer_sys::fuzz_target;

fuzz_target!(|data: &[u8]| {
	gwv::props::c13::fuzz_entry(data);
});
