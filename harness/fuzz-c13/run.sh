#!/bin/bash
# usage: fuzz-c13/run.sh <seconds>  — builds and runs the C13 libFuzzer target from a fresh copy of the committed corpus.
set -u
secs=${1:-60}
here=$(cd "$(dirname "$0")" && pwd)
cd "$here"
seed=${VERIF_SEED:-0}; [ "$seed" = "0" ] && seed=1
export CARGO_NET_OFFLINE=true
cargo +nightly fuzz build -O >build.log 2>&1 || { echo "fuzz build failed, see $here/build.log"; exit 3; }
work=$(mktemp -d "${TMPDIR:-/tmp}/c13fuzz.XXXXXX")
mkdir -p "$work/corpus" "$work/artifacts"
cp -r "$here/corpus/c13_body/." "$work/corpus/" 2>/dev/null
ASAN_OPTIONS=detect_leaks=0:allocator_may_return_null=1 cargo +nightly fuzz run -O c13_body "$work/corpus" -- \
  -seed=$seed -len_control=0 -max_len=8192 -timeout=10 -rss_limit_mb=2048 -max_total_time=$secs \
  -artifact_prefix="$work/artifacts/" >"$work/log.txt" 2>&1
execs=$(grep -o "stat::number_of_executed_units: [0-9]*" "$work/log.txt" | tail -1)
echo "target c13_body: ${execs:-?} ; log $work/log.txt"
rc=0
for a in "$work/artifacts"/*; do [ -e "$a" ] && { echo "NEW CRASH ARTIFACT: $a"; rc=1; }; done
exit $rc
