#![no_main]
//! Slatepack and onion v3 address strings -> no panic.
use c09_fuzz_common::{guarded, init};
use grin_wallet_libwallet::SlatepackAddress;
use grin_wallet_util::OnionV3Address;
use libfuzzer_sys::fuzz_target;
use std::convert::TryFrom;

fuzz_target!(|data: &[u8]| {
	init();
	if let Ok(s) = std::str::from_utf8(data) {
		if let Some(Ok(a)) = guarded("SlatepackAddress::try_from", || SlatepackAddress::try_from(s)) {
			guarded("to_age_pubkey_str", || a.to_age_pubkey_str().is_ok());
			guarded("String::try_from(addr)", || String::try_from(&a).is_ok());
		}
		if let Some(Ok(o)) = guarded("OnionV3Address::try_from", || OnionV3Address::try_from(s)) {
			guarded("to_ed25519", || o.to_ed25519().is_ok());
			guarded("SlatepackAddress::try_from(onion)", || SlatepackAddress::try_from(o).is_ok());
		}
	}
});
