#![no_main]
//! Binary slate and binary slatepack -> no panic.
use c09_fuzz_common::{guarded, init};
use grin_wallet_libwallet::{Slate, SlatepackBin, Slatepacker, SlatepackerArgs, VersionedBinSlate};
use grin_wallet_util::byte_ser;
use libfuzzer_sys::fuzz_target;

fuzz_target!(|data: &[u8]| {
	init();
	if let Some(Ok(b)) = guarded("from_bytes::<VersionedBinSlate>", || byte_ser::from_bytes::<VersionedBinSlate>(data)) {
		guarded("Slate::upgrade", || Slate::upgrade(b.into()).is_ok());
	}
	if let Some(Ok(sp)) = guarded("from_bytes::<SlatepackBin>", || byte_ser::from_bytes::<SlatepackBin>(data)) {
		let p = Slatepacker::new(SlatepackerArgs {
			sender: None,
			recipients: vec![],
			dec_key: None,
		});
		guarded("get_slate", || p.get_slate(&sp.0).is_ok());
	}
});
