#![no_main]
//! JSON-RPC body -> ForeignRpc::handle_request on a real wallet (synthetic node) -> no panic.
//! Requests with a non-null receive_tx destination (outbound network) are skipped.
use c09_fuzz_common::{guarded, init};
use easy_jsonrpc_mw::Handler;
use grin_wallet_api::ForeignRpc;
use gwv::node::DirectNode;
use gwv::props::c09::seeds;
use gwv::world::{self, Wal};
use libfuzzer_sys::fuzz_target;
use serde_json::Value;
use std::cell::RefCell;
use std::path::PathBuf;

struct St {
	base: PathBuf,
	live: PathBuf,
	node: DirectNode,
	wal: Option<Wal>,
	oks: u64,
}

impl St {
	fn new() -> St {
		let root = PathBuf::from(if std::path::Path::new("/dev/shm").is_dir() { "/dev/shm" } else { "/tmp" })
			.join(format!("gwv-fuzz-c09.{}", std::process::id()));
		let _ = std::fs::remove_dir_all(&root);
		let base = root.join("base");
		let live = root.join("live");
		let node = DirectNode::new(None);
		node.with(|s| s.fake_height = 10);
		{
			let w = world::create_wallet(&base, "w", node.clone(), Some(&seeds::mnemonic()), "", false).expect("wallet");
			w.owner.retrieve_summary_info(w.m(), true, 1).expect("refresh");
		}
		let mut s = St { base, live, node, wal: None, oks: 0 };
		s.reset();
		s
	}
	fn reset(&mut self) {
		self.wal = None;
		let _ = std::fs::remove_dir_all(&self.live);
		world::copy_tree(&self.base, &self.live).expect("copy");
		self.wal = Some(world::open_wallet(&self.live, "w", self.node.clone(), "", false).expect("open"));
	}
}

thread_local! {
	static ST: RefCell<Option<St>> = RefCell::new(None);
}

fn outbound(v: &Value) -> bool {
	match v {
		Value::Array(a) => a.iter().any(outbound),
		Value::Object(_) => {
			if v["method"].as_str() == Some("receive_tx") {
				let p = &v["params"];
				let dest = if p.is_array() { &p[2] } else { &p["dest"] };
				return !dest.is_null();
			}
			false
		}
		_ => false,
	}
}

fuzz_target!(|data: &[u8]| {
	init();
	let v: Value = match serde_json::from_slice(data) {
		Ok(v) => v,
		Err(_) => return,
	};
	if outbound(&v) {
		return;
	}
	ST.with(|st| {
		let mut st = st.borrow_mut();
		if st.is_none() {
			*st = Some(St::new());
		}
		let st = st.as_mut().unwrap();
		let foreign = st.wal.as_ref().unwrap().foreign();
		let r = guarded("ForeignRpc::handle_request", || <dyn ForeignRpc>::handle_request(&foreign, v).as_option());
		if let Some(Some(reply)) = r {
			if reply.to_string().contains("\"Ok\"") {
				st.oks += 1;
				if st.oks % 50 == 0 {
					st.reset();
				}
			}
		}
	});
});
