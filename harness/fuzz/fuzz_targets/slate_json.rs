#![no_main]
//! V4 slate JSON and payment-proof JSON -> no panic.
use c09_fuzz_common::{guarded, init};
use grin_wallet_libwallet::{PaymentProof, Slate, VersionedSlate};
use libfuzzer_sys::fuzz_target;

fuzz_target!(|data: &[u8]| {
	init();
	if let Ok(s) = std::str::from_utf8(data) {
		guarded("Slate::deserialize_upgrade", || Slate::deserialize_upgrade(s).is_ok());
		if let Some(Ok(v)) = guarded("from_str::<VersionedSlate>", || serde_json::from_str::<VersionedSlate>(s)) {
			guarded("Slate::from", || {
				let _ = Slate::from(v);
			});
		}
		guarded("from_str::<PaymentProof>", || serde_json::from_str::<PaymentProof>(s).is_ok());
	}
});
