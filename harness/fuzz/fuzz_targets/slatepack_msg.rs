#![no_main]
//! Slatepack message / file content (armored, binary or JSON; plain or encrypted) -> no panic.
use c09_fuzz_common::{guarded, init};
use grin_wallet_libwallet::{SlatepackArmor, Slatepacker, SlatepackerArgs};
use libfuzzer_sys::fuzz_target;

lazy_static::lazy_static! {
	static ref KEY0: ed25519_dalek::SecretKey = {
		let line = include_str!("../corpus/wallet_keys.txt").lines().next().unwrap();
		ed25519_dalek::SecretKey::from_bytes(&grin_util::from_hex(line.trim()).unwrap()).unwrap()
	};
}

fuzz_target!(|data: &[u8]| {
	init();
	guarded("SlatepackArmor::decode", || SlatepackArmor::decode(data).is_ok());
	for key in &[None, Some(&*KEY0)] {
		let p = Slatepacker::new(SlatepackerArgs {
			sender: None,
			recipients: vec![],
			dec_key: *key,
		});
		if let Some(Ok(sp)) = guarded("deser_slatepack", || p.deser_slatepack(data, true)) {
			guarded("get_slate", || p.get_slate(&sp).is_ok());
		}
	}
});
