#!/bin/bash
# usage: fuzz/run.sh <seconds-per-target> [target...]
# Builds all C09 libFuzzer targets and runs each for the given time from a fresh copy of the committed corpus.
# Prints the paths of any new crash artifacts; exit status 1 if there are any.
set -u
secs=${1:-60}; shift || true
here=$(cd "$(dirname "$0")" && pwd)
cd "$here"
targets=("$@")
[ ${#targets[@]} -eq 0 ] && targets=(slatepack_msg slate_json bin address foreign_rpc)
seed=${VERIF_SEED:-0}
# libFuzzer treats -seed=0 as "pick a random seed"
[ "$seed" = "0" ] && seed=1
export CARGO_NET_OFFLINE=true
cargo +nightly fuzz build -O >build.log 2>&1 || { echo "fuzz build failed, see $here/build.log"; exit 3; }
work=$(mktemp -d "${TMPDIR:-/tmp}/c09fuzz.XXXXXX")
rc=0
pids=()
for t in "${targets[@]}"; do
  mkdir -p "$work/$t/corpus" "$work/$t/artifacts"
  cp -r "$here/corpus/$t/." "$work/$t/corpus/" 2>/dev/null
  ( ASAN_OPTIONS=detect_leaks=0:allocator_may_return_null=1 cargo +nightly fuzz run -O "$t" "$work/$t/corpus" -- \
      -seed=$seed -len_control=0 -max_len=16384 -timeout=5 -rss_limit_mb=2048 -max_total_time=$secs \
      -artifact_prefix="$work/$t/artifacts/" >"$work/$t/log.txt" 2>&1 ) &
  pids+=($!)
done
for p in "${pids[@]}"; do wait $p; done
for t in "${targets[@]}"; do
  execs=$(grep -o "stat::number_of_executed_units: [0-9]*" "$work/$t/log.txt" | tail -1)
  [ -z "$execs" ] && execs=$(grep -Eo "Done [0-9]+ runs" "$work/$t/log.txt" | tail -1)
  echo "target $t: ${execs:-?} ; corpus $(ls "$work/$t/corpus" | wc -l) files ; log $work/$t/log.txt"
  grep "C09 NEW PANIC" "$work/$t/log.txt" | sort | uniq -c | head
  for a in "$work/$t/artifacts"/*; do
    [ -e "$a" ] && { echo "NEW CRASH ARTIFACT: $a"; rc=1; }
  done
done
exit $rc
