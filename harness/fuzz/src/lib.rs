//! Shared by the C09 libFuzzer targets: panic capture with an allowlist of known panic signatures
//! (fuzz/known_panics.txt, or the file named by $C09_KNOWN_PANICS), so that campaigns continue past
//! recorded findings and abort (=> libFuzzer artifact) only on anything new.

use std::panic::{self, AssertUnwindSafe};
use std::sync::atomic::{AtomicU64, Ordering};
use std::sync::{Mutex, Once};

static INIT: Once = Once::new();
static KNOWN_HITS: AtomicU64 = AtomicU64::new(0);

lazy_static::lazy_static! {
	static ref LAST: Mutex<Option<(String, String)>> = Mutex::new(None);
	/// lines "location-substring|message-substring"
	static ref ALLOW: Vec<(String, String)> = {
		let text = match std::env::var("C09_KNOWN_PANICS") {
			Ok(p) => std::fs::read_to_string(p).expect("read $C09_KNOWN_PANICS"),
			Err(_) => include_str!("../known_panics.txt").to_string(),
		};
		text.lines()
			.map(|l| l.trim())
			.filter(|l| !l.is_empty() && !l.starts_with('#'))
			.map(|l| {
				let mut it = l.splitn(2, '|');
				(it.next().unwrap_or("").to_string(), it.next().unwrap_or("").to_string())
			})
			.collect()
	};
}

pub fn init() {
	INIT.call_once(|| {
		gwv::world::init_globals();
		// replaces the abort-on-panic hook installed by libfuzzer-sys
		panic::set_hook(Box::new(|info| {
			let loc = info.location().map(|l| l.file().to_string()).unwrap_or_else(|| "?".into());
			let msg = if let Some(s) = info.payload().downcast_ref::<&str>() {
				s.to_string()
			} else if let Some(s) = info.payload().downcast_ref::<String>() {
				s.clone()
			} else {
				"<non-string payload>".to_string()
			};
			*LAST.lock().unwrap() = Some((loc, msg));
		}));
	});
	gwv::world::init_globals();
}

pub fn known_hits() -> u64 {
	KNOWN_HITS.load(Ordering::Relaxed)
}

/// Run one entry point; a panic on the allowlist is tolerated, any other aborts the process.
pub fn guarded<T>(ep: &str, f: impl FnOnce() -> T) -> Option<T> {
	match panic::catch_unwind(AssertUnwindSafe(f)) {
		Ok(v) => Some(v),
		Err(_) => {
			let (loc, msg) = LAST.lock().unwrap().take().unwrap_or(("?".into(), "?".into()));
			if ALLOW.iter().any(|(l, m)| loc.contains(l.as_str()) && msg.contains(m.as_str())) {
				KNOWN_HITS.fetch_add(1, Ordering::Relaxed);
				None
			} else {
				eprintln!("C09 NEW PANIC in entry point {}: at {}: {}", ep, loc, msg);
				std::process::abort();
			}
		}
	}
}
