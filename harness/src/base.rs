//! Base worlds: funded chains + wallets built once per shard; every case starts from a copy.

use crate::sim::{Sim, ACCOUNTS};
use crate::world::{self, World};
use std::path::{Path, PathBuf};

#[derive(Clone, Debug)]
pub struct BaseSpec {
	/// blocks mined to (wallet, account) in order
	pub mined: Vec<(usize, usize, usize)>,
	/// blocks to nobody at the end (maturity)
	pub tail: usize,
	pub wallets: usize,
}

impl BaseSpec {
	/// both accounts of both wallets have the same mining history (so per-account log ids collide)
	pub fn balanced() -> BaseSpec {
		BaseSpec {
			mined: vec![(0, 0, 2), (0, 1, 2), (1, 0, 2), (1, 1, 2)],
			tail: 3,
			wallets: 2,
		}
	}

	pub fn standard(variant: u64) -> BaseSpec {
		match variant % 3 {
			0 => BaseSpec {
				mined: vec![(0, 0, 3), (1, 0, 2), (0, 1, 2), (1, 1, 1)],
				tail: 3,
				wallets: 2,
			},
			1 => BaseSpec {
				mined: vec![(0, 0, 5), (1, 0, 1)],
				tail: 4,
				wallets: 2,
			},
			_ => BaseSpec {
				mined: vec![(0, 0, 2), (0, 1, 3), (1, 0, 3), (1, 1, 2)],
				tail: 2,
				wallets: 2,
			},
		}
	}
}

/// Build a base world at `dir` and close it. Returns the directory.
pub fn build(dir: &Path, spec: &BaseSpec) -> Result<PathBuf, String> {
	let _ = std::fs::remove_dir_all(dir);
	let mut w = World::create(dir)?;
	for i in 0..spec.wallets {
		let name = format!("w{}", i);
		w.add_wallet(&name, None, "", false)?;
		for a in ACCOUNTS.iter().skip(1) {
			w.wallets[i]
				.owner
				.create_account_path(w.wallets[i].m(), a)
				.map_err(|e| e.to_string())?;
		}
	}
	let mut sim = Sim::new(w);
	sim.strict = true;
	for (wi, acct, n) in &spec.mined {
		sim.switch_account(*wi, *acct)?;
		for _ in 0..*n {
			sim.mine(Some(*wi), 0)?;
		}
	}
	for _ in 0..spec.tail {
		sim.mine(None, 0)?;
	}
	// bring every account's books up to date, end on the default account
	for wi in 0..spec.wallets {
		for a in (0..ACCOUNTS.len()).rev() {
			sim.switch_account(wi, a)?;
			match sim.refresh(wi) {
				Ok(true) => {}
				other => return Err(format!("base refresh failed: {:?}", other)),
			}
		}
	}
	drop(sim);
	Ok(dir.to_path_buf())
}

/// Copy a base world and open it as a Sim (all wallets on their default account).
pub fn open_copy(base: &Path, to: &Path) -> Result<Sim, String> {
	let _ = std::fs::remove_dir_all(to);
	world::copy_tree(base, to).map_err(|e| e.to_string())?;
	let w = World::open(to)?;
	Ok(Sim::new(w))
}
