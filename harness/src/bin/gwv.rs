use gwv::rt::{self, Args, Report, Tier};
use serde_json::Value;
use std::path::PathBuf;

fn usage() -> ! {
	eprintln!("usage: gwv run <Cxx> [--tier quick|thorough] [--seed N] [--shard i --nshards n] [--out file] [--known file] [--cases N] [--part name]\n       gwv replay <file>");
	std::process::exit(64);
}

fn scratch_base() -> PathBuf {
	if let Ok(p) = std::env::var("GWV_SCRATCH") {
		return PathBuf::from(p);
	}
	let shm = PathBuf::from("/dev/shm");
	if shm.is_dir() {
		shm
	} else {
		std::env::temp_dir()
	}
}

fn load_known(path: &Option<String>, prop: &str) -> Vec<String> {
	let mut v = vec![];
	if let Some(p) = path {
		if let Ok(b) = std::fs::read(p) {
			if let Ok(j) = serde_json::from_slice::<Value>(&b) {
				for f in j["findings"].as_array().cloned().unwrap_or_default() {
					if f["property"].as_str() == Some(prop) && f["status"].as_str() == Some("open") {
						if let Some(s) = f["signature"].as_str() {
							v.push(s.to_string());
						}
					}
				}
			}
		}
	}
	v
}

fn main() {
	let argv: Vec<String> = std::env::args().collect();
	if argv.len() < 3 {
		usage();
	}
	if argv[1].starts_with("child-") {
		// hidden sub-commands used by C12 part `interrupt` (run under the fsfault LD_PRELOAD shim)
		std::process::exit(gwv::props::c12::child_main(&argv));
	}
	rt::install_panic_hook();
	gwv::world::init_globals();
	let mut tier = Tier::Quick;
	let mut seed = 0u64;
	let mut shard = 0u64;
	let mut nshards = 1u64;
	let mut out: Option<PathBuf> = None;
	let mut known: Option<String> = None;
	let mut cases: Option<u64> = None;
	let mut part: Option<String> = None;
	let mut replay_dir = PathBuf::from("/verif/replays");
	let mut i = 3;
	while i < argv.len() {
		let a = argv[i].as_str();
		let v = argv.get(i + 1).cloned();
		match a {
			"--tier" => tier = if v.as_deref() == Some("thorough") { Tier::Thorough } else { Tier::Quick },
			"--seed" => seed = v.unwrap().parse().unwrap(),
			"--shard" => shard = v.unwrap().parse().unwrap(),
			"--nshards" => nshards = v.unwrap().parse().unwrap(),
			"--out" => out = Some(PathBuf::from(v.unwrap())),
			"--known" => known = v,
			"--cases" => cases = Some(v.unwrap().parse().unwrap()),
			"--part" => part = v,
			"--replay-dir" => replay_dir = PathBuf::from(v.unwrap()),
			"--verbose" => {
				rt::set_quiet(false);
				i += 1;
				continue;
			}
			_ => usage(),
		}
		i += 2;
	}
	let scratch = gwv::world::Scratch::new(&scratch_base(), "gwv");
	match argv[1].as_str() {
		"run" => {
			let prop = argv[2].clone();
			let args = Args {
				prop: prop.clone(),
				tier,
				seed,
				shard,
				nshards,
				out: out.clone(),
				replay_dir,
				known_open: load_known(&known, &prop),
				cases,
				scratch: scratch.path.clone(),
				part,
			};
			let t = rt::Timer::start();
			let mut rep = Report::default();
			if let Err(e) = gwv::props::run(&args, &mut rep) {
				eprintln!("error: {}", e);
				drop(scratch);
				std::process::exit(3);
			}
			let j = rep.to_json(&args, t.secs());
			match out {
				Some(p) => std::fs::write(p, serde_json::to_vec(&j).unwrap()).unwrap(),
				None => println!("{}", serde_json::to_string_pretty(&j).unwrap()),
			}
			drop(scratch);
			std::process::exit(if rep.violations.is_empty() { 0 } else { 1 });
		}
		"replay" => {
			let body: Value = serde_json::from_slice(&std::fs::read(&argv[2]).expect("read replay file")).expect("json");
			let prop = body["property"].as_str().unwrap().to_string();
			let args = Args {
				prop: prop.clone(),
				tier,
				seed: body["seed"].as_u64().unwrap_or(0),
				shard: 0,
				nshards: 1,
				out: None,
				replay_dir,
				known_open: load_known(&known, &prop),
				cases: None,
				scratch: scratch.path.clone(),
				part: None,
			};
			let part = body["part"].as_str().unwrap_or("main").to_string();
			rt::set_quiet(false);
			let r = gwv::props::replay(&args, &part, &body["case"]);
			drop(scratch);
			match r {
				Ok(o) => {
					if o.fails.is_empty() {
						println!("replay: property held on this case");
						std::process::exit(0);
					}
					let mut code = 0;
					for f in &o.fails {
						if args.known_open.contains(&f.sig) {
							println!("KNOWN-FINDING: property={} {} :: {}", prop, f.sig, f.detail);
						} else {
							println!("VIOLATION property={} replay={}", prop, argv[2]);
							println!("  signature: {}\n  detail: {}", f.sig, f.detail);
							code = 1;
						}
					}
					std::process::exit(code);
				}
				Err(e) => {
					eprintln!("replay error: {}", e);
					std::process::exit(3);
				}
			}
		}
		_ => usage(),
	}
}
