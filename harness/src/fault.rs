//! Fault injection by wrapping the public WalletBackend / WalletOutputBatch traits around the real
//! LMDB backend: counts persistent effects (batch commit, key-index bump, stored-tx write) and, at
//! a chosen one, "crashes" (unwinds with a sentinel; the caller drops everything and reopens from
//! disk), truncates the stored-tx file, or returns an error.

use crate::node::DirectNode;
use grin_core::core::Transaction;
use grin_core::global::ChainTypes;
use grin_keychain::{ExtKeychain, Identifier};
use grin_util::secp::key::SecretKey;
use grin_util::{Mutex, ZeroingString};
use grin_wallet_api::Owner;
use grin_wallet_config::{TorConfig, WalletConfig};
use grin_wallet_impls::LMDBBackend;
use grin_wallet_libwallet::{
	AcctPathMapping, Context, Error, OutputData, ScannedBlockInfo, StatusMessage, TxLogEntry, WalletBackend,
	WalletInitStatus, WalletInst, WalletLCProvider, WalletOutputBatch,
};
use grin_util::logger::LoggingConfig;
use std::path::{Path, PathBuf};
use std::sync::atomic::{AtomicUsize, Ordering};
use std::sync::mpsc::{channel, Receiver};
use std::sync::Arc;
use uuid::Uuid;

#[derive(Clone, Debug, PartialEq, serde_derive::Serialize, serde_derive::Deserialize)]
pub enum Mode {
	/// unwind immediately before the effect
	CrashBefore,
	/// perform the effect, then unwind
	CrashAfter,
	/// do not perform the effect, return an error instead
	Error,
	/// (stored-tx write only) write the first `n` bytes of the file, then unwind
	Truncate(usize),
}

/// Payload of the unwinding that models process death.
pub struct Crash(pub usize);

pub struct Ctl {
	pub counter: AtomicUsize,
	pub plan: std::sync::Mutex<Option<(usize, Mode)>>,
	pub log: std::sync::Mutex<Vec<String>>,
	pub fired: AtomicUsize,
}

impl Ctl {
	pub fn new() -> Arc<Ctl> {
		Arc::new(Ctl {
			counter: AtomicUsize::new(0),
			plan: std::sync::Mutex::new(None),
			log: std::sync::Mutex::new(vec![]),
			fired: AtomicUsize::new(0),
		})
	}
	pub fn arm(&self, k: usize, mode: Mode) {
		self.counter.store(0, Ordering::SeqCst);
		self.fired.store(0, Ordering::SeqCst);
		self.log.lock().unwrap().clear();
		*self.plan.lock().unwrap() = Some((k, mode));
	}
	pub fn count_only(&self) {
		self.counter.store(0, Ordering::SeqCst);
		self.fired.store(0, Ordering::SeqCst);
		self.log.lock().unwrap().clear();
		*self.plan.lock().unwrap() = None;
	}
	pub fn effects(&self) -> Vec<String> {
		self.log.lock().unwrap().clone()
	}
	/// Register effect `name`; returns the action to take for it.
	fn at(&self, name: &str) -> Option<Mode> {
		let i = self.counter.fetch_add(1, Ordering::SeqCst);
		self.log.lock().unwrap().push(name.to_string());
		let plan = self.plan.lock().unwrap().clone();
		match plan {
			Some((k, m)) if k == i => {
				self.fired.store(1, Ordering::SeqCst);
				Some(m)
			}
			_ => None,
		}
	}
}

fn crash(i: usize) -> ! {
	std::panic::resume_unwind(Box::new(Crash(i)))
}

pub struct FaultBackend {
	pub inner: LMDBBackend<'static, DirectNode, ExtKeychain>,
	pub ctl: Arc<Ctl>,
	pub data_dir: PathBuf,
}

pub struct FaultBatch<'a> {
	inner: Box<dyn WalletOutputBatch<ExtKeychain> + 'a>,
	ctl: Arc<Ctl>,
}

impl<'a> WalletOutputBatch<ExtKeychain> for FaultBatch<'a> {
	fn keychain(&mut self) -> &mut ExtKeychain {
		self.inner.keychain()
	}
	fn save(&mut self, out: OutputData) -> Result<(), Error> {
		self.inner.save(out)
	}
	fn get(&self, id: &Identifier, mmr_index: &Option<u64>) -> Result<OutputData, Error> {
		self.inner.get(id, mmr_index)
	}
	fn iter(&self) -> Box<dyn Iterator<Item = OutputData>> {
		self.inner.iter()
	}
	fn delete(&mut self, id: &Identifier, mmr_index: &Option<u64>) -> Result<(), Error> {
		self.inner.delete(id, mmr_index)
	}
	fn save_child_index(&mut self, parent_key_id: &Identifier, child_n: u32) -> Result<(), Error> {
		self.inner.save_child_index(parent_key_id, child_n)
	}
	fn save_last_confirmed_height(&mut self, parent_key_id: &Identifier, height: u64) -> Result<(), Error> {
		self.inner.save_last_confirmed_height(parent_key_id, height)
	}
	fn save_last_scanned_block(&mut self, block: ScannedBlockInfo) -> Result<(), Error> {
		self.inner.save_last_scanned_block(block)
	}
	fn save_init_status(&mut self, value: WalletInitStatus) -> Result<(), Error> {
		self.inner.save_init_status(value)
	}
	fn next_tx_log_id(&mut self, parent_key_id: &Identifier) -> Result<u32, Error> {
		self.inner.next_tx_log_id(parent_key_id)
	}
	fn tx_log_iter(&self) -> Box<dyn Iterator<Item = TxLogEntry>> {
		self.inner.tx_log_iter()
	}
	fn save_tx_log_entry(&mut self, t: TxLogEntry, parent_id: &Identifier) -> Result<(), Error> {
		self.inner.save_tx_log_entry(t, parent_id)
	}
	fn save_acct_path(&mut self, mapping: AcctPathMapping) -> Result<(), Error> {
		self.inner.save_acct_path(mapping)
	}
	fn acct_path_iter(&self) -> Box<dyn Iterator<Item = AcctPathMapping>> {
		self.inner.acct_path_iter()
	}
	fn lock_output(&mut self, out: &mut OutputData) -> Result<(), Error> {
		self.inner.lock_output(out)
	}
	fn save_private_context(&mut self, slate_id: &[u8], ctx: &Context) -> Result<(), Error> {
		self.inner.save_private_context(slate_id, ctx)
	}
	fn delete_private_context(&mut self, slate_id: &[u8]) -> Result<(), Error> {
		self.inner.delete_private_context(slate_id)
	}
	fn commit(&self) -> Result<(), Error> {
		let i = self.ctl.counter.load(Ordering::SeqCst);
		match self.ctl.at("commit") {
			None => self.inner.commit(),
			Some(Mode::CrashBefore) | Some(Mode::Truncate(_)) => crash(i),
			Some(Mode::CrashAfter) => {
				let r = self.inner.commit();
				let _ = r;
				crash(i)
			}
			Some(Mode::Error) => Err(Error::Backend("injected write failure (batch commit)".into())),
		}
	}
}

impl WalletBackend<'static, DirectNode, ExtKeychain> for FaultBackend {
	fn set_keychain(&mut self, k: Box<ExtKeychain>, mask: bool, use_test_rng: bool) -> Result<Option<SecretKey>, Error> {
		self.inner.set_keychain(k, mask, use_test_rng)
	}
	fn close(&mut self) -> Result<(), Error> {
		self.inner.close()
	}
	fn keychain(&self, mask: Option<&SecretKey>) -> Result<ExtKeychain, Error> {
		self.inner.keychain(mask)
	}
	fn w2n_client(&mut self) -> &mut DirectNode {
		self.inner.w2n_client()
	}
	fn calc_commit_for_cache(&mut self, keychain_mask: Option<&SecretKey>, amount: u64, id: &Identifier) -> Result<Option<String>, Error> {
		self.inner.calc_commit_for_cache(keychain_mask, amount, id)
	}
	fn set_parent_key_id_by_name(&mut self, label: &str) -> Result<(), Error> {
		self.inner.set_parent_key_id_by_name(label)
	}
	fn set_parent_key_id(&mut self, id: Identifier) {
		self.inner.set_parent_key_id(id)
	}
	fn parent_key_id(&mut self) -> Identifier {
		self.inner.parent_key_id()
	}
	fn iter<'a>(&'a self) -> Box<dyn Iterator<Item = OutputData> + 'a> {
		self.inner.iter()
	}
	fn get(&self, id: &Identifier, mmr_index: &Option<u64>) -> Result<OutputData, Error> {
		self.inner.get(id, mmr_index)
	}
	fn get_tx_log_entry(&self, uuid: &Uuid) -> Result<Option<TxLogEntry>, Error> {
		self.inner.get_tx_log_entry(uuid)
	}
	fn get_private_context(&mut self, keychain_mask: Option<&SecretKey>, slate_id: &[u8]) -> Result<Context, Error> {
		self.inner.get_private_context(keychain_mask, slate_id)
	}
	fn tx_log_iter<'a>(&'a self) -> Box<dyn Iterator<Item = TxLogEntry> + 'a> {
		self.inner.tx_log_iter()
	}
	fn acct_path_iter<'a>(&'a self) -> Box<dyn Iterator<Item = AcctPathMapping> + 'a> {
		self.inner.acct_path_iter()
	}
	fn get_acct_path(&self, label: String) -> Result<Option<AcctPathMapping>, Error> {
		self.inner.get_acct_path(label)
	}
	fn store_tx(&self, uuid: &str, tx: &Transaction) -> Result<(), Error> {
		let i = self.ctl.counter.load(Ordering::SeqCst);
		match self.ctl.at("store_tx") {
			None => self.inner.store_tx(uuid, tx),
			Some(Mode::CrashBefore) => crash(i),
			Some(Mode::CrashAfter) => {
				let _ = self.inner.store_tx(uuid, tx);
				crash(i)
			}
			Some(Mode::Error) => Err(Error::Backend("injected write failure (stored tx)".into())),
			Some(Mode::Truncate(n)) => {
				// write the complete file through the real code, then cut it: what a death mid-write leaves
				let _ = self.inner.store_tx(uuid, tx);
				let p = self.data_dir.join("saved_txs").join(format!("{}.grintx", uuid));
				if let Ok(body) = std::fs::read(&p) {
					let n = std::cmp::min(n, body.len());
					let _ = std::fs::write(&p, &body[..n]);
				}
				crash(i)
			}
		}
	}
	fn get_stored_tx(&self, uuid: &str) -> Result<Option<Transaction>, Error> {
		self.inner.get_stored_tx(uuid)
	}
	fn batch<'a>(&'a mut self, keychain_mask: Option<&SecretKey>) -> Result<Box<dyn WalletOutputBatch<ExtKeychain> + 'a>, Error> {
		let ctl = self.ctl.clone();
		let b = self.inner.batch(keychain_mask)?;
		Ok(Box::new(FaultBatch { inner: b, ctl }))
	}
	fn batch_no_mask<'a>(&'a mut self) -> Result<Box<dyn WalletOutputBatch<ExtKeychain> + 'a>, Error> {
		let ctl = self.ctl.clone();
		let b = self.inner.batch_no_mask()?;
		Ok(Box::new(FaultBatch { inner: b, ctl }))
	}
	fn current_child_index(&mut self, parent_key_id: &Identifier) -> Result<u32, Error> {
		self.inner.current_child_index(parent_key_id)
	}
	fn next_child(&mut self, keychain_mask: Option<&SecretKey>) -> Result<Identifier, Error> {
		let i = self.ctl.counter.load(Ordering::SeqCst);
		match self.ctl.at("next_child") {
			None => self.inner.next_child(keychain_mask),
			Some(Mode::CrashBefore) | Some(Mode::Truncate(_)) => crash(i),
			Some(Mode::CrashAfter) => {
				let _ = self.inner.next_child(keychain_mask);
				crash(i)
			}
			Some(Mode::Error) => Err(Error::Backend("injected write failure (key index)".into())),
		}
	}
	fn last_confirmed_height(&mut self) -> Result<u64, Error> {
		self.inner.last_confirmed_height()
	}
	fn last_scanned_block(&mut self) -> Result<ScannedBlockInfo, Error> {
		self.inner.last_scanned_block()
	}
	fn init_status(&mut self) -> Result<WalletInitStatus, Error> {
		self.inner.init_status()
	}
}

/// Minimal lifecycle provider handing out the fault backend (only what the owner/foreign API needs).
pub struct FaultLC {
	backend: Box<dyn WalletBackend<'static, DirectNode, ExtKeychain>>,
	dir: String,
}

impl WalletLCProvider<'static, DirectNode, ExtKeychain> for FaultLC {
	fn set_top_level_directory(&mut self, dir: &str) -> Result<(), Error> {
		self.dir = dir.to_string();
		Ok(())
	}
	fn get_top_level_directory(&self) -> Result<String, Error> {
		Ok(self.dir.clone())
	}
	fn create_config(&self, _c: &ChainTypes, _f: &str, _w: Option<WalletConfig>, _l: Option<LoggingConfig>, _t: Option<TorConfig>) -> Result<(), Error> {
		Err(Error::Lifecycle("not available in fault harness".into()))
	}
	fn create_wallet(&mut self, _n: Option<&str>, _m: Option<ZeroingString>, _l: usize, _p: ZeroingString, _t: bool) -> Result<(), Error> {
		Err(Error::Lifecycle("not available in fault harness".into()))
	}
	fn open_wallet(&mut self, _n: Option<&str>, _p: ZeroingString, _c: bool, _u: bool) -> Result<Option<SecretKey>, Error> {
		Err(Error::Lifecycle("not available in fault harness".into()))
	}
	fn close_wallet(&mut self, _n: Option<&str>) -> Result<(), Error> {
		Err(Error::Lifecycle("not available in fault harness".into()))
	}
	fn wallet_exists(&self, _n: Option<&str>) -> Result<bool, Error> {
		Ok(true)
	}
	fn get_mnemonic(&self, _n: Option<&str>, _p: ZeroingString) -> Result<ZeroingString, Error> {
		Err(Error::Lifecycle("not available in fault harness".into()))
	}
	fn validate_mnemonic(&self, _m: ZeroingString) -> Result<(), Error> {
		Ok(())
	}
	fn recover_from_mnemonic(&self, _m: ZeroingString, _p: ZeroingString) -> Result<(), Error> {
		Err(Error::Lifecycle("not available in fault harness".into()))
	}
	fn change_password(&self, _n: Option<&str>, _o: ZeroingString, _nw: ZeroingString) -> Result<(), Error> {
		Err(Error::Lifecycle("not available in fault harness".into()))
	}
	fn delete_wallet(&self, _n: Option<&str>) -> Result<(), Error> {
		Err(Error::Lifecycle("not available in fault harness".into()))
	}
	fn wallet_inst(&mut self) -> Result<&mut Box<dyn WalletBackend<'static, DirectNode, ExtKeychain> + 'static>, Error> {
		Ok(&mut self.backend)
	}
}

pub struct FaultInstImpl {
	lc: FaultLC,
}

impl WalletInst<'static, FaultLC, DirectNode, ExtKeychain> for FaultInstImpl {
	fn lc_provider(&mut self) -> Result<&mut (dyn WalletLCProvider<'static, DirectNode, ExtKeychain> + 'static), Error> {
		Ok(&mut self.lc)
	}
}

pub type FInst = Arc<Mutex<Box<dyn WalletInst<'static, FaultLC, DirectNode, ExtKeychain>>>>;

/// A wallet directory opened through the fault wrapper.
pub struct FaultWallet {
	pub inst: FInst,
	pub owner: Owner<FaultLC, DirectNode, ExtKeychain>,
	pub ctl: Arc<Ctl>,
	pub _rx: Receiver<StatusMessage>,
}

impl FaultWallet {
	/// `wallet_dir` = the wallet's top-level dir (contains wallet_data/). `kc` = its keychain
	/// (derive with truth::keychain_from_phrase). `parent` = active account path.
	pub fn open(wallet_dir: &Path, node: DirectNode, kc: ExtKeychain, parent: Identifier) -> Result<FaultWallet, String> {
		let data_dir = wallet_dir.join("wallet_data");
		let mut inner: LMDBBackend<'static, DirectNode, ExtKeychain> =
			LMDBBackend::new(data_dir.to_str().unwrap(), node).map_err(|e| format!("LMDBBackend::new: {}", e))?;
		inner.set_keychain(Box::new(kc), false, false).map_err(|e| e.to_string())?;
		inner.set_parent_key_id(parent);
		let ctl = Ctl::new();
		let fb = FaultBackend {
			inner,
			ctl: ctl.clone(),
			data_dir: data_dir.clone(),
		};
		let lc = FaultLC {
			backend: Box::new(fb),
			dir: wallet_dir.to_string_lossy().to_string(),
		};
		let inst: FInst = Arc::new(Mutex::new(Box::new(FaultInstImpl { lc })));
		let (tx, rx) = channel();
		let owner = Owner::new(inst.clone(), Some(tx));
		Ok(FaultWallet {
			inst,
			owner,
			ctl,
			_rx: rx,
		})
	}

	pub fn foreign(&self) -> grin_wallet_api::Foreign<'static, FaultLC, DirectNode, ExtKeychain> {
		grin_wallet_api::Foreign::new(self.inst.clone(), None, None, false)
	}

	pub fn with<T>(&self, f: impl FnOnce(&mut dyn WalletBackend<'static, DirectNode, ExtKeychain>) -> T) -> T {
		let mut l = self.inst.lock();
		let lc = l.lc_provider().expect("lc");
		let w = lc.wallet_inst().expect("backend");
		f(&mut **w)
	}
}

/// Outcome of running an operation under a fault plan.
pub enum Ran<T> {
	/// completed (possibly with an injected error surfacing as Err)
	Done(T),
	/// unwound with the crash sentinel at effect index
	Crashed(usize),
	/// a genuine panic of the code under test (message captured by the global hook)
	Panicked(crate::rt::Fail),
}

/// Run `f`; classify crash sentinel vs. real panic.
pub fn run_faulty<T>(f: impl FnOnce() -> T) -> Ran<T> {
	match std::panic::catch_unwind(std::panic::AssertUnwindSafe(f)) {
		Ok(v) => Ran::Done(v),
		Err(p) => {
			if let Some(c) = p.downcast_ref::<Crash>() {
				Ran::Crashed(c.0)
			} else {
				Ran::Panicked(crate::rt::fail_from_last_panic())
			}
		}
	}
}
