#![allow(clippy::all)]
pub mod base;
pub mod fault;
pub mod node;
pub mod props;
pub mod rt;
pub mod sched;
pub mod sim;
pub mod snap;
pub mod truth;
pub mod world;
