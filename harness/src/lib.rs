#![allow(clippy::all)]
pub mod node;
pub mod props;
pub mod rt;
pub mod snap;
pub mod world;
