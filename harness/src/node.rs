//! Thread-free NodeClient: reads a real grin_chain::Chain directly, or a synthetic UTXO view.

use grin_chain::Chain;
use grin_core::core::{Transaction, TxKernel};
use grin_util::secp::pedersen::{Commitment, RangeProof};
use grin_util::ToHex;
use grin_wallet_libwallet::{Error, NodeClient, NodeVersionInfo};
use std::collections::HashMap;
use std::sync::{Arc, Mutex};

#[derive(Default)]
pub struct NodeState {
	/// every call fails
	pub down: bool,
	/// number of calls after which the node goes down (None = never)
	pub down_after: Option<u64>,
	pub calls: u64,
	/// page size cap for get_outputs_by_pmmr_index
	pub page: u64,
	pub mempool: Vec<Transaction>,
	pub posted: u64,
	/// synthetic view (used when `chain` is None)
	pub fake_height: u64,
	pub fake_hash: String,
	pub fake_utxo: HashMap<Commitment, (u64, u64)>,
	pub fake_kernels: HashMap<Commitment, u64>,
	/// reject posts
	pub refuse_post: bool,
	/// number of get_outputs_by_pmmr_index calls since the counter was last reset (C16)
	pub pmmr_calls: u64,
	/// when non-zero: get_outputs_by_pmmr_index fails once `pmmr_calls` exceeds this (turns a paging loop that
	/// never terminates into an error instead of a hang)
	pub pmmr_limit: u64,
	/// (start_index, how many consecutive get_outputs_by_pmmr_index calls asked for it with no other node call between)
	pub pmmr_same_start: (u64, u64),
	/// block header version reported by `get_version_info` (None = node gives no version info)
	pub version_bhv: Option<u16>,
}

pub struct NodeInner {
	pub chain: Mutex<Option<Arc<Chain>>>,
	pub state: Mutex<NodeState>,
}

#[derive(Clone)]
pub struct DirectNode {
	pub inner: Arc<NodeInner>,
	url: String,
}

impl DirectNode {
	pub fn new(chain: Option<Arc<Chain>>) -> DirectNode {
		DirectNode {
			inner: Arc::new(NodeInner {
				chain: Mutex::new(chain),
				state: Mutex::new(NodeState {
					page: 1000,
					fake_hash: "00".repeat(32),
					..Default::default()
				}),
			}),
			url: "direct".to_string(),
		}
	}
	pub fn chain(&self) -> Option<Arc<Chain>> {
		self.inner.chain.lock().unwrap().clone()
	}
	pub fn set_chain(&self, c: Option<Arc<Chain>>) {
		*self.inner.chain.lock().unwrap() = c;
	}
	pub fn with<T>(&self, f: impl FnOnce(&mut NodeState) -> T) -> T {
		let mut s = self.inner.state.lock().unwrap();
		f(&mut s)
	}
	pub fn set_down(&self, d: bool) {
		self.with(|s| {
			s.down = d;
			s.down_after = None;
		});
	}
	fn gate(&self, what: &str) -> Result<(), Error> {
		let mut s = self.inner.state.lock().unwrap();
		s.calls += 1;
		if what != "get_outputs_by_pmmr_index" {
			s.pmmr_same_start = (0, 0);
		}
		if let Some(n) = s.down_after {
			if n == 0 {
				s.down = true;
				s.down_after = None;
			} else {
				s.down_after = Some(n - 1);
			}
		}
		if s.down {
			return Err(Error::ClientCallback(format!("node down ({})", what)));
		}
		Ok(())
	}
	pub fn take_mempool(&self) -> Vec<Transaction> {
		self.with(|s| std::mem::take(&mut s.mempool))
	}
}

fn cerr<E: std::fmt::Debug>(what: &str) -> impl FnOnce(E) -> Error + '_ {
	move |e| Error::ClientCallback(format!("{}: {:?}", what, e))
}

impl NodeClient for DirectNode {
	fn node_url(&self) -> &str {
		&self.url
	}
	fn set_node_url(&mut self, u: &str) {
		self.url = u.to_string();
	}
	fn node_api_secret(&self) -> Option<String> {
		None
	}
	fn set_node_api_secret(&mut self, _s: Option<String>) {}

	fn post_tx(&self, tx: &Transaction, _fluff: bool) -> Result<(), Error> {
		self.gate("post_tx")?;
		let mut s = self.inner.state.lock().unwrap();
		if s.refuse_post {
			return Err(Error::ClientCallback("post refused".into()));
		}
		s.mempool.push(tx.clone());
		s.posted += 1;
		Ok(())
	}

	fn get_version_info(&mut self) -> Option<NodeVersionInfo> {
		let bhv = self.with(|s| s.version_bhv);
		bhv.map(|b| NodeVersionInfo {
			node_version: "5.3.3".to_string(),
			block_header_version: b,
			verified: Some(true),
		})
	}

	fn get_chain_tip(&self) -> Result<(u64, String), Error> {
		self.gate("get_chain_tip")?;
		match self.chain() {
			Some(c) => {
				let h = c.head().map_err(cerr("head"))?;
				Ok((h.height, h.last_block_h.to_hex()))
			}
			None => {
				let s = self.inner.state.lock().unwrap();
				Ok((s.fake_height, s.fake_hash.clone()))
			}
		}
	}

	fn get_kernel(
		&mut self,
		excess: &Commitment,
		min_height: Option<u64>,
		max_height: Option<u64>,
	) -> Result<Option<(TxKernel, u64, u64)>, Error> {
		self.gate("get_kernel")?;
		match self.chain() {
			Some(c) => c
				.get_kernel_height(excess, min_height, max_height)
				.map_err(cerr("get_kernel")),
			None => {
				let s = self.inner.state.lock().unwrap();
				match s.fake_kernels.get(excess) {
					Some(h) => {
						if min_height.map(|m| *h < m).unwrap_or(false)
							|| max_height.map(|m| *h > m).unwrap_or(false)
						{
							return Ok(None);
						}
						let mut k = TxKernel::empty();
						k.excess = *excess;
						Ok(Some((k, *h, 0)))
					}
					None => Ok(None),
				}
			}
		}
	}

	fn get_outputs_from_node(
		&self,
		wallet_outputs: Vec<Commitment>,
	) -> Result<HashMap<Commitment, (String, u64, u64)>, Error> {
		self.gate("get_outputs_from_node")?;
		let mut res = HashMap::new();
		match self.chain() {
			Some(c) => {
				for commit in wallet_outputs {
					if let Some((_, pos)) = c.get_unspent(commit).map_err(cerr("get_unspent"))? {
						res.insert(commit, (commit.to_hex(), pos.height, pos.pos));
					}
				}
			}
			None => {
				let s = self.inner.state.lock().unwrap();
				for commit in wallet_outputs {
					if let Some((h, p)) = s.fake_utxo.get(&commit) {
						res.insert(commit, (commit.to_hex(), *h, *p));
					}
				}
			}
		}
		Ok(res)
	}

	fn get_outputs_by_pmmr_index(
		&self,
		start_index: u64,
		end_index: Option<u64>,
		max_outputs: u64,
	) -> Result<(u64, u64, Vec<(Commitment, RangeProof, bool, u64, u64)>), Error> {
		self.gate("get_outputs_by_pmmr_index")?;
		let over = self.with(|s| {
			s.pmmr_calls += 1;
			// always on: the same page requested 16 times in a row within one paging loop = no progress
			if s.pmmr_same_start.0 == start_index {
				s.pmmr_same_start.1 += 1;
			} else {
				s.pmmr_same_start = (start_index, 1);
			}
			(s.pmmr_limit != 0 && s.pmmr_calls > s.pmmr_limit) || s.pmmr_same_start.1 > 16
		});
		if over {
			return Err(Error::ClientCallback("harness: paging call budget exceeded (paging loop makes no progress)".into()));
		}
		let page = self.with(|s| s.page).max(1);
		let max = std::cmp::min(max_outputs, page);
		let c = match self.chain() {
			Some(c) => c,
			None => return Ok((0, 0, vec![])),
		};
		let start_index = std::cmp::max(start_index, 1);
		let (last_retrieved, highest, outs) = c
			.unspent_outputs_by_pmmr_index(start_index, max, end_index)
			.map_err(cerr("unspent_outputs_by_pmmr_index"))?;
		let mut v = Vec::with_capacity(outs.len());
		for o in outs {
			let commit = o.commitment();
			let pos = c
				.get_unspent(commit)
				.map_err(cerr("get_unspent"))?
				.ok_or_else(|| Error::ClientCallback("listed output not unspent".into()))?;
			v.push((commit, o.proof, o.is_coinbase(), pos.1.height, pos.1.pos));
		}
		Ok((highest, last_retrieved, v))
	}

	fn height_range_to_pmmr_indices(
		&self,
		start_height: u64,
		end_height: Option<u64>,
	) -> Result<(u64, u64), Error> {
		self.gate("height_range_to_pmmr_indices")?;
		let c = match self.chain() {
			Some(c) => c,
			None => return Ok((0, 0)),
		};
		c.block_height_range_to_pmmr_indices(start_height, end_height)
			.map_err(cerr("block_height_range_to_pmmr_indices"))
	}
}
