//! C01 — sender-side construction conserves value.
//! Part `pure`: selection functions on a real LMDB backend with synthetic output sets.
//! Part `api` : owner::init_send_tx / tx_lock_outputs / process_invoice_tx / late-lock finalize on a
//!              full wallet whose node is a synthetic UTXO view.

use crate::node::DirectNode;
use crate::rt::*;
use crate::snap;
use crate::world::{self, Wal};
use grin_core::global;
use grin_core::libtx::{tx_fee, ProofBuilder};
use grin_keychain::{ExtKeychain, Identifier, Keychain, SwitchCommitmentType};
use grin_util::secp::pedersen::Commitment;
use grin_util::ToHex;
use grin_wallet_impls::LMDBBackend;
use grin_wallet_libwallet::verif_hooks::selection;
use grin_wallet_libwallet::{
	InitTxArgs, IssueInvoiceTxArgs, OutputData, OutputStatus, TxLogEntryType, WalletBackend,
};
use proptest::prelude::*;
use serde_derive::{Deserialize, Serialize};
use serde_json::json;
use std::path::PathBuf;

pub const BOUNDARY: [u64; 9] = [
	0,
	1,
	2,
	1u64 << 32,
	(1u64 << 40) - 1,
	1u64 << 40,
	1u64 << 63,
	u64::MAX - 1,
	u64::MAX,
];

#[derive(Clone, Debug, Serialize, Deserialize)]
pub struct OutSpec {
	pub value: u64,
	/// 0 Unconfirmed 1 Unspent 2 Locked 3 Spent 4 Reverted
	pub status: u8,
	/// height = H - depth (saturating); depth 255 => height = H+1
	pub depth: u8,
	pub coinbase: bool,
	pub acct: u8,
	/// 0: lock_height 0 ; 1: height+maturity (as coinbase) ; 2: H ; 3: H+1
	pub lock_kind: u8,
	pub with_mmr: bool,
}

#[derive(Clone, Debug, Serialize, Deserialize)]
pub enum AmountSel {
	Boundary(u8),
	/// eligible total of the source account minus fee(all eligible inputs, change+1 outputs) minus k (may go "negative" => wraps to k over)
	NearTotal(i8),
	/// a fraction (x/65536) of the eligible total
	Fraction(u16),
	Raw(u64),
}

#[derive(Clone, Debug, Serialize, Deserialize)]
pub struct SelCase {
	pub outs: Vec<OutSpec>,
	pub amount: AmountSel,
	pub height: u64,
	pub min_conf: u64,
	pub max_outputs: u32,
	pub change_outputs: u32,
	pub use_all: bool,
	pub incl_fee: bool,
	pub src_acct: u8,
}

fn value_strategy() -> BoxedStrategy<u64> {
	prop_oneof![
		2 => Just(1u64),
		3 => 2u64..1000,
		6 => Just(60_000_000_000u64),
		3 => 1_000_000u64..200_000_000_000,
		1 => ((1u64 << 40) - 3)..((1u64 << 40) + 3),
		1 => (1u64 << 50)..(1u64 << 57),
	]
	.boxed()
}

fn out_strategy() -> BoxedStrategy<OutSpec> {
	(
		value_strategy(),
		prop_oneof![1 => Just(0u8), 8 => Just(1u8), 1 => Just(2u8), 1 => Just(3u8), 1 => Just(4u8)],
		prop_oneof![6 => 0u8..12, 1 => Just(255u8)],
		prop::bool::weighted(0.3),
		prop_oneof![4 => Just(0u8), 1 => Just(1u8)],
		0u8..4,
		any::<bool>(),
	)
		.prop_map(|(value, status, depth, coinbase, acct, lock_kind, with_mmr)| OutSpec {
			value,
			status,
			depth,
			coinbase,
			acct,
			// coinbase outputs always carry the maturity lock, as the wallet writes them
			lock_kind: if coinbase { 1 } else { lock_kind },
			with_mmr,
		})
		.boxed()
}

fn amount_strategy() -> BoxedStrategy<AmountSel> {
	prop_oneof![
		2 => (0u8..BOUNDARY.len() as u8).prop_map(AmountSel::Boundary),
		6 => (-3i8..12).prop_map(AmountSel::NearTotal),
		6 => any::<u16>().prop_map(AmountSel::Fraction),
		1 => any::<u64>().prop_map(AmountSel::Raw),
	]
	.boxed()
}

pub fn sel_case_strategy(max_outs: usize, big_change: bool) -> BoxedStrategy<SelCase> {
	let change = if big_change {
		prop_oneof![
			3 => Just(0u32), 6 => Just(1u32), 3 => Just(2u32), 3 => Just(3u32), 2 => 4u32..12,
			1 => Just(200u32), 1 => Just(100_000u32), 1 => Just(250_000u32), 1 => Just(u32::MAX),
		]
		.boxed()
	} else {
		prop_oneof![2 => Just(0u32), 6 => Just(1u32), 3 => Just(2u32), 3 => Just(3u32), 2 => 4u32..9].boxed()
	};
	(
		prop::collection::vec(out_strategy(), 0..max_outs),
		amount_strategy(),
		prop_oneof![1 => Just(0u64), 6 => 1u64..100, 1 => Just(u64::MAX - 1)],
		prop_oneof![2 => Just(0u64), 3 => Just(1u64), 2 => Just(2u64), 2 => Just(10u64), 1 => 3u64..14],
		prop_oneof![1 => Just(0u32), 1 => Just(1u32), 1 => Just(2u32), 1 => Just(3u32), 1 => 4u32..40, 4 => Just(500u32)],
		change,
		any::<bool>(),
		prop::bool::weighted(0.25),
		prop_oneof![5 => Just(0u8), 1 => Just(1u8)],
	)
		.prop_map(
			|(outs, amount, height, min_conf, max_outputs, change_outputs, use_all, incl_fee, src_acct)| SelCase {
				outs,
				amount,
				height,
				min_conf,
				max_outputs,
				change_outputs,
				use_all,
				incl_fee,
				src_acct,
			},
		)
		.boxed()
}

pub fn acct_parent(a: u8) -> Identifier {
	ExtKeychain::derive_key_id(2, a as u32, 0, 0, 0)
}

fn status_of(s: u8) -> OutputStatus {
	match s {
		0 => OutputStatus::Unconfirmed,
		1 => OutputStatus::Unspent,
		2 => OutputStatus::Locked,
		3 => OutputStatus::Spent,
		_ => OutputStatus::Reverted,
	}
}

/// Materialise the generated output set (deterministic function of the case).
pub fn materialise(c: &SelCase, keychain: Option<&ExtKeychain>) -> Vec<OutputData> {
	let h = c.height;
	let mat = global::coinbase_maturity();
	c.outs
		.iter()
		.enumerate()
		.map(|(i, o)| {
			let height = if o.depth == 255 { h.saturating_add(1) } else { h.saturating_sub(o.depth as u64) };
			let lock_height = match o.lock_kind {
				0 => 0,
				1 => height.saturating_add(mat),
				2 => h,
				_ => h.saturating_add(1),
			};
			let key_id = ExtKeychain::derive_key_id(3, o.acct as u32, 0, 1000 + i as u32, 0);
			let commit = keychain.map(|k| {
				k.commit(o.value, &key_id, SwitchCommitmentType::Regular)
					.unwrap()
					.0
					.to_vec()
					.to_hex()
			});
			OutputData {
				root_key_id: acct_parent(o.acct),
				key_id,
				n_child: 1000 + i as u32,
				commit,
				mmr_index: if o.with_mmr { Some(10 + i as u64) } else { None },
				value: o.value,
				status: status_of(o.status),
				height,
				lock_height,
				is_coinbase: o.coinbase,
				tx_log_entry: None,
			}
		})
		.collect()
}

/// The documented spendability rule, recomputed independently of the wallet's code.
pub fn spendable(o: &OutputData, h: u64, min_conf: u64) -> bool {
	if o.lock_height > h {
		return false;
	}
	match o.status {
		OutputStatus::Unspent => {
			let conf: u128 = if o.height > h { 0 } else { 1 + (h as u128 - o.height as u128) };
			conf >= min_conf as u128
		}
		OutputStatus::Unconfirmed => !o.is_coinbase && min_conf == 0,
		_ => false,
	}
}

pub fn resolve_amount(c: &SelCase, outs: &[OutputData]) -> u64 {
	let parent = acct_parent(c.src_acct);
	let elig: Vec<&OutputData> = outs
		.iter()
		.filter(|o| o.root_key_id == parent && spendable(o, c.height, c.min_conf))
		.collect();
	let total: u128 = elig.iter().map(|o| o.value as u128).sum();
	match &c.amount {
		AmountSel::Boundary(i) => BOUNDARY[*i as usize % BOUNDARY.len()],
		AmountSel::Raw(v) => *v,
		AmountSel::Fraction(f) => ((total * (*f as u128)) >> 16) as u64,
		AmountSel::NearTotal(k) => {
			let n_in = std::cmp::min(elig.len(), std::cmp::max(c.max_outputs as usize, 1));
			let n_out = (c.change_outputs as u64).saturating_add(1);
			let fee = (tx_fee(n_in, std::cmp::min(n_out, 1_000_000) as usize, 1)) as u128;
			let base: i128 = if c.incl_fee { total as i128 } else { total as i128 - fee as i128 };
			let v = base - (*k as i128);
			if v < 0 {
				0
			} else if v > u64::MAX as i128 {
				u64::MAX
			} else {
				v as u64
			}
		}
	}
}

fn same_output(a: &OutputData, b: &OutputData) -> bool {
	a == b
}

/// Checks shared by both parts for a successful selection.
pub fn check_selection(
	out: &mut Outcome,
	tag: &str,
	c: &SelCase,
	all: &[OutputData],
	amount_in: u64,
	coins: &[(Identifier, u64)],
	amount_out: u64,
	fee: u64,
	change: Option<&[u64]>,
) {
	let parent = acct_parent(c.src_acct);
	// inputs are distinct, known, in account, spendable
	let mut seen = std::collections::BTreeSet::new();
	let mut total: u128 = 0;
	for (kid, val) in coins {
		if !seen.insert(kid.to_bytes().to_vec()) {
			out.fail(format!("c01:{}:duplicate-input", tag), format!("input {} selected twice", kid.to_hex()));
		}
		match all.iter().find(|o| &o.key_id == kid) {
			None => out.fail(format!("c01:{}:unknown-input", tag), format!("selected input {} is not a wallet output", kid.to_hex())),
			Some(o) => {
				if o.value != *val {
					out.fail(format!("c01:{}:input-value", tag), format!("input {} value {} != recorded {}", kid.to_hex(), val, o.value));
				}
				if o.root_key_id != parent {
					out.fail(format!("c01:{}:foreign-account-input", tag), format!("input {} belongs to another account", kid.to_hex()));
				}
				if !spendable(o, c.height, c.min_conf) {
					out.fail(
						format!("c01:{}:unspendable-input", tag),
						format!("input {:?} is not spendable at height {} min_conf {}", o, c.height, c.min_conf),
					);
				}
			}
		}
		total += *val as u128;
	}
	// amount
	if c.incl_fee {
		if (amount_in as u128) < fee as u128 || amount_out as u128 != amount_in as u128 - fee as u128 {
			out.fail(format!("c01:{}:amount-includes-fee", tag), format!("A={} fee={} but recipient amount {}", amount_in, fee, amount_out));
		}
	} else if amount_out != amount_in {
		out.fail(format!("c01:{}:amount-changed", tag), format!("A={} but recipient amount {}", amount_in, amount_out));
	}
	if let Some(ch) = change {
		let chs: u128 = ch.iter().map(|v| *v as u128).sum();
		if total != amount_out as u128 + fee as u128 + chs {
			out.fail(
				format!("c01:{}:not-conserved", tag),
				format!("inputs {} != amount {} + fee {} + change {} ({:?})", total, amount_out, fee, chs, ch),
			);
		}
		if ch.iter().any(|v| *v == 0) {
			out.fail(format!("c01:{}:zero-change-output", tag), format!("zero-value change output created: {:?}", ch));
		}
		let min_fee = tx_fee(coins.len(), ch.len() + 1, 1);
		if fee < min_fee {
			out.fail(
				format!("c01:{}:fee-below-minimum", tag),
				format!("fee {} < tx_fee({},{},1) = {}", fee, coins.len(), ch.len() + 1, min_fee),
			);
		}
	} else if total < amount_out as u128 + fee as u128 {
		out.fail(
			format!("c01:{}:insufficient-selected", tag),
			format!("inputs {} < amount {} + fee {}", total, amount_out, fee),
		);
	}
}

fn corner_classes(c: &SelCase, amount: u64, out: &mut Outcome) {
	if c.change_outputs == 0 {
		out.class("n_change=0");
	}
	if c.change_outputs > 10_000 {
		out.class("n_change>1e4");
	}
	if c.max_outputs == 0 {
		out.class("max_outputs=0");
	}
	if amount >= u64::MAX - (1 << 40) {
		out.class("amount~u64max");
	}
	if c.incl_fee {
		out.class("incl_fee");
	}
	if c.min_conf == 0 {
		out.class("min_conf=0");
	}
}

// ---------------------------------------------------------------------------------------------

pub struct C01Pure {
	_dir: PathBuf,
	backend: LMDBBackend<'static, DirectNode, ExtKeychain>,
}

impl C01Pure {
	pub fn new(args: &Args) -> C01Pure {
		world::init_globals();
		let dir = args.scratch.join("c01pure");
		std::fs::create_dir_all(&dir).unwrap();
		let node = DirectNode::new(None);
		let mut backend = LMDBBackend::new(dir.to_str().unwrap(), node).expect("lmdb backend");
		let kc = ExtKeychain::from_seed(&[3u8; 32], false).unwrap();
		backend.set_keychain(Box::new(kc), false, false).unwrap();
		C01Pure { _dir: dir, backend }
	}

	fn load(&mut self, outs: &[OutputData], parent: &Identifier) {
		let existing: Vec<OutputData> = self.backend.iter().collect();
		{
			let mut b = self.backend.batch(None).unwrap();
			for o in existing {
				b.delete(&o.key_id, &o.mmr_index).unwrap();
			}
			for o in outs {
				b.save(o.clone()).unwrap();
			}
			b.commit().unwrap();
		}
		self.backend.set_parent_key_id(parent.clone());
	}
}

impl Prop for C01Pure {
	type Case = SelCase;
	fn id(&self) -> &'static str {
		"C01"
	}
	fn part(&self) -> &'static str {
		"pure"
	}
	fn cases(&self, tier: Tier) -> u64 {
		tier.pick(120_000, 3_000_000)
	}
	fn strategy(&self, _tier: Tier) -> BoxedStrategy<SelCase> {
		sel_case_strategy(24, true)
	}
	fn rule(&self) -> String {
		"generated output sets (0..24 outputs: value classes, 5 statuses, heights/lock heights around the chain height, coinbase, 2 accounts) x amount (boundary / near eligible total / fraction / raw) x min_conf x max_outputs x num_change_outputs x strategy x includes-fee; select_coins_and_fee and select_send_tx are called on a real LMDB backend; oracle: u128 conservation, spendability recomputed from the documented rule, fee >= consensus tx_fee, wallet outputs unchanged; non-trivial = Ok with >=1 change output or a corner class (n_change=0, n_change>1e4, max_outputs=0, amount near u64::MAX, change < n^2, exact spend); distinct by case hash".into()
	}
	fn assumptions(&self) -> Vec<String> {
		vec![
			"sum of all output values of a wallet <= 2^63 (cannot exceed the coin supply)".into(),
			"chain height <= u64::MAX-1".into(),
			"select_send_tx (which derives one key per change output) is only called when num_change_outputs <= 10000; larger counts go through select_coins_and_fee only".into(),
		]
	}
	fn run(&mut self, c: &SelCase) -> Outcome {
		let mut out = Outcome::default();
		let outs = materialise(c, None);
		let parent = acct_parent(c.src_acct);
		self.load(&outs, &parent);
		let amount = resolve_amount(c, &outs);
		corner_classes(c, amount, &mut out);
		let before: Vec<OutputData> = self.backend.iter().collect();

		// 1. select_coins_and_fee
		let r1 = selection::select_coins_and_fee(
			&mut self.backend,
			amount,
			c.incl_fee,
			c.height,
			c.min_conf,
			c.max_outputs as usize,
			c.change_outputs as usize,
			c.use_all,
			&parent,
		);
		match &r1 {
			Ok((coins, total, amt, fee)) => {
				out.class("scf:ok");
				let cv: Vec<(Identifier, u64)> = coins.iter().map(|o| (o.key_id.clone(), o.value)).collect();
				for co in coins {
					if !outs.iter().any(|o| same_output(o, co)) {
						out.fail("c01:scf:altered-coin", format!("returned coin {:?} differs from the wallet record", co));
					}
				}
				let t: u128 = coins.iter().map(|o| o.value as u128).sum();
				if t != *total as u128 {
					out.fail("c01:scf:total-mismatch", format!("reported total {} != sum of coins {}", total, t));
				}
				check_selection(&mut out, "scf", c, &outs, amount, &cv, *amt, *fee, None);
			}
			Err(_) => out.class("scf:err"),
		}

		// 2. select_send_tx (build closures are returned unevaluated)
		if c.change_outputs <= 10_000 {
			let r2 = selection::select_send_tx::<_, _, _, ProofBuilder<ExtKeychain>>(
				&mut self.backend,
				None,
				amount,
				c.incl_fee,
				c.height,
				c.min_conf,
				c.max_outputs as usize,
				c.change_outputs as usize,
				c.use_all,
				&parent,
				true,
			);
			match r2 {
				Ok((_parts, coins, change, fee)) => {
					out.class("sst:ok");
					let cv: Vec<(Identifier, u64)> = coins.iter().map(|o| (o.key_id.clone(), o.value)).collect();
					let ch: Vec<u64> = change.iter().map(|c| c.0).collect();
					let amt_out = if c.incl_fee { amount.wrapping_sub(fee) } else { amount };
					// amount actually used for the recipient is what build_send_tx derives: amount - fee when included
					check_selection(&mut out, "sst", c, &outs, amount, &cv, amt_out, fee, Some(&ch));
					// change keys distinct
					let mut ks = std::collections::BTreeSet::new();
					for (_, k, _) in &change {
						if !ks.insert(k.to_bytes().to_vec()) {
							out.fail("c01:sst:duplicate-change-key", format!("change key {} used twice", k.to_hex()));
						}
					}
					if !ch.is_empty() {
						out.nontrivial = true;
						out.class(format!("sst:change_outputs={}", std::cmp::min(ch.len(), 9)));
						let chs: u128 = ch.iter().map(|v| *v as u128).sum();
						let n = ch.len() as u128;
						if chs < n * n {
							out.class("change<n^2");
						}
					} else {
						out.class("sst:exact-spend");
						out.nontrivial = true;
					}
					if r1.is_err() {
						out.fail("c01:sst-ok-but-scf-err", "select_send_tx succeeded where select_coins_and_fee failed".to_string());
					}
				}
				Err(_) => out.class("sst:err"),
			}
		}
		if c.change_outputs == 0 || c.change_outputs > 10_000 || c.max_outputs == 0 || amount >= u64::MAX - (1 << 40) {
			out.nontrivial = true;
		}
		// nothing but key-index bumps may have been persisted
		let after: Vec<OutputData> = self.backend.iter().collect();
		if before != after {
			out.fail("c01:pure:outputs-changed", "selection changed stored outputs".to_string());
		}
		if self.backend.tx_log_iter().next().is_some() {
			out.fail("c01:pure:txlog-written", "selection wrote a tx log entry".to_string());
		}
		out
	}
}

// ---------------------------------------------------------------------------------------------

#[derive(Clone, Debug, Serialize, Deserialize)]
pub struct ApiCase {
	pub sel: SelCase,
	/// 0 normal init+lock, 1 estimate_only, 2 late_lock (+receive+finalize), 3 pay invoice, 4 normal via src_acct_name
	pub mode: u8,
}

pub struct C01Api {
	scratch: PathBuf,
	base: PathBuf,
	n: u64,
}

impl C01Api {
	pub fn new(args: &Args) -> C01Api {
		world::init_globals();
		let base = args.scratch.join("c01api.base");
		let node = DirectNode::new(None);
		// two wallets on a synthetic node; accounts "default" and "acct1" in A
		let a = world::create_wallet(&base, "a", node.clone(), None, "", false).expect("wallet a");
		a.owner.create_account_path(a.m(), "acct1").unwrap();
		let _b = world::create_wallet(&base, "b", node, None, "", false).expect("wallet b");
		C01Api {
			scratch: args.scratch.clone(),
			base,
			n: 0,
		}
	}
}

fn setup_fake_node(node: &DirectNode, outs: &[(Commitment, &OutputData)], height: u64) {
	node.with(|s| {
		s.fake_height = height;
		s.fake_utxo.clear();
		for (c, o) in outs {
			if o.status == OutputStatus::Unspent || o.status == OutputStatus::Locked {
				s.fake_utxo.insert(*c, (o.height, o.mmr_index.unwrap_or(1)));
			}
		}
	});
}

impl Prop for C01Api {
	type Case = ApiCase;
	fn id(&self) -> &'static str {
		"C01"
	}
	fn part(&self) -> &'static str {
		"api"
	}
	fn cases(&self, tier: Tier) -> u64 {
		tier.pick(1200, 40_000)
	}
	fn strategy(&self, _tier: Tier) -> BoxedStrategy<ApiCase> {
		(
			sel_case_strategy(10, true),
			prop_oneof![4 => Just(0u8), 2 => Just(1u8), 2 => Just(2u8), 2 => Just(3u8), 1 => Just(4u8)],
		)
			.prop_map(|(mut sel, mode)| {
				// heights at which the wallet API is usable (refresh compares with last confirmed height)
				if sel.height == u64::MAX - 1 {
					sel.height = 1_000_000;
				}
				ApiCase { sel, mode }
			})
			.boxed()
	}
	fn rule(&self) -> String {
		"same generated output sets written into a real LMDB wallet (2 accounts) whose node is a synthetic UTXO view agreeing with the records; modes: init_send_tx(+tx_lock_outputs), estimate_only, late_lock(+receive_tx by a second wallet + finalize_tx), process_invoice_tx(+lock), init via src_acct_name; oracle: stored context / log entry / locked outputs satisfy u128 conservation, inputs spendable and of the source account, slate amount/fee == context, fee >= tx_fee; on Err the full raw DB + stored files are unchanged except key indices; non-trivial as in part pure".into()
	}
	fn assumptions(&self) -> Vec<String> {
		vec!["full builds (bulletproof per change output) are only requested with num_change_outputs <= 12 unless estimate_only; larger values are exercised in estimate_only mode and in part pure".into()]
	}
	fn run(&mut self, c: &ApiCase) -> Outcome {
		let mut out = Outcome::default();
		let mut sel = c.sel.clone();
		if c.mode != 1 && sel.change_outputs > 12 {
			sel.change_outputs = 12;
		}
		self.n += 1;
		let dir = self.scratch.join(format!("c01api.{}", self.n));
		let _ = std::fs::remove_dir_all(&dir);
		world::copy_tree(&self.base, &dir).unwrap();
		let res = self.run_in(&dir, c, &sel, &mut out);
		let _ = std::fs::remove_dir_all(&dir);
		if let Err(e) = res {
			out.fail("c01:api:harness-error", e);
		}
		out
	}
}

impl C01Api {
	fn run_in(&mut self, dir: &PathBuf, c: &ApiCase, sel: &SelCase, out: &mut Outcome) -> Result<(), String> {
		let node = DirectNode::new(None);
		let a = world::open_wallet(dir, "a", node.clone(), "", false)?;
		let b = world::open_wallet(dir, "b", node.clone(), "", false)?;
		let kc = a.with(|w| w.keychain(None)).map_err(|e| e.to_string())?;
		let outs = materialise(sel, Some(&kc));
		let parent = acct_parent(sel.src_acct);
		// write outputs
		a.with(|w| {
			let mut batch = w.batch(None).unwrap();
			for o in &outs {
				batch.save(o.clone()).unwrap();
			}
			batch.commit().unwrap();
		});
		let commits: Vec<(Commitment, &OutputData)> = outs
			.iter()
			.map(|o| (Commitment::from_vec(grin_util::from_hex(o.commit.as_ref().unwrap()).unwrap()), o))
			.collect();
		setup_fake_node(&node, &commits, sel.height);
		let amount = resolve_amount(sel, &outs);
		corner_classes(sel, amount, out);
		let by_name = c.mode == 4;
		if by_name {
			// active account is the *other* one; source is named explicitly
			a.set_account(if sel.src_acct == 0 { "acct1" } else { "default" })?;
		} else {
			a.set_account(if sel.src_acct == 0 { "default" } else { "acct1" })?;
		}
		// make both accounts' books current at this height so the embedded refresh is a no-op
		for acct in &["default", "acct1"] {
			let cur = a.active_parent();
			a.set_account(acct)?;
			let _ = a.owner.retrieve_summary_info(a.m(), true, 1);
			a.with(|w| w.set_parent_key_id(cur));
		}
		let after_refresh = snap::view(&a);
		// the synthetic node agrees with the records, so refresh must not have changed status/value
		for o in &outs {
			match after_refresh.outputs.iter().find(|x| x.key_id == o.key_id) {
				Some(x) if x.status == o.status && x.value == o.value => {}
				other => return Err(format!("setup: refresh changed generated output {:?} -> {:?}", o, other)),
			}
		}
		let s0 = snap::deep(&a, &self.scratch)?;
		let args = InitTxArgs {
			src_acct_name: if by_name { Some(if sel.src_acct == 0 { "default".into() } else { "acct1".into() }) } else { None },
			amount,
			amount_includes_fee: if sel.incl_fee { Some(true) } else { None },
			minimum_confirmations: sel.min_conf,
			max_outputs: sel.max_outputs,
			num_change_outputs: sel.change_outputs,
			selection_strategy_is_use_all: sel.use_all,
			estimate_only: Some(c.mode == 1),
			late_lock: Some(c.mode == 2),
			..Default::default()
		};
		out.class(format!("mode={}", c.mode));
		match c.mode {
			1 => {
				let r = a.owner.init_send_tx(a.m(), args);
				match r {
					Ok(sl) => {
						out.class("estimate:ok");
						// documented: amount = total locked, fee = fee
						let elig: u128 = outs
							.iter()
							.filter(|o| o.root_key_id == parent && spendable(o, sel.height, sel.min_conf))
							.map(|o| o.value as u128)
							.sum();
						if sl.amount as u128 > elig {
							out.fail("c01:api:estimate-total-exceeds-spendable", format!("estimated locked total {} > spendable {}", sl.amount, elig));
						}
						out.nontrivial = true;
					}
					Err(_) => out.class("estimate:err"),
				}
				let s1 = snap::deep(&a, &self.scratch)?;
				let d = snap::diff_filtered(&s0, &s1, &['d']);
				if !d.is_empty() {
					out.fail("c01:api:estimate-persisted", format!("estimate_only changed wallet state: {:?}", d));
				}
			}
			0 | 4 => {
				let r = a.owner.init_send_tx(a.m(), args);
				match r {
					Ok(sl) => {
						out.class("init:ok");
						let ctx = a
							.with(|w| w.get_private_context(None, sl.id.as_bytes()))
							.map_err(|e| format!("context missing after Ok init: {}", e))?;
						self.check_ctx(out, sel, &outs, amount, &ctx, sl.amount, sl.fee_fields.fee(), "init");
						// init alone must not reserve anything
						let v1 = snap::view(&a);
						if v1.outputs.iter().filter(|o| o.status == OutputStatus::Locked).count()
							!= outs.iter().filter(|o| o.status == OutputStatus::Locked).count()
						{
							out.fail("c01:api:init-locked", "init_send_tx (not late-locked) changed the set of locked outputs".to_string());
						}
						// reserve
						let lr = a.owner.tx_lock_outputs(a.m(), &sl);
						match lr {
							Ok(()) => {
								self.check_locked(out, &a, sel, &outs, &ctx.input_ids, &ctx.output_ids, ctx.amount, ctx.fee.map(|f| f.fee()).unwrap_or(0), &sl.id, &ctx.parent_key_id)?;
							}
							Err(e) => {
								out.class("lock:err");
								let _ = e;
							}
						}
					}
					Err(_) => {
						out.class("init:err");
						let s1 = snap::deep(&a, &self.scratch)?;
						let d = snap::diff_filtered(&s0, &s1, &['d']);
						if !d.is_empty() {
							out.fail("c01:api:error-persisted", format!("failed init_send_tx changed wallet state: {:?}", d));
						}
					}
				}
			}
			2 => {
				let r = a.owner.init_send_tx(a.m(), args);
				match r {
					Ok(sl) => {
						out.class("late:init-ok");
						let s1 = snap::deep(&a, &self.scratch)?;
						let d = snap::diff_filtered(&s0, &s1, &['d', 'p']);
						if !d.is_empty() {
							out.fail("c01:api:late-init-reserved", format!("late-locked init changed outputs/log: {:?}", d));
						}
						let agreed_fee = sl.fee_fields.fee();
						let agreed_amount = sl.amount;
						if sel.incl_fee {
							if (amount as u128) < agreed_fee as u128 || agreed_amount as u128 != amount as u128 - agreed_fee as u128 {
								out.fail(
									"c01:late:amount-includes-fee",
									format!("late-locked send with amount_includes_fee: A={} fee={} but recipient amount {}", amount, agreed_fee, agreed_amount),
								);
							}
						} else if agreed_amount != amount {
							out.fail("c01:late:amount-changed", format!("A={} but slate amount {}", amount, agreed_amount));
						}
						let rs = b.foreign().receive_tx(&sl, None, None);
						match rs {
							Ok(s2) => {
								let s_pre = snap::deep(&a, &self.scratch)?;
								match a.owner.finalize_tx(a.m(), &s2) {
									Ok(_s3) => {
										out.class("late:finalize-ok");
										// find the log entry
										let v = snap::view(&a);
										let t = v
											.txs
											.iter()
											.find(|t| t.tx_slate_id == Some(sl.id) && t.tx_type == TxLogEntryType::TxSent)
											.ok_or("no TxSent entry after late-lock finalize")?;
										let ins: Vec<(Identifier, Option<u64>, u64)> = v
											.outputs
											.iter()
											.filter(|o| o.tx_log_entry == Some(t.id) && o.root_key_id == t.parent_key_id && o.status == OutputStatus::Locked)
											.map(|o| (o.key_id.clone(), o.mmr_index, o.value))
											.collect();
										let chg: Vec<(Identifier, Option<u64>, u64)> = v
											.outputs
											.iter()
											.filter(|o| o.tx_log_entry == Some(t.id) && o.root_key_id == t.parent_key_id && o.status == OutputStatus::Unconfirmed)
											.map(|o| (o.key_id.clone(), o.mmr_index, o.value))
											.collect();
										let mut s = sel.clone();
										s.incl_fee = false; // amount was already reduced at init when fee included
										let cv: Vec<(Identifier, u64)> = ins.iter().map(|i| (i.0.clone(), i.2)).collect();
										let ch: Vec<u64> = chg.iter().map(|c| c.2).collect();
										check_selection(out, "late", &s, &outs, agreed_amount, &cv, agreed_amount, agreed_fee, Some(&ch));
										if t.amount_debited as u128 != cv.iter().map(|c| c.1 as u128).sum::<u128>() {
											out.fail("c01:api:late-debit-mismatch", format!("log debit {} != locked inputs {:?}", t.amount_debited, cv));
										}
										out.nontrivial = true;
									}
									Err(e) => {
										crate::rt::dbg(&format!("late finalize err: {} / {:?}", e, e));
										out.class("late:finalize-err");
										// an honest reply to a late-locked send may only be refused for lack of funds at finalize time,
										// a fee that no longer matches the selection, or a transaction too heavy for its many outputs
										let es = format!("{:?}", e);
										let ok_reason = es.contains("NotEnoughFunds") || es.contains("Fee(") || es.contains("Cannot split change") || (es.contains("TooHeavy") && sel.change_outputs >= 8);
										if !ok_reason {
											out.fail("c01:late:honest-finalize-refused", format!("honest reply to a late-locked send refused: {}", es));
										}
										// Selection may have succeeded and a later assembly step failed (e.g. too many
										// outputs for one transaction): then a consistent, cancellable reservation may
										// remain. If anything was reserved it must satisfy the same conservation rule.
										let s_post = snap::deep(&a, &self.scratch)?;
										let d = snap::diff_filtered(&s_pre, &s_post, &['d', 'p']);
										if !d.is_empty() {
											out.class("late:finalize-err-after-lock");
											let v = snap::view(&a);
											match v.txs.iter().find(|t| t.tx_slate_id == Some(sl.id) && t.tx_type == TxLogEntryType::TxSent) {
												None => out.fail("c01:api:late-finalize-error-persisted", format!("failed late-lock finalize changed state without a log entry: {:?}", d)),
												Some(t) => {
													let ins: Vec<(Identifier, u64)> = v
														.outputs
														.iter()
														.filter(|o| o.tx_log_entry == Some(t.id) && o.root_key_id == t.parent_key_id && o.status == OutputStatus::Locked)
														.map(|o| (o.key_id.clone(), o.value))
														.collect();
													let ch: Vec<u64> = v
														.outputs
														.iter()
														.filter(|o| o.tx_log_entry == Some(t.id) && o.root_key_id == t.parent_key_id && o.status == OutputStatus::Unconfirmed)
														.map(|o| o.value)
														.collect();
													let mut s = sel.clone();
													s.incl_fee = false;
													check_selection(out, "late-err", &s, &outs, agreed_amount, &ins, agreed_amount, agreed_fee, Some(&ch));
												}
											}
										}
									}
								}
							}
							Err(e) => return Err(format!("recipient refused honest slate: {}", e)),
						}
					}
					Err(_) => {
						out.class("late:init-err");
						let s1 = snap::deep(&a, &self.scratch)?;
						let d = snap::diff_filtered(&s0, &s1, &['d']);
						if !d.is_empty() {
							out.fail("c01:api:error-persisted", format!("failed late init changed wallet state: {:?}", d));
						}
					}
				}
			}
			_ => {
				// pay an invoice issued by b for `amount`
				if amount == 0 {
					out.class("invoice:zero-amount-skipped");
					return Ok(());
				}
				let inv = b.owner.issue_invoice_tx(
					b.m(),
					IssueInvoiceTxArgs {
						amount,
						..Default::default()
					},
				);
				let inv = match inv {
					Ok(i) => i,
					Err(_) => {
						out.class("invoice:issue-err");
						return Ok(());
					}
				};
				let mut args = args;
				args.amount_includes_fee = None;
				let mut sel2 = sel.clone();
				sel2.incl_fee = false;
				match a.owner.process_invoice_tx(a.m(), &inv, args) {
					Ok(s2) => {
						out.class("invoice:ok");
						let ctx = a
							.with(|w| w.get_private_context(None, inv.id.as_bytes()))
							.map_err(|e| format!("context missing after Ok process_invoice: {}", e))?;
						self.check_ctx(out, &sel2, &outs, amount, &ctx, amount, ctx.fee.map(|f| f.fee()).unwrap_or(0), "invoice");
						if let Ok(()) = a.owner.tx_lock_outputs(a.m(), &s2) {
							self.check_locked(out, &a, &sel2, &outs, &ctx.input_ids, &ctx.output_ids, ctx.amount, ctx.fee.map(|f| f.fee()).unwrap_or(0), &inv.id, &ctx.parent_key_id)?;
						} else {
							out.class("invoice:lock-err");
						}
					}
					Err(_) => {
						out.class("invoice:err");
						let s1 = snap::deep(&a, &self.scratch)?;
						let d = snap::diff_filtered(&s0, &s1, &['d']);
						if !d.is_empty() {
							out.fail("c01:api:error-persisted", format!("failed process_invoice_tx changed wallet state: {:?}", d));
						}
					}
				}
			}
		}
		Ok(())
	}

	fn check_ctx(
		&self,
		out: &mut Outcome,
		sel: &SelCase,
		outs: &[OutputData],
		amount: u64,
		ctx: &grin_wallet_libwallet::Context,
		slate_amount: u64,
		slate_fee: u64,
		tag: &str,
	) {
		let fee = ctx.fee.map(|f| f.fee()).unwrap_or(0);
		let cv: Vec<(Identifier, u64)> = ctx.input_ids.iter().map(|i| (i.0.clone(), i.2)).collect();
		let ch: Vec<u64> = ctx.output_ids.iter().map(|o| o.2).collect();
		check_selection(out, tag, sel, outs, amount, &cv, ctx.amount, fee, Some(&ch));
		if slate_amount != ctx.amount {
			out.fail(format!("c01:{}:slate-amount", tag), format!("slate amount {} != context amount {}", slate_amount, ctx.amount));
		}
		if slate_fee != fee {
			out.fail(format!("c01:{}:slate-fee", tag), format!("slate fee {} != context fee {}", slate_fee, fee));
		}
		if ctx.parent_key_id != acct_parent(sel.src_acct) {
			out.fail(format!("c01:{}:context-account", tag), "context parent is not the source account".to_string());
		}
		if !ch.is_empty() {
			out.nontrivial = true;
			out.class(format!("{}:change_outputs={}", tag, std::cmp::min(ch.len(), 9)));
		} else {
			out.nontrivial = true;
			out.class(format!("{}:exact-spend", tag));
		}
	}

	fn check_locked(
		&self,
		out: &mut Outcome,
		a: &Wal,
		sel: &SelCase,
		outs: &[OutputData],
		inputs: &[(Identifier, Option<u64>, u64)],
		change: &[(Identifier, Option<u64>, u64)],
		amount: u64,
		fee: u64,
		slate_id: &uuid::Uuid,
		parent: &Identifier,
	) -> Result<(), String> {
		let v = snap::view(a);
		let t = v
			.txs
			.iter()
			.find(|t| t.tx_slate_id == Some(*slate_id) && t.tx_type == TxLogEntryType::TxSent)
			.ok_or("no TxSent entry after Ok tx_lock_outputs")?;
		if &t.parent_key_id != parent {
			out.fail("c01:lock:entry-account", "log entry booked under another account than the source".to_string());
		}
		let pre_locked: Vec<&OutputData> = outs.iter().filter(|o| o.status == OutputStatus::Locked).collect();
		let now_locked: Vec<&OutputData> = v
			.outputs
			.iter()
			.filter(|o| o.status == OutputStatus::Locked && !pre_locked.iter().any(|p| p.key_id == o.key_id))
			.collect();
		let mut want: Vec<Vec<u8>> = inputs.iter().map(|i| i.0.to_bytes().to_vec()).collect();
		let mut got: Vec<Vec<u8>> = now_locked.iter().map(|o| o.key_id.to_bytes().to_vec()).collect();
		want.sort();
		got.sort();
		if want != got {
			out.fail("c01:lock:locked-set", format!("newly locked outputs {:?} != context inputs {:?}", got.len(), want.len()));
		}
		let din: u128 = inputs.iter().map(|i| i.2 as u128).sum();
		let dch: u128 = change.iter().map(|i| i.2 as u128).sum();
		if t.amount_debited as u128 != din || t.amount_credited as u128 != dch {
			out.fail(
				"c01:lock:entry-amounts",
				format!("entry debit/credit {}/{} != inputs/change {}/{}", t.amount_debited, t.amount_credited, din, dch),
			);
		}
		if din != amount as u128 + fee as u128 + dch {
			out.fail("c01:lock:not-conserved", format!("locked {} != amount {} + fee {} + change {}", din, amount, fee, dch));
		}
		for (k, _, val) in change {
			match v.outputs.iter().find(|o| &o.key_id == k) {
				Some(o) if o.value == *val && o.status == OutputStatus::Unconfirmed && &o.root_key_id == parent => {}
				other => out.fail("c01:lock:change-record", format!("change output {} not recorded as Unconfirmed {}: {:?}", k.to_hex(), val, other)),
			}
		}
		let _ = sel;
		Ok(())
	}
}

pub fn run(args: &Args, rep: &mut Report) {
	let parts = args.part.clone();
	if parts.as_deref().map(|p| p == "pure").unwrap_or(true) {
		let mut p = C01Pure::new(args);
		run_part(&mut p, args, rep);
	}
	if parts.as_deref().map(|p| p == "api").unwrap_or(true) {
		let mut p = C01Api::new(args);
		run_part(&mut p, args, rep);
	}
}

pub fn replay(args: &Args, part: &str, case: &serde_json::Value) -> Result<Outcome, String> {
	match part {
		"pure" => replay_part(&mut C01Pure::new(args), case),
		"api" => replay_part(&mut C01Api::new(args), case),
		_ => Err(format!("unknown part {}", part)),
	}
}

pub fn _unused() {
	let _ = json!({});
}
