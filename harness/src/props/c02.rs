//! C02 — finalized transactions are valid, exact, and safe against an altered reply.

use crate::base::{self, BaseSpec};
use crate::rt::*;
use crate::sim::*;
use crate::snap;
use crate::truth;
use grin_core::core::transaction::{CommitWrapper, FeeFields, Weighting};
use grin_core::core::{Output, OutputFeatures, Transaction};
use grin_core::libtx::tx_fee;
use grin_core::ser;
use grin_keychain::{BlindingFactor, ExtKeychain, Keychain, SwitchCommitmentType};
use grin_util::secp::key::{PublicKey, SecretKey};
use grin_util::secp::pedersen::RangeProof;
use grin_util::secp::{self, Signature};
use grin_util::static_secp_instance;
use grin_wallet_libwallet::{OutputStatus, ParticipantData, Slate, SlateState, TxLogEntryType};
use proptest::prelude::*;
use serde_derive::{Deserialize, Serialize};
use sha2::{Digest, Sha256};
use std::collections::BTreeSet;
use std::path::PathBuf;

#[derive(Clone, Debug, Serialize, Deserialize, PartialEq)]
pub enum Mutation {
	None,
	Amount(u64),
	Fee { shift: u8, fee: u64 },
	OffsetRandom([u8; 32]),
	OffsetZero,
	OffsetFlip(u8),
	KernelFeatures { feat: u8, arg: Option<u64> },
	Ttl(u64),
	State(u8),
	IdRandom([u8; 16]),
	IdOtherPending,
	NumParticipants(u8),
	/// which: 0 excess 1 nonce 2 part_sig ; with: 0 random 1 sender's own 2 (sig only) none
	Participant { which: u8, with: u8, seed: [u8; 32] },
	SwapParticipants,
	DropReplierEntry,
	DuplicateReplierEntry,
	DropReplierOutput,
	AddRandomOutput { seed: [u8; 32], value: u64 },
	ReplaceProof { seed: [u8; 32] },
	ReplaceOutput { seed: [u8; 32], value: u64 },
	AddInput { seed: [u8; 32], value: u64 },
	/// the replier adds an output of value 0 and compensates its blinding factor in the offset: the transaction still
	/// balances and every signature still verifies, but it is heavier than what the agreed fee pays for
	AddZeroValueOutput { seed: [u8; 32] },
	/// signature recomputed by an attacker who does not know the replier's key, over a slate with another fee
	PartSigFlip(u8),
	/// only the recipient's payment-proof signature is damaged (applicable when the send asked for a proof): every
	/// transaction-level check still passes, the refusal comes from the proof check alone
	PaymentProofSigFlip(u8),
	/// a dishonest recipient (played by wallet 1's real code on an altered first-round slate) builds its output for
	/// amount - delta and signs for fee + delta; relabel: 0 reply as produced, 1 reply relabelled Invoice2 carrying
	/// the altered fee (aims at the invoice branch of finalize, which takes the fee from the reply), 2 reply carrying
	/// the altered amount and fee with its own state
	ColludingRecipient { delta: u64, relabel: u8 },
}

#[derive(Clone, Debug, Serialize, Deserialize)]
pub struct Case {
	pub base: u8,
	pub pre: Vec<Op>,
	/// 0 standard 1 late-lock 2 self-send same account 3 self-send other account 4 invoice (wallet 0 payee finalizes)
	pub flow: u8,
	pub args: SendArgs,
	pub mutation: Mutation,
	pub acct: u8,
	/// after a refused altered reply, deliver the genuine reply instead of cancelling
	#[serde(default)]
	pub retry_honest: bool,
}

fn b32() -> impl Strategy<Value = [u8; 32]> {
	any::<[u8; 32]>()
}

fn mutation_strategy() -> BoxedStrategy<Mutation> {
	prop_oneof![
		6 => Just(Mutation::None),
		2 => prop_oneof![Just(1u64), Just(1u64 << 40), any::<u64>()].prop_map(Mutation::Amount),
		2 => (0u8..16, prop_oneof![Just(1u64), 1u64..100_000_000, Just((1u64 << 40) - 1)]).prop_map(|(shift, fee)| Mutation::Fee { shift, fee }),
		2 => b32().prop_map(Mutation::OffsetRandom),
		1 => Just(Mutation::OffsetZero),
		2 => any::<u8>().prop_map(Mutation::OffsetFlip),
		2 => (0u8..5, prop_oneof![Just(None), (0u64..20000).prop_map(Some)]).prop_map(|(feat, arg)| Mutation::KernelFeatures { feat, arg }),
		1 => prop_oneof![Just(1u64), Just(u64::MAX), 1u64..40].prop_map(Mutation::Ttl),
		2 => (0u8..7).prop_map(Mutation::State),
		1 => any::<[u8; 16]>().prop_map(Mutation::IdRandom),
		2 => Just(Mutation::IdOtherPending),
		2 => prop_oneof![Just(0u8), Just(1u8), Just(3u8), Just(255u8)].prop_map(Mutation::NumParticipants),
		6 => (0u8..3, 0u8..3, b32()).prop_map(|(which, with, seed)| Mutation::Participant { which, with, seed }),
		1 => Just(Mutation::SwapParticipants),
		1 => Just(Mutation::DropReplierEntry),
		1 => Just(Mutation::DuplicateReplierEntry),
		2 => Just(Mutation::DropReplierOutput),
		2 => (b32(), 1u64..1_000_000_000).prop_map(|(seed, value)| Mutation::AddRandomOutput { seed, value }),
		2 => b32().prop_map(|seed| Mutation::ReplaceProof { seed }),
		2 => (b32(), 1u64..100_000_000_000).prop_map(|(seed, value)| Mutation::ReplaceOutput { seed, value }),
		1 => (b32(), 1u64..100_000_000_000).prop_map(|(seed, value)| Mutation::AddInput { seed, value }),
		3 => b32().prop_map(|seed| Mutation::AddZeroValueOutput { seed }),
		2 => any::<u8>().prop_map(Mutation::PartSigFlip),
		3 => any::<u8>().prop_map(Mutation::PaymentProofSigFlip),
		4 => (prop_oneof![Just(1u64), Just(1_000_000u64), 1u64..50_000_000], 0u8..3).prop_map(|(delta, relabel)| Mutation::ColludingRecipient { delta, relabel }),
	]
	.boxed()
}

fn side_op_strategy() -> BoxedStrategy<Op> {
	let args = || send_args_strategy(false, true, false, false);
	prop_oneof![
		4 => (0u16..3, prop_oneof![3 => Just(0xffffu16), 1 => any::<u16>()]).prop_map(|(to, take)| Op::Mine { to, take }),
		2 => any::<u16>().prop_map(|w| Op::Refresh { w }),
		4 => (any::<u16>(), any::<u16>(), args()).prop_map(|(w, to, args)| Op::InitSend { w, to, args }),
		8 => any::<u16>().prop_map(|s| Op::Step { s }),
		1 => (any::<u16>(), any::<u16>(), any::<u16>()).prop_map(|(w, payer, amount)| Op::IssueInvoice { w, payer, amount }),
	]
	.boxed()
}

pub fn seckey(seed: &[u8; 32]) -> SecretKey {
	let secp = static_secp_instance();
	let secp = secp.lock();
	let mut s = *seed;
	loop {
		if let Ok(k) = SecretKey::from_slice(&secp, &s) {
			return k;
		}
		let d = Sha256::digest(&s);
		s.copy_from_slice(&d);
	}
}

pub fn pubkey(seed: &[u8; 32]) -> PublicKey {
	let k = seckey(seed);
	let secp = static_secp_instance();
	let secp = secp.lock();
	PublicKey::from_secret_key(&secp, &k).unwrap()
}

fn throwaway_keychain(seed: &[u8; 32]) -> ExtKeychain {
	ExtKeychain::from_seed(seed, false).unwrap()
}

fn build_output(seed: &[u8; 32], value: u64) -> Output {
	let kc = throwaway_keychain(seed);
	let kid = ExtKeychain::derive_key_id(3, 1, 2, 3, 0);
	let commit = kc.commit(value, &kid, SwitchCommitmentType::Regular).unwrap();
	let pb = grin_core::libtx::proof::ProofBuilder::new(&kc);
	let proof = grin_core::libtx::proof::create(&kc, &pb, value, &kid, SwitchCommitmentType::Regular, commit, None).unwrap();
	Output::new(OutputFeatures::Plain, commit, proof)
}

fn tx_bytes(tx: &Transaction) -> Vec<u8> {
	ser::ser_vec(tx, ser::ProtocolVersion(1)).unwrap_or_default()
}

fn input_commits(tx: &Transaction) -> BTreeSet<Vec<u8>> {
	let v: Vec<CommitWrapper> = tx.inputs().into();
	v.iter().map(|c| c.commitment().0.to_vec()).collect()
}

fn output_commits(tx: &Transaction) -> BTreeSet<Vec<u8>> {
	tx.outputs().iter().map(|o| o.commitment().0.to_vec()).collect()
}

/// Apply the mutation to a reply slate. `replier_idx`: index of the counterparty's participant entry.
fn mutate(reply: &mut Slate, m: &Mutation, other_pending: Option<uuid::Uuid>) -> bool {
	let secp_inst = static_secp_instance();
	// the counterparty's entry: the one carrying a partial signature
	let ridx = reply.participant_data.iter().position(|p| p.part_sig.is_some());
	match m {
		Mutation::None => {}
		Mutation::Amount(a) => reply.amount = *a,
		Mutation::Fee { shift, fee } => match FeeFields::new(*shift as u64, *fee) {
			Ok(f) => reply.fee_fields = f,
			Err(_) => return false,
		},
		Mutation::OffsetRandom(s) => reply.offset = BlindingFactor::from_secret_key(seckey(s)),
		Mutation::OffsetZero => reply.offset = BlindingFactor::zero(),
		Mutation::OffsetFlip(b) => {
			let mut bytes = [0u8; 32];
			bytes.copy_from_slice(reply.offset.as_ref());
			bytes[(*b as usize / 8) % 32] ^= 1 << (*b % 8);
			reply.offset = BlindingFactor::from_slice(&bytes);
		}
		Mutation::KernelFeatures { feat, arg } => {
			reply.kernel_features = *feat;
			reply.kernel_features_args = arg.map(|a| grin_wallet_libwallet::slate_versions::v4::KernelFeaturesArgsV4 { lock_hgt: a }).map(|a| (&a).into());
		}
		Mutation::Ttl(t) => reply.ttl_cutoff_height = *t,
		Mutation::State(s) => {
			reply.state = match s {
				0 => SlateState::Unknown,
				1 => SlateState::Standard1,
				2 => SlateState::Standard2,
				3 => SlateState::Standard3,
				4 => SlateState::Invoice1,
				5 => SlateState::Invoice2,
				_ => SlateState::Invoice3,
			}
		}
		Mutation::IdRandom(b) => reply.id = uuid::Uuid::from_bytes(*b),
		Mutation::IdOtherPending => match other_pending {
			Some(id) => reply.id = id,
			None => return false,
		},
		Mutation::NumParticipants(n) => reply.num_participants = *n,
		Mutation::Participant { which, with, seed } => {
			let ri = match ridx {
				Some(i) => i,
				None => return false,
			};
			match (which, with) {
				(0, 0) => reply.participant_data[ri].public_blind_excess = pubkey(seed),
				(1, 0) => reply.participant_data[ri].public_nonce = pubkey(seed),
				(2, 0) => {
					// a well-formed signature by an unrelated key over an unrelated message
					let k = seckey(seed);
					let secp = secp_inst.lock();
					let msg = secp::Message::from_slice(&Sha256::digest(seed)).unwrap();
					let sig = secp::aggsig::sign_single(&secp, &msg, &k, None, None, None, None, None).unwrap();
					reply.participant_data[ri].part_sig = Some(sig);
				}
				(2, 2) | (2, 1) => reply.participant_data[ri].part_sig = None,
				_ => return false,
			}
		}
		Mutation::SwapParticipants => {
			if reply.participant_data.len() >= 2 {
				reply.participant_data.swap(0, 1);
			} else {
				return false;
			}
		}
		Mutation::DropReplierEntry => match ridx {
			Some(i) => {
				reply.participant_data.remove(i);
			}
			None => return false,
		},
		Mutation::DuplicateReplierEntry => match ridx {
			Some(i) => {
				let p: ParticipantData = reply.participant_data[i].clone();
				reply.participant_data.push(p);
			}
			None => return false,
		},
		Mutation::DropReplierOutput => match reply.tx.as_mut() {
			Some(tx) if !tx.outputs().is_empty() => {
				let keep: Vec<Output> = tx.outputs().iter().skip(1).cloned().collect();
				*tx = Transaction::new(tx.inputs(), &keep, tx.kernels());
				tx.offset = reply.offset.clone();
			}
			_ => return false,
		},
		Mutation::AddRandomOutput { seed, value } => match reply.tx.as_mut() {
			Some(tx) => {
				*tx = tx.clone().with_output(build_output(seed, *value));
			}
			None => return false,
		},
		Mutation::ReplaceProof { seed } => match reply.tx.as_mut() {
			Some(tx) if !tx.outputs().is_empty() => {
				let mut outs: Vec<Output> = tx.outputs().to_vec();
				let mut p = outs[0].proof;
				for i in 0..32 {
					p.proof[10 + i] ^= seed[i] | 1;
				}
				outs[0] = Output::new(outs[0].features(), outs[0].commitment(), RangeProof { proof: p.proof, plen: p.plen });
				*tx = Transaction::new(tx.inputs(), &outs, tx.kernels());
			}
			_ => return false,
		},
		Mutation::ReplaceOutput { seed, value } => match reply.tx.as_mut() {
			Some(tx) if !tx.outputs().is_empty() => {
				let mut outs: Vec<Output> = tx.outputs().to_vec();
				outs[0] = build_output(seed, *value);
				*tx = Transaction::new(tx.inputs(), &outs, tx.kernels());
			}
			_ => return false,
		},
		Mutation::AddInput { seed, value } => match reply.tx.as_mut() {
			Some(tx) => {
				let o = build_output(seed, *value);
				let i = grin_core::core::Input::new(OutputFeatures::Plain, o.commitment());
				*tx = tx.clone().with_input(i);
			}
			None => return false,
		},
		Mutation::AddZeroValueOutput { seed } => match reply.tx.as_mut() {
			Some(tx) => {
				let kc = throwaway_keychain(seed);
				let kid = ExtKeychain::derive_key_id(3, 1, 2, 3, 0);
				let blind = match kc.derive_key(0, &kid, SwitchCommitmentType::Regular) {
					Ok(b) => b,
					Err(_) => return false,
				};
				*tx = tx.clone().with_output(build_output(seed, 0));
				let sum = grin_keychain::BlindSum::new()
					.add_blinding_factor(reply.offset.clone())
					.add_blinding_factor(BlindingFactor::from_secret_key(blind));
				reply.offset = match kc.blind_sum(&sum) {
					Ok(o) => o,
					Err(_) => return false,
				};
				tx.offset = reply.offset.clone();
			}
			None => return false,
		},
		Mutation::PartSigFlip(b) => match ridx {
			Some(i) => {
				let sig = reply.participant_data[i].part_sig.unwrap();
				let mut raw = [0u8; 64];
				raw.copy_from_slice(sig.as_ref());
				raw[(*b as usize / 8) % 64] ^= 1 << (*b % 8);
				reply.participant_data[i].part_sig = Some(Signature::from_raw_data(&raw).unwrap());
			}
			None => return false,
		},
		Mutation::ColludingRecipient { .. } => {}
		Mutation::PaymentProofSigFlip(b) => match reply.payment_proof.as_mut().and_then(|p| p.receiver_signature.as_mut()) {
			Some(sig) => {
				let mut raw = sig.to_bytes();
				raw[(*b as usize / 8) % 64] ^= 1 << (*b % 8);
				match ed25519_dalek::Signature::from_bytes(&raw) {
					Ok(s2) => *sig = s2,
					Err(_) => return false,
				}
			}
			None => return false,
		},
	}
	true
}

pub struct C02 {
	scratch: PathBuf,
	bases: Vec<PathBuf>,
	n: u64,
}

impl C02 {
	pub fn new(args: &Args) -> C02 {
		let mut bases = vec![];
		for v in 0..2u64 {
			let d = args.scratch.join(format!("c02.base{}", v));
			base::build(&d, &BaseSpec::standard(v * 2)).expect("base world");
			bases.push(d);
		}
		C02 {
			scratch: args.scratch.clone(),
			bases,
			n: 0,
		}
	}
}

fn mutation_name(m: &Mutation) -> String {
	let s = format!("{:?}", m);
	s.split(|c| c == '(' || c == ' ' || c == '{').next().unwrap_or("?").to_string()
}

impl Prop for C02 {
	type Case = Case;
	fn id(&self) -> &'static str {
		"C02"
	}
	fn cases(&self, tier: Tier) -> u64 {
		tier.pick(480, 12000)
	}
	fn shrink_iters(&self) -> u32 {
		48
	}
	fn strategy(&self, _tier: Tier) -> BoxedStrategy<Case> {
		(
			0u8..2,
			prop::collection::vec(side_op_strategy(), 0..6),
			prop_oneof![8 => Just(0u8), 3 => Just(1u8), 1 => Just(2u8), 1 => Just(3u8), 4 => Just(4u8)],
			send_args_strategy(false, false, true, true),
			mutation_strategy(),
			prop_oneof![3 => Just(0u8), 1 => Just(1u8)],
			prop::bool::weighted(0.4),
		)
			.prop_map(|(base, pre, flow, args, mutation, acct, retry_honest)| Case {
				base,
				pre,
				flow,
				args,
				mutation,
				acct,
				retry_honest,
			})
			.boxed()
	}
	fn rule(&self) -> String {
		"wallet 0 (history = base world + 0..5 generated side ops incl. other pending slates) reaches 'reply in hand' in one of 5 flows (standard, late-locked, self-send same/other account, invoice payee) with generated args (amount, strategy, 0..4 change outputs, includes-fee, proof, ttl); the reply is delivered honest or with one of 22 mutation kinds (amount, fee, offset, kernel features, ttl, state, id random/other pending, participant count, replier excess/nonce/partial signature replaced/dropped/flipped, entries swapped/dropped/duplicated, replier output dropped/replaced/proof corrupted, extra output/input). Oracle on Ok: tx.validate(AsTransaction); fee == agreed and >= tx_fee; own inputs in tx == reserved set; own outputs == recorded change (+ received output for self-send/invoice payee); stored tx byte-identical; honest: recipient output present, chain accepts it in a block. On Err: cancel succeeds and reserved inputs are spendable again. non-trivial = finalize reached with honest reply and >=1 change output, or with a mutated reply; distinct by (flow, mutation kind, args class)".into()
	}
	fn assumptions(&self) -> Vec<String> {
		vec![
			"a mutated reply may legitimately still finalize when no listed fact changes (e.g. amount/ttl field of the reply is ignored); then the Ok-oracle applies unchanged".into(),
			"honest replies must finalize in the standard, self-send and invoice flows (node up, outputs reserved); late-locked finalization may fail for lack of funds".into(),
		]
	}
	fn run(&mut self, c: &Case) -> Outcome {
		let mut out = Outcome::default();
		self.n += 1;
		let dir = self.scratch.join(format!("c02.case{}", self.n));
		let r = self.run_case(c, &dir, &mut out);
		let _ = std::fs::remove_dir_all(&dir);
		if let Err(e) = r {
			out.fail("c02:harness-error", e);
		}
		out
	}
}

impl C02 {
	fn run_case(&mut self, c: &Case, dir: &PathBuf, out: &mut Outcome) -> Result<(), String> {
		let mut sim = base::open_copy(&self.bases[c.base as usize % self.bases.len()], dir)?;
		sim.strict = true;
		let w = 0usize;
		let other = 1usize;
		let acct = c.acct as usize % ACCOUNTS.len();
		sim.switch_account(w, acct)?;
		for op in &c.pre {
			let _ = sim.apply(op);
		}
		sim.switch_account(w, acct)?;
		let _ = sim.refresh(w);
		let kc = truth::keychain_from_phrase(&sim.w(w).phrase)?;
		let mut args = c.args.clone();
		args.late_lock = c.flow == 1;
		if c.flow >= 2 {
			args.proof = false;
		}
		if let Mutation::PaymentProofSigFlip(_) = c.mutation {
			if c.flow <= 1 {
				args.proof = true;
			}
		}
		if c.flow == 1 && c.retry_honest {
			// a late-locked send that is retried after a refused reply must be able to select again if the wallet
			// (wrongly) tries to: keep the amount small and do not sweep the wallet
			args.use_all = false;
			if let AmountPick::Frac(f) = args.amount {
				args.amount = AmountPick::Frac(f % 6000 + 1);
			} else {
				args.amount = AmountPick::Frac(2000);
			}
		}
		let flow = c.flow;
		let mutation = if flow == 2 || flow == 3 { Mutation::None } else { c.mutation.clone() };
		out.class(format!("flow={}", flow));
		out.class(format!("mut={}", mutation_name(&mutation)));
		out.distinct_key = Some(format!("f{}:{}:ch{}:{}{}{}", flow, mutation_name(&mutation), args.change, args.use_all as u8, args.incl_fee as u8, args.proof as u8));

		// --- bring wallet 0 to "reply in hand"
		let prep: Result<usize, String> = (|| match flow {
			0 | 1 => {
				let si = sim.init_send(w, other, &args)?;
				if flow == 0 {
					sim.lock(si)?;
				}
				sim.deliver(si)?;
				Ok(si)
			}
			2 | 3 => {
				// self send: performed completely by the sim (no attacker in this flow)
				let si = sim.self_send(w, flow == 3, &args)?;
				Ok(si)
			}
			_ => {
				let amt = std::cmp::max(1, sim.spendable(other, 1) / 5);
				let si = sim.issue_invoice(w, other, amt)?;
				let mut a = args.clone();
				a.late_lock = false;
				a.ttl = None;
				sim.pay_invoice(si, &a)?;
				sim.lock(si)?;
				Ok(si)
			}
		})();
		let si = match prep {
			Ok(si) => si,
			Err(e) => {
				out.class("not-prepared");
				if (flow == 2 || flow == 3) && e.contains("Transaction error") {
					out.fail("c02:self-send-failed", format!("self send failed: {}", e));
				}
				crate::rt::dbg(&format!("not prepared: {}", e));
				return Ok(());
			}
		};
		let id = sim.slates[si].id;
		let victim_parent = sim.acct_parent(acct);

		// self-send flows are already finalized by the sim: judge the result
		if flow == 2 || flow == 3 {
			let s3 = sim.slates[si].s3.clone().ok_or("self send without final slate")?;
			self.judge_ok(&mut sim, w, si, &s3, &kc, true, None, None, out)?;
			return Ok(());
		}

		// --- facts before finalization
		let ctx = sim
			.w(w)
			.with(|b| b.get_private_context(None, id.as_bytes()))
			.map_err(|e| format!("no private context for pending slate: {}", e))?;
		let agreed_fee = if flow == 4 {
			sim.slates[si].s2.as_ref().map(|s| s.fee_fields.fee()).unwrap_or(0)
		} else {
			ctx.fee.map(|f| f.fee()).unwrap_or(0)
		};
		let mut reply = wire(sim.slates[si].s2.as_ref().ok_or("no reply")?)?;
		let other_pending = sim
			.slates
			.iter()
			.enumerate()
			.find(|(i, s)| *i != si && s.payer() == w && s.flow == Flow::Send && s.stage < Stage::Finalized && !s.is_cancelled())
			.map(|(_, s)| s.id);
		if let Mutation::ColludingRecipient { delta, relabel } = &mutation {
			if flow > 1 {
				out.class("mutation-not-applicable");
				return Ok(());
			}
			let mut s1x = wire(&sim.slates[si].s1)?;
			let fee0 = s1x.fee_fields.fee();
			let altered_fee = FeeFields::new(0, fee0.saturating_add(*delta));
			if s1x.amount <= *delta || altered_fee.is_err() {
				out.class("mutation-not-applicable");
				return Ok(());
			}
			s1x.amount -= *delta;
			s1x.fee_fields = altered_fee.unwrap();
			// the same slate id was already received into wallet 1's default account (the genuine reply): the dishonest
			// twin is produced in its other account
			match sim.w(other).foreign().receive_tx(&s1x, Some(ACCOUNTS[1]), None) {
				Ok(r) => reply = r,
				Err(e) => {
					out.class("colluding-recipient:not-produced");
					crate::rt::dbg(&format!("colluding reply not produced: {}", e));
					return Ok(());
				}
			}
			match relabel {
				1 => {
					reply.state = SlateState::Invoice2;
					reply.fee_fields = s1x.fee_fields.clone();
				}
				2 => {
					reply.amount = s1x.amount;
					reply.fee_fields = s1x.fee_fields.clone();
				}
				_ => {}
			}
			out.class(format!("colluding-recipient:relabel={}", relabel));
		}
		if !mutate(&mut reply, &mutation, other_pending) {
			out.class("mutation-not-applicable");
			return Ok(());
		}
		let reply = match wire(&reply) {
			Ok(r) => r,
			Err(_) => {
				out.class("mutation-not-encodable");
				return Ok(());
			}
		};
		let honest = mutation == Mutation::None;
		// with an honest reply in hand and retry_honest drawn, the user first tries with the wallet's other account
		// active (standard and invoice flows): the wallet either refuses - the pending transaction must be unharmed,
		// which the normal attempt below then shows - or it finalizes, and then that result is the one judged
		let mut early: Option<Result<Slate, String>> = None;
		if honest && c.retry_honest && (flow == 0 || flow == 4) {
			let other_acct = (acct + 1) % ACCOUNTS.len();
			let r: Result<Slate, String> = sim.with_account(w, other_acct, |sim| {
				if flow == 4 {
					sim.w(w).foreign().finalize_tx(&reply, false).map_err(|e| e.to_string())
				} else {
					sim.w(w).owner.finalize_tx(sim.w(w).m(), &reply).map_err(|e| e.to_string())
				}
			});
			match r {
				Ok(s3) => {
					out.class("finalize:other-account-active:ok");
					early = Some(Ok(s3));
				}
				Err(_) => out.class("finalize:other-account-active:refused"),
			}
		}
		let pre_view = snap::view(sim.w(w));
		// --- finalize
		let res: Result<Slate, String> = match early {
			Some(r) => r,
			None => sim.with_account(w, acct, |sim| {
				if flow == 4 {
					sim.w(w).foreign().finalize_tx(&reply, false).map_err(|e| e.to_string())
				} else {
					sim.w(w).owner.finalize_tx(sim.w(w).m(), &reply).map_err(|e| e.to_string())
				}
			}),
		};
		match res {
			Ok(s3) => {
				out.class(if honest { "finalize:honest-ok" } else { "finalize:mutated-ok" });
				let s = &mut sim.slates[si];
				s.tx = s3.tx.clone();
				s.s3 = Some(s3.clone());
				s.stage = Stage::Finalized;
				if flow == 1 {
					s.locked = true;
				}
				let target_id = if s3.id == id { id } else { s3.id };
				let _ = target_id;
				self.judge_ok(&mut sim, w, si, &s3, &kc, honest, Some(agreed_fee), Some(&ctx), out)?;
				if !honest || !ctx.output_ids.is_empty() || flow == 4 {
					out.nontrivial = true;
				}
			}
			Err(e) => {
				out.class(if honest { "finalize:honest-err" } else { "finalize:mutated-err" });
				if honest {
					// a late-locked send selects at finalize time: it may legitimately lack funds by then, nothing else
					let acceptable_late = flow == 1 && (e.contains("Not enough funds") || e.contains("Fee Error") || e.contains("Cannot split change"));
					let ttl_expired = e.contains("Expired");
					if !acceptable_late && !ttl_expired {
						out.fail("c02:honest-finalize-failed", format!("flow {} honest reply refused: {}", flow, e));
					}
				} else {
					out.nontrivial = true;
				}
				if !honest && c.retry_honest && !matches!(mutation, Mutation::IdRandom(_) | Mutation::IdOtherPending) {
					// the genuine reply arrives after the altered one was refused: it must finalize (standard and invoice
					// flows; a late-locked send may lack funds) and all facts must hold for the transaction returned
					let genuine = wire(sim.slates[si].s2.as_ref().ok_or("no reply")?)?;
					let res2: Result<Slate, String> = sim.with_account(w, acct, |sim| {
						if flow == 4 {
							sim.w(w).foreign().finalize_tx(&genuine, false).map_err(|e| e.to_string())
						} else {
							sim.w(w).owner.finalize_tx(sim.w(w).m(), &genuine).map_err(|e| e.to_string())
						}
					});
					match res2 {
						Ok(s3) => {
							out.class("retry-honest:ok");
							let s = &mut sim.slates[si];
							s.tx = s3.tx.clone();
							s.s3 = Some(s3.clone());
							s.stage = Stage::Finalized;
							s.locked = true;
							// exactly one live sent entry for the slate on the sender side
							if flow != 4 {
								let v = snap::view(sim.w(w));
								let n = v.txs.iter().filter(|t| t.tx_slate_id == Some(id) && t.tx_type == TxLogEntryType::TxSent).count();
								if n != 1 {
									out.fail("c02:retry:sent-entries", format!("{} TxSent entries for the slate after refused + genuine finalize", n));
								}
							}
							// for a late-locked send the context read before the first attempt has no inputs yet
							let ctx_opt = if flow == 1 { None } else { Some(&ctx) };
							self.judge_ok(&mut sim, w, si, &s3, &kc, true, Some(agreed_fee), ctx_opt, out)?;
						}
						Err(e2) => {
							out.class("retry-honest:err");
							let acceptable_late = flow == 1 && (e2.contains("Not enough funds") || e2.contains("Fee Error") || e2.contains("Cannot split change"));
							if !acceptable_late && !e2.contains("Expired") {
								out.fail("c02:honest-finalize-failed-after-refused-reply", format!("genuine reply refused after an altered one had been refused ({}): {}", e, e2));
							}
						}
					}
					if !out.fails.is_empty() {
						let hist = sim.history();
						for f in out.fails.iter_mut() {
							f.detail = format!("{}\n--- flow {} mutation {:?} then genuine reply; args {:?} ---\n{}", f.detail, flow, mutation, args, hist);
						}
					}
					return Ok(());
				}
				// the pending transaction can still be cancelled, and its inputs come back
				let v = snap::view(sim.w(w));
				let entry = v.txs.iter().find(|t| {
					t.tx_slate_id == Some(id) && t.parent_key_id == victim_parent && matches!(t.tx_type, TxLogEntryType::TxSent | TxLogEntryType::TxReceived)
				});
				if let Some(t) = entry {
					let reserved: Vec<_> = pre_view
						.outputs
						.iter()
						.filter(|o| o.root_key_id == victim_parent && o.tx_log_entry == Some(t.id) && o.status == OutputStatus::Locked)
						.cloned()
						.collect();
					let cr = sim.cancel(w, si, false);
					match cr {
						Ok(()) => {
							let v2 = snap::view(sim.w(w));
							for o in &reserved {
								match v2.outputs.iter().find(|x| x.key_id == o.key_id && x.mmr_index == o.mmr_index) {
									Some(x) if x.status == OutputStatus::Unspent => {}
									other => out.fail("c02:cancel-after-refused-finalize", format!("input {:?} not spendable again after cancel: {:?}", o.key_id, other.map(|x| x.status.clone()))),
								}
							}
						}
						Err(ce) => out.fail("c02:cannot-cancel-after-refused-finalize", format!("finalize refused ({}) and then cancel refused: {}", e, ce)),
					}
				} else if flow != 1 {
					out.fail("c02:entry-lost-after-refused-finalize", format!("no pending log entry for slate after refused finalize ({})", e));
				}
			}
		}
		if !out.fails.is_empty() {
			let hist = sim.history();
			for f in out.fails.iter_mut() {
				f.detail = format!("{}\n--- flow {} mutation {:?} args {:?} ---\n{}", f.detail, flow, mutation, args, hist);
			}
		}
		Ok(())
	}

	/// Oracle for a transaction returned by finalization.
	fn judge_ok(
		&mut self,
		sim: &mut Sim,
		w: usize,
		si: usize,
		s3: &Slate,
		kc: &ExtKeychain,
		honest: bool,
		agreed_fee: Option<u64>,
		ctx: Option<&grin_wallet_libwallet::Context>,
		out: &mut Outcome,
	) -> Result<(), String> {
		let tx = match &s3.tx {
			Some(t) => t.clone(),
			None => {
				out.fail("c02:no-tx", "finalize returned Ok without a transaction".to_string());
				return Ok(());
			}
		};
		let id = sim.slates[si].id;
		if let Err(e) = tx.validate(Weighting::AsTransaction) {
			out.fail("c02:invalid-tx", format!("finalized transaction does not validate: {:?}", e));
			return Ok(());
		}
		let min_fee = tx_fee(tx.inputs().len(), tx.outputs().len(), tx.kernels().len());
		if tx.fee() < min_fee {
			out.fail("c02:fee-below-minimum", format!("tx fee {} < minimum {}", tx.fee(), min_fee));
		}
		if let Some(f) = agreed_fee {
			if tx.fee() != f {
				out.fail("c02:fee-differs-from-agreed", format!("tx fee {} != agreed fee {}", tx.fee(), f));
			}
		}
		// own inputs / outputs
		let v = snap::view(sim.w(w));
		let my_commits: std::collections::BTreeMap<Vec<u8>, &grin_wallet_libwallet::OutputData> =
			v.outputs.iter().filter_map(|o| commit_of(o).map(|c| (c, o))).collect();
		let tx_in = input_commits(&tx);
		let tx_out = output_commits(&tx);
		let own_in: BTreeSet<Vec<u8>> = tx_in.iter().filter(|c| my_commits.contains_key(*c)).cloned().collect();
		let own_out: BTreeSet<Vec<u8>> = tx_out.iter().filter(|c| my_commits.contains_key(*c)).cloned().collect();
		// entries of this slate in this wallet
		let sent = v.txs.iter().find(|t| t.tx_slate_id == Some(id) && t.tx_type == TxLogEntryType::TxSent);
		let recv = v.txs.iter().find(|t| t.tx_slate_id == Some(id) && t.tx_type == TxLogEntryType::TxReceived);
		let mut want_in: BTreeSet<Vec<u8>> = BTreeSet::new();
		let mut want_out: BTreeSet<Vec<u8>> = BTreeSet::new();
		if let Some(t) = sent {
			for o in v.outputs.iter().filter(|o| o.root_key_id == t.parent_key_id && o.tx_log_entry == Some(t.id)) {
				if let Some(c) = commit_of(o) {
					match o.status {
						OutputStatus::Locked | OutputStatus::Spent => {
							want_in.insert(c);
						}
						OutputStatus::Unconfirmed | OutputStatus::Unspent => {
							want_out.insert(c);
						}
						_ => {}
					}
				}
			}
		}
		if let Some(t) = recv {
			for o in v.outputs.iter().filter(|o| o.root_key_id == t.parent_key_id && o.tx_log_entry == Some(t.id)) {
				if let Some(c) = commit_of(o) {
					want_out.insert(c);
				}
			}
		}
		if let Some(ctx) = ctx {
			// the context read before finalization is the independent statement of what was reserved
			if !ctx.input_ids.is_empty() {
				let ci: BTreeSet<Vec<u8>> = ctx
					.input_ids
					.iter()
					.map(|(k, _, val)| kc.commit(*val, k, SwitchCommitmentType::Regular).unwrap().0.to_vec())
					.collect();
				if ci != want_in {
					out.fail("c02:reserved-differs-from-context", format!("outputs reserved for the entry ({}) differ from the inputs in the stored context ({})", want_in.len(), ci.len()));
				}
			}
		}
		if own_in != want_in {
			out.fail(
				"c02:inputs-not-exactly-reserved",
				format!("own inputs in tx: {} ; reserved for this transaction: {} (tx has {} inputs)", own_in.len(), want_in.len(), tx_in.len()),
			);
		}
		if own_out != want_out {
			out.fail(
				"c02:own-outputs-not-exactly-recorded",
				format!("own outputs in tx: {} ; recorded for this transaction: {} (tx has {} outputs)", own_out.len(), want_out.len(), tx_out.len()),
			);
		}
		// stored transaction identical
		let stored = sim.w(w).owner.get_stored_tx(sim.w(w).m(), None, Some(&id));
		match stored {
			Ok(Some(st)) => match st.tx {
				Some(stx) => {
					if tx_bytes(&stx) != tx_bytes(&tx) {
						out.fail("c02:stored-tx-differs", "the stored transaction is not byte-identical to the finalized one".to_string());
					}
				}
				None => out.fail("c02:stored-tx-missing", "stored slate without tx".to_string()),
			},
			other => out.fail("c02:stored-tx-missing", format!("get_stored_tx: {:?}", other.map(|o| o.is_some()).map_err(|e| e.to_string()))),
		}
		if honest {
			// recipient's output with the agreed amount (two-party flows)
			let rec = sim.slates[si].clone();
			if rec.initiator != rec.responder {
				let payee = rec.payee();
				let pv = snap::view(sim.w(payee));
				let r_entry = pv.txs.iter().find(|t| t.tx_slate_id == Some(id) && t.tx_type == TxLogEntryType::TxReceived);
				match r_entry {
					Some(t) => {
						let outs: Vec<_> = pv.outputs.iter().filter(|o| o.root_key_id == t.parent_key_id && o.tx_log_entry == Some(t.id)).collect();
						let ok = outs.len() == 1 && commit_of(outs[0]).map(|c| tx_out.contains(&c)).unwrap_or(false);
						if !ok {
							out.fail("c02:recipient-output-missing", "the recipient's recorded output is not in the finalized transaction".to_string());
						} else if let Some(ctx) = ctx {
							if rec.flow == Flow::Send && outs[0].value != ctx.amount {
								out.fail("c02:recipient-amount", format!("recipient output value {} != agreed amount {}", outs[0].value, ctx.amount));
							}
						}
					}
					None => out.fail("c02:recipient-entry-missing", "recipient has no receive entry".to_string()),
				}
			}
			// chain accepts it
			if out.fails.is_empty() {
				match sim.world.chain.validate_tx(&tx) {
					Ok(()) => {
						let before = sim.world.height();
						match sim.world.mine(None, &[tx.clone()]) {
							Ok(_) => {
								if sim.world.height() != before + 1 {
									out.fail("c02:block-not-accepted", "block with the transaction did not extend the chain".to_string());
								}
							}
							Err(e) => out.fail("c02:chain-rejects-honest-tx", format!("block with honest transaction rejected: {}", e)),
						}
					}
					Err(e) => out.fail("c02:chain-rejects-honest-tx", format!("validate_tx: {:?}", e)),
				}
			}
		}
		Ok(())
	}
}

pub fn run(args: &Args, rep: &mut Report) {
	let mut p = C02::new(args);
	run_part(&mut p, args, rep);
}

pub fn replay(args: &Args, _part: &str, case: &serde_json::Value) -> Result<Outcome, String> {
	replay_part(&mut C02::new(args), case)
}
