//! C03 — reserved outputs are exclusive; repeated protocol steps have no further effect.

use crate::base::{self, BaseSpec};
use crate::rt::*;
use crate::sim::*;
use crate::snap::{self, View};
use grin_wallet_libwallet::{OutputStatus, TxLogEntryType};
use proptest::prelude::*;
use serde_derive::{Deserialize, Serialize};
use std::collections::{BTreeMap, BTreeSet};
use std::path::PathBuf;

#[derive(Clone, Debug, Serialize, Deserialize)]
pub struct Case {
	pub base: u8,
	/// 0 none; 1: wallet 0 starts with a locked pending send in EACH of its two accounts
	#[serde(default)]
	pub preset: u8,
	pub ops: Vec<Op>,
}

fn op_strategy() -> BoxedStrategy<Op> {
	// mostly small smallest-first sends so that several transactions can be live at once
	let args = || {
		(send_args_strategy(false, true, false, false), prop::bool::weighted(0.75), 1u16..9000).prop_map(|(mut a, small, f)| {
			if small {
				a.use_all = false;
				a.amount = AmountPick::Frac(f);
			}
			a
		})
	};
	prop_oneof![
		6 => (0u16..3, prop_oneof![3 => Just(0xffffu16), 1 => any::<u16>()]).prop_map(|(to, take)| Op::Mine { to, take }),
		4 => any::<u16>().prop_map(|w| Op::Refresh { w }),
		14 => (any::<u16>(), any::<u16>(), args()).prop_map(|(w, to, args)| Op::InitSend { w, to, args }),
		12 => any::<u16>().prop_map(|s| Op::Lock { s }),
		10 => any::<u16>().prop_map(|s| Op::Deliver { s }),
		10 => any::<u16>().prop_map(|s| Op::Finalize { s }),
		6 => any::<u16>().prop_map(|s| Op::Post { s }),
		8 => any::<u16>().prop_map(|s| Op::Step { s }),
		4 => (any::<u16>(), any::<bool>(), any::<bool>()).prop_map(|(s, by_sender, by_slate_id)| Op::Cancel { s, by_sender, by_slate_id }),
		2 => (any::<u16>(), any::<u16>(), any::<u16>()).prop_map(|(w, payer, amount)| Op::IssueInvoice { w, payer, amount }),
		3 => (any::<u16>(), args()).prop_map(|(s, args)| Op::PayInvoice { s, args }),
		2 => any::<u16>().prop_map(|s| Op::FinalizeInvoice { s }),
		5 => (any::<u16>(), any::<u16>()).prop_map(|(w, acct)| Op::SwitchAccount { w, acct }),
		5 => any::<u16>().prop_map(|s| Op::FinalizeTampered { s }),
		4 => any::<u16>().prop_map(|s| Op::RefinalizeOtherReply { s }),
	]
	.boxed()
}

pub struct C03 {
	scratch: PathBuf,
	bases: Vec<PathBuf>,
	n: u64,
	tier: Tier,
}

impl C03 {
	pub fn new(args: &Args) -> C03 {
		let mut bases = vec![];
		for v in 0..2u64 {
			let d = args.scratch.join(format!("c03.base{}", v));
			base::build(&d, &BaseSpec::standard(v)).expect("base world");
			bases.push(d);
		}
		// equal mining history in both accounts: per-account log ids collide
		let d = args.scratch.join("c03.base2");
		base::build(&d, &BaseSpec::balanced()).expect("base world");
		bases.push(d);
		C03 {
			scratch: args.scratch.clone(),
			bases,
			n: 0,
			tier: args.tier,
		}
	}
}

/// light projection for "no further effect": outputs (key,status,value), entries (id,type,slate), count of contexts is checked via deep diff
fn proj(v: &View) -> (Vec<(Vec<u8>, Option<u64>, String, u64, Option<u32>)>, Vec<(Vec<u8>, u32, String, Option<uuid::Uuid>, bool)>) {
	(
		v.outputs
			.iter()
			.map(|o| (o.key_id.to_bytes().to_vec(), o.mmr_index, snap::status_name(&o.status).to_string(), o.value, o.tx_log_entry))
			.collect(),
		v.txs
			.iter()
			.map(|t| (t.parent_key_id.to_bytes().to_vec(), t.id, format!("{:?}", t.tx_type), t.tx_slate_id, t.confirmed))
			.collect(),
	)
}

/// Invariants over one wallet's state.
fn check_wallet(sim: &Sim, w: usize, out: &mut Outcome) -> Result<usize, String> {
	let v = snap::view(sim.w(w));
	// live outgoing entries
	let live: Vec<&grin_wallet_libwallet::TxLogEntry> = v
		.txs
		.iter()
		.filter(|t| t.tx_type == TxLogEntryType::TxSent && !t.confirmed)
		.collect();
	// at most one TxSent entry per slate id and account
	let mut seen: BTreeSet<(Vec<u8>, uuid::Uuid)> = BTreeSet::new();
	for t in v.txs.iter().filter(|t| matches!(t.tx_type, TxLogEntryType::TxSent | TxLogEntryType::TxSentCancelled)) {
		if let Some(id) = t.tx_slate_id {
			if !seen.insert((t.parent_key_id.to_bytes().to_vec(), id)) && t.tx_type == TxLogEntryType::TxSent {
				// two sent entries for one slate in one account (a cancelled + a new live one is legitimate re-use only if the first is cancelled)
				let n_live = v
					.txs
					.iter()
					.filter(|x| x.tx_slate_id == Some(id) && x.parent_key_id == t.parent_key_id && x.tx_type == TxLogEntryType::TxSent)
					.count();
				if n_live > 1 {
					out.fail("c03:duplicate-sent-entry", format!("wallet {}: {} live TxSent entries for slate {}", w, n_live, id));
				}
			}
		}
	}
	let mut rseen: BTreeMap<(Vec<u8>, uuid::Uuid), usize> = BTreeMap::new();
	for t in v.txs.iter().filter(|t| t.tx_type == TxLogEntryType::TxReceived) {
		if let Some(id) = t.tx_slate_id {
			*rseen.entry((t.parent_key_id.to_bytes().to_vec(), id)).or_insert(0) += 1;
		}
	}
	for ((_, id), n) in rseen {
		if n > 1 {
			out.fail("c03:duplicate-received-entry", format!("wallet {}: {} TxReceived entries for slate {}", w, n, id));
		}
	}
	// inputs of each live outgoing transaction, from the stored transaction
	let mut owner_of: BTreeMap<Vec<u8>, (u32, uuid::Uuid)> = BTreeMap::new();
	let commit_to_out: BTreeMap<Vec<u8>, &grin_wallet_libwallet::OutputData> = v.outputs.iter().filter_map(|o| commit_of(o).map(|c| (c, o))).collect();
	for t in &live {
		let sid = match t.tx_slate_id {
			Some(s) => s,
			None => continue,
		};
		let stored = sim.w(w).with(|b| b.get_stored_tx(&format!("{}", sid)));
		let tx = match stored {
			Ok(Some(tx)) => tx,
			_ => continue,
		};
		let ins: Vec<grin_core::core::transaction::CommitWrapper> = tx.inputs().into();
		for i in ins {
			let c = i.commitment().0.to_vec();
			// only this wallet's own outputs matter
			let o = match commit_to_out.get(&c) {
				Some(o) => *o,
				None => continue,
			};
			if let Some((other_id, other_slate)) = owner_of.get(&c) {
				if *other_slate != sid {
					out.fail(
						"c03:shared-input",
						format!("wallet {}: output {} (value {}) is an input of two live transactions: log {} (slate {}) and log {} (slate {})", w, o.n_child, o.value, other_id, other_slate, t.id, sid),
					);
				}
			} else {
				owner_of.insert(c.clone(), (t.id, sid));
			}
			if !(o.status == OutputStatus::Locked || o.status == OutputStatus::Spent) {
				out.fail(
					"c03:live-input-not-reserved",
					format!("wallet {}: output {} is an input of live transaction log {} but is recorded {:?}", w, o.n_child, t.id, o.status),
				);
			}
		}
	}
	Ok(live.len())
}

impl Prop for C03 {
	type Case = Case;
	fn id(&self) -> &'static str {
		"C03"
	}
	fn cases(&self, tier: Tier) -> u64 {
		tier.pick(320, 8000)
	}
	fn shrink_iters(&self) -> u32 {
		self.tier.pick(64, 128)
	}
	fn strategy(&self, tier: Tier) -> BoxedStrategy<Case> {
		let n = tier.pick(16usize, 26usize);
		(0u8..3, prop_oneof![6 => Just(0u8), 2 => Just(1u8), 1 => Just(2u8), 1 => Just(3u8), 1 => Just(4u8)], prop::collection::vec(op_strategy(), 4..n))
			.prop_map(|(base, preset, ops)| Case { base, preset, ops })
			.boxed()
	}
	fn rule(&self) -> String {
		"histories of 4..16 (thorough 26) ops over 2 wallets with several concurrent slates, protocol steps in ANY order incl. repeats (init incl. late-locked, lock, deliver, finalize, finalize with a corrupted reply followed by the genuine one, post, cancel, invoice issue/pay/finalize, account switches on worlds where per-account log ids collide, mine, refresh); after every step, per wallet: inputs (read from the stored transaction of each live TxSent entry) of distinct live outgoing transactions are disjoint, every such input is recorded Locked/Spent, at most one live TxSent / one TxReceived entry per slate and account; a repeated lock/deliver/finalize returns Err or leaves outputs+log+raw DB unchanged; non-trivial = two slates of one wallet simultaneously between init and confirmation, or a repeated step; distinct by case hash".into()
	}
	fn assumptions(&self) -> Vec<String> {
		vec!["two init_send_tx calls may select the same coins before either is locked (statement: 'once the wallet has reserved'); only a second reservation is flagged".into()]
	}
	fn run(&mut self, c: &Case) -> Outcome {
		let mut out = Outcome::default();
		self.n += 1;
		let dir = self.scratch.join(format!("c03.case{}", self.n));
		let r = self.run_case(c, &dir, &mut out);
		let _ = std::fs::remove_dir_all(&dir);
		if let Err(e) = r {
			out.fail("c03:harness-error", e);
		}
		out
	}
}

impl C03 {
	fn run_case(&mut self, c: &Case, dir: &PathBuf, out: &mut Outcome) -> Result<(), String> {
		let mut sim = base::open_copy(&self.bases[c.base as usize % self.bases.len()], dir)?;
		sim.strict = false;
		if c.preset == 1 {
			// a locked pending send in each account of wallet 0 (on the balanced base their log ids coincide)
			for a in 0..ACCOUNTS.len() {
				let _ = sim.switch_account(0, a);
				let args = SendArgs { amount: AmountPick::Frac(3000), use_all: false, ..SendArgs::default() };
				if let Ok(si) = sim.init_send(0, 1, &args) {
					let _ = sim.lock(si);
				}
			}
			let _ = sim.switch_account(0, 0);
			out.class("preset:two-accounts-locked");
		}
		if c.preset == 2 {
			// a late-locked send with a payment proof whose first reply arrives with a damaged proof signature (refused
			// after the reservation), followed by the genuine reply
			let args = SendArgs { amount: AmountPick::Frac(2000), use_all: false, late_lock: true, proof: true, ..SendArgs::default() };
			if let Ok(si) = sim.init_send(0, 1, &args) {
				if sim.deliver(si).is_ok() {
					let _ = sim.finalize_tampered(si);
					let _ = sim.finalize(si);
				}
			}
			out.class("preset:late-lock-proof-refused-then-genuine");
		}
		if c.preset == 3 || c.preset == 4 {
			// an invoice issued by wallet 0, paid and reserved by wallet 1, finalized by wallet 0 ...
			let amt = std::cmp::max(1, sim.spendable(1, 1) / 6);
			let r: Result<usize, String> = (|| {
				let si = sim.issue_invoice(0, 1, amt)?;
				sim.pay_invoice(si, &SendArgs::default())?;
				sim.lock(si)?;
				sim.finalize_invoice(si)?;
				Ok(si)
			})();
			if let Ok(si) = r {
				if c.preset == 3 {
					// ... then a second, different reply (the payer's other account paid the same invoice) reaches the issuer
					let rr = sim.refinalize_other_reply(si);
					crate::rt::dbg(&format!("preset 3: second reply to the finalized invoice -> {:?}", rr));
					if let Err(e) = rr {
						if e.contains("accepted") {
							out.fail("c03:finalized-slate-finalized-again", format!("preset invoice: {}", e));
						}
					}
					out.class("preset:invoice-finalized-then-other-reply");
				} else {
					// ... posted, mined, seen confirmed by both; then the payer is handed the reserve step once more
					let done: Result<(), String> = (|| {
						sim.post(si)?;
						sim.mine(None, 0xffff)?;
						for w in 0..2 {
							sim.refresh(w)?;
						}
						Ok(())
					})();
					if done.is_ok() && sim.slates[si].mined_at.is_some() {
						let before = snap::view(sim.w(1));
						if sim.lock(si).is_ok() && proj(&before) != proj(&snap::view(sim.w(1))) {
							out.fail("c03:lock-repeat-had-effect", "preset invoice: the reserve step repeated after the payment was mined and seen confirmed succeeded and changed the payer's outputs / log".to_string());
						}
					}
					out.class("preset:invoice-mined-then-lock-again");
				}
			}
		}
		for op in &c.ops {
			let views_before = sim.views();
			let deep_before: Vec<serde_json::Value> = match op {
				Op::Lock { .. } | Op::Deliver { .. } | Op::Finalize { .. } | Op::Step { .. } | Op::PayInvoice { .. } | Op::FinalizeInvoice { .. } => (0..sim.world.wallets.len())
					.map(|w| snap::deep(sim.w(w), &self.scratch))
					.collect::<Result<_, _>>()?,
				_ => vec![],
			};
			let r = sim.apply(op);
			out.class(format!("op:{}:{}", r.kind, match &r.result { Some(Ok(_)) => "ok", Some(Err(_)) => "err", None => "noop" }));
			if r.kind == "refinalize-other-reply" {
				if let Some(e) = r.err() {
					if e.contains("accepted") {
						out.fail("c03:finalized-slate-finalized-again", format!("{:?}: {}", op, e));
					}
				} else if r.ok() {
					out.nontrivial = true;
				}
			}
			if r.kind == "finalize-tampered" {
				out.nontrivial = true;
				if let Some(e) = r.err() {
					if e.contains("tampered reply was accepted") {
						out.fail("c03:tampered-reply-accepted", format!("{:?}: {}", op, e));
					}
				}
			}
			// repeated step: error, or no further effect
			if r.kind.ends_with("-repeat") {
				out.nontrivial = true;
				if r.ok() {
					let w = r.wallet.unwrap();
					let after = snap::view(sim.w(w));
					if proj(&views_before[w]) != proj(&after) {
						out.fail(
							format!("c03:{}-had-effect", r.kind),
							format!("repeating {:?} succeeded and changed wallet {}: outputs/log before {:?} after {:?}", op, w, proj(&views_before[w]).1, proj(&after).1),
						);
					} else if !deep_before.is_empty() {
						let d = snap::diff_filtered(&deep_before[w], &snap::deep(sim.w(w), &self.scratch)?, &['d', 'c', 'l']);
						if !d.is_empty() {
							out.class("repeat-ok-with-db-change");
							// a repeated step may legitimately refresh (last confirmed height); anything touching outputs/log/contexts is an effect
							if d.iter().any(|x| x.contains("db/o:") || x.contains("db/t:") || x.contains("db/p:") || x.contains("db/i:")) {
								out.fail(format!("c03:{}-had-effect", r.kind), format!("repeating {:?} succeeded and changed records: {:?}", op, d));
							}
						}
					}
				}
			}
			let mut max_live = 0;
			for w in 0..sim.world.wallets.len() {
				max_live = std::cmp::max(max_live, check_wallet(&sim, w, out)?);
			}
			if max_live >= 2 {
				out.nontrivial = true;
				out.class("two-live-outgoing");
			}
			if !out.fails.is_empty() {
				break;
			}
		}
		if !out.fails.is_empty() {
			let hist = sim.history();
			for f in out.fails.iter_mut() {
				f.detail = format!("{}\n--- history ---\n{}", f.detail, hist);
			}
		}
		Ok(())
	}
}

pub fn run(args: &Args, rep: &mut Report) {
	let mut p = C03::new(args);
	run_part(&mut p, args, rep);
}

pub fn replay(args: &Args, _part: &str, case: &serde_json::Value) -> Result<Outcome, String> {
	replay_part(&mut C03::new(args), case)
}
