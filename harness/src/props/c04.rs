//! C04 — after a successful refresh the wallet's books equal the chain's truth.

use crate::base::{self, BaseSpec};
use crate::rt::*;
use crate::sim::*;
use crate::snap;
use crate::truth::{self, Owned};
use grin_core::global;
use grin_keychain::ExtKeychain;
use grin_util::ToHex;
use grin_wallet_libwallet::{OutputStatus, TxLogEntry};
use proptest::prelude::*;
use serde_derive::{Deserialize, Serialize};
use std::collections::BTreeMap;
use std::path::PathBuf;

#[derive(Clone, Debug, Serialize, Deserialize)]
pub struct Case {
	pub base: u8,
	pub ops: Vec<Op>,
	/// 0 none; 1 / 2: the history starts on the world where both accounts of wallet 0 have the same past (so their
	/// per-account log ids coincide) with a pending send in each account, reserved (1) or finalized but not posted (2); 3: as 2, then the first of them is cancelled by its sender
	#[serde(default)]
	pub preset: u8,
}

pub fn op_strategy() -> BoxedStrategy<Op> {
	let args = || send_args_strategy(false, true, true, false);
	prop_oneof![
		16 => (0u16..3, prop_oneof![3 => Just(0xffffu16), 1 => any::<u16>()]).prop_map(|(to, take)| Op::Mine { to, take }),
		10 => any::<u16>().prop_map(|w| Op::Refresh { w }),
		1 => Just(Op::NodeDown),
		3 => Just(Op::NodeUp),
		2 => (0u8..12).prop_map(|after| Op::NodeFlaky { after }),
		4 => (any::<u16>(), any::<u16>()).prop_map(|(w, acct)| Op::SwitchAccount { w, acct }),
		10 => (any::<u16>(), any::<u16>(), args()).prop_map(|(w, to, args)| Op::InitSend { w, to, args }),
		30 => any::<u16>().prop_map(|s| Op::Step { s }),
		2 => any::<u16>().prop_map(|s| Op::Lock { s }),
		2 => any::<u16>().prop_map(|s| Op::Deliver { s }),
		2 => any::<u16>().prop_map(|s| Op::Finalize { s }),
		3 => any::<u16>().prop_map(|s| Op::Post { s }),
		2 => (any::<u16>(), any::<bool>(), any::<bool>()).prop_map(|(s, by_sender, by_slate_id)| Op::Cancel { s, by_sender, by_slate_id }),
		3 => (any::<u16>(), any::<u16>(), any::<u16>()).prop_map(|(w, payer, amount)| Op::IssueInvoice { w, payer, amount }),
		3 => (any::<u16>(), args()).prop_map(|(s, args)| Op::PayInvoice { s, args }),
		1 => any::<u16>().prop_map(|s| Op::FinalizeInvoice { s }),
		3 => (any::<u16>(), any::<bool>(), args()).prop_map(|(w, other_acct, args)| Op::SelfSend { w, other_acct, args }),
		2 => any::<u16>().prop_map(|w| Op::Restart { w }),
		3 => any::<u16>().prop_map(|w| Op::ZeroConfRelay { w }),
		2 => any::<u16>().prop_map(|s| Op::FinalizeTampered { s }),
		2 => any::<u8>().prop_map(|n| Op::LongWait { n }),
	]
	.boxed()
}

pub struct C04 {
	scratch: PathBuf,
	bases: Vec<PathBuf>,
	n: u64,
	tier: Tier,
}

impl C04 {
	pub fn new(args: &Args) -> C04 {
		let mut bases = vec![];
		for v in 0..3u64 {
			let d = args.scratch.join(format!("c04.base{}", v));
			base::build(&d, &BaseSpec::standard(v)).expect("base world");
			bases.push(d);
		}
		let d = args.scratch.join("c04.base3");
		base::build(&d, &BaseSpec::balanced()).expect("base world");
		bases.push(d);
		C04 {
			scratch: args.scratch.clone(),
			bases,
			n: 0,
			tier: args.tier,
		}
	}
}

fn acct_of_parent(sim: &Sim, p: &grin_keychain::Identifier) -> Option<usize> {
	(0..ACCOUNTS.len()).find(|a| &sim.acct_parent(*a) == p)
}

/// Check the books of wallet `w`, account `acct` (must be active and freshly refreshed) against the chain.
pub fn check_books(sim: &Sim, w: usize, acct: usize, kc: &ExtKeychain, out: &mut Outcome, tag: &str) -> Result<(usize, usize), String> {
	check_books_of(sim, sim.w(w), w, acct, kc, out, tag)
}

/// Same, for an explicitly given handle of wallet `w` (e.g. a reopened copy of its directory).
pub fn check_books_of(sim: &Sim, wal: &crate::world::Wal, w: usize, acct: usize, kc: &ExtKeychain, out: &mut Outcome, tag: &str) -> Result<(usize, usize), String> {
	let chain = &sim.world.chain;
	let h = sim.world.height();
	let owned = truth::owned_utxos(chain, kc)?;
	let parent = sim.acct_parent(acct);
	// G: owned outputs addressed to this account
	let g: Vec<&Owned> = owned
		.iter()
		.filter(|o| {
			let a = match sim.addressed.get(&o.commit.0.to_vec()) {
				Some((_, a)) => Some(*a),
				None => acct_of_parent(sim, &o.parent),
			};
			a == Some(acct)
		})
		.collect();
	let gmap: BTreeMap<Vec<u8>, &Owned> = g.iter().map(|o| (o.commit.0.to_vec(), *o)).collect();
	let v = snap::view(wal);
	let mine: Vec<&grin_wallet_libwallet::OutputData> = v
		.outputs
		.iter()
		.filter(|o| o.root_key_id == parent && (o.status == OutputStatus::Unspent || o.status == OutputStatus::Locked))
		.collect();
	let mut statuses = std::collections::BTreeSet::new();
	for o in v.outputs.iter().filter(|o| o.root_key_id == parent) {
		statuses.insert(snap::status_name(&o.status));
	}
	let mut wmap: BTreeMap<Vec<u8>, &grin_wallet_libwallet::OutputData> = BTreeMap::new();
	for o in &mine {
		match commit_of(o) {
			Some(c) => {
				if wmap.insert(c, o).is_some() {
					out.fail(format!("c04:{}:duplicate-record", tag), format!("two live records for one commitment in wallet {} acct {}", w, acct));
				}
			}
			None => out.fail(format!("c04:{}:record-without-commit", tag), format!("{:?}", o)),
		}
	}
	for (c, o) in &wmap {
		match gmap.get(c) {
			None => {
				let on_chain = owned.iter().any(|x| &x.commit.0.to_vec() == c);
				out.fail(
					format!("c04:{}:{}", tag, if on_chain { "booked-under-wrong-account" } else { "live-record-not-in-utxo-set" }),
					format!("wallet {} acct {} records {:?} {} value {} (height {}) but the chain's unspent set for this account does not contain it (tip {})", w, acct, o.status, o.key_id.to_hex(), o.value, o.height, h),
				);
			}
			Some(t) => {
				if t.value != o.value || t.height != o.height || t.is_coinbase != o.is_coinbase {
					out.fail(
						format!("c04:{}:record-differs-from-chain", tag),
						format!("wallet {} acct {}: record value/height/coinbase {}/{}/{} vs chain {}/{}/{}", w, acct, o.value, o.height, o.is_coinbase, t.value, t.height, t.is_coinbase),
					);
				}
			}
		}
	}
	for (c, t) in &gmap {
		if !wmap.contains_key(c) {
			out.fail(
				format!("c04:{}:utxo-not-recorded-live", tag),
				format!("chain holds unspent output value {} height {} for wallet {} acct {} which the wallet does not record as unspent/locked (tip {})", t.value, t.height, w, acct, h),
			);
		}
	}
	// figures
	let mat = global::coinbase_maturity();
	for min_conf in [1u64, 2, mat + 2].iter() {
		let info = wal
			.owner
			.retrieve_summary_info(wal.m(), false, *min_conf)
			.map_err(|e| e.to_string())?
			.1;
		let (mut locked, mut immature, mut awaiting, mut spendable) = (0u128, 0u128, 0u128, 0u128);
		for (c, t) in &gmap {
			let is_locked = wmap.get(c).map(|o| o.status == OutputStatus::Locked).unwrap_or(false);
			if is_locked {
				locked += t.value as u128;
			} else if t.is_coinbase && t.height + mat > h {
				immature += t.value as u128;
			} else if h - t.height + 1 < *min_conf {
				awaiting += t.value as u128;
			} else {
				spendable += t.value as u128;
			}
		}
		let total = spendable + awaiting + immature;
		let got = (
			info.amount_locked as u128,
			info.amount_immature as u128,
			info.amount_awaiting_confirmation as u128,
			info.amount_currently_spendable as u128,
			info.total as u128,
		);
		let want = (locked, immature, awaiting, spendable, total);
		if got != want && out.fails.iter().all(|f| !f.sig.starts_with(&format!("c04:{}:", tag))) {
			out.fail(
				format!("c04:{}:figures", tag),
				format!("wallet {} acct {} min_conf {} tip {}: reported (locked,immature,awaiting,spendable,total) = {:?}, chain says {:?}", w, acct, min_conf, h, got, want),
			);
		}
		if info.last_confirmed_height != h {
			out.fail(format!("c04:{}:height", tag), format!("last_confirmed_height {} != tip {} after successful refresh", info.last_confirmed_height, h));
		}
		if *min_conf == 1 {
			// ledger equation
			let txs: Vec<&TxLogEntry> = v.txs.iter().filter(|t| t.parent_key_id == parent).collect();
			let cr: u128 = txs.iter().filter(|t| t.confirmed).map(|t| t.amount_credited as u128).sum();
			let db: u128 = txs.iter().filter(|t| t.confirmed).map(|t| t.amount_debited as u128).sum();
			if cr < db || cr - db != total + locked {
				if out.fails.iter().all(|f| !f.sig.starts_with(&format!("c04:{}:", tag))) {
					out.fail(
						format!("c04:{}:ledger", tag),
						format!("wallet {} acct {} tip {}: confirmed credits {} - debits {} != total {} + locked {}", w, acct, h, cr, db, total, locked),
					);
				}
			}
		}
	}
	Ok((g.len(), statuses.len()))
}

impl Prop for C04 {
	type Case = Case;
	fn id(&self) -> &'static str {
		"C04"
	}
	fn cases(&self, tier: Tier) -> u64 {
		tier.pick(260, 6000)
	}
	fn strategy(&self, tier: Tier) -> BoxedStrategy<Case> {
		let n = tier.pick(30usize, 44usize);
		(0u8..4, prop::collection::vec(op_strategy(), 8..n), prop_oneof![8 => Just(0u8), 1 => Just(1u8), 1 => Just(2u8), 2 => Just(3u8)])
			.prop_map(|(base, ops, preset)| Case { base, ops, preset })
			.boxed()
	}
	fn shrink_iters(&self) -> u32 {
		self.tier.pick(48, 96)
	}
	fn rule(&self) -> String {
		"histories of 8..30 (thorough 44) ops over 2 wallets x 2 accounts on a real chain (optionally starting with a pending send in each of two accounts whose log ids coincide; mine with mempool subsets, long waits of > 50 blocks, refresh, node down/up/flaky, account switch, send with generated args incl. late-lock/proof/includes-fee, lock, deliver, finalize, post, cancel-before-post, invoice issue/pay/finalize, self-send same/other account, restart), protocol steps in legal order; after every successful refresh and for every wallet/account at the end: live records == account's outputs in the chain's unspent set (independent rewind), balance figures recomputed from chain data for min_conf in {1,2,maturity+2}, ledger equation; cross-account isolation per op; non-trivial = successful refresh after >=1 mined wallet transaction with >=2 distinct output statuses present; distinct by case hash".into()
	}
	fn assumptions(&self) -> Vec<String> {
		vec![
			"domain of the statement: a cancelled transaction is never mined, no forks, one wallet per seed".into(),
			"generated sends use minimum_confirmations >= 1 and no TTL (spending unconfirmed outputs reserves outputs that are not on chain by design; TTL expiry is C17); spending an unconfirmed receive with minimum_confirmations = 0 is exercised by the ZeroConfRelay op, which mines both transactions before anyone refreshes".into(),
			"finalize / cancel are issued with the account that initiated the transaction active (as a CLI user passing -a does)".into(),
			"an output's account is the account its creating operation addressed (active account), not its key path".into(),
		]
	}
	fn run(&mut self, c: &Case) -> Outcome {
		let mut out = Outcome::default();
		self.n += 1;
		let dir = self.scratch.join(format!("c04.case{}", self.n));
		let r = self.run_case(c, &dir, &mut out);
		let _ = std::fs::remove_dir_all(&dir);
		if let Err(e) = r {
			out.fail("c04:harness-error", e);
		}
		out
	}
}

impl C04 {
	fn run_case(&mut self, c: &Case, dir: &PathBuf, out: &mut Outcome) -> Result<(), String> {
		let base_i = if c.preset != 0 { 3 } else { c.base as usize % self.bases.len() };
		let mut sim = base::open_copy(&self.bases[base_i], dir)?;
		sim.strict = true;
		sim.never_mine_cancelled = true;
		if c.preset != 0 {
			for a in 0..ACCOUNTS.len() {
				sim.switch_account(0, a)?;
				let args = SendArgs { amount: AmountPick::Frac(3000), use_all: false, ..SendArgs::default() };
				if let Ok(si) = sim.init_send(0, 1, &args) {
					let mut r = sim.lock(si);
					if c.preset >= 2 {
						r = r.and_then(|_| sim.deliver(si)).and_then(|_| sim.finalize(si));
					}
					if let Err(e) = r {
						crate::rt::dbg(&format!("preset step failed: {}", e));
					}
				}
			}
			sim.switch_account(0, 0)?;
			if c.preset == 3 {
				// ... and the sender drops the first of them before it was ever posted
				if let Some(si) = (0..sim.slates.len()).find(|i| sim.slates[*i].initiator == 0 && sim.slates[*i].initiator_acct == 0) {
					let _ = sim.cancel(0, si, false);
				}
			}
			out.class(format!("preset={}", c.preset));
		}
		let kcs: Vec<ExtKeychain> = (0..sim.world.wallets.len())
			.map(|i| truth::keychain_from_phrase(&sim.w(i).phrase))
			.collect::<Result<_, _>>()?;
		let mut mined_wallet_tx = false;
		let mut checked = 0;
		for op in &c.ops {
			// cross-account isolation snapshot
			let pre: Option<(usize, snap::View)> = match op {
				Op::InitSend { .. } | Op::Lock { .. } | Op::Finalize { .. } | Op::PayInvoice { .. } | Op::Cancel { .. } | Op::SelfSend { .. } => None,
				_ => None,
			};
			let _ = pre;
			let views_before = sim.views();
			let r = sim.apply(op);
			if let (true, Some(e)) = (r.kind == "mine", r.err()) {
				crate::rt::dbg(&format!("mine error: {}", e));
			}
			out.class(format!("op:{}:{}", r.kind, match &r.result { Some(Ok(_)) => "ok", Some(Err(_)) => "err", None => "noop" }));
			if let Some(e) = r.err() {
				let m = crate::rt::norm_msg(&e);
				out.class(format!("err:{}:{}", r.kind, m.chars().take(56).collect::<String>()));
			}
			if r.kind == "mine" && r.ok() {
				if sim.slates.iter().any(|s| s.mined_at == Some(sim.world.height())) {
					mined_wallet_tx = true;
				}
			}
			// isolation: spending ops addressed at account X must not spend/reserve outputs of Y
			if let (Some(w), true) = (r.wallet, matches!(op, Op::InitSend { .. } | Op::Lock { .. } | Op::Finalize { .. } | Op::PayInvoice { .. } | Op::SelfSend { .. })) {
				let acct_x = match r.slate {
					Some(si) => {
						let s = &sim.slates[si];
						if w == s.payer() { s.payer_acct() } else { s.payee_acct() }
					}
					None => Some(sim.active[w]),
				};
				if let Some(x) = acct_x {
					let px = sim.acct_parent(x);
					let after = snap::view(sim.w(w));
					let self_send_other = matches!(op, Op::SelfSend { other_acct: true, .. });
					for o in views_before[w].outputs.iter().filter(|o| o.root_key_id != px) {
						if let Some(n) = after.outputs.iter().find(|n| n.key_id == o.key_id && n.mmr_index == o.mmr_index) {
							let spent_or_reserved = (o.status == OutputStatus::Unspent || o.status == OutputStatus::Unconfirmed)
								&& (n.status == OutputStatus::Locked || n.status == OutputStatus::Spent);
							if (spent_or_reserved || n.value != o.value) && !self_send_other {
								out.fail(
									"c04:cross-account",
									format!("op {:?} on wallet {} account {} changed an output of another account: {:?} -> {:?}", op, w, x, o, n),
								);
							}
						}
					}
				}
			}
			if r.kind == "refresh:ok" {
				let w = r.wallet.unwrap();
				let a = sim.active[w];
				let (n_owned, n_status) = check_books(&sim, w, a, &kcs[w], out, "refresh")?;
				checked += 1;
				if mined_wallet_tx && n_status >= 2 && n_owned >= 1 {
					out.nontrivial = true;
				}
			}
			if !out.fails.is_empty() {
				break;
			}
		}
		if out.fails.is_empty() {
			// final sweep: node up, refresh every account of every wallet
			sim.set_node_down(false);
			for w in 0..sim.world.wallets.len() {
				for a in 0..ACCOUNTS.len() {
					sim.switch_account(w, a)?;
					match sim.refresh(w) {
						Ok(true) => {
							let (n_owned, n_status) = check_books(&sim, w, a, &kcs[w], out, "final")?;
							checked += 1;
							if mined_wallet_tx && n_status >= 2 && n_owned >= 1 {
								out.nontrivial = true;
							}
						}
						other => return Err(format!("final refresh not successful: {:?}", other)),
					}
				}
			}
		}
		let mined = sim.slates.iter().filter(|s| s.mined_at.is_some()).count();
		out.class(format!("mined-slates={}", std::cmp::min(mined, 4)));
		out.class(format!("refresh-checks={}", std::cmp::min(checked, 8)));
		if !out.fails.is_empty() {
			let hist = sim.history();
			for f in out.fails.iter_mut() {
				f.detail = format!("{}\n--- history ---\n{}", f.detail, hist);
			}
		}
		Ok(())
	}
}

pub fn run(args: &Args, rep: &mut Report) {
	let mut p = C04::new(args);
	run_part(&mut p, args, rep);
}

pub fn replay(args: &Args, _part: &str, case: &serde_json::Value) -> Result<Outcome, String> {
	replay_part(&mut C04::new(args), case)
}
