//! C05 — cancelling an unconfirmed transaction is an exact rollback.

use crate::base::{self, BaseSpec};
use crate::rt::*;
use crate::sim::*;
use crate::snap::{self, View};
use grin_wallet_libwallet::{OutputData, OutputStatus, TxLogEntry, TxLogEntryType, WalletInfo};
use proptest::prelude::*;
use serde_derive::{Deserialize, Serialize};
use serde_json::Value;
use std::path::PathBuf;

#[derive(Clone, Debug, Serialize, Deserialize)]
pub struct Case {
	pub base: u8,
	pub pre: Vec<Op>,
	/// 0 SentLocked 1 SentReplied 2 SentFinalized 3 SentPosted 4 Received 5 ReceivedAfterFinalize
	/// 6 InvoicePayeeIssued 7 InvoicePayeePaid 8 InvoicePayer 9 LateFinalized 10 SentInitOnly 11 LateInitOnly
	pub kind: u8,
	pub args: SendArgs,
	pub between: Vec<Op>,
	pub by_slate_id: bool,
	/// 0 none, 1 target confirmed first, 2 cancel twice, 3 coinbase entry id, 4 unknown id, 5 other account active (by slate id)
	pub negative: u8,
	pub acct: u8,
	/// negative == 1 only: the wallet is NOT refreshed between the block that confirms the target and the cancel call
	/// (cancel_tx's own refresh has to notice the confirmation); sender-side targets then become a posted send without
	/// change, whose confirmation only the kernel proves
	#[serde(default)]
	pub late_refresh: bool,
}

fn side_op_strategy() -> BoxedStrategy<Op> {
	let args = || send_args_strategy(true, true, false, false);
	prop_oneof![
		4 => (0u16..3, prop_oneof![3 => Just(0xffffu16), 1 => any::<u16>()]).prop_map(|(to, take)| Op::Mine { to, take }),
		2 => any::<u16>().prop_map(|w| Op::Refresh { w }),
		5 => (any::<u16>(), any::<u16>(), args()).prop_map(|(w, to, args)| Op::InitSend { w, to, args }),
		10 => any::<u16>().prop_map(|s| Op::Step { s }),
		2 => (any::<u16>(), any::<u16>(), any::<u16>()).prop_map(|(w, payer, amount)| Op::IssueInvoice { w, payer, amount }),
		1 => (any::<u16>(), any::<bool>(), args()).prop_map(|(w, other_acct, args)| Op::SelfSend { w, other_acct, args }),
		4 => (any::<u16>(), any::<u16>()).prop_map(|(w, acct)| Op::SwitchAccount { w, acct }),
	]
	.boxed()
}

pub struct C05 {
	scratch: PathBuf,
	bases: Vec<PathBuf>,
	n: u64,
}

impl C05 {
	pub fn new(args: &Args) -> C05 {
		let mut bases = vec![];
		for v in 0..2u64 {
			let d = args.scratch.join(format!("c05.base{}", v));
			base::build(&d, &BaseSpec::standard(v * 2)).expect("base world");
			bases.push(d);
		}
		// equal mining history in both accounts: per-account log ids collide
		let d = args.scratch.join("c05.base2");
		base::build(&d, &BaseSpec::balanced()).expect("base world");
		bases.push(d);
		C05 {
			scratch: args.scratch.clone(),
			bases,
			n: 0,
		}
	}
}

fn info(sim: &Sim, w: usize, min_conf: u64) -> Result<WalletInfo, String> {
	sim.w(w)
		.owner
		.retrieve_summary_info(sim.w(w).m(), false, min_conf)
		.map(|r| r.1)
		.map_err(|e| e.to_string())
}

fn find_out<'a>(v: &'a View, o: &OutputData) -> Option<&'a OutputData> {
	v.outputs.iter().find(|x| x.key_id == o.key_id && x.mmr_index == o.mmr_index)
}

fn entry_json_without_type(t: &TxLogEntry) -> Value {
	let mut j = serde_json::to_value(t).unwrap();
	if let Some(m) = j.as_object_mut() {
		m.remove("tx_type");
	}
	j
}

impl Prop for C05 {
	type Case = Case;
	fn id(&self) -> &'static str {
		"C05"
	}
	fn cases(&self, tier: Tier) -> u64 {
		tier.pick(320, 8000)
	}
	fn shrink_iters(&self) -> u32 {
		48
	}
	fn strategy(&self, _tier: Tier) -> BoxedStrategy<Case> {
		(
			0u8..3,
			prop::collection::vec(side_op_strategy(), 0..7),
			0u8..12,
			send_args_strategy(true, false, true, false),
			prop::collection::vec(side_op_strategy(), 0..4),
			any::<bool>(),
			prop_oneof![10 => Just(0u8), 2 => Just(1u8), 1 => Just(2u8), 1 => Just(3u8), 1 => Just(4u8), 1 => Just(5u8)],
			prop_oneof![3 => Just(0u8), 1 => Just(1u8)],
			any::<bool>(),
		)
			.prop_map(|(base, pre, kind, args, between, by_slate_id, negative, acct, late_refresh)| Case {
				base,
				pre,
				kind,
				args,
				between,
				by_slate_id,
				negative,
				acct,
				late_refresh,
			})
			.boxed()
	}
	fn rule(&self) -> String {
		"wallet 0 with 0..6 generated side operations (other pending sends/receives/invoices/self-sends, mining), then a target transaction of one of 12 kinds/stages (sent locked / replied / finalized / posted, received, received after sender finalized, invoice payee issued / paid, invoice payer, late-locked finalized, init-only, late init-only) with generated args (0..4 change outputs, min_conf 0..4, includes-fee, proof), 0..3 more side operations, refresh, then cancel addressed by log id or slate id; negatives: confirmed, twice, coinbase id, unknown id, other account. Oracle: three snapshots S0 (before target) / S1 (before cancel) / S2 (after): Ok => reserved inputs back to their S0 status+value, created outputs gone, entry type -> matching Cancelled, every other record of the raw DB identical, figures move by exactly the target's amounts; negative => Err and S2 == S1; by-log-id cancel of a cancellable entry must succeed. non-trivial = cancel of a cancellable entry while >= 1 other transaction is pending; distinct by case hash".into()
	}
	fn assumptions(&self) -> Vec<String> {
		vec!["for rolled-back outputs only status and value are compared (statement's wording); the target's own private context / stored file may remain or disappear".into()]
	}
	fn run(&mut self, c: &Case) -> Outcome {
		let mut out = Outcome::default();
		self.n += 1;
		let dir = self.scratch.join(format!("c05.case{}", self.n));
		let r = self.run_case(c, &dir, &mut out);
		let _ = std::fs::remove_dir_all(&dir);
		if let Err(e) = r {
			out.fail("c05:harness-error", e);
		}
		out
	}
}

impl C05 {
	fn run_case(&mut self, c: &Case, dir: &PathBuf, out: &mut Outcome) -> Result<(), String> {
		let mut c = c.clone();
		let late_refresh = c.negative == 1 && c.late_refresh;
		if late_refresh && matches!(c.kind, 0 | 1 | 2 | 3 | 9 | 10 | 11) {
			c.kind = 3;
			c.args.amount = AmountPick::AllInclFee;
			c.args.use_all = true;
			c.args.change = 0;
			c.args.incl_fee = false;
		}
		let c = &c;
		let mut sim = base::open_copy(&self.bases[c.base as usize % self.bases.len()], dir)?;
		sim.strict = true;
		let w = 0usize;
		let other = 1usize;
		let acct = c.acct as usize % ACCOUNTS.len();
		sim.switch_account(w, acct)?;
		for op in &c.pre {
			let _ = sim.apply(op);
		}
		// the victim account may have been switched by side ops? (side ops contain no SwitchAccount) keep it
		sim.switch_account(w, acct)?;
		if !matches!(sim.refresh(w), Ok(true)) {
			return Err("refresh before S0 failed".into());
		}
		let v0 = snap::view(sim.w(w));
		// ---- create the target
		let mut args = c.args.clone();
		args.late_lock = c.kind == 9 || c.kind == 11;
		if args.late_lock {
			args.proof = false;
		}
		out.class(format!("kind={}", c.kind));
		let created: Result<usize, String> = (|| {
			match c.kind {
				0 | 1 | 2 | 3 | 9 | 10 | 11 => {
					let si = sim.init_send(w, other, &args)?;
					if c.kind == 10 || c.kind == 11 {
						return Ok(si);
					}
					if !args.late_lock {
						sim.lock(si)?;
					}
					if c.kind >= 1 {
						sim.deliver(si)?;
					}
					if c.kind == 2 || c.kind == 3 || c.kind == 9 {
						sim.finalize(si)?;
					}
					if c.kind == 3 {
						sim.post(si)?;
					}
					Ok(si)
				}
				4 | 5 => {
					let si = sim.init_send(other, w, &args)?;
					sim.lock(si)?;
					sim.deliver(si)?;
					if c.kind == 5 {
						sim.finalize(si)?;
					}
					Ok(si)
				}
				6 | 7 => {
					let amt = std::cmp::max(1, sim.spendable(other, 1) / 7);
					let si = sim.issue_invoice(w, other, amt)?;
					if c.kind == 7 {
						sim.pay_invoice(si, &SendArgs::default())?;
						sim.lock(si)?;
					}
					Ok(si)
				}
				_ => {
					let amt = std::cmp::max(1, sim.spendable(w, args.min_conf as u64) / 5);
					let si = sim.issue_invoice(other, w, amt)?;
					let mut a = args.clone();
					a.late_lock = false;
					a.proof = false;
					sim.pay_invoice(si, &a)?;
					sim.lock(si)?;
					Ok(si)
				}
			}
		})();
		let si = match created {
			Ok(si) => si,
			Err(e) => {
				out.class("target-not-created");
				crate::rt::dbg(&format!("target not created: {}", e));
				return Ok(());
			}
		};
		// inputs reserved by the target, observed right after its creation (newly Locked records)
		let v_created = snap::view(sim.w(w));
		let target_inputs: Vec<OutputData> = v_created
			.outputs
			.iter()
			.filter(|o| o.status == OutputStatus::Locked && find_out(&v0, o).map(|p| p.status != OutputStatus::Locked).unwrap_or(true))
			.cloned()
			.collect();
		sim.frozen = Some(si);
		for op in &c.between {
			let _ = sim.apply(op);
		}
		sim.switch_account(w, acct)?;
		let id = sim.slates[si].id;
		// ---- negative preparations
		if c.negative == 1 {
			// get it confirmed if it can be: needs a final tx
			if sim.slates[si].tx.is_some() {
				if !sim.slates[si].posted {
					let _ = sim.post(si);
				}
				sim.frozen = None;
				let _ = sim.mine(None, 0xffff);
				sim.frozen = Some(si);
			}
		}
		// late_refresh: the confirming block is known to the node only; the cancel call's own refresh must find it
		let unrefreshed_confirmed = late_refresh && sim.slates[si].mined_at.is_some();
		if unrefreshed_confirmed {
			out.class("confirmed-but-not-yet-refreshed");
		} else if !matches!(sim.refresh(w), Ok(true)) {
			return Err("refresh before S1 failed".into());
		}
		if c.negative == 5 {
			sim.switch_account(w, (acct + 1) % ACCOUNTS.len())?;
			if !matches!(sim.refresh(w), Ok(true)) {
				return Err("refresh (other account) before S1 failed".into());
			}
		}
		let parent = sim.w(w).active_parent();
		let v1 = snap::view(sim.w(w));
		let s1 = snap::deep(sim.w(w), &self.scratch)?;
		let i1 = info(&sim, w, 1)?;
		// the entry under study
		let entry: Option<TxLogEntry> = v1
			.txs
			.iter()
			.find(|t| t.tx_slate_id == Some(id) && t.parent_key_id == parent && matches!(t.tx_type, TxLogEntryType::TxSent | TxLogEntryType::TxReceived))
			.cloned();
		let others_pending = v1
			.txs
			.iter()
			.filter(|t| t.tx_slate_id != Some(id) && !t.confirmed && matches!(t.tx_type, TxLogEntryType::TxSent | TxLogEntryType::TxReceived))
			.count();
		// ---- the cancel call
		let (tx_id, slate_id): (Option<u32>, Option<uuid::Uuid>) = match c.negative {
			3 => {
				let cb = v1.txs.iter().find(|t| t.parent_key_id == parent && t.tx_type == TxLogEntryType::ConfirmedCoinbase);
				match cb {
					Some(t) => (Some(t.id), None),
					None => {
						out.class("no-coinbase-entry");
						return Ok(());
					}
				}
			}
			4 => {
				if c.by_slate_id {
					(None, Some(uuid::Uuid::from_bytes([0xAB; 16])))
				} else {
					(Some(1_000_000), None)
				}
			}
			5 => (None, Some(id)),
			_ => {
				if c.by_slate_id || entry.is_none() {
					(None, Some(id))
				} else {
					(Some(entry.as_ref().unwrap().id), None)
				}
			}
		};
		let call = |sim: &Sim| sim.w(w).owner.cancel_tx(sim.w(w).m(), tx_id, slate_id).map_err(|e| e.to_string());
		let mut res = call(&sim);
		let mut s1x = s1.clone();
		let mut v1x = v1.clone();
		let mut i1x = i1.clone();
		let mut entry_x = entry.clone();
		if c.negative == 2 && res.is_ok() {
			// second cancel of the same entry is the call under study
			s1x = snap::deep(sim.w(w), &self.scratch)?;
			v1x = snap::view(sim.w(w));
			i1x = info(&sim, w, 1)?;
			entry_x = None;
			res = call(&sim);
			out.class("second-cancel");
		}
		let v2 = snap::view(sim.w(w));
		let s2 = snap::deep(sim.w(w), &self.scratch)?;
		let i2 = info(&sim, w, 1)?;
		let is_selfsend_ambiguous = false;
		// a transaction that is on the chain is confirmed, whether or not the books had been brought up to date before
		let cancellable = entry_x.as_ref().map(|e| !e.confirmed).unwrap_or(false) && matches!(c.negative, 0 | 1 | 2) && !unrefreshed_confirmed;
		out.class(format!("negative={}", c.negative));
		match (&res, cancellable) {
			(Ok(()), true) => {
				out.class("cancel:ok");
				let e = entry_x.unwrap();
				if others_pending >= 1 {
					out.nontrivial = true;
				}
				let reserved: Vec<&OutputData> = v1x
					.outputs
					.iter()
					.filter(|o| o.root_key_id == parent && o.tx_log_entry == Some(e.id) && o.status == OutputStatus::Locked)
					.collect();
				let created: Vec<&OutputData> = v1x
					.outputs
					.iter()
					.filter(|o| o.root_key_id == parent && o.tx_log_entry == Some(e.id) && (o.status == OutputStatus::Unconfirmed || o.status == OutputStatus::Reverted))
					.collect();
				out.class(format!("reserved={} created={}", std::cmp::min(reserved.len(), 3), std::cmp::min(created.len(), 4)));
				// (a) reserved inputs back to S0 status and value
				for o in &reserved {
					let was = find_out(&v0, o);
					let now = find_out(&v2, o);
					match (was, now) {
						(Some(a), Some(b)) => {
							let on_chain = commit_of(b)
								.map(|c| {
									let cm = grin_util::secp::pedersen::Commitment::from_vec(c);
									matches!(sim.world.chain.get_unspent(cm), Ok(Some(_)))
								})
								.unwrap_or(false);
							if a.status == OutputStatus::Unconfirmed && b.status == OutputStatus::Unspent && a.value == b.value && on_chain {
								// the input was unconfirmed when selected (min_conf 0) and got confirmed while reserved:
								// "as if the transaction had never existed" it is Unspent now; accepted
								out.class("input-confirmed-while-reserved");
							} else if a.status != b.status || a.value != b.value {
								let sig = if a.status == OutputStatus::Unconfirmed && b.status == OutputStatus::Unspent {
									"c05:unconfirmed-input-becomes-unspent"
								} else {
									"c05:input-not-restored"
								};
								out.fail(sig, format!("input {:?}: before the transaction {:?}/{} ; after cancel {:?}/{}", o.key_id, a.status, a.value, b.status, b.value));
							}
						}
						(None, Some(b)) => {
							// output did not exist at S0 (e.g. created by a side operation between S0 and target creation cannot happen: S0 is taken right before)
							out.fail("c05:input-unknown-at-s0", format!("reserved input {:?} did not exist before the transaction", b));
						}
						(_, None) => out.fail("c05:input-lost", format!("reserved input {:?} is gone after cancel", o)),
					}
				}
				// (a') inputs the target reserved at creation that S1 no longer shows as reserved
				for o in &target_inputs {
					if reserved.iter().any(|r| r.key_id == o.key_id && r.mmr_index == o.mmr_index) {
						continue;
					}
					let was = find_out(&v0, o);
					let now = find_out(&v2, o);
					if let (Some(a), Some(b)) = (was, now) {
						let on_chain = commit_of(b)
							.map(|c| matches!(sim.world.chain.get_unspent(grin_util::secp::pedersen::Commitment::from_vec(c)), Ok(Some(_))))
							.unwrap_or(false);
						let fine = (a.status == b.status) || (b.status == OutputStatus::Unspent && on_chain);
						if !fine || a.value != b.value {
							let sig = if a.status == OutputStatus::Unconfirmed && b.status == OutputStatus::Spent {
								"c05:unconfirmed-input-marked-spent"
							} else {
								"c05:input-not-restored"
							};
							out.fail(sig, format!("input {:?} reserved by the transaction: before {:?}/{} ; after cancel {:?}/{} (on chain: {})", o.key_id, a.status, a.value, b.status, b.value, on_chain));
						}
					}
				}
				// (b) created outputs gone
				for o in &created {
					if find_out(&v2, o).is_some() {
						out.fail("c05:created-output-remains", format!("output {:?} created by the cancelled transaction is still recorded", o));
					}
				}
				// (c) entry type
				let now_e = v2.txs.iter().find(|t| t.parent_key_id == parent && t.id == e.id);
				match now_e {
					None => out.fail("c05:entry-lost", "log entry disappeared".to_string()),
					Some(n) => {
						let want = match e.tx_type {
							TxLogEntryType::TxSent => TxLogEntryType::TxSentCancelled,
							_ => TxLogEntryType::TxReceivedCancelled,
						};
						if n.tx_type != want {
							out.fail("c05:entry-type", format!("entry type {:?} after cancel, expected {:?}", n.tx_type, want));
						}
						if entry_json_without_type(n) != entry_json_without_type(&e) {
							out.fail("c05:entry-altered", format!("entry changed beyond its type: {:?} -> {:?}", e, n));
						}
					}
				}
				// (d) everything else identical in the raw DB
				let allowed_keys: Vec<String> = reserved
					.iter()
					.chain(created.iter())
					.map(|o| grin_util::ToHex::to_hex(&o.key_id.to_bytes().to_vec()))
					.collect();
				let slate_hex = grin_util::ToHex::to_hex(&id.as_bytes().to_vec());
				let entry_key_tail = format!("{:016x}", e.id as u64);
				for d in snap::diff(&s1x, &s2) {
					let is_out = d.contains("db/o:") && allowed_keys.iter().any(|k| d.contains(k.as_str()));
					let is_ctx = d.contains("db/p:") && d.contains(slate_hex.as_str());
					let is_entry = d.contains("db/t:") && d.contains(&grin_util::ToHex::to_hex(&parent.to_bytes().to_vec())) && d.contains(entry_key_tail.as_str());
					let is_file = d.contains("files/") && d.contains(&id.to_string());
					if !(is_out || is_ctx || is_entry || is_file) {
						out.fail("c05:collateral-change", format!("cancel changed a record that does not belong to the transaction: {}", d));
						break;
					}
				}
				// (e) figures
				let sum_in: u128 = reserved.iter().map(|o| o.value as u128).sum();
				let sum_created_unconf: u128 = created.iter().filter(|o| o.status == OutputStatus::Unconfirmed && !o.is_coinbase).map(|o| o.value as u128).sum();
				if out.fails.is_empty() {
					if i2.amount_locked as u128 + sum_in != i1x.amount_locked as u128 {
						out.fail("c05:figure-locked", format!("locked {} -> {} but released inputs sum to {}", i1x.amount_locked, i2.amount_locked, sum_in));
					}
					if i2.amount_awaiting_finalization as u128 + sum_created_unconf != i1x.amount_awaiting_finalization as u128 {
						out.fail("c05:figure-awaiting-finalization", format!("awaiting finalization {} -> {} but removed outputs sum to {}", i1x.amount_awaiting_finalization, i2.amount_awaiting_finalization, sum_created_unconf));
					}
					let t1 = i1x.total as u128 + i1x.amount_locked as u128;
					let t2 = i2.total as u128 + i2.amount_locked as u128;
					if t1 != t2 {
						out.fail("c05:figure-total", format!("total+locked changed {} -> {} by a cancel", t1, t2));
					}
				}
			}
			(Err(e), true) => {
				out.class("cancel:refused-cancellable");
				let _ = is_selfsend_ambiguous;
				out.fail("c05:refused-cancellable", format!("cancel of an unconfirmed {:?} entry refused: {}", entry_x.map(|t| t.tx_type), e));
			}
			(Ok(()), false) => {
				out.fail("c05:cancelled-uncancellable", format!("cancel succeeded although the addressed transaction is confirmed/cancelled/coinbase/unknown (negative={} entry={:?})", c.negative, entry_x.map(|t| (t.tx_type, t.confirmed))));
			}
			(Err(_), false) => {
				out.class("cancel:refused-ok");
				if c.negative != 0 {
					out.nontrivial = true;
				}
				let d = snap::diff(&s1x, &s2);
				// (the refresh inside a refused cancel of a transaction confirmed meanwhile legitimately updates the books)
				if !d.is_empty() && !unrefreshed_confirmed {
					out.fail("c05:refused-but-changed", format!("refused cancel changed wallet state: {:?}", d));
				}
				let _ = (&v1x, &i1x);
			}
		}
		if !out.fails.is_empty() {
			let hist = sim.history();
			for f in out.fails.iter_mut() {
				f.detail = format!("{}\n--- history (target kind {}, slate {}) ---\n{}", f.detail, c.kind, id, hist);
			}
		}
		Ok(())
	}
}

pub fn run(args: &Args, rep: &mut Report) {
	let mut p = C05::new(args);
	run_part(&mut p, args, rep);
}

pub fn replay(args: &Args, _part: &str, case: &serde_json::Value) -> Result<Outcome, String> {
	replay_part(&mut C05::new(args), case)
}
