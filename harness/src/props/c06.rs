//! C06 — a crash (or failing write) at any persistent-effect boundary leaves a loadable, consistent,
//! recoverable wallet. Fault points are enumerated exhaustively per generated scenario.

use crate::base::{self, BaseSpec};
use crate::fault::{self, FaultWallet, Mode, Ran};
use crate::props::c04;
use crate::rt::*;
use crate::sim::*;
use crate::snap::{self, View};
use crate::truth;
use crate::world::{self, Wal};
use grin_keychain::{ExtKeychain, Identifier};
use grin_wallet_libwallet::{BlockFees, InitTxArgs, IssueInvoiceTxArgs, OutputStatus, Slate, TxLogEntryType};
use proptest::prelude::*;
use serde_derive::{Deserialize, Serialize};
use std::path::{Path, PathBuf};

#[derive(Clone, Debug, Serialize, Deserialize)]
pub struct Case {
	pub base: u8,
	pub pre: Vec<Op>,
	/// 0 init_send 1 lock 2 receive 3 finalize 4 finalize(late) 5 finalize invoice (payee) 6 issue invoice
	/// 7 pay invoice (process) 8 cancel 9 refresh 10 scan 11 build_coinbase 12 create account 13 refresh with expired ttl
	pub target: u8,
	pub args: SendArgs,
	pub scan_delete: bool,
	pub acct: u8,
}

fn side_op_strategy() -> BoxedStrategy<Op> {
	let args = || send_args_strategy(false, true, false, false);
	prop_oneof![
		4 => (0u16..3, prop_oneof![3 => Just(0xffffu16), 1 => any::<u16>()]).prop_map(|(to, take)| Op::Mine { to, take }),
		2 => any::<u16>().prop_map(|w| Op::Refresh { w }),
		4 => (any::<u16>(), any::<u16>(), args()).prop_map(|(w, to, args)| Op::InitSend { w, to, args }),
		8 => any::<u16>().prop_map(|s| Op::Step { s }),
		1 => (any::<u16>(), any::<u16>(), any::<u16>()).prop_map(|(w, payer, amount)| Op::IssueInvoice { w, payer, amount }),
	]
	.boxed()
}

pub struct C06 {
	scratch: PathBuf,
	bases: Vec<PathBuf>,
	n: u64,
	tier: Tier,
	fault_runs: u64,
	points: u64,
}

impl C06 {
	pub fn new(args: &Args) -> C06 {
		let mut bases = vec![];
		for v in 0..2u64 {
			let d = args.scratch.join(format!("c06.base{}", v));
			base::build(&d, &BaseSpec::standard(v * 2)).expect("base world");
			bases.push(d);
		}
		C06 {
			scratch: args.scratch.clone(),
			bases,
			n: 0,
			tier: args.tier,
			fault_runs: 0,
			points: 0,
		}
	}
}

/// What the target operation needs, prepared on the live sim before the wallet directory is copied.
struct Prepared {
	slate_in: Option<Slate>,
	slate_id: Option<uuid::Uuid>,
	init_args: Option<InitTxArgs>,
	invoice_amount: u64,
	cancel_log_id: Option<u32>,
}

/// Run the target operation on a fault wallet.
fn run_target(fw: &FaultWallet, target: u8, p: &Prepared, scan_delete: bool, height: u64, acct_label: &str) -> Result<(), String> {
	let e = |e: grin_wallet_libwallet::Error| e.to_string();
	match target {
		0 => fw.owner.init_send_tx(None, p.init_args.clone().unwrap()).map(|_| ()).map_err(e),
		1 => fw.owner.tx_lock_outputs(None, p.slate_in.as_ref().unwrap()).map_err(e),
		2 => fw.foreign().receive_tx(p.slate_in.as_ref().unwrap(), None, None).map(|_| ()).map_err(e),
		3 | 4 => fw.owner.finalize_tx(None, p.slate_in.as_ref().unwrap()).map(|_| ()).map_err(e),
		5 => fw.foreign().finalize_tx(p.slate_in.as_ref().unwrap(), false).map(|_| ()).map_err(e),
		6 => fw
			.owner
			.issue_invoice_tx(
				None,
				IssueInvoiceTxArgs {
					amount: p.invoice_amount,
					..Default::default()
				},
			)
			.map(|_| ())
			.map_err(e),
		7 => fw
			.owner
			.process_invoice_tx(None, p.slate_in.as_ref().unwrap(), p.init_args.clone().unwrap())
			.map(|_| ())
			.map_err(e),
		8 => fw.owner.cancel_tx(None, p.cancel_log_id, None).map_err(e),
		9 | 13 => fw.owner.retrieve_summary_info(None, true, 1).map(|_| ()).map_err(e),
		10 => fw.owner.scan(None, None, scan_delete).map_err(e),
		11 => fw
			.foreign()
			.build_coinbase(&BlockFees {
				fees: 0,
				height: height + 1,
				key_id: None,
			})
			.map(|_| ())
			.map_err(e),
		_ => fw.owner.create_account_path(None, &format!("{}-x", acct_label)).map(|_| ()).map_err(e),
	}
}

/// Structural invariants of a wallet's stored state (statement: reserved outputs belong to live logged
/// transactions, live sent transactions' inputs are reserved or spent, key indices beyond every record).
fn invariants(v: &View, wal: &Wal, out: &mut Outcome, tag: &str) {
	for o in v.outputs.iter().filter(|o| o.status == OutputStatus::Locked) {
		let e = o
			.tx_log_entry
			.and_then(|id| v.txs.iter().find(|t| t.id == id && t.parent_key_id == o.root_key_id));
		match e {
			Some(t) if t.tx_type == TxLogEntryType::TxSent && !t.confirmed => {}
			other => out.fail(
				format!("c06:{}:locked-output-without-live-entry", tag),
				format!("Locked output n_child {} value {} names log entry {:?}: {:?}", o.n_child, o.value, o.tx_log_entry, other.map(|t| (t.tx_type.clone(), t.confirmed))),
			),
		}
	}
	for t in v.txs.iter().filter(|t| t.tx_type == TxLogEntryType::TxSent && !t.confirmed) {
		let n = v
			.outputs
			.iter()
			.filter(|o| o.root_key_id == t.parent_key_id && o.tx_log_entry == Some(t.id) && (o.status == OutputStatus::Locked || o.status == OutputStatus::Spent))
			.count();
		if n != t.num_inputs {
			out.fail(
				format!("c06:{}:live-sent-entry-inputs", tag),
				format!("live TxSent entry {} (slate {:?}) has num_inputs {} but {} reserved/spent outputs point at it", t.id, t.tx_slate_id, t.num_inputs, n),
			);
		}
		let n_out = v
			.outputs
			.iter()
			.filter(|o| o.root_key_id == t.parent_key_id && o.tx_log_entry == Some(t.id) && (o.status == OutputStatus::Unconfirmed || o.status == OutputStatus::Unspent))
			.count();
		if n_out != t.num_outputs {
			out.fail(
				format!("c06:{}:live-sent-entry-change", tag),
				format!("live TxSent entry {} records {} change outputs but {} exist", t.id, t.num_outputs, n_out),
			);
		}
	}
	// key index beyond every recorded output of the account
	let accts: Vec<Identifier> = v.accounts.iter().map(|a| a.1.clone()).collect();
	for a in accts {
		let cur = wal.with(|w| w.current_child_index(&a)).unwrap_or(0);
		for o in v.outputs.iter().filter(|o| o.key_id.parent_path() == a) {
			if o.n_child >= cur && o.mmr_index.is_none() {
				out.fail(
					format!("c06:{}:key-index-behind-record", tag),
					format!("account {:?}: next child index {} but an output with child {} is recorded", a, cur, o.n_child),
				);
			}
		}
	}
}

impl Prop for C06 {
	type Case = Case;
	fn id(&self) -> &'static str {
		"C06"
	}
	fn cases(&self, tier: Tier) -> u64 {
		tier.pick(112, 4000)
	}
	fn shrink_iters(&self) -> u32 {
		24
	}
	fn strategy(&self, _tier: Tier) -> BoxedStrategy<Case> {
		(
			0u8..2,
			prop::collection::vec(side_op_strategy(), 0..5),
			0u8..14,
			send_args_strategy(false, false, true, true),
			any::<bool>(),
			prop_oneof![3 => Just(0u8), 1 => Just(1u8)],
		)
			.prop_map(|(base, pre, target, args, scan_delete, acct)| Case {
				base,
				pre,
				target,
				args,
				scan_delete,
				acct,
			})
			.boxed()
	}
	fn rule(&self) -> String {
		"scenario = base world + 0..4 generated side ops + one target operation of 14 kinds on wallet 0 (init_send, lock, receive, finalize normal/late/invoice, issue invoice, pay invoice, cancel, refresh, scan, build_coinbase, create account, refresh with expired TTL); the operation is first run on a copy of the wallet directory through a counting wrapper of the public WalletBackend/WalletOutputBatch traits (N persistent effects: batch commits, key-index bumps, stored-tx writes); then for EVERY k<N and every mode in {crash before k, crash after k, error at k} (+ truncation of the stored-tx file to {0,1,2,len/2,len-1} bytes; thorough: every length) it is re-run on a fresh copy, the wallet instance is dropped and the directory reopened with the real lifecycle code. Oracle after reopen: opens; all query calls answer without panic (incl. get_stored_tx of a truncated file); Locked outputs name live TxSent entries; live TxSent entries have num_inputs reserved/spent outputs and their change outputs; key index beyond all records; the target's pending entry can be cancelled and spendable equals the value an unfaulted cancel gives; after a refresh the books equal the chain's truth (C04 oracle). evaluations = fault runs; non-trivial = fault strictly inside an operation with >= 2 effects; exhaustive per scenario".into()
	}
	fn assumptions(&self) -> Vec<String> {
		vec![
			"LMDB commit is atomic and durable (trusted); process death is modelled at the boundaries between persistent effects (unwinding with a sentinel, dropping the instance, reopening) plus truncation of the one non-transactional file".into(),
			"destructors running during the unwind perform no persistent write on wallet paths (checked by reading)".into(),
			"power-loss reordering of un-synced writes is out of scope".into(),
		]
	}
	fn extra(&self) -> serde_json::Value {
		serde_json::json!({"fault_runs": self.fault_runs, "fault_points": self.points})
	}
	fn run(&mut self, c: &Case) -> Outcome {
		let mut out = Outcome::default();
		self.n += 1;
		let dir = self.scratch.join(format!("c06.case{}", self.n));
		let r = self.run_case(c, &dir, &mut out);
		let _ = std::fs::remove_dir_all(&dir);
		let _ = std::fs::remove_dir_all(self.scratch.join(format!("c06.fw{}", self.n)));
		if let Err(e) = r {
			out.fail("c06:harness-error", e);
		}
		out
	}
}

fn copy_wallet(src: &Path, dst_root: &Path, name: &str) -> Result<(), String> {
	let _ = std::fs::remove_dir_all(dst_root);
	world::copy_tree(src, &dst_root.join(name)).map_err(|e| e.to_string())
}

impl C06 {
	fn run_case(&mut self, c: &Case, dir: &PathBuf, out: &mut Outcome) -> Result<(), String> {
		let mut sim = base::open_copy(&self.bases[c.base as usize % self.bases.len()], dir)?;
		sim.strict = true;
		sim.never_mine_cancelled = true;
		let w = 0usize;
		let other = 1usize;
		let acct = c.acct as usize % ACCOUNTS.len();
		sim.switch_account(w, acct)?;
		for op in &c.pre {
			let _ = sim.apply(op);
		}
		sim.switch_account(w, acct)?;
		sim.set_node_down(false);
		let mut args = c.args.clone();
		args.late_lock = c.target == 4;
		if args.late_lock {
			args.proof = false;
		}
		if c.target != 13 {
			args.ttl = None;
		}
		out.class(format!("target={}", c.target));
		// ---- prepare prerequisites on the live wallet
		let mut p = Prepared {
			slate_in: None,
			slate_id: None,
			init_args: None,
			invoice_amount: 0,
			cancel_log_id: None,
		};
		let prep: Result<(), String> = (|| {
			match c.target {
				0 => {
					let amount = sim.pick_amount(w, &args);
					p.init_args = Some(sim.init_args(w, &args, amount, None));
				}
				1 => {
					let si = sim.init_send(w, other, &args)?;
					p.slate_in = Some(sim.slates[si].s1.clone());
					p.slate_id = Some(sim.slates[si].id);
				}
				2 => {
					let si = sim.init_send(other, w, &args)?;
					sim.lock(si)?;
					p.slate_in = Some(wire(&sim.slates[si].s1)?);
					p.slate_id = Some(sim.slates[si].id);
				}
				3 | 4 => {
					let si = sim.init_send(w, other, &args)?;
					if c.target == 3 {
						sim.lock(si)?;
					}
					sim.deliver(si)?;
					p.slate_in = Some(wire(sim.slates[si].s2.as_ref().unwrap())?);
					p.slate_id = Some(sim.slates[si].id);
				}
				5 => {
					let amt = std::cmp::max(1, sim.spendable(other, 1) / 5);
					let si = sim.issue_invoice(w, other, amt)?;
					sim.pay_invoice(si, &SendArgs::default())?;
					sim.lock(si)?;
					p.slate_in = Some(wire(sim.slates[si].s2.as_ref().unwrap())?);
					p.slate_id = Some(sim.slates[si].id);
				}
				6 => {
					p.invoice_amount = std::cmp::max(1, sim.spendable(other, 1) / 5);
				}
				7 => {
					let amt = std::cmp::max(1, sim.spendable(w, args.min_conf as u64) / 5);
					let si = sim.issue_invoice(other, w, amt)?;
					p.slate_in = Some(wire(&sim.slates[si].s1)?);
					p.slate_id = Some(sim.slates[si].id);
					let mut a = sim.init_args(w, &args, amt, None);
					a.amount_includes_fee = None;
					a.late_lock = Some(false);
					a.payment_proof_recipient_address = None;
					p.init_args = Some(a);
				}
				8 => {
					let si = sim.init_send(w, other, &args)?;
					sim.lock(si)?;
					p.slate_id = Some(sim.slates[si].id);
					let v = snap::view(sim.w(w));
					p.cancel_log_id = v.txs.iter().find(|t| t.tx_slate_id == p.slate_id && t.tx_type == TxLogEntryType::TxSent).map(|t| t.id);
					if p.cancel_log_id.is_none() {
						return Err("no entry to cancel".into());
					}
				}
				9 | 10 => {
					// something for the refresh to do: a finished, mined transaction the wallet has not seen yet
					let si = sim.init_send(w, other, &args)?;
					sim.lock(si)?;
					sim.deliver(si)?;
					sim.finalize(si)?;
					sim.post(si)?;
					sim.mine(Some(w), 0xffff)?;
				}
				13 => {
					let mut a = args.clone();
					a.ttl = Some(1);
					let si = sim.init_send(w, other, &a)?;
					sim.lock(si)?;
					p.slate_id = Some(sim.slates[si].id);
					sim.mine(None, 0)?;
					sim.mine(None, 0)?;
				}
				_ => {}
			}
			Ok(())
		})();
		if let Err(e) = prep {
			out.class("not-prepared");
			crate::rt::dbg(&format!("c06 not prepared: {}", e));
			return Ok(());
		}
		if !matches!(c.target, 9 | 10 | 13) {
			if !matches!(sim.refresh(w), Ok(true)) {
				return Err("refresh before target failed".into());
			}
		}
		let height = sim.world.height();
		let wal_dir = sim.w(w).dir.clone();
		let wal_name = sim.w(w).name.clone();
		let phrase = sim.w(w).phrase.clone();
		let parent = sim.w(w).active_parent();
		let node = sim.world.node.clone();
		let kc: ExtKeychain = truth::keychain_from_phrase(&phrase)?;
		let pre_view = snap::view(sim.w(w));
		{
			let mut tmp = Outcome::default();
			invariants(&pre_view, sim.w(w), &mut tmp, "pre");
			if !tmp.fails.is_empty() {
				// attribute to the preparing operations, not to a fault
				out.fails.extend(tmp.fails);
				return Ok(());
			}
		}
		let fw_root = self.scratch.join(format!("c06.fw{}", self.n));
		// ---- counting run
		copy_wallet(&wal_dir, &fw_root, &wal_name)?;
		let (effects, unfaulted_ok) = {
			let fw = FaultWallet::open(&fw_root.join(&wal_name), node.clone(), kc.clone(), parent.clone())?;
			fw.ctl.count_only();
			let r = match fault::run_faulty(|| run_target(&fw, c.target, &p, c.scan_delete, height, ACCOUNTS[acct])) {
				Ran::Done(r) => r,
				Ran::Crashed(_) => return Err("crash without plan".into()),
				Ran::Panicked(f) => {
					out.fails.push(f);
					return Ok(());
				}
			};
			(fw.ctl.effects(), r.is_ok())
		};
		out.class(format!("effects={}", std::cmp::min(effects.len(), 9)));
		out.class(if unfaulted_ok { "unfaulted:ok" } else { "unfaulted:err" });
		if !unfaulted_ok {
			// the operation does not even succeed without faults (e.g. insufficient funds): nothing to enumerate
			return Ok(());
		}
		// scan(delete_unconfirmed = true) releases pending transactions by design: after a crash the spendable amount is
		// the reference below (nothing released yet) or the amount the completed, unfaulted scan leaves
		let alt_spendable: Option<u64> = if c.target == 10 && c.scan_delete {
			let wal = world::open_wallet(&fw_root, &wal_name, node.clone(), "", false)?;
			wal.with(|b| b.set_parent_key_id(parent.clone()));
			Some(cancel_targets_and_spendable(&wal, &p, &parent)?)
		} else {
			None
		};
		// reference: spendable after an unfaulted cancel of the target's entry on the pre-operation state
		let expected_spendable = self.spendable_after_cancel(&wal_dir, &fw_root, &wal_name, &node, &p, &parent, None)?;
		// ---- enumerate fault points
		let mut evals = 0u64;
		for (k, name) in effects.iter().enumerate() {
			let mut modes = vec![Mode::CrashBefore, Mode::CrashAfter, Mode::Error];
			if name == "store_tx" {
				let lens: Vec<usize> = match self.tier {
					Tier::Quick => vec![0, 1, 2, 700, 1_000_000],
					Tier::Thorough => (0..40).map(|i| i * 97).chain(vec![1_000_000]).collect(),
				};
				for l in lens {
					modes.push(Mode::Truncate(l));
				}
			}
			for mode in modes {
				copy_wallet(&wal_dir, &fw_root, &wal_name)?;
				let outcome = {
					let fw = FaultWallet::open(&fw_root.join(&wal_name), node.clone(), kc.clone(), parent.clone())?;
					fw.ctl.arm(k, mode.clone());
					let r = fault::run_faulty(|| run_target(&fw, c.target, &p, c.scan_delete, height, ACCOUNTS[acct]));
					r
				};
				evals += 1;
				self.fault_runs += 1;
				let tag = format!("t{}:{}@{}:{}", c.target, name, k, match &mode {
					Mode::CrashBefore => "crash-before".to_string(),
					Mode::CrashAfter => "crash-after".to_string(),
					Mode::Error => "error".to_string(),
					Mode::Truncate(_) => "truncate".to_string(),
				});
				match outcome {
					Ran::Panicked(f) => {
						// A panic caused by the injected fault is a process death like any other: the statement
						// constrains what is found after reopening, not how the process dies. Counted, not judged.
						let _ = f;
						out.class("panic-on-injected-fault");
					}
					Ran::Done(_) | Ran::Crashed(_) => {}
				}
				// ---- reopen from disk with the real lifecycle code
				let reopened = guard(|| world::open_wallet(&fw_root, &wal_name, node.clone(), "", false));
				let wal = match reopened {
					Ok(Ok(wl)) => wl,
					Ok(Err(e)) => {
						out.fail("c06:cannot-reopen", format!("wallet does not open after fault {}: {}", tag, e));
						continue;
					}
					Err(f) => {
						out.fails.push(Fail::new(format!("c06:reopen:{}", f.sig), format!("{} (fault {})", f.detail, tag)));
						continue;
					}
				};
				wal.with(|b| b.set_parent_key_id(parent.clone()));
				self.after_reopen(&sim, &wal, &p, &tag, expected_spendable, alt_spendable, &kc, acct, out);
				drop(wal);
				if out.fails.len() > 3 {
					break;
				}
			}
			if out.fails.len() > 3 {
				break;
			}
		}
		self.points += effects.len() as u64;
		out.evals = Some(std::cmp::max(1, evals));
		if effects.len() >= 2 {
			out.nontrivial = true;
		}
		if !out.fails.is_empty() {
			let hist = sim.history();
			for f in out.fails.iter_mut() {
				f.detail = format!("{}\n--- target {} effects {:?} ---\n{}", f.detail, c.target, effects, hist);
			}
		}
		Ok(())
	}

	/// spendable (active account, min_conf 1) after cancelling the target's pending entry, on a copy of `src`
	fn spendable_after_cancel(
		&self,
		src: &Path,
		root: &Path,
		name: &str,
		node: &crate::node::DirectNode,
		p: &Prepared,
		parent: &Identifier,
		_unused: Option<()>,
	) -> Result<u64, String> {
		copy_wallet(src, root, name)?;
		let wal = world::open_wallet(root, name, node.clone(), "", false)?;
		wal.with(|b| b.set_parent_key_id(parent.clone()));
		cancel_targets_and_spendable(&wal, p, parent)
	}

	fn after_reopen(&self, sim: &Sim, wal: &Wal, p: &Prepared, tag: &str, expected_spendable: u64, alt_spendable: Option<u64>, kc: &ExtKeychain, acct: usize, out: &mut Outcome) {
		let short = tag.split(':').next().unwrap_or("t").to_string();
		// every query call answers without panic
		let q = guard(|| {
			let _ = wal.owner.retrieve_outputs(None, true, false, None);
			let txs = wal.owner.retrieve_txs(None, false, None, None, None);
			let _ = wal.owner.retrieve_summary_info(None, false, 1);
			if let Ok((_, txs)) = &txs {
				for t in txs {
					if t.stored_tx.is_some() {
						let _ = wal.owner.get_stored_tx(None, Some(t.id), None);
					}
				}
			}
			if let Some(id) = p.slate_id {
				let _ = wal.with(|b| b.get_private_context(None, id.as_bytes()));
				let _ = wal.owner.get_stored_tx(None, None, Some(&id));
			}
		});
		if let Err(f) = q {
			out.fails.push(Fail::new(format!("c06:query-after-crash:{}", f.sig), format!("{} (fault {})", f.detail, tag)));
			return;
		}
		// a partially written stored-transaction file is REPORTED (Err), never silently treated as absent or as
		// some other transaction: judge get_stored_tx against the file as it is on disk, parsed independently
		if let Some(id) = p.slate_id {
			let path = wal.data_dir().join("saved_txs").join(format!("{}.grintx", id));
			if let Ok(body) = std::fs::read(&path) {
				let intact: Option<grin_core::core::Transaction> = std::str::from_utf8(&body)
					.ok()
					.filter(|s| s.is_ascii() && !s.is_empty())
					.and_then(|s| grin_util::from_hex(s).ok())
					.and_then(|b| grin_core::ser::deserialize(&mut &b[..], grin_core::ser::ProtocolVersion(1), grin_core::ser::DeserializationMode::default()).ok());
				let got = wal.with(|b| b.get_stored_tx(&format!("{}", id)));
				match (&intact, &got) {
					(None, Ok(x)) => out.fail(
						format!("c06:{}:damaged-stored-tx-not-reported", short),
						format!("stored tx file of {} bytes is not a complete transaction but get_stored_tx returned Ok({}) (fault {})", body.len(), if x.is_some() { "Some(tx)" } else { "None" }, tag),
					),
					(Some(t), Ok(Some(g))) => {
						if grin_core::ser::ser_vec(t, grin_core::ser::ProtocolVersion(1)).ok() != grin_core::ser::ser_vec(g, grin_core::ser::ProtocolVersion(1)).ok() {
							out.fail(format!("c06:{}:stored-tx-differs-from-file", short), format!("get_stored_tx returned a transaction different from the file (fault {})", tag));
						}
					}
					(Some(_), Ok(None)) => out.fail(format!("c06:{}:intact-stored-tx-not-returned", short), format!("intact stored tx file not returned (fault {})", tag)),
					_ => {}
				}
			}
		}
		let v = snap::view(wal);
		invariants(&v, wal, out, &short);
		if !out.fails.is_empty() {
			for f in out.fails.iter_mut() {
				if !f.detail.contains("(fault ") {
					f.detail = format!("{} (fault {})", f.detail, tag);
				}
			}
			return;
		}
		// the target's pending transaction can be cancelled, restoring the reference spendable amount
		let parent = wal.active_parent();
		match guard(|| cancel_targets_and_spendable(wal, p, &parent)) {
			Ok(Ok(sp)) => {
				if sp != expected_spendable && Some(sp) != alt_spendable {
					out.fail(
						format!("c06:{}:spendable-not-restored", short),
						format!("after fault {} and cancelling the pending transaction spendable is {} ; an unfaulted cancel gives {}", tag, sp, expected_spendable),
					);
				}
			}
			Ok(Err(e)) => out.fail(format!("c06:{}:cannot-cancel-after-crash", short), format!("fault {}: {}", tag, e)),
			Err(f) => out.fails.push(Fail::new(format!("c06:cancel-after-crash:{}", f.sig), format!("{} (fault {})", f.detail, tag))),
		}
		if !out.fails.is_empty() {
			return;
		}
		// recoverable: after that refresh the structural invariants hold and the books equal the chain's truth
		let v2 = snap::view(wal);
		invariants(&v2, wal, out, &short);
		if out.fails.is_empty() {
			if let Err(e) = c04::check_books_of(sim, wal, 0, acct, kc, out, &format!("{}:books", short)) {
				out.fail("c06:harness-error", e);
			}
		}
		for f in out.fails.iter_mut() {
			if !f.detail.contains("(fault ") {
				f.detail = format!("{} (fault {})", f.detail, tag);
			}
		}
	}
}

/// Cancel the target's still-pending entries (by slate id) in the active account, then report spendable.
fn cancel_targets_and_spendable(wal: &Wal, p: &Prepared, parent: &Identifier) -> Result<u64, String> {
	// refresh first: it may itself settle the pending entry (confirmation, TTL expiry)
	let _ = wal.owner.retrieve_summary_info(None, true, 1);
	if let Some(id) = p.slate_id {
		let v = snap::view(wal);
		let pending: Vec<u32> = v
			.txs
			.iter()
			.filter(|t| t.tx_slate_id == Some(id) && &t.parent_key_id == parent && !t.confirmed && matches!(t.tx_type, TxLogEntryType::TxSent | TxLogEntryType::TxReceived))
			.map(|t| t.id)
			.collect();
		for lid in pending {
			wal.owner
				.cancel_tx(None, Some(lid), None)
				.map_err(|e| format!("cancel of pending entry {} refused: {}", lid, e))?;
		}
	} else {
		// make the figures current the same way a cancel does
		let _ = wal.owner.retrieve_summary_info(None, true, 1);
	}
	wal.owner
		.retrieve_summary_info(None, true, 1)
		.map(|r| r.1.amount_currently_spendable)
		.map_err(|e| e.to_string())
}

pub fn run(args: &Args, rep: &mut Report) {
	let mut p = C06::new(args);
	run_part(&mut p, args, rep);
	rep.exhaustive = Some(true);
}

pub fn replay(args: &Args, _part: &str, case: &serde_json::Value) -> Result<Outcome, String> {
	replay_part(&mut C06::new(args), case)
}

#[allow(dead_code)]
fn _unused(_: &c04::Case) {}
