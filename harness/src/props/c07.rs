//! C07 — the foreign API can only add funds, exactly once per slate.
//!
//! Victim = wallet 0 of a base world in a generated state; attacker / cooperating wallet = wallet 1.
//! Requests are JSON-RPC bodies posted to an in-process `ForeignAPIHandlerV2` (production
//! `check_middleware`, `parse_body`, `ForeignRpc::handle_request`), no sockets.

use crate::base::{self, BaseSpec};
use crate::props::c02::pubkey;
use crate::rt::*;
use crate::sim::*;
use crate::snap::{self, View};
use grin_api::Handler;
use grin_keychain::{ExtKeychain, Identifier, Keychain};
use grin_util::{static_secp_instance, ToHex};
use grin_wallet_controller::controller::ForeignAPIHandlerV2;
use grin_wallet_libwallet::{OutputData, OutputStatus, Slate, SlateVersion, TxLogEntryType, VersionedSlate};
use hyper::{Body, Request};
use proptest::prelude::*;
use serde_derive::{Deserialize, Serialize};
use serde_json::{json, Value};
use sha2::{Digest, Sha256};
use std::collections::{BTreeMap, BTreeSet};
use std::path::PathBuf;
use std::sync::Arc;
use uuid::Uuid;

type H = ForeignAPIHandlerV2<crate::world::LC, crate::node::DirectNode, ExtKeychain>;

// ---------------------------------------------------------------------------------------------
// case

#[derive(Clone, Debug, Serialize, Deserialize)]
pub struct Ensure {
	/// 0 pending send (locked) 1 pending late-locked send 2 invoice issued by victim 3 invoice paid by victim
	/// 4 received from wallet 1 5 send finalized (not posted)
	pub kind: u8,
	/// perform it in the victim's other account
	pub other_acct: bool,
	/// counterparty step done (send delivered / invoice paid)
	pub deliver: bool,
	pub args: SendArgs,
}

#[derive(Clone, Debug, Serialize, Deserialize)]
pub enum IdPick {
	Random([u8; 16]),
	/// id of a slate the victim is a party of
	Victim(u16),
	/// id used by an earlier request of this sequence
	Earlier(u16),
	Nil,
}

#[derive(Clone, Debug, Serialize, Deserialize)]
pub enum TtlPick {
	Zero,
	/// relative to the victim's last confirmed height
	Rel(i8),
	Far,
	Max,
}

#[derive(Clone, Debug, Serialize, Deserialize)]
pub enum SigOp {
	Clear,
	Remove(u16),
	Dup(u16),
	Push { seed: [u8; 32], part: bool },
	/// how: 0 remove 1 random 2 flip one bit 3 copy from the next entry
	SetPart { i: u16, how: u8, seed: [u8; 32] },
	SetXs { i: u16, seed: [u8; 32] },
	SetNonce { i: u16, seed: [u8; 32] },
	Swap,
	KeepWithPart,
	KeepWithoutPart,
}

#[derive(Clone, Debug, Serialize, Deserialize)]
pub enum ComOp {
	Absent,
	Clear,
	/// an input naming one of the victim's own outputs
	InputVictim(u16),
	InputRandom([u8; 32]),
	Output { seed: [u8; 32], proof: bool },
	/// an output carrying the commitment of one of the victim's own outputs
	OutputVictim(u16),
}

#[derive(Clone, Debug, Serialize, Deserialize)]
pub enum ProofEdit {
	Remove,
	Set { saddr: [u8; 32], raddr_victim: bool, raddr: [u8; 32], rsig: Option<[u8; 32]> },
}

#[derive(Clone, Debug, Serialize, Deserialize)]
pub enum JsonTweak {
	Drop(u8),
	Null(u8),
	WrongType(u8),
	Extra,
}

#[derive(Clone, Debug, Default, Serialize, Deserialize)]
pub struct Edit {
	pub id: Option<IdPick>,
	/// 0 UN 1 S1 2 S2 3 S3 4 I1 5 I2 6 I3 7 invalid
	pub sta: Option<u8>,
	pub amt: Option<u64>,
	pub amt_numeric: bool,
	pub fee: Option<u64>,
	pub ttl: Option<TtlPick>,
	pub np: Option<u8>,
	pub feat: Option<(u8, Option<u64>)>,
	pub off: Option<Option<[u8; 32]>>,
	pub sigs: Vec<SigOp>,
	pub coms: Vec<ComOp>,
	pub proof: Option<ProofEdit>,
	pub ver: Option<(u16, u16)>,
	pub tweak: Option<JsonTweak>,
}

#[derive(Clone, Debug, Serialize, Deserialize)]
pub enum RBase {
	Blank,
	/// fresh honest S1 from wallet 1 to the victim
	Honest(SendArgs),
	/// slate body of an earlier receive/finalize request of this sequence
	Earlier(u16),
}

#[derive(Clone, Debug, Serialize, Deserialize)]
pub enum DestPick {
	None,
	Name(u16),
	Unknown,
	Empty,
}

#[derive(Clone, Debug, Serialize, Deserialize)]
pub enum KeyPick {
	Null,
	Fresh(u32),
	/// key id of an existing output record of the victim (any status, any account)
	Existing(u16),
	Malformed(u8),
}

#[derive(Clone, Debug, Serialize, Deserialize)]
pub enum Call {
	CheckVersion,
	Coinbase { fees: u64, height: u64, key: KeyPick },
	Receive { base: RBase, edit: Edit, dest: DestPick },
	/// target: slate the victim is a party of; form: 0 first-round slate 1 counterparty's honest reply 2 final slate 3 blank
	Finalize { target: u16, form: u8, edit: Edit },
	Raw(u8),
}

#[derive(Clone, Debug, Serialize, Deserialize)]
pub struct Req {
	pub call: Call,
	/// JSON-RPC notification (no id member): executed, not answered
	pub notify: bool,
	/// receive_tx only: the optional return address (3rd parameter). 0..=179 null; 180..=229 a string that is not a
	/// slatepack address; 230..=255 a well-formed slatepack address. The handler under test has no Tor configuration
	/// (as a listener started without Tor), so no variant reaches the network.
	#[serde(default)]
	pub r_addr: u8,
}

#[derive(Clone, Debug, Serialize, Deserialize)]
pub struct Case {
	pub base: u8,
	pub acct: u8,
	pub pre: Vec<Op>,
	pub ensure: Vec<Ensure>,
	pub refresh: bool,
	/// 0 node reports no version, 1 header version 3, 2 header version 5
	pub node_bhv: u8,
	pub reqs: Vec<Req>,
}

// ---------------------------------------------------------------------------------------------
// strategies

fn b32() -> impl Strategy<Value = [u8; 32]> {
	any::<[u8; 32]>()
}

fn side_op_strategy() -> BoxedStrategy<Op> {
	let args = || send_args_strategy(false, true, false, false);
	prop_oneof![
		4 => (0u16..3, prop_oneof![3 => Just(0xffffu16), 1 => any::<u16>()]).prop_map(|(to, take)| Op::Mine { to, take }),
		2 => any::<u16>().prop_map(|w| Op::Refresh { w }),
		5 => (any::<u16>(), any::<u16>(), args()).prop_map(|(w, to, args)| Op::InitSend { w, to, args }),
		10 => any::<u16>().prop_map(|s| Op::Step { s }),
		2 => (any::<u16>(), any::<u16>(), any::<u16>()).prop_map(|(w, payer, amount)| Op::IssueInvoice { w, payer, amount }),
		1 => (any::<u16>(), any::<bool>(), args()).prop_map(|(w, other_acct, args)| Op::SelfSend { w, other_acct, args }),
	]
	.boxed()
}

fn ensure_strategy() -> BoxedStrategy<Ensure> {
	(
		prop_oneof![3 => Just(0u8), 4 => Just(1u8), 2 => Just(2u8), 2 => Just(3u8), 1 => Just(4u8), 1 => Just(5u8), 3 => Just(6u8)],
		prop::bool::weighted(0.25),
		any::<bool>(),
		send_args_strategy(false, false, true, true),
	)
		.prop_map(|(kind, other_acct, deliver, args)| Ensure { kind, other_acct, deliver, args })
		.boxed()
}

fn amount_strategy() -> BoxedStrategy<u64> {
	prop_oneof![
		1 => Just(0u64),
		1 => Just(1u64),
		1 => Just(1u64 << 32),
		1 => Just((1u64 << 40) - 1),
		1 => Just(1u64 << 40),
		1 => Just(1u64 << 63),
		1 => Just(u64::MAX),
		5 => 1u64..100_000_000_000,
	]
	.boxed()
}

fn fee_strategy() -> BoxedStrategy<u64> {
	prop_oneof![
		1 => Just(0u64),
		4 => (0u64..16, prop_oneof![Just(1u64), 1u64..100_000_000, Just((1u64 << 40) - 1)]).prop_map(|(s, f)| (s << 40) | f),
		1 => any::<u64>(),
		1 => Just(u64::MAX),
	]
	.boxed()
}

fn id_strategy() -> BoxedStrategy<IdPick> {
	prop_oneof![
		3 => any::<[u8; 16]>().prop_map(IdPick::Random),
		4 => any::<u16>().prop_map(IdPick::Victim),
		2 => any::<u16>().prop_map(IdPick::Earlier),
		1 => Just(IdPick::Nil),
	]
	.boxed()
}

fn ttl_strategy() -> BoxedStrategy<TtlPick> {
	prop_oneof![2 => Just(TtlPick::Zero), 6 => (-3i8..4).prop_map(TtlPick::Rel), 1 => Just(TtlPick::Far), 1 => Just(TtlPick::Max)].boxed()
}

fn sigop_strategy() -> BoxedStrategy<SigOp> {
	prop_oneof![
		1 => Just(SigOp::Clear),
		1 => any::<u16>().prop_map(SigOp::Remove),
		1 => any::<u16>().prop_map(SigOp::Dup),
		3 => (b32(), prop::bool::weighted(0.3)).prop_map(|(seed, part)| SigOp::Push { seed, part }),
		4 => (any::<u16>(), 0u8..4, b32()).prop_map(|(i, how, seed)| SigOp::SetPart { i, how, seed }),
		2 => (any::<u16>(), b32()).prop_map(|(i, seed)| SigOp::SetXs { i, seed }),
		2 => (any::<u16>(), b32()).prop_map(|(i, seed)| SigOp::SetNonce { i, seed }),
		1 => Just(SigOp::Swap),
		1 => Just(SigOp::KeepWithPart),
		1 => Just(SigOp::KeepWithoutPart),
	]
	.boxed()
}

fn comop_strategy() -> BoxedStrategy<ComOp> {
	prop_oneof![
		1 => Just(ComOp::Absent),
		1 => Just(ComOp::Clear),
		3 => any::<u16>().prop_map(ComOp::InputVictim),
		1 => b32().prop_map(ComOp::InputRandom),
		2 => (b32(), any::<bool>()).prop_map(|(seed, proof)| ComOp::Output { seed, proof }),
		1 => any::<u16>().prop_map(ComOp::OutputVictim),
	]
	.boxed()
}

fn proofedit_strategy() -> BoxedStrategy<ProofEdit> {
	prop_oneof![
		1 => Just(ProofEdit::Remove),
		4 => (b32(), any::<bool>(), b32(), prop::option::weighted(0.3, b32())).prop_map(|(saddr, raddr_victim, raddr, rsig)| ProofEdit::Set { saddr, raddr_victim, raddr, rsig }),
	]
	.boxed()
}

fn tweak_strategy() -> BoxedStrategy<JsonTweak> {
	prop_oneof![any::<u8>().prop_map(JsonTweak::Drop), any::<u8>().prop_map(JsonTweak::Null), any::<u8>().prop_map(JsonTweak::WrongType), Just(JsonTweak::Extra)].boxed()
}

/// p = probability that each field is overridden
fn edit_strategy(p: f64, reply: bool) -> BoxedStrategy<Edit> {
	let sta = if reply {
		prop_oneof![6 => Just(2u8), 4 => Just(5u8), 1 => 0u8..8].boxed()
	} else {
		prop_oneof![6 => Just(1u8), 1 => 0u8..8].boxed()
	};
	let a = (
		prop::option::weighted(p, id_strategy()),
		prop::option::weighted(p, sta),
		prop::option::weighted(p, amount_strategy()),
		prop::bool::weighted(0.2),
		prop::option::weighted(p, fee_strategy()),
		prop::option::weighted(p, ttl_strategy()),
		prop::option::weighted(p * 0.7, prop_oneof![Just(0u8), Just(1u8), Just(2u8), Just(3u8), Just(255u8)]),
	);
	let b = (
		prop::option::weighted(p * 0.5, (0u8..5, prop::option::weighted(0.7, prop_oneof![Just(0u64), 1u64..2000, Just(u64::MAX)]))),
		prop::option::weighted(p * 0.6, prop::option::weighted(0.7, b32())),
		prop::collection::vec(sigop_strategy(), 0..=(if p > 0.4 || reply { 3 } else { 1 })),
		prop::collection::vec(comop_strategy(), 0..=(if p > 0.4 { 3 } else { 1 })),
		prop::option::weighted(p * 0.6, proofedit_strategy()),
		prop::option::weighted(p * 0.3, prop_oneof![Just((4u16, 2u16)), Just((4u16, 3u16)), Just((3u16, 3u16)), Just((5u16, 3u16)), Just((4u16, 0u16))]),
		prop::option::weighted(0.04, tweak_strategy()),
	);
	(a, b)
		.prop_map(|((id, sta, amt, amt_numeric, fee, ttl, np), (feat, off, sigs, coms, proof, ver, tweak))| Edit {
			id,
			sta,
			amt,
			amt_numeric,
			fee,
			ttl,
			np,
			feat,
			off,
			sigs,
			coms,
			proof,
			ver,
			tweak,
		})
		.boxed()
}

fn call_strategy() -> BoxedStrategy<Call> {
	let honest_args = || send_args_strategy(false, false, true, true);
	prop_oneof![
		1 => Just(Call::CheckVersion),
		6 => (
			prop_oneof![3 => Just(0u64), 2 => 1u64..1_000_000_000, 1 => Just(1u64 << 40), 1 => Just(u64::MAX - 60_000_000_000), 1 => Just(u64::MAX)],
			prop_oneof![1 => Just(0u64), 5 => 1u64..40, 1 => Just(u64::MAX - 1), 1 => Just(u64::MAX)],
			prop_oneof![
				2 => Just(KeyPick::Null),
				1 => any::<u32>().prop_map(KeyPick::Fresh),
				6 => any::<u16>().prop_map(KeyPick::Existing),
				1 => (0u8..6).prop_map(KeyPick::Malformed),
			],
		)
			.prop_map(|(fees, height, key)| Call::Coinbase { fees, height, key }),
		// receive: honest / lightly mutated honest / synthetic / replay
		3 => (honest_args(), dest_strategy()).prop_map(|(a, dest)| Call::Receive { base: RBase::Honest(a), edit: Edit::default(), dest }),
		5 => (honest_args(), edit_strategy(0.12, false), dest_strategy()).prop_map(|(a, edit, dest)| Call::Receive { base: RBase::Honest(a), edit, dest }),
		6 => (edit_strategy(0.6, false), dest_strategy()).prop_map(|(edit, dest)| Call::Receive { base: RBase::Blank, edit, dest }),
		3 => (any::<u16>(), edit_strategy(0.08, false), dest_strategy()).prop_map(|(i, edit, dest)| Call::Receive { base: RBase::Earlier(i), edit, dest }),
		// finalize: replay of honest / mutated / synthetic
		2 => (any::<u16>(), 0u8..3).prop_map(|(target, form)| Call::Finalize { target, form, edit: Edit::default() }),
		9 => (any::<u16>(), prop_oneof![2 => Just(0u8), 5 => Just(1u8), 2 => Just(2u8)], edit_strategy(0.15, true)).prop_map(|(target, form, edit)| Call::Finalize { target, form, edit }),
		4 => (any::<u16>(), edit_strategy(0.5, true)).prop_map(|(target, edit)| Call::Finalize { target, form: 3, edit }),
		1 => (0u8..7).prop_map(Call::Raw),
	]
	.boxed()
}

fn dest_strategy() -> BoxedStrategy<DestPick> {
	prop_oneof![5 => Just(DestPick::None), 4 => any::<u16>().prop_map(DestPick::Name), 1 => Just(DestPick::Unknown), 1 => Just(DestPick::Empty)].boxed()
}

fn req_strategy() -> BoxedStrategy<Req> {
	(call_strategy(), prop::bool::weighted(0.04), prop_oneof![5 => Just(0u8), 3 => 180u8..=255]).prop_map(|(call, notify, r_addr)| Req { call, notify, r_addr }).boxed()
}

// ---------------------------------------------------------------------------------------------
// JSON construction

fn hexs(b: &[u8]) -> String {
	b.to_vec().to_hex()
}

fn expand(seed: &[u8; 32], n: usize) -> Vec<u8> {
	let mut out = Vec::with_capacity(n + 32);
	let mut ctr = 0u32;
	while out.len() < n {
		let mut h = Sha256::new();
		h.update(seed);
		h.update(ctr.to_le_bytes());
		out.extend_from_slice(&h.finalize());
		ctr += 1;
	}
	out.truncate(n);
	out
}

fn pk_hex(seed: &[u8; 32]) -> String {
	let pk = pubkey(seed);
	let secp = static_secp_instance();
	let secp = secp.lock();
	hexs(&pk.serialize_vec(&secp, true))
}

fn sig_hex(seed: &[u8; 32]) -> String {
	hexs(&expand(seed, 64))
}

fn commit_hex(seed: &[u8; 32]) -> String {
	let mut v = expand(seed, 33);
	v[0] = 0x08 | (v[0] & 1);
	hexs(&v)
}

fn dalek_pk_hex(seed: &[u8; 32]) -> String {
	let sk = ed25519_dalek::SecretKey::from_bytes(seed).expect("32 bytes");
	let pk: ed25519_dalek::PublicKey = (&sk).into();
	hexs(pk.as_bytes())
}

fn dalek_sig_hex(seed: &[u8; 32]) -> String {
	use ed25519_dalek::Signer;
	let sk = ed25519_dalek::SecretKey::from_bytes(seed).expect("32 bytes");
	let pk: ed25519_dalek::PublicKey = (&sk).into();
	let kp = ed25519_dalek::Keypair { secret: sk, public: pk };
	hexs(&kp.sign(b"c07 unrelated message").to_bytes())
}

pub fn slate_json(s: &Slate) -> Result<Value, String> {
	let v = VersionedSlate::into_version(s.clone(), SlateVersion::V4).map_err(|e| e.to_string())?;
	serde_json::to_value(&v).map_err(|e| e.to_string())
}

fn blank_json(id: Uuid) -> Value {
	json!({"ver": "4:3", "id": id.to_string(), "sta": "S1", "sigs": []})
}

const STATES: [&str; 8] = ["UN", "S1", "S2", "S3", "I1", "I2", "I3", "XX"];
const FIELDS: [&str; 13] = ["ver", "id", "sta", "off", "num_parts", "amt", "fee", "feat", "ttl", "sigs", "coms", "proof", "feat_args"];

/// facts about the victim the attacker can know or guess, used to resolve picks
struct Env {
	victim_ids: Vec<Uuid>,
	earlier_ids: Vec<Uuid>,
	lch: u64,
	victim_commits: Vec<String>,
	victim_addr: String,
}

fn apply_edit(v: &mut Value, e: &Edit, env: &Env) {
	let m = match v.as_object_mut() {
		Some(m) => m,
		None => return,
	};
	if let Some(id) = &e.id {
		let u = match id {
			IdPick::Random(b) => Uuid::from_bytes(*b),
			IdPick::Victim(i) => {
				if env.victim_ids.is_empty() {
					Uuid::from_bytes([0x5a; 16])
				} else {
					env.victim_ids[idx(*i, env.victim_ids.len())]
				}
			}
			IdPick::Earlier(i) => {
				if env.earlier_ids.is_empty() {
					Uuid::from_bytes([0xa5; 16])
				} else {
					env.earlier_ids[idx(*i, env.earlier_ids.len())]
				}
			}
			IdPick::Nil => Uuid::nil(),
		};
		m.insert("id".into(), json!(u.to_string()));
	}
	if let Some(s) = e.sta {
		m.insert("sta".into(), json!(STATES[s as usize % STATES.len()]));
	}
	if let Some(a) = e.amt {
		m.insert("amt".into(), if e.amt_numeric { json!(a) } else { json!(a.to_string()) });
	}
	if let Some(f) = e.fee {
		m.insert("fee".into(), json!(f.to_string()));
	}
	if let Some(t) = &e.ttl {
		let t = match t {
			TtlPick::Zero => 0,
			TtlPick::Rel(d) => (env.lch as i128 + *d as i128).max(0) as u64,
			TtlPick::Far => env.lch + 1000,
			TtlPick::Max => u64::MAX,
		};
		m.insert("ttl".into(), json!(t.to_string()));
	}
	if let Some(n) = e.np {
		m.insert("num_parts".into(), json!(n));
	}
	if let Some((f, a)) = &e.feat {
		m.insert("feat".into(), json!(f));
		match a {
			Some(h) => {
				m.insert("feat_args".into(), json!({ "lock_hgt": h }));
			}
			None => {
				m.remove("feat_args");
			}
		}
	}
	if let Some(o) = &e.off {
		match o {
			Some(b) => {
				m.insert("off".into(), json!(hexs(b)));
			}
			None => {
				m.remove("off");
			}
		}
	}
	if !e.sigs.is_empty() {
		let mut sigs: Vec<Value> = m.get("sigs").and_then(|s| s.as_array().cloned()).unwrap_or_default();
		for op in &e.sigs {
			match op {
				SigOp::Clear => sigs.clear(),
				SigOp::Remove(i) => {
					if !sigs.is_empty() {
						sigs.remove(idx(*i, sigs.len()));
					}
				}
				SigOp::Dup(i) => {
					if !sigs.is_empty() {
						let x = sigs[idx(*i, sigs.len())].clone();
						sigs.push(x);
					}
				}
				SigOp::Push { seed, part } => {
					let mut n = *seed;
					n[0] ^= 0x55;
					let mut p = json!({"xs": pk_hex(seed), "nonce": pk_hex(&n)});
					if *part {
						p["part"] = json!(sig_hex(seed));
					}
					sigs.push(p);
				}
				SigOp::SetPart { i, how, seed } => {
					if !sigs.is_empty() {
						// prefer an entry that carries a partial signature (the counterparty's)
						let with: Vec<usize> = (0..sigs.len()).filter(|k| sigs[*k].get("part").is_some()).collect();
						let k = if with.is_empty() { idx(*i, sigs.len()) } else { with[idx(*i, with.len())] };
						match how {
							0 => {
								if let Some(o) = sigs[k].as_object_mut() {
									o.remove("part");
								}
							}
							1 => sigs[k]["part"] = json!(sig_hex(seed)),
							2 => {
								if let Some(p) = sigs[k].get("part").and_then(|p| p.as_str()) {
									if let Ok(mut b) = grin_util::from_hex(p) {
										if !b.is_empty() {
											let bit = seed[0] as usize % (b.len() * 8);
											b[bit / 8] ^= 1 << (bit % 8);
											sigs[k]["part"] = json!(hexs(&b));
										}
									}
								} else {
									sigs[k]["part"] = json!(sig_hex(seed));
								}
							}
							_ => {
								let other = (k + 1) % sigs.len();
								if let Some(p) = sigs[other].get("part").cloned() {
									sigs[k]["part"] = p;
								}
							}
						}
					}
				}
				SigOp::SetXs { i, seed } => {
					if !sigs.is_empty() {
						let k = idx(*i, sigs.len());
						sigs[k]["xs"] = json!(pk_hex(seed));
					}
				}
				SigOp::SetNonce { i, seed } => {
					if !sigs.is_empty() {
						let k = idx(*i, sigs.len());
						sigs[k]["nonce"] = json!(pk_hex(seed));
					}
				}
				SigOp::Swap => {
					if sigs.len() >= 2 {
						sigs.swap(0, 1);
					}
				}
				SigOp::KeepWithPart => sigs.retain(|s| s.get("part").is_some()),
				SigOp::KeepWithoutPart => sigs.retain(|s| s.get("part").is_none()),
			}
		}
		m.insert("sigs".into(), Value::Array(sigs));
	}
	if !e.coms.is_empty() {
		let mut coms: Option<Vec<Value>> = m.get("coms").and_then(|s| s.as_array().cloned());
		for op in &e.coms {
			match op {
				ComOp::Absent => coms = None,
				ComOp::Clear => coms = Some(vec![]),
				ComOp::InputVictim(i) => {
					let c = if env.victim_commits.is_empty() { commit_hex(&[3u8; 32]) } else { env.victim_commits[idx(*i, env.victim_commits.len())].clone() };
					coms.get_or_insert_with(Vec::new).push(json!({"f": (*i & 1) as u8, "c": c}));
				}
				ComOp::InputRandom(s) => coms.get_or_insert_with(Vec::new).push(json!({"c": commit_hex(s)})),
				ComOp::Output { seed, proof } => {
					let p = if *proof { expand(seed, 675) } else { expand(seed, 1 + seed[1] as usize) };
					coms.get_or_insert_with(Vec::new).push(json!({"c": commit_hex(seed), "p": hexs(&p)}));
				}
				ComOp::OutputVictim(i) => {
					let c = if env.victim_commits.is_empty() { commit_hex(&[4u8; 32]) } else { env.victim_commits[idx(*i, env.victim_commits.len())].clone() };
					coms.get_or_insert_with(Vec::new).push(json!({"c": c, "p": hexs(&expand(&[9u8; 32], 675))}));
				}
			}
		}
		match coms {
			Some(c) => {
				m.insert("coms".into(), Value::Array(c));
			}
			None => {
				m.remove("coms");
			}
		}
	}
	if let Some(p) = &e.proof {
		match p {
			ProofEdit::Remove => {
				m.remove("proof");
			}
			ProofEdit::Set { saddr, raddr_victim, raddr, rsig } => {
				let mut o = json!({
					"saddr": dalek_pk_hex(saddr),
					"raddr": if *raddr_victim { env.victim_addr.clone() } else { dalek_pk_hex(raddr) },
				});
				if let Some(s) = rsig {
					o["rsig"] = json!(dalek_sig_hex(s));
				}
				m.insert("proof".into(), o);
			}
		}
	}
	if let Some((a, b)) = e.ver {
		m.insert("ver".into(), json!(format!("{}:{}", a, b)));
	}
	if let Some(t) = &e.tweak {
		match t {
			JsonTweak::Drop(i) => {
				m.remove(FIELDS[*i as usize % FIELDS.len()]);
			}
			JsonTweak::Null(i) => {
				m.insert(FIELDS[*i as usize % FIELDS.len()].into(), Value::Null);
			}
			JsonTweak::WrongType(i) => {
				let k = FIELDS[*i as usize % FIELDS.len()];
				let nv = match m.get(k) {
					Some(Value::String(_)) => json!(17),
					Some(Value::Array(_)) => json!({}),
					Some(Value::Number(_)) => json!([1]),
					_ => json!("00"),
				};
				m.insert(k.into(), nv);
			}
			JsonTweak::Extra => {
				m.insert("zz_unknown".into(), json!({"a": [1, 2, 3]}));
			}
		}
	}
}

fn u64_of(v: Option<&Value>) -> Option<u64> {
	match v {
		None | Some(Value::Null) => Some(0),
		Some(Value::String(s)) => s.parse().ok(),
		Some(Value::Number(n)) => n.as_u64(),
		_ => None,
	}
}

/// (xs, nonce, part) triples of a slate JSON
fn sig_triples(v: &Value) -> Vec<(String, String, Option<String>)> {
	v.get("sigs")
		.and_then(|s| s.as_array())
		.map(|a| {
			a.iter()
				.map(|p| {
					(
						p.get("xs").and_then(|x| x.as_str()).unwrap_or("").to_lowercase(),
						p.get("nonce").and_then(|x| x.as_str()).unwrap_or("").to_lowercase(),
						p.get("part").and_then(|x| x.as_str()).map(|s| s.to_lowercase()),
					)
				})
				.collect()
		})
		.unwrap_or_default()
}

// ---------------------------------------------------------------------------------------------
// snapshots and oracle

struct Snap {
	view: View,
	db: BTreeMap<String, Value>,
	files: BTreeMap<String, Value>,
	/// currently spendable per account (retrieve_summary_info, no refresh, 1 confirmation)
	spend: Vec<u64>,
	lch: u64,
}

fn to_map(v: &Value) -> BTreeMap<String, Value> {
	v.as_object().map(|m| m.iter().map(|(k, v)| (k.clone(), v.clone())).collect()).unwrap_or_default()
}

fn take_snap(sim: &Sim, scratch: &PathBuf, active: usize) -> Result<Snap, String> {
	let wal = sim.w(0);
	let view = snap::view(wal);
	let deep = snap::deep(wal, scratch)?;
	let mut spend = vec![];
	for a in 0..ACCOUNTS.len() {
		wal.set_account(ACCOUNTS[a])?;
		let i = wal.owner.retrieve_summary_info(wal.m(), false, 1).map_err(|e| format!("summary: {}", e))?;
		spend.push(i.1.amount_currently_spendable);
	}
	wal.set_account(ACCOUNTS[active])?;
	let lch = wal.with(|b| b.last_confirmed_height()).map_err(|e| e.to_string())?;
	Ok(Snap {
		view,
		db: to_map(&deep["db"]),
		files: to_map(&deep["files"]),
		spend,
		lch,
	})
}

#[derive(Clone, Debug)]
enum Res {
	Ok(Value),
	Err(String),
	/// JSON-RPC level error: the request was not decoded into a method call
	Rpc(String),
	NoReply,
	Http(u16),
	Other(String),
}

impl Res {
	fn name(&self) -> &'static str {
		match self {
			Res::Ok(_) => "ok",
			Res::Err(_) => "err",
			Res::Rpc(_) => "rpc-error",
			Res::NoReply => "noreply",
			Res::Http(_) => "http-error",
			Res::Other(_) => "other",
		}
	}
	fn executed(&self) -> bool {
		matches!(self, Res::Ok(_) | Res::Err(_))
	}
}

enum Kind {
	Version,
	Coinbase { named: Option<Identifier> },
	Receive { amt: Option<u64>, id: Option<Uuid>, dest: Vec<Identifier>, supplied: Vec<(String, String)>, ttl: Option<u64> },
	Finalize { ttl: Option<u64>, late_ctx: bool },
	Raw,
}

impl Kind {
	fn method(&self) -> &'static str {
		match self {
			Kind::Version => "check_version",
			Kind::Coinbase { .. } => "build_coinbase",
			Kind::Receive { .. } => "receive_tx",
			Kind::Finalize { .. } => "finalize_tx",
			Kind::Raw => "raw",
		}
	}
}

struct Problem {
	kind: &'static str,
	/// key id (hex) of the output concerned, if any
	subject: Option<String>,
	detail: String,
}

fn okey(o: &OutputData) -> (Vec<u8>, Option<u64>) {
	(o.key_id.to_bytes().to_vec(), o.mmr_index)
}

fn ojson(o: &OutputData) -> Value {
	serde_json::to_value(o).unwrap_or(Value::Null)
}

fn is_cb_candidate(o: &OutputData) -> bool {
	o.is_coinbase && o.status == OutputStatus::Unconfirmed
}

fn changes<'a>(a: &'a BTreeMap<String, Value>, b: &'a BTreeMap<String, Value>) -> Vec<(String, Option<&'a Value>, Option<&'a Value>)> {
	let mut out = vec![];
	for (k, va) in a {
		match b.get(k) {
			None => out.push((k.clone(), Some(va), None)),
			Some(vb) if vb != va => out.push((k.clone(), Some(va), Some(vb))),
			_ => {}
		}
	}
	for (k, vb) in b {
		if !a.contains_key(k) {
			out.push((k.clone(), None, Some(vb)));
		}
	}
	out
}

fn short(v: &Value) -> String {
	let mut s = v.to_string();
	if s.len() > 260 {
		s.truncate(260);
		s.push_str("...");
	}
	s
}

fn judge(b: &Snap, a: &Snap, kind: &Kind, res: &Res) -> Vec<Problem> {
	let mut ps: Vec<Problem> = vec![];
	let may_be_ok = matches!(res, Res::Ok(_) | Res::NoReply);
	let bmap: BTreeMap<(Vec<u8>, Option<u64>), &OutputData> = b.view.outputs.iter().map(|o| (okey(o), o)).collect();
	let amap: BTreeMap<(Vec<u8>, Option<u64>), &OutputData> = a.view.outputs.iter().map(|o| (okey(o), o)).collect();
	// the one exception: a coinbase request naming a still-unconfirmed coinbase candidate may replace it
	let replaceable: Option<(Vec<u8>, Option<u64>)> = match kind {
		Kind::Coinbase { named: Some(k) } if may_be_ok => {
			let key = (k.to_bytes().to_vec(), None);
			match bmap.get(&key) {
				Some(o) if is_cb_candidate(o) => Some(key),
				_ => None,
			}
		}
		_ => None,
	};
	let mut replaced = false;
	// G1: existing outputs
	for (k, ob) in &bmap {
		let subj = Some(hexs(&k.0));
		match amap.get(k) {
			None => ps.push(Problem { kind: "output-gone", subject: subj, detail: format!("output record disappeared: {}", short(&ojson(ob))) }),
			Some(oa) => {
				if ojson(oa) == ojson(ob) {
					// a re-request for the same height and fees rewrites the named candidate with identical content
					if Some(k) == replaceable.as_ref() {
						replaced = true;
					}
					continue;
				}
				if Some(k) == replaceable.as_ref() && is_cb_candidate(oa) {
					replaced = true;
					continue;
				}
				if oa.status != ob.status || oa.value != ob.value {
					ps.push(Problem {
						kind: "output-status-value",
						subject: subj,
						detail: format!("existing output {} changed {:?}/{} -> {:?}/{} (record now {})", hexs(&k.0), ob.status, ob.value, oa.status, oa.value, short(&ojson(oa))),
					});
				} else {
					ps.push(Problem { kind: "output-touched", subject: subj, detail: format!("existing output record changed: {} -> {}", short(&ojson(ob)), short(&ojson(oa))) });
				}
			}
		}
	}
	// G2: nothing newly Locked / Spent
	for (k, oa) in &amap {
		if matches!(oa.status, OutputStatus::Locked | OutputStatus::Spent) {
			let same = bmap.get(k).map(|ob| ob.status == oa.status).unwrap_or(false);
			if !same {
				ps.push(Problem { kind: "newly-locked-or-spent", subject: Some(hexs(&k.0)), detail: format!("output {} is now {:?} (before: {:?})", hexs(&k.0), oa.status, bmap.get(k).map(|o| o.status.clone())) });
			}
		}
	}
	let new_outputs: Vec<&OutputData> = amap.iter().filter(|(k, _)| !bmap.contains_key(*k)).map(|(_, o)| *o).collect();
	let bt: BTreeSet<(Vec<u8>, u32)> = b.view.txs.iter().map(|t| (t.parent_key_id.to_bytes().to_vec(), t.id)).collect();
	let new_txs: Vec<&grin_wallet_libwallet::TxLogEntry> = a.view.txs.iter().filter(|t| !bt.contains(&(t.parent_key_id.to_bytes().to_vec(), t.id))).collect();
	// raw DB
	let ch = changes(&b.db, &a.db);
	for (k, vb, va) in &ch {
		let p = k.chars().next().unwrap_or('?');
		match p {
			'p' => ps.push(Problem {
				kind: "context-changed",
				subject: None,
				detail: format!("private context record {} {}", k, match (vb, va) { (Some(_), None) => "deleted", (None, Some(_)) => "created", _ => "rewritten" }),
			}),
			't' => {
				if let Some(vb) = vb {
					ps.push(Problem { kind: "txlog-touched", subject: None, detail: format!("existing log entry {} changed: {} -> {}", k, short(vb), va.map(short).unwrap_or("(deleted)".into())) });
				}
			}
			'o' | 'd' | 'i' => {}
			_ => ps.push(Problem { kind: "meta-touched", subject: None, detail: format!("record {} changed: {} -> {}", k, vb.map(short).unwrap_or("(none)".into()), va.map(short).unwrap_or("(deleted)".into())) }),
		}
	}
	let fch = changes(&b.files, &a.files);
	for (k, vb, _) in &fch {
		if vb.is_some() {
			ps.push(Problem { kind: "file-touched", subject: None, detail: format!("stored transaction file {} changed or removed", k) });
		}
	}
	// G4: spendable
	for i in 0..b.spend.len() {
		if a.spend[i] < b.spend[i] {
			ps.push(Problem { kind: "spendable-decreased", subject: None, detail: format!("spendable of account '{}' fell {} -> {}", ACCOUNTS[i], b.spend[i], a.spend[i]) });
		}
	}
	let non_d: Vec<&String> = ch.iter().map(|c| &c.0).filter(|k| !k.starts_with("d:")).collect();
	// result-specific
	match (kind, res) {
		(_, Res::Err(_)) | (_, Res::Rpc(_)) | (_, Res::Http(_)) | (_, Res::Other(_)) | (Kind::Raw, _) => {
			if !non_d.is_empty() || !fch.is_empty() {
				ps.push(Problem { kind: "error-changed-state", subject: None, detail: format!("request answered {} but records changed: {:?} files {:?}", res.name(), non_d, fch.iter().map(|f| &f.0).collect::<Vec<_>>()) });
			}
		}
		(Kind::Version, _) => {
			if !ch.is_empty() || !fch.is_empty() {
				ps.push(Problem { kind: "changed-state", subject: None, detail: format!("check_version changed records {:?}", ch.iter().map(|c| &c.0).collect::<Vec<_>>()) });
			}
		}
		(Kind::Coinbase { .. }, _) => {
			let n = new_outputs.len() + replaced as usize;
			let exact = matches!(res, Res::Ok(_));
			if n > 1 || (exact && n != 1 && !ps.iter().any(|p| p.kind.starts_with("output-"))) {
				ps.push(Problem { kind: "coinbase-record-count", subject: None, detail: format!("build_coinbase added {} and replaced {} records", new_outputs.len(), replaced as usize) });
			}
			for o in &new_outputs {
				if !is_cb_candidate(o) {
					ps.push(Problem { kind: "coinbase-record-shape", subject: None, detail: format!("new record is not an Unconfirmed coinbase: {}", short(&ojson(o))) });
				}
			}
			let extra: Vec<&&String> = non_d.iter().filter(|k| !k.starts_with("o:")).collect();
			if !extra.is_empty() || !new_txs.is_empty() || !fch.is_empty() {
				ps.push(Problem { kind: "extra-change", subject: None, detail: format!("build_coinbase changed other records: {:?}", extra) });
			}
		}
		(Kind::Receive { amt, id, dest, supplied, ttl }, _) => {
			let exact = matches!(res, Res::Ok(_));
			if exact || !new_outputs.is_empty() || !new_txs.is_empty() {
				if new_outputs.len() != 1 || new_txs.len() != 1 {
					ps.push(Problem { kind: "receive-record-count", subject: None, detail: format!("receive_tx added {} output records and {} log entries", new_outputs.len(), new_txs.len()) });
				}
			}
			for o in &new_outputs {
				if o.status != OutputStatus::Unconfirmed || Some(o.value) != *amt || o.is_coinbase {
					ps.push(Problem { kind: "receive-output-shape", subject: None, detail: format!("new output should be Unconfirmed with value {:?}: {}", amt, short(&ojson(o))) });
				}
				if !dest.contains(&o.root_key_id) {
					ps.push(Problem { kind: "receive-wrong-account", subject: None, detail: format!("new output recorded in account {:?}, destination {:?}", o.root_key_id, dest) });
				}
			}
			for t in &new_txs {
				if t.tx_type != TxLogEntryType::TxReceived || t.tx_slate_id != *id {
					ps.push(Problem { kind: "receive-entry-shape", subject: None, detail: format!("new log entry is {:?} for slate {:?}, expected TxReceived for {:?}", t.tx_type, t.tx_slate_id, id) });
				}
				if !dest.contains(&t.parent_key_id) || new_outputs.iter().any(|o| o.root_key_id != t.parent_key_id) {
					ps.push(Problem { kind: "receive-wrong-account", subject: None, detail: format!("new log entry in account {:?}, destination {:?}", t.parent_key_id, dest) });
				}
			}
			let extra: Vec<&&String> = non_d.iter().filter(|k| !(k.starts_with("o:") || k.starts_with("t:") || k.starts_with("i:"))).collect();
			if !extra.is_empty() && !ps.iter().any(|p| p.kind == "context-changed" || p.kind == "meta-touched") {
				ps.push(Problem { kind: "extra-change", subject: None, detail: format!("receive_tx changed other records: {:?}", extra) });
			}
			if let Res::Ok(_) = res {
				// "a second delivery of the same slate to that account is refused": whatever stage the first one reached
				if let Some(sid) = id {
					// the account that actually received it now = the account of the new log entry
					if let Some(t) = b.view.txs.iter().find(|t| {
						t.tx_slate_id == Some(*sid) && t.tx_type == TxLogEntryType::TxReceived && new_txs.iter().any(|n| n.parent_key_id == t.parent_key_id)
					}) {
						ps.push(Problem { kind: "receive-duplicate-accepted", subject: None, detail: format!("slate {} was received before into this account (log entry {}, confirmed: {}) and was accepted again", sid, t.id, t.confirmed) });
					}
				}
			}
			if let Res::Ok(v) = res {
				let tr = sig_triples(v);
				if tr.len() != 1 {
					ps.push(Problem { kind: "receive-reply-participants", subject: None, detail: format!("returned slate carries {} participant entries, expected exactly the recipient's own", tr.len()) });
				}
				for (xs, nonce, _) in &tr {
					if supplied.iter().any(|s| &s.0 == xs && &s.1 == nonce) {
						ps.push(Problem { kind: "receive-reply-participants", subject: None, detail: "returned slate carries a participant entry the sender supplied".to_string() });
					}
				}
				if let Some(t) = ttl {
					if *t != 0 && *t <= b.lch {
						ps.push(Problem { kind: "expired-accepted", subject: None, detail: format!("slate with ttl cutoff {} accepted by a wallet whose last confirmed height is {}", t, b.lch) });
					}
				}
			}
		}
		(Kind::Finalize { ttl, .. }, _) => {
			if let Res::Ok(_) = res {
				ps.push(Problem { kind: "forged-reply-accepted", subject: None, detail: "finalize_tx succeeded without the counterparty's honest participant entry".to_string() });
				if let Some(t) = ttl {
					if *t != 0 && *t <= b.lch {
						ps.push(Problem { kind: "expired-accepted", subject: None, detail: format!("slate with ttl cutoff {} finalized at last confirmed height {}", t, b.lch) });
					}
				}
			}
			if !new_outputs.is_empty() || !new_txs.is_empty() {
				ps.push(Problem { kind: "finalize-added-records", subject: None, detail: format!("unauthorised finalize_tx added {} outputs / {} log entries", new_outputs.len(), new_txs.len()) });
			}
		}
	}
	ps
}

/// Map the problems of one call to failures; recognised root causes get one specific signature.
fn classify(kind: &Kind, b: &Snap, ps: Vec<Problem>) -> Vec<Fail> {
	if ps.is_empty() {
		return vec![];
	}
	let m = kind.method();
	let all = |ps: &Vec<Problem>| ps.iter().map(|p| format!("[{}] {}", p.kind, p.detail)).collect::<Vec<_>>().join("\n");
	// D1: build_coinbase naming an existing record that is not an unconfirmed coinbase candidate
	if let Kind::Coinbase { named: Some(k) } = kind {
		let key = hexs(&k.to_bytes().to_vec());
		let existing = b.view.outputs.iter().find(|o| o.key_id == *k && o.mmr_index.is_none());
		if let Some(o) = existing {
			if !is_cb_candidate(o)
				&& ps.iter().all(|p| match p.kind {
					"output-status-value" | "output-touched" | "newly-locked-or-spent" => p.subject.as_ref() == Some(&key),
					"spendable-decreased" | "coinbase-record-count" => true,
					_ => false,
				}) && ps.iter().any(|p| p.kind.starts_with("output-"))
			{
				return vec![Fail::new(
					"c07:build_coinbase:overwrites-existing-output",
					format!("build_coinbase with key_id of an existing {:?} output (value {}, coinbase {}) replaced that record:\n{}", o.status, o.value, o.is_coinbase, all(&ps)),
				)];
			}
		}
	}
	// D2: forged reply for a late-locked pending slate reserves outputs before the signature is verified
	if let Kind::Finalize { late_ctx: true, .. } = kind {
		if ps.iter().all(|p| matches!(p.kind, "output-status-value" | "newly-locked-or-spent" | "context-changed" | "spendable-decreased" | "error-changed-state" | "finalize-added-records" | "output-touched"))
			&& ps.iter().any(|p| p.kind == "newly-locked-or-spent" || p.kind == "context-changed")
		{
			return vec![Fail::new(
				"c07:finalize_tx:late-lock-reserves-before-verify",
				format!("unauthorised finalize_tx for a late-locked pending slate selected and reserved outputs / rewrote the context:\n{}", all(&ps)),
			)];
		}
	}
	let specific = ps.iter().any(|p| p.kind != "error-changed-state");
	let mut seen = BTreeSet::new();
	let mut out = vec![];
	for p in &ps {
		if p.kind == "error-changed-state" && specific {
			continue;
		}
		if seen.insert(p.kind) {
			out.push(Fail::new(format!("c07:{}:{}", m, p.kind), format!("{}\n(all findings of this call:\n{})", p.detail, all(&ps))));
		}
	}
	out
}

// ---------------------------------------------------------------------------------------------
// the property

pub struct C07 {
	scratch: PathBuf,
	bases: Vec<PathBuf>,
	n: u64,
}

impl C07 {
	pub fn new(args: &Args) -> C07 {
		let mut bases = vec![];
		for v in 0..2u64 {
			let d = args.scratch.join(format!("c07.base{}", v));
			base::build(&d, &BaseSpec::standard(v * 2)).expect("base world");
			bases.push(d);
		}
		C07 {
			scratch: args.scratch.clone(),
			bases,
			n: 0,
		}
	}
}

struct Reply {
	status: u16,
	body: Vec<u8>,
}

fn post(h: &H, body: Vec<u8>) -> Result<Reply, Fail> {
	guard(|| {
		let req = Request::post("http://127.0.0.1:3415/v2/foreign")
			.header("content-type", "application/json")
			.body(Body::from(body))
			.unwrap();
		let resp = futures::executor::block_on(h.post(req)).expect("handler future");
		let status = resp.status().as_u16();
		let body = futures::executor::block_on(hyper::body::to_bytes(resp.into_body())).expect("response body").to_vec();
		Reply { status, body }
	})
}

fn parse_reply(r: &Reply) -> Res {
	if r.status != 200 {
		return Res::Http(r.status);
	}
	let v: Value = match serde_json::from_slice(&r.body) {
		Ok(v) => v,
		Err(_) => return Res::Other("reply is not JSON".into()),
	};
	if let Some(a) = v.as_array() {
		if a.is_empty() {
			return Res::NoReply;
		}
		return Res::Other("batch reply".into());
	}
	if let Some(e) = v.get("error") {
		return Res::Rpc(short(e));
	}
	if let Some(r) = v.get("result") {
		if let Some(ok) = r.get("Ok") {
			return Res::Ok(ok.clone());
		}
		if let Some(e) = r.get("Err") {
			return Res::Err(short(e));
		}
	}
	Res::Other(short(&v))
}

fn envelope(method: &str, params: Value, notify: bool) -> Value {
	let mut o = json!({"jsonrpc": "2.0", "method": method, "params": params});
	if !notify {
		o["id"] = json!(1);
	}
	o
}

fn raw_body(k: u8) -> Vec<u8> {
	match k {
		0 => envelope("retrieve_outputs", json!([]), false).to_string().into_bytes(),
		1 => envelope("receive_tx", json!([blank_json(Uuid::from_bytes([1; 16]))]), false).to_string().into_bytes(),
		2 => envelope("build_coinbase", json!({"fees": 0, "height": 1, "key_id": null}), false).to_string().into_bytes(),
		3 => b"{\"jsonrpc\": \"2.0\", \"method\": \"receive_tx\", \"params\": [".to_vec(),
		4 => json!({"method": "build_coinbase", "params": [{"fees": 0, "height": 1, "key_id": null}], "id": 1}).to_string().into_bytes(),
		5 => envelope("init_send_tx", json!([{"src_acct_name": null, "amount": "1000", "minimum_confirmations": 1, "max_outputs": 500, "num_change_outputs": 1, "selection_strategy_is_use_all": true}]), false)
			.to_string()
			.into_bytes(),
		_ => json!([envelope("check_version", json!([]), false), envelope("check_version", json!([]), false)]).to_string().into_bytes(),
	}
}

fn malformed_key(k: u8) -> String {
	match k {
		0 => "03".to_string(),
		1 => format!("03{}", "00000001".repeat(9)),
		2 => format!("ff{}", "00".repeat(16)),
		3 => "00".repeat(17),
		4 => "0400000000000000000000000100000001".to_string(),
		_ => "".to_string(),
	}
}

impl Prop for C07 {
	type Case = Case;
	fn id(&self) -> &'static str {
		"C07"
	}
	fn cases(&self, tier: Tier) -> u64 {
		tier.pick(400, 10000)
	}
	fn shrink_iters(&self) -> u32 {
		40
	}
	fn strategy(&self, _tier: Tier) -> BoxedStrategy<Case> {
		(
			0u8..2,
			prop_oneof![3 => Just(0u8), 1 => Just(1u8)],
			prop::collection::vec(side_op_strategy(), 0..7),
			prop::collection::vec(ensure_strategy(), 0..4),
			prop::bool::weighted(0.7),
			prop_oneof![6 => Just(0u8), 1 => Just(1u8), 1 => Just(2u8)],
			prop::collection::vec(req_strategy(), 1..9),
		)
			.prop_map(|(base, acct, pre, ensure, refresh, node_bhv, reqs)| Case {
				base,
				acct,
				pre,
				ensure,
				refresh,
				node_bhv,
				reqs,
			})
			.boxed()
	}
	fn rule(&self) -> String {
		"victim = wallet 0 of a funded base world after 0..6 generated side operations (mining, sends in both directions at every stage, invoices, self-sends) plus 0..3 explicit preparations (pending locked send, pending late-locked send, invoice issued / paid, pending receive, finalized unposted send; in the active or the other account; counterparty step done or not), refreshed or not; then 1..8 JSON-RPC requests posted to an in-process ForeignAPIHandlerV2 (production check_middleware, node reporting no version / header version 3 / 5): check_version; build_coinbase (fees/height boundary values, key_id null / fresh / key of any existing output record / malformed); receive_tx with honest S1 slates of wallet 1, field-level mutations of them, synthetic slates (every state, boundary amounts and fee fields, ttl around the victim's last confirmed height, 0..3 participant entries with or without partial signatures, participant count 0/1/2/3/255, inputs naming the victim's own outputs, outputs, payment-proof fields, ids random / nil / of the victim's own slates / of earlier requests) and replays, destination account absent / existing / unknown / empty; finalize_tx with the first-round, reply or final form of any slate the victim is a party of, honest (authorised, not judged), mutated (participant entries replaced, flipped, dropped, swapped, state relabelled, id re-targeted ...) or synthetic; malformed JSON-RPC shapes; notifications. Oracle: typed + raw-DB snapshot before/after every unauthorised call (see NOTES). non-trivial = a request that was decoded into a method call (result Ok/Err) while the victim has >= 1 unconfirmed outgoing transaction; distinct by case hash".into()
	}
	fn assumptions(&self) -> Vec<String> {
		vec![
			"r_addr is null, a non-address string or a well-formed slatepack address; the handler has no Tor configuration (listener started without Tor), so nothing is sent (an outbound Tor send is outside the sandbox)".into(),
			"hex fields are always well-formed hex (non-hex strings panic in grin_keychain/grin_util from_hex: open C09 findings)".into(),
			"dest_acct_name = null: receipt into the active account or into 'default' are both accepted; an unknown account name may be refused or fall back to the active account".into(),
			"authorised = finalize_tx for a slate the victim initiated carrying a participant entry (excess, nonce, partial signature) identical to one in the counterparty's honest reply; such calls are executed but not judged (C02)".into(),
			"an expired slate (ttl cutoff != 0 and <= the victim's own last confirmed height) must not be accepted (Slate::ttl_cutoff_height documentation)".into(),
		]
	}
	fn run(&mut self, c: &Case) -> Outcome {
		let mut out = Outcome::default();
		self.n += 1;
		let dir = self.scratch.join(format!("c07.case{}", self.n));
		let r = self.run_case(c, &dir, &mut out);
		let _ = std::fs::remove_dir_all(&dir);
		if let Err(e) = r {
			out.fail("c07:harness-error", e);
		}
		out
	}
}

fn do_ensure(sim: &mut Sim, e: &Ensure) -> Result<(), String> {
	let (v, o) = (0usize, 1usize);
	let mut args = e.args.clone();
	match e.kind {
		0 | 5 => {
			args.late_lock = false;
			let si = sim.init_send(v, o, &args)?;
			sim.lock(si)?;
			if e.deliver || e.kind == 5 {
				sim.deliver(si)?;
			}
			if e.kind == 5 {
				sim.finalize(si)?;
			}
		}
		1 => {
			args.late_lock = true;
			args.proof = false;
			let si = sim.init_send(v, o, &args)?;
			if e.deliver {
				sim.deliver(si)?;
			}
		}
		2 => {
			let amt = std::cmp::max(1, sim.spendable(o, 1) / 9);
			let si = sim.issue_invoice(v, o, amt)?;
			if e.deliver {
				sim.pay_invoice(si, &SendArgs::default())?;
				sim.lock(si)?;
			}
		}
		3 => {
			let amt = std::cmp::max(1, sim.spendable(v, args.min_conf as u64) / 7);
			let si = sim.issue_invoice(o, v, amt)?;
			args.late_lock = false;
			args.proof = false;
			args.ttl = None;
			sim.pay_invoice(si, &args)?;
			sim.lock(si)?;
		}
		6 => {
			// a payment from wallet 1 that went all the way: received, finalized, posted, mined, confirmed by refresh
			args.late_lock = false;
			args.ttl = None;
			let si = sim.init_send(o, v, &args)?;
			sim.lock(si)?;
			sim.deliver(si)?;
			sim.finalize(si)?;
			sim.post(si)?;
			sim.mine(None, 0xffff)?;
			let _ = sim.refresh(v);
		}
		_ => {
			args.late_lock = false;
			let si = sim.init_send(o, v, &args)?;
			sim.lock(si)?;
			sim.deliver(si)?;
		}
	}
	Ok(())
}

impl C07 {
	fn run_case(&mut self, c: &Case, dir: &PathBuf, out: &mut Outcome) -> Result<(), String> {
		let mut sim = base::open_copy(&self.bases[c.base as usize % self.bases.len()], dir)?;
		sim.strict = true;
		let acct = c.acct as usize % ACCOUNTS.len();
		sim.switch_account(0, acct)?;
		for op in &c.pre {
			let _ = sim.apply(op);
		}
		sim.switch_account(0, acct)?;
		for e in &c.ensure {
			let a = if e.other_acct { (acct + 1) % ACCOUNTS.len() } else { acct };
			let r = sim.with_account(0, a, |s| do_ensure(s, e));
			out.class(format!("ensure={}:{}", e.kind, if r.is_ok() { "ok" } else { "failed" }));
			if let Err(err) = r {
				dbg(&format!("ensure {:?} failed: {}", e.kind, err));
			}
		}
		sim.switch_account(0, acct)?;
		if c.refresh {
			for a in [(acct + 1) % ACCOUNTS.len(), acct].iter() {
				sim.switch_account(0, *a)?;
				let _ = sim.refresh(0);
			}
		}
		sim.world.node.with(|s| {
			s.version_bhv = match c.node_bhv {
				0 => None,
				1 => Some(3),
				_ => Some(5),
			}
		});
		let h: H = ForeignAPIHandlerV2::new(sim.w(0).inst.clone(), Arc::new(grin_util::Mutex::new(sim.w(0).mask.clone())), false, grin_util::Mutex::new(None));
		let victim_addr = hexs(sim.slatepack_address(0)?.pub_key.as_bytes());
		let active_parent = sim.acct_parent(acct);
		let mut cur = take_snap(&sim, &self.scratch, acct)?;
		let mut earlier_ids: Vec<Uuid> = vec![];
		let mut earlier_slates: Vec<Value> = vec![];
		// first-round slates the victim has already received in its history are candidates for replay
		for srec in sim.slates.iter().filter(|s| s.flow == Flow::Send && s.responder == 0 && s.initiator != 0 && s.stage >= Stage::Replied) {
			if let Ok(j) = slate_json(&srec.s1) {
				earlier_slates.push(j);
			}
		}
		let mut log: Vec<String> = vec![];
		let mut fails: Vec<Fail> = vec![];
		let had_late_ctx = sim.slates.iter().any(|s| s.initiator == 0 && s.late_lock && s.stage < Stage::Finalized && !s.is_cancelled());
		if had_late_ctx {
			out.class("state:late-locked-pending");
		}
		for (ri, req) in c.reqs.iter().enumerate() {
			let victim_slates: Vec<usize> = (0..sim.slates.len()).filter(|i| sim.slates[*i].initiator == 0 || sim.slates[*i].responder == 0).collect();
			let env = Env {
				victim_ids: victim_slates.iter().map(|i| sim.slates[*i].id).collect(),
				earlier_ids: earlier_ids.clone(),
				lch: cur.lch,
				victim_commits: cur.view.outputs.iter().filter_map(|o| o.commit.clone()).collect(),
				victim_addr: victim_addr.clone(),
			};
			let fresh_id = Uuid::from_bytes({
				let mut b = [0u8; 16];
				b.copy_from_slice(&expand(&[ri as u8 + 1; 32], 16));
				b
			});
			let mut authorised = false;
			let mut variant = String::new();
			let (body, kind): (Vec<u8>, Kind) = match &req.call {
				Call::CheckVersion => (envelope("check_version", json!([]), req.notify).to_string().into_bytes(), Kind::Version),
				// kind 4 (no "jsonrpc" member) is accepted by the listener as an ordinary call
				Call::Raw(4) => (raw_body(4), Kind::Coinbase { named: None }),
				Call::Raw(k) => (raw_body(*k), Kind::Raw),
				Call::Coinbase { fees, height, key } => {
					let (kj, named, var): (Value, Option<Identifier>, &str) = match key {
						KeyPick::Null => (Value::Null, None, "null"),
						KeyPick::Fresh(n) => {
							let k = ExtKeychain::derive_key_id(3, acct as u32, 0, 1_000_000 + (*n % 1_000_000), 0);
							(json!(k.to_hex()), Some(k), "fresh")
						}
						KeyPick::Existing(i) => {
							if cur.view.outputs.is_empty() {
								(Value::Null, None, "null")
							} else {
								let o = &cur.view.outputs[idx(*i, cur.view.outputs.len())];
								(json!(o.key_id.to_hex()), Some(o.key_id.clone()), if is_cb_candidate(o) { "existing-candidate" } else { "existing" })
							}
						}
						KeyPick::Malformed(k) => {
							let s = malformed_key(*k);
							let id = Identifier::from_hex(&s).ok();
							(json!(s), id, "malformed")
						}
					};
					variant = var.to_string();
					(
						envelope("build_coinbase", json!([{"fees": fees, "height": height, "key_id": kj}]), req.notify).to_string().into_bytes(),
						Kind::Coinbase { named },
					)
				}
				Call::Receive { base, edit, dest } => {
					let mut v = match base {
						RBase::Blank => {
							variant = "synthetic".into();
							blank_json(fresh_id)
						}
						RBase::Honest(a) => match sim.init_send(1, 0, a).or_else(|_| sim.with_account(1, 1, |s| s.init_send(1, 0, a))) {
							Ok(si) => {
								variant = "honest".into();
								slate_json(&sim.slates[si].s1)?
							}
							Err(e) => {
								dbg(&format!("honest S1 unavailable: {}", e));
								variant = "synthetic(honest-unavailable)".into();
								blank_json(fresh_id)
							}
						},
						RBase::Earlier(i) => {
							if earlier_slates.is_empty() {
								variant = "synthetic".into();
								blank_json(fresh_id)
							} else {
								variant = "replay".into();
								earlier_slates[idx(*i, earlier_slates.len())].clone()
							}
						}
					};
					let edited = serde_json::to_value(edit).ok() != serde_json::to_value(Edit::default()).ok();
					if edited && variant == "honest" {
						variant = "honest-mutated".into();
					}
					apply_edit(&mut v, edit, &env);
					let (dj, parents): (Value, Vec<Identifier>) = match dest {
						DestPick::None => (Value::Null, vec![active_parent.clone(), sim.acct_parent(0)]),
						DestPick::Name(i) => {
							let a = idx(*i, ACCOUNTS.len());
							(json!(ACCOUNTS[a]), vec![sim.acct_parent(a)])
						}
						DestPick::Unknown => (json!("nosuchaccount"), vec![active_parent.clone()]),
						DestPick::Empty => (json!(""), vec![active_parent.clone()]),
					};
					let kind = Kind::Receive {
						amt: u64_of(v.get("amt")),
						id: v.get("id").and_then(|i| i.as_str()).and_then(|s| Uuid::parse_str(s).ok()),
						dest: parents,
						supplied: sig_triples(&v).into_iter().map(|t| (t.0, t.1)).collect(),
						ttl: u64_of(v.get("ttl")),
					};
					earlier_slates.push(v.clone());
					let rj: Value = match req.r_addr {
						0..=179 => Value::Null,
						180..=189 => json!(""),
						190..=199 => json!("http://127.0.0.1:1"),
						200..=209 => json!("grin1notanaddress"),
						210..=219 => json!("tgrin1\u{e9}\u{e9}"),
						220..=229 => json!("x".repeat(req.r_addr as usize * 40)),
						_ => match sim.slatepack_address(1) {
							Ok(a) => json!(a.to_string()),
							Err(_) => Value::Null,
						},
					};
					out.class(format!("receive_tx/r_addr:{}", match req.r_addr { 0..=179 => "null", 180..=229 => "not-an-address", _ => "address" }));
					(envelope("receive_tx", json!([v, dj, rj]), req.notify).to_string().into_bytes(), kind)
				}
				Call::Finalize { target, form, edit } => {
					let mut v = if victim_slates.is_empty() {
						variant = "no-target".into();
						let mut b = blank_json(fresh_id);
						b["sta"] = json!("S2");
						b
					} else {
						// mostly aim at slates for which the victim still holds a private context
						let with_ctx: Vec<usize> = victim_slates
							.iter()
							.cloned()
							.filter(|i| sim.w(0).with(|b| b.get_private_context(None, sim.slates[*i].id.as_bytes())).is_ok())
							.collect();
						let pool = if !with_ctx.is_empty() && *target % 5 != 0 { &with_ctx } else { &victim_slates };
						let r = &sim.slates[pool[idx(*target, pool.len())]];
						let pick: (&str, &Slate) = match form {
							0 => ("first-round", &r.s1),
							1 => match &r.s2 {
								Some(s) => ("reply", s),
								None => ("first-round", &r.s1),
							},
							2 => match (&r.s3, &r.s2) {
								(Some(s), _) => ("final", s),
								(None, Some(s)) => ("reply", s),
								_ => ("first-round", &r.s1),
							},
							_ => ("blank", &r.s1),
						};
						variant = pick.0.to_string();
						if *form >= 3 {
							let mut b = blank_json(r.id);
							b["sta"] = json!(if r.flow == Flow::Send { "S2" } else { "I2" });
							b
						} else {
							let mut j = slate_json(pick.1)?;
							// a first-round or final slate is normally presented relabelled as a reply
							if pick.0 != "reply" && edit.sta.is_none() && *target % 7 != 0 {
								j["sta"] = json!(if r.flow == Flow::Send { "S2" } else { "I2" });
								if j.get("coms").is_none() && *target % 3 != 0 {
									j["coms"] = json!([]);
								}
							}
							j
						}
					};
					apply_edit(&mut v, edit, &env);
					let id = v.get("id").and_then(|i| i.as_str()).and_then(|s| Uuid::parse_str(s).ok());
					let mut late_ctx = false;
					if let Some(id) = id {
						if let Ok(ctx) = sim.w(0).with(|b| b.get_private_context(None, id.as_bytes())) {
							late_ctx = ctx.late_lock_args.is_some();
						}
						let sent = sig_triples(&v);
						for r in sim.slates.iter().filter(|r| r.id == id && r.initiator == 0) {
							if let Some(s2) = &r.s2 {
								let honest: Vec<_> = sig_triples(&slate_json(s2)?).into_iter().filter(|t| t.2.is_some()).collect();
								if sent.iter().any(|t| honest.contains(t)) {
									authorised = true;
								}
							}
						}
					}
					earlier_slates.push(v.clone());
					let kind = Kind::Finalize { ttl: u64_of(v.get("ttl")), late_ctx };
					(envelope("finalize_tx", json!([v]), req.notify).to_string().into_bytes(), kind)
				}
			};
			if let Some(id) = match &kind {
				Kind::Receive { id, .. } => *id,
				_ => None,
			} {
				earlier_ids.push(id);
			}
			let body_txt = String::from_utf8_lossy(&body).to_string();
			let reply = match post(&h, body.clone()) {
				Ok(r) => r,
				Err(f) => {
					log.push(format!("#{} {} -> PANIC\n     {}", ri, kind.method(), trunc(&body_txt, 1500)));
					fails.push(Fail::new(f.sig, format!("{} (request #{} {})", f.detail, ri, kind.method())));
					out.nontrivial = true;
					break;
				}
			};
			let res = parse_reply(&reply);
			log.push(format!(
				"#{} {}{}{} -> {} {}\n     {}",
				ri,
				kind.method(),
				if variant.is_empty() { "".to_string() } else { format!("/{}", variant) },
				if authorised { " [authorised]" } else { "" },
				res.name(),
				match &res {
					Res::Err(e) | Res::Rpc(e) | Res::Other(e) => e.clone(),
					_ => String::new(),
				},
				trunc(&body_txt, 1500)
			));
			let after = take_snap(&sim, &self.scratch, acct)?;
			let pending_out = cur.view.txs.iter().any(|t| t.tx_type == TxLogEntryType::TxSent && !t.confirmed);
			if pending_out && res.executed() {
				out.nontrivial = true;
			}
			out.class(format!(
				"{}{}:{}",
				kind.method(),
				if authorised { "/authorised".to_string() } else if variant.is_empty() { String::new() } else { format!("/{}", variant) },
				res.name()
			));
			if let Res::Err(e) = &res {
				let mut m = norm_msg(e);
				if let Some(i) = m.find('#') {
					m.truncate(i);
				}
				m.truncate(36);
				if m.contains("TransactionAlreadyReceived") {
					m = "TransactionAlreadyReceived".to_string();
				}
				out.class(format!("err:{}{}:{}", kind.method(), if authorised { "[authorised]" } else { "" }, m));
			}
			if let (Kind::Finalize { late_ctx: true, .. }, false) = (&kind, authorised) {
				out.class("finalize_tx:unauthorised-on-late-locked");
			}
			if !authorised {
				let ps = judge(&cur, &after, &kind, &res);
				let mut fs = classify(&kind, &cur, ps);
				for f in fs.iter_mut() {
					f.detail = format!("request #{} {}: {}", ri, kind.method(), f.detail);
				}
				fails.extend(fs);
			}
			cur = after;
			// a successfully received slate delivered again to the same account must be refused without effect
			if let (Kind::Receive { .. }, Res::Ok(_), false) = (&kind, &res, req.notify) {
				match post(&h, body.clone()) {
					Err(f) => {
						fails.push(Fail::new(f.sig, format!("{} (second delivery of request #{})", f.detail, ri)));
						break;
					}
					Ok(r2) => {
						let res2 = parse_reply(&r2);
						let after2 = take_snap(&sim, &self.scratch, acct)?;
						log.push(format!("#{}' same receive_tx again -> {}", ri, res2.name()));
						if let Res::Ok(_) = res2 {
							fails.push(Fail::new("c07:receive_tx:duplicate-accepted", format!("request #{}: the same slate delivered a second time to the same account was accepted", ri)));
						}
						let ch: Vec<String> = changes(&cur.db, &after2.db).into_iter().map(|c| c.0).filter(|k| !k.starts_with("d:")).collect();
						let fch = changes(&cur.files, &after2.files).len();
						if (!ch.is_empty() || fch > 0) && !matches!(res2, Res::Ok(_)) {
							fails.push(Fail::new("c07:receive_tx:duplicate-changed-state", format!("request #{}: refused second delivery changed records {:?}", ri, ch)));
						} else if matches!(res2, Res::Ok(_)) && !ch.is_empty() {
							// already reported as duplicate-accepted
						}
						out.class(format!("receive_tx/second-delivery:{}", res2.name()));
						cur = after2;
					}
				}
			}
		}
		if !fails.is_empty() {
			let hist = sim.history();
			for f in fails.iter_mut() {
				f.detail = format!("{}\n--- requests ---\n{}\n--- victim preparation (account '{}') ---\n{}", f.detail, log.join("\n"), ACCOUNTS[acct], hist);
			}
			out.fails.extend(fails);
		}
		Ok(())
	}
}

fn trunc(s: &str, n: usize) -> String {
	if s.len() <= n {
		s.to_string()
	} else {
		let mut k = n;
		while !s.is_char_boundary(k) {
			k -= 1;
		}
		format!("{}...({} bytes)", &s[..k], s.len())
	}
}

pub fn run(args: &Args, rep: &mut Report) {
	let mut p = C07::new(args);
	run_part(&mut p, args, rep);
}

pub fn replay(args: &Args, _part: &str, case: &serde_json::Value) -> Result<Outcome, String> {
	replay_part(&mut C07::new(args), case)
}
