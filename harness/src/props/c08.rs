//! C08 — slate and slatepack encodings round-trip and agree with each other.
//! Part `slate`   : structural slate generator -> intent record -> SlateV4 -> Slate; every encoding must decode to
//!                  a slate whose projection (computed here from `Slate`'s public fields) equals the intent.
//! Part `complete`: real two-party signing with throw-away keys; the decoded tx equals the finalised tx and validates.
//! Part `misc`    : slatepack / onion addresses and stored wallet records through their own codecs.

use crate::rt::*;
use ed25519_dalek::{
	ExpandedSecretKey, PublicKey as DalekPublicKey, SecretKey as DalekSecretKey, Signature as DalekSignature,
};
use grin_core::core::transaction::{FeeFields, Inputs, KernelFeatures, OutputFeatures, Transaction, Weighting};
use grin_core::global::{self, ChainTypes};
use grin_core::libtx::{build, proof, proof::ProofBuilder};
use grin_core::ser as gser;
use grin_keychain::{BlindingFactor, ExtKeychain, ExtKeychainPath, Identifier, Keychain, SwitchCommitmentType};
use grin_util::secp::key::{PublicKey, SecretKey};
use grin_util::secp::pedersen::{Commitment, RangeProof};
use grin_util::secp::Signature;
use grin_util::{static_secp_instance, ToHex};
use grin_wallet_libwallet::slate_versions::v4::{
	CommitsV4, KernelFeaturesArgsV4, OutputFeaturesV4, ParticipantDataV4, PaymentInfoV4, SlateStateV4, SlateV4,
	VersionCompatInfoV4,
};
use grin_wallet_libwallet::{
	Context, InitTxArgs, InitTxSendArgs, OutputData, OutputStatus, Slate, SlateState, SlateVersion, Slatepack,
	SlatepackAddress, SlatepackBin, Slatepacker, SlatepackerArgs, StoredProofInfo, TxLogEntry, TxLogEntryType,
	VersionedBinSlate, VersionedSlate,
};
use grin_wallet_util::{byte_ser, OnionV3Address};
use proptest::prelude::*;
use serde_derive::{Deserialize, Serialize};
use sha2::{Digest, Sha256};
use std::convert::TryFrom;

pub const BOUNDARY: [u64; 7] = [0, 1, 1u64 << 32, (1u64 << 40) - 1, 1u64 << 40, 1u64 << 63, u64::MAX];

// ---------------------------------------------------------------------------------------------
// deterministic expansion of generated seeds into key material (pure functions of the case)

fn hbytes(tag: &str, seed: u64, n: usize) -> Vec<u8> {
	let mut out = Vec::with_capacity(n + 32);
	let mut ctr = 0u32;
	while out.len() < n {
		let mut h = Sha256::new();
		h.update(b"c08/");
		h.update(tag.as_bytes());
		h.update(seed.to_le_bytes());
		h.update(ctr.to_le_bytes());
		out.extend_from_slice(&h.finalize());
		ctr += 1;
	}
	out.truncate(n);
	out
}

fn h32(tag: &str, seed: u64) -> [u8; 32] {
	let mut b = [0u8; 32];
	b.copy_from_slice(&hbytes(tag, seed, 32));
	b
}

/// 32 bytes that are always a valid secp256k1 secret key (non-zero, below the group order)
fn sk32(tag: &str, seed: u64) -> [u8; 32] {
	let mut b = h32(tag, seed);
	b[0] &= 0x7f;
	b[31] |= 1;
	b
}

fn secp_sk(tag: &str, seed: u64) -> SecretKey {
	let secp = static_secp_instance();
	let secp = secp.lock();
	SecretKey::from_slice(&secp, &sk32(tag, seed)).expect("valid secret key")
}

fn secp_pk(tag: &str, seed: u64) -> PublicKey {
	let sk = secp_sk(tag, seed);
	let secp = static_secp_instance();
	let secp = secp.lock();
	PublicKey::from_secret_key(&secp, &sk).expect("pubkey")
}

fn pk_hex(pk: &PublicKey) -> String {
	let secp = static_secp_instance();
	let secp = secp.lock();
	pk.serialize_vec(&secp, true).to_vec().to_hex()
}

fn ed_sk(tag: &str, seed: u64) -> DalekSecretKey {
	DalekSecretKey::from_bytes(&h32(tag, seed)).expect("ed25519 secret")
}

fn ed_pk(tag: &str, seed: u64) -> DalekPublicKey {
	DalekPublicKey::from(&ed_sk(tag, seed))
}

/// a genuine ed25519 signature (by key `seed`) over a message derived from `seed`
fn ed_sig(tag: &str, seed: u64) -> DalekSignature {
	let sk = ed_sk(tag, seed);
	let pk = DalekPublicKey::from(&sk);
	let ex = ExpandedSecretKey::from(&sk);
	ex.sign(&hbytes("edmsg", seed, 40), &pk)
}

fn commit_for(seed: u64) -> Commitment {
	let sk = secp_sk("com", seed);
	let secp = static_secp_instance();
	let secp = secp.lock();
	secp.commit(seed % 1_000_000_007, sk).expect("commit")
}

fn proof_from_bytes(b: &[u8]) -> RangeProof {
	let mut p = RangeProof::zero();
	let n = std::cmp::min(b.len(), p.proof.len());
	p.proof[..n].copy_from_slice(&b[..n]);
	p.plen = n;
	p
}

fn set_chain(testnet: bool) {
	global::set_local_chain_type(if testnet { ChainTypes::Testnet } else { ChainTypes::Mainnet });
	global::set_local_nrd_enabled(true);
}

fn sp_addr(seed: u64) -> SlatepackAddress {
	SlatepackAddress::new(&ed_pk("spaddr", seed))
}

// ---------------------------------------------------------------------------------------------
// case

#[derive(Clone, Debug, Serialize, Deserialize)]
pub struct PartSpec {
	pub seed: u64,
	pub sig: Option<u64>,
}

#[derive(Clone, Debug, Serialize, Deserialize)]
pub struct ProofSpec {
	pub sender: u64,
	pub receiver: u64,
	pub rsig: bool,
}

#[derive(Clone, Debug, Serialize, Deserialize)]
pub struct ComSpec {
	pub output: bool,
	pub coinbase: bool,
	pub seed: u32,
}

#[derive(Clone, Debug, Serialize, Deserialize)]
pub struct SpSpec {
	pub sender: Option<u64>,
	/// encryption recipients of the encrypted variant (1..=3)
	pub recipients: Vec<u64>,
	/// which recipient decrypts
	pub dec: u16,
	/// metadata recipients (Slatepack::add_recipient) of the hand-assembled variant
	pub meta: Vec<u64>,
}

#[derive(Clone, Debug, Serialize, Deserialize)]
pub struct SlateCase {
	pub testnet: bool,
	pub bhv: u16,
	pub num_parts: u8,
	pub id: u64,
	pub state: u8,
	pub amount: u64,
	/// (shift, fee) with 1 <= fee < 2^40, or None = zero fee fields
	pub fee: Option<(u8, u64)>,
	pub ttl: u64,
	pub feat: u8,
	pub feat_arg: u64,
	pub offset: Option<u64>,
	pub parts: Vec<PartSpec>,
	pub proof: Option<ProofSpec>,
	pub coms: Option<Vec<ComSpec>>,
	/// number of leading outputs that carry a genuine bulletproof
	pub genuine: u8,
	pub sp: SpSpec,
	/// armoring is quadratic in the payload size (base58): slates with more than 4 commitments are armored only
	/// when this is set, and then only plain (false) or encrypted (true)
	pub armor_large: Option<bool>,
}

fn bint() -> BoxedStrategy<u64> {
	prop_oneof![
		3 => Just(0u64),
		7 => (0u16..7).prop_map(|i| BOUNDARY[i as usize]),
		3 => 1u64..100_000_000_000,
		2 => any::<u64>(),
	]
	.boxed()
}

fn fee_strategy() -> BoxedStrategy<Option<(u8, u64)>> {
	let fee = prop_oneof![
		2 => Just(1u64),
		1 => Just(2u64),
		2 => Just(1u64 << 32),
		2 => Just((1u64 << 40) - 1),
		4 => 1u64..100_000_000,
		2 => 1u64..(1u64 << 40),
	];
	prop_oneof![
		2 => Just(None),
		7 => (prop_oneof![3 => Just(0u8), 2 => 0u8..16, 1 => Just(15u8)], fee).prop_map(Some),
	]
	.boxed()
}

fn num_parts_strategy() -> BoxedStrategy<u8> {
	prop_oneof![
		6 => Just(2u8), 1 => Just(0u8), 1 => Just(1u8), 1 => Just(3u8), 1 => Just(255u8), 1 => any::<u8>(),
	]
	.boxed()
}

pub fn slate_case_strategy(max_coms: usize) -> BoxedStrategy<SlateCase> {
	let feat = prop_oneof![
		5 => Just((0u8, 0u64)),
		3 => bint().prop_map(|h| (2u8, h)),
		3 => prop_oneof![1 => Just(1u64), 1 => Just(10080u64), 4 => 1u64..=10080].prop_map(|h| (3u8, h)),
	];
	let parts = prop::collection::vec(
		(any::<u64>(), prop::option::weighted(0.5, any::<u64>())).prop_map(|(seed, sig)| PartSpec { seed, sig }),
		0..=4,
	);
	let proof = prop::option::weighted(
		0.5,
		(any::<u64>(), any::<u64>(), any::<bool>()).prop_map(|(sender, receiver, rsig)| ProofSpec { sender, receiver, rsig }),
	);
	let small = max_coms.min(6);
	let mid = max_coms.min(20);
	let coms = prop::option::weighted(
		0.7,
		prop_oneof![
			1 => Just(vec![]),
			6 => prop::collection::vec(com_strategy(), 1..=small),
			2 => prop::collection::vec(com_strategy(), 0..=mid),
			1 => prop::collection::vec(com_strategy(), 0..=max_coms),
		],
	);
	let sp = (
		prop::option::weighted(0.6, any::<u64>()),
		prop::collection::vec(any::<u64>(), 1..=3),
		any::<u16>(),
		prop_oneof![3 => Just(vec![]), 2 => prop::collection::vec(any::<u64>(), 1..=3)],
	)
		.prop_map(|(sender, recipients, dec, meta)| SpSpec { sender, recipients, dec, meta });
	(
		(any::<bool>(), 1u16..=3, num_parts_strategy(), any::<u64>(), 0u8..7),
		(bint(), fee_strategy(), bint(), feat, prop::option::weighted(0.6, any::<u64>())),
		(parts, proof, coms, prop_oneof![19 => Just(0u8), 1 => 1u8..=2], sp, prop::option::weighted(0.25, any::<bool>())),
	)
		.prop_map(
			|((testnet, bhv, num_parts, id, state), (amount, fee, ttl, (feat, feat_arg), offset), (parts, proof, coms, genuine, sp, armor_large))| {
				SlateCase {
					testnet,
					bhv,
					num_parts,
					id,
					state,
					amount,
					fee,
					ttl,
					feat,
					feat_arg,
					offset,
					parts,
					proof,
					coms,
					genuine,
					sp,
					armor_large,
				}
			},
		)
		.boxed()
}

fn com_strategy() -> BoxedStrategy<ComSpec> {
	(any::<bool>(), prop::bool::weighted(0.2), any::<u32>())
		.prop_map(|(output, coinbase, seed)| ComSpec { output, coinbase, seed })
		.boxed()
}

// ---------------------------------------------------------------------------------------------
// intent / projection

#[derive(Clone, Debug, PartialEq, Eq, Serialize)]
pub struct Intent {
	pub version: u16,
	pub bhv: u16,
	pub num_parts: u8,
	pub id: String,
	pub state: u8,
	pub amount: u64,
	pub fee: u64,
	pub ttl: u64,
	pub feat: u8,
	pub feat_arg: Option<u64>,
	pub offset: String,
	/// (excess, nonce, partial signature raw bytes)
	pub parts: Vec<(String, String, Option<String>)>,
	/// (sender, receiver, receiver signature)
	pub proof: Option<(String, String, Option<String>)>,
	/// sorted (is_output, features, commitment, proof bytes)
	pub coms: Option<Vec<(bool, u8, String, String)>>,
}

impl Intent {
	pub fn diff(&self, o: &Intent) -> Vec<(&'static str, String)> {
		let mut d = vec![];
		macro_rules! f {
			($name:expr, $f:ident) => {
				if self.$f != o.$f {
					let mut a = format!("{:?}", self.$f);
					let mut b = format!("{:?}", o.$f);
					a.truncate(160);
					b.truncate(160);
					d.push(($name, format!("want {} got {}", a, b)));
				}
			};
		}
		f!("ver", version);
		f!("block_header_version", bhv);
		f!("num_parts", num_parts);
		f!("id", id);
		f!("sta", state);
		f!("amt", amount);
		f!("fee", fee);
		f!("ttl", ttl);
		f!("feat", feat);
		f!("feat_args", feat_arg);
		f!("off", offset);
		f!("sigs", parts);
		f!("proof", proof);
		if self.coms != o.coms {
			let n = |c: &Option<Vec<(bool, u8, String, String)>>| c.as_ref().map(|v| v.len() as i64).unwrap_or(-1);
			d.push(("coms", format!("want {} commitments got {} (or contents differ)", n(&self.coms), n(&o.coms))));
		}
		d
	}

	pub fn optional_parts(&self) -> usize {
		let zero_off = "00".repeat(32);
		[
			self.amount != 0,
			self.fee != 0,
			self.ttl != 0,
			self.feat != 0,
			self.proof.is_some(),
			self.offset != zero_off,
			self.coms.is_some(),
			self.num_parts != 2,
		]
		.iter()
		.filter(|b| **b)
		.count()
	}
}

fn state_v4(s: u8) -> SlateStateV4 {
	match s {
		1 => SlateStateV4::Standard1,
		2 => SlateStateV4::Standard2,
		3 => SlateStateV4::Standard3,
		4 => SlateStateV4::Invoice1,
		5 => SlateStateV4::Invoice2,
		6 => SlateStateV4::Invoice3,
		_ => SlateStateV4::Unknown,
	}
}

fn state_code(s: &SlateState) -> u8 {
	match s {
		SlateState::Unknown => 0,
		SlateState::Standard1 => 1,
		SlateState::Standard2 => 2,
		SlateState::Standard3 => 3,
		SlateState::Invoice1 => 4,
		SlateState::Invoice2 => 5,
		SlateState::Invoice3 => 6,
	}
}

fn sort_coms(v: &mut Vec<(bool, u8, String, String)>) {
	v.sort();
}

/// Build the SlateV4 and the intent from the generated case (the intent is written down from the case,
/// not read back from the SlateV4).
pub fn build(c: &SlateCase) -> (SlateV4, Intent) {
	let id_bytes = {
		let mut b = [0u8; 16];
		b.copy_from_slice(&hbytes("id", c.id, 16));
		b
	};
	let fee = match c.fee {
		None => FeeFields::zero(),
		Some((shift, fee)) => FeeFields::new(shift as u64, fee).expect("generated fee fields are in range"),
	};
	let fee_raw: u64 = match c.fee {
		None => 0,
		Some((shift, fee)) => ((shift as u64) << 40) | fee,
	};
	let off_bytes = match c.offset {
		None => [0u8; 32],
		Some(s) => sk32("off", s),
	};
	let mut sigs = vec![];
	let mut iparts = vec![];
	for p in &c.parts {
		let xs = secp_pk("xs", p.seed);
		let nonce = secp_pk("nonce", p.seed);
		let part = p.sig.map(|s| {
			let mut raw = [0u8; 64];
			raw.copy_from_slice(&hbytes("psig", s, 64));
			// keep both halves below the group order in the library's internal (little-endian limb) form
			raw[31] &= 0x7f;
			raw[63] &= 0x7f;
			Signature::from_raw_data(&raw).expect("sig")
		});
		iparts.push((pk_hex(&xs), pk_hex(&nonce), part.map(|s| s.to_raw_data().to_vec().to_hex())));
		sigs.push(ParticipantDataV4 { xs, nonce, part });
	}
	let (proof_v4, iproof) = match &c.proof {
		None => (None, None),
		Some(p) => {
			let saddr = ed_pk("saddr", p.sender);
			let raddr = ed_pk("raddr", p.receiver);
			let rsig = if p.rsig { Some(ed_sig("raddr", p.receiver)) } else { None };
			(
				Some(PaymentInfoV4 { saddr, raddr, rsig }),
				Some((
					saddr.to_bytes().to_vec().to_hex(),
					raddr.to_bytes().to_vec().to_hex(),
					rsig.map(|s| s.to_bytes().to_vec().to_hex()),
				)),
			)
		}
	};
	let (coms_v4, icoms) = match &c.coms {
		None => (None, None),
		Some(v) => {
			let mut out = vec![];
			let mut iv = vec![];
			let mut seen = std::collections::BTreeSet::new();
			let mut genuine_left = c.genuine;
			let mut kc: Option<ExtKeychain> = None;
			for (i, s) in v.iter().enumerate() {
				// distinct commitments: a transaction never carries the same commitment twice
				let seed = ((s.seed as u64) << 16) | (i as u64 & 0xffff);
				let f = if s.coinbase { 1u8 } else { 0u8 };
				let (commit, p) = if s.output && genuine_left > 0 {
					genuine_left -= 1;
					if kc.is_none() {
						kc = Some(ExtKeychain::from_seed(&h32("kc", c.id), false).expect("keychain"));
					}
					let kc = kc.as_ref().unwrap();
					let kid = ExtKeychain::derive_key_id(3, 0, 0, i as u32, 0);
					let value = seed % 1_000_000_007;
					let commit = kc.commit(value, &kid, SwitchCommitmentType::Regular).expect("commit");
					let rp = proof::create(kc, &ProofBuilder::new(kc), value, &kid, SwitchCommitmentType::Regular, commit, None)
						.expect("bulletproof");
					(commit, Some(rp))
				} else if s.output {
					(commit_for(seed), Some(proof_from_bytes(&hbytes("rp", seed, 675))))
				} else {
					(commit_for(seed), None)
				};
				if !seen.insert(commit.0.to_vec()) {
					continue;
				}
				iv.push((
					p.is_some(),
					f,
					commit.0.to_vec().to_hex(),
					p.map(|p| p.proof[..p.plen].to_vec().to_hex()).unwrap_or_default(),
				));
				out.push(CommitsV4 { f: OutputFeaturesV4(f), c: commit, p });
			}
			sort_coms(&mut iv);
			(Some(out), Some(iv))
		}
	};
	let feat_args = if c.feat == 0 { None } else { Some(KernelFeaturesArgsV4 { lock_hgt: c.feat_arg }) };
	let v4 = SlateV4 {
		ver: VersionCompatInfoV4 { version: 4, block_header_version: c.bhv },
		id: uuid::Uuid::from_bytes(id_bytes),
		sta: state_v4(c.state),
		off: BlindingFactor::from_slice(&off_bytes),
		num_parts: c.num_parts,
		amt: c.amount,
		fee,
		feat: c.feat,
		ttl: c.ttl,
		sigs,
		coms: coms_v4,
		proof: proof_v4,
		feat_args,
	};
	let intent = Intent {
		version: 4,
		bhv: c.bhv,
		num_parts: c.num_parts,
		id: id_bytes.to_vec().to_hex(),
		state: c.state,
		amount: c.amount,
		fee: fee_raw,
		ttl: c.ttl,
		feat: c.feat,
		feat_arg: if c.feat == 0 { None } else { Some(c.feat_arg) },
		offset: off_bytes.to_vec().to_hex(),
		parts: iparts,
		proof: iproof,
		coms: icoms,
	};
	(v4, intent)
}

/// Projection of a `Slate`, computed from its public fields only.
pub fn proj(s: &Slate) -> Intent {
	let coms = s.tx.as_ref().map(|tx| {
		let mut v = vec![];
		match tx.inputs() {
			Inputs::FeaturesAndCommit(ins) => {
				for i in ins {
					v.push((false, i.features as u8, i.commit.0.to_vec().to_hex(), String::new()));
				}
			}
			Inputs::CommitOnly(ins) => {
				for i in ins {
					v.push((false, 255u8, i.commitment().0.to_vec().to_hex(), String::new()));
				}
			}
		}
		for o in tx.outputs() {
			let p = o.proof();
			v.push((true, o.features() as u8, o.commitment().0.to_vec().to_hex(), p.proof[..p.plen].to_vec().to_hex()));
		}
		sort_coms(&mut v);
		v
	});
	Intent {
		version: s.version_info.version,
		bhv: s.version_info.block_header_version,
		num_parts: s.num_participants,
		id: s.id.as_bytes().to_vec().to_hex(),
		state: state_code(&s.state),
		amount: s.amount,
		fee: u64::from(s.fee_fields),
		ttl: s.ttl_cutoff_height,
		feat: s.kernel_features,
		feat_arg: s.kernel_features_args.as_ref().map(|a| a.lock_height),
		offset: s.offset.as_ref().to_vec().to_hex(),
		parts: s
			.participant_data
			.iter()
			.map(|p| {
				(
					pk_hex(&p.public_blind_excess),
					pk_hex(&p.public_nonce),
					p.part_sig.map(|s| s.to_raw_data().to_vec().to_hex()),
				)
			})
			.collect(),
		proof: s.payment_proof.as_ref().map(|p| {
			(
				p.sender_address.to_bytes().to_vec().to_hex(),
				p.receiver_address.to_bytes().to_vec().to_hex(),
				p.receiver_signature.map(|s| s.to_bytes().to_vec().to_hex()),
			)
		}),
		coms,
	}
}

/// Does the kernel of the slate's tx carry the features the slate declares?  None = nothing to check.
fn kernel_matches(tx: &Transaction, i: &Intent) -> Option<Result<(), String>> {
	let ks = tx.kernels();
	if ks.len() != 1 {
		return Some(Err(format!("{} kernels", ks.len())));
	}
	let ok = match (i.feat, ks[0].features) {
		(0, KernelFeatures::Plain { fee }) => u64::from(fee) == i.fee,
		(2, KernelFeatures::HeightLocked { fee, lock_height }) => u64::from(fee) == i.fee && Some(lock_height) == i.feat_arg,
		(3, KernelFeatures::NoRecentDuplicate { fee, relative_height }) => {
			u64::from(fee) == i.fee && Some(u64::from(relative_height)) == i.feat_arg
		}
		_ => false,
	};
	Some(if ok {
		Ok(())
	} else {
		Err(format!("slate feat={} args={:?} fee={} but tx kernel features are {:?}", i.feat, i.feat_arg, i.fee, ks[0].features))
	})
}

// ---------------------------------------------------------------------------------------------
// encodings

#[derive(Clone, Copy, Debug, PartialEq, Eq)]
pub enum Enc {
	Json,
	JsonSlate,
	Bin,
	SpBin(bool),
	SpJson(bool),
	SpArmor(bool),
}

impl Enc {
	pub fn all() -> Vec<Enc> {
		vec![
			Enc::Json,
			Enc::JsonSlate,
			Enc::Bin,
			Enc::SpBin(false),
			Enc::SpJson(false),
			Enc::SpArmor(false),
			Enc::SpBin(true),
			Enc::SpJson(true),
			Enc::SpArmor(true),
		]
	}
	pub fn name(&self) -> &'static str {
		match self {
			Enc::Json => "v4json",
			Enc::JsonSlate => "v4json-slate",
			Enc::Bin => "v4bin",
			Enc::SpBin(false) => "sp-bin",
			Enc::SpJson(false) => "sp-json",
			Enc::SpArmor(false) => "sp-armor",
			Enc::SpBin(true) => "sp-bin-enc",
			Enc::SpJson(true) => "sp-json-enc",
			Enc::SpArmor(true) => "sp-armor-enc",
		}
	}
	/// family used in failure signatures
	pub fn family(&self) -> &'static str {
		match self {
			Enc::Json | Enc::JsonSlate => "json",
			Enc::Bin => "bin",
			_ => "slatepack",
		}
	}
	pub fn binary_based(&self) -> bool {
		!matches!(self, Enc::Json | Enc::JsonSlate)
	}
}

pub struct SpKeys {
	pub sender: Option<SlatepackAddress>,
	pub recipients: Vec<SlatepackAddress>,
	pub dec_key: DalekSecretKey,
}

pub fn sp_keys(sp: &SpSpec) -> SpKeys {
	let k = idx(sp.dec, sp.recipients.len());
	SpKeys {
		sender: sp.sender.map(sp_addr),
		recipients: sp.recipients.iter().map(|s| sp_addr(*s)).collect(),
		dec_key: ed_sk("spaddr", sp.recipients[k]),
	}
}

pub struct Decoded {
	pub slate: Slate,
	pub encoded_len: usize,
}

/// encode then decode through one encoding; Err = the codec refused
pub fn enc_dec(e: Enc, s: &Slate, keys: &SpKeys, slatepack_checks: Option<&mut Vec<Fail>>) -> Result<Decoded, String> {
	match e {
		Enc::Json => {
			let vs = VersionedSlate::into_version(s.clone(), SlateVersion::V4).map_err(|e| format!("into_version: {}", e))?;
			let j = serde_json::to_string(&vs).map_err(|e| format!("to_string: {}", e))?;
			let back: VersionedSlate = serde_json::from_str(&j).map_err(|e| format!("from_str: {} in {:.300}", e, j))?;
			Ok(Decoded { slate: Slate::from(back), encoded_len: j.len() })
		}
		Enc::JsonSlate => {
			let j = serde_json::to_string(s).map_err(|e| format!("to_string: {}", e))?;
			let back = Slate::deserialize_upgrade(&j).map_err(|e| format!("deserialize_upgrade: {} in {:.300}", e, j))?;
			Ok(Decoded { slate: back, encoded_len: j.len() })
		}
		Enc::Bin => {
			let vs = VersionedSlate::into_version(s.clone(), SlateVersion::V4).map_err(|e| format!("into_version: {}", e))?;
			let b = VersionedBinSlate::try_from(vs).map_err(|e| format!("bin try_from: {}", e))?;
			let bytes = byte_ser::to_bytes(&b).map_err(|e| format!("to_bytes: {}", e))?;
			let back: VersionedBinSlate = byte_ser::from_bytes(&bytes).map_err(|e| format!("from_bytes: {}", e))?;
			let slate = Slate::upgrade(back.into()).map_err(|e| format!("upgrade: {}", e))?;
			Ok(Decoded { slate, encoded_len: bytes.len() })
		}
		Enc::SpBin(enc) | Enc::SpJson(enc) | Enc::SpArmor(enc) => {
			let packer = Slatepacker::new(SlatepackerArgs {
				sender: keys.sender.clone(),
				recipients: if enc { keys.recipients.clone() } else { vec![] },
				dec_key: if enc { Some(&keys.dec_key) } else { None },
			});
			let sp = packer.create_slatepack(s).map_err(|e| format!("create_slatepack: {}", e))?;
			let data: Vec<u8> = match e {
				Enc::SpBin(_) => byte_ser::to_bytes(&SlatepackBin(sp.clone())).map_err(|e| format!("to_bytes: {}", e))?,
				Enc::SpJson(_) => serde_json::to_vec(&sp).map_err(|e| format!("to_vec: {}", e))?,
				_ => packer.armor_slatepack(&sp).map_err(|e| format!("armor: {}", e))?.into_bytes(),
			};
			// grin's binary reader refuses any length-prefixed field above 100 000 bytes; the slatepack reader then
			// falls back to JSON and reports an unrelated utf-8 error, so the cause is classified here by size
			let over = !matches!(e, Enc::SpJson(_)) && sp.payload.len() > 100_000;
			let back = packer
				.deser_slatepack(&data, true)
				.map_err(|er| format!("{}deser_slatepack({} bytes, payload {}): {}", if over { "[payload>100k] " } else { "" }, data.len(), sp.payload.len(), er))?;
			if let Some(fails) = slatepack_checks {
				// slatepack level: what went in comes out
				let plain_payload = {
					let vs = VersionedSlate::into_version(s.clone(), SlateVersion::V4).map_err(|e| format!("{}", e))?;
					let b = VersionedBinSlate::try_from(vs).map_err(|e| format!("{}", e))?;
					byte_ser::to_bytes(&b).map_err(|e| format!("{}", e))?
				};
				if enc && (sp.mode != 1 || sp.sender.is_some() || sp.payload == plain_payload) {
					fails.push(Fail::new("c08:slatepack:not-encrypted", format!("{}: mode {} sender {:?}", e.name(), sp.mode, sp.sender)));
				}
				if back.mode != 0 {
					fails.push(Fail::new("c08:slatepack:mode", format!("{}: decoded mode {}", e.name(), back.mode)));
				}
				if back.sender != keys.sender {
					fails.push(Fail::new("c08:slatepack:sender", format!("{}: sender {:?} != {:?}", e.name(), back.sender, keys.sender)));
				}
				if back.payload != plain_payload {
					fails.push(Fail::new("c08:slatepack:payload", format!("{}: payload differs ({} vs {} bytes)", e.name(), back.payload.len(), plain_payload.len())));
				}
				if back.slatepack != sp.slatepack || back.slatepack.major != 1 || back.slatepack.minor != 0 {
					fails.push(Fail::new("c08:slatepack:version", format!("{}: version {:?}", e.name(), back.slatepack)));
				}
				if enc {
					// without the key the message stays sealed and unchanged
					let p2 = Slatepacker::new(SlatepackerArgs { sender: None, recipients: vec![], dec_key: None });
					match p2.deser_slatepack(&data, false) {
						Ok(sealed) => {
							if sealed.mode != 1 || sealed.payload != sp.payload || sealed.sender.is_some() {
								fails.push(Fail::new("c08:slatepack:sealed-form", format!("{}: undecrypted form differs from what was written", e.name())));
							}
						}
						Err(er) => fails.push(Fail::new("c08:slatepack:sealed-form", format!("{}: {}", e.name(), er))),
					}
				}
			}
			let slate = packer.get_slate(&back).map_err(|e| format!("get_slate: {}", e))?;
			Ok(Decoded { slate, encoded_len: data.len() })
		}
	}
}

/// classification of a projection difference into a root-cause signature
fn diff_signature(e: Enc, field: &str, intent: &Intent) -> String {
	if field == "feat_args" && intent.feat == 3 && e.binary_based() {
		// known shape: binary writer only carries the argument of feature 2
		return "c08:bin:nrd-relative-height-dropped".into();
	}
	format!("c08:{}:{}", e.family(), field)
}

// ---------------------------------------------------------------------------------------------
// part slate

pub struct C08Slate;

impl C08Slate {
	pub fn new(_args: &Args) -> C08Slate {
		C08Slate
	}
}

/// checks shared by parts slate and complete: every encoding decodes to the intent, idempotently
fn check_all_encodings(
	out: &mut Outcome,
	s0: &Slate,
	intent: &Intent,
	keys: &SpKeys,
	armor_large: Option<bool>,
	mut per_decoded: impl FnMut(&mut Outcome, Enc, &Slate),
) {
	let n_coms = intent.coms.as_ref().map(|v| v.len()).unwrap_or(0);
	for e in Enc::all() {
		if let Enc::SpArmor(enc) = e {
			if n_coms > 4 && armor_large != Some(enc) {
				out.class(format!("{}:skipped-large", e.name()));
				continue;
			}
		}
		let mut sp_fails = vec![];
		let t0 = std::time::Instant::now();
		let r = guard(|| enc_dec(e, s0, keys, Some(&mut sp_fails)));
		crate::rt::dbg(&format!("{} {:?}", e.name(), t0.elapsed()));
		out.fails.extend(sp_fails);
		let d1 = match r {
			Err(f) => {
				out.fails.push(f);
				continue;
			}
			Ok(Err(msg)) => {
				let big = msg.contains("[payload>100k]");
				let sig = if big {
					"c08:slatepack:large-payload-unreadable".to_string()
				} else {
					format!("c08:{}:codec-error", e.family())
				};
				out.fail(sig, format!("{}: {}", e.name(), msg));
				continue;
			}
			Ok(Ok(d)) => d,
		};
		if d1.encoded_len > 100_000 {
			out.class(format!("{}:>100k", e.name()));
		}
		let p1 = proj(&d1.slate);
		let mut args_lost = false;
		for (field, detail) in intent.diff(&p1) {
			if field == "feat_args" {
				args_lost = true;
			}
			out.fail(diff_signature(e, field, intent), format!("{}: field {} not preserved: {}", e.name(), field, detail));
		}
		if let Some(tx) = d1.slate.tx.as_ref() {
			if tx.offset.as_ref().to_vec().to_hex() != intent.offset {
				out.fail(format!("c08:{}:tx-offset", e.family()), format!("{}: tx.offset != slate offset", e.name()));
			}
			if !args_lost {
				if let Some(Err(m)) = kernel_matches(tx, intent) {
					out.fail("c08:tx_from_slate_v4:kernel-features", format!("{}: {}", e.name(), m));
				}
			}
		}
		per_decoded(out, e, &d1.slate);
		// idempotence on the full slate (armor only wraps the binary slatepack, whose idempotence is checked
		// by the sp-bin forms; skipped for large armored payloads because base58 is quadratic)
		if matches!(e, Enc::SpArmor(_)) && d1.encoded_len > 2_500 {
			continue;
		}
		match guard(|| enc_dec(e, &d1.slate, keys, None)) {
			Ok(Ok(d2)) => {
				let a = format!("{:?}", d1.slate);
				let b = format!("{:?}", d2.slate);
				if a != b {
					let pos = a.bytes().zip(b.bytes()).position(|(x, y)| x != y).unwrap_or(0);
					let from = pos.saturating_sub(60);
					let sig = if intent.feat == 3 && e.binary_based() {
						"c08:bin:nrd-relative-height-dropped".to_string()
					} else {
						format!("c08:{}:not-idempotent", e.family())
					};
					out.fail(
						sig,
						format!("{}: second round trip differs near ..{}.. vs ..{}..", e.name(), &a[from..(pos + 60).min(a.len())], &b[from..(pos + 60).min(b.len())]),
					);
				}
			}
			Ok(Err(msg)) => {
				// the same 100 000-byte read cap as in the first round trip (an encrypted payload varies by a few bytes
				// between two encryptions of the same slate, so only the second one may cross the cap)
				let sig = if msg.contains("[payload>100k]") { "c08:slatepack:large-payload-unreadable".to_string() } else { format!("c08:{}:codec-error-2nd", e.family()) };
				out.fail(sig, format!("{}: {}", e.name(), msg))
			}
			Err(f) => out.fails.push(f),
		}
	}
}

/// hand-assembled slatepack with metadata recipients (Slatepack::add_recipient), plain and encrypted
fn check_meta_slatepack(out: &mut Outcome, s0: &Slate, c: &SpSpec, keys: &SpKeys) -> Result<(), String> {
	let payload = {
		let vs = VersionedSlate::into_version(s0.clone(), SlateVersion::V4).map_err(|e| format!("{}", e))?;
		let b = VersionedBinSlate::try_from(vs).map_err(|e| format!("{}", e))?;
		byte_ser::to_bytes(&b).map_err(|e| format!("{}", e))?
	};
	let meta: Vec<SlatepackAddress> = c.meta.iter().map(|s| sp_addr(*s)).collect();
	let mut orig = Slatepack::default();
	orig.payload = payload;
	orig.sender = keys.sender.clone();
	for m in &meta {
		orig.add_recipient(m.clone());
	}
	for enc in [false, true].iter() {
		let mut sp = orig.clone();
		if *enc {
			sp.try_encrypt_payload(keys.recipients.clone()).map_err(|e| format!("try_encrypt_payload: {}", e))?;
		}
		let packer = Slatepacker::new(SlatepackerArgs { sender: None, recipients: vec![], dec_key: Some(&keys.dec_key) });
		let forms: Vec<(&str, Vec<u8>)> = vec![
			("bin", byte_ser::to_bytes(&SlatepackBin(sp.clone())).map_err(|e| format!("{}", e))?),
			("json", serde_json::to_vec(&sp).map_err(|e| format!("{}", e))?),
		];
		let mut forms = forms;
		if sp.payload.len() <= 6_000 {
			forms.push(("armor", packer.armor_slatepack(&sp).map_err(|e| format!("{}", e))?.into_bytes()));
		}
		for (name, data) in forms {
			let tag = format!("meta-{}{}", name, if *enc { "-enc" } else { "" });
			let back = match packer.deser_slatepack(&data, true) {
				Ok(b) => b,
				Err(e) => {
					let sig = if name != "json" && sp.payload.len() > 100_000 { "c08:slatepack:large-payload-unreadable" } else { "c08:slatepack:codec-error" };
					out.fail(sig, format!("{} (payload {} bytes): {}", tag, sp.payload.len(), e));
					continue;
				}
			};
			if back.sender != orig.sender || back.payload != orig.payload || back.mode != 0 || back.slatepack != orig.slatepack {
				out.fail("c08:slatepack:meta-roundtrip", format!("{}: sender/payload/mode/version differ", tag));
			}
			// the plain binary form documents that metadata is only carried inside an encrypted payload
			let carries_meta = *enc || name == "json";
			if carries_meta && back.recipients() != &meta[..] {
				out.fail("c08:slatepack:recipients", format!("{}: recipients {:?} != {:?}", tag, back.recipients(), meta));
			}
			if carries_meta && !*enc && back != orig {
				out.fail("c08:slatepack:meta-roundtrip", format!("{}: decoded slatepack != original", tag));
			}
			match packer.get_slate(&back) {
				Ok(s) => {
					let want = proj(s0);
					let d: Vec<&str> = want.diff(&proj(&s)).iter().map(|d| d.0).collect();
					let only_known = s0.kernel_features == 3 && d == vec!["feat_args"];
					if !d.is_empty() && !only_known {
						out.fail("c08:slatepack:meta-slate", format!("{}: slate fields differ: {:?}", tag, d));
					}
				}
				Err(e) => out.fail("c08:slatepack:codec-error", format!("{}: get_slate {}", tag, e)),
			}
		}
	}
	Ok(())
}

impl Prop for C08Slate {
	type Case = SlateCase;
	fn id(&self) -> &'static str {
		"C08"
	}
	fn part(&self) -> &'static str {
		"slate"
	}
	fn cases(&self, tier: Tier) -> u64 {
		tier.pick(6_000, 100_000)
	}
	fn strategy(&self, tier: Tier) -> BoxedStrategy<SlateCase> {
		slate_case_strategy(tier.pick(60, 300))
	}
	fn rule(&self) -> String {
		"structural slate generator (7 states; amount/ttl/lock height from {0,1,2^32,2^40-1,2^40,2^63,u64::MAX} + random; fee = zero or FeeFields::new(shift 0..15, fee 1..2^40-1); num_participants incl. 0/1/2/3/255 with 0..4 entries with/without partial signature; kernel features 0 / 2+lock height / 3+relative height 1..10080; payment proof none / without / with receiver signature; offset zero/random; tx absent or 0..60 (thorough 0..300) distinct commitments, inputs/outputs, plain/coinbase, 675-byte proofs (genuine bulletproofs in ~5%); block header version 1..3; chain type mainnet/testnet) built through the public SlateV4 struct -> Slate::from; for E in {V4 JSON via VersionedSlate, V4 JSON via Slate's Serialize + deserialize_upgrade, V4 binary via byte_ser, slatepack binary / JSON / armored, each plain and age-encrypted to 1..3 generated recipients}: proj(dec_E(enc_E(s))) == intent where proj is computed by the harness from Slate's public fields; tx.offset == slate offset; tx kernel features agree with the slate's feature code and argument; second round trip leaves the full slate (Debug form) unchanged; slatepack level: sender, payload, mode, version and (where the form carries them) metadata recipients survive; non-trivial = >=2 optional parts set (amount, fee, ttl, feat, proof, offset, tx, num_parts != 2); distinct by hash of the intent".into()
	}
	fn assumptions(&self) -> Vec<String> {
		vec![
			"slate version is 4 (the only version this wallet writes); kernel feature arguments are present exactly when the feature needs them; feature 1 (coinbase) is documented invalid and not generated".into(),
			"range proofs are exactly 675 bytes (the only length grin's own RangeProof codec preserves)".into(),
			"commitments of one slate are pairwise distinct; order of commitments is not compared (inputs are listed before outputs by design)".into(),
			"the tx kernel excess/signature are derived data and are not compared in part slate (part complete compares them for fully signed slates)".into(),
			"plain (unencrypted) binary/armored slatepacks are documented not to carry metadata recipients".into(),
			"chain type is mainnet or testnet (AutomatedTesting caps a slatepack at about 7 kB by its tiny max block weight)".into(),
		]
	}
	fn shrink_iters(&self) -> u32 {
		120
	}
	fn run(&mut self, c: &SlateCase) -> Outcome {
		let mut out = Outcome::default();
		set_chain(c.testnet);
		let t0 = std::time::Instant::now();
		let (v4, intent) = build(c);
		crate::rt::dbg(&format!("build {:?} coms {:?}", t0.elapsed(), intent.coms.as_ref().map(|v| v.len())));
		let s0 = match guard(|| Slate::from(v4)) {
			Ok(s) => s,
			Err(f) => {
				out.fails.push(f);
				return out;
			}
		};
		out.nontrivial = intent.optional_parts() >= 2;
		out.distinct_key = Some(format!("{:016x}", case_hash(&intent)));
		out.class(format!("state={}", intent.state));
		out.class(format!("feat={}", intent.feat));
		out.class(format!("sigs={}", intent.parts.len()));
		out.class(format!("sigs-with-part={}", intent.parts.iter().filter(|p| p.2.is_some()).count()));
		out.class(match intent.num_parts {
			0 => "num_parts=0".to_string(),
			1 => "num_parts=1".to_string(),
			2 => "num_parts=2".to_string(),
			3 => "num_parts=3".to_string(),
			255 => "num_parts=255".to_string(),
			_ => "num_parts=other".to_string(),
		});
		out.class(match &intent.coms {
			None => "tx=absent".to_string(),
			Some(v) if v.is_empty() => "coms=0".to_string(),
			Some(v) if v.len() <= 6 => "coms=1..6".to_string(),
			Some(v) if v.len() <= 60 => "coms=7..60".to_string(),
			Some(_) => "coms>60".to_string(),
		});
		out.class(match &intent.proof {
			None => "proof=none",
			Some((_, _, None)) => "proof=no-rsig",
			Some(_) => "proof=rsig",
		});
		for (n, v) in [("amt", intent.amount), ("ttl", intent.ttl)].iter() {
			if BOUNDARY.contains(v) {
				out.class(format!("{}=boundary:{}", n, v));
			}
		}
		out.class(if intent.fee == 0 { "fee=0" } else if intent.fee >> 40 != 0 { "fee=shifted" } else { "fee=plain" });
		out.class(if c.offset.is_some() { "off=random" } else { "off=zero" });
		out.class(format!("optional-parts={}", intent.optional_parts()));
		if c.genuine > 0 && c.coms.as_ref().map(|v| v.iter().any(|x| x.output)).unwrap_or(false) {
			out.class("genuine-bulletproof");
		}
		out.class(format!("enc-recipients={}", c.sp.recipients.len()));
		out.class(if c.sp.sender.is_some() { "sender=some" } else { "sender=none" });
		// a field lost on the way in
		let p0 = proj(&s0);
		for (field, detail) in intent.diff(&p0) {
			out.fail(format!("c08:from-v4:{}", field), format!("Slate::from(SlateV4) lost {}: {}", field, detail));
		}
		if let Some(tx) = s0.tx.as_ref() {
			if let Some(Err(m)) = kernel_matches(tx, &intent) {
				out.fail("c08:tx_from_slate_v4:kernel-features", format!("Slate::from(SlateV4): {}", m));
			}
		}
		let keys = sp_keys(&c.sp);
		check_all_encodings(&mut out, &s0, &intent, &keys, c.armor_large, |_, _, _| {});
		if !c.sp.meta.is_empty() {
			out.class(format!("meta-recipients={}", c.sp.meta.len()));
			let mut o2 = Outcome::default();
			match guard(|| check_meta_slatepack(&mut o2, &s0, &c.sp, &keys)) {
				Ok(Ok(())) => {}
				Ok(Err(e)) => o2.fail("c08:slatepack:codec-error", format!("meta: {}", e)),
				Err(f) => o2.fails.push(f),
			}
			out.fails.extend(o2.fails);
		}
		out
	}
}

// ---------------------------------------------------------------------------------------------
// part complete

#[derive(Clone, Debug, Serialize, Deserialize)]
pub struct CompleteCase {
	pub testnet: bool,
	pub invoice: bool,
	pub feat: u8,
	pub feat_arg: u64,
	pub amount: u64,
	pub change: u64,
	pub fee_extra: u64,
	pub shift: u8,
	pub ttl: u64,
	pub kc_s: u64,
	pub kc_r: u64,
	pub key_s: u64,
	pub nonce_s: u64,
	pub key_r: u64,
	pub nonce_r: u64,
	pub proof: Option<ProofSpec>,
	pub sp: SpSpec,
	pub armor: Option<bool>,
}

pub struct C08Complete;

impl C08Complete {
	pub fn new(_args: &Args) -> C08Complete {
		C08Complete
	}
}

/// Two parties with throw-away keychains build and sign a transaction the way the wallet does
/// (compact-slate flow: random excess keys, offsets adjusted by each party), entirely through Slate's public API.
fn sign_two_party(c: &CompleteCase) -> Result<Slate, String> {
	let es = |e: grin_wallet_libwallet::Error| format!("{} / {:?}", e, e);
	let kc_s = ExtKeychain::from_seed(&h32("kcs", c.kc_s), false).map_err(|e| format!("{:?}", e))?;
	let kc_r = ExtKeychain::from_seed(&h32("kcr", c.kc_r), false).map_err(|e| format!("{:?}", e))?;
	let n_out = if c.change > 0 { 2 } else { 1 };
	let fee = grin_core::libtx::tx_fee(1, n_out, 1) + c.fee_extra;
	let fee_fields = FeeFields::new(c.shift as u64, fee).map_err(|e| format!("{:?}", e))?;
	// the slate as the initiator would send it (kernel features / payment proof travel in the V4 form)
	let proof = c.proof.as_ref().map(|p| PaymentInfoV4 {
		saddr: ed_pk("saddr", p.sender),
		raddr: ed_pk("raddr", p.receiver),
		rsig: if p.rsig { Some(ed_sig("raddr", p.receiver)) } else { None },
	});
	let mut id = [0u8; 16];
	id.copy_from_slice(&hbytes("cid", c.key_s ^ c.key_r, 16));
	let v4 = SlateV4 {
		ver: VersionCompatInfoV4 { version: 4, block_header_version: 3 },
		id: uuid::Uuid::from_bytes(id),
		sta: if c.invoice { SlateStateV4::Invoice1 } else { SlateStateV4::Standard1 },
		off: BlindingFactor::zero(),
		num_parts: 2,
		amt: c.amount,
		fee: fee_fields,
		feat: c.feat,
		ttl: c.ttl,
		sigs: vec![],
		coms: None,
		proof,
		feat_args: if c.feat == 0 { None } else { Some(KernelFeaturesArgsV4 { lock_hgt: c.feat_arg }) },
	};
	let mut slate = Slate::from(v4);
	slate.tx = Some(Slate::empty_transaction());
	let parent = ExtKeychain::derive_key_id(2, 0, 0, 0, 0);
	let k_in = ExtKeychain::derive_key_id(3, 0, 0, 1, 0);
	let k_ch = ExtKeychain::derive_key_id(3, 0, 0, 2, 0);
	let k_out = ExtKeychain::derive_key_id(3, 0, 0, 3, 0);
	let v_in = c.amount + fee + c.change;
	// sender
	let mut elems = vec![build::input(v_in, k_in.clone())];
	if c.change > 0 {
		elems.push(build::output(c.change, k_ch.clone()));
	}
	slate.add_transaction_elements(&kc_s, &ProofBuilder::new(&kc_s), elems).map_err(es)?;
	let mut ctx_s = Context::with_excess(kc_s.secp(), secp_sk("cks", c.key_s), &parent, true);
	ctx_s.sec_nonce = secp_sk("cns", c.nonce_s);
	ctx_s.initial_sec_nonce = ctx_s.sec_nonce.clone();
	ctx_s.add_input(&k_in, &None, v_in);
	if c.change > 0 {
		ctx_s.add_output(&k_ch, &None, c.change);
	}
	ctx_s.amount = c.amount;
	ctx_s.fee = Some(fee_fields);
	slate.fill_round_1(&kc_s, &mut ctx_s).map_err(es)?;
	slate.adjust_offset(&kc_s, &ctx_s).map_err(es)?;
	// receiver
	slate.add_transaction_elements(&kc_r, &ProofBuilder::new(&kc_r), vec![build::output(c.amount, k_out.clone())]).map_err(es)?;
	let mut ctx_r = Context::with_excess(kc_r.secp(), secp_sk("ckr", c.key_r), &parent, true);
	ctx_r.sec_nonce = secp_sk("cnr", c.nonce_r);
	ctx_r.initial_sec_nonce = ctx_r.sec_nonce.clone();
	ctx_r.add_output(&k_out, &None, c.amount);
	slate.fill_round_1(&kc_r, &mut ctx_r).map_err(es)?;
	slate.adjust_offset(&kc_r, &ctx_r).map_err(es)?;
	slate.fill_round_2(&kc_r, &ctx_r.sec_key, &ctx_r.sec_nonce).map_err(es)?;
	slate.state = if c.invoice { SlateState::Invoice2 } else { SlateState::Standard2 };
	// sender signs and finalises
	slate.fill_round_2(&kc_s, &ctx_s.sec_key, &ctx_s.sec_nonce).map_err(es)?;
	// as selection::repopulate_tx does before finalising
	slate.tx_or_err_mut().map_err(es)?.offset = slate.offset.clone();
	slate.finalize(&kc_s).map_err(es)?;
	slate.state = if c.invoice { SlateState::Invoice3 } else { SlateState::Standard3 };
	Ok(slate)
}

fn tx_view(tx: &Transaction) -> (Vec<(bool, u8, String, String)>, String) {
	let mut v = vec![];
	if let Inputs::FeaturesAndCommit(ins) = tx.inputs() {
		for i in ins {
			v.push((false, i.features as u8, i.commit.0.to_vec().to_hex(), String::new()));
		}
	}
	for o in tx.outputs() {
		let p = o.proof();
		v.push((true, o.features() as u8, o.commitment().0.to_vec().to_hex(), p.proof[..p.plen].to_vec().to_hex()));
	}
	v.sort();
	(v, tx.offset.as_ref().to_vec().to_hex())
}

impl Prop for C08Complete {
	type Case = CompleteCase;
	fn id(&self) -> &'static str {
		"C08"
	}
	fn part(&self) -> &'static str {
		"complete"
	}
	fn cases(&self, tier: Tier) -> u64 {
		tier.pick(160, 4_000)
	}
	fn strategy(&self, _tier: Tier) -> BoxedStrategy<CompleteCase> {
		let feat = prop_oneof![
			1 => Just((0u8, 0u64)),
			1 => bint().prop_map(|h| (2u8, h)),
			1 => (1u64..=10080).prop_map(|h| (3u8, h)),
		];
		let sp = (prop::option::weighted(0.6, any::<u64>()), prop::collection::vec(any::<u64>(), 1..=2), any::<u16>())
			.prop_map(|(sender, recipients, dec)| SpSpec { sender, recipients, dec, meta: vec![] });
		(
			(any::<bool>(), any::<bool>(), feat, 1u64..1_000_000_000_000, prop_oneof![1 => Just(0u64), 3 => 1u64..1_000_000_000_000]),
			(prop_oneof![1 => Just(0u64), 1 => 0u64..50_000_000], prop_oneof![2 => Just(0u8), 1 => 0u8..16], bint()),
			(any::<u64>(), any::<u64>(), any::<u64>(), any::<u64>(), any::<u64>(), any::<u64>()),
			prop::option::weighted(0.4, (any::<u64>(), any::<u64>(), any::<bool>()).prop_map(|(sender, receiver, rsig)| ProofSpec { sender, receiver, rsig })),
			sp,
			prop::option::weighted(0.5, any::<bool>()),
		)
			.prop_map(
				|((testnet, invoice, (feat, feat_arg), amount, change), (fee_extra, shift, ttl), (kc_s, kc_r, key_s, nonce_s, key_r, nonce_r), proof, sp, armor)| {
					CompleteCase {
						testnet,
						invoice,
						feat,
						feat_arg,
						amount,
						change,
						fee_extra,
						shift,
						ttl,
						kc_s,
						kc_r,
						key_s,
						nonce_s,
						key_r,
						nonce_r,
						proof,
						sp,
						armor,
					}
				},
			)
			.boxed()
	}
	fn rule(&self) -> String {
		"two throw-away keychains build (1 input, 1..2 outputs with genuine bulletproofs), sign (fill_round_1/adjust_offset/fill_round_2) and finalize a transaction through Slate's public API for kernel features 0, 2 (lock height) and 3 (NRD relative height); the finalised tx validates (Weighting::AsTransaction); for every encoding the decoded slate equals the original (projection) and its tx has the same inputs, outputs, offset, kernel features, kernel excess and kernel signature as the finalised tx and still validates; every case is non-trivial (complete participant set, tx present, fee and amount set)".into()
	}
	fn assumptions(&self) -> Vec<String> {
		vec!["nonces and excess keys are derived from the case (Context fields are public), not from thread_rng".into()]
	}
	fn shrink_iters(&self) -> u32 {
		60
	}
	fn run(&mut self, c: &CompleteCase) -> Outcome {
		let mut out = Outcome::default();
		set_chain(c.testnet);
		out.class(format!("feat={}", c.feat));
		out.class(if c.invoice { "flow=invoice" } else { "flow=standard" });
		out.class(if c.change > 0 { "outputs=2" } else { "outputs=1" });
		out.class(if c.proof.is_some() { "proof=some" } else { "proof=none" });
		let slate = match guard(|| sign_two_party(c)) {
			Ok(Ok(s)) => s,
			Ok(Err(e)) => {
				out.fail("c08:complete:harness-error", format!("honest two-party signing failed: {}", e));
				return out;
			}
			Err(f) => {
				out.fails.push(f);
				return out;
			}
		};
		let orig = slate.tx.clone().expect("finalised tx");
		if let Err(e) = orig.validate(Weighting::AsTransaction) {
			out.fail("c08:complete:harness-error", format!("finalised tx does not validate: {:?}", e));
			return out;
		}
		out.nontrivial = true;
		let intent = proj(&slate);
		out.distinct_key = Some(format!("{:016x}", case_hash(&intent)));
		if let Some(Err(m)) = kernel_matches(&orig, &intent) {
			out.fail("c08:complete:harness-error", format!("finalised tx kernel does not carry the slate's features: {}", m));
			return out;
		}
		let keys = sp_keys(&c.sp);
		let ok = orig.kernels()[0];
		let oview = tx_view(&orig);
		let feat = c.feat;
		check_all_encodings(&mut out, &slate, &intent, &keys, c.armor, |out, e, d| {
			let tx = match d.tx.as_ref() {
				Some(t) => t,
				None => {
					out.fail(format!("c08:{}:complete-tx-missing", e.family()), format!("{}: decoded slate has no tx", e.name()));
					return;
				}
			};
			// feature-dependent derivation is the known root cause for feat != 0
			let root = |generic: String| if feat != 0 { "c08:tx_from_slate_v4:kernel-features".to_string() } else { generic };
			if tx_view(tx) != oview {
				out.fail(format!("c08:{}:complete-tx-body", e.family()), format!("{}: inputs/outputs/offset of the decoded tx differ from the finalised tx", e.name()));
			}
			if tx.kernels().len() != 1 {
				out.fail(format!("c08:{}:complete-kernel-count", e.family()), format!("{}: {} kernels", e.name(), tx.kernels().len()));
				return;
			}
			let k = tx.kernels()[0];
			if k.features != ok.features {
				out.fail("c08:tx_from_slate_v4:kernel-features", format!("{}: kernel features {:?} != finalised {:?}", e.name(), k.features, ok.features));
			}
			if k.excess != ok.excess {
				out.fail(format!("c08:{}:complete-kernel-excess", e.family()), format!("{}: kernel excess differs from the finalised tx", e.name()));
			}
			if k.excess_sig != ok.excess_sig {
				out.fail(root(format!("c08:{}:complete-kernel-sig", e.family())), format!("{}: kernel signature differs from the finalised tx (feat {})", e.name(), feat));
			}
			if let Err(er) = tx.validate(Weighting::AsTransaction) {
				out.fail(root(format!("c08:{}:complete-tx-invalid", e.family())), format!("{}: decoded tx of a finalised slate (feat {}) no longer validates: {:?}", e.name(), feat, er));
			}
		});
		out
	}
}

// ---------------------------------------------------------------------------------------------
// part misc: addresses and stored records

#[derive(Clone, Debug, Serialize, Deserialize)]
pub struct IdSpec {
	pub depth: u8,
	pub path: [u32; 4],
}

#[derive(Clone, Debug, Serialize, Deserialize)]
pub struct OutSpec {
	pub root: IdSpec,
	pub key: IdSpec,
	pub n_child: u32,
	pub commit: Option<u64>,
	pub mmr: Option<u64>,
	pub value: u64,
	pub status: u8,
	pub height: u64,
	pub lock_height: u64,
	pub coinbase: bool,
	pub log: Option<u32>,
}

#[derive(Clone, Debug, Serialize, Deserialize)]
pub struct StoredProofSpec {
	pub sender: u64,
	pub receiver: u64,
	pub rsig: bool,
	pub ssig: bool,
	pub path: u32,
}

#[derive(Clone, Debug, Serialize, Deserialize)]
pub struct TxSpec {
	pub parent: IdSpec,
	pub id: u32,
	pub slate_id: Option<u64>,
	pub ty: u8,
	pub created: (u32, u32),
	pub confirmed_ts: Option<(u32, u32)>,
	pub confirmed: bool,
	pub n_in: u32,
	pub n_out: u32,
	pub credited: u64,
	pub debited: u64,
	/// None / Some(None) = Some(zero fee fields) / Some(Some(shift, fee))
	pub fee: Option<Option<(u8, u64)>>,
	pub ttl: Option<u64>,
	pub stored: Option<String>,
	pub excess: Option<u64>,
	pub min_height: Option<u64>,
	pub proof: Option<StoredProofSpec>,
	pub reverted_after: Option<u64>,
}

#[derive(Clone, Debug, Serialize, Deserialize)]
pub struct LateSpec {
	pub acct: Option<String>,
	pub amount: u64,
	pub incl_fee: Option<bool>,
	pub min_conf: u64,
	pub max_outputs: u32,
	pub change: u32,
	pub use_all: bool,
	pub target_ver: Option<u16>,
	pub ttl: Option<u64>,
	pub pp_addr: Option<u64>,
	pub estimate: Option<bool>,
	pub late: Option<bool>,
	pub send: Option<(String, bool, bool, bool)>,
}

#[derive(Clone, Debug, Serialize, Deserialize)]
pub struct CtxSpec {
	pub parent: IdSpec,
	pub keys: [u64; 4],
	pub outs: Vec<(IdSpec, Option<u64>, u64)>,
	pub ins: Vec<(IdSpec, Option<u64>, u64)>,
	pub amount: u64,
	pub fee: Option<(u8, u64)>,
	pub pp_index: Option<u32>,
	pub late: Option<LateSpec>,
	pub excess: Option<u64>,
}

#[derive(Clone, Debug, Serialize, Deserialize)]
pub struct MiscCase {
	pub addr_seed: u64,
	pub mainnet: bool,
	pub onion_seed: u64,
	pub out: OutSpec,
	pub tx: TxSpec,
	pub ctx: CtxSpec,
}

fn id_strategy() -> BoxedStrategy<IdSpec> {
	let comp = prop_oneof![3 => Just(0u32), 3 => 0u32..1000, 1 => Just(u32::MAX), 1 => Just(0x8000_0000u32), 2 => any::<u32>()];
	(0u8..=4, [comp.clone(), comp.clone(), comp.clone(), comp]).prop_map(|(depth, path)| IdSpec { depth, path }).boxed()
}

fn text_strategy() -> BoxedStrategy<String> {
	prop_oneof![
		2 => Just("default".to_string()),
		2 => any::<u64>().prop_map(|s| format!("{}.grintx", uuid::Uuid::from_bytes({ let mut b = [0u8; 16]; b.copy_from_slice(&hbytes("txt", s, 16)); b }))),
		3 => prop::collection::vec(prop_oneof![4 => (32u8..127).prop_map(|b| b as char), 1 => any::<char>()], 0..24).prop_map(|v| v.into_iter().collect()),
	]
	.boxed()
}

fn opt<T: std::fmt::Debug + Clone + 'static>(s: BoxedStrategy<T>) -> BoxedStrategy<Option<T>> {
	prop::option::weighted(0.6, s).boxed()
}

fn fee_pair() -> BoxedStrategy<(u8, u64)> {
	fee_strategy().prop_map(|f| f.unwrap_or((0, 1))).boxed()
}

fn ts_strategy() -> BoxedStrategy<(u32, u32)> {
	(prop_oneof![1 => Just(0u32), 6 => 1_500_000_000u32..2_000_000_000, 1 => any::<u32>()], prop_oneof![1 => Just(0u32), 1 => Just(999_999_999u32), 4 => 0u32..1_000_000_000]).boxed()
}

fn entries_strategy(max: usize) -> BoxedStrategy<Vec<(IdSpec, Option<u64>, u64)>> {
	let e = (id_strategy(), opt(bint()), bint());
	prop_oneof![
		2 => Just(vec![]),
		5 => prop::collection::vec(e.clone(), 1..=4),
		2 => prop::collection::vec(e.clone(), 0..=300usize.min(max)),
		1 => prop::collection::vec(e, 0..=max),
	]
	.boxed()
}

pub fn misc_strategy(max_entries: usize) -> BoxedStrategy<MiscCase> {
	let out = (
		(id_strategy(), id_strategy(), any::<u32>(), opt(any::<u64>().boxed()), opt(bint())),
		(bint(), 0u8..5, bint(), bint(), any::<bool>(), opt(any::<u32>().boxed())),
	)
		.prop_map(|((root, key, n_child, commit, mmr), (value, status, height, lock_height, coinbase, log))| OutSpec {
			root,
			key,
			n_child,
			commit,
			mmr,
			value,
			status,
			height,
			lock_height,
			coinbase,
			log,
		});
	let sproof = (any::<u64>(), any::<u64>(), any::<bool>(), any::<bool>(), any::<u32>())
		.prop_map(|(sender, receiver, rsig, ssig, path)| StoredProofSpec { sender, receiver, rsig, ssig, path });
	let tx = (
		(id_strategy(), any::<u32>(), opt(any::<u64>().boxed()), 0u8..6, ts_strategy(), opt(ts_strategy()), any::<bool>()),
		(prop_oneof![3 => 0u32..10, 1 => any::<u32>()], prop_oneof![3 => 0u32..10, 1 => any::<u32>()], bint(), bint()),
		(opt(prop::option::weighted(0.8, fee_pair()).boxed()), opt(bint()), opt(text_strategy()), opt(any::<u64>().boxed()), opt(bint()), opt(sproof.boxed()), opt(bint())),
	)
		.prop_map(
			|((parent, id, slate_id, ty, created, confirmed_ts, confirmed), (n_in, n_out, credited, debited), (fee, ttl, stored, excess, min_height, proof, reverted_after))| TxSpec {
				parent,
				id,
				slate_id,
				ty,
				created,
				confirmed_ts,
				confirmed,
				n_in,
				n_out,
				credited,
				debited,
				fee,
				ttl,
				stored,
				excess,
				min_height,
				proof,
				reverted_after,
			},
		);
	let late = (
		(opt(text_strategy()), bint(), opt(any::<bool>().boxed()), bint(), any::<u32>(), any::<u32>(), any::<bool>()),
		(opt(any::<u16>().boxed()), opt(bint()), opt(any::<u64>().boxed()), opt(any::<bool>().boxed()), opt(any::<bool>().boxed())),
		opt((text_strategy(), any::<bool>(), any::<bool>(), any::<bool>()).boxed()),
	)
		.prop_map(|((acct, amount, incl_fee, min_conf, max_outputs, change, use_all), (target_ver, ttl, pp_addr, estimate, late), send)| LateSpec {
			acct,
			amount,
			incl_fee,
			min_conf,
			max_outputs,
			change,
			use_all,
			target_ver,
			ttl,
			pp_addr,
			estimate,
			late,
			send,
		});
	let ctx = (
		(id_strategy(), any::<[u64; 4]>(), entries_strategy(max_entries), entries_strategy(max_entries)),
		(bint(), opt(fee_pair()), opt(any::<u32>().boxed()), prop::option::weighted(0.3, late), opt(any::<u64>().boxed())),
	)
		.prop_map(|((parent, keys, outs, ins), (amount, fee, pp_index, late, excess))| CtxSpec {
			parent,
			keys,
			outs,
			ins,
			amount,
			fee,
			pp_index,
			late,
			excess,
		});
	(any::<u64>(), any::<bool>(), any::<u64>(), out, tx, ctx)
		.prop_map(|(addr_seed, mainnet, onion_seed, out, tx, ctx)| MiscCase { addr_seed, mainnet, onion_seed, out, tx, ctx })
		.boxed()
}

fn ident(i: &IdSpec) -> Identifier {
	ExtKeychainPath::new(i.depth, i.path[0], i.path[1], i.path[2], i.path[3]).to_identifier()
}

fn ff(f: &(u8, u64)) -> FeeFields {
	FeeFields::new(f.0 as u64, f.1).expect("fee fields in range")
}

fn datetime(t: &(u32, u32)) -> chrono::DateTime<chrono::Utc> {
	use chrono::TimeZone;
	chrono::Utc.timestamp_opt(t.0 as i64, t.1).single().expect("timestamp in range")
}

fn mk_output(o: &OutSpec) -> OutputData {
	OutputData {
		root_key_id: ident(&o.root),
		key_id: ident(&o.key),
		n_child: o.n_child,
		commit: o.commit.map(|s| commit_for(s).0.to_vec().to_hex()),
		mmr_index: o.mmr,
		value: o.value,
		status: match o.status {
			0 => OutputStatus::Unconfirmed,
			1 => OutputStatus::Unspent,
			2 => OutputStatus::Locked,
			3 => OutputStatus::Spent,
			_ => OutputStatus::Reverted,
		},
		height: o.height,
		lock_height: o.lock_height,
		is_coinbase: o.coinbase,
		tx_log_entry: o.log,
	}
}

fn mk_tx(t: &TxSpec) -> TxLogEntry {
	let mut e = TxLogEntry::new(
		ident(&t.parent),
		match t.ty {
			0 => TxLogEntryType::ConfirmedCoinbase,
			1 => TxLogEntryType::TxReceived,
			2 => TxLogEntryType::TxSent,
			3 => TxLogEntryType::TxReceivedCancelled,
			4 => TxLogEntryType::TxSentCancelled,
			_ => TxLogEntryType::TxReverted,
		},
		t.id,
	);
	e.tx_slate_id = t.slate_id.map(|s| {
		let mut b = [0u8; 16];
		b.copy_from_slice(&hbytes("txid", s, 16));
		uuid::Uuid::from_bytes(b)
	});
	e.creation_ts = datetime(&t.created);
	e.confirmation_ts = t.confirmed_ts.as_ref().map(datetime);
	e.confirmed = t.confirmed;
	e.num_inputs = t.n_in as usize;
	e.num_outputs = t.n_out as usize;
	e.amount_credited = t.credited;
	e.amount_debited = t.debited;
	e.fee = t.fee.as_ref().map(|f| f.as_ref().map(ff).unwrap_or_else(FeeFields::zero));
	e.ttl_cutoff_height = t.ttl;
	e.stored_tx = t.stored.clone();
	e.kernel_excess = t.excess.map(commit_for);
	e.kernel_lookup_min_height = t.min_height;
	e.payment_proof = t.proof.as_ref().map(|p| StoredProofInfo {
		receiver_address: ed_pk("raddr", p.receiver),
		receiver_signature: if p.rsig { Some(ed_sig("raddr", p.receiver)) } else { None },
		sender_address_path: p.path,
		sender_address: ed_pk("saddr", p.sender),
		sender_signature: if p.ssig { Some(ed_sig("saddr", p.sender)) } else { None },
	});
	e.reverted_after = t.reverted_after.map(std::time::Duration::from_secs);
	e
}

fn mk_ctx(c: &CtxSpec) -> Context {
	let secp = static_secp_instance();
	let secp = secp.lock();
	let key = |tag: &str, s: u64| SecretKey::from_slice(&secp, &sk32(tag, s)).expect("key");
	let mut ctx = Context::with_excess(&secp, key("k0", c.keys[0]), &ident(&c.parent), true);
	ctx.sec_nonce = key("k1", c.keys[1]);
	ctx.initial_sec_key = key("k2", c.keys[2]);
	ctx.initial_sec_nonce = key("k3", c.keys[3]);
	ctx.output_ids = c.outs.iter().map(|(i, m, a)| (ident(i), *m, *a)).collect();
	ctx.input_ids = c.ins.iter().map(|(i, m, a)| (ident(i), *m, *a)).collect();
	ctx.amount = c.amount;
	ctx.fee = c.fee.as_ref().map(ff);
	ctx.payment_proof_derivation_index = c.pp_index;
	ctx.late_lock_args = c.late.as_ref().map(|l| InitTxArgs {
		src_acct_name: l.acct.clone(),
		amount: l.amount,
		amount_includes_fee: l.incl_fee,
		minimum_confirmations: l.min_conf,
		max_outputs: l.max_outputs,
		num_change_outputs: l.change,
		selection_strategy_is_use_all: l.use_all,
		target_slate_version: l.target_ver,
		ttl_blocks: l.ttl,
		payment_proof_recipient_address: l.pp_addr.map(sp_addr),
		estimate_only: l.estimate,
		late_lock: l.late,
		send_args: l.send.as_ref().map(|s| InitTxSendArgs { dest: s.0.clone(), post_tx: s.1, fluff: s.2, skip_tor: s.3 }),
	});
	drop(secp);
	ctx.calculated_excess = c.excess.map(commit_for);
	ctx
}

/// decode(encode(x)) through the record's Writeable/Readable pair and through serde_json; compared by a field-by-field Debug view
/// (which does not go through serde) and additionally by serde_json::Value
fn canon_out(o: &OutputData) -> String {
	format!("{:?}", o)
}

/// field-by-field view (ed25519 keys as their 32 bytes: their Debug form shows a non-canonical internal point)
fn canon_tx(t: &TxLogEntry) -> String {
	format!(
		"{:?}",
		(
			(&t.parent_key_id, t.id, &t.tx_slate_id, &t.tx_type, &t.creation_ts, &t.confirmation_ts, t.confirmed),
			(t.num_inputs, t.num_outputs, t.amount_credited, t.amount_debited, &t.fee, &t.ttl_cutoff_height, &t.stored_tx),
			(&t.kernel_excess, &t.kernel_lookup_min_height, &t.reverted_after),
			t.payment_proof.as_ref().map(|p| (
				p.receiver_address.to_bytes(),
				p.receiver_signature.map(|s| s.to_bytes().to_vec()),
				p.sender_address_path,
				p.sender_address.to_bytes(),
				p.sender_signature.map(|s| s.to_bytes().to_vec()),
			)),
		)
	)
}

fn canon_ctx(c: &Context) -> String {
	format!(
		"{:?}",
		(
			(&c.parent_key_id, &c.sec_key, &c.sec_nonce, &c.initial_sec_key, &c.initial_sec_nonce),
			(&c.output_ids, &c.input_ids, c.amount, &c.fee, &c.payment_proof_derivation_index, &c.calculated_excess),
			c.late_lock_args.as_ref().map(|a| (
				(&a.src_acct_name, a.amount, &a.amount_includes_fee, a.minimum_confirmations, a.max_outputs, a.num_change_outputs),
				(a.selection_strategy_is_use_all, &a.target_slate_version, &a.ttl_blocks, &a.estimate_only, &a.late_lock),
				a.payment_proof_recipient_address.as_ref().map(|p| (p.hrp.clone(), p.pub_key.to_bytes())),
				a.send_args.as_ref().map(|s| (s.dest.clone(), s.post_tx, s.fluff, s.skip_tor)),
			)),
		)
	)
}

fn record_roundtrip<T>(out: &mut Outcome, name: &str, x: &T, canon: fn(&T) -> String)
where
	T: gser::Writeable + gser::Readable + serde::Serialize + serde::de::DeserializeOwned,
{
	let want = canon(x);
	let want_v = serde_json::to_value(x).ok();
	let check = |out: &mut Outcome, how: &str, back: Result<T, String>| match back {
		Ok(b) => {
			let got = canon(&b);
			if got != want {
				let pos = want.bytes().zip(got.bytes()).position(|(a, b)| a != b).unwrap_or(0);
				let from = pos.saturating_sub(80);
				out.fail(
					format!("c08:record:{}:{}-differs", name, how),
					format!("..{}.. became ..{}..", &want[from..(pos + 60).min(want.len())], &got[from..(pos + 60).min(got.len())]),
				);
			} else if serde_json::to_value(&b).ok() != want_v {
				out.fail(format!("c08:record:{}:{}-json-value-differs", name, how), "serde_json::Value of the decoded record differs".to_string());
			}
		}
		Err(e) => {
			let sig = if e.contains("too large read") {
				format!("c08:record:{}:too-large-to-read-back", name)
			} else {
				format!("c08:record:{}:{}-codec-error", name, how)
			};
			out.fail(sig, e);
		}
	};
	let r = guard(|| -> Result<T, String> {
		let bytes = gser::ser_vec(x, gser::ProtocolVersion(1)).map_err(|e| format!("ser_vec: {:?}", e))?;
		let n = bytes.len();
		gser::deserialize(&mut &bytes[..], gser::ProtocolVersion(1), gser::DeserializationMode::default())
			.map_err(|e| format!("deserialize ({} bytes): {}", n, e))
	});
	match r {
		Ok(r) => check(out, "ser", r),
		Err(f) => out.fails.push(f),
	}
	let r = guard(|| -> Result<T, String> {
		let j = serde_json::to_string(x).map_err(|e| format!("to_string: {}", e))?;
		serde_json::from_str(&j).map_err(|e| format!("from_str: {} in {:.200}", e, j))
	});
	match r {
		Ok(r) => check(out, "json", r),
		Err(f) => out.fails.push(f),
	}
}

pub struct C08Misc;

impl C08Misc {
	pub fn new(_args: &Args) -> C08Misc {
		C08Misc
	}
}

impl Prop for C08Misc {
	type Case = MiscCase;
	fn id(&self) -> &'static str {
		"C08"
	}
	fn part(&self) -> &'static str {
		"misc"
	}
	fn cases(&self, tier: Tier) -> u64 {
		tier.pick(16_000, 320_000)
	}
	fn strategy(&self, tier: Tier) -> BoxedStrategy<MiscCase> {
		misc_strategy(tier.pick(300, 2_500))
	}
	fn rule(&self) -> String {
		"SlatepackAddress (ed25519 key from 32 generated bytes x hrp grin/tgrin): bech32 string, Display, serde JSON, binary Writeable/Readable, encoded_len, onion conversion; OnionV3Address (32 generated bytes): hex, base32, upper-case base32, http://, https:// and bare .onion forms, serde JSON; OutputData, TxLogEntry (timestamps with nanoseconds, durations in whole seconds), Context (0..300 inputs/outputs, thorough 0..2500; optional late-lock InitTxArgs) through ser_vec/deserialize and serde_json: decode(encode(x)) == x by Debug form and serde_json::Value (OutputData also by PartialEq); every case is non-trivial; distinct by case hash".into()
	}
	fn assumptions(&self) -> Vec<String> {
		vec![
			"timestamps lie between 1970 and 2106; reverted_after is a whole number of seconds (the record format stores seconds by design)".into(),
			"identifiers have depth 0..4; secret keys are valid secp256k1 scalars".into(),
		]
	}
	fn run(&mut self, c: &MiscCase) -> Outcome {
		let mut out = Outcome::default();
		out.nontrivial = true;
		global::set_local_chain_type(if c.mainnet { ChainTypes::Mainnet } else { ChainTypes::Testnet });
		// --- slatepack address
		let hrp = if c.mainnet { "grin" } else { "tgrin" };
		out.class(format!("hrp={}", hrp));
		let addr = SlatepackAddress { hrp: hrp.to_string(), pub_key: ed_pk("addr", c.addr_seed) };
		let r = guard(|| -> Result<(), (String, String)> {
			let f = |a: &str, b: String| (format!("c08:address:{}", a), b);
			let s = String::try_from(&addr).map_err(|e| f("encode", format!("{}", e)))?;
			if !s.starts_with(&format!("{}1", hrp)) || s != s.to_lowercase() {
				return Err(f("form", format!("unexpected address form {}", s)));
			}
			let back = SlatepackAddress::try_from(s.as_str()).map_err(|e| f("decode", format!("{}: {}", s, e)))?;
			if back != addr {
				return Err(f("string-roundtrip", format!("{} decodes to {:?}", s, back)));
			}
			if format!("{}", addr) != s {
				return Err(f("display", "Display differs from String::try_from".into()));
			}
			if addr.encoded_len().map_err(|e| f("encoded_len", format!("{}", e)))? != s.len() + 1 {
				return Err(f("encoded_len", "encoded_len != string length + 1".into()));
			}
			let j = serde_json::to_string(&addr).map_err(|e| f("json", format!("{}", e)))?;
			let back: SlatepackAddress = serde_json::from_str(&j).map_err(|e| f("json", format!("{}", e)))?;
			if back != addr || j != format!("\"{}\"", s) {
				return Err(f("json-roundtrip", format!("{} -> {:?}", j, back)));
			}
			let bytes = gser::ser_vec(&addr, gser::ProtocolVersion(1)).map_err(|e| f("bin", format!("{:?}", e)))?;
			let back: SlatepackAddress = gser::deserialize(&mut &bytes[..], gser::ProtocolVersion(1), gser::DeserializationMode::default())
				.map_err(|e| f("bin", format!("{:?}", e)))?;
			if back != addr || bytes.len() != s.len() + 1 {
				return Err(f("bin-roundtrip", format!("{:?}", back)));
			}
			let onion = OnionV3Address::from(&addr);
			if onion.as_bytes() != addr.pub_key.as_bytes() {
				return Err(f("onion", "onion address of a slatepack address is not its key".into()));
			}
			let back = SlatepackAddress::try_from(onion).map_err(|e| f("onion", format!("{}", e)))?;
			if back != addr {
				return Err(f("onion-roundtrip", format!("{:?}", back)));
			}
			Ok(())
		});
		match r {
			Ok(Ok(())) => {}
			Ok(Err((sig, d))) => out.fail(sig, d),
			Err(f) => out.fails.push(f),
		}
		// --- onion address
		let ob = h32("onion", c.onion_seed);
		let onion = OnionV3Address::from_bytes(ob);
		let r = guard(|| -> Vec<(String, String)> {
			let mut bad = vec![];
			let b32 = onion.to_ov3_str();
			if b32.len() != 56 || b32 != b32.to_lowercase() || format!("{}", onion) != b32 || onion.to_http_str() != format!("http://{}.onion", b32) {
				bad.push(("c08:onion:form".to_string(), format!("unexpected forms {} / {}", b32, onion.to_http_str())));
			}
			let forms = vec![
				("hex", ob.to_vec().to_hex()),
				("base32", b32.clone()),
				("base32-upper", b32.to_uppercase()),
				("http", onion.to_http_str()),
				("https", format!("https://{}.onion", b32)),
				("dot-onion", format!("{}.onion", b32)),
			];
			for (n, f) in forms {
				match OnionV3Address::try_from(f.as_str()) {
					Ok(a) if a == onion && a.as_bytes() == &ob => {}
					Ok(a) => bad.push((format!("c08:onion:{}-roundtrip", n), format!("{} decodes to {:?}", f, a))),
					Err(e) => bad.push((format!("c08:onion:{}-decode", n), format!("{}: {:?}", f, e))),
				}
			}
			match serde_json::to_string(&onion).map_err(|e| e.to_string()).and_then(|j| serde_json::from_str::<OnionV3Address>(&j).map_err(|e| e.to_string())) {
				Ok(a) if a == onion => {}
				other => bad.push(("c08:onion:json-roundtrip".to_string(), format!("{:?}", other))),
			}
			bad
		});
		match r {
			Ok(bad) => {
				for (s, d) in bad {
					out.fail(s, d);
				}
			}
			Err(f) => out.fails.push(f),
		}
		// --- records
		let o = mk_output(&c.out);
		record_roundtrip(&mut out, "output", &o, canon_out);
		if let Ok(b) = gser::ser_vec(&o, gser::ProtocolVersion(1)) {
			if let Ok(back) = gser::deserialize::<OutputData, _>(&mut &b[..], gser::ProtocolVersion(1), gser::DeserializationMode::default()) {
				if back != o {
					out.fail("c08:record:output:ser-differs", "PartialEq: decoded OutputData != original".to_string());
				}
			}
		}
		let t = mk_tx(&c.tx);
		record_roundtrip(&mut out, "txlog", &t, canon_tx);
		let x = mk_ctx(&c.ctx);
		record_roundtrip(&mut out, "context", &x, canon_ctx);
		let n = c.ctx.ins.len() + c.ctx.outs.len();
		out.class(match n {
			0 => "ctx-entries=0",
			1..=8 => "ctx-entries=1..8",
			9..=300 => "ctx-entries=9..300",
			301..=600 => "ctx-entries=301..600",
			_ => "ctx-entries>600",
		});
		if c.ctx.late.is_some() {
			out.class("ctx-late-lock-args");
		}
		if c.tx.proof.is_some() {
			out.class("txlog-proof");
		}
		if c.tx.reverted_after.is_some() {
			out.class("txlog-reverted-after");
		}
		out.class(format!("txlog-type={}", c.tx.ty));
		out.class(format!("output-status={}", c.out.status));
		out
	}
}

// ---------------------------------------------------------------------------------------------

pub fn run(args: &Args, rep: &mut Report) {
	let want = |p: &str| args.part.as_deref().map(|x| x == p).unwrap_or(true);
	if want("slate") {
		run_part(&mut C08Slate::new(args), args, rep);
	}
	if want("complete") {
		run_part(&mut C08Complete::new(args), args, rep);
	}
	if want("misc") {
		run_part(&mut C08Misc::new(args), args, rep);
	}
}

pub fn replay(args: &Args, part: &str, case: &serde_json::Value) -> Result<Outcome, String> {
	match part {
		"slate" => replay_part(&mut C08Slate::new(args), case),
		"complete" => replay_part(&mut C08Complete::new(args), case),
		"misc" => replay_part(&mut C08Misc::new(args), case),
		_ => Err(format!("unknown part {}", part)),
	}
}
