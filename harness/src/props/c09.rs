//! C09 - decoding untrusted input never crashes the wallet.
//!
//! Structured-mutation check. Valid encodings (seeds) are produced by the repo's own encoders from a
//! few structurally generated slates; each case applies a generated mutation and feeds the result to
//! every entry point that accepts that kind of input. Oracle: each call returns Ok or Err without
//! unwinding; entry points holding a wallet leave its full raw state unchanged when they return Err.
//!
//! Parts: msg (slatepack messages/files), enc (valid age ciphertexts with malformed plaintext),
//! json (V4 slate JSON), bin (binary slate / slatepack), addr (slatepack + onion addresses),
//! proof (payment proof JSON), rpc (JSON-RPC bodies on both listeners).

pub mod mutate;
pub mod seeds;

mod parts;

use crate::node::DirectNode;
use crate::rt::*;
use crate::snap;
use crate::world::{self, Wal, LC};
use ed25519_dalek::SecretKey as DalekSecretKey;
use grin_api::Handler;
use grin_keychain::ExtKeychain;
use grin_util::secp::key::SecretKey;
use grin_util::Mutex;
use grin_wallet_controller::controller::{ForeignAPIHandlerV2, OwnerAPIHandlerV3};
use grin_wallet_libwallet::{Slatepacker, SlatepackerArgs};
use hyper::{Body, Request};
use serde_json::Value;
use std::path::PathBuf;
use std::sync::Arc;

pub use parts::{replay, run};

/// Canonical, input-independent form of a panic signature.
pub fn canon_sig(sig: &str) -> String {
	let mut s = sig.to_string();
	for cut in &["; it is inside", " of `", ": Error(\"", " `\"", "Char('"] {
		if let Some(i) = s.find(cut) {
			s.truncate(i);
		}
	}
	// unwrap() of an Err carrying the offending string: keep the kind, drop the data
	if let Some(i) = s.find("value: \"") {
		s.truncate(i + 6);
		s.push_str(" <string>");
	}
	if let Some(i) = s.find("/rustc/") {
		// std location: drop the toolchain hash
		let rest = &s[i + 7..];
		if let Some(j) = rest.find('/') {
			s = format!("{}rustc/{}", &s[..i], &rest[j + 1..]);
		}
	}
	s.truncate(110);
	s
}

pub struct Handlers {
	pub owner: OwnerAPIHandlerV3<LC, DirectNode, ExtKeychain>,
	pub foreign: ForeignAPIHandlerV2<LC, DirectNode, ExtKeychain>,
}

/// Wallet fixture: a real LMDB wallet (fixed seed) on a synthetic node, resettable to its base state.
pub struct Fixture {
	pub scratch: PathBuf,
	base: PathBuf,
	live: PathBuf,
	pub node: DirectNode,
	pub wal: Option<Wal>,
	pub handlers: Option<Handlers>,
	pub keys: Vec<DalekSecretKey>,
	pub seeds: seeds::Seeds,
	/// raw bytes of data.mdb in the clean state + stored files listing + deep snapshot
	clean_db: Vec<u8>,
	clean_files: Value,
	clean_deep: Value,
	pub resets: u64,
	pub shared_key: SecretKey,
	file_n: u64,
}

impl Fixture {
	pub fn new(args: &Args, tag: &str) -> Fixture {
		world::init_globals();
		let base = args.scratch.join(format!("c09.{}.base", tag));
		let live = args.scratch.join(format!("c09.{}.live", tag));
		let _ = std::fs::remove_dir_all(&base);
		let node = DirectNode::new(None);
		let phrase = seeds::mnemonic();
		let keys: Vec<DalekSecretKey> = {
			node.with(|s| s.fake_height = 10);
			let w = world::create_wallet(&base, "w", node.clone(), Some(&phrase), "", false).expect("c09 wallet");
			// bring the books up to date at this (never changing) tip: later embedded refreshes are no-ops
			w.owner.retrieve_summary_info(w.m(), true, 1).expect("initial refresh");
			w.owner.retrieve_txs(w.m(), true, None, None, None).expect("initial refresh (txs)");
			(0..3u32).map(|i| w.owner.get_slatepack_secret_key(w.m(), i).expect("slatepack key")).collect()
		};
		let seeds = seeds::build(&keys);
		node.with(|s| {
			s.fake_height = 10;
			for (i, e) in seeds.proof_excess.iter().enumerate() {
				if i < 2 {
					s.fake_kernels.insert(*e, 5);
				}
			}
		});
		let shared_key = seeds::sk(99);
		let mut f = Fixture {
			scratch: args.scratch.clone(),
			base,
			live,
			node,
			wal: None,
			handlers: None,
			keys,
			seeds,
			clean_db: vec![],
			clean_files: Value::Null,
			clean_deep: Value::Null,
			resets: 0,
			shared_key,
			file_n: 0,
		};
		f.reset().expect("c09 fixture reset");
		f.resets = 0;
		// self-check of the hand-made passphrase-type age file: must parse as such
		match age::Decryptor::new(&f.seeds.scrypt_age[..]) {
			Ok(age::Decryptor::Passphrase(_)) => {}
			Ok(_) => panic!("c09 setup: scrypt age seed parsed as a recipients file"),
			Err(e) => panic!("c09 setup: scrypt age seed does not parse: {:?}", e),
		}
		f
	}

	/// Drop the live wallet, restore the base directory, re-open, rebuild the listeners' handlers.
	pub fn reset(&mut self) -> Result<(), String> {
		self.handlers = None;
		self.wal = None;
		let _ = std::fs::remove_dir_all(&self.live);
		world::copy_tree(&self.base, &self.live).map_err(|e| e.to_string())?;
		let w = world::open_wallet(&self.live, "w", self.node.clone(), "", false)?;
		let owner = OwnerAPIHandlerV3::new(w.inst.clone(), Arc::new(Mutex::new(None)), None, false);
		let foreign = ForeignAPIHandlerV2::new(w.inst.clone(), Arc::new(Mutex::new(None)), false, Mutex::new(None));
		self.clean_db = std::fs::read(w.db_file()).map_err(|e| e.to_string())?;
		self.clean_files = snap::stored_files(&w.data_dir());
		self.clean_deep = snap::deep(&w, &self.scratch)?;
		self.wal = Some(w);
		self.handlers = Some(Handlers { owner, foreign });
		self.resets += 1;
		Ok(())
	}

	pub fn wal(&self) -> &Wal {
		self.wal.as_ref().unwrap()
	}

	/// Compare the wallet's persistent state with the clean state. `any_ok`: some wallet call of this case
	/// returned Ok (then a change is legitimate). Returns a description of an illegitimate change.
	pub fn check_state(&mut self, out: &mut Outcome, any_ok: bool, tag: &str, what: &str) {
		let (db, files) = {
			let w = self.wal();
			(std::fs::read(w.db_file()).unwrap_or_default(), snap::stored_files(&w.data_dir()))
		};
		if db == self.clean_db && files == self.clean_files {
			return;
		}
		let now = match snap::deep(self.wal(), &self.scratch) {
			Ok(v) => v,
			Err(e) => {
				out.fail("c09:harness-error", format!("deep snapshot failed: {}", e));
				return;
			}
		};
		let d_all = snap::diff(&self.clean_deep, &now);
		if d_all.is_empty() {
			// file bytes changed without any logical change (e.g. an empty write transaction)
			self.clean_db = db;
			out.class("state:bytes-only-change");
			return;
		}
		let d = snap::diff_filtered(&self.clean_deep, &now, &['d']);
		if !any_ok {
			if d.is_empty() {
				// only key-derivation counters moved: not counted as wallet state by this check
				out.class("state:err-bumped-key-index");
			} else {
				out.fail(
					format!("c09:rejected-input-changed-state:{}", tag),
					format!("{} returned an error but the wallet state changed: {:?}", what, d.iter().take(6).collect::<Vec<_>>()),
				);
			}
		} else {
			out.class("state:changed-by-accepted-input");
		}
		if let Err(e) = self.reset() {
			out.fail("c09:harness-error", format!("reset failed: {}", e));
		}
	}

	pub fn packer<'a>(key: Option<&'a DalekSecretKey>) -> Slatepacker<'a> {
		Slatepacker::new(SlatepackerArgs {
			sender: None,
			recipients: vec![],
			dec_key: key,
		})
	}

	pub fn tmp_file(&mut self, data: &[u8]) -> PathBuf {
		self.file_n += 1;
		let p = self.scratch.join(format!("c09.in.{}", self.file_n % 4));
		std::fs::write(&p, data).expect("write input file");
		p
	}

	/// POST a body to a listener's handler; returns (http status, parsed JSON if any).
	pub fn post(&self, owner: bool, body: Vec<u8>) -> (u16, Option<Value>) {
		let req = Request::post("http://127.0.0.1/v3/owner").body(Body::from(body)).unwrap();
		let h = self.handlers.as_ref().unwrap();
		let fut = if owner { h.owner.post(req) } else { h.foreign.post(req) };
		let resp = futures::executor::block_on(fut).expect("handler future is infallible");
		let status = resp.status().as_u16();
		let bytes = futures::executor::block_on(hyper::body::to_bytes(resp.into_body())).unwrap_or_default();
		(status, serde_json::from_slice(&bytes).ok())
	}

	pub fn set_session_key(&self) {
		let h = self.handlers.as_ref().unwrap();
		*h.owner.shared_key.lock() = Some(self.shared_key.clone());
	}

	pub fn clear_session_key(&self) {
		let h = self.handlers.as_ref().unwrap();
		*h.owner.shared_key.lock() = None;
	}
}

/// AES-256-GCM envelope exactly as the owner listener expects it, around arbitrary plaintext bytes.
pub fn encrypt_envelope(key: &SecretKey, plain: &[u8], nonce: [u8; 12]) -> Value {
	use ring::aead;
	let mut buf = plain.to_vec();
	let unbound = aead::UnboundKey::new(&aead::AES_256_GCM, &key.0).unwrap();
	let sealing = aead::LessSafeKey::new(unbound);
	sealing
		.seal_in_place_append_tag(aead::Nonce::assume_unique_for_key(nonce), aead::Aad::from(&[]), &mut buf)
		.unwrap();
	serde_json::json!({
		"jsonrpc": "2.0",
		"method": "encrypted_request_v3",
		"id": 1,
		"params": {"nonce": grin_util::ToHex::to_hex(&nonce.to_vec()), "body_enc": base64::encode(&buf)}
	})
}

pub fn decrypt_envelope(key: &SecretKey, resp: &Value) -> Option<Value> {
	use ring::aead;
	let nonce = grin_util::from_hex(resp["result"]["Ok"]["nonce"].as_str()?).ok()?;
	let mut body = base64::decode(resp["result"]["Ok"]["body_enc"].as_str()?).ok()?;
	if nonce.len() != 12 {
		return None;
	}
	let mut n = [0u8; 12];
	n.copy_from_slice(&nonce);
	let unbound = aead::UnboundKey::new(&aead::AES_256_GCM, &key.0).ok()?;
	let opening = aead::LessSafeKey::new(unbound);
	let plain = opening
		.open_in_place(aead::Nonce::assume_unique_for_key(n), aead::Aad::from(&[]), &mut body)
		.ok()?;
	serde_json::from_slice(plain).ok()
}

thread_local! {
	/// per entry point: (calls, total microseconds) - reported as evidence only, never used by an oracle
	pub static EP_STATS: std::cell::RefCell<std::collections::BTreeMap<String, (u64, u64)>> = std::cell::RefCell::new(Default::default());
}

/// Run one entry-point call under the panic guard; records class `<ep>:ok|err|panic`.
/// Returns Some(true) for Ok, Some(false) for Err, None for a panic.
pub fn call<T, E: std::fmt::Debug>(
	out: &mut Outcome,
	ep: &str,
	input: &dyn Fn() -> String,
	f: impl FnOnce() -> Result<T, E>,
) -> Option<Result<T, E>> {
	let t0 = std::time::Instant::now();
	let g = guard(f);
	let dt = t0.elapsed().as_micros() as u64;
	EP_STATS.with(|m| {
		let mut m = m.borrow_mut();
		let e = m.entry(ep.to_string()).or_insert((0, 0));
		e.0 += 1;
		e.1 += dt;
	});
	match g {
		Ok(r) => {
			out.class(format!("{}:{}", ep, if r.is_ok() { "ok" } else { "err" }));
			Some(r)
		}
		Err(fl) => {
			out.class(format!("{}:panic", ep));
			out.fail(canon_sig(&fl.sig), format!("entry point {}: {} ; input: {}", ep, fl.detail, input()));
			None
		}
	}
}

/// variant name of an error's Debug form (text before the first '(' or '{' or ' ')
pub fn variant<E: std::fmt::Debug>(e: &E) -> String {
	let s = format!("{:?}", e);
	let end = s.find(|c| c == '(' || c == '{' || c == ' ').unwrap_or(s.len());
	s[..end].to_string()
}
