//! Structured mutators for C09: JSON single-field mutations, binary edits, text edits.
//! All parameters are plain integers mapped with `rt::idx`, so every value is applicable and
//! shrinking moves towards "first node / first op / smallest argument".

use crate::rt::idx;
use proptest::prelude::*;
use serde_derive::{Deserialize, Serialize};
use serde_json::{Map, Value};

pub const BOUNDARY_U64: [u64; 12] = [
	0,
	1,
	2,
	255,
	256,
	65535,
	65536,
	1u64 << 32,
	(1u64 << 40) - 1,
	1u64 << 40,
	1u64 << 63,
	u64::MAX,
];

/// Raw JSON tokens (not necessarily canonical) substituted textually.
pub const RAW_TOKENS: [&str; 22] = [
	"18446744073709551615",
	"18446744073709551616",
	"-1",
	"-0",
	"1.5",
	"1e3",
	"1E400",
	"0.0",
	"1e-1",
	"99999999999999999999999999999999999999",
	"4294967296",
	"1099511627776",
	"9223372036854775808",
	"256",
	"65536",
	"-9223372036854775809",
	"\"\\u0000\"",
	"\"\\ud800\"",
	"[[[[[[[[[[[[[[[[]]]]]]]]]]]]]]]]",
	"{\"a\":{\"a\":{\"a\":{\"a\":{}}}}}",
	"00",
	"0x10",
];

const HEX_LENS: [usize; 16] = [2, 8, 30, 32, 62, 63, 64, 65, 66, 68, 126, 128, 130, 132, 1350, 1352];

const B64_STRS: [&str; 14] = [
	"A",
	"AA",
	"AAA",
	"AAAA",
	"AA==",
	"=",
	"====",
	"AAAAAAAAAAAAAAAAAAAAAA==",
	"AAAAAAAAAAAAAAAAAAAAAAAAAAAAAAAAAAAAAAAAAAA=",
	"AAAAAAAAAAAAAAAAAAAAAAAAAAAAAAAAAAAAAAAAAA",
	"AAAAAAAAAAAAAAAAAAAAAAAAAAAAAAAAAAAAAAAAAAAAAAAAAAAAAAAAAAAAAAAAAAAAAAAAAAAAAAAAAAAAAAAAAA==",
	"!!!!",
	"AAAA\n",
	"-_-_",
];

const NUM_STRS: [&str; 12] = [
	"0",
	"1",
	"-1",
	"18446744073709551615",
	"18446744073709551616",
	" 1",
	"1 ",
	"+1",
	"1.0",
	"1e3",
	"0x1",
	"٣",
];

const MISC_STRS: [&str; 16] = [
	"4:3",
	"4:",
	":",
	"65536:3",
	"4:3:2",
	"S1",
	"S4",
	"NA",
	"0436430c-2b02-624c-2032-570501212b00",
	"0436430c2b02624c2032570501212b00",
	"0436430c-2b02-624c-2032-570501212b0",
	"tgrin1xtxavwfgs48ckf3gk8wwgcndmn0nt4tvkl8a7ltyejjcy2mc6nfs9gm2lp",
	"grin1xtxavwfgs48ckf3gk8wwgcndmn0nt4tvkl8a7ltyejjcy2mc6nfskdvkdu",
	"2a6at2obto3uvkpkitqp4wxcg6u36qf534eucbskqciturczzc5suyid",
	"1.0",
	"255.255",
];

#[derive(Clone, Debug, Serialize, Deserialize)]
pub struct JMut {
	pub node: u16,
	pub op: u16,
	pub arg: u16,
}

pub fn jmut_strategy() -> BoxedStrategy<JMut> {
	(any::<u16>(), any::<u16>(), any::<u16>())
		.prop_map(|(node, op, arg)| JMut { node, op, arg })
		.boxed()
}

#[derive(Clone, Debug)]
pub enum Seg {
	Key(String),
	Idx(usize),
}

pub fn paths(v: &Value) -> Vec<Vec<Seg>> {
	fn rec(v: &Value, cur: &mut Vec<Seg>, out: &mut Vec<Vec<Seg>>) {
		match v {
			Value::Object(m) => {
				for (k, c) in m {
					cur.push(Seg::Key(k.clone()));
					out.push(cur.clone());
					rec(c, cur, out);
					cur.pop();
				}
			}
			Value::Array(a) => {
				for (i, c) in a.iter().enumerate() {
					cur.push(Seg::Idx(i));
					out.push(cur.clone());
					rec(c, cur, out);
					cur.pop();
				}
			}
			_ => {}
		}
	}
	let mut out = vec![];
	rec(v, &mut vec![], &mut out);
	out
}

pub fn path_string(p: &[Seg]) -> String {
	let mut s = String::new();
	for seg in p {
		match seg {
			Seg::Key(k) => {
				s.push('.');
				s.push_str(k);
			}
			// array positions are collapsed: classes are per field, not per element
			Seg::Idx(_) => s.push_str("[]"),
		}
	}
	s
}

fn get_mut<'a>(v: &'a mut Value, p: &[Seg]) -> Option<&'a mut Value> {
	let mut cur = v;
	for seg in p {
		cur = match seg {
			Seg::Key(k) => cur.get_mut(k.as_str())?,
			Seg::Idx(i) => cur.get_mut(*i)?,
		};
	}
	Some(cur)
}

fn floor_char(s: &str, mut i: usize) -> usize {
	if i > s.len() {
		i = s.len();
	}
	while i > 0 && !s.is_char_boundary(i) {
		i -= 1;
	}
	i
}

fn hex_of_len(n: usize, arg: u16) -> String {
	let digits = b"0123456789abcdef";
	(0..n).map(|i| digits[(i * 7 + arg as usize) % 16] as char).collect()
}

const N_STR_OPS: usize = 24;
const N_ANY_OPS: usize = 13;

/// number of distinct ops applicable to a node of this type
pub fn n_ops(v: &Value) -> usize {
	match v {
		Value::String(_) => N_ANY_OPS + N_STR_OPS,
		Value::Array(_) => N_ANY_OPS + 4,
		Value::Object(_) => N_ANY_OPS + 3,
		_ => N_ANY_OPS,
	}
}

const RAW_MARK: &str = "@@C09RAW@@";
const DUP_MARK: &str = "@@C09DUP@@";

/// Result of a JSON mutation: the text and a description "<path>:<op>".
pub struct JOut {
	pub text: String,
	pub what: String,
}

/// Apply mutations in order (each chosen against the tree as it is at that point).
pub fn apply_jmuts(seed: &Value, muts: &[JMut], exclude: &dyn Fn(&[Seg]) -> bool) -> JOut {
	let mut v = seed.clone();
	let mut raw: Option<String> = None;
	let mut dup: Option<String> = None;
	let mut what = vec![];
	for m in muts {
		let ps: Vec<Vec<Seg>> = paths(&v).into_iter().filter(|p| !exclude(p)).collect();
		if ps.is_empty() {
			break;
		}
		let p = ps[idx(m.node, ps.len())].clone();
		let (parent_path, last) = p.split_at(p.len() - 1);
		let last = last[0].clone();
		let node = get_mut(&mut v, &p).unwrap().clone();
		let nops = n_ops(&node);
		let op = idx(m.op, nops);
		let mut name = format!("any{}", op);
		let mut new: Option<Value> = None; // replacement
		let mut remove = false;
		if op < N_ANY_OPS {
			match op {
				0 => {
					remove = true;
					name = "remove".into();
				}
				1 => {
					new = Some(Value::Null);
					name = "null".into();
				}
				2 => {
					new = Some(Value::Bool(m.arg & 1 == 1));
					name = "bool".into();
				}
				3 => {
					if raw.is_none() {
						raw = Some(RAW_TOKENS[idx(m.arg, RAW_TOKENS.len())].to_string());
						new = Some(Value::String(RAW_MARK.into()));
					} else {
						new = Some(Value::from(u64::MAX));
					}
					name = format!("raw{}", idx(m.arg, RAW_TOKENS.len()));
				}
				4 => {
					new = Some(Value::from(BOUNDARY_U64[idx(m.arg, BOUNDARY_U64.len())]));
					name = "boundary-int".into();
				}
				5 => {
					new = Some(Value::String(BOUNDARY_U64[idx(m.arg, BOUNDARY_U64.len())].to_string()));
					name = "boundary-int-string".into();
				}
				6 => {
					new = Some(Value::Array(vec![]));
					name = "empty-array".into();
				}
				7 => {
					new = Some(Value::Object(Map::new()));
					name = "empty-object".into();
				}
				8 => {
					new = Some(Value::Array(vec![node.clone()]));
					name = "wrap-array".into();
				}
				9 => {
					// number <-> string
					name = "num-str-flip".into();
					new = Some(match &node {
						Value::Number(n) => Value::String(n.to_string()),
						Value::String(s) => match s.parse::<u64>() {
							Ok(n) => Value::from(n),
							Err(_) => Value::from(0u64),
						},
						Value::Bool(b) => Value::String(b.to_string()),
						_ => Value::String("0".into()),
					});
				}
				10 => {
					// swap with the value of a sibling (type confusion among valid values)
					name = "sibling-value".into();
					let parent = get_mut(&mut v, parent_path).unwrap();
					let sib: Option<Value> = match parent {
						Value::Object(mm) => {
							let vals: Vec<&Value> = mm.values().collect();
							Some(vals[idx(m.arg, vals.len())].clone())
						}
						Value::Array(a) => Some(a[idx(m.arg, a.len())].clone()),
						_ => None,
					};
					new = sib;
				}
				11 => {
					new = Some(Value::String(String::new()));
					name = "empty-string".into();
				}
				_ => {
					new = Some(Value::from(-(1i64 + (m.arg as i64 % 3))));
					name = "negative-int".into();
				}
			}
		} else {
			match &node {
				Value::String(s) => {
					let sop = op - N_ANY_OPS;
					name = format!("str{}", sop);
					let n = s.len();
					let at = floor_char(s, idx(m.arg, n.max(1)));
					let next = {
						let mut j = at + 1;
						while j < n && !s.is_char_boundary(j) {
							j += 1;
						}
						j.min(n)
					};
					let next2 = {
						let mut j = next + 1;
						while j < n && !s.is_char_boundary(j) {
							j += 1;
						}
						j.min(n)
					};
					let r: String = match sop {
						0 => s[..floor_char(s, idx(m.arg, n + 1))].to_string(),
						1 => s[..floor_char(s, n.saturating_sub(1))].to_string(),
						2 => format!("{}0", s),
						3 => format!("{}00", s),
						4 => format!("{}zz", s),
						5 => format!("{}g{}", &s[..at], &s[next..]),
						6 => format!("{}\u{e9}{}", &s[..at], &s[next..]),
						// two ASCII chars replaced by one 2-byte char: byte length (and parity) unchanged
						7 => format!("{}\u{e9}{}", &s[..at], &s[next2..]),
						8 => s.to_uppercase(),
						9 => format!("0x{}", s),
						10 => format!("{}{}", s, s),
						11 => {
							let mut r = String::new();
							let unit = if s.is_empty() { "00" } else { s.as_str() };
							while r.len() < 4096 {
								r.push_str(unit);
							}
							r
						}
						12 => format!(" {} ", s),
						13 => hex_of_len(HEX_LENS[idx(m.arg, HEX_LENS.len())], m.arg),
						14 => B64_STRS[idx(m.arg, B64_STRS.len())].to_string(),
						15 => NUM_STRS[idx(m.arg, NUM_STRS.len())].to_string(),
						16 => MISC_STRS[idx(m.arg, MISC_STRS.len())].to_string(),
						17 => {
							// change one hex digit / char to another valid one (stays syntactically valid)
							let c = s[at..next].chars().next().unwrap_or('0');
							let d = match c {
								'0'..='8' => ((c as u8) + 1) as char,
								'9' => 'a',
								'a'..='e' => ((c as u8) + 1) as char,
								'f' => '0',
								'A'..='Y' => ((c as u8) + 1) as char,
								_ => '1',
							};
							format!("{}{}{}", &s[..at], d, &s[next..])
						}
						18 => format!("{}\u{0}{}", &s[..at], &s[at..]),
						// three ASCII chars replaced by one 3-byte char
						19 => {
							let e = (at + 3).min(n);
							let e = floor_char(s, e);
							format!("{}\u{20ac}{}", &s[..at], &s[e..])
						}
						20 => format!("{}{}", &s[..at], &s[next..]),
						21 => "\u{e9}\u{e9}".to_string(),
						22 => format!("{}\u{e9}\u{e9}", &s[..floor_char(s, n.saturating_sub(4))]),
						_ => s.chars().rev().collect(),
					};
					new = Some(Value::String(r));
				}
				Value::Array(a) => {
					let aop = op - N_ANY_OPS;
					name = format!("arr{}", aop);
					let mut a2 = a.clone();
					match aop {
						0 => {
							if !a2.is_empty() {
								let e = a2[idx(m.arg, a2.len())].clone();
								a2.push(e);
							}
						}
						1 => {
							// many copies (over the u8 / small count limits); bounded by size
							if !a2.is_empty() {
								let e = a2[0].clone();
								let sz = e.to_string().len().max(1);
								let copies = std::cmp::min(300, 40_000 / sz);
								for _ in 0..copies {
									a2.push(e.clone());
								}
							}
						}
						2 => {
							a2.truncate(idx(m.arg, a2.len()));
						}
						_ => a2.reverse(),
					}
					new = Some(Value::Array(a2));
				}
				Value::Object(mm) => {
					let oop = op - N_ANY_OPS;
					name = format!("obj{}", oop);
					let mut m2 = mm.clone();
					match oop {
						0 => {
							m2.insert("zz_unknown".into(), Value::from(1u64));
						}
						1 => {
							if dup.is_none() {
								if let Some((k, val)) = mm.iter().nth(idx(m.arg, mm.len())) {
									dup = Some(k.clone());
									m2.insert(DUP_MARK.into(), val.clone());
								}
							}
						}
						_ => {
							// all members null
							for (_, val) in m2.iter_mut() {
								*val = Value::Null;
							}
						}
					}
					new = Some(Value::Object(m2));
				}
				_ => {}
			}
		}
		what.push(format!("{}:{}", path_string(&p), name));
		if remove {
			let parent = get_mut(&mut v, parent_path).unwrap();
			match (parent, &last) {
				(Value::Object(mm), Seg::Key(k)) => {
					mm.remove(k.as_str());
				}
				(Value::Array(a), Seg::Idx(i)) => {
					a.remove(*i);
				}
				_ => {}
			}
		} else if let Some(nv) = new {
			*get_mut(&mut v, &p).unwrap() = nv;
		}
	}
	let mut text = serde_json::to_string(&v).unwrap_or_default();
	if let Some(r) = raw {
		text = text.replacen(&format!("\"{}\"", RAW_MARK), &r, 1);
	}
	if let Some(k) = dup {
		text = text.replacen(DUP_MARK, &k, 1);
	}
	JOut {
		text,
		what: what.join("+"),
	}
}

// ---------------------------------------------------------------------------------------------
// binary edits

pub const BOUNDARY_BE: [u64; 14] = [
	0,
	1,
	2,
	0x7f,
	0x80,
	0xff,
	0x100,
	0xffff,
	0x1_0000,
	0x7fff_ffff,
	0xffff_ffff,
	0x1_0000_0000,
	0x7fff_ffff_ffff_ffff,
	u64::MAX,
];

#[derive(Clone, Debug, Serialize, Deserialize)]
pub enum BMut {
	Trunc(u16),
	Append(Vec<u8>),
	Set { pos: u16, val: u8 },
	Flip { pos: u16, bit: u8 },
	Ins { pos: u16, bytes: Vec<u8> },
	Del { pos: u16, n: u8 },
	/// overwrite `width` bytes at pos with a big-endian boundary value
	SetBe { pos: u16, width: u8, val: u8 },
	/// same, relative adjustment of the existing big-endian value (+1 / -1 / *2 ...)
	AdjBe { pos: u16, width: u8, how: u8 },
	/// positions restricted to the first 96 bytes (headers, flags, length prefixes)
	HeadSet { pos: u8, val: u8 },
	HeadBe { pos: u8, width: u8, val: u8 },
	/// positions counted from the end (trailing optional structures)
	TailSet { back: u8, val: u8 },
}

pub fn bmut_strategy() -> BoxedStrategy<BMut> {
	let small = prop::collection::vec(any::<u8>(), 1..5);
	prop_oneof![
		3 => any::<u16>().prop_map(BMut::Trunc),
		2 => small.clone().prop_map(BMut::Append),
		3 => (any::<u16>(), byte_strategy()).prop_map(|(pos, val)| BMut::Set { pos, val }),
		2 => (any::<u16>(), 0u8..8).prop_map(|(pos, bit)| BMut::Flip { pos, bit }),
		1 => (any::<u16>(), small).prop_map(|(pos, bytes)| BMut::Ins { pos, bytes }),
		1 => (any::<u16>(), 1u8..9).prop_map(|(pos, n)| BMut::Del { pos, n }),
		2 => (any::<u16>(), width_strategy(), any::<u8>()).prop_map(|(pos, width, val)| BMut::SetBe { pos, width, val }),
		1 => (any::<u16>(), width_strategy(), 0u8..6).prop_map(|(pos, width, how)| BMut::AdjBe { pos, width, how }),
		4 => (0u8..96, byte_strategy()).prop_map(|(pos, val)| BMut::HeadSet { pos, val }),
		3 => (0u8..96, width_strategy(), any::<u8>()).prop_map(|(pos, width, val)| BMut::HeadBe { pos, width, val }),
		1 => (0u8..120, byte_strategy()).prop_map(|(back, val)| BMut::TailSet { back, val }),
	]
	.boxed()
}

pub fn byte_strategy() -> BoxedStrategy<u8> {
	prop_oneof![
		2 => Just(0u8), 1 => Just(1u8), 1 => Just(2u8), 1 => Just(3u8), 1 => Just(0x7fu8), 1 => Just(0x80u8),
		2 => Just(0xffu8), 4 => any::<u8>(),
	]
	.boxed()
}

fn width_strategy() -> BoxedStrategy<u8> {
	prop_oneof![Just(1u8), Just(2u8), Just(4u8), Just(8u8)].boxed()
}

fn write_be(b: &mut Vec<u8>, pos: usize, width: usize, v: u64) {
	for k in 0..width {
		if pos + k < b.len() {
			let shift = 8 * (width - 1 - k);
			b[pos + k] = ((v >> shift) & 0xff) as u8;
		}
	}
}

fn read_be(b: &[u8], pos: usize, width: usize) -> u64 {
	let mut v = 0u64;
	for k in 0..width {
		v <<= 8;
		if pos + k < b.len() {
			v |= b[pos + k] as u64;
		}
	}
	v
}

pub fn apply_bmuts(seed: &[u8], muts: &[BMut]) -> Vec<u8> {
	let mut b = seed.to_vec();
	for m in muts {
		match m {
			BMut::Trunc(l) => {
				let n = idx(*l, b.len() + 1);
				b.truncate(n);
			}
			BMut::Append(x) => b.extend_from_slice(x),
			BMut::Set { pos, val } => {
				if !b.is_empty() {
					let p = idx(*pos, b.len());
					b[p] = *val;
				}
			}
			BMut::Flip { pos, bit } => {
				if !b.is_empty() {
					let p = idx(*pos, b.len());
					b[p] ^= 1 << (bit % 8);
				}
			}
			BMut::Ins { pos, bytes } => {
				let p = idx(*pos, b.len() + 1);
				for (k, x) in bytes.iter().enumerate() {
					b.insert(p + k, *x);
				}
			}
			BMut::Del { pos, n } => {
				if !b.is_empty() {
					let p = idx(*pos, b.len());
					let e = std::cmp::min(b.len(), p + *n as usize);
					b.drain(p..e);
				}
			}
			BMut::SetBe { pos, width, val } => {
				if !b.is_empty() {
					let p = idx(*pos, b.len());
					let v = BOUNDARY_BE[(*val as usize) % BOUNDARY_BE.len()];
					write_be(&mut b, p, *width as usize, v);
				}
			}
			BMut::AdjBe { pos, width, how } => {
				if !b.is_empty() {
					let p = idx(*pos, b.len());
					let w = *width as usize;
					let cur = read_be(&b, p, w);
					let v = match how % 6 {
						0 => cur.wrapping_add(1),
						1 => cur.wrapping_sub(1),
						2 => cur.wrapping_mul(2),
						3 => cur / 2,
						4 => cur.wrapping_add(256),
						_ => !cur,
					};
					write_be(&mut b, p, w, v);
				}
			}
			BMut::HeadSet { pos, val } => {
				if (*pos as usize) < b.len() {
					b[*pos as usize] = *val;
				}
			}
			BMut::HeadBe { pos, width, val } => {
				let v = BOUNDARY_BE[(*val as usize) % BOUNDARY_BE.len()];
				write_be(&mut b, *pos as usize, *width as usize, v);
			}
			BMut::TailSet { back, val } => {
				if (*back as usize) < b.len() {
					let p = b.len() - 1 - *back as usize;
					b[p] = *val;
				}
			}
		}
	}
	b
}

// ---------------------------------------------------------------------------------------------
// text edits (armor, addresses)

pub const SNIPPETS: [&str; 26] = [
	" ", "\n", "\r\n", "\t", ">", "> ", ".", "..", ". ", "0", "O", "I", "l", "1", "z", "\u{e9}", "\u{0}", "BEGINSLATEPACK.", "ENDSLATEPACK.",
	". ENDSLATEPACK.", "BEGINSLATEPACK", "ENDSLATEPACK", "-", "_", "=", "b",
];

#[derive(Clone, Debug, Serialize, Deserialize)]
pub enum TEdit {
	Trunc(u16),
	Ins { pos: u16, s: u8 },
	Del { pos: u16, n: u8 },
	Rep { pos: u16, s: u8 },
	Upper,
	Lower,
	Dup,
}

pub fn tedit_strategy() -> BoxedStrategy<TEdit> {
	prop_oneof![
		3 => any::<u16>().prop_map(TEdit::Trunc),
		4 => (any::<u16>(), 0u8..SNIPPETS.len() as u8).prop_map(|(pos, s)| TEdit::Ins { pos, s }),
		2 => (any::<u16>(), 1u8..6).prop_map(|(pos, n)| TEdit::Del { pos, n }),
		3 => (any::<u16>(), 0u8..SNIPPETS.len() as u8).prop_map(|(pos, s)| TEdit::Rep { pos, s }),
		1 => Just(TEdit::Upper),
		1 => Just(TEdit::Lower),
		1 => Just(TEdit::Dup),
	]
	.boxed()
}

pub fn apply_tedits(seed: &str, edits: &[TEdit]) -> String {
	let mut s = seed.to_string();
	for e in edits {
		match e {
			TEdit::Trunc(l) => {
				let n = floor_char(&s, idx(*l, s.len() + 1));
				s.truncate(n);
			}
			TEdit::Ins { pos, s: sn } => {
				let p = floor_char(&s, idx(*pos, s.len() + 1));
				s.insert_str(p, SNIPPETS[(*sn as usize) % SNIPPETS.len()]);
			}
			TEdit::Del { pos, n } => {
				if !s.is_empty() {
					let p = floor_char(&s, idx(*pos, s.len()));
					let e = floor_char(&s, std::cmp::min(s.len(), p + *n as usize));
					if e > p {
						s.replace_range(p..e, "");
					}
				}
			}
			TEdit::Rep { pos, s: sn } => {
				if !s.is_empty() {
					let p = floor_char(&s, idx(*pos, s.len()));
					let mut e = p + 1;
					while e < s.len() && !s.is_char_boundary(e) {
						e += 1;
					}
					s.replace_range(p..e.min(s.len()), SNIPPETS[(*sn as usize) % SNIPPETS.len()]);
				}
			}
			TEdit::Upper => s = s.to_uppercase(),
			TEdit::Lower => s = s.to_lowercase(),
			TEdit::Dup => {
				if s.len() < 8192 {
					s = format!("{}{}", s, s)
				}
			}
		}
	}
	s
}

pub fn hex_preview(b: &[u8]) -> String {
	let n = std::cmp::min(b.len(), 160);
	let mut s = grin_util::ToHex::to_hex(&b[..n].to_vec());
	if b.len() > n {
		s.push_str(&format!("..(+{} bytes)", b.len() - n));
	}
	s
}

pub fn text_preview(s: &str) -> String {
	let mut t: String = s.chars().take(400).collect();
	if t.len() < s.len() {
		t.push_str(&format!("..(+{} bytes)", s.len() - t.len()));
	}
	t
}
