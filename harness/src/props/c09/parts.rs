//! The seven parts of C09 and their generators.

use super::mutate::*;
use super::seeds;
use super::{call, decrypt_envelope, encrypt_envelope, variant, Fixture};
use crate::rt::*;
use grin_wallet_impls::{PathToSlatepack, SlateGetter};
use grin_wallet_libwallet::{
	PaymentProof, Slate, SlatepackAddress, SlatepackArmor, SlatepackBin, VersionedBinSlate, VersionedSlate,
};
use grin_wallet_libwallet::slate_versions::v4::SlateV4;
use grin_wallet_util::{byte_ser, OnionV3Address};
use proptest::prelude::*;
use serde_derive::{Deserialize, Serialize};
use serde_json::{json, Value};
use std::cell::RefCell;
use std::convert::TryFrom;
use std::rc::Rc;

type Fx = Rc<RefCell<Fixture>>;

const MAX_INPUT: usize = 60 * 1024;
const SWEEP_MAX: usize = 2048;

fn indices_strategy() -> BoxedStrategy<Vec<u32>> {
	prop::collection::vec(
		prop_oneof![5 => Just(0u32), 3 => Just(1u32), 2 => Just(2u32), 1 => Just(3u32), 1 => Just(0x8000_0000u32), 1 => Just(u32::MAX)],
		0..4,
	)
	.boxed()
}

fn raw_bytes(max: usize) -> BoxedStrategy<Vec<u8>> {
	prop::collection::vec(any::<u8>(), 0..max).boxed()
}

fn is_framing_error(dbg: &str) -> bool {
	dbg.contains("Data invalid length") || dbg.contains("Bad armor header") || dbg.contains("Bad armor footer") || dbg.contains("Bad bytes")
}

/// Feed one slatepack message / file content to every entry point that takes one.
/// Returns true when the input got past the first framing stage of `deser_slatepack`.
fn feed_message(fx: &mut Fixture, out: &mut Outcome, data: &[u8], indices: &[u32], with_file: bool, wallet_calls: bool) -> bool {
	let prev = || {
		match std::str::from_utf8(data) {
			Ok(s) => format!("text {:?}", text_preview(s)),
			Err(_) => format!("hex {}", hex_preview(data)),
		}
	};
	let mut past_framing = false;
	call(out, "armor.decode", &prev, || SlatepackArmor::decode(data));
	call(out, "bytes.SlatepackBin", &prev, || byte_ser::from_bytes::<SlatepackBin>(data));
	{
		let p = Fixture::packer(None);
		if let Some(r) = call(out, "deser.nokey", &prev, || p.deser_slatepack(data, true)) {
			match r {
				Ok(sp) => {
					past_framing = true;
					call(out, "get_slate.nokey", &prev, || p.get_slate(&sp));
				}
				Err(e) => {
					let d = format!("{:?}", e);
					if !is_framing_error(&d) {
						past_framing = true;
					}
					out.class(format!("deser.nokey:err:{}", variant(&e)));
				}
			}
		}
	}
	let mut key_ids: Vec<usize> = vec![0];
	if let Some(i) = indices.first() {
		if (*i as usize) < fx.keys.len() && *i != 0 {
			key_ids.push(*i as usize);
		}
	}
	for ki in key_ids {
		let key = ed25519_dalek::SecretKey::from_bytes(fx.keys[ki].as_bytes()).unwrap();
		let p = Fixture::packer(Some(&key));
		if let Some(r) = call(out, "deser.key", &prev, || p.deser_slatepack(data, true)) {
			match r {
				Ok(sp) => {
					call(out, "get_slate.key", &prev, || p.get_slate(&sp));
				}
				Err(e) => out.class(format!("deser.key:err:{}", variant(&e))),
			}
		}
		if with_file && ki == 0 {
			let path = fx.tmp_file(data);
			let pts = PathToSlatepack::new(path, &p, true);
			call(out, "file.get_tx", &prev, || pts.get_tx());
		}
	}
	if wallet_calls {
		if let Ok(s) = std::str::from_utf8(data) {
			let w = fx.wal();
			// each call derives one key per index (milliseconds): one of the two functions per input,
			// chosen by a parity that the generators spread evenly
			if (data.len() + indices.len()) % 2 == 0 {
				call(out, "owner.slate_from_slatepack_message", &prev, || {
					w.owner.slate_from_slatepack_message(w.m(), s.to_string(), indices.to_vec())
				});
			} else {
				call(out, "owner.decode_slatepack_message", &prev, || {
					w.owner.decode_slatepack_message(w.m(), s.to_string(), indices.to_vec())
				});
			}
		}
	}
	past_framing
}

// =============================================================================================
// part msg

#[derive(Clone, Debug, Serialize, Deserialize)]
pub enum GPay {
	/// literal payload characters
	Text(String),
	/// base58 of these bytes (no check code)
	B58(Vec<u8>),
	/// valid check code + these inner bytes
	Checked(Vec<u8>),
}

#[derive(Clone, Debug, Serialize, Deserialize)]
pub enum MsgGen {
	ArmorText { seed: u16, edits: Vec<TEdit> },
	ReArmor { seed: u16, inner: Vec<BMut>, words: bool, bad_check: u8 },
	Bin { seed: u16, muts: Vec<BMut> },
	Json { seed: u16, muts: Vec<JMut> },
	/// payload (binary slate) mutated inside an otherwise valid plain slatepack; form 0 armor 1 bin 2 json
	Payload { slate: u16, muts: Vec<BMut>, form: u8, sender: bool },
	Grammar { pre: u8, head: u8, pay: GPay, foot: u8, post: u8 },
	Raw(Vec<u8>),
	/// every truncation length (<= 2 KiB) of one form of a seed
	SweepTrunc { seed: u16, form: u8 },
	/// inner binary truncated to every length, re-armored with a valid check code
	SweepReArmorTrunc { seed: u16 },
	/// armored payload replaced by every short base58 string of the given alphabet prefix
	SweepShortPayload,
}

#[derive(Clone, Debug, Serialize, Deserialize)]
pub struct MsgCase {
	pub g: MsgGen,
	pub indices: Vec<u32>,
}

const HEADS: [&str; 12] = [
	"BEGINSLATEPACK.",
	"BEGINSLATEPACK. ",
	" BEGINSLATEPACK.",
	">\n\tBEGINSLATEPACK >.",
	"BEGINSLATEPACK",
	"beginslatepack.",
	"BEGINSLATEPACK..",
	"BEGIN SLATEPACK.",
	"BEGINSLATEPACK.BEGINSLATEPACK.",
	"",
	".",
	"BEGINSLATEPACK\u{e9}.",
];
const FOOTS: [&str; 12] = [
	". ENDSLATEPACK.",
	".ENDSLATEPACK.",
	". ENDSLATEPACK",
	".",
	"",
	". ENDSLATEPACK.\n",
	". > ENDSLATEPACK >\n.",
	". endslatepack.",
	"..",
	". ENDSLATEPACK. trailing",
	". END.",
	". ENDSLATEPACK\u{e9}.",
];
const PRES: [&str; 4] = ["", " ", "\n", "x"];

pub struct Msg {
	fx: Fx,
}

fn pack_form<'a>(p: &'a seeds::PackSeed, form: u8) -> Vec<u8> {
	match form % 3 {
		0 => p.armored.as_bytes().to_vec(),
		1 => p.bin.clone(),
		_ => p.json.as_bytes().to_vec(),
	}
}

impl Prop for Msg {
	type Case = MsgCase;
	fn id(&self) -> &'static str {
		"C09"
	}
	fn part(&self) -> &'static str {
		"msg"
	}
	fn cases(&self, tier: Tier) -> u64 {
		tier.pick(10_000, 250_000)
	}
	fn shrink_iters(&self) -> u32 {
		120
	}
	fn strategy(&self, _tier: Tier) -> BoxedStrategy<MsgCase> {
		let gpay = prop_oneof![
			3 => "[1-9A-HJ-NP-Za-km-z >\n]{0,24}".prop_map(GPay::Text),
			1 => "[ -~]{0,12}".prop_map(GPay::Text),
			3 => raw_bytes(12).prop_map(GPay::B58),
			3 => raw_bytes(40).prop_map(GPay::Checked),
		];
		let g = prop_oneof![
			100 => (any::<u16>(), prop::collection::vec(tedit_strategy(), 1..3)).prop_map(|(seed, edits)| MsgGen::ArmorText { seed, edits }),
			110 => (any::<u16>(), prop::collection::vec(bmut_strategy(), 1..3), any::<bool>(), prop_oneof![9 => Just(0u8), 1 => 1u8..255])
				.prop_map(|(seed, inner, words, bad_check)| MsgGen::ReArmor { seed, inner, words, bad_check }),
			70 => (any::<u16>(), prop::collection::vec(bmut_strategy(), 1..3)).prop_map(|(seed, muts)| MsgGen::Bin { seed, muts }),
			70 => (any::<u16>(), prop::collection::vec(jmut_strategy(), 1..3)).prop_map(|(seed, muts)| MsgGen::Json { seed, muts }),
			70 => (any::<u16>(), prop::collection::vec(bmut_strategy(), 1..3), 0u8..3, any::<bool>())
				.prop_map(|(slate, muts, form, sender)| MsgGen::Payload { slate, muts, form, sender }),
			50 => (0u8..PRES.len() as u8, 0u8..HEADS.len() as u8, gpay, 0u8..FOOTS.len() as u8, 0u8..PRES.len() as u8)
				.prop_map(|(pre, head, pay, foot, post)| MsgGen::Grammar { pre, head, pay, foot, post }),
			20 => raw_bytes(64).prop_map(MsgGen::Raw),
			1 => (any::<u16>(), 0u8..3).prop_map(|(seed, form)| MsgGen::SweepTrunc { seed, form }),
			1 => any::<u16>().prop_map(|seed| MsgGen::SweepReArmorTrunc { seed }),
			1 => Just(MsgGen::SweepShortPayload),
		];
		(g, indices_strategy()).prop_map(|(g, indices)| MsgCase { g, indices }).boxed()
	}
	fn rule(&self) -> String {
		"slatepack messages: text edits of valid armor, valid check code around mutated/truncated binary slatepacks, mutated binary and JSON slatepacks (plain and age-encrypted to the wallet or to others), mutated slate payload inside a valid pack, framing grammar (header/footer variants x base58/other payloads x whitespace and '>' noise), short random bytes, and sweeps over every truncation length; fed to SlatepackArmor::decode, from_bytes::<SlatepackBin>, deser_slatepack(+get_slate) without key and with the wallet's real keys, PathToSlatepack::get_tx on a file, owner.slate_from_slatepack_message / decode_slatepack_message with 0..3 secret indices. non-trivial = deser_slatepack did not reject at its first stage (length / armor header / footer / base58 alphabet)".into()
	}
	fn run(&mut self, c: &MsgCase) -> Outcome {
		let mut out = Outcome::default();
		let mut fx = self.fx.borrow_mut();
		let fx = &mut *fx;
		let npacks = fx.seeds.packs.len();
		let mut inputs: Vec<Vec<u8>> = vec![];
		match &c.g {
			MsgGen::ArmorText { seed, edits } => {
				out.class("gen:armor-text");
				let p = &fx.seeds.packs[idx(*seed, npacks)];
				inputs.push(apply_tedits(&p.armored, edits).into_bytes());
			}
			MsgGen::ReArmor { seed, inner, words, bad_check } => {
				out.class("gen:rearmor");
				let p = &fx.seeds.packs[idx(*seed, npacks)];
				let b = apply_bmuts(&p.bin, inner);
				inputs.push(seeds::armor_raw(&b, *words, *bad_check).into_bytes());
			}
			MsgGen::Bin { seed, muts } => {
				out.class("gen:bin");
				let p = &fx.seeds.packs[idx(*seed, npacks)];
				inputs.push(apply_bmuts(&p.bin, muts));
			}
			MsgGen::Json { seed, muts } => {
				out.class("gen:json");
				let p = &fx.seeds.packs[idx(*seed, npacks)];
				let v: Value = serde_json::from_str(&p.json).unwrap();
				let j = apply_jmuts(&v, muts, &|_| false);
				jmut_classes(&mut out, &j.what);
				inputs.push(j.text.into_bytes());
			}
			MsgGen::Payload { slate, muts, form, sender } => {
				out.class("gen:payload");
				let sb = &fx.seeds.slate_bin[idx(*slate, fx.seeds.slate_bin.len())];
				let mut sp = grin_wallet_libwallet::Slatepack::default();
				sp.payload = apply_bmuts(sb, muts);
				if *sender {
					sp.sender = Some(fx.seeds.other_addr.clone());
				}
				let ps = seeds::pack_forms("x", &sp, false, false);
				inputs.push(pack_form(&ps, *form));
			}
			MsgGen::Grammar { pre, head, pay, foot, post } => {
				out.class("gen:grammar");
				let payload = match pay {
					GPay::Text(s) => s.clone(),
					GPay::B58(b) => bs58::encode(b).into_string(),
					GPay::Checked(b) => {
						let a = seeds::armor_raw(b, false, 0);
						a["BEGINSLATEPACK.".len()..a.len() - ". ENDSLATEPACK.".len()].to_string()
					}
				};
				let s = format!(
					"{}{}{}{}{}",
					PRES[*pre as usize % PRES.len()],
					HEADS[*head as usize % HEADS.len()],
					payload,
					FOOTS[*foot as usize % FOOTS.len()],
					PRES[*post as usize % PRES.len()]
				);
				inputs.push(s.into_bytes());
			}
			MsgGen::Raw(b) => {
				out.class("gen:raw");
				inputs.push(b.clone());
			}
			MsgGen::SweepTrunc { seed, form } => {
				out.class("gen:sweep-trunc");
				let p = &fx.seeds.packs[idx(*seed, npacks)];
				let full = pack_form(p, *form);
				for l in 0..std::cmp::min(full.len(), SWEEP_MAX) {
					inputs.push(full[..l].to_vec());
				}
				for b in &[0u8, b'.', b' ', 0xff] {
					let mut e = full.clone();
					e.push(*b);
					inputs.push(e);
				}
			}
			MsgGen::SweepReArmorTrunc { seed } => {
				out.class("gen:sweep-rearmor-trunc");
				let p = &fx.seeds.packs[idx(*seed, npacks)];
				for l in 0..std::cmp::min(p.bin.len(), SWEEP_MAX) {
					inputs.push(seeds::armor_raw(&p.bin[..l], l % 2 == 0, 0).into_bytes());
				}
			}
			MsgGen::SweepShortPayload => {
				out.class("gen:sweep-short-payload");
				for n in 0..7usize {
					for fill in &[0u8, 1, 0xff] {
						let b = vec![*fill; n];
						inputs.push(format!("BEGINSLATEPACK. {}. ENDSLATEPACK.", bs58::encode(&b).into_string()).into_bytes());
					}
				}
			}
		}
		let sweep = inputs.len() > 1;
		let mut nontrivial = false;
		for (i, data) in inputs.iter().enumerate() {
			if data.len() > MAX_INPUT {
				out.class("skipped:too-long");
				continue;
			}
			// in sweeps the file and wallet entry points are exercised on every 16th input
			let heavy = !sweep || i % 64 == 0;
			if feed_message(fx, &mut out, data, &c.indices, heavy, heavy) {
				nontrivial = true;
			}
		}
		out.evals = Some(inputs.len() as u64);
		out.nontrivial = nontrivial;
		fx.check_state(&mut out, false, "slatepack-decode", "slatepack decoding");
		dedup_classes(&mut out);
		out
	}
}

/// classes of a JSON mutation: one per operator and one per mutated field path (array positions collapsed)
fn jmut_classes(out: &mut Outcome, what: &str) {
	for w in what.split('+') {
		if let Some(i) = w.rfind(':') {
			out.class(format!("jmut-field:{}", &w[..i]));
			out.class(format!("jmut-op:{}", &w[i + 1..]));
		}
	}
}

/// a case that evaluates many inputs reports each class once
fn dedup_classes(out: &mut Outcome) {
	let mut seen = std::collections::BTreeSet::new();
	out.classes.retain(|c| seen.insert(c.clone()));
}

// =============================================================================================
// part enc

#[derive(Clone, Debug, Serialize, Deserialize)]
pub enum MetaSpec {
	/// no metadata prefix at all
	None,
	Valid { sender: bool, nrecip: u8 },
	/// a 4-byte big-endian length (boundary value index) and nothing else of the metadata
	LenOnly(u8),
	/// well-formed metadata whose declared length is replaced
	LenReplaced { sender: bool, nrecip: u8, len: u32 },
	Mutated { sender: bool, nrecip: u8, muts: Vec<BMut> },
	/// declared length larger than the known fields, with that many extra bytes present (future fields)
	Padded { sender: bool, extra: u8 },
	Bytes(Vec<u8>),
}

#[derive(Clone, Debug, Serialize, Deserialize)]
pub enum PaySpec {
	Empty,
	Valid(u16),
	Mutated(u16, Vec<BMut>),
	Raw(Vec<u8>),
}

#[derive(Clone, Debug, Serialize, Deserialize)]
pub struct EncCase {
	/// bit0 wallet idx0, bit1 wallet idx1, bit2 foreign key, bit3 wallet idx2 (0 => idx0)
	pub recips: u8,
	pub meta: MetaSpec,
	pub pay: PaySpec,
	/// truncate the plaintext (after assembling) to idx(len+1) when Some
	pub cut: Option<u16>,
	/// 0 armor, 1 binary, 2 JSON slatepack
	pub wrap: u8,
	pub outer_sender: bool,
	/// slatepack mode byte
	pub mode: u8,
	/// 0 x25519 recipients, 1 hand-made passphrase-type (scrypt stanza) age file
	pub kind: u8,
	/// edits of the ciphertext after encryption (usually none)
	pub post: Vec<BMut>,
	pub indices: Vec<u32>,
	/// evaluate every truncation length of the plaintext (<= 300) instead of one
	pub sweep: bool,
}

pub struct Enc {
	fx: Fx,
}

const LEN_BOUNDS: [u32; 12] = [0, 1, 2, 3, 4, 5, 0x7f, 0xff, 0x1_0000, 0x7fff_ffff, 0xffff_fffb, 0xffff_ffff];

fn meta_strategy() -> BoxedStrategy<MetaSpec> {
	prop_oneof![
		3 => Just(MetaSpec::None),
		6 => (any::<bool>(), 0u8..3).prop_map(|(sender, nrecip)| MetaSpec::Valid { sender, nrecip }),
		3 => (0u8..LEN_BOUNDS.len() as u8).prop_map(MetaSpec::LenOnly),
		4 => (any::<bool>(), 0u8..3, prop_oneof![(0u32..80), (0u32..LEN_BOUNDS.len() as u32).prop_map(|i| LEN_BOUNDS[i as usize])])
			.prop_map(|(sender, nrecip, len)| MetaSpec::LenReplaced { sender, nrecip, len }),
		4 => (any::<bool>(), 0u8..3, prop::collection::vec(bmut_strategy(), 1..3)).prop_map(|(sender, nrecip, muts)| MetaSpec::Mutated { sender, nrecip, muts }),
		2 => (any::<bool>(), 1u8..200).prop_map(|(sender, extra)| MetaSpec::Padded { sender, extra }),
		3 => raw_bytes(8).prop_map(MetaSpec::Bytes),
	]
	.boxed()
}

fn pay_strategy() -> BoxedStrategy<PaySpec> {
	prop_oneof![
		2 => Just(PaySpec::Empty),
		4 => any::<u16>().prop_map(PaySpec::Valid),
		5 => (any::<u16>(), prop::collection::vec(bmut_strategy(), 1..3)).prop_map(|(s, m)| PaySpec::Mutated(s, m)),
		2 => raw_bytes(48).prop_map(PaySpec::Raw),
	]
	.boxed()
}

impl Enc {
	fn plaintext(&self, fx: &Fixture, c: &EncCase) -> Vec<u8> {
		let s = &fx.seeds;
		let sender_addr = seeds::addr_of(&seeds::ed(1).public);
		let recips = |n: u8| -> Vec<SlatepackAddress> { (0..n as usize).map(|i| s.wallet_addrs[i % s.wallet_addrs.len()].clone()).collect() };
		let valid = |sender: bool, n: u8| seeds::enc_meta_bytes(if sender { Some(&sender_addr) } else { None }, &recips(n));
		let mut p = match &c.meta {
			MetaSpec::None => vec![],
			MetaSpec::Valid { sender, nrecip } => valid(*sender, *nrecip),
			MetaSpec::LenOnly(i) => LEN_BOUNDS[*i as usize % LEN_BOUNDS.len()].to_be_bytes().to_vec(),
			MetaSpec::LenReplaced { sender, nrecip, len } => {
				let mut m = valid(*sender, *nrecip);
				m[0..4].copy_from_slice(&len.to_be_bytes());
				m
			}
			MetaSpec::Mutated { sender, nrecip, muts } => apply_bmuts(&valid(*sender, *nrecip), muts),
			MetaSpec::Padded { sender, extra } => {
				let mut m = valid(*sender, 0);
				let l = u32::from_be_bytes([m[0], m[1], m[2], m[3]]) + *extra as u32;
				m[0..4].copy_from_slice(&l.to_be_bytes());
				m.extend(std::iter::repeat(0xabu8).take(*extra as usize));
				m
			}
			MetaSpec::Bytes(b) => b.clone(),
		};
		match &c.pay {
			PaySpec::Empty => {}
			PaySpec::Valid(i) => p.extend_from_slice(&s.slate_bin[idx(*i, s.slate_bin.len())]),
			PaySpec::Mutated(i, m) => p.extend_from_slice(&apply_bmuts(&s.slate_bin[idx(*i, s.slate_bin.len())], m)),
			PaySpec::Raw(b) => p.extend_from_slice(b),
		}
		if let Some(cut) = c.cut {
			let n = idx(cut, p.len() + 1);
			p.truncate(n);
		}
		p
	}

	fn wrap(&self, fx: &Fixture, c: &EncCase, plain: &[u8]) -> Vec<u8> {
		let s = &fx.seeds;
		let mut rec = vec![];
		let r = if c.recips & 0x0f == 0 { 1 } else { c.recips };
		if r & 4 != 0 {
			rec.push(s.other_addr.clone());
		}
		if r & 1 != 0 {
			rec.push(s.wallet_addrs[0].clone());
		}
		if r & 2 != 0 {
			rec.push(s.wallet_addrs[1].clone());
		}
		if r & 8 != 0 {
			rec.push(s.wallet_addrs[2].clone());
		}
		let ct = if c.kind == 1 { s.scrypt_age.clone() } else { seeds::age_encrypt(plain, &rec) };
		let ct = apply_bmuts(&ct, &c.post);
		let mut sp = grin_wallet_libwallet::Slatepack::default();
		sp.payload = ct;
		sp.mode = 1;
		if c.outer_sender {
			sp.sender = Some(s.other_addr.clone());
		}
		let forms = seeds::pack_forms("e", &sp, true, true);
		let mut bytes = pack_form(&forms, c.wrap);
		if c.mode != 1 {
			// the mode byte sits at offset 2 of the binary form; JSON form carries "mode":1
			match c.wrap % 3 {
				1 => bytes[2] = c.mode,
				2 => {
					let t = String::from_utf8(bytes).unwrap().replacen("\"mode\":1", &format!("\"mode\":{}", c.mode), 1);
					bytes = t.into_bytes();
				}
				_ => {
					let mut b = forms.bin.clone();
					b[2] = c.mode;
					bytes = seeds::armor_raw(&b, true, 0).into_bytes();
				}
			}
		}
		bytes
	}
}

impl Prop for Enc {
	type Case = EncCase;
	fn id(&self) -> &'static str {
		"C09"
	}
	fn part(&self) -> &'static str {
		"enc"
	}
	fn cases(&self, tier: Tier) -> u64 {
		tier.pick(6_000, 150_000)
	}
	fn shrink_iters(&self) -> u32 {
		120
	}
	fn strategy(&self, _tier: Tier) -> BoxedStrategy<EncCase> {
		(
			(
				prop_oneof![6 => Just(1u8), 2 => Just(2u8), 1 => Just(5u8), 1 => Just(4u8), 1 => Just(8u8), 1 => Just(3u8)],
				meta_strategy(),
				pay_strategy(),
				prop_oneof![3 => Just(None), 1 => any::<u16>().prop_map(Some)],
				0u8..3,
				any::<bool>(),
			),
			(
				prop_oneof![12 => Just(1u8), 1 => Just(0u8), 1 => Just(2u8), 1 => Just(255u8)],
				prop_oneof![30 => Just(0u8), 1 => Just(1u8)],
				prop_oneof![8 => Just(vec![]), 1 => prop::collection::vec(bmut_strategy(), 1..2)],
				indices_strategy(),
				prop::bool::weighted(0.004),
			),
		)
			.prop_map(|((recips, meta, pay, cut, wrap, outer_sender), (mode, kind, post, indices, sweep))| EncCase {
				recips,
				meta,
				pay,
				cut,
				wrap,
				outer_sender,
				mode,
				kind,
				post,
				indices,
				sweep,
			})
			.boxed()
	}
	fn rule(&self) -> String {
		"ciphertexts validly age-encrypted (x25519) to the wallet's own slatepack address (derivation index 0/1/2, alone or with a foreign recipient, or to a foreign key only) whose plaintext = [metadata prefix: none | well-formed | bare length | replaced length | mutated | padded with future fields | arbitrary bytes] ++ [payload: empty | valid binary slate | mutated binary slate | random], optionally truncated (sweep cases: every truncation length <= 300); wrapped in a valid slatepack (armor / binary / JSON), mode byte 1 (rarely 0/2/255), rarely a passphrase-type age file or an edited ciphertext; fed to deser_slatepack(+get_slate) with the wallet's keys, PathToSlatepack::get_tx, owner.slate_from_slatepack_message / decode_slatepack_message with 0..3 secret indices. non-trivial = the wallet key decrypts the age layer (recipient set includes a wallet address, ciphertext not edited, x25519 type)".into()
	}
	fn run(&mut self, c: &EncCase) -> Outcome {
		let mut out = Outcome::default();
		let mut fxb = self.fx.borrow_mut();
		let fx = &mut *fxb;
		let plain = self.plaintext(fx, c);
		out.class(format!(
			"meta:{}",
			match &c.meta {
				MetaSpec::None => "none",
				MetaSpec::Valid { .. } => "valid",
				MetaSpec::LenOnly(_) => "len-only",
				MetaSpec::LenReplaced { .. } => "len-replaced",
				MetaSpec::Mutated { .. } => "mutated",
				MetaSpec::Padded { .. } => "padded",
				MetaSpec::Bytes(_) => "bytes",
			}
		));
		out.class(format!(
			"pay:{}",
			match &c.pay {
				PaySpec::Empty => "empty",
				PaySpec::Valid(_) => "valid",
				PaySpec::Mutated(..) => "mutated",
				PaySpec::Raw(_) => "raw",
			}
		));
		out.class(format!("wrap:{}", c.wrap % 3));
		if c.kind == 1 {
			out.class("age:passphrase-type");
		}
		if plain.len() < 4 {
			out.class("plain:<4-bytes");
		}
		let mut plains = vec![];
		if c.sweep {
			out.class("gen:sweep-plaintext-trunc");
			for l in 0..=std::cmp::min(plain.len(), 300) {
				plains.push(plain[..l].to_vec());
			}
		} else {
			plains.push(plain);
		}
		for (i, p) in plains.iter().enumerate() {
			let data = self.wrap(fx, c, p);
			if data.len() > MAX_INPUT {
				out.class("skipped:too-long");
				continue;
			}
			let heavy = !c.sweep || i % 8 == 0;
			// entry points; the plaintext is reported with the input
			let before = out.fails.len();
			feed_message(fx, &mut out, &data, &c.indices, heavy, heavy);
			for f in out.fails.iter_mut().skip(before) {
				f.detail = format!("{} ; age plaintext hex {}", f.detail, hex_preview(p));
			}
		}
		out.evals = Some(plains.len() as u64);
		let r = if c.recips & 0x0f == 0 { 1 } else { c.recips };
		out.nontrivial = c.kind == 0 && c.post.is_empty() && (r & 0x0b) != 0 && c.mode == 1;
		if out.nontrivial {
			out.class("decryptable-by-wallet");
		}
		fx.check_state(&mut out, false, "slatepack-decrypt", "slatepack decryption");
		dedup_classes(&mut out);
		out
	}
}

// =============================================================================================
// part json (V4 slate JSON)

#[derive(Clone, Debug, Serialize, Deserialize)]
pub enum JGen {
	Mut(Vec<JMut>),
	/// one op (with its argument) applied to every node in turn
	SweepNodes { op: u16, arg: u16 },
	/// every op applied to one node
	SweepOps { node: u16, arg: u16 },
	/// the JSON text cut at every length
	SweepTextTrunc,
	Text(Vec<TEdit>),
}

#[derive(Clone, Debug, Serialize, Deserialize)]
pub struct JsonCase {
	pub seed: u16,
	pub g: JGen,
}

pub struct Json {
	fx: Fx,
}

fn feed_slate_json(out: &mut Outcome, text: &str) -> bool {
	let prev = || format!("text {:?}", text_preview(text));
	let syntax_ok = serde_json::from_str::<Value>(text).is_ok();
	call(out, "Slate::deserialize_upgrade", &prev, || Slate::deserialize_upgrade(text));
	if let Some(Ok(vs)) = call(out, "json.VersionedSlate", &prev, || serde_json::from_str::<VersionedSlate>(text)) {
		call(out, "Slate::from(VersionedSlate)", &prev, || Ok::<Slate, ()>(Slate::from(vs)));
	}
	call(out, "json.SlateV4", &prev, || serde_json::from_str::<SlateV4>(text));
	syntax_ok
}

fn jgen_inputs(seed: &Value, g: &JGen, out: &mut Outcome, exclude: &dyn Fn(&[Seg]) -> bool) -> Vec<String> {
	let mut inputs = vec![];
	match g {
		JGen::Mut(m) => {
			let j = apply_jmuts(seed, m, exclude);
			jmut_classes(out, &j.what);
			inputs.push(j.text);
		}
		JGen::SweepNodes { op, arg } => {
			out.class("gen:sweep-nodes");
			let n = paths(seed).into_iter().filter(|p| !exclude(p)).count();
			for k in 0..n {
				let node = inv_idx(k, n);
				inputs.push(apply_jmuts(seed, &[JMut { node, op: *op, arg: *arg }], exclude).text);
			}
		}
		JGen::SweepOps { node, arg } => {
			out.class("gen:sweep-ops");
			for k in 0..40usize {
				let op = inv_idx(k, 40);
				inputs.push(apply_jmuts(seed, &[JMut { node: *node, op, arg: *arg }], exclude).text);
			}
		}
		JGen::SweepTextTrunc => {
			out.class("gen:sweep-text-trunc");
			let t = serde_json::to_string(seed).unwrap();
			for l in 0..std::cmp::min(t.len(), SWEEP_MAX) {
				if t.is_char_boundary(l) {
					inputs.push(t[..l].to_string());
				}
			}
		}
		JGen::Text(e) => {
			out.class("gen:text-edit");
			inputs.push(apply_tedits(&serde_json::to_string(seed).unwrap(), e));
		}
	}
	inputs
}

/// smallest u16 that `idx` maps to k (of n)
fn inv_idx(k: usize, n: usize) -> u16 {
	std::cmp::min(((k << 16) + n - 1) / n, 65535) as u16
}

fn jgen_strategy() -> BoxedStrategy<JGen> {
	prop_oneof![
		70 => prop::collection::vec(jmut_strategy(), 1..3).prop_map(JGen::Mut),
		1 => (any::<u16>(), any::<u16>()).prop_map(|(op, arg)| JGen::SweepNodes { op, arg }),
		1 => (any::<u16>(), any::<u16>()).prop_map(|(node, arg)| JGen::SweepOps { node, arg }),
		1 => Just(JGen::SweepTextTrunc),
		6 => prop::collection::vec(tedit_strategy(), 1..3).prop_map(JGen::Text),
	]
	.boxed()
}

impl Prop for Json {
	type Case = JsonCase;
	fn id(&self) -> &'static str {
		"C09"
	}
	fn part(&self) -> &'static str {
		"json"
	}
	fn cases(&self, tier: Tier) -> u64 {
		tier.pick(13_000, 300_000)
	}
	fn strategy(&self, _tier: Tier) -> BoxedStrategy<JsonCase> {
		(any::<u16>(), jgen_strategy()).prop_map(|(seed, g)| JsonCase { seed, g }).boxed()
	}
	fn rule(&self) -> String {
		"V4 slate JSON (7 seeds covering every optional field): single- and double-field mutations (remove, null, bool, raw non-canonical number tokens, boundary integers as number and as string, wrong container type, sibling value, string edits: empty/truncated/odd-length/over-long/non-hex/non-ASCII (byte length kept)/0x-prefixed/doubled hex, base64, numeric and version strings, array duplicate/over-long/truncate, unknown and duplicate keys), sweeps (one op over every node; every op on one node; every truncation of the text) and raw text edits; fed to Slate::deserialize_upgrade, serde_json::from_str::<VersionedSlate> + Slate::from, from_str::<SlateV4>. non-trivial = the text is syntactically valid JSON".into()
	}
	fn run(&mut self, c: &JsonCase) -> Outcome {
		let mut out = Outcome::default();
		let fx = self.fx.borrow();
		let seed = &fx.seeds.slate_json_val[idx(c.seed, fx.seeds.slate_json_val.len())];
		let inputs = jgen_inputs(seed, &c.g, &mut out, &|_| false);
		let mut nt = false;
		for t in &inputs {
			if t.len() > MAX_INPUT {
				out.class("skipped:too-long");
				continue;
			}
			if feed_slate_json(&mut out, t) {
				nt = true;
			}
		}
		out.evals = Some(inputs.len() as u64);
		out.nontrivial = nt;
		dedup_classes(&mut out);
		out
	}
}

// =============================================================================================
// part bin

#[derive(Clone, Debug, Serialize, Deserialize)]
pub enum BGen {
	Mut(Vec<BMut>),
	SweepTrunc,
	SweepExtend,
	/// all 256 values at one position
	SweepByte { pos: u16 },
	/// all 256 values at one of the first 64 positions
	SweepHeadByte { pos: u8 },
	Raw(Vec<u8>),
}

#[derive(Clone, Debug, Serialize, Deserialize)]
pub struct BinCase {
	/// 0 binary slate, 1 binary slatepack
	pub kind: u8,
	pub seed: u16,
	pub g: BGen,
}

pub struct Bin {
	fx: Fx,
}

fn feed_bin(out: &mut Outcome, data: &[u8]) {
	let prev = || format!("hex {}", hex_preview(data));
	if let Some(Ok(b)) = call(out, "bytes.VersionedBinSlate", &prev, || byte_ser::from_bytes::<VersionedBinSlate>(data)) {
		call(out, "Slate::upgrade(bin)", &prev, || Slate::upgrade(b.into()));
	}
	if let Some(Ok(sp)) = call(out, "bytes.SlatepackBin", &prev, || byte_ser::from_bytes::<SlatepackBin>(data)) {
		let p = Fixture::packer(None);
		call(out, "get_slate(bin pack)", &prev, || p.get_slate(&sp.0));
	}
}

impl Prop for Bin {
	type Case = BinCase;
	fn id(&self) -> &'static str {
		"C09"
	}
	fn part(&self) -> &'static str {
		"bin"
	}
	fn cases(&self, tier: Tier) -> u64 {
		tier.pick(11_000, 300_000)
	}
	fn strategy(&self, _tier: Tier) -> BoxedStrategy<BinCase> {
		let g = prop_oneof![
			80 => prop::collection::vec(bmut_strategy(), 1..4).prop_map(BGen::Mut),
			1 => Just(BGen::SweepTrunc),
			1 => Just(BGen::SweepExtend),
			2 => any::<u16>().prop_map(|pos| BGen::SweepByte { pos }),
			3 => (0u8..64).prop_map(|pos| BGen::SweepHeadByte { pos }),
			5 => raw_bytes(96).prop_map(BGen::Raw),
		];
		(0u8..2, any::<u16>(), g).prop_map(|(kind, seed, g)| BinCase { kind, seed, g }).boxed()
	}
	fn rule(&self) -> String {
		"binary slates (7 seeds) and binary slatepacks (plain/encrypted, with/without sender): 1-3 byte-level edits (truncate, append, set/flip, insert/delete, big-endian boundary values and +-1 adjustments of 1/2/4/8-byte words anywhere, in the first 96 bytes and near the end), sweeps (every truncation length, single-byte extensions, all 256 values at a position) and short random bytes; fed to byte_ser::from_bytes::<VersionedBinSlate> (+Slate::upgrade) and ::<SlatepackBin> (+get_slate). non-trivial = derived from a valid encoding".into()
	}
	fn run(&mut self, c: &BinCase) -> Outcome {
		let mut out = Outcome::default();
		let fx = self.fx.borrow();
		let seed: &Vec<u8> = if c.kind % 2 == 0 {
			&fx.seeds.slate_bin[idx(c.seed, fx.seeds.slate_bin.len())]
		} else {
			&fx.seeds.packs[idx(c.seed, fx.seeds.packs.len())].bin
		};
		out.class(if c.kind % 2 == 0 { "seed:slate" } else { "seed:slatepack" });
		let mut inputs: Vec<Vec<u8>> = vec![];
		let mut nt = true;
		match &c.g {
			BGen::Mut(m) => inputs.push(apply_bmuts(seed, m)),
			BGen::SweepTrunc => {
				out.class("gen:sweep-trunc");
				for l in 0..std::cmp::min(seed.len(), SWEEP_MAX) {
					inputs.push(seed[..l].to_vec());
				}
			}
			BGen::SweepExtend => {
				out.class("gen:sweep-extend");
				for b in 0..=255u8 {
					let mut e = seed.clone();
					e.push(b);
					inputs.push(e);
				}
			}
			BGen::SweepByte { pos } => {
				out.class("gen:sweep-byte");
				let p = idx(*pos, seed.len());
				for b in 0..=255u8 {
					let mut e = seed.clone();
					e[p] = b;
					inputs.push(e);
				}
			}
			BGen::SweepHeadByte { pos } => {
				out.class("gen:sweep-head-byte");
				let p = std::cmp::min(*pos as usize, seed.len() - 1);
				for b in 0..=255u8 {
					let mut e = seed.clone();
					e[p] = b;
					inputs.push(e);
				}
			}
			BGen::Raw(b) => {
				out.class("gen:raw");
				nt = false;
				inputs.push(b.clone());
			}
		}
		for d in &inputs {
			if d.len() <= MAX_INPUT {
				feed_bin(&mut out, d);
			}
		}
		out.evals = Some(inputs.len() as u64);
		out.nontrivial = nt || out.classes.iter().any(|c| c.ends_with(":ok"));
		dedup_classes(&mut out);
		out
	}
}

// =============================================================================================
// part addr

#[derive(Clone, Debug, Serialize, Deserialize)]
pub enum AGen {
	Edit { seed: u16, edits: Vec<TEdit> },
	/// valid bech32 encoding (hrp, arbitrary data bytes)
	Bech { hrp: String, data: Vec<u8> },
	/// base32 of arbitrary bytes (onion alphabet), optional prefix/suffix
	Onion { data: Vec<u8>, pre: u8, suf: u8, upper: bool },
	Hex { len: u8, upper: bool },
	Raw(String),
	SweepTrunc { seed: u16 },
}

#[derive(Clone, Debug, Serialize, Deserialize)]
pub struct AddrCase {
	pub g: AGen,
}

pub struct Addr {
	fx: Fx,
}

fn feed_addr(out: &mut Outcome, s: &str) -> bool {
	let prev = || format!("text {:?}", text_preview(s));
	let mut nt = false;
	if let Some(r) = call(out, "SlatepackAddress::try_from", &prev, || SlatepackAddress::try_from(s)) {
		match r {
			Ok(a) => {
				nt = true;
				call(out, "SlatepackAddress->x25519", &prev, || x25519_dalek::PublicKey::try_from(&a));
				call(out, "SlatepackAddress->String", &prev, || String::try_from(&a));
				call(out, "SlatepackAddress.to_age_pubkey_str", &prev, || a.to_age_pubkey_str());
			}
			Err(e) => {
				let v = variant(&e);
				out.class(format!("SlatepackAddress::try_from:err:{}", v));
				if v != "Bech32" {
					nt = true;
				}
			}
		}
	}
	if let Some(r) = call(out, "OnionV3Address::try_from", &prev, || OnionV3Address::try_from(s)) {
		match r {
			Ok(a) => {
				nt = true;
				call(out, "OnionV3Address.to_ed25519", &prev, || a.to_ed25519());
				call(out, "SlatepackAddress::try_from(onion)", &prev, || SlatepackAddress::try_from(a));
			}
			Err(e) => {
				let d = format!("{:?}", e);
				if d.contains("no match") || d.contains("Hex String") {
					nt = true;
				}
			}
		}
	}
	let quoted = serde_json::to_string(s).unwrap();
	call(out, "json.SlatepackAddress", &prev, || serde_json::from_str::<SlatepackAddress>(&quoted));
	nt
}

impl Prop for Addr {
	type Case = AddrCase;
	fn id(&self) -> &'static str {
		"C09"
	}
	fn part(&self) -> &'static str {
		"addr"
	}
	fn cases(&self, tier: Tier) -> u64 {
		tier.pick(6_000, 200_000)
	}
	fn strategy(&self, _tier: Tier) -> BoxedStrategy<AddrCase> {
		let g = prop_oneof![
			40 => (any::<u16>(), prop::collection::vec(tedit_strategy(), 1..3)).prop_map(|(seed, edits)| AGen::Edit { seed, edits }),
			20 => ("[a-z]{0,8}|grin|tgrin|GRIN|age|slatepack", prop_oneof![raw_bytes(40), Just(vec![7u8; 32]), Just(vec![7u8; 31]), Just(vec![7u8; 33]), Just(vec![])])
				.prop_map(|(hrp, data)| AGen::Bech { hrp, data }),
			15 => (prop_oneof![raw_bytes(40), Just(vec![9u8; 35]), Just(vec![9u8; 34]), Just(vec![9u8; 36])], 0u8..4, 0u8..3, any::<bool>())
				.prop_map(|(data, pre, suf, upper)| AGen::Onion { data, pre, suf, upper }),
			8 => (0u8..140, any::<bool>()).prop_map(|(len, upper)| AGen::Hex { len, upper }),
			10 => "\\PC{0,70}".prop_map(AGen::Raw),
			1 => any::<u16>().prop_map(|seed| AGen::SweepTrunc { seed }),
		];
		g.prop_map(|g| AddrCase { g }).boxed()
	}
	fn rule(&self) -> String {
		"address strings: 1-2 text edits of valid slatepack addresses (testnet/mainnet hrp, upper case) and onion v3 addresses (bare, http://, .onion, upper case, 64-hex key), valid bech32 of arbitrary hrp/data length, base32 of arbitrary bytes with prefixes/suffixes, hex strings of every length 0..139, arbitrary printable unicode, truncation sweeps; fed to SlatepackAddress::try_from(&str) (+ conversions of the decoded value), OnionV3Address::try_from(&str) (+to_ed25519, SlatepackAddress::try_from(onion)), serde_json::from_str::<SlatepackAddress>. non-trivial = bech32 layer accepted, or onion input reached the checksum comparison / hex branch".into()
	}
	fn run(&mut self, c: &AddrCase) -> Outcome {
		let mut out = Outcome::default();
		let fx = self.fx.borrow();
		let all: Vec<&String> = fx.seeds.addrs.iter().chain(fx.seeds.onions.iter()).collect();
		let mut inputs: Vec<String> = vec![];
		match &c.g {
			AGen::Edit { seed, edits } => {
				out.class("gen:edit");
				inputs.push(apply_tedits(all[idx(*seed, all.len())], edits));
			}
			AGen::Bech { hrp, data } => {
				out.class("gen:bech32");
				use bech32::ToBase32;
				match bech32::encode(hrp, data.to_base32()) {
					Ok(s) => inputs.push(s),
					Err(_) => inputs.push(format!("{}1", hrp)),
				}
			}
			AGen::Onion { data, pre, suf, upper } => {
				out.class("gen:onion");
				let b = data_encoding::BASE32.encode(data);
				let b = if *upper { b } else { b.to_lowercase() };
				let pre = ["", "http://", "https://", "HTTP://"][*pre as usize % 4];
				let suf = ["", ".onion", ".ONION"][*suf as usize % 3];
				inputs.push(format!("{}{}{}", pre, b, suf));
			}
			AGen::Hex { len, upper } => {
				out.class("gen:hex");
				let s: String = (0..*len as usize).map(|i| b"0123456789abcdef"[(i * 5 + 3) % 16] as char).collect();
				inputs.push(if *upper { s.to_uppercase() } else { s });
			}
			AGen::Raw(s) => {
				out.class("gen:raw");
				inputs.push(s.clone());
			}
			AGen::SweepTrunc { seed } => {
				out.class("gen:sweep-trunc");
				let s = all[idx(*seed, all.len())];
				for l in 0..s.len() {
					inputs.push(s[..l].to_string());
					inputs.push(s[l..].to_string());
				}
			}
		}
		let mut nt = false;
		for s in &inputs {
			if feed_addr(&mut out, s) {
				nt = true;
			}
		}
		out.evals = Some(inputs.len() as u64);
		out.nontrivial = nt;
		dedup_classes(&mut out);
		out
	}
}

// =============================================================================================
// part proof

#[derive(Clone, Debug, Serialize, Deserialize)]
pub struct ProofCase {
	pub seed: u16,
	pub g: JGen,
}

pub struct Proof {
	fx: Fx,
}

impl Prop for Proof {
	type Case = ProofCase;
	fn id(&self) -> &'static str {
		"C09"
	}
	fn part(&self) -> &'static str {
		"proof"
	}
	fn cases(&self, tier: Tier) -> u64 {
		tier.pick(4_000, 100_000)
	}
	fn strategy(&self, _tier: Tier) -> BoxedStrategy<ProofCase> {
		(any::<u16>(), jgen_strategy()).prop_map(|(seed, g)| ProofCase { seed, g }).boxed()
	}
	fn rule(&self) -> String {
		"payment-proof JSON (3 seeds with valid signatures: wallet as sender, wallet as recipient, strangers; kernels of the first two known to the node): same mutation operators and sweeps as part json; fed to serde_json::from_str::<PaymentProof> and, when it decodes, owner.verify_payment_proof on a real wallet; on Err the wallet's raw state must be unchanged. non-trivial = syntactically valid JSON".into()
	}
	fn run(&mut self, c: &ProofCase) -> Outcome {
		let mut out = Outcome::default();
		let mut fxb = self.fx.borrow_mut();
		let fx = &mut *fxb;
		let seed = fx.seeds.proofs[idx(c.seed, fx.seeds.proofs.len())].clone();
		let inputs = jgen_inputs(&seed, &c.g, &mut out, &|_| false);
		let mut nt = false;
		for t in &inputs {
			if t.len() > MAX_INPUT {
				continue;
			}
			let prev = || format!("text {:?}", text_preview(t));
			if serde_json::from_str::<Value>(t).is_ok() {
				nt = true;
			}
			if let Some(Ok(p)) = call(&mut out, "json.PaymentProof", &prev, || serde_json::from_str::<PaymentProof>(t)) {
				let w = fx.wal();
				if let Some(Err(e)) = call(&mut out, "owner.verify_payment_proof", &prev, || w.owner.verify_payment_proof(w.m(), &p)) {
					out.class(format!("owner.verify_payment_proof:err:{}", variant(&e)));
				}
			}
		}
		out.evals = Some(inputs.len() as u64);
		out.nontrivial = nt;
		fx.check_state(&mut out, false, "verify_payment_proof", "verify_payment_proof");
		dedup_classes(&mut out);
		out
	}
}

// =============================================================================================
// part rpc

#[derive(Clone, Debug, Serialize, Deserialize)]
pub enum RGen {
	Mut(Vec<JMut>),
	Text(Vec<TEdit>),
	Raw(Vec<u8>),
	/// (owner, encrypted) mutate the envelope itself: nonce / body_enc / method / id
	Envelope(Vec<JMut>),
	/// (owner, encrypted) nonce of `nonce_len` bytes; body_enc: 0 valid, 1 empty, 2 cut below the tag length,
	/// 3 not base64, 4 valid base64 of garbage
	EnvelopeFields { nonce_len: u8, body: u8 },
	SweepNodes { op: u16, arg: u16 },
	SweepTextTrunc,
}

#[derive(Clone, Debug, Serialize, Deserialize)]
pub struct RpcCase {
	/// 0 foreign listener, 1 owner listener plaintext (no session), 2 owner plaintext with a live session,
	/// 3 owner ciphertext under the live session key
	pub listener: u8,
	pub seed: u16,
	pub g: RGen,
}

pub struct Rpc {
	fx: Fx,
}

const FORBIDDEN_METHODS: [&str; 14] = [
	"create_config",
	"create_wallet",
	"open_wallet",
	"close_wallet",
	"get_mnemonic",
	"change_password",
	"delete_wallet",
	"set_top_level_directory",
	"start_updater",
	"stop_updater",
	"set_tor_config",
	"scan",
	"scan_rewind_hash",
	"create_mwixnet_req",
];

/// Requests that would reach out of the sandbox or change the process' wallet lifecycle are not sent.
fn forbidden(v: &Value) -> bool {
	match v {
		Value::Array(a) => a.iter().any(forbidden),
		Value::Object(_) => {
			if let Some(m) = v["method"].as_str() {
				if FORBIDDEN_METHODS.contains(&m) {
					return true;
				}
				if m == "receive_tx" {
					let p = &v["params"];
					let dest = if p.is_array() { &p[2] } else { &p["dest"] };
					if !dest.is_null() {
						return true;
					}
				}
			}
			fn has_send_args(v: &Value) -> bool {
				match v {
					Value::Object(m) => m.iter().any(|(k, x)| (k == "send_args" && !x.is_null()) || has_send_args(x)),
					Value::Array(a) => a.iter().any(has_send_args),
					_ => false,
				}
			}
			has_send_args(v)
		}
		_ => false,
	}
}

fn rpc_result_ok(v: &Option<Value>) -> bool {
	match v {
		Some(Value::Array(a)) => a.iter().any(|x| !x["result"]["Ok"].is_null() || x["result"].get("Ok").is_some()),
		Some(x) => x["result"].get("Ok").is_some(),
		None => false,
	}
}

impl Prop for Rpc {
	type Case = RpcCase;
	fn id(&self) -> &'static str {
		"C09"
	}
	fn part(&self) -> &'static str {
		"rpc"
	}
	fn cases(&self, tier: Tier) -> u64 {
		tier.pick(10_000, 250_000)
	}
	fn shrink_iters(&self) -> u32 {
		100
	}
	fn strategy(&self, _tier: Tier) -> BoxedStrategy<RpcCase> {
		let g = prop_oneof![
			70 => prop::collection::vec(jmut_strategy(), 1..3).prop_map(RGen::Mut),
			8 => prop::collection::vec(tedit_strategy(), 1..3).prop_map(RGen::Text),
			5 => raw_bytes(64).prop_map(RGen::Raw),
			8 => prop::collection::vec(jmut_strategy(), 1..3).prop_map(RGen::Envelope),
			5 => (0u8..26, 0u8..5).prop_map(|(nonce_len, body)| RGen::EnvelopeFields { nonce_len, body }),
			1 => (any::<u16>(), any::<u16>()).prop_map(|(op, arg)| RGen::SweepNodes { op, arg }),
			1 => Just(RGen::SweepTextTrunc),
		];
		(prop_oneof![10 => Just(0u8), 2 => Just(1u8), 2 => Just(2u8), 12 => Just(3u8)], any::<u16>(), g)
			.prop_map(|(listener, seed, g)| RpcCase { listener, seed, g })
			.boxed()
	}
	fn rule(&self) -> String {
		"JSON-RPC bodies POSTed to the real handlers without sockets: ForeignAPIHandlerV2 (check_version, build_coinbase, receive_tx for 7 slates, finalize_tx, a batch) and OwnerAPIHandlerV3 (34 requests over 31 methods taking slates, slatepacks, proofs, addresses, ids, queries) - as plaintext without a session, as plaintext with a live session, and as AES-256-GCM ciphertext under the live session key whose plaintext is the generated input (any bytes); generators: 1-2 field mutations (operators of part json), text edits, random bytes, mutations of the encryption envelope, sweeps (one op over every node; every truncation). oracle: the handler future completes without unwinding; when the reply is not result.Ok the wallet's raw state is unchanged (key-index counters excepted). non-trivial = body is syntactically valid JSON (for ciphertext: envelope accepted and plaintext valid JSON)".into()
	}
	fn assumptions(&self) -> Vec<String> {
		vec![
			"requests naming lifecycle / file-system / thread / outbound-network methods (create_config, create_wallet, open_wallet, close_wallet, get_mnemonic, change_password, delete_wallet, set_top_level_directory, start_updater, stop_updater, set_tor_config, scan, scan_rewind_hash, create_mwixnet_req), a non-null receive_tx `dest` or non-null `send_args` are generated but not sent (counted as skipped:forbidden)".into(),
		]
	}
	fn run(&mut self, c: &RpcCase) -> Outcome {
		let mut out = Outcome::default();
		let mut fxb = self.fx.borrow_mut();
		let fx = &mut *fxb;
		let owner = c.listener % 4 != 0;
		let seeds = if owner { &fx.seeds.owner_rpc } else { &fx.seeds.foreign_rpc };
		let seed = seeds[idx(c.seed, seeds.len())].clone();
		out.class(format!("listener:{}", ["foreign", "owner-plain-nosession", "owner-plain-session", "owner-encrypted"][c.listener as usize % 4]));
		let method = if seed.is_array() { "batch".to_string() } else { seed["method"].as_str().unwrap_or("?").to_string() };
		out.class(format!("method:{}:{}", if owner { "owner" } else { "foreign" }, method));
		// never touch receive_tx's `dest` (outbound) - excluded from mutation
		let exclude = |p: &[Seg]| -> bool {
			if method != "receive_tx" {
				return false;
			}
			match (p.get(0), p.get(1)) {
				(Some(Seg::Key(k)), Some(Seg::Idx(2))) if k == "params" => true,
				(Some(Seg::Key(k)), Some(Seg::Key(d))) if k == "params" && d == "dest" => true,
				_ => false,
			}
		};
		let mut envelope_muts: Option<&Vec<JMut>> = None;
		let mut envelope_fields: Option<(u8, u8)> = None;
		let mut bodies: Vec<Vec<u8>> = vec![];
		match &c.g {
			RGen::Mut(m) => {
				let j = apply_jmuts(&seed, m, &exclude);
				jmut_classes(&mut out, &strip_params(&j.what));
				bodies.push(j.text.into_bytes());
			}
			RGen::Text(e) => {
				out.class("gen:text-edit");
				bodies.push(apply_tedits(&serde_json::to_string(&seed).unwrap(), e).into_bytes());
			}
			RGen::Raw(b) => {
				out.class("gen:raw");
				bodies.push(b.clone());
			}
			RGen::Envelope(m) => {
				out.class("gen:envelope");
				envelope_muts = Some(m);
				bodies.push(serde_json::to_vec(&seed).unwrap());
			}
			RGen::EnvelopeFields { nonce_len, body } => {
				out.class("gen:envelope-fields");
				envelope_fields = Some((*nonce_len, *body));
				bodies.push(serde_json::to_vec(&seed).unwrap());
			}
			RGen::SweepNodes { op, arg } => {
				for t in jgen_inputs(&seed, &JGen::SweepNodes { op: *op, arg: *arg }, &mut out, &exclude) {
					bodies.push(t.into_bytes());
				}
			}
			RGen::SweepTextTrunc => {
				for t in jgen_inputs(&seed, &JGen::SweepTextTrunc, &mut out, &exclude) {
					bodies.push(t.into_bytes());
				}
			}
		}
		let mut nt = false;
		let mut any_ok = false;
		let mut sent = 0u64;
		for body in &bodies {
			if body.len() > MAX_INPUT {
				out.class("skipped:too-long");
				continue;
			}
			let parsed: Option<Value> = serde_json::from_slice(body).ok();
			if let Some(v) = &parsed {
				if forbidden(v) {
					out.class("skipped:forbidden");
					continue;
				}
			}
			let prev = || match std::str::from_utf8(body) {
				Ok(s) => format!("text {:?}", text_preview(s)),
				Err(_) => format!("hex {}", hex_preview(body)),
			};
			sent += 1;
			let listener = c.listener % 4;
			let wire: Vec<u8> = match listener {
				0 => body.clone(),
				1 => {
					fx.clear_session_key();
					body.clone()
				}
				2 => {
					fx.set_session_key();
					body.clone()
				}
				_ => {
					fx.set_session_key();
					let mut nonce = [0u8; 12];
					nonce[0] = sent as u8;
					let mut env = encrypt_envelope(&fx.shared_key, body, nonce);
					if let Some((nl, bk)) = envelope_fields {
						let hexn: String = (0..nl as usize).map(|i| format!("{:02x}", if i == 0 { sent as u8 } else { 0 })).collect();
						env["params"]["nonce"] = Value::String(hexn);
						let cur = env["params"]["body_enc"].as_str().unwrap_or("").to_string();
						let nb = match bk % 5 {
							0 => cur,
							1 => String::new(),
							2 => base64::encode(&[1u8; 9]),
							3 => "!!not-base64!!".to_string(),
							_ => base64::encode(&[7u8; 64]),
						};
						env["params"]["body_enc"] = Value::String(nb);
					}
					match envelope_muts {
						// envelope mutations stay inside the envelope's own fields (params.nonce / params.body_enc / id)
						Some(m) => apply_jmuts(&env, m, &|p: &[Seg]| !matches!(p.first(), Some(Seg::Key(k)) if k == "params" || k == "id"))
							.text
							.into_bytes(),
						None => serde_json::to_vec(&env).unwrap(),
					}
				}
			};
			let ep = match listener {
				0 => "foreign.post",
				1 => "owner.post(plain,no-session)",
				2 => "owner.post(plain,session)",
				_ => "owner.post(encrypted)",
			};
			let fxr: &Fixture = fx;
			let r = call(&mut out, ep, &prev, || Ok::<_, ()>(fxr.post(owner, wire.clone())));
			if let Some(Ok((status, resp))) = r {
				out.class(format!("{}:http{}", ep, status));
				let inner = if listener == 3 { resp.as_ref().and_then(|r| decrypt_envelope(&fx.shared_key, r)) } else { resp.clone() };
				if listener == 3 {
					if inner.is_some() {
						out.class("owner.post(encrypted):reply-decrypts");
						if parsed.is_some() {
							nt = true;
						}
					}
				} else if parsed.is_some() {
					nt = true;
				}
				crate::rt::dbg(&format!("rpc reply http{}: {}", status, inner.as_ref().map(|v| text_preview(&v.to_string())).unwrap_or_default()));
				let mut ok = rpc_result_ok(&inner);
				// a request without "id" is a notification: executed, never answered (reply is an empty batch)
				let notification = match &parsed {
					Some(Value::Object(m)) => !m.contains_key("id"),
					Some(Value::Array(a)) => a.iter().any(|x| x.get("id").is_none()),
					_ => false,
				};
				if notification {
					out.class(format!("{}:notification", ep));
					ok = true;
				}
				out.class(format!("{}:{}", ep, if ok { "result-ok" } else { "result-err" }));
				if ok {
					any_ok = true;
				}
			}
		}
		if owner {
			fx.clear_session_key();
		}
		out.evals = Some(std::cmp::max(sent, 1));
		out.nontrivial = nt;
		fx.check_state(
			&mut out,
			any_ok,
			&format!("{}.{}", if owner { "owner" } else { "foreign" }, method),
			&format!("{} request ({})", if owner { "owner" } else { "foreign" }, method),
		);
		dedup_classes(&mut out);
		out
	}
}

/// class names for rpc mutations: keep the field path below the slate / args, drop array positions
fn strip_params(what: &str) -> String {
	what.replace(".params", "")
}

// =============================================================================================

pub fn gen_corpus(fx: &Fixture, dir: &std::path::Path) -> Result<(), String> {
	let w = |target: &str, name: &str, data: &[u8]| -> Result<(), String> {
		let d = dir.join(target);
		std::fs::create_dir_all(&d).map_err(|e| e.to_string())?;
		std::fs::write(d.join(name), data).map_err(|e| e.to_string())
	};
	let s = &fx.seeds;
	for p in &s.packs {
		w("slatepack_msg", &format!("{}.armor", p.name), p.armored.as_bytes())?;
		w("slatepack_msg", &format!("{}.json", p.name), p.json.as_bytes())?;
		w("slatepack_msg", &format!("{}.bin", p.name), &p.bin)?;
		w("bin", &format!("pack-{}.bin", p.name), &p.bin)?;
	}
	w("slatepack_msg", "scrypt.armor", {
		let mut sp = grin_wallet_libwallet::Slatepack::default();
		sp.payload = s.scrypt_age.clone();
		sp.mode = 1;
		seeds::pack_forms("x", &sp, true, false).armored.as_bytes()
	})?;
	for (i, n) in s.slate_names.iter().enumerate() {
		w("slate_json", &format!("{}.json", n), s.slate_json[i].as_bytes())?;
		w("bin", &format!("slate-{}.bin", n), &s.slate_bin[i])?;
	}
	for (i, p) in s.proofs.iter().enumerate() {
		w("slate_json", &format!("proof{}.json", i), serde_json::to_string(p).unwrap().as_bytes())?;
	}
	for (i, a) in s.addrs.iter().chain(s.onions.iter()).enumerate() {
		w("address", &format!("a{}", i), a.as_bytes())?;
	}
	for (i, r) in s.foreign_rpc.iter().enumerate() {
		w("foreign_rpc", &format!("r{}.json", i), serde_json::to_string(r).unwrap().as_bytes())?;
	}
	let keys: Vec<String> = fx.keys.iter().map(|k| grin_util::ToHex::to_hex(&k.as_bytes().to_vec())).collect();
	std::fs::write(dir.join("wallet_keys.txt"), keys.join("\n") + "\n").map_err(|e| e.to_string())?;
	Ok(())
}

fn want(args: &Args, p: &str) -> bool {
	args.part.as_deref().map(|x| x == p).unwrap_or(true)
}

pub fn run(args: &Args, rep: &mut Report) {
	let fx: Fx = Rc::new(RefCell::new(Fixture::new(args, "run")));
	if args.part.as_deref() == Some("gen-corpus") {
		let dir = std::env::var("C09_CORPUS_DIR").unwrap_or_else(|_| "fuzz/corpus".to_string());
		gen_corpus(&fx.borrow(), std::path::Path::new(&dir)).expect("corpus");
		return;
	}
	if want(args, "msg") {
		run_part(&mut Msg { fx: fx.clone() }, args, rep);
	}
	if want(args, "enc") {
		run_part(&mut Enc { fx: fx.clone() }, args, rep);
	}
	if want(args, "json") {
		run_part(&mut Json { fx: fx.clone() }, args, rep);
	}
	if want(args, "bin") {
		run_part(&mut Bin { fx: fx.clone() }, args, rep);
	}
	if want(args, "addr") {
		run_part(&mut Addr { fx: fx.clone() }, args, rep);
	}
	if want(args, "proof") {
		run_part(&mut Proof { fx: fx.clone() }, args, rep);
	}
	if want(args, "rpc") {
		run_part(&mut Rpc { fx: fx.clone() }, args, rep);
	}
	rep.extra.insert("wallet_resets".into(), json!(fx.borrow().resets));
	super::EP_STATS.with(|m| {
		let m = m.borrow();
		let calls: serde_json::Map<String, Value> = m.iter().map(|(k, v)| (k.clone(), json!(v.0))).collect();
		rep.extra.insert("entry_point_calls".into(), Value::Object(calls));
		if std::env::var("C09_TIMING").is_ok() {
			let us: serde_json::Map<String, Value> = m.iter().map(|(k, v)| (k.clone(), json!(v.1))).collect();
			rep.extra.insert("entry_point_micros".into(), Value::Object(us));
		}
	});
}

pub fn replay(args: &Args, part: &str, case: &Value) -> Result<Outcome, String> {
	let fx: Fx = Rc::new(RefCell::new(Fixture::new(args, "replay")));
	match part {
		"msg" => replay_part(&mut Msg { fx }, case),
		"enc" => replay_part(&mut Enc { fx }, case),
		"json" => replay_part(&mut Json { fx }, case),
		"bin" => replay_part(&mut Bin { fx }, case),
		"addr" => replay_part(&mut Addr { fx }, case),
		"proof" => replay_part(&mut Proof { fx }, case),
		"rpc" => replay_part(&mut Rpc { fx }, case),
		_ => Err(format!("unknown part {}", part)),
	}
}
