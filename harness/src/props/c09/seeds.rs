//! Valid seed encodings for C09, produced by the repo's own encoders from structurally generated
//! slates. Everything is deterministic except age ciphertexts (ephemeral keys, grease stanzas).

use ed25519_dalek::{Keypair, PublicKey as DalekPublicKey, SecretKey as DalekSecretKey, Signer};
use grin_core::core::FeeFields;
use grin_core::libtx::{aggsig, proof, ProofBuilder};
use grin_keychain::{BlindingFactor, ExtKeychain, Keychain, SwitchCommitmentType};
use grin_util::secp::key::{PublicKey, SecretKey};
use grin_util::secp::pedersen::{Commitment, RangeProof};
use grin_util::secp::{Message, Signature};
use grin_util::{static_secp_instance, ToHex};
use grin_wallet_libwallet::slate_versions::v4::{
	CommitsV4, KernelFeaturesArgsV4, OutputFeaturesV4, ParticipantDataV4, PaymentInfoV4, SlateStateV4, SlateV4,
	VersionCompatInfoV4,
};
use grin_wallet_libwallet::slate_versions::v4_bin::SlateV4Bin;
use grin_wallet_libwallet::verif_hooks::tx as itx;
use grin_wallet_libwallet::{
	PaymentProof, Slate, Slatepack, SlatepackAddress, SlatepackArmor, SlatepackBin, Slatepacker, SlatepackerArgs,
	VersionedBinSlate, VersionedSlate,
};
use grin_wallet_util::byte_ser;
use grin_wallet_util::OnionV3Address;
use serde_json::{json, Value};
use sha2::{Digest, Sha256};
use std::convert::TryFrom;
use uuid::Uuid;

pub const ENTROPY: [u8; 32] = [0x42; 32];

pub fn mnemonic() -> String {
	grin_keychain::mnemonic::from_entropy(&ENTROPY).unwrap()
}

pub fn sk(n: u8) -> SecretKey {
	let secp = static_secp_instance();
	let secp = secp.lock();
	SecretKey::from_slice(&secp, &[n; 32]).unwrap()
}

pub fn pk(n: u8) -> PublicKey {
	let s = sk(n);
	let secp = static_secp_instance();
	let secp = secp.lock();
	PublicKey::from_secret_key(&secp, &s).unwrap()
}

pub fn ed(n: u8) -> Keypair {
	let secret = DalekSecretKey::from_bytes(&[n; 32]).unwrap();
	let public = DalekPublicKey::from(&secret);
	Keypair { secret, public }
}

pub fn commit(value: u64, n: u8) -> Commitment {
	let s = sk(n);
	let secp = static_secp_instance();
	let secp = secp.lock();
	secp.commit(value, s).unwrap()
}

fn part_sig(n: u8) -> Signature {
	let k = sk(n);
	let nonce = sk(n.wrapping_add(100));
	let secp = static_secp_instance();
	let secp = secp.lock();
	let pn = PublicKey::from_secret_key(&secp, &nonce).unwrap();
	let pkk = PublicKey::from_secret_key(&secp, &k).unwrap();
	let msg = Message::from_slice(&[7u8; 32]).unwrap();
	aggsig::calculate_partial_sig(&secp, &k, &nonce, &pn, Some(&pkk), &msg).unwrap()
}

fn real_output(value: u64, n: u32) -> (Commitment, RangeProof) {
	let kc = ExtKeychain::from_seed(&[3u8; 32], false).unwrap();
	let kid = ExtKeychain::derive_key_id(3, 0, 0, n, 0);
	let c = kc.commit(value, &kid, SwitchCommitmentType::Regular).unwrap();
	let p = proof::create(&kc, &ProofBuilder::new(&kc), value, &kid, SwitchCommitmentType::Regular, c, None).unwrap();
	(c, p)
}

fn fake_proof(fill: u8) -> RangeProof {
	let mut p = RangeProof::zero();
	for (i, b) in p.proof.iter_mut().enumerate() {
		*b = fill.wrapping_add(i as u8);
	}
	p.plen = 675;
	p
}

pub struct PackSeed {
	pub name: String,
	pub encrypted: bool,
	/// can the wallet (index 0..2) decrypt it
	pub for_wallet: bool,
	pub armored: String,
	pub bin: Vec<u8>,
	pub json: String,
}

pub struct Seeds {
	pub slate_names: Vec<String>,
	pub slates: Vec<SlateV4>,
	pub slate_json: Vec<String>,
	pub slate_json_val: Vec<Value>,
	pub slate_bin: Vec<Vec<u8>>,
	pub packs: Vec<PackSeed>,
	/// index of plain (unencrypted) packs in `packs`
	pub plain_packs: Vec<usize>,
	pub addrs: Vec<String>,
	pub onions: Vec<String>,
	pub proofs: Vec<Value>,
	pub proof_excess: Vec<Commitment>,
	pub foreign_rpc: Vec<Value>,
	pub owner_rpc: Vec<Value>,
	pub wallet_addrs: Vec<SlatepackAddress>,
	pub other_addr: SlatepackAddress,
	pub scrypt_age: Vec<u8>,
}

fn base_slate(sta: SlateStateV4, idb: u8) -> SlateV4 {
	SlateV4 {
		ver: VersionCompatInfoV4 {
			version: 4,
			block_header_version: 3,
		},
		id: Uuid::from_bytes([idb; 16]),
		sta,
		off: BlindingFactor::zero(),
		num_parts: 2,
		amt: 0,
		fee: FeeFields::zero(),
		feat: 0,
		ttl: 0,
		sigs: vec![],
		coms: None,
		proof: None,
		feat_args: None,
	}
}

pub fn gen_slates(wallet0: &DalekPublicKey) -> Vec<(String, SlateV4)> {
	let mut v = vec![];
	let (c1, p1) = real_output(1_000_000_000, 1);
	let part = |n: u8, with: bool| ParticipantDataV4 {
		xs: pk(n),
		nonce: pk(n + 1),
		part: if with { Some(part_sig(n)) } else { None },
	};
	let sender = ed(1);
	let rsig = {
		let msg = itx::payment_proof_message(6_000_000_000, &commit(0, 21), sender.public).unwrap();
		ed(5).sign(&msg)
	};
	// S1 minimal
	let mut s = base_slate(SlateStateV4::Standard1, 0x11);
	s.off = BlindingFactor::from_secret_key(sk(9));
	s.amt = 6_000_000_000;
	s.fee = FeeFields::new(0, 23_500_000).unwrap();
	s.sigs = vec![part(1, false)];
	v.push(("s1".to_string(), s.clone()));
	// S1 with payment proof request (recipient = the wallet) and ttl
	let mut s1p = s.clone();
	s1p.id = Uuid::from_bytes([0x12; 16]);
	s1p.ttl = 1000;
	s1p.proof = Some(PaymentInfoV4 {
		saddr: sender.public,
		raddr: *wallet0,
		rsig: None,
	});
	v.push(("s1p".to_string(), s1p));
	// S2 (compact reply)
	let mut s2 = base_slate(SlateStateV4::Standard2, 0x13);
	s2.off = BlindingFactor::from_secret_key(sk(10));
	s2.sigs = vec![part(3, true)];
	s2.coms = Some(vec![CommitsV4 {
		f: OutputFeaturesV4(0),
		c: c1,
		p: Some(p1),
	}]);
	s2.proof = Some(PaymentInfoV4 {
		saddr: sender.public,
		raddr: ed(5).public,
		rsig: Some(rsig),
	});
	v.push(("s2".to_string(), s2));
	// S3 full
	let mut s3 = base_slate(SlateStateV4::Standard3, 0x14);
	s3.off = BlindingFactor::from_secret_key(sk(11));
	s3.amt = 6_000_000_000;
	s3.fee = FeeFields::new(0, 23_500_000).unwrap();
	s3.sigs = vec![part(1, true), part(3, true)];
	s3.coms = Some(vec![
		CommitsV4 {
			f: OutputFeaturesV4(0),
			c: commit(7_000_000_000, 30),
			p: None,
		},
		CommitsV4 {
			f: OutputFeaturesV4(1),
			c: commit(60_000_000_000, 31),
			p: None,
		},
		CommitsV4 {
			f: OutputFeaturesV4(0),
			c: c1,
			p: Some(p1),
		},
		CommitsV4 {
			f: OutputFeaturesV4(0),
			c: commit(5, 32),
			p: Some(fake_proof(3)),
		},
	]);
	s3.proof = Some(PaymentInfoV4 {
		saddr: sender.public,
		raddr: ed(5).public,
		rsig: Some(rsig),
	});
	v.push(("s3".to_string(), s3));
	// I1
	let mut i1 = base_slate(SlateStateV4::Invoice1, 0x15);
	i1.amt = 2_000_000_000;
	i1.off = BlindingFactor::from_secret_key(sk(12));
	i1.sigs = vec![part(5, false)];
	v.push(("i1".to_string(), i1));
	// I2
	let mut i2 = base_slate(SlateStateV4::Invoice2, 0x16);
	i2.off = BlindingFactor::from_secret_key(sk(13));
	i2.fee = FeeFields::new(0, 23_500_000).unwrap();
	i2.sigs = vec![part(7, true)];
	i2.coms = Some(vec![
		CommitsV4 {
			f: OutputFeaturesV4(1),
			c: commit(60_000_000_000, 33),
			p: None,
		},
		CommitsV4 {
			f: OutputFeaturesV4(0),
			c: commit(9, 34),
			p: Some(fake_proof(9)),
		},
	]);
	v.push(("i2".to_string(), i2));
	// every optional field on
	let mut odd = base_slate(SlateStateV4::Standard1, 0x17);
	odd.off = BlindingFactor::from_secret_key(sk(14));
	odd.num_parts = 3;
	odd.amt = u64::MAX;
	odd.fee = FeeFields::new(3, 1_000_000).unwrap();
	odd.feat = 2;
	odd.feat_args = Some(KernelFeaturesArgsV4 { lock_hgt: 1_234_567 });
	odd.ttl = (1u64 << 40) + 1;
	odd.sigs = vec![part(1, false), part(3, true), part(5, false)];
	odd.coms = Some(vec![CommitsV4 {
		f: OutputFeaturesV4(0),
		c: commit(1, 35),
		p: None,
	}]);
	odd.proof = Some(PaymentInfoV4 {
		saddr: sender.public,
		raddr: *wallet0,
		rsig: None,
	});
	v.push(("odd".to_string(), odd));
	v
}

pub fn slate_bin(s: &SlateV4) -> Vec<u8> {
	byte_ser::to_bytes(&VersionedBinSlate::V4(SlateV4Bin(s.clone()))).unwrap()
}

pub fn slate_json(s: &SlateV4) -> String {
	serde_json::to_string(&VersionedSlate::V4(s.clone())).unwrap()
}

fn sha256d4(b: &[u8]) -> [u8; 4] {
	let a = Sha256::digest(b);
	let c = Sha256::digest(&a);
	[c[0], c[1], c[2], c[3]]
}

/// Independent armor encoder (valid check code over arbitrary inner bytes); `check_delta` corrupts the code.
pub fn armor_raw(inner: &[u8], words: bool, check_delta: u8) -> String {
	let mut buf = sha256d4(inner).to_vec();
	buf[0] = buf[0].wrapping_add(check_delta);
	buf.extend_from_slice(inner);
	let b58 = bs58::encode(buf).into_string();
	let body = format!("BEGINSLATEPACK.{}", b58);
	let mut s = String::new();
	if words {
		for (i, c) in body.chars().enumerate() {
			if i != 0 && i % 15 == 0 {
				s.push(if i % 3000 == 0 { '\n' } else { ' ' });
			}
			s.push(c);
		}
	} else {
		s = body;
	}
	s.push_str(". ENDSLATEPACK.");
	if words {
		s.push('\n');
	}
	s
}

pub fn addr_of(k: &DalekPublicKey) -> SlatepackAddress {
	SlatepackAddress::new(k)
}

/// Metadata prefix exactly as `SlatepackEncMetadataBin` writes it.
pub fn enc_meta_bytes(sender: Option<&SlatepackAddress>, recips: &[SlatepackAddress]) -> Vec<u8> {
	let mut body = vec![];
	let mut flags = 0u16;
	if sender.is_some() {
		flags |= 1;
	}
	if !recips.is_empty() {
		flags |= 2;
	}
	body.extend_from_slice(&flags.to_be_bytes());
	let put = |body: &mut Vec<u8>, a: &SlatepackAddress| {
		let s = String::try_from(a).unwrap();
		body.push(s.len() as u8);
		body.extend_from_slice(s.as_bytes());
	};
	if let Some(a) = sender {
		put(&mut body, a);
	}
	if !recips.is_empty() {
		body.extend_from_slice(&(recips.len() as u16).to_be_bytes());
		for r in recips {
			put(&mut body, r);
		}
	}
	let mut out = (body.len() as u32).to_be_bytes().to_vec();
	out.extend_from_slice(&body);
	out
}

/// age-encrypt arbitrary bytes to slatepack addresses (same recipe as `try_encrypt_payload`).
pub fn age_encrypt(plain: &[u8], recips: &[SlatepackAddress]) -> Vec<u8> {
	use std::io::Write;
	let keys: Vec<Box<dyn age::Recipient>> = recips
		.iter()
		.map(|a| {
			let k: age::x25519::Recipient = a.to_age_pubkey_str().unwrap().parse().unwrap();
			Box::new(k) as Box<dyn age::Recipient>
		})
		.collect();
	let enc = age::Encryptor::with_recipients(keys);
	let mut out = vec![];
	let mut w = enc.wrap_output(&mut out).unwrap();
	w.write_all(plain).unwrap();
	w.finish().unwrap();
	out
}

/// Hand-made age v1 file whose only stanza is `scrypt` (a passphrase-type file) - no key stretching needed
/// because the header type is decided before any key is derived.
pub fn scrypt_age_file() -> Vec<u8> {
	let salt = base64::encode_config(&[5u8; 16], base64::STANDARD_NO_PAD);
	let body = base64::encode_config(&[6u8; 32], base64::STANDARD_NO_PAD);
	let mac = base64::encode_config(&[7u8; 32], base64::STANDARD_NO_PAD);
	let mut f = format!("age-encryption.org/v1\n-> scrypt {} 1\n{}\n--- {}\n", salt, body, mac).into_bytes();
	f.extend_from_slice(&[9u8; 16]); // nonce
	f.extend_from_slice(&[1u8; 40]); // "payload"
	f
}

pub fn pack_forms(name: &str, sp: &Slatepack, encrypted: bool, for_wallet: bool) -> PackSeed {
	PackSeed {
		name: name.to_string(),
		encrypted,
		for_wallet,
		armored: SlatepackArmor::encode(sp).unwrap(),
		bin: byte_ser::to_bytes(&SlatepackBin(sp.clone())).unwrap(),
		json: serde_json::to_string(sp).unwrap(),
	}
}

fn rpc(method: &str, params: Value) -> Value {
	json!({"jsonrpc": "2.0", "method": method, "params": params, "id": 1})
}

pub fn build(wallet_keys: &[DalekSecretKey]) -> Seeds {
	let wallet_pubs: Vec<DalekPublicKey> = wallet_keys.iter().map(DalekPublicKey::from).collect();
	let wallet_addrs: Vec<SlatepackAddress> = wallet_pubs.iter().map(addr_of).collect();
	let other = ed(77);
	let other_addr = addr_of(&other.public);
	let sender_addr = addr_of(&ed(1).public);

	let named = gen_slates(&wallet_pubs[0]);
	let slate_names: Vec<String> = named.iter().map(|x| x.0.clone()).collect();
	let slates: Vec<SlateV4> = named.iter().map(|x| x.1.clone()).collect();
	let slate_json_v: Vec<String> = slates.iter().map(slate_json).collect();
	let slate_json_val: Vec<Value> = slate_json_v.iter().map(|s| serde_json::from_str(s).unwrap()).collect();
	let slate_bin_v: Vec<Vec<u8>> = slates.iter().map(slate_bin).collect();

	// slatepacks
	let mut packs = vec![];
	let mut plain_packs = vec![];
	for (i, s) in slates.iter().enumerate() {
		let slate: Slate = Slate::from(s.clone());
		let nm = &slate_names[i];
		let mk = |sender: Option<SlatepackAddress>, recips: Vec<SlatepackAddress>| {
			let p = Slatepacker::new(SlatepackerArgs {
				sender,
				recipients: recips,
				dec_key: None,
			});
			p.create_slatepack(&slate).unwrap()
		};
		plain_packs.push(packs.len());
		packs.push(pack_forms(&format!("{}-plain", nm), &mk(None, vec![]), false, false));
		if i % 2 == 0 {
			plain_packs.push(packs.len());
			packs.push(pack_forms(&format!("{}-plain-sender", nm), &mk(Some(sender_addr.clone()), vec![]), false, false));
		}
		if i <= 3 || i == 6 {
			packs.push(pack_forms(
				&format!("{}-enc-w0", nm),
				&mk(Some(sender_addr.clone()), vec![wallet_addrs[0].clone()]),
				true,
				true,
			));
		}
		if i == 0 {
			packs.push(pack_forms(&format!("{}-enc-w1-nosender", nm), &mk(None, vec![wallet_addrs[1].clone()]), true, true));
			packs.push(pack_forms(
				&format!("{}-enc-other-w0", nm),
				&mk(Some(sender_addr.clone()), vec![other_addr.clone(), wallet_addrs[0].clone()]),
				true,
				true,
			));
			packs.push(pack_forms(&format!("{}-enc-other", nm), &mk(Some(sender_addr.clone()), vec![other_addr.clone()]), true, false));
		}
	}

	// addresses
	let mut addrs = vec![];
	for a in wallet_addrs.iter().take(2).chain(std::iter::once(&other_addr)) {
		addrs.push(String::try_from(a).unwrap());
	}
	addrs.push(
		String::try_from(&SlatepackAddress {
			hrp: "grin".into(),
			pub_key: wallet_pubs[0],
		})
		.unwrap(),
	);
	addrs.push(String::try_from(&wallet_addrs[0]).unwrap().to_uppercase());
	addrs.push(
		String::try_from(&SlatepackAddress {
			hrp: "slatepack".into(),
			pub_key: other.public,
		})
		.unwrap(),
	);
	let mut onions = vec![];
	for k in &[wallet_pubs[0], other.public] {
		let o = OnionV3Address::from_bytes(k.to_bytes());
		onions.push(o.to_ov3_str());
		onions.push(o.to_http_str());
		onions.push(format!("{}.onion", o.to_ov3_str()));
		onions.push(o.to_ov3_str().to_uppercase());
		onions.push(k.to_bytes().to_hex());
	}

	// payment proofs (valid signatures)
	let mut proofs = vec![];
	let mut proof_excess = vec![];
	let wallet_kp = |i: usize| Keypair {
		secret: DalekSecretKey::from_bytes(wallet_keys[i].as_bytes()).unwrap(),
		public: wallet_pubs[i],
	};
	for (n, (sender_kp, recip_kp, amount)) in vec![
		(wallet_kp(0), ed(5), 60_000_000_000u64),
		(ed(5), wallet_kp(0), 1u64),
		(ed(5), ed(6), u64::MAX),
	]
	.into_iter()
	.enumerate()
	{
		let excess = commit(0, 40 + n as u8);
		let msg = itx::payment_proof_message(amount, &excess, sender_kp.public).unwrap();
		let p = PaymentProof {
			amount,
			excess,
			recipient_address: addr_of(&recip_kp.public),
			recipient_sig: recip_kp.sign(&msg),
			sender_address: addr_of(&sender_kp.public),
			sender_sig: sender_kp.sign(&msg),
		};
		proofs.push(serde_json::to_value(&p).unwrap());
		proof_excess.push(excess);
	}

	// JSON-RPC requests
	let sj = |i: usize| slate_json_val[i].clone();
	let mut foreign_rpc = vec![
		rpc("check_version", json!([])),
		rpc("build_coinbase", json!([{"fees": 0, "height": 1, "key_id": null}])),
		rpc("build_coinbase", json!({"block_fees": {"fees": 7, "height": 2, "key_id": "0300000000000000000000000400000000"}})),
	];
	for i in 0..slates.len() {
		foreign_rpc.push(rpc("receive_tx", json!([sj(i), null, null])));
	}
	foreign_rpc.push(rpc("receive_tx", json!({"slate": sj(1), "dest_acct_name": "default", "dest": null})));
	foreign_rpc.push(rpc("receive_tx", json!([sj(4), "nope", null])));
	foreign_rpc.push(rpc("finalize_tx", json!([sj(5)])));
	foreign_rpc.push(rpc("finalize_tx", json!([sj(2)])));
	foreign_rpc.push(json!([rpc("check_version", json!([])), rpc("finalize_tx", json!([sj(3)]))]));

	let armored = |i: usize| Value::String(packs[i].armored.clone());
	let enc_pack = packs.iter().position(|p| p.encrypted && p.for_wallet).unwrap();
	let t = Value::Null; // token of an unmasked wallet
	let mut owner_rpc = vec![
		rpc("accounts", json!({"token": t})),
		rpc("create_account_path", json!({"token": t, "label": "acct-x"})),
		rpc("set_active_account", json!({"token": t, "label": "default"})),
		rpc("retrieve_outputs", json!({"token": t, "include_spent": false, "refresh_from_node": true, "tx_id": null})),
		rpc("retrieve_txs", json!({"token": t, "refresh_from_node": true, "tx_id": null, "tx_slate_id": null})),
		rpc(
			"retrieve_txs",
			json!({"token": t, "refresh_from_node": false, "tx_id": 0, "tx_slate_id": "0436430c-2b02-624c-2032-570501212b00"}),
		),
		rpc(
			"query_txs",
			json!({"token": t, "refresh_from_node": true, "query": {
				"min_id": 0, "max_id": 100, "min_amount": "0", "max_amount": "60000000000", "sort_field": "Id", "sort_order": "Asc",
				"exclude_cancelled": true, "include_outstanding_only": false, "include_confirmed_only": false,
				"include_sent_only": false, "include_received_only": false, "include_coinbase_only": false, "include_reverted_only": false,
				"min_creation_timestamp": "2019-01-15T16:01:26Z", "max_creation_timestamp": null,
				"min_confirmed_timestamp": null, "max_confirmed_timestamp": null, "limit": 10
			}}),
		),
		rpc("retrieve_summary_info", json!({"token": t, "refresh_from_node": true, "minimum_confirmations": 1})),
		rpc(
			"init_send_tx",
			json!({"token": t, "args": {
				"src_acct_name": null, "amount": "6000000000", "amount_includes_fee": false, "minimum_confirmations": 2,
				"max_outputs": 500, "num_change_outputs": 1, "selection_strategy_is_use_all": true, "target_slate_version": null,
				"payment_proof_recipient_address": addrs[2].clone(), "ttl_blocks": null, "send_args": null,
				"estimate_only": false, "late_lock": false
			}}),
		),
		rpc("issue_invoice_tx", json!({"token": t, "args": {"amount": "6000000000", "dest_acct_name": null, "target_slate_version": null}})),
		rpc(
			"process_invoice_tx",
			json!({"token": t, "slate": sj(4), "args": {
				"src_acct_name": null, "amount": "0", "minimum_confirmations": 2, "max_outputs": 500, "num_change_outputs": 1,
				"selection_strategy_is_use_all": true, "target_slate_version": null, "payment_proof_recipient_address": null,
				"ttl_blocks": null, "send_args": null
			}}),
		),
		rpc("tx_lock_outputs", json!({"token": t, "slate": sj(0)})),
		rpc("finalize_tx", json!({"token": t, "slate": sj(2)})),
		rpc("post_tx", json!({"token": t, "slate": sj(3), "fluff": false})),
		rpc("cancel_tx", json!({"token": t, "tx_id": null, "tx_slate_id": "0436430c-2b02-624c-2032-570501212b00"})),
		rpc("get_stored_tx", json!({"token": t, "id": null, "slate_id": "0436430c-2b02-624c-2032-570501212b00"})),
		rpc("get_rewind_hash", json!({"token": t})),
		rpc("node_height", json!({"token": t})),
		rpc("get_slatepack_address", json!({"token": t, "derivation_index": 0})),
		rpc("get_slatepack_secret_key", json!({"token": t, "derivation_index": 0})),
		rpc(
			"create_slatepack_message",
			json!({"token": t, "sender_index": 0, "recipients": [addrs[2].clone()], "slate": sj(0)}),
		),
		rpc("create_slatepack_message", json!({"token": t, "sender_index": null, "recipients": [], "slate": sj(3)})),
		rpc("slate_from_slatepack_message", json!({"token": t, "secret_indices": [0], "message": armored(0)})),
		rpc("slate_from_slatepack_message", json!({"token": t, "secret_indices": [1, 0], "message": armored(enc_pack)})),
		rpc("decode_slatepack_message", json!({"token": t, "secret_indices": [0], "message": armored(enc_pack)})),
		rpc("decode_slatepack_message", json!({"token": t, "secret_indices": [], "message": armored(1)})),
		rpc(
			"retrieve_payment_proof",
			json!({"token": t, "refresh_from_node": true, "tx_id": null, "tx_slate_id": "0436430c-2b02-624c-2032-570501212b00"}),
		),
		rpc("verify_payment_proof", json!({"token": t, "proof": proofs[0].clone()})),
		rpc("verify_payment_proof", json!({"token": t, "proof": proofs[1].clone()})),
		rpc(
			"build_output",
			json!({"token": t, "features": "Plain", "amount": "60000000000"}),
		),
		rpc("get_top_level_directory", json!({})),
		rpc("get_updater_messages", json!({"count": 1})),
		rpc(
			"init_secure_api",
			json!({"ecdh_pubkey": pk(50).serialize_vec(&static_secp_instance().lock(), true).to_vec().to_hex()}),
		),
	];
	owner_rpc.push(json!([owner_rpc[0].clone(), owner_rpc[17].clone()]));

	Seeds {
		slate_names,
		slates,
		slate_json: slate_json_v,
		slate_json_val,
		slate_bin: slate_bin_v,
		packs,
		plain_packs,
		addrs,
		onions,
		proofs,
		proof_excess,
		foreign_rpc,
		owner_rpc,
		wallet_addrs,
		other_addr,
		scrypt_age: scrypt_age_file(),
	}
}
