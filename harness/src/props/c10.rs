//! C10 — encrypted slatepacks are readable only by their recipients and tamper-evident.
//!
//! Part `enc`  : slate -> encrypted slatepack (owner API / Slatepacker / Slatepack::try_encrypt_payload) ->
//!               (1) every recipient key decrypts to the same slate + sender, (2) no other key does,
//!               (3) leak search over the binary and JSON forms, (4) single-byte tampering of the age
//!               container (re-armored with a correct checksum) is rejected.
//! Part `armor`: unencrypted armored slatepacks: every single-character change / drop / insert / adjacent
//!               transposition is rejected or decodes to the same slate; a different slate may only be accepted
//!               when the 4-byte SHA-256d check really matches (checksum collision).

use crate::node::DirectNode;
use crate::rt::*;
use crate::world::{self, Wal};
use ed25519_dalek::PublicKey as DalekPublicKey;
use ed25519_dalek::SecretKey as DalekSecretKey;
use ed25519_dalek::Signature as DalekSignature;
use grin_core::core::FeeFields;
use grin_keychain::BlindingFactor;
use grin_util::secp::key::{PublicKey, SecretKey};
use grin_util::secp::pedersen::{Commitment, RangeProof};
use grin_util::secp::Signature;
use grin_util::static_secp_instance;
use grin_wallet_libwallet::slate_versions::v4::{
	CommitsV4, KernelFeaturesArgsV4, OutputFeaturesV4, ParticipantDataV4, PaymentInfoV4, SlateStateV4, SlateV4,
	VersionCompatInfoV4,
};
use grin_wallet_libwallet::{
	Slate, SlateVersion, Slatepack, SlatepackAddress, SlatepackBin, Slatepacker, SlatepackerArgs, VersionedBinSlate,
	VersionedSlate, CURRENT_SLATE_VERSION, GRIN_BLOCK_HEADER_VERSION,
};
use grin_wallet_impls::{PathToSlatepack, SlatePutter};
use grin_wallet_util::byte_ser;
use proptest::prelude::*;
use serde_derive::{Deserialize, Serialize};
use serde_json::{json, Value};
use sha2::{Digest, Sha256};
use std::collections::{BTreeSet, HashSet};
use std::convert::TryFrom;

// ---------------------------------------------------------------------------------------------
// deterministic expansion of case seeds

fn expand(seed: u64, tag: &str, n: usize) -> Vec<u8> {
	let mut out = Vec::with_capacity(n + 32);
	let mut ctr = 0u32;
	while out.len() < n {
		let mut h = Sha256::new();
		h.update(b"c10-expand");
		h.update(seed.to_le_bytes());
		h.update(tag.as_bytes());
		h.update(ctr.to_le_bytes());
		out.extend_from_slice(&h.finalize());
		ctr += 1;
	}
	out.truncate(n);
	out
}

fn mix(salt: u64, pos: u64) -> u64 {
	// splitmix64 finaliser over (salt, pos): a pure function of the case
	let mut z = salt ^ pos.wrapping_mul(0x9E37_79B9_7F4A_7C15).wrapping_add(0xD1B5_4A32_D192_ED03);
	z = (z ^ (z >> 30)).wrapping_mul(0xBF58_476D_1CE4_E5B9);
	z = (z ^ (z >> 27)).wrapping_mul(0x94D0_49BB_1331_11EB);
	z ^ (z >> 31)
}

fn secp_pub(seed: u64, tag: &str) -> PublicKey {
	let secp = static_secp_instance();
	let secp = secp.lock();
	let mut k = 0u32;
	loop {
		let b = expand(seed, &format!("{}#{}", tag, k), 32);
		if let Ok(sk) = SecretKey::from_slice(&secp, &b) {
			return PublicKey::from_secret_key(&secp, &sk).expect("pubkey");
		}
		k += 1;
	}
}

fn secp_commit(seed: u64, tag: &str) -> Commitment {
	let secp = static_secp_instance();
	let secp = secp.lock();
	let mut k = 0u32;
	loop {
		let b = expand(seed, &format!("{}#{}", tag, k), 40);
		if let Ok(sk) = SecretKey::from_slice(&secp, &b[0..32]) {
			let mut v = [0u8; 8];
			v.copy_from_slice(&b[32..40]);
			return secp.commit(u64::from_le_bytes(v) >> 20, sk).expect("commit");
		}
		k += 1;
	}
}

fn ed_secret(seed: u64, tag: &str) -> [u8; 32] {
	let b = expand(seed, tag, 32);
	let mut r = [0u8; 32];
	r.copy_from_slice(&b);
	r
}

fn ed_pub(sec: &[u8; 32]) -> DalekPublicKey {
	DalekPublicKey::from(&DalekSecretKey::from_bytes(sec).expect("32 bytes"))
}

fn ed_sig(seed: u64, tag: &str) -> DalekSignature {
	let mut b = expand(seed, tag, 64);
	b[63] &= 0x1f; // canonical encoding: the three top bits of s are clear, as in any real signature
	DalekSignature::try_from(&b[..]).expect("signature bytes")
}

// ---------------------------------------------------------------------------------------------
// slate generator (structural; simpler than C08's)

#[derive(Clone, Debug, Serialize, Deserialize)]
pub struct PartSpec {
	pub xs: u64,
	pub nonce: u64,
	pub sig: Option<u64>,
}

#[derive(Clone, Debug, Serialize, Deserialize)]
pub struct ProofSpec {
	pub saddr: u64,
	pub raddr: u64,
	pub rsig: Option<u64>,
}

#[derive(Clone, Debug, Serialize, Deserialize)]
pub struct ComSpec {
	pub seed: u64,
	pub coinbase: bool,
}

#[derive(Clone, Debug, Serialize, Deserialize)]
pub struct TxSpec {
	pub inputs: Vec<ComSpec>,
	pub outputs: Vec<ComSpec>,
}

#[derive(Clone, Debug, Serialize, Deserialize)]
pub struct SlateSpec {
	/// 0 Unknown, 1..3 Standard1..3, 4..6 Invoice1..3
	pub state: u8,
	pub num_participants: u8,
	pub id: u64,
	pub amount: u64,
	pub fee: u64,
	pub fee_shift: u8,
	pub ttl: u64,
	/// Some => height-locked kernel (feat 2) with this lock height
	pub lock_height: Option<u64>,
	pub offset: Option<u64>,
	pub parts: Vec<PartSpec>,
	pub proof: Option<ProofSpec>,
	pub tx: Option<TxSpec>,
}

fn amount_strategy() -> BoxedStrategy<u64> {
	prop_oneof![
		1 => Just(0u64),
		2 => 1u64..1000,
		6 => 1_000_000u64..500_000_000_000,
		1 => Just(u64::MAX),
		1 => any::<u64>(),
	]
	.boxed()
}

fn com_strategy() -> BoxedStrategy<ComSpec> {
	(any::<u64>(), prop::bool::weighted(0.15))
		.prop_map(|(seed, coinbase)| ComSpec { seed, coinbase })
		.boxed()
}

pub fn slate_strategy(max_outputs: usize) -> BoxedStrategy<SlateSpec> {
	let part = (any::<u64>(), any::<u64>(), prop::option::weighted(0.5, any::<u64>()))
		.prop_map(|(xs, nonce, sig)| PartSpec { xs, nonce, sig });
	let proof = (any::<u64>(), any::<u64>(), prop::option::weighted(0.5, any::<u64>()))
		.prop_map(|(saddr, raddr, rsig)| ProofSpec { saddr, raddr, rsig });
	let tx = (
		prop::collection::vec(com_strategy(), 0..4),
		prop::collection::vec(com_strategy(), 0..(max_outputs + 1)),
	)
		.prop_map(|(inputs, outputs)| TxSpec { inputs, outputs });
	(
		(
			0u8..7,
			prop_oneof![8 => Just(2u8), 1 => Just(1u8), 1 => Just(3u8), 1 => any::<u8>()],
			any::<u64>(),
			amount_strategy(),
			prop_oneof![2 => Just(0u64), 6 => 1u64..100_000_000, 1 => Just((1u64 << 40) - 1)],
			prop_oneof![4 => Just(0u8), 1 => 0u8..16],
		),
		(
			prop_oneof![3 => Just(0u64), 3 => 1u64..10_000_000, 1 => any::<u64>()],
			prop::option::weighted(0.2, prop_oneof![1 => Just(0u64), 4 => 1u64..10_000_000, 1 => any::<u64>()]),
			prop::option::weighted(0.7, any::<u64>()),
			prop::collection::vec(part, 1..3),
			prop::option::weighted(0.4, proof),
			prop::option::weighted(0.5, tx),
		),
	)
		.prop_map(
			|((state, num_participants, id, amount, fee, fee_shift), (ttl, lock_height, offset, parts, proof, tx))| SlateSpec {
				state,
				num_participants,
				id,
				amount,
				fee,
				fee_shift,
				ttl,
				lock_height,
				offset,
				parts,
				proof,
				tx,
			},
		)
		.boxed()
}

fn state_v4(s: u8) -> SlateStateV4 {
	match s % 7 {
		0 => SlateStateV4::Unknown,
		1 => SlateStateV4::Standard1,
		2 => SlateStateV4::Standard2,
		3 => SlateStateV4::Standard3,
		4 => SlateStateV4::Invoice1,
		5 => SlateStateV4::Invoice2,
		_ => SlateStateV4::Invoice3,
	}
}

const STATE_NAMES: [&str; 7] = ["UN", "S1", "S2", "S3", "I1", "I2", "I3"];

/// Materialise the spec as the wallet's in-memory `Slate`, the way a wallet obtains one from a V4 JSON slate.
pub fn build_slate(s: &SlateSpec) -> Slate {
	let idb = expand(s.id, "uuid", 16);
	let mut b = [0u8; 16];
	b.copy_from_slice(&idb);
	let id = uuid::Builder::from_bytes(b)
		.set_variant(uuid::Variant::RFC4122)
		.set_version(uuid::Version::Random)
		.build();
	let fee = if s.fee == 0 {
		FeeFields::zero()
	} else {
		FeeFields::new((s.fee_shift & 15) as u64, s.fee & ((1u64 << 40) - 1)).unwrap_or_else(|_| FeeFields::zero())
	};
	let off = match s.offset {
		None => BlindingFactor::zero(),
		Some(o) => BlindingFactor::from_slice(&expand(o, "offset", 32)),
	};
	let sigs = s
		.parts
		.iter()
		.map(|p| ParticipantDataV4 {
			xs: secp_pub(p.xs, "xs"),
			nonce: secp_pub(p.nonce, "nonce"),
			part: p.sig.map(|g| {
				let raw = expand(g, "partsig", 64);
				let mut a = [0u8; 64];
				a.copy_from_slice(&raw);
				Signature::from_raw_data(&a).expect("raw sig")
			}),
		})
		.collect();
	let coms = s.tx.as_ref().map(|t| {
		let mut v = vec![];
		for i in &t.inputs {
			v.push(CommitsV4 {
				f: OutputFeaturesV4(if i.coinbase { 1 } else { 0 }),
				c: secp_commit(i.seed, "in"),
				p: None,
			});
		}
		for o in &t.outputs {
			let pb = expand(o.seed, "proof", 675);
			let mut proof = [0u8; 675];
			proof.copy_from_slice(&pb);
			v.push(CommitsV4 {
				f: OutputFeaturesV4(if o.coinbase { 1 } else { 0 }),
				c: secp_commit(o.seed, "out"),
				p: Some(RangeProof { proof, plen: 675 }),
			});
		}
		v
	});
	let proof = s.proof.as_ref().map(|p| PaymentInfoV4 {
		saddr: ed_pub(&ed_secret(p.saddr, "saddr")),
		raddr: ed_pub(&ed_secret(p.raddr, "raddr")),
		rsig: p.rsig.map(|g| ed_sig(g, "rsig")),
	});
	let v4 = SlateV4 {
		ver: VersionCompatInfoV4 {
			version: CURRENT_SLATE_VERSION,
			block_header_version: GRIN_BLOCK_HEADER_VERSION,
		},
		id,
		sta: state_v4(s.state),
		off,
		num_parts: s.num_participants,
		amt: s.amount,
		fee,
		feat: if s.lock_height.is_some() { 2 } else { 0 },
		ttl: s.ttl,
		sigs,
		coms,
		proof,
		feat_args: s.lock_height.map(|h| KernelFeaturesArgsV4 { lock_hgt: h }),
	};
	Slate::from(v4)
}

/// All public fields of a slate (its V4 wire form) as a JSON value.
fn proj(s: &Slate) -> Value {
	serde_json::to_value(SlateV4::from(s)).unwrap_or(Value::Null)
}

/// The plaintext binary slate (what gets encrypted).
fn plaintext_of(slate: &Slate) -> Result<Vec<u8>, String> {
	let v = VersionedSlate::into_version(slate.clone(), SlateVersion::V4).map_err(|e| format!("into_version: {}", e))?;
	let b = VersionedBinSlate::try_from(v).map_err(|e| format!("bin slate: {}", e))?;
	byte_ser::to_bytes(&b).map_err(|e| format!("byte_ser: {}", e))
}

// ---------------------------------------------------------------------------------------------
// armor, independently of libwallet/src/slatepack/armor.rs

const HEADER: &str = "BEGINSLATEPACK.";
const FOOTER: &str = ". ENDSLATEPACK.";
const IGNORABLE: [char; 5] = ['>', '\n', '\r', '\t', ' '];

fn sha256d4(b: &[u8]) -> [u8; 4] {
	let a = Sha256::digest(b);
	let c = Sha256::digest(&a);
	[c[0], c[1], c[2], c[3]]
}

/// base58( sha256d(bin)[0..4] || bin ) in 15-character words between the framing words.
fn own_armor(bin: &[u8]) -> String {
	let mut buf = sha256d4(bin).to_vec();
	buf.extend_from_slice(bin);
	let body = format!("{}{}", HEADER, bs58::encode(buf).into_string());
	let mut out = String::with_capacity(body.len() * 17 / 15 + 32);
	for (i, ch) in body.chars().enumerate() {
		if i != 0 && i % 15 == 0 {
			out.push(if i % 3000 == 0 { '\n' } else { ' ' });
		}
		out.push(ch);
	}
	out.push_str(FOOTER);
	out.push('\n');
	out
}

/// (check bytes, body bytes) of an armored text, by the documented format: text between the first and the
/// second period, ignorable characters removed, base58-decoded. None if that cannot be done.
fn own_unarmor(text: &str) -> Option<([u8; 4], Vec<u8>)> {
	let first = text.find('.')?;
	let rest = &text[first + 1..];
	let second = rest.find('.')?;
	let payload: String = rest[..second].chars().filter(|c| !IGNORABLE.contains(c)).collect();
	let bytes = bs58::decode(payload.as_bytes()).into_vec().ok()?;
	if bytes.len() < 4 {
		return None;
	}
	Some(([bytes[0], bytes[1], bytes[2], bytes[3]], bytes[4..].to_vec()))
}

fn contains(hay: &[u8], needle: &[u8]) -> bool {
	!needle.is_empty() && hay.len() >= needle.len() && hay.windows(needle.len()).any(|w| w == needle)
}

/// Some(offset in `plain`) if a 16-byte window of `plain` occurs in `hay`.
fn shared_window(hay: &[u8], plain: &[u8]) -> Option<usize> {
	if hay.len() < 16 || plain.len() < 16 {
		return None;
	}
	let set: HashSet<&[u8]> = hay.windows(16).collect();
	plain.windows(16).position(|w| set.contains(w))
}

// ---------------------------------------------------------------------------------------------
// key environment: real wallets, built once per shard

pub struct Ident {
	pub wallet: usize,
	pub acct: &'static str,
	pub index: u32,
	pub addr: SlatepackAddress,
	pub sec: [u8; 32],
}

pub struct Env {
	pub wallets: Vec<Wal>,
	pub ids: Vec<Ident>,
}

const N_WALLETS: usize = 4;
const N_INDEX: u32 = 4;

impl Env {
	pub fn new(args: &Args, tag: &str) -> Env {
		world::init_globals();
		let dir = args.scratch.join(format!("c10.{}", tag));
		std::fs::create_dir_all(&dir).unwrap();
		let mut wallets = vec![];
		for w in 0..N_WALLETS {
			// fixed seeds, so that a replay uses the same addresses
			let phrase = grin_keychain::mnemonic::from_entropy(&[0x31 + w as u8; 32]).expect("mnemonic");
			let wal = world::create_wallet(&dir, &format!("w{}", w), DirectNode::new(None), Some(&phrase), "", false)
				.expect("create wallet");
			if w == 0 {
				wal.owner.create_account_path(wal.m(), "acct1").expect("account");
			}
			wallets.push(wal);
		}
		let mut ids = vec![];
		for (w, wal) in wallets.iter().enumerate() {
			let accts: &[&'static str] = if w == 0 { &["default", "acct1"] } else { &["default"] };
			for acct in accts {
				wal.set_account(acct).expect("set account");
				for index in 0..N_INDEX {
					let addr = wal.owner.get_slatepack_address(wal.m(), index).expect("address");
					let sk = wal.owner.get_slatepack_secret_key(wal.m(), index).expect("secret key");
					ids.push(Ident {
						wallet: w,
						acct,
						index,
						addr,
						sec: sk.to_bytes(),
					});
				}
			}
		}
		Env { wallets, ids }
	}

	/// wallet of an identity, switched to the identity's account
	fn wal(&self, id: &Ident) -> &Wal {
		let w = &self.wallets[id.wallet];
		w.set_account(id.acct).expect("set account");
		w
	}
}

// ---------------------------------------------------------------------------------------------
// part enc

#[derive(Clone, Debug, Serialize, Deserialize)]
pub enum KeySel {
	/// a wallet identity (wallet, account, derivation index), index into Env::ids
	Id(u16),
	/// a raw ed25519 key expanded from the seed
	Raw(u64),
}

#[derive(Clone, Debug, Serialize, Deserialize)]
pub enum Route {
	/// owner::create_slatepack_message
	Owner,
	/// Slatepacker::create_slatepack + armor_slatepack
	Packer,
	/// Slatepack::default + add_recipient (recipient list in the encrypted metadata) + try_encrypt_payload
	Manual,
}

#[derive(Clone, Debug, Serialize, Deserialize)]
pub struct EncCase {
	pub slate: SlateSpec,
	pub route: Route,
	pub sender: Option<KeySel>,
	pub recipients: Vec<KeySel>,
	/// seeds of unrelated raw keys tried as wrong keys
	pub wrong_raw: Vec<u64>,
	/// bit (0..255) flipped in each recipient's secret key to make a near-miss wrong key
	pub flip_bit: u8,
	pub salt: u64,
}

struct Key {
	addr: SlatepackAddress,
	sec: [u8; 32],
	id: Option<usize>,
}

pub struct C10Enc {
	env: Env,
	scratch: std::path::PathBuf,
	tier: Tier,
	wrong_key_attempts: u64,
	tamper_edits: u64,
	benign: u64,
	messages: u64,
}

impl C10Enc {
	pub fn new(args: &Args) -> C10Enc {
		C10Enc {
			env: Env::new(args, "enc"),
			scratch: args.scratch.clone(),
			tier: args.tier,
			wrong_key_attempts: 0,
			tamper_edits: 0,
			benign: 0,
			messages: 0,
		}
	}

	fn key(&self, k: &KeySel) -> Key {
		match k {
			KeySel::Id(i) => {
				let ix = idx(*i, self.env.ids.len());
				let id = &self.env.ids[ix];
				Key {
					addr: id.addr.clone(),
					sec: id.sec,
					id: Some(ix),
				}
			}
			KeySel::Raw(seed) => {
				let sec = ed_secret(*seed, "rawkey");
				Key {
					addr: SlatepackAddress::new(&ed_pub(&sec)),
					sec,
					id: None,
				}
			}
		}
	}
}

fn packer_for(sec: &DalekSecretKey) -> Slatepacker {
	Slatepacker::new(SlatepackerArgs {
		sender: None,
		recipients: vec![],
		dec_key: Some(sec),
	})
}

/// deser + decrypt + get_slate with a raw key
fn open_with(sec: &[u8; 32], data: &[u8]) -> Result<(Slatepack, Slate), String> {
	let sk = DalekSecretKey::from_bytes(sec).expect("32 bytes");
	let p = packer_for(&sk);
	let sp = p.deser_slatepack(data, true).map_err(|e| format!("{}", e))?;
	let sl = p.get_slate(&sp).map_err(|e| format!("{}", e))?;
	Ok((sp, sl))
}

/// Outcome of opening an edited message: a panic is neither a rejection nor a decode.
enum Opened {
	Rejected,
	Decoded(Slatepack, Slate),
	Panicked(Fail),
}

fn guarded(f: impl FnOnce() -> Result<(Slatepack, Slate), String>) -> Opened {
	match guard(f) {
		Ok(Ok((sp, sl))) => Opened::Decoded(sp, sl),
		Ok(Err(_)) => Opened::Rejected,
		Err(f) => Opened::Panicked(f),
	}
}

struct Expect<'a> {
	want: &'a Value,
	plain: &'a [u8],
	sender: &'a Option<SlatepackAddress>,
	meta_recipients: &'a [SlatepackAddress],
}

/// Some(description) if an opened slatepack differs from what was packed.
fn differs(e: &Expect, sp: &Slatepack, sl: &Slate) -> Option<(&'static str, String)> {
	if sp.mode != 0 {
		return Some(("mode", format!("mode {} after decryption", sp.mode)));
	}
	if &sp.sender != e.sender {
		return Some(("sender", format!("sender {:?} != original {:?}", sp.sender.as_ref().map(|a| a.to_string()), e.sender.as_ref().map(|a| a.to_string()))));
	}
	if sp.payload != e.plain {
		return Some(("payload", "decrypted payload differs from the plaintext binary slate".to_string()));
	}
	if sp.recipients() != e.meta_recipients {
		return Some(("recipients", format!("metadata recipients {:?} != {:?}", sp.recipients().len(), e.meta_recipients.len())));
	}
	let got = proj(sl);
	if &got != e.want {
		return Some(("slate", format!("slate differs: got {} want {}", got, e.want)));
	}
	None
}

fn sample_positions(len: usize, limit: usize, salt: u64) -> Vec<usize> {
	if len <= limit {
		return (0..len).collect();
	}
	let stride = (len + limit - 1) / limit;
	let off = (salt % stride as u64) as usize;
	let mut v: Vec<usize> = (0..len).skip(off).step_by(stride).collect();
	if v.first() != Some(&0) {
		v.insert(0, 0);
	}
	if v.last() != Some(&(len - 1)) {
		v.push(len - 1);
	}
	v
}

impl Prop for C10Enc {
	type Case = EncCase;
	fn id(&self) -> &'static str {
		"C10"
	}
	fn part(&self) -> &'static str {
		"enc"
	}
	fn cases(&self, tier: Tier) -> u64 {
		tier.pick(160, 3_200)
	}
	fn strategy(&self, _tier: Tier) -> BoxedStrategy<EncCase> {
		let keysel = || prop_oneof![5 => any::<u16>().prop_map(KeySel::Id), 1 => any::<u64>().prop_map(KeySel::Raw)];
		(
			slate_strategy(2),
			prop_oneof![5 => Just(Route::Owner), 4 => Just(Route::Packer), 1 => Just(Route::Manual)],
			prop::option::weighted(0.85, keysel()),
			prop::collection::vec(keysel(), 1..5),
			prop::collection::vec(any::<u64>(), 1..4),
			any::<u8>(),
			any::<u64>(),
		)
			.prop_map(|(slate, route, sender, recipients, wrong_raw, flip_bit, salt)| {
				// the owner API names its sender by derivation index of the calling wallet
				let sender = match (&route, sender) {
					(Route::Owner, Some(KeySel::Raw(s))) => Some(KeySel::Id(s as u16)),
					(_, s) => s,
				};
				EncCase {
					slate,
					route,
					sender,
					recipients,
					wrong_raw,
					flip_bit,
					salt,
				}
			})
			.boxed()
	}
	fn rule(&self) -> String {
		"structural slates (7 states, amount/fee/ttl/lock-height classes, 1-2 participants, optional payment proof, optional tx with 0-3 inputs and 0-2 outputs) encrypted to 1..4 recipients (20 identities = 4 real wallets x accounts x derivation indices 0..3, plus raw ed25519 keys) through owner::create_slatepack_message, Slatepacker::create_slatepack/armor_slatepack or Slatepack::try_encrypt_payload; oracle (1) every recipient opens armored/binary/JSON forms to the same V4 slate, sender and plaintext, (2) every other identity, raw keys, bit-flipped recipient keys and no key do not, (3) binary/JSON forms contain no sender address/key, slate id, participant key or 16-byte plaintext window, (4) flip/insert/delete of one byte at every (quick: <=1 KiB, else ~1024 sampled) position of the age container or clearing the mode byte, re-armored with a recomputed checksum, is rejected; non-trivial = every case (>=1 wrong-key and tamper evaluation each), distinct by case hash".into()
	}
	fn assumptions(&self) -> Vec<String> {
		vec![
			"kernel features restricted to 0 (plain) and 2 (height locked, with lock height): the compact binary slate carries feature arguments only for feature 2 (round-trip fidelity of other variants is C08's subject)".into(),
			"slate ids are RFC 4122 version-4 UUIDs, public keys / commitments are valid curve points, payment-proof signatures are canonical encodings, as produced by wallets".into(),
			"range proofs are 675 pseudo-random bytes (never verified by the code under test)".into(),
		]
	}
	fn shrink_iters(&self) -> u32 {
		24
	}
	fn extra(&self) -> Value {
		json!({
			"messages": self.messages,
			"wrong_key_attempts": self.wrong_key_attempts,
			"tamper_edits": self.tamper_edits,
			"benign_reencodings": self.benign,
		})
	}
	fn run(&mut self, c: &EncCase) -> Outcome {
		let mut out = Outcome::default();
		out.nontrivial = true;
		if let Err(e) = self.run_inner(c, &mut out) {
			out.fail("c10:enc:harness-error", e);
		}
		out
	}
}

impl C10Enc {
	fn run_inner(&mut self, c: &EncCase, out: &mut Outcome) -> Result<(), String> {
		self.messages += 1;
		let slate = build_slate(&c.slate);
		let want = proj(&slate);
		let plain = plaintext_of(&slate)?;
		let recips: Vec<Key> = c.recipients.iter().map(|k| self.key(k)).collect();
		let sender: Option<Key> = c.sender.as_ref().map(|k| self.key(k));
		let sender_addr: Option<SlatepackAddress> = sender.as_ref().map(|k| k.addr.clone());
		let recip_addrs: Vec<SlatepackAddress> = recips.iter().map(|k| k.addr.clone()).collect();
		let recip_ids: BTreeSet<usize> = recips.iter().filter_map(|k| k.id).collect();
		let distinct: BTreeSet<[u8; 32]> = recips.iter().map(|k| k.sec).collect();

		out.class(format!("route={:?}", c.route));
		out.class(format!("recipients={}", distinct.len()));
		out.class(format!("state={}", STATE_NAMES[(c.slate.state % 7) as usize]));
		out.class(match &sender {
			None => "sender=none",
			Some(k) if k.id.is_some() => "sender=wallet",
			Some(_) => "sender=raw",
		});
		if c.slate.tx.is_some() {
			out.class("slate:tx");
		}
		if c.slate.proof.is_some() {
			out.class("slate:proof");
		}
		if distinct.len() < recips.len() {
			out.class("recipients:duplicate");
		}
		if let Some(s) = &sender {
			if distinct.contains(&s.sec) {
				out.class("sender-is-recipient");
			}
		}

		// ---- produce the message -------------------------------------------------------------
		let mut meta_recipients: Vec<SlatepackAddress> = vec![];
		// JSON file as written by the file adapter (Packer route only; a separate encryption of the same slate)
		let mut json_file: Option<Vec<u8>> = None;
		let armored: String;
		// the object whose JSON serialisation is the "JSON form" (what PathToSlatepack::put_tx(.., false) writes)
		let sp_obj: Slatepack;
		match c.route {
			Route::Owner => {
				let (wal, sidx) = match &sender {
					Some(k) => {
						let id = &self.env.ids[k.id.expect("owner route sender is an identity")];
						(self.env.wal(id), Some(id.index))
					}
					None => (&self.env.wallets[0], None),
				};
				armored = wal
					.owner
					.create_slatepack_message(wal.m(), &slate, sidx, recip_addrs.clone())
					.map_err(|e| format!("create_slatepack_message: {}", e))?;
				sp_obj = wal
					.owner
					.decode_slatepack_message(wal.m(), armored.clone(), vec![])
					.map_err(|e| format!("decode_slatepack_message(no key) of a fresh message: {}", e))?;
			}
			Route::Packer => {
				let p = Slatepacker::new(SlatepackerArgs {
					sender: sender_addr.clone(),
					recipients: recip_addrs.clone(),
					dec_key: None,
				});
				sp_obj = p.create_slatepack(&slate).map_err(|e| format!("create_slatepack: {}", e))?;
				armored = p.armor_slatepack(&sp_obj).map_err(|e| format!("armor_slatepack: {}", e))?;
				let path = self.scratch.join("c10.enc.slatepack.json");
				PathToSlatepack::new(path.clone(), &p, false)
					.put_tx(&slate, false)
					.map_err(|e| format!("PathToSlatepack::put_tx(json): {}", e))?;
				json_file = Some(std::fs::read(&path).map_err(|e| format!("read json file: {}", e))?);
			}
			Route::Manual => {
				let mut sp = Slatepack::default();
				sp.payload = plain.clone();
				sp.sender = sender_addr.clone();
				for a in &recip_addrs {
					sp.add_recipient(a.clone());
				}
				meta_recipients = recip_addrs.clone();
				sp.try_encrypt_payload(recip_addrs.clone())
					.map_err(|e| format!("try_encrypt_payload: {}", e))?;
				armored = Slatepacker::new(SlatepackerArgs {
					sender: None,
					recipients: vec![],
					dec_key: None,
				})
				.armor_slatepack(&sp)
				.map_err(|e| format!("armor_slatepack: {}", e))?;
				sp_obj = sp;
			}
		}
		let (chk, bin) = own_unarmor(&armored).ok_or("produced armor cannot be parsed by the documented format")?;
		if chk != sha256d4(&bin) {
			out.fail("c10:armor:produced-bad-check", "freshly armored message carries a wrong SHA-256d check".to_string());
		}
		let json_form = serde_json::to_string(&sp_obj).map_err(|e| format!("json: {}", e))?;
		let env_sp: Slatepack = byte_ser::from_bytes::<SlatepackBin>(&bin)
			.map_err(|e| format!("binary envelope unreadable: {}", e))?
			.0;
		if env_sp.mode != 1 {
			out.fail("c10:enc:mode-not-encrypted", format!("envelope mode {} for a message with recipients", env_sp.mode));
		}
		if env_sp.sender.is_some() {
			out.fail("c10:leak:envelope-sender", "encrypted envelope carries the sender in its clear header".to_string());
		}
		let container = env_sp.payload.clone();
		out.class(format!(
			"container={}",
			match container.len() {
				0..=511 => "<512",
				512..=1023 => "512..1023",
				1024..=2047 => "1024..2047",
				_ => ">=2048",
			}
		));
		let exp = Expect {
			want: &want,
			plain: &plain,
			sender: &sender_addr,
			meta_recipients: &meta_recipients,
		};

		// ---- (1) every recipient decrypts ---------------------------------------------------
		let mut forms: Vec<(&str, &[u8])> = vec![("armored", armored.as_bytes()), ("binary", &bin), ("json", json_form.as_bytes())];
		if let Some(f) = &json_file {
			forms.push(("json-file", f));
		}
		for r in &recips {
			for (fname, data) in forms.iter() {
				match open_with(&r.sec, data) {
					Err(e) => out.fail(format!("c10:recipient:{}:cannot-open", fname), format!("recipient {} cannot open the {} form: {}", r.addr, fname, e)),
					Ok((sp, sl)) => {
						if let Some((what, d)) = differs(&exp, &sp, &sl) {
							out.fail(format!("c10:recipient:{}:{}", fname, what), d);
						}
					}
				}
			}
			if let Some(ix) = r.id {
				let id = &self.env.ids[ix];
				let wal = self.env.wal(id);
				// alone, and behind wrong indices
				let mut all: Vec<u32> = (0..N_INDEX).filter(|i| *i != id.index).collect();
				all.push(id.index);
				for indices in [vec![id.index], all].iter() {
					match wal.owner.slate_from_slatepack_message(wal.m(), armored.clone(), indices.clone()) {
						Err(e) => out.fail("c10:recipient:api:cannot-open", format!("slate_from_slatepack_message({:?}) by recipient wallet {} {}: {}", indices, id.wallet, id.acct, e)),
						Ok(sl) => {
							if proj(&sl) != want {
								out.fail("c10:recipient:api:slate", format!("slate differs: got {} want {}", proj(&sl), want));
							}
						}
					}
				}
				match wal.owner.decode_slatepack_message(wal.m(), armored.clone(), vec![id.index]) {
					Err(e) => out.fail("c10:recipient:api:cannot-decode", format!("decode_slatepack_message by recipient: {}", e)),
					Ok(sp) => {
						if sp.mode != 0 || sp.sender != sender_addr || sp.payload != plain {
							out.fail(
								"c10:recipient:api:decode",
								format!("decode_slatepack_message by recipient: mode {} sender {:?} payload-equal {}", sp.mode, sp.sender.as_ref().map(|a| a.to_string()), sp.payload == plain),
							);
						}
					}
				}
			}
		}

		// ---- (2) nobody else does --------------------------------------------------------------
		let wrong_opened = |out: &mut Outcome, who: String, tag: &str, r: Result<(Slatepack, Slate), String>| {
			if let Ok((sp, sl)) = r {
				out.fail(
					format!("c10:wrongkey:{}:opened", tag),
					format!("{} opened the message: mode {} sender {:?} slate-equal {}", who, sp.mode, sp.sender.as_ref().map(|a| a.to_string()), proj(&sl) == want),
				);
			}
		};
		for (ix, id) in self.env.ids.iter().enumerate() {
			if recip_ids.contains(&ix) {
				continue;
			}
			self.wrong_key_attempts += 3;
			let who = format!("non-recipient identity wallet {} account {} index {}", id.wallet, id.acct, id.index);
			wrong_opened(out, who.clone(), "identity", open_with(&id.sec, &bin));
			let wal = self.env.wal(id);
			if let Ok(sl) = wal.owner.slate_from_slatepack_message(wal.m(), armored.clone(), vec![id.index]) {
				out.fail("c10:wrongkey:api:opened", format!("{}: slate_from_slatepack_message returned a slate (equal to original: {})", who, proj(&sl) == want));
			}
			match wal.owner.decode_slatepack_message(wal.m(), armored.clone(), vec![id.index]) {
				Err(_) => out.class("wrongkey:decode=err"),
				Ok(sp) => {
					if sp.mode != 1 || sp.sender.is_some() || sp.payload != container {
						out.fail(
							"c10:wrongkey:api:decoded",
							format!("{}: decode_slatepack_message returned mode {} sender {:?} payload-still-encrypted {}", who, sp.mode, sp.sender.as_ref().map(|a| a.to_string()), sp.payload == container),
						);
					}
				}
			}
		}
		// all non-recipient indices of each (wallet, account) at once
		{
			let mut groups: Vec<(usize, &'static str)> = vec![];
			for id in &self.env.ids {
				if !groups.contains(&(id.wallet, id.acct)) {
					groups.push((id.wallet, id.acct));
				}
			}
			for (w, acct) in groups {
				let members: Vec<(usize, &Ident)> = self.env.ids.iter().enumerate().filter(|(_, i)| i.wallet == w && i.acct == acct).collect();
				if members.iter().any(|(ix, _)| recip_ids.contains(ix)) {
					continue;
				}
				let indices: Vec<u32> = members.iter().map(|(_, i)| i.index).collect();
				let wal = self.env.wal(members[0].1);
				self.wrong_key_attempts += 1;
				if wal.owner.slate_from_slatepack_message(wal.m(), armored.clone(), indices.clone()).is_ok() {
					out.fail("c10:wrongkey:api:opened", format!("wallet {} account {} (no recipient) opened the message with indices {:?}", w, acct, indices));
				}
			}
		}
		for seed in &c.wrong_raw {
			let sec = ed_secret(*seed, "wrongkey");
			if distinct.contains(&sec) {
				continue;
			}
			self.wrong_key_attempts += 1;
			wrong_opened(out, "an unrelated raw key".to_string(), "raw", open_with(&sec, &bin));
		}
		for r in &recips {
			let mut sec = r.sec;
			sec[(c.flip_bit / 8) as usize] ^= 1 << (c.flip_bit % 8);
			if distinct.contains(&sec) {
				continue;
			}
			self.wrong_key_attempts += 1;
			wrong_opened(out, format!("recipient key with bit {} flipped", c.flip_bit), "bitflip", open_with(&sec, &armored.as_bytes()));
		}
		// no key at all
		{
			let wal = &self.env.wallets[0];
			self.wrong_key_attempts += 2;
			if let Ok(sl) = wal.owner.slate_from_slatepack_message(wal.m(), armored.clone(), vec![]) {
				if proj(&sl) == want {
					out.fail("c10:nokey:opened", "slate_from_slatepack_message without any key returned the original slate".to_string());
				} else {
					out.class("nokey:garbage-slate");
				}
			}
			match wal.owner.decode_slatepack_message(wal.m(), armored.clone(), vec![]) {
				Err(e) => return Err(format!("decode_slatepack_message(no key): {}", e)),
				Ok(sp) => {
					if sp.mode != 1 || sp.sender.is_some() || sp.payload != container {
						out.fail("c10:nokey:decoded", format!("decode without key: mode {} sender {:?}", sp.mode, sp.sender.as_ref().map(|a| a.to_string())));
					}
				}
			}
		}

		// ---- (3) leak search -----------------------------------------------------------------
		let json_payload: Vec<u8> = serde_json::from_str::<Value>(&json_form)
			.ok()
			.and_then(|v| v["payload"].as_str().map(|s| s.to_string()))
			.and_then(|s| base64::decode(&s).ok())
			.unwrap_or_default();
		let bin2 = byte_ser::to_bytes(&SlatepackBin(sp_obj.clone())).map_err(|e| format!("byte_ser: {}", e))?;
		let mut hays: Vec<(&str, &[u8])> = vec![("binary", &bin), ("json", json_form.as_bytes()), ("json-payload", &json_payload)];
		if bin2 != bin {
			hays.push(("binary", &bin2));
		}
		let json_file_payload: Vec<u8> = json_file
			.as_ref()
			.and_then(|f| serde_json::from_slice::<Value>(f).ok())
			.and_then(|v| v["payload"].as_str().map(|s| s.to_string()))
			.and_then(|s| base64::decode(&s).ok())
			.unwrap_or_default();
		if let Some(f) = &json_file {
			hays.push(("json-file", f));
			hays.push(("json-file-payload", &json_file_payload));
		}
		let v4 = SlateV4::from(&slate);
		let secp = static_secp_instance();
		let mut needles: Vec<(&str, Vec<u8>)> = vec![];
		if let Some(s) = &sender_addr {
			needles.push(("sender-address", s.to_string().into_bytes()));
			needles.push(("sender-key", s.pub_key.as_bytes().to_vec()));
		}
		needles.push(("slate-id", v4.id.as_bytes().to_vec()));
		needles.push(("slate-id-text", v4.id.to_hyphenated().to_string().into_bytes()));
		{
			let secp = secp.lock();
			for p in &v4.sigs {
				needles.push(("participant-key", p.xs.serialize_vec(&secp, true).to_vec()));
				needles.push(("participant-key", p.nonce.serialize_vec(&secp, true).to_vec()));
			}
		}
		for (hname, hay) in &hays {
			// one signature per root cause: the JSON written by the file adapter is the same serialisation
			let sname = if hname.starts_with("json") { "json" } else { *hname };
			for (nname, needle) in &needles {
				if contains(hay, needle) {
					let ctx = if *hname == "json" || *hname == "json-file" {
						let pos = hay.windows(needle.len()).position(|w| w == &needle[..]).unwrap_or(0);
						let a = pos.saturating_sub(40);
						let b = std::cmp::min(hay.len(), pos + needle.len() + 4);
						format!(" (… {} …)", String::from_utf8_lossy(&hay[a..b]).replace('\n', " "))
					} else {
						String::new()
					};
					out.fail(format!("c10:leak:{}:{}", sname, nname), format!("the {} form of the encrypted slatepack contains the {} in clear{}", hname, nname, ctx));
				}
			}
			if let Some(off) = shared_window(hay, &plain) {
				out.fail(format!("c10:leak:{}:plaintext-window", sname), format!("the {} form contains 16 plaintext slate bytes (plaintext offset {})", hname, off));
			}
		}

		// ---- (4) payload tampering -------------------------------------------------------------
		let limit = self.tier.pick(1024usize, usize::MAX);
		let positions = sample_positions(container.len(), limit, c.salt);
		let rebuild = |payload: Vec<u8>, mode: u8| -> Vec<u8> {
			let mut sp = env_sp.clone();
			sp.payload = payload;
			sp.mode = mode;
			byte_ser::to_bytes(&SlatepackBin(sp)).expect("serialise envelope")
		};
		let mut judge = |out: &mut Outcome, me: &mut C10Enc, what: String, r: Opened| {
			me.tamper_edits += 1;
			match r {
				Opened::Rejected => {}
				Opened::Panicked(f) => out.fail(f.sig, format!("{}: {}", what, f.detail)),
				Opened::Decoded(sp, sl) => match differs(&exp, &sp, &sl) {
					None => {
						me.benign += 1;
						out.class("tamper:benign-reencoding");
						crate::rt::dbg(&format!("benign re-encoding: {}", what));
					}
					Some((k, d)) => out.fail(format!("c10:tamper:accepted:{}", k), format!("{} was accepted: {}", what, d)),
				},
			}
		};
		for (n, &p) in positions.iter().enumerate() {
			if out.fails.len() >= 6 {
				break; // enough evidence; keeps shrinking affordable
			}
			let r = &recips[n % recips.len()];
			let h = mix(c.salt, p as u64);
			let mask: u8 = if h & 1 == 0 { 1 << ((h >> 1) & 7) } else { ((h >> 8) as u8) | 1 };
			// flip
			let mut m = container.clone();
			m[p] ^= mask;
			judge(out, self, format!("byte {} of the age container xor {:#04x}", p, mask), guarded(|| open_with(&r.sec, &rebuild(m, 1))));
			// delete
			let mut m = container.clone();
			m.remove(p);
			judge(out, self, format!("byte {} of the age container deleted", p), guarded(|| open_with(&r.sec, &rebuild(m, 1))));
			// insert
			let mut m = container.clone();
			m.insert(p, (h >> 16) as u8);
			judge(out, self, format!("byte {:#04x} inserted at {} of the age container", (h >> 16) as u8, p), guarded(|| open_with(&r.sec, &rebuild(m, 1))));
		}
		{
			// append one byte, drop the mode flag
			let r = &recips[0];
			let mut m = container.clone();
			m.push((c.salt >> 24) as u8);
			judge(out, self, "one byte appended to the age container".to_string(), guarded(|| open_with(&r.sec, &rebuild(m, 1))));
			for r in &recips {
				judge(out, self, "mode byte cleared".to_string(), guarded(|| open_with(&r.sec, &rebuild(container.clone(), 0))));
			}
			// a relay writes another address into the (unauthenticated) clear sender field of the envelope and leaves
			// the ciphertext alone: the recipient must still see the ORIGINAL sender (from the encrypted metadata) or refuse
			let injected = grin_wallet_libwallet::SlatepackAddress::new(&ed_pub(&ed_secret(c.salt, "injected-sender")));
			let with_sender = {
				let mut sp = env_sp.clone();
				sp.payload = container.clone();
				sp.mode = 1;
				sp.sender = Some(injected);
				byte_ser::to_bytes(&SlatepackBin(sp)).expect("serialise envelope")
			};
			for r in &recips {
				self.tamper_edits += 1;
				match guarded(|| open_with(&r.sec, &with_sender)) {
					Opened::Rejected => {}
					Opened::Panicked(f) => out.fail(f.sig, format!("clear sender injected into encrypted envelope: {}", f.detail)),
					Opened::Decoded(sp, sl) => {
						if let Some((k, d)) = differs(&exp, &sp, &sl) {
							out.fail(format!("c10:envelope-sender-injected:accepted:{}", k), format!("an address written into the clear sender field of an encrypted envelope was taken over on decryption: {}", d));
						}
					}
				}
			}
		}
		// a sample through the armored owner API (own armor, recomputed checksum)
		let wallet_recips: Vec<&Key> = recips.iter().filter(|r| r.id.is_some()).collect();
		if !wallet_recips.is_empty() && !container.is_empty() {
			let n_api = 12usize;
			for k in 0..=n_api {
				let r = wallet_recips[k % wallet_recips.len()];
				let id = &self.env.ids[r.id.unwrap()];
				let (what, mbin) = if k == n_api {
					("mode byte cleared".to_string(), rebuild(container.clone(), 0))
				} else {
					let p = (mix(c.salt ^ 0xA5A5, k as u64) % container.len() as u64) as usize;
					let mut m = container.clone();
					match k % 3 {
						0 => m[p] ^= 1 << (k % 8),
						1 => {
							m.remove(p);
						}
						_ => m.insert(p, k as u8),
					}
					(format!("edit kind {} at byte {} of the age container (armored, valid checksum)", k % 3, p), rebuild(m, 1))
				};
				let text = own_armor(&mbin);
				let wal = self.env.wal(id);
				self.tamper_edits += 1;
				if let Ok(sl) = wal.owner.slate_from_slatepack_message(wal.m(), text.clone(), vec![id.index]) {
					if proj(&sl) == want {
						self.benign += 1;
						out.class("tamper:benign-reencoding");
					} else {
						out.fail("c10:tamper:api:accepted", format!("{}: slate_from_slatepack_message returned a different slate {}", what, proj(&sl)));
					}
				}
				if let Ok(sp) = wal.owner.decode_slatepack_message(wal.m(), text, vec![id.index]) {
					let untouched = sp.sender.is_none() && byte_ser::to_bytes(&SlatepackBin(sp.clone())).map(|b| b == mbin).unwrap_or(false);
					let benign = sp.mode == 0 && sp.sender == sender_addr && sp.payload == plain;
					if !untouched && !benign {
						out.fail("c10:tamper:api:decoded", format!("{}: decode_slatepack_message returned neither the untouched envelope nor the original content (mode {}, sender {:?})", what, sp.mode, sp.sender.as_ref().map(|a| a.to_string())));
					}
				}
			}
			// sanity of the independent armor: the untampered envelope, re-armored, opens
			let r = wallet_recips[0];
			let id = &self.env.ids[r.id.unwrap()];
			let wal = self.env.wal(id);
			if let Err(e) = wal.owner.slate_from_slatepack_message(wal.m(), own_armor(&bin), vec![id.index]) {
				return Err(format!("independently armored untampered envelope rejected: {}", e));
			}
		}
		let _ = &mut judge;
		Ok(())
	}
}

// ---------------------------------------------------------------------------------------------
// part armor

#[derive(Clone, Debug, Serialize, Deserialize)]
pub struct ArmorCase {
	pub slate: SlateSpec,
	/// sender identity carried in the clear header (unencrypted slatepack), if any
	pub sender: Option<u16>,
	pub via_owner: bool,
	pub salt: u64,
}

pub struct C10Armor {
	env: Env,
	tier: Tier,
	edits: u64,
	rejected: u64,
	accepted_equal: u64,
	collisions: u64,
	noop: u64,
}

impl C10Armor {
	pub fn new(args: &Args) -> C10Armor {
		C10Armor {
			env: Env::new(args, "armor"),
			tier: args.tier,
			edits: 0,
			rejected: 0,
			accepted_equal: 0,
			collisions: 0,
			noop: 0,
		}
	}
}

/// replacement / insertion characters: mostly base58, some look-alikes outside the alphabet, framing and
/// ignorable characters, one non-ASCII letter
const EDIT_CHARS: &[char] = &[
	'1', '2', '3', '4', '5', '6', '7', '8', '9', 'A', 'B', 'C', 'D', 'E', 'F', 'G', 'H', 'J', 'K', 'L', 'M', 'N', 'P', 'Q', 'R', 'S', 'T', 'U',
	'V', 'W', 'X', 'Y', 'Z', 'a', 'b', 'c', 'd', 'e', 'f', 'g', 'h', 'i', 'j', 'k', 'm', 'n', 'o', 'p', 'q', 'r', 's', 't', 'u', 'v', 'w', 'x',
	'y', 'z', '0', 'O', 'I', 'l', ' ', '\n', '\t', '>', '.', ',', '-', 'é',
];

impl Prop for C10Armor {
	type Case = ArmorCase;
	fn id(&self) -> &'static str {
		"C10"
	}
	fn part(&self) -> &'static str {
		"armor"
	}
	fn cases(&self, tier: Tier) -> u64 {
		tier.pick(128, 1_600)
	}
	fn strategy(&self, _tier: Tier) -> BoxedStrategy<ArmorCase> {
		(slate_strategy(1), prop::option::weighted(0.5, any::<u16>()), any::<bool>(), any::<u64>())
			.prop_map(|(slate, sender, via_owner, salt)| ArmorCase { slate, sender, via_owner, salt })
			.boxed()
	}
	fn rule(&self) -> String {
		"unencrypted armored slatepacks of structural slates (with/without clear sender) from owner::create_slatepack_message or Slatepacker; at every character position (quick: <= 1000 sampled positions per message) one change (to a base58 / look-alike / framing / whitespace / non-ASCII character), drop, insert and adjacent transposition; oracle: Err, or Ok with the same V4 slate and envelope; a different result is tolerated (class checksum-collision) only if the harness' own SHA-256d recomputation over the edited text matches; non-trivial = every case (>=1 rejected edit), distinct by case hash".into()
	}
	fn assumptions(&self) -> Vec<String> {
		vec!["same slate domain as part enc (kernel features 0 and 2)".into()]
	}
	fn shrink_iters(&self) -> u32 {
		24
	}
	fn extra(&self) -> Value {
		json!({
			"edits": self.edits,
			"rejected": self.rejected,
			"accepted_equal": self.accepted_equal,
			"checksum_collisions": self.collisions,
			"noop_edits_skipped": self.noop,
		})
	}
	fn run(&mut self, c: &ArmorCase) -> Outcome {
		let mut out = Outcome::default();
		if let Err(e) = self.run_inner(c, &mut out) {
			out.fail("c10:armor:harness-error", e);
		}
		out
	}
}

impl C10Armor {
	fn run_inner(&mut self, c: &ArmorCase, out: &mut Outcome) -> Result<(), String> {
		let slate = build_slate(&c.slate);
		let want = proj(&slate);
		let plain = plaintext_of(&slate)?;
		let sender_id = c.sender.map(|s| &self.env.ids[idx(s, self.env.ids.len())]);
		let sender_addr = sender_id.map(|i| i.addr.clone());
		let wal0 = &self.env.wallets[0];
		let msg: String = if c.via_owner {
			match sender_id {
				Some(id) => {
					let w = self.env.wal(id);
					w.owner.create_slatepack_message(w.m(), &slate, Some(id.index), vec![])
				}
				None => wal0.owner.create_slatepack_message(wal0.m(), &slate, None, vec![]),
			}
			.map_err(|e| format!("create_slatepack_message: {}", e))?
		} else {
			let p = Slatepacker::new(SlatepackerArgs {
				sender: sender_addr.clone(),
				recipients: vec![],
				dec_key: None,
			});
			let sp = p.create_slatepack(&slate).map_err(|e| format!("create_slatepack: {}", e))?;
			p.armor_slatepack(&sp).map_err(|e| format!("armor_slatepack: {}", e))?
		};
		out.class(if c.via_owner { "route=Owner" } else { "route=Packer" });
		out.class(if sender_addr.is_some() { "sender=clear" } else { "sender=none" });
		out.class(format!("state={}", STATE_NAMES[(c.slate.state % 7) as usize]));
		let packer = Slatepacker::new(SlatepackerArgs {
			sender: None,
			recipients: vec![],
			dec_key: None,
		});
		let open = |text: &str| -> Result<(Slatepack, Slate), String> {
			let sp = packer.deser_slatepack(text.as_bytes(), true).map_err(|e| format!("{}", e))?;
			let sl = packer.get_slate(&sp).map_err(|e| format!("{}", e))?;
			Ok((sp, sl))
		};
		// unedited message
		match open(&msg) {
			Err(e) => {
				out.fail("c10:plain:cannot-open", format!("fresh unencrypted message rejected: {}", e));
				return Ok(());
			}
			Ok((sp, sl)) => {
				if sp.mode != 0 || sp.sender != sender_addr || sp.payload != plain || proj(&sl) != want {
					out.fail("c10:plain:roundtrip", format!("fresh unencrypted message decodes differently: mode {} sender {:?} slate {}", sp.mode, sp.sender.as_ref().map(|a| a.to_string()), proj(&sl)));
					return Ok(());
				}
			}
		}
		match own_unarmor(&msg) {
			Some((chk, body)) if chk == sha256d4(&body) => {}
			_ => out.fail("c10:armor:produced-bad-check", "freshly armored message carries a wrong SHA-256d check".to_string()),
		}
		let chars: Vec<char> = msg.chars().collect();
		let n = chars.len();
		out.class(format!(
			"chars={}",
			match n {
				0..=399 => "<400",
				400..=799 => "400..799",
				800..=1599 => "800..1599",
				_ => ">=1600",
			}
		));
		let limit = self.tier.pick(1000usize, usize::MAX);
		let positions = sample_positions(n, limit, c.salt);
		let mut rejected_here = 0u64;
		for &p in &positions {
			if out.fails.len() >= 6 {
				break; // enough evidence; keeps shrinking affordable
			}
			let h = mix(c.salt, p as u64);
			let rep = EDIT_CHARS[(h % EDIT_CHARS.len() as u64) as usize];
			let ins = EDIT_CHARS[((h >> 20) % EDIT_CHARS.len() as u64) as usize];
			for kind in 0..4 {
				let mut m = chars.clone();
				let what = match kind {
					0 => {
						m[p] = rep;
						format!("character {} {:?} changed to {:?}", p, chars[p], rep)
					}
					1 => {
						m.remove(p);
						format!("character {} {:?} dropped", p, chars[p])
					}
					2 => {
						m.insert(p, ins);
						format!("character {:?} inserted at {}", ins, p)
					}
					_ => {
						if p + 1 >= n {
							continue;
						}
						m.swap(p, p + 1);
						format!("characters {} and {} ({:?},{:?}) transposed", p, p + 1, chars[p], chars[p + 1])
					}
				};
				if m == chars {
					self.noop += 1;
					continue;
				}
				let text: String = m.into_iter().collect();
				self.edits += 1;
				let r = guarded(|| open(&text));
				// every 8th edit also through the owner API, judged by the same oracle
				if (h >> 40) % 8 == kind as u64 {
					match guard(|| wal0.owner.slate_from_slatepack_message(wal0.m(), text.clone(), vec![])) {
						Err(f) => out.fail(f.sig, format!("{} (owner API): {}", what, f.detail)),
						Ok(Err(_)) => {}
						Ok(Ok(sl)) => {
							if proj(&sl) != want {
								let matches = match own_unarmor(&text) {
									Some((chk, body)) => chk == sha256d4(&body),
									None => false,
								};
								if matches {
									out.class("checksum-collision");
								} else {
									out.fail(
										"c10:armor:accepted-without-check",
										format!("{}: slate_from_slatepack_message returned a different slate although the SHA-256d check does not match", what),
									);
								}
							}
						}
					}
				}
				match r {
					Opened::Rejected => {
						self.rejected += 1;
						rejected_here += 1;
					}
					Opened::Panicked(f) => out.fail(f.sig, format!("{}: {}", what, f.detail)),
					Opened::Decoded(sp, sl) => {
						let same = sp.mode == 0 && sp.sender == sender_addr && sp.payload == plain && proj(&sl) == want;
						if same {
							self.accepted_equal += 1;
						} else {
							let matches = match own_unarmor(&text) {
								Some((chk, body)) => chk == sha256d4(&body),
								None => false,
							};
							if matches {
								self.collisions += 1;
								out.class("checksum-collision");
							} else {
								out.fail(
									"c10:armor:accepted-without-check",
									format!("{}: a different slatepack was accepted although the SHA-256d check does not match (slate equal: {}, sender {:?})", what, proj(&sl) == want, sp.sender.as_ref().map(|a| a.to_string())),
								);
							}
						}
					}
				}
			}
		}
		out.nontrivial = rejected_here > 0;
		Ok(())
	}
}

// ---------------------------------------------------------------------------------------------

pub fn run(args: &Args, rep: &mut Report) {
	let parts = args.part.clone();
	if parts.as_deref().map(|p| p == "enc").unwrap_or(true) {
		let mut p = C10Enc::new(args);
		run_part(&mut p, args, rep);
	}
	if parts.as_deref().map(|p| p == "armor").unwrap_or(true) {
		let mut p = C10Armor::new(args);
		run_part(&mut p, args, rep);
	}
}

pub fn replay(args: &Args, part: &str, case: &Value) -> Result<Outcome, String> {
	match part {
		"enc" => replay_part(&mut C10Enc::new(args), case),
		"armor" => replay_part(&mut C10Armor::new(args), case),
		_ => Err(format!("unknown part {}", part)),
	}
}
