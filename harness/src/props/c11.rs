//! C11 — payment proofs are sound end to end.
//!
//! One case = one proof-carrying send scenario from wallet 0 to wallet 1 in a copied base world (3 wallets):
//!  (a) send A: the reply S2 is delivered with a sequence of alterations of its proof; every alteration the harness
//!      can show to be invalid (ed25519 checked directly over the message it computes itself) must be refused; then
//!      the still pending transaction must be cancellable;
//!  (b) send B (or A itself when a still-valid alteration was accepted): honest finalize, proof exported before the
//!      kernel is mined (must not verify), post + mine + refresh, proof exported again: must verify in the sender
//!      wallet (true,false), the recipient wallet (false,true), a third wallet (false,false); every alteration of
//!      the exported proof that the harness shows to be invalid must be refused by all three;
//!  (c) the honest proof must be refused on a world whose chain lacks the kernel (fresh copy of the base world).

use crate::base::{self, BaseSpec};
use crate::rt::*;
use crate::sim::*;
use crate::snap;
use ed25519_dalek::Keypair as DalekKeypair;
use ed25519_dalek::PublicKey as DalekPublicKey;
use ed25519_dalek::SecretKey as DalekSecretKey;
use ed25519_dalek::Signature as DalekSignature;
use ed25519_dalek::{Signer, Verifier};
use grin_core::core::hash::Hashed;
use grin_util::secp::key::PublicKey;
use grin_util::secp::pedersen::Commitment;
use grin_util::static_secp_instance;
use grin_wallet_libwallet::{OutputStatus, PaymentProof, Slate, SlatepackAddress, TxLogEntryType};
use proptest::prelude::*;
use serde_derive::{Deserialize, Serialize};
use std::collections::BTreeSet;
use std::path::PathBuf;

// ---------------------------------------------------------------------------------------------
// case

#[derive(Clone, Debug, Serialize, Deserialize, PartialEq)]
pub enum AmountAlt {
	Plus1,
	Minus1,
	Zero,
	Max,
	PlusFee,
	Value(u64),
}

/// Which key: 0 fresh key from `seed`, 1 sender's address key (sending account), 2 third wallet's address key,
/// 3 recipient wallet's address key of its OTHER account, 4 sender wallet's address key of its OTHER account.
#[derive(Clone, Debug, Serialize, Deserialize, PartialEq)]
pub struct KeyPick {
	pub which: u8,
	pub seed: [u8; 32],
}

/// Which other excess: 0 random point from seed, 1 sender's partial excess alone, 2 recipient's partial excess alone,
/// 3 a kernel that is on chain (block chosen by `k`).
#[derive(Clone, Debug, Serialize, Deserialize, PartialEq)]
pub struct ExcessPick {
	pub which: u8,
	pub seed: [u8; 32],
	pub k: u16,
}

#[derive(Clone, Debug, Serialize, Deserialize, PartialEq)]
pub enum ReplyMut {
	StripProof,
	StripRsig,
	/// rsig made by another key over the right message, raddr untouched
	RsigByOther(KeyPick),
	/// raddr replaced; matching: rsig re-made by that key over the right message
	Raddr { key: KeyPick, matching: bool },
	/// saddr field replaced; resign: the recipient's real key signs over (amount, excess, replaced saddr)
	Saddr { key: KeyPick, resign: bool },
	/// recipient's real key signs over another amount
	SigOverAmount(AmountAlt),
	/// as above, and the reply's own `amount` field (normally 0 in a reply) is set to that other amount
	SigOverAmountAndField(AmountAlt),
	/// recipient's real key signs over another excess
	SigOverExcess(ExcessPick),
	/// recipient's real key signs over another sender address (saddr field untouched)
	SigOverSaddr(KeyPick),
	FlipRsig(u16),
	FlipRaddr(u8),
	FlipSaddr(u8),
	/// recipient's real key signs the real values again (still valid)
	Resign,
}

#[derive(Clone, Debug, Serialize, Deserialize, PartialEq)]
pub enum ExportMut {
	Amount(AmountAlt),
	Excess(ExcessPick),
	ExcessFlip(u16),
	RecipientAddr(KeyPick),
	RecipientAddrFlip(u8),
	SenderAddr(KeyPick),
	SenderAddrFlip(u8),
	RecipientSigFlip(u16),
	SenderSigFlip(u16),
	RecipientSigIsSenders,
	SenderSigIsRecipients,
	SwapSigs,
	SwapAddrs,
	/// signature by the party's REAL key over altered values. what: 0 amount+1 1 amount-1 2 other excess 3 other sender address
	RecipientSigOver { what: u8, excess: ExcessPick, key: KeyPick },
	SenderSigOver { what: u8, excess: ExcessPick, key: KeyPick },
	/// signature by another key over the right message
	RecipientSigBy(KeyPick),
	SenderSigBy(KeyPick),
	/// recipient address AND recipient signature replaced consistently by another key (observation only, see NOTES)
	ConsistentRecipient(KeyPick),
}

#[derive(Clone, Debug, Serialize, Deserialize)]
pub struct Case {
	pub base: u8,
	pub pre: Vec<Op>,
	/// account of wallet 0 that is active while the side ops run
	pub pre_acct: u8,
	/// sending account of wallet 0
	pub acct: u8,
	/// receiving account of wallet 1
	pub racct: u8,
	pub args: SendArgs,
	pub reply: Vec<ReplyMut>,
	pub export: Vec<ExportMut>,
	/// also judge the honest proof on a fresh copy of the base world (chain without the kernel)
	pub fork: bool,
}

fn b32() -> impl Strategy<Value = [u8; 32]> {
	any::<[u8; 32]>()
}

fn keypick() -> impl Strategy<Value = KeyPick> {
	(prop_oneof![3 => Just(0u8), 1 => Just(1u8), 1 => Just(2u8), 1 => Just(3u8), 1 => Just(4u8)], b32()).prop_map(|(which, seed)| KeyPick { which, seed })
}

fn excesspick() -> impl Strategy<Value = ExcessPick> {
	(0u8..4, b32(), any::<u16>()).prop_map(|(which, seed, k)| ExcessPick { which, seed, k })
}

fn amountalt() -> impl Strategy<Value = AmountAlt> {
	prop_oneof![
		3 => Just(AmountAlt::Plus1),
		3 => Just(AmountAlt::Minus1),
		1 => Just(AmountAlt::Zero),
		1 => Just(AmountAlt::Max),
		1 => Just(AmountAlt::PlusFee),
		1 => any::<u64>().prop_map(AmountAlt::Value),
	]
}

fn reply_mut_strategy() -> BoxedStrategy<ReplyMut> {
	prop_oneof![
		2 => Just(ReplyMut::StripProof),
		2 => Just(ReplyMut::StripRsig),
		3 => keypick().prop_map(ReplyMut::RsigByOther),
		4 => (keypick(), any::<bool>()).prop_map(|(key, matching)| ReplyMut::Raddr { key, matching }),
		4 => (keypick(), any::<bool>()).prop_map(|(key, resign)| ReplyMut::Saddr { key, resign }),
		3 => amountalt().prop_map(ReplyMut::SigOverAmount),
		3 => amountalt().prop_map(ReplyMut::SigOverAmountAndField),
		3 => excesspick().prop_map(ReplyMut::SigOverExcess),
		3 => keypick().prop_map(ReplyMut::SigOverSaddr),
		3 => any::<u16>().prop_map(ReplyMut::FlipRsig),
		2 => any::<u8>().prop_map(ReplyMut::FlipRaddr),
		2 => any::<u8>().prop_map(ReplyMut::FlipSaddr),
		1 => Just(ReplyMut::Resign),
	]
	.boxed()
}

fn export_mut_strategy() -> BoxedStrategy<ExportMut> {
	prop_oneof![
		4 => amountalt().prop_map(ExportMut::Amount),
		4 => excesspick().prop_map(ExportMut::Excess),
		1 => any::<u16>().prop_map(ExportMut::ExcessFlip),
		3 => keypick().prop_map(ExportMut::RecipientAddr),
		1 => any::<u8>().prop_map(ExportMut::RecipientAddrFlip),
		3 => keypick().prop_map(ExportMut::SenderAddr),
		1 => any::<u8>().prop_map(ExportMut::SenderAddrFlip),
		3 => any::<u16>().prop_map(ExportMut::RecipientSigFlip),
		3 => any::<u16>().prop_map(ExportMut::SenderSigFlip),
		2 => Just(ExportMut::RecipientSigIsSenders),
		2 => Just(ExportMut::SenderSigIsRecipients),
		1 => Just(ExportMut::SwapSigs),
		1 => Just(ExportMut::SwapAddrs),
		3 => (0u8..4, excesspick(), keypick()).prop_map(|(what, excess, key)| ExportMut::RecipientSigOver { what, excess, key }),
		3 => (0u8..4, excesspick(), keypick()).prop_map(|(what, excess, key)| ExportMut::SenderSigOver { what, excess, key }),
		2 => keypick().prop_map(ExportMut::RecipientSigBy),
		2 => keypick().prop_map(ExportMut::SenderSigBy),
		1 => keypick().prop_map(ExportMut::ConsistentRecipient),
	]
	.boxed()
}

fn side_op_strategy() -> BoxedStrategy<Op> {
	let args = || send_args_strategy(false, true, true, false);
	prop_oneof![
		4 => (0u16..4, prop_oneof![3 => Just(0xffffu16), 1 => any::<u16>()]).prop_map(|(to, take)| Op::Mine { to, take }),
		2 => any::<u16>().prop_map(|w| Op::Refresh { w }),
		3 => (any::<u16>(), any::<u16>(), args()).prop_map(|(w, to, args)| Op::InitSend { w, to, args }),
		8 => any::<u16>().prop_map(|s| Op::Step { s }),
	]
	.boxed()
}

fn args_strategy() -> BoxedStrategy<SendArgs> {
	(
		prop_oneof![16 => any::<u16>().prop_map(AmountPick::Frac), 3 => Just(AmountPick::AllInclFee), 1 => Just(AmountPick::One)],
		any::<bool>(),
		prop_oneof![1 => Just(0u8), 4 => Just(1u8), 3 => Just(2u8), 2 => Just(3u8)],
		prop_oneof![5 => Just(1u8), 1 => Just(2u8)],
		prop::bool::weighted(0.2),
		prop::bool::weighted(0.12),
		prop::bool::weighted(0.15),
	)
		.prop_map(|(amount, use_all, change, min_conf, incl_fee, late_lock, name_acct)| SendArgs {
			// no change output at all is only reachable when everything is spent (a send that needs change is refused with 0 outputs)
			amount: if change == 0 { AmountPick::AllInclFee } else { amount },
			use_all,
			change,
			min_conf,
			incl_fee,
			late_lock,
			proof: true,
			ttl: None,
			name_acct,
		})
		.boxed()
}

// ---------------------------------------------------------------------------------------------
// the harness' own ed25519 / message machinery (independent of libwallet::internal::tx)

/// amount u64 big-endian || 33-byte kernel excess commitment || 32-byte sender address
fn proof_msg(amount: u64, excess: &Commitment, saddr: &DalekPublicKey) -> Vec<u8> {
	let mut m = Vec::with_capacity(73);
	m.extend_from_slice(&amount.to_be_bytes());
	m.extend_from_slice(&excess.0);
	m.extend_from_slice(saddr.as_bytes());
	m
}

#[derive(Clone)]
struct Key {
	sk: [u8; 32],
	pk: DalekPublicKey,
}

fn key_from_seed(seed: &[u8; 32]) -> Key {
	let d = DalekSecretKey::from_bytes(seed).expect("any 32 bytes are an ed25519 secret");
	let pk: DalekPublicKey = (&d).into();
	Key { sk: *seed, pk }
}

fn sign(k: &Key, msg: &[u8]) -> DalekSignature {
	let d = DalekSecretKey::from_bytes(&k.sk).expect("ed25519 secret");
	let kp = DalekKeypair { public: k.pk, secret: d };
	kp.sign(msg)
}

fn verifies(pk: &DalekPublicKey, msg: &[u8], sig: &DalekSignature) -> bool {
	pk.verify(msg, sig).is_ok()
}

fn flip_pk(pk: &DalekPublicKey, bit: u8) -> Option<DalekPublicKey> {
	// first flipped position (from `bit` on) that still decodes as a public key: only such values can travel in a slate
	for d in 0..256u16 {
		let b = (bit as u16 + d) % 256;
		let mut raw = pk.to_bytes();
		raw[(b / 8) as usize] ^= 1 << (b % 8);
		if let Ok(p) = DalekPublicKey::from_bytes(&raw) {
			if p != *pk {
				return Some(p);
			}
		}
	}
	None
}

fn flip_sig(sig: &DalekSignature, bit: u16) -> Option<DalekSignature> {
	for d in 0..512u16 {
		let b = (bit % 512 + d) % 512;
		let mut raw = sig.to_bytes();
		raw[(b / 8) as usize] ^= 1 << (b % 8);
		if let Ok(s) = DalekSignature::from_bytes(&raw) {
			return Some(s);
		}
	}
	None
}

fn point_from_seed(seed: &[u8; 32]) -> Commitment {
	let pk = crate::props::c02::pubkey(seed);
	let secp = static_secp_instance();
	let secp = secp.lock();
	Commitment::from_pubkey(&secp, &pk).expect("commitment from pubkey")
}

fn commit_of_pubkeys(keys: Vec<&PublicKey>) -> Result<Commitment, String> {
	let secp = static_secp_instance();
	let secp = secp.lock();
	let sum = PublicKey::from_combination(&secp, keys).map_err(|e| format!("{:?}", e))?;
	Commitment::from_pubkey(&secp, &sum).map_err(|e| format!("{:?}", e))
}

fn alt_amount(a: &AmountAlt, amount: u64, fee: u64) -> u64 {
	match a {
		AmountAlt::Plus1 => amount.wrapping_add(1),
		AmountAlt::Minus1 => amount.wrapping_sub(1),
		AmountAlt::Zero => 0,
		AmountAlt::Max => u64::MAX,
		AmountAlt::PlusFee => amount.wrapping_add(fee),
		AmountAlt::Value(v) => *v,
	}
}

/// Everything the harness knows about one proof-carrying send while the reply is in hand.
struct Facts {
	/// amount on the wire to the recipient (what the recipient is asked to acknowledge)
	amount: u64,
	fee: u64,
	/// sum of both parties' public excesses = excess of the final kernel
	excess: Commitment,
	sender_part: Commitment,
	recipient_part: Commitment,
	sender: Key,
	recipient: Key,
	third: Key,
	recipient_other: Key,
	sender_other: Key,
}

impl Facts {
	fn key(&self, p: &KeyPick) -> Key {
		match p.which {
			1 => self.sender.clone(),
			2 => self.third.clone(),
			3 => self.recipient_other.clone(),
			4 => self.sender_other.clone(),
			_ => key_from_seed(&p.seed),
		}
	}
	fn msg(&self) -> Vec<u8> {
		proof_msg(self.amount, &self.excess, &self.sender.pk)
	}
}

fn kernel_at(sim: &Sim, k: u16, not: &Commitment) -> Option<Commitment> {
	let head = sim.world.height();
	let n = (head + 1) as usize;
	for d in 0..n {
		let h = ((idx(k, n) + d) % n) as u64;
		if let Ok(hdr) = sim.world.chain.get_header_by_height(h) {
			if let Ok(b) = sim.world.chain.get_block(&hdr.hash()) {
				for kn in b.kernels() {
					if kn.excess != *not {
						return Some(kn.excess);
					}
				}
			}
		}
	}
	None
}

fn all_kernels(sim: &Sim) -> BTreeSet<Vec<u8>> {
	let mut s = BTreeSet::new();
	for h in 0..=sim.world.height() {
		if let Ok(hdr) = sim.world.chain.get_header_by_height(h) {
			if let Ok(b) = sim.world.chain.get_block(&hdr.hash()) {
				for kn in b.kernels() {
					s.insert(kn.excess.0.to_vec());
				}
			}
		}
	}
	s
}

fn other_excess(sim: &Sim, f: &Facts, p: &ExcessPick) -> Option<Commitment> {
	let c = match p.which {
		1 => f.sender_part,
		2 => f.recipient_part,
		3 => kernel_at(sim, p.k, &f.excess)?,
		_ => point_from_seed(&p.seed),
	};
	if c == f.excess {
		None
	} else {
		Some(c)
	}
}

fn name_of<T: std::fmt::Debug>(m: &T) -> String {
	let s = format!("{:?}", m);
	s.split(|c| c == '(' || c == ' ' || c == '{').next().unwrap_or("?").to_string()
}

/// Apply a reply alteration. None = not applicable here.
fn mutate_reply(sim: &Sim, f: &Facts, reply: &mut Slate, m: &ReplyMut) -> Option<()> {
	let msg = f.msg();
	if let ReplyMut::StripProof = m {
		reply.payment_proof.as_ref()?;
		reply.payment_proof = None;
		return Some(());
	}
	if let ReplyMut::SigOverAmountAndField(a) = m {
		let v = alt_amount(a, f.amount, f.fee);
		if v == f.amount || v == 0 {
			return None;
		}
		reply.amount = v;
		let p = reply.payment_proof.as_mut()?;
		p.receiver_signature = Some(sign(&f.recipient, &proof_msg(v, &f.excess, &f.sender.pk)));
		return Some(());
	}
	let p = reply.payment_proof.as_mut()?;
	match m {
		ReplyMut::StripProof => {}
		ReplyMut::SigOverAmountAndField(_) => {}
		ReplyMut::StripRsig => {
			p.receiver_signature?;
			p.receiver_signature = None;
		}
		ReplyMut::RsigByOther(k) => {
			let k = f.key(k);
			if k.pk == f.recipient.pk {
				return None;
			}
			p.receiver_signature = Some(sign(&k, &msg));
		}
		ReplyMut::Raddr { key, matching } => {
			let k = f.key(key);
			if k.pk == p.receiver_address {
				return None;
			}
			p.receiver_address = k.pk;
			if *matching {
				p.receiver_signature = Some(sign(&k, &msg));
			}
		}
		ReplyMut::Saddr { key, resign } => {
			let k = f.key(key);
			if k.pk == p.sender_address {
				return None;
			}
			p.sender_address = k.pk;
			if *resign {
				p.receiver_signature = Some(sign(&f.recipient, &proof_msg(f.amount, &f.excess, &k.pk)));
			}
		}
		ReplyMut::SigOverAmount(a) => {
			let v = alt_amount(a, f.amount, f.fee);
			if v == f.amount {
				return None;
			}
			p.receiver_signature = Some(sign(&f.recipient, &proof_msg(v, &f.excess, &f.sender.pk)));
		}
		ReplyMut::SigOverExcess(e) => {
			let c = other_excess(sim, f, e)?;
			p.receiver_signature = Some(sign(&f.recipient, &proof_msg(f.amount, &c, &f.sender.pk)));
		}
		ReplyMut::SigOverSaddr(k) => {
			let k = f.key(k);
			if k.pk == f.sender.pk {
				return None;
			}
			p.receiver_signature = Some(sign(&f.recipient, &proof_msg(f.amount, &f.excess, &k.pk)));
		}
		ReplyMut::FlipRsig(b) => {
			let s = p.receiver_signature?;
			p.receiver_signature = Some(flip_sig(&s, *b)?);
		}
		ReplyMut::FlipRaddr(b) => p.receiver_address = flip_pk(&p.receiver_address, *b)?,
		ReplyMut::FlipSaddr(b) => p.sender_address = flip_pk(&p.sender_address, *b)?,
		ReplyMut::Resign => p.receiver_signature = Some(sign(&f.recipient, &msg)),
	}
	Some(())
}

#[derive(Debug, PartialEq, Clone, Copy)]
enum ReplyJudgement {
	/// not the requested recipient's valid signature over the actual values: must be refused
	Invalid,
	/// valid signature by the requested recipient over the actual values, sender address field intact
	Valid,
	/// valid signature by the requested recipient over the actual values, but the slate's sender address field was altered:
	/// refusing is fine; accepting is fine only if the exported proof then verifies
	ValidSaddrAltered,
}

/// The harness' own decision about a reply's proof (property text: "the requested recipient's valid signature over the
/// actual amount, the final kernel excess and the sender's address").
fn judge_reply(f: &Facts, reply: &Slate) -> ReplyJudgement {
	let p = match &reply.payment_proof {
		Some(p) => p,
		None => return ReplyJudgement::Invalid,
	};
	let sig = match &p.receiver_signature {
		Some(s) => s,
		None => return ReplyJudgement::Invalid,
	};
	if p.receiver_address != f.recipient.pk {
		return ReplyJudgement::Invalid;
	}
	if !verifies(&f.recipient.pk, &f.msg(), sig) {
		return ReplyJudgement::Invalid;
	}
	if p.sender_address != f.sender.pk {
		return ReplyJudgement::ValidSaddrAltered;
	}
	ReplyJudgement::Valid
}

fn addr(pk: &DalekPublicKey, like: &SlatepackAddress) -> SlatepackAddress {
	SlatepackAddress { hrp: like.hrp.clone(), pub_key: *pk }
}

fn mutate_export(sim: &Sim, f: &Facts, honest: &PaymentProof, m: &ExportMut) -> Option<PaymentProof> {
	let mut p = honest.clone();
	let msg = f.msg();
	let over = |what: u8, excess: &ExcessPick, key: &KeyPick| -> Option<Vec<u8>> {
		Some(match what {
			0 => proof_msg(f.amount.wrapping_add(1), &f.excess, &f.sender.pk),
			1 => proof_msg(f.amount.wrapping_sub(1), &f.excess, &f.sender.pk),
			2 => proof_msg(f.amount, &other_excess(sim, f, excess)?, &f.sender.pk),
			_ => {
				let k = f.key(key);
				if k.pk == f.sender.pk {
					return None;
				}
				proof_msg(f.amount, &f.excess, &k.pk)
			}
		})
	};
	match m {
		ExportMut::Amount(a) => p.amount = alt_amount(a, f.amount, f.fee),
		ExportMut::Excess(e) => p.excess = other_excess(sim, f, e)?,
		ExportMut::ExcessFlip(b) => {
			let b = (*b as usize) % (33 * 8);
			p.excess.0[b / 8] ^= 1 << (b % 8);
		}
		ExportMut::RecipientAddr(k) => p.recipient_address = addr(&f.key(k).pk, &honest.recipient_address),
		ExportMut::RecipientAddrFlip(b) => p.recipient_address = addr(&flip_pk(&honest.recipient_address.pub_key, *b)?, &honest.recipient_address),
		ExportMut::SenderAddr(k) => p.sender_address = addr(&f.key(k).pk, &honest.sender_address),
		ExportMut::SenderAddrFlip(b) => p.sender_address = addr(&flip_pk(&honest.sender_address.pub_key, *b)?, &honest.sender_address),
		ExportMut::RecipientSigFlip(b) => p.recipient_sig = flip_sig(&honest.recipient_sig, *b)?,
		ExportMut::SenderSigFlip(b) => p.sender_sig = flip_sig(&honest.sender_sig, *b)?,
		ExportMut::RecipientSigIsSenders => p.recipient_sig = honest.sender_sig,
		ExportMut::SenderSigIsRecipients => p.sender_sig = honest.recipient_sig,
		ExportMut::SwapSigs => {
			p.recipient_sig = honest.sender_sig;
			p.sender_sig = honest.recipient_sig;
		}
		ExportMut::SwapAddrs => {
			p.recipient_address = honest.sender_address.clone();
			p.sender_address = honest.recipient_address.clone();
		}
		ExportMut::RecipientSigOver { what, excess, key } => p.recipient_sig = sign(&f.recipient, &over(*what, excess, key)?),
		ExportMut::SenderSigOver { what, excess, key } => p.sender_sig = sign(&f.sender, &over(*what, excess, key)?),
		ExportMut::RecipientSigBy(k) => {
			let k = f.key(k);
			if k.pk == f.recipient.pk {
				return None;
			}
			p.recipient_sig = sign(&k, &msg);
		}
		ExportMut::SenderSigBy(k) => {
			let k = f.key(k);
			if k.pk == f.sender.pk {
				return None;
			}
			p.sender_sig = sign(&k, &msg);
		}
		ExportMut::ConsistentRecipient(k) => {
			let k = f.key(k);
			if k.pk == f.recipient.pk {
				return None;
			}
			p.recipient_address = addr(&k.pk, &honest.recipient_address);
			p.recipient_sig = sign(&k, &msg);
		}
	}
	if same_proof(&p, honest) {
		return None;
	}
	Some(p)
}

fn same_proof(a: &PaymentProof, b: &PaymentProof) -> bool {
	a.amount == b.amount
		&& a.excess == b.excess
		&& a.recipient_address.pub_key == b.recipient_address.pub_key
		&& a.sender_address.pub_key == b.sender_address.pub_key
		&& a.recipient_sig.to_bytes()[..] == b.recipient_sig.to_bytes()[..]
		&& a.sender_sig.to_bytes()[..] == b.sender_sig.to_bytes()[..]
}

/// The harness' own decision: both signatures valid over (amount, excess, sender address) of the proof itself.
fn sigs_valid(p: &PaymentProof) -> bool {
	let msg = proof_msg(p.amount, &p.excess, &p.sender_address.pub_key);
	verifies(&p.recipient_address.pub_key, &msg, &p.recipient_sig) && verifies(&p.sender_address.pub_key, &msg, &p.sender_sig)
}

/// JSON round trip, as every real caller of verify_payment_proof performs.
fn proof_wire(p: &PaymentProof) -> Option<PaymentProof> {
	let js = serde_json::to_string(p).ok()?;
	serde_json::from_str(&js).ok()
}

fn address_key(sim: &mut Sim, w: usize, acct: usize) -> Result<Key, String> {
	sim.with_account(w, acct, |sim| {
		let sk = sim.w(w).owner.get_slatepack_secret_key(sim.w(w).m(), 0).map_err(|e| format!("get_slatepack_secret_key: {}", e))?;
		let pk: DalekPublicKey = (&sk).into();
		let adr = sim.slatepack_address(w)?;
		if adr.pub_key != pk {
			return Err("slatepack address and slatepack secret key disagree".to_string());
		}
		Ok(Key { sk: sk.to_bytes(), pk })
	})
}

// ---------------------------------------------------------------------------------------------

pub struct C11 {
	scratch: PathBuf,
	bases: Vec<PathBuf>,
	n: u64,
	known: Vec<String>,
}

/// Known finding: in the late-lock flow the log entry holding "what proof the sender asked for" is created during
/// finalize from the REPLY (tx_lock_outputs(.., &reply)), so the verifier compares the reply with itself: a reply with
/// the proof stripped, or with another recipient address + that key's signature, is accepted — on the first finalize
/// attempt only (a refused attempt has already created the entry from ITS reply).
pub const SIG_LATE_LOCK: &str = "c11:late-lock-proof-request-taken-from-reply";

fn late_lock_shape(args: &SendArgs, m: &ReplyMut) -> bool {
	args.late_lock && matches!(m, ReplyMut::StripProof | ReplyMut::Raddr { matching: true, .. })
}

impl C11 {
	pub fn new(args: &Args) -> C11 {
		let mut bases = vec![];
		for v in 0..2u64 {
			let d = args.scratch.join(format!("c11.base{}", v));
			let mut spec = BaseSpec::standard(v * 2);
			spec.wallets = 3;
			base::build(&d, &spec).expect("base world");
			bases.push(d);
		}
		C11 { scratch: args.scratch.clone(), bases, n: 0, known: args.known_open.clone() }
	}
}

const S: usize = 0;
const R: usize = 1;
const T: usize = 2;

impl Prop for C11 {
	type Case = Case;
	fn id(&self) -> &'static str {
		"C11"
	}
	fn cases(&self, tier: Tier) -> u64 {
		tier.pick(160, 3200)
	}
	fn shrink_iters(&self) -> u32 {
		40
	}
	fn strategy(&self, _tier: Tier) -> BoxedStrategy<Case> {
		(
			0u8..2,
			prop::collection::vec(side_op_strategy(), 0..4),
			0u8..2,
			0u8..2,
			0u8..2,
			args_strategy(),
			prop::collection::vec(reply_mut_strategy(), 3..9),
			prop::collection::vec(export_mut_strategy(), 5..12),
			prop::bool::weighted(0.35),
		)
			.prop_map(|(base, pre, pre_acct, acct, racct, args, reply, export, fork)| Case { base, pre, pre_acct, acct, racct, args, reply, export, fork })
			.boxed()
	}
	fn rule(&self) -> String {
		"wallet 0 (account 0/1; history = base world + 0..3 generated side ops) sends with a payment proof requested for wallet 1's address (account 0/1): amount fraction/all-including-fee/1, both strategies, 0..3 change outputs, includes-fee, late lock. (a) 3..8 alterations of the reply's proof (strip proof, strip rsig, rsig by another key, raddr replaced with/without matching rsig, saddr replaced with/without re-signing, recipient's REAL key signing amount±1/other amounts, another excess (random, one party's partial excess, a kernel on chain), another sender address, bit flips in rsig/raddr/saddr, re-sign of the real values) are finalized one after the other on the pending send; the harness decides validity itself with ed25519 over (amount on the wire, sum of both public excesses, sender address). (b) honest send: finalize, export before mining, post+mine+refresh, export, verify in sender/recipient/third wallet; 5..11 alterations of the exported proof (amount, excess on chain/random/flipped, either address, either signature flipped/swapped/by another key/by the real key over other values) verified in all three wallets. (c) honest proof verified before the kernel is mined and on a fresh copy of the base world. non-trivial = at least one altered reply refused by the proof verifier, or at least one altered export evaluated; evaluations = number of finalize/verify judgements".into()
	}
	fn assumptions(&self) -> Vec<String> {
		vec![
			"a reply whose proof is still the requested recipient's valid signature over the actual values but whose sender-address FIELD was altered may be refused or accepted; if accepted the exported proof must verify".into(),
			"a still-valid reply (re-signed real values) must finalize only when it is the first finalize attempt on that pending transaction".into(),
			"the (sender_mine, recipient_mine) flags are judged only while the account that made / received the payment is active".into(),
			"an exported proof whose recipient address AND recipient signature were replaced consistently by another key is self-consistent (the sender's signature does not cover the recipient address): counted, not judged".into(),
			"late-locked sends may fail at finalize for lack of funds".into(),
		]
	}
	fn run(&mut self, c: &Case) -> Outcome {
		let mut out = Outcome::default();
		self.n += 1;
		let dir = self.scratch.join(format!("c11.case{}", self.n));
		let dir2 = self.scratch.join(format!("c11.case{}f", self.n));
		let r = self.run_case(c, &dir, &dir2, &mut out);
		let _ = std::fs::remove_dir_all(&dir);
		let _ = std::fs::remove_dir_all(&dir2);
		if let Err(e) = r {
			out.fail("c11:harness-error", e);
		}
		out
	}
}

struct Honest {
	si: usize,
	facts: Facts,
	/// finalized through an altered reply whose sender address field differed
	saddr_altered: bool,
}

impl C11 {
	/// init (+lock) + deliver; returns slate index and the facts, or None when the send could not be prepared.
	fn prepare(&self, sim: &mut Sim, args: &SendArgs, acct: usize, racct: usize, keys: &(Key, Key, Key, Key, Key), out: &mut Outcome) -> Result<Option<(usize, Facts)>, String> {
		let prep: Result<usize, String> = (|| {
			let si = sim.init_send(S, R, args)?;
			if !args.late_lock {
				sim.lock(si)?;
			}
			sim.deliver(si)?;
			Ok(si)
		})();
		let si = match prep {
			Ok(si) => si,
			Err(e) => {
				out.class("not-prepared");
				crate::rt::dbg(&format!("not prepared: {}", e));
				return Ok(None);
			}
		};
		let _ = (acct, racct);
		let s1 = sim.slates[si].s1.clone();
		let s2 = sim.slates[si].s2.clone().ok_or("no reply")?;
		let (sender, recipient, third, recipient_other, sender_other) = keys.clone();
		// what the sender put on the wire
		match &s1.payment_proof {
			Some(p) => {
				if p.sender_address != sender.pk {
					out.fail("c11:s1-sender-address", "the sender address in S1 is not the sending account's address at index 0".to_string());
				}
				if p.receiver_address != recipient.pk {
					out.fail("c11:s1-recipient-address", "the recipient address in S1 is not the requested one".to_string());
				}
			}
			None => {
				out.fail("c11:s1-without-proof", "payment proof requested but S1 carries none".to_string());
				return Ok(None);
			}
		}
		let sp = s1.participant_data.get(0).ok_or("S1 without participant")?.public_blind_excess;
		let rp = s2.participant_data.iter().find(|p| p.part_sig.is_some()).ok_or("S2 without signing participant")?.public_blind_excess;
		let excess = commit_of_pubkeys(vec![&sp, &rp])?;
		let sender_part = commit_of_pubkeys(vec![&sp])?;
		let recipient_part = commit_of_pubkeys(vec![&rp])?;
		let facts = Facts {
			amount: s1.amount,
			fee: s1.fee_fields.fee(),
			excess,
			sender_part,
			recipient_part,
			sender,
			recipient,
			third,
			recipient_other,
			sender_other,
		};
		Ok(Some((si, facts)))
	}

	fn run_case(&mut self, c: &Case, dir: &PathBuf, dir2: &PathBuf, out: &mut Outcome) -> Result<(), String> {
		let base = self.bases[c.base as usize % self.bases.len()].clone();
		let mut sim = base::open_copy(&base, dir)?;
		sim.strict = true;
		let acct = c.acct as usize % ACCOUNTS.len();
		let racct = c.racct as usize % ACCOUNTS.len();
		sim.switch_account(S, c.pre_acct as usize % ACCOUNTS.len())?;
		sim.switch_account(R, racct)?;
		for op in &c.pre {
			let _ = sim.apply(op);
		}
		sim.switch_account(S, acct)?;
		sim.switch_account(R, racct)?;
		sim.switch_account(T, 0)?;
		let _ = sim.refresh(S);
		let keys = (
			address_key(&mut sim, S, acct)?,
			address_key(&mut sim, R, racct)?,
			address_key(&mut sim, T, 0)?,
			address_key(&mut sim, R, (racct + 1) % ACCOUNTS.len())?,
			address_key(&mut sim, S, (acct + 1) % ACCOUNTS.len())?,
		);
		let mut args = c.args.clone();
		args.proof = true;
		args.ttl = None;
		out.class(format!("acct={}/{}", acct, racct));
		out.class(format!("change={}", args.change));
		out.class(format!("amount={}", name_of(&args.amount)));
		if args.late_lock {
			out.class("late-lock");
		}
		let mut evals = 0u64;
		let mut honest: Option<Honest> = None;

		// ---------------- (a) altered replies on send A
		if !c.reply.is_empty() {
			if let Some((si, f)) = self.prepare(&mut sim, &args, acct, racct, &keys, out)? {
				let id = sim.slates[si].id;
				let s2 = wire(sim.slates[si].s2.as_ref().ok_or("no reply")?)?;
				// the honest reply itself must be what the harness calls valid (checks the harness' message / excess too)
				if judge_reply(&f, &s2) != ReplyJudgement::Valid {
					out.fail("c11:honest-reply-proof-invalid", format!("the recipient's reply does not carry its valid signature over (amount {}, excess, sender address)", f.amount));
				}
				let mut attempts = 0u32;
				// receiver address carried by the first reply that reached finalize (late lock records it as "requested")
				let mut first_raddr: Option<Option<DalekPublicKey>> = None;
				let mut finalized = false;
				let mut last_err = String::new();
				let known_ll = self.known.iter().any(|k| k == SIG_LATE_LOCK);
				for m in &c.reply {
					let mut reply = s2.clone();
					if mutate_reply(&sim, &f, &mut reply, m).is_none() {
						out.class("reply:not-applicable");
						continue;
					}
					let reply = match wire(&reply) {
						Ok(r) => r,
						Err(_) => {
							out.class("reply:not-encodable");
							continue;
						}
					};
					let j = judge_reply(&f, &reply);
					let kind = name_of(m);
					let res = sim.w(S).owner.finalize_tx(sim.w(S).m(), &reply).map_err(|e| e.to_string());
					attempts += 1;
					evals += 1;
					let this_raddr = reply.payment_proof.as_ref().map(|p| p.receiver_address);
					if first_raddr.is_none() {
						first_raddr = Some(this_raddr);
					}
					match (&res, j) {
						(Err(e), ReplyJudgement::Invalid) => {
							if e.contains("Payment Proof") {
								out.nontrivial = true;
								out.class(format!("reply:{}:refused-by-verifier", kind));
							} else {
								out.class(format!("reply:{}:refused-elsewhere", kind));
								crate::rt::dbg(&format!("reply {} refused elsewhere: {}", kind, e));
							}
							last_err = e.clone();
						}
						(Ok(_), ReplyJudgement::Invalid) => {
							out.nontrivial = true;
							// the known shape: late lock, first finalize attempt (the one that creates the log entry from the reply)
							// (or a later attempt carrying the very address the first attempt made the wallet record)
							let ll = late_lock_shape(&args, m) && (attempts == 1 || (this_raddr.is_some() && first_raddr == Some(this_raddr)));
							let sig = if ll { SIG_LATE_LOCK.to_string() } else { format!("c11:altered-reply-accepted:{}", kind) };
							out.fail(
								sig,
								format!("finalize_tx accepted a reply whose proof is not the requested recipient's valid signature over the actual values; alteration {:?}", m),
							);
							finalized = true;
							if known_ll && ll {
								// release the funds so that the honest part of the case can still run
								let _ = sim.cancel(S, si, false);
							}
						}
						(Err(e), ReplyJudgement::Valid) => {
							let acceptable_late = args.late_lock && (e.contains("Not enough funds") || e.contains("Fee Error") || e.contains("Cannot split change") || e.contains("Transaction error"));
							if attempts == 1 && !acceptable_late {
								out.fail("c11:honest-finalize-failed", format!("a reply with a valid proof ({}) was refused on the first attempt: {}", kind, e));
							} else {
								out.class(format!("reply:{}:valid-refused-after-refusals", kind));
							}
							last_err = e.clone();
						}
						(Err(e), ReplyJudgement::ValidSaddrAltered) => {
							if e.contains("Payment Proof") {
								out.nontrivial = true;
							}
							out.class(format!("reply:{}:saddr-field-refused", kind));
							last_err = e.clone();
						}
						(Ok(s3), ReplyJudgement::Valid) | (Ok(s3), ReplyJudgement::ValidSaddrAltered) => {
							out.class(format!("reply:{}:valid-accepted", kind));
							let s = &mut sim.slates[si];
							s.tx = s3.tx.clone();
							s.s3 = Some(s3.clone());
							s.stage = Stage::Finalized;
							s.locked = true;
							finalized = true;
						}
					}
					if finalized {
						if !self.blocking(out) && j != ReplyJudgement::Invalid {
							honest = Some(Honest { si, facts: clone_facts(&f), saddr_altered: j == ReplyJudgement::ValidSaddrAltered });
						}
						break;
					}
				}
				if !finalized && attempts > 0 {
					// the pending transaction can still be cancelled, and its inputs come back
					let parent = sim.acct_parent(acct);
					let v = snap::view(sim.w(S));
					let entry = v.txs.iter().find(|t| t.tx_slate_id == Some(id) && t.parent_key_id == parent && t.tx_type == TxLogEntryType::TxSent);
					if let Some(t) = entry {
						let reserved: Vec<_> = v
							.outputs
							.iter()
							.filter(|o| o.root_key_id == parent && o.tx_log_entry == Some(t.id) && o.status == OutputStatus::Locked)
							.cloned()
							.collect();
						match sim.cancel(S, si, false) {
							Ok(()) => {
								out.class("cancel-after-refusal:ok");
								let v2 = snap::view(sim.w(S));
								for o in &reserved {
									match v2.outputs.iter().find(|x| x.key_id == o.key_id && x.mmr_index == o.mmr_index) {
										Some(x) if x.status == OutputStatus::Unspent => {}
										other => out.fail("c11:cancel-after-refused-finalize", format!("input {:?} not spendable again after cancel: {:?}", o.key_id, other.map(|x| x.status.clone()))),
									}
								}
							}
							Err(ce) => out.fail("c11:cannot-cancel-after-refused-finalize", format!("finalize refused ({}) and then cancel refused: {}", last_err, ce)),
						}
					} else if !args.late_lock {
						out.fail("c11:entry-lost-after-refused-finalize", format!("no pending log entry for the slate after refused finalize ({})", last_err));
					}
				}
			}
		}

		// ---------------- (b) honest send B (unless A was finalized through a still-valid reply)
		if !self.blocking(out) && honest.is_none() {
			let _ = sim.refresh(S);
			if let Some((si, f)) = self.prepare(&mut sim, &args, acct, racct, &keys, out)? {
				let s2 = wire(sim.slates[si].s2.as_ref().ok_or("no reply")?)?;
				if judge_reply(&f, &s2) != ReplyJudgement::Valid {
					out.fail("c11:honest-reply-proof-invalid", format!("the recipient's reply does not carry its valid signature over (amount {}, excess, sender address)", f.amount));
				}
				evals += 1;
				// the user may have left the other account active when the reply arrives: that finalize is either refused
				// (and repeated under the sending account) or, if accepted, subject to everything below
				let other_acct = c.pre_acct as usize % ACCOUNTS.len();
				let mut first = None;
				if other_acct != acct {
					match sim.finalize_under(si, other_acct) {
						Ok(()) => {
							out.class("honest:finalized-under-other-account");
							first = Some(Ok(()));
						}
						Err(_) => out.class("honest:finalize-under-other-account-refused"),
					}
				}
				match first.unwrap_or_else(|| sim.finalize(si)) {
					Ok(()) => {
						out.class("honest:finalized");
						honest = Some(Honest { si, facts: f, saddr_altered: false });
					}
					Err(e) => {
						let acceptable_late = args.late_lock && (e.contains("Not enough funds") || e.contains("Fee Error") || e.contains("Cannot split change") || e.contains("Transaction error"));
						if acceptable_late {
							out.class("honest:late-lock-no-funds");
						} else {
							out.fail("c11:honest-finalize-failed", format!("honest reply refused: {}", e));
						}
					}
				}
			}
		}

		if let (false, Some(h)) = (self.blocking(out), honest.as_ref()) {
			evals += self.judge_export(&mut sim, c, h, acct, racct, &base, dir2, out)?;
		}
		out.evals = Some(std::cmp::max(1, evals));
		if !out.fails.is_empty() {
			let hist = sim.history();
			for f in out.fails.iter_mut() {
				f.detail = format!("{}\n--- acct {} racct {} args {:?} ---\n{}", f.detail, acct, racct, args, hist);
			}
		}
		Ok(())
	}

	/// a failure other than an open known finding was recorded
	fn blocking(&self, out: &Outcome) -> bool {
		out.fails.iter().any(|f| !self.known.iter().any(|k| k == &f.sig))
	}

	fn verify_all(&self, sim: &Sim, p: &PaymentProof) -> Vec<(&'static str, Result<(bool, bool), String>)> {
		[("sender", S), ("recipient", R), ("third", T)]
			.iter()
			.map(|(n, w)| (*n, sim.w(*w).owner.verify_payment_proof(sim.w(*w).m(), p).map_err(|e| e.to_string())))
			.collect()
	}

	fn judge_export(&self, sim: &mut Sim, c: &Case, h: &Honest, acct: usize, racct: usize, base: &PathBuf, dir2: &PathBuf, out: &mut Outcome) -> Result<u64, String> {
		let mut evals = 0u64;
		let f = &h.facts;
		let si = h.si;
		let id = sim.slates[si].id;
		let tag = if h.saddr_altered { ":after-altered-saddr" } else { "" };
		let tx = sim.slates[si].tx.clone().ok_or("finalized without tx")?;
		if tx.kernels().len() != 1 || tx.kernels()[0].excess != f.excess {
			return Err("harness: final kernel excess differs from the sum of both public excesses".into());
		}
		sim.switch_account(S, acct)?;
		sim.switch_account(R, racct)?;
		sim.switch_account(T, 0)?;

		// --- (c) exported before the kernel is on chain
		let early = sim.w(S).owner.retrieve_payment_proof(sim.w(S).m(), true, None, Some(id)).map_err(|e| e.to_string());
		let early = match early {
			Ok(p) => {
				out.class("early-export:ok");
				if !sigs_valid(&p) {
					out.fail(format!("c11:exported-proof-invalid{}", tag), "the proof exported right after finalize does not carry two valid signatures over its own values".to_string());
				}
				if sim.world.chain.get_kernel_height(&p.excess, None, None).map(|k| k.is_some()).unwrap_or(false) {
					return Err("harness: kernel on chain before posting".into());
				}
				for (who, r) in self.verify_all(sim, &p) {
					evals += 1;
					if let Ok(fl) = r {
						out.fail("c11:verified-without-kernel", format!("{} wallet verified the proof {:?} although the kernel is not on chain (before mining)", who, fl));
					}
				}
				out.nontrivial = true;
				Some(p)
			}
			Err(e) => {
				out.class("early-export:refused");
				crate::rt::dbg(&format!("early export refused: {}", e));
				None
			}
		};

		// --- post, mine, refresh
		sim.post(si).map_err(|e| format!("post of honest tx failed: {}", e))?;
		sim.mine(None, 0xffff)?;
		if sim.slates[si].mined_at.is_none() {
			out.class("honest-tx-not-mined");
			return Ok(evals);
		}
		let _ = sim.refresh(S);
		let _ = sim.refresh(R);
		let kernels = all_kernels(sim);
		if !kernels.contains(&f.excess.0.to_vec()) {
			return Err("harness: mined kernel not found by walking the chain".into());
		}

		// --- honest export
		let p = match sim.w(S).owner.retrieve_payment_proof(sim.w(S).m(), true, None, Some(id)) {
			Ok(p) => p,
			Err(e) => {
				out.fail(format!("c11:export-failed{}", tag), format!("retrieve_payment_proof after confirmation failed: {}", e));
				return Ok(evals);
			}
		};
		let mut fields = vec![];
		if p.amount != f.amount {
			fields.push(format!("amount {} != amount sent {}", p.amount, f.amount));
		}
		if p.excess != f.excess {
			fields.push("excess != kernel excess".to_string());
		}
		if p.recipient_address.pub_key != f.recipient.pk {
			fields.push("recipient address != requested".to_string());
		}
		if p.sender_address.pub_key != f.sender.pk {
			fields.push("sender address != sending account's address".to_string());
		}
		if !fields.is_empty() {
			out.fail(format!("c11:exported-proof-fields{}", tag), format!("exported proof: {}", fields.join("; ")));
		}
		if !sigs_valid(&p) {
			out.fail(format!("c11:exported-proof-invalid{}", tag), "the exported proof does not carry two valid signatures over its own values".to_string());
		}
		let want = [("sender", (true, false)), ("recipient", (false, true)), ("third", (false, false))];
		let mut proofs = vec![("export", p.clone())];
		if let Some(w) = proof_wire(&p) {
			if !same_proof(&w, &p) {
				out.fail("c11:proof-json-roundtrip", "the exported proof changes in a JSON round trip".to_string());
			}
			proofs.push(("export-json", w));
		} else {
			out.fail("c11:proof-json-roundtrip", "the exported proof does not survive a JSON round trip".to_string());
		}
		if let Some(e) = early {
			proofs.push(("early-export", e));
		}
		for (name, pp) in &proofs {
			for ((who, r), (_, flags)) in self.verify_all(sim, pp).into_iter().zip(want.iter()) {
				evals += 1;
				match r {
					Ok(fl) if fl == *flags => {}
					Ok(fl) => out.fail("c11:mine-flags", format!("{} wallet: {} proof verified with flags {:?}, expected {:?}", who, name, fl, flags)),
					Err(e) => out.fail(format!("c11:honest-proof-rejected{}", tag), format!("{} wallet rejected the honest {} proof: {}", who, name, e)),
				}
			}
		}
		out.class("honest:verified");
		if self.blocking(out) {
			return Ok(evals);
		}

		// --- altered exports
		for m in &c.export {
			let kind = name_of(m);
			let mp = match mutate_export(sim, f, &p, m) {
				Some(x) => x,
				None => {
					out.class("export:not-applicable");
					continue;
				}
			};
			let mp = match proof_wire(&mp) {
				Some(x) => x,
				None => {
					out.class("export:not-encodable");
					continue;
				}
			};
			let valid = kernels.contains(&mp.excess.0.to_vec()) && sigs_valid(&mp);
			if valid {
				// self-consistent proof of another statement: not judged
				let r = self.verify_all(sim, &mp);
				out.class(format!("export:{}:self-consistent:{}", kind, if r.iter().all(|x| x.1.is_ok()) { "accepted" } else { "refused" }));
				continue;
			}
			out.nontrivial = true;
			out.class(format!("export:{}", kind));
			for (who, r) in self.verify_all(sim, &mp) {
				evals += 1;
				if let Ok(fl) = r {
					out.fail(format!("c11:altered-proof-verified:{}", kind), format!("{} wallet verified an altered proof {:?}; alteration {:?}", who, fl, m));
				}
			}
		}

		// --- (c) a world whose chain lacks the kernel
		if c.fork && !self.blocking(out) {
			let other = base::open_copy(base, dir2)?;
			if other.world.chain.get_kernel_height(&p.excess, None, None).map(|k| k.is_some()).unwrap_or(false) {
				return Err("harness: kernel present in a fresh copy of the base world".into());
			}
			let _ = other.w(S).set_account(ACCOUNTS[acct]);
			let _ = other.w(R).set_account(ACCOUNTS[racct]);
			for (who, w) in [("sender", S), ("recipient", R), ("third", T)].iter() {
				evals += 1;
				if let Ok(fl) = other.w(*w).owner.verify_payment_proof(other.w(*w).m(), &p) {
					out.fail("c11:verified-without-kernel", format!("{} wallet on a chain without the kernel verified the proof {:?}", who, fl));
				}
			}
			out.class("fork-world:judged");
			drop(other);
		}
		Ok(evals)
	}
}

fn clone_facts(f: &Facts) -> Facts {
	Facts {
		amount: f.amount,
		fee: f.fee,
		excess: f.excess,
		sender_part: f.sender_part,
		recipient_part: f.recipient_part,
		sender: f.sender.clone(),
		recipient: f.recipient.clone(),
		third: f.third.clone(),
		recipient_other: f.recipient_other.clone(),
		sender_other: f.sender_other.clone(),
	}
}

pub fn run(args: &Args, rep: &mut Report) {
	let mut p = C11::new(args);
	run_part(&mut p, args, rep);
}

pub fn replay(args: &Args, _part: &str, case: &serde_json::Value) -> Result<Outcome, String> {
	replay_part(&mut C11::new(args), case)
}
