//! C12 — secrets never leave the wallet in clear; signing nonces are never reused.
//!
//! Part `leak`      (world)  : needle search over every file of the wallet directories, the captured log and every
//!                             message emitted, after every op of a generated history, for seed / phrase / live context secrets.
//! Part `seedfile`  (pbt)    : wallet.seed decrypts to the seed with an independent routine; wrong passwords are refused;
//!                             change_password leaves only the new password valid.
//! Part `interrupt` (fsfault): change_password / recover_from_mnemonic run in a child process under an LD_PRELOAD shim that
//!                             kills it (or fails the call) at every point between its file operations.
//! Part `nonce`     (world)  : public nonce / public excess contributed by a wallet never repeat across slate ids.

use crate::base::{self, BaseSpec};
use crate::node::DirectNode;
use crate::rt::*;
use crate::sim::*;
use crate::world::{self, Wal, World};
use grin_keychain::{mnemonic, ExtKeychain, Keychain, SwitchCommitmentType};
use grin_util::ZeroingString;
use grin_wallet_libwallet::{
	Slate, SlateVersion, SlatepackBin, VersionedBinSlate, VersionedSlate, WalletLCProvider,
};
use grin_wallet_util::byte_ser;
use proptest::prelude::*;
use serde_derive::{Deserialize, Serialize};
use serde_json::{json, Value};
use sha2::{Digest, Sha512};
use std::collections::{BTreeMap, BTreeSet, HashMap};
use std::convert::TryFrom;
use std::path::{Path, PathBuf};
use std::sync::atomic::{AtomicBool, Ordering};
use std::sync::Mutex;

type Lc<'x> = &'x mut (dyn WalletLCProvider<'static, DirectNode, ExtKeychain> + 'static);

/// Run `f` on a fresh lifecycle provider rooted at `top` (the instance, and with it any LMDB environment, is dropped on return).
fn lc_do<T>(top: &Path, f: impl FnOnce(Lc) -> T) -> T {
	let inst = world::make_inst(DirectNode::new(None));
	let mut l = inst.lock();
	let lc = l.lc_provider().expect("lc_provider");
	lc.set_top_level_directory(top.to_str().unwrap()).expect("set_top_level_directory");
	f(lc)
}

fn zs(s: &str) -> ZeroingString {
	ZeroingString::from(s)
}

// =============================================================================================
// independent seed-file reader (own JSON field access, own hex, own PBKDF2-HMAC-SHA512 on sha2; ChaCha20-Poly1305 from ring)

fn hmac_sha512(key: &[u8], parts: &[&[u8]]) -> [u8; 64] {
	let mut k = [0u8; 128];
	if key.len() > 128 {
		let d = Sha512::digest(key);
		k[..64].copy_from_slice(&d);
	} else {
		k[..key.len()].copy_from_slice(key);
	}
	let mut inner = Sha512::new();
	let ipad: Vec<u8> = k.iter().map(|b| b ^ 0x36).collect();
	inner.update(&ipad);
	for p in parts {
		inner.update(p);
	}
	let ih = inner.finalize();
	let mut outer = Sha512::new();
	let opad: Vec<u8> = k.iter().map(|b| b ^ 0x5c).collect();
	outer.update(&opad);
	outer.update(&ih);
	let oh = outer.finalize();
	let mut r = [0u8; 64];
	r.copy_from_slice(&oh);
	r
}

/// First 32 bytes of PBKDF2-HMAC-SHA512(password, salt, iters) (one block suffices).
pub fn own_pbkdf2_sha512_32(pw: &[u8], salt: &[u8], iters: u32) -> [u8; 32] {
	let mut u = hmac_sha512(pw, &[salt, &1u32.to_be_bytes()]);
	let mut t = u;
	for _ in 1..iters {
		u = hmac_sha512(pw, &[&u]);
		for i in 0..64 {
			t[i] ^= u[i];
		}
	}
	let mut k = [0u8; 32];
	k.copy_from_slice(&t[..32]);
	k
}

fn own_unhex(s: &str) -> Result<Vec<u8>, String> {
	let b = s.as_bytes();
	if b.len() % 2 != 0 {
		return Err("odd hex length".into());
	}
	let v = |c: u8| -> Result<u8, String> {
		match c {
			b'0'..=b'9' => Ok(c - b'0'),
			b'a'..=b'f' => Ok(c - b'a' + 10),
			b'A'..=b'F' => Ok(c - b'A' + 10),
			_ => Err("non-hex character".to_string()),
		}
	};
	let mut out = Vec::with_capacity(b.len() / 2);
	for p in b.chunks(2) {
		out.push(v(p[0])? << 4 | v(p[1])?);
	}
	Ok(out)
}

/// Decrypt the bytes of a `wallet.seed` file with `password`. Format (impls/src/lifecycle/seed.rs EncryptedWalletSeed):
/// JSON object {encrypted_seed, salt, nonce} of hex strings; key = PBKDF2-HMAC-SHA512(password, salt, 100 iterations, 32 bytes);
/// ChaCha20-Poly1305, 12-byte nonce, empty AAD, ciphertext || 16-byte tag.
pub fn indep_decrypt(file: &[u8], password: &str) -> Result<Vec<u8>, String> {
	let v: Value = serde_json::from_slice(file).map_err(|e| format!("not JSON: {}", e))?;
	let field = |n: &str| -> Result<Vec<u8>, String> { own_unhex(v[n].as_str().ok_or(format!("no field {}", n))?) };
	let ct = field("encrypted_seed")?;
	let salt = field("salt")?;
	let nonce = field("nonce")?;
	if nonce.len() != 12 {
		return Err("nonce length".into());
	}
	if ct.len() < 16 {
		return Err("ciphertext shorter than the tag".into());
	}
	let key = own_pbkdf2_sha512_32(password.as_bytes(), &salt, 100);
	let mut n = [0u8; 12];
	n.copy_from_slice(&nonce);
	let k = ring::aead::LessSafeKey::new(
		ring::aead::UnboundKey::new(&ring::aead::CHACHA20_POLY1305, &key).map_err(|_| "key".to_string())?,
	);
	let mut buf = ct;
	let pt = k
		.open_in_place(ring::aead::Nonce::assume_unique_for_key(n), ring::aead::Aad::empty(), &mut buf)
		.map_err(|_| "authentication failed".to_string())?;
	Ok(pt.to_vec())
}

/// Self-test of the own KDF against ring's (trusted base); a mismatch is a harness error.
fn kdf_selftest() -> Result<(), String> {
	let long = "x".repeat(300);
	for (pw, salt) in [("", &b"12345678"[..]), ("passwoid", &b"\x00\x01\x02\x03\x04\x05\x06\x07"[..]), (long.as_str(), &b"saltsalt"[..])].iter() {
		let mine = own_pbkdf2_sha512_32(pw.as_bytes(), salt, 100);
		let mut theirs = [0u8; 32];
		ring::pbkdf2::derive(ring::pbkdf2::PBKDF2_HMAC_SHA512, std::num::NonZeroU32::new(100).unwrap(), salt, pw.as_bytes(), &mut theirs);
		if mine != theirs {
			return Err("harness: own PBKDF2-HMAC-SHA512 disagrees with ring".into());
		}
	}
	Ok(())
}

fn seed_files(data_dir: &Path) -> Vec<(String, Vec<u8>)> {
	let mut v = vec![];
	if let Ok(rd) = std::fs::read_dir(data_dir) {
		for e in rd.flatten() {
			let n = e.file_name().to_string_lossy().to_string();
			if n.starts_with("wallet.seed") {
				v.push((n, std::fs::read(e.path()).unwrap_or_default()));
			}
		}
	}
	v.sort();
	v
}

fn root_secret(kc: &ExtKeychain) -> Vec<u8> {
	kc.derive_key(0, &ExtKeychain::root_key_id(), SwitchCommitmentType::Regular)
		.map(|k| k.0.to_vec())
		.unwrap_or_default()
}

// =============================================================================================
// child process entry (hidden sub-commands of gwv used by part `interrupt`)

fn hexs(s: &str) -> String {
	grin_util::ToHex::to_hex(&s.as_bytes().to_vec())
}

/// `gwv child-change-password <top-dir> <hex old> <hex new>` / `gwv child-recover <top-dir> <hex phrase> <hex password>`
pub fn child_main(argv: &[String]) -> i32 {
	if argv.len() < 5 {
		return 64;
	}
	let un = |s: &str| String::from_utf8(own_unhex(s).unwrap_or_default()).unwrap_or_default();
	let (a, b) = (un(&argv[3]), un(&argv[4]));
	let top = PathBuf::from(&argv[2]);
	let r = match argv[1].as_str() {
		"child-change-password" => lc_do(&top, |lc| lc.change_password(None, zs(&a), zs(&b)).map_err(|e| e.to_string())),
		"child-recover" => lc_do(&top, |lc| lc.recover_from_mnemonic(zs(&a), zs(&b)).map_err(|e| e.to_string())),
		_ => return 64,
	};
	match r {
		Ok(()) => 0,
		Err(_) => 1,
	}
}

// =============================================================================================
// log capture (the wallet binary writes `log` records to <top-dir>/grin-wallet.log; the harness captures every record instead)

struct CapLog;
static CAP_ON: AtomicBool = AtomicBool::new(false);
static CAP_INSTALLED: AtomicBool = AtomicBool::new(false);
lazy_static::lazy_static! {
	static ref CAP_BUF: Mutex<Vec<u8>> = Mutex::new(Vec::new());
}
static CAPLOG: CapLog = CapLog;

impl log::Log for CapLog {
	fn enabled(&self, _m: &log::Metadata) -> bool {
		CAP_ON.load(Ordering::Relaxed)
	}
	fn log(&self, r: &log::Record) {
		if CAP_ON.load(Ordering::Relaxed) {
			let line = format!("{} {} {}\n", r.level(), r.target(), r.args());
			if let Ok(mut b) = CAP_BUF.lock() {
				b.extend_from_slice(line.as_bytes());
			}
		}
	}
	fn flush(&self) {}
}

fn install_caplog() -> bool {
	if CAP_INSTALLED.load(Ordering::Relaxed) {
		return true;
	}
	if log::set_logger(&CAPLOG).is_ok() {
		log::set_max_level(log::LevelFilter::Trace);
		CAP_INSTALLED.store(true, Ordering::Relaxed);
		true
	} else {
		false
	}
}

fn take_log() -> Vec<u8> {
	std::mem::take(&mut *CAP_BUF.lock().unwrap())
}

// =============================================================================================
// needle scanner

#[derive(Clone, Debug)]
pub struct Needle {
	/// seed | phrase | phrase-window | ctx-key | ctx-nonce
	pub kind: &'static str,
	pub label: String,
	pub bytes: Vec<u8>,
	/// text needles are searched as text only (no hex / base64 / integer-array forms)
	pub text_only: bool,
}

struct Pattern {
	needle: usize,
	enc: &'static str,
	bytes: Vec<u8>,
	/// which haystack variant: false = raw bytes, true = ASCII-whitespace-stripped copy
	stripped: bool,
	/// integer-list pattern: neighbours must not be digits
	int_list: bool,
}

const B64_STD: &[u8; 64] = b"ABCDEFGHIJKLMNOPQRSTUVWXYZabcdefghijklmnopqrstuvwxyz0123456789+/";
const B64_URL: &[u8; 64] = b"ABCDEFGHIJKLMNOPQRSTUVWXYZabcdefghijklmnopqrstuvwxyz0123456789-_";

/// base64 of `data` as it appears when `data` starts at offset `off` (mod 3) of a longer encoded stream:
/// only the characters that are fully determined by `data` are kept.
fn b64_aligned(data: &[u8], off: usize, alpha: &[u8; 64]) -> Vec<u8> {
	let mut buf = vec![0u8; off];
	buf.extend_from_slice(data);
	let mut out = vec![];
	for ch in buf.chunks(3) {
		if ch.len() < 3 {
			break; // trailing partial group depends on what follows
		}
		let n = (ch[0] as u32) << 16 | (ch[1] as u32) << 8 | ch[2] as u32;
		for s in [18u32, 12, 6, 0].iter() {
			out.push(alpha[((n >> s) & 63) as usize]);
		}
	}
	let skip = match off {
		0 => 0,
		1 => 2,
		_ => 3,
	};
	out[skip..].to_vec()
}

pub struct Scanner {
	needles: Vec<Needle>,
	pats: Vec<Pattern>,
	first2: Vec<bool>,
	map: HashMap<u32, Vec<usize>>,
}

#[derive(Clone, Debug)]
pub struct Hit {
	pub needle: usize,
	pub enc: &'static str,
	pub pos: usize,
	pub stripped: bool,
	/// up to 24 bytes before the match in the haystack variant searched
	pub before: Vec<u8>,
}

impl Scanner {
	pub fn new(needles: Vec<Needle>) -> Scanner {
		let mut pats = vec![];
		for (i, n) in needles.iter().enumerate() {
			let mut add = |enc: &'static str, bytes: Vec<u8>, stripped: bool, int_list: bool| {
				if bytes.len() >= 8 {
					pats.push(Pattern { needle: i, enc, bytes, stripped, int_list });
				}
			};
			add("raw", n.bytes.clone(), false, false);
			if n.kind == "phrase" {
				let words: Vec<&str> = std::str::from_utf8(&n.bytes).unwrap_or("").split(' ').collect();
				add("words-newline", words.join("\n").into_bytes(), false, false);
				add("words-comma", words.join(",").into_bytes(), false, false);
				add("words-concatenated", words.join("").into_bytes(), true, false);
				add("words-json-strings", words.join("\",\"").into_bytes(), true, false);
			}
			if n.text_only && n.kind != "phrase" {
				continue;
			}
			let hex_l = grin_util::ToHex::to_hex(&n.bytes);
			add("hex-lower", hex_l.clone().into_bytes(), false, false);
			add("hex-upper", hex_l.to_uppercase().into_bytes(), false, false);
			for off in 0..3 {
				add("base64", b64_aligned(&n.bytes, off, B64_STD), true, false);
				let u = b64_aligned(&n.bytes, off, B64_URL);
				if u != b64_aligned(&n.bytes, off, B64_STD) {
					add("base64-url", u, true, false);
				}
			}
			let ints: Vec<String> = n.bytes.iter().map(|b| b.to_string()).collect();
			add("json-int-array", ints.join(",").into_bytes(), true, true);
		}
		let mut first2 = vec![false; 65536];
		let mut map: HashMap<u32, Vec<usize>> = HashMap::new();
		for (i, p) in pats.iter().enumerate() {
			let b = &p.bytes;
			first2[(b[0] as usize) << 8 | b[1] as usize] = true;
			let k = u32::from_be_bytes([b[0], b[1], b[2], b[3]]);
			map.entry(k).or_default().push(i);
		}
		Scanner { needles, pats, first2, map }
	}

	pub fn needle(&self, i: usize) -> &Needle {
		&self.needles[i]
	}

	fn scan_variant(&self, h: &[u8], stripped: bool, hits: &mut Vec<Hit>) {
		if h.len() < 8 {
			return;
		}
		for i in 0..h.len() - 3 {
			if !self.first2[(h[i] as usize) << 8 | h[i + 1] as usize] {
				continue;
			}
			let k = u32::from_be_bytes([h[i], h[i + 1], h[i + 2], h[i + 3]]);
			if let Some(v) = self.map.get(&k) {
				for pi in v {
					let p = &self.pats[*pi];
					// integer lists are compact in the stripped copy; they are searched in both variants,
					// everything else only in the variant it was built for
					if p.stripped != stripped && !p.int_list {
						// raw-variant patterns are also meaningful in the stripped copy only for hex (line-wrapped dumps)
						if !(stripped && (p.enc == "hex-lower" || p.enc == "hex-upper")) {
							continue;
						}
					}
					if h[i..].starts_with(&p.bytes) {
						if p.int_list {
							let pre = i > 0 && h[i - 1].is_ascii_digit();
							let post = h.get(i + p.bytes.len()).map(|c| c.is_ascii_digit()).unwrap_or(false);
							if pre || post {
								continue;
							}
						}
						hits.push(Hit {
							needle: p.needle,
							enc: p.enc,
							pos: i,
							stripped,
							before: h[i.saturating_sub(24)..i].to_vec(),
						});
					}
				}
			}
		}
	}

	/// All occurrences of any needle form in `h` (raw bytes and whitespace-stripped copy).
	pub fn scan(&self, h: &[u8]) -> Vec<Hit> {
		let mut hits = vec![];
		self.scan_variant(h, false, &mut hits);
		let st: Vec<u8> = h.iter().copied().filter(|c| !matches!(c, b' ' | b'\n' | b'\r' | b'\t')).collect();
		if st.len() != h.len() {
			self.scan_variant(&st, true, &mut hits);
		} else {
			// identical: run the stripped-only patterns on it
			self.scan_variant(h, true, &mut hits);
			// de-duplicate hits reported twice (int lists / hex are searched in both variants)
			let mut seen = BTreeSet::new();
			hits.retain(|x| seen.insert((x.needle, x.enc, x.pos)));
		}
		hits
	}
}

/// One hit per needle kind, preferring the plainest encoding; window hits are dropped when the whole phrase was found.
fn summarise(sc: &Scanner, hits: Vec<Hit>) -> Vec<Hit> {
	let rank = |e: &str| match e {
		"raw" => 0,
		"json-int-array" => 1,
		"hex-lower" | "hex-upper" => 2,
		_ => 3,
	};
	let has_phrase = hits.iter().any(|h| sc.needle(h.needle).kind == "phrase");
	let mut best: BTreeMap<&'static str, Hit> = BTreeMap::new();
	for h in hits {
		let k = sc.needle(h.needle).kind;
		if k == "phrase-window" && has_phrase {
			continue;
		}
		match best.get(k) {
			Some(b) if rank(b.enc) <= rank(h.enc) => {}
			_ => {
				best.insert(k, h);
			}
		}
	}
	best.into_iter().map(|(_, h)| h).collect()
}

fn phrase_needles(tag: &str, entropy: &[u8], phrase: &str) -> Vec<Needle> {
	let mut v = vec![
		Needle { kind: "seed", label: format!("{} seed entropy", tag), bytes: entropy.to_vec(), text_only: false },
		Needle { kind: "phrase", label: format!("{} recovery phrase", tag), bytes: phrase.as_bytes().to_vec(), text_only: true },
	];
	let words: Vec<&str> = phrase.split(' ').collect();
	for (i, w) in words.windows(4).enumerate() {
		v.push(Needle {
			kind: "phrase-window",
			label: format!("{} phrase words {}..{}", tag, i + 1, i + 4),
			bytes: w.join(" ").into_bytes(),
			text_only: true,
		});
	}
	v
}

// =============================================================================================
// part (a): leak search

pub const SIG_DB_INITIAL: &str = "c12:leak:db:ctx-initial-secrets-in-clear";

#[derive(Clone, Debug, Serialize, Deserialize)]
pub struct LeakCase {
	pub entropy0: Vec<u8>,
	pub entropy1: Vec<u8>,
	pub ops: Vec<Op>,
}

fn leak_op_strategy() -> BoxedStrategy<Op> {
	let args = || send_args_strategy(false, true, true, false);
	prop_oneof![
		5 => (0u16..3, prop_oneof![3 => Just(0xffffu16), 1 => any::<u16>()]).prop_map(|(to, take)| Op::Mine { to, take }),
		2 => any::<u16>().prop_map(|w| Op::Refresh { w }),
		2 => (any::<u16>(), any::<u16>()).prop_map(|(w, acct)| Op::SwitchAccount { w, acct }),
		18 => (any::<u16>(), any::<u16>(), args()).prop_map(|(w, to, args)| Op::InitSend { w, to, args }),
		8 => (any::<u16>(), any::<u16>(), args()).prop_map(|(w, to, mut args)| {
			args.late_lock = true;
			Op::InitSend { w, to, args }
		}),
		30 => any::<u16>().prop_map(|s| Op::Step { s }),
		3 => any::<u16>().prop_map(|s| Op::Lock { s }),
		3 => any::<u16>().prop_map(|s| Op::Deliver { s }),
		3 => any::<u16>().prop_map(|s| Op::Finalize { s }),
		3 => any::<u16>().prop_map(|s| Op::Post { s }),
		3 => (any::<u16>(), any::<bool>(), any::<bool>()).prop_map(|(s, by_sender, by_slate_id)| Op::Cancel { s, by_sender, by_slate_id }),
		8 => (any::<u16>(), any::<u16>(), any::<u16>()).prop_map(|(w, payer, amount)| Op::IssueInvoice { w, payer, amount }),
		6 => (any::<u16>(), args()).prop_map(|(s, args)| Op::PayInvoice { s, args }),
		3 => any::<u16>().prop_map(|s| Op::FinalizeInvoice { s }),
		6 => (any::<u16>(), any::<bool>(), args()).prop_map(|(w, other_acct, args)| Op::SelfSend { w, other_acct, args }),
		3 => any::<u16>().prop_map(|w| Op::Restart { w }),
	]
	.boxed()
}

/// Funded two-wallet world whose wallets are created from the given recovery phrases.
fn build_known_world(dir: &Path, phrases: &[String]) -> Result<(), String> {
	let _ = std::fs::remove_dir_all(dir);
	let mut w = World::create(dir)?;
	for (i, p) in phrases.iter().enumerate() {
		w.add_wallet(&format!("w{}", i), Some(p.as_str()), "", false)?;
		for a in ACCOUNTS.iter().skip(1) {
			w.wallets[i].owner.create_account_path(w.wallets[i].m(), a).map_err(|e| e.to_string())?;
		}
	}
	let mut sim = Sim::new(w);
	for (wi, acct, n) in [(0usize, 0usize, 3usize), (1, 0, 2), (0, 1, 1)].iter() {
		sim.switch_account(*wi, *acct)?;
		for _ in 0..*n {
			sim.mine(Some(*wi), 0)?;
		}
	}
	for _ in 0..3 {
		sim.mine(None, 0)?;
	}
	for wi in 0..phrases.len() {
		for a in (0..ACCOUNTS.len()).rev() {
			sim.switch_account(wi, a)?;
			match sim.refresh(wi) {
				Ok(true) => {}
				other => return Err(format!("base refresh failed: {:?}", other)),
			}
		}
	}
	Ok(())
}

fn walk_files(dir: &Path, out: &mut Vec<PathBuf>) {
	if let Ok(rd) = std::fs::read_dir(dir) {
		let mut es: Vec<_> = rd.flatten().collect();
		es.sort_by_key(|e| e.file_name());
		for e in es {
			let p = e.path();
			match e.file_type() {
				Ok(t) if t.is_dir() => walk_files(&p, out),
				Ok(t) if t.is_file() => out.push(p),
				_ => {}
			}
		}
	}
}

fn file_class(p: &Path) -> &'static str {
	let s = p.to_string_lossy();
	if s.ends_with("data.mdb") {
		"db"
	} else if s.ends_with("lock.mdb") {
		"db-lock"
	} else if s.contains("saved_txs") {
		"saved-tx"
	} else if s.contains("wallet.seed") {
		"seed-file"
	} else {
		"other-file"
	}
}

/// Every encoding in which a slate leaves the wallet: V4 JSON, V4 binary, slatepack (plain and encrypted) armored / binary / JSON.
fn message_forms(sl: &Slate, producer: &Wal, counterparty: &Wal) -> Result<Vec<(String, Vec<u8>)>, String> {
	let mut v = vec![];
	let vs = VersionedSlate::into_version(sl.clone(), SlateVersion::V4).map_err(|e| format!("to V4: {}", e))?;
	v.push(("slate-v4-json".to_string(), serde_json::to_vec(&vs).map_err(|e| e.to_string())?));
	v.push(("slate-v4-json-pretty".to_string(), serde_json::to_vec_pretty(&vs).map_err(|e| e.to_string())?));
	let vb = VersionedBinSlate::try_from(vs).map_err(|e| format!("to bin: {}", e))?;
	v.push(("slate-v4-bin".to_string(), byte_ser::to_bytes(&vb).map_err(|e| format!("bin: {}", e))?));
	let to = counterparty.owner.get_slatepack_address(counterparty.m(), 0).map_err(|e| e.to_string())?;
	for (tag, rcpt) in [("slatepack-plain", vec![]), ("slatepack-encrypted", vec![to])].iter() {
		let armored = producer
			.owner
			.create_slatepack_message(producer.m(), sl, Some(0), rcpt.clone())
			.map_err(|e| format!("create_slatepack_message: {}", e))?;
		let sp = producer
			.owner
			.decode_slatepack_message(producer.m(), armored.clone(), vec![])
			.map_err(|e| format!("decode_slatepack_message: {}", e))?;
		v.push((format!("{}-armored", tag), armored.into_bytes()));
		v.push((format!("{}-json", tag), serde_json::to_vec(&sp).map_err(|e| e.to_string())?));
		v.push((format!("{}-bin", tag), byte_ser::to_bytes(&SlatepackBin(sp)).map_err(|e| format!("sp bin: {}", e))?));
	}
	Ok(v)
}

pub struct C12Leak {
	scratch: PathBuf,
	n: u64,
	tier: Tier,
	base_key: Option<(Vec<u8>, Vec<u8>)>,
	base_log: Vec<u8>,
	log_captured: bool,
	excluded_known: u64,
	scans: u64,
	bytes_scanned: u64,
	scans_with_live_ctx: u64,
}

impl C12Leak {
	pub fn new(args: &Args) -> C12Leak {
		let cap = install_caplog();
		C12Leak {
			scratch: args.scratch.clone(),
			n: 0,
			tier: args.tier,
			base_key: None,
			base_log: vec![],
			log_captured: cap,
			excluded_known: 0,
			scans: 0,
			bytes_scanned: 0,
			scans_with_live_ctx: 0,
		}
	}
}

struct LeakState {
	fixed: Vec<Needle>,
	/// contexts that were live at the previous scan point: (wallet, slate idx) -> needles
	prev_ctx: Vec<Needle>,
	seen_msgs: BTreeSet<(usize, u8)>,
	live_scans: u64,
}

fn ctx_needles(sim: &Sim) -> Vec<Needle> {
	let mut v: Vec<Needle> = vec![];
	let mut seen: BTreeSet<(usize, Vec<u8>)> = BTreeSet::new();
	for (si, s) in sim.slates.iter().enumerate() {
		let mut ws = vec![s.initiator];
		if s.responder != s.initiator {
			ws.push(s.responder);
		}
		for w in ws {
			let id = s.id;
			if let Ok(c) = sim.w(w).with(|b| b.get_private_context(None, id.as_bytes())) {
				for (kind, field, k) in [
					("ctx-key", "sec_key", &c.sec_key),
					("ctx-nonce", "sec_nonce", &c.sec_nonce),
					("ctx-key", "initial_sec_key", &c.initial_sec_key),
					("ctx-nonce", "initial_sec_nonce", &c.initial_sec_nonce),
				]
				.iter()
				{
					let bytes = k.0.to_vec();
					if bytes.iter().all(|b| *b == 0) {
						continue;
					}
					if seen.insert((w, bytes.clone())) {
						v.push(Needle { kind, label: format!("wallet {} slate #{} context.{}", w, si, field), bytes, text_only: false });
					} else if let Some(n) = v.iter_mut().find(|n| n.bytes == bytes) {
						n.label = format!("{} (= {})", n.label, field);
					}
				}
			}
		}
	}
	v
}

impl C12Leak {
	/// One scan point: files of every wallet directory (needles: seed, phrase, contexts live now), new log records and new
	/// messages (needles: additionally the contexts that were live at the previous scan point).
	fn scan_point(&mut self, sim: &Sim, st: &mut LeakState, out: &mut Outcome, at: &str) -> Result<(), String> {
		let now = ctx_needles(sim);
		let live = !now.is_empty();
		let mut file_needles = st.fixed.clone();
		file_needles.extend(now.iter().cloned());
		let mut msg_needles = file_needles.clone();
		for n in &st.prev_ctx {
			if !msg_needles.iter().any(|m| m.bytes == n.bytes) {
				msg_needles.push(n.clone());
			}
		}
		let fsc = Scanner::new(file_needles);
		let msc = Scanner::new(msg_needles);
		self.scans += 1;
		if live {
			st.live_scans += 1;
			self.scans_with_live_ctx += 1;
		}
		let mut report = |out: &mut Outcome, sc: &Scanner, wher: &str, name: &str, hits: Vec<Hit>, excluded: &mut u64| {
			let mut sigs = BTreeSet::new();
			let mut known_fields: BTreeSet<String> = BTreeSet::new();
			let mut rest: Vec<Hit> = vec![];
			for h in hits {
				let n = sc.needle(h.needle);
				if wher == "db" && h.enc == "json-int-array" {
					let known = (n.kind == "ctx-key" && h.before.ends_with(b"\"initial_sec_key\":["))
						|| (n.kind == "ctx-nonce" && h.before.ends_with(b"\"initial_sec_nonce\":["));
					if known {
						*excluded += 1;
						known_fields.insert(format!("{} in field {}", n.label, if n.kind == "ctx-key" { "initial_sec_key" } else { "initial_sec_nonce" }));
						continue;
					}
				}
				rest.push(h);
			}
			for h in summarise(sc, rest) {
				let n = sc.needle(h.needle);
				let sig = format!("c12:leak:{}:{}:{}", wher, n.kind, h.enc);
				if sigs.insert(sig.clone()) {
					out.fail(
						sig,
						format!(
							"{}: {} contains {} in {} form at offset {}{} (preceded by {:?})",
							at,
							name,
							n.label,
							h.enc,
							h.pos,
							if h.stripped { " of the whitespace-stripped bytes" } else { "" },
							String::from_utf8_lossy(&h.before)
						),
					);
				}
			}
			if !known_fields.is_empty() {
				out.fail(
					SIG_DB_INITIAL,
					format!("{}: {} holds, as clear JSON integer arrays in the stored Context record (sec_key/sec_nonce are XOR-masked, the initial_* copies are not): {:?}", at, name, known_fields),
				);
			}
		};
		// files
		let mut excluded = 0u64;
		for w in &sim.world.wallets {
			let mut files = vec![];
			walk_files(&w.dir, &mut files);
			for f in files {
				let body = std::fs::read(&f).map_err(|e| format!("read {:?}: {}", f, e))?;
				self.bytes_scanned += body.len() as u64;
				let hits = fsc.scan(&body);
				let name = f.strip_prefix(&sim.world.dir).unwrap_or(&f).to_string_lossy().to_string();
				report(out, &fsc, file_class(&f), &name, hits, &mut excluded);
			}
		}
		// log
		let chunk = take_log();
		self.bytes_scanned += chunk.len() as u64;
		report(out, &msc, "log", "captured log records", msc.scan(&chunk), &mut excluded);
		// messages emitted since the last scan point
		for (si, s) in sim.slates.iter().enumerate() {
			let stages: [(u8, Option<&Slate>, usize, usize); 3] = [
				(1, Some(&s.s1), s.initiator, s.responder),
				(2, s.s2.as_ref(), s.responder, s.initiator),
				(3, s.s3.as_ref(), s.initiator, s.responder),
			];
			for (stage, sl, prod, cp) in stages.iter() {
				if let Some(sl) = sl {
					if st.seen_msgs.insert((si, *stage)) {
						for (form, bytes) in message_forms(sl, sim.w(*prod), sim.w(*cp))? {
							self.bytes_scanned += bytes.len() as u64;
							let hits = msc.scan(&bytes);
							report(out, &msc, &format!("msg:{}", form), &format!("slate #{} stage {} as {}", si, stage, form), hits, &mut excluded);
						}
					}
				}
			}
			// what the owner API hands out about stored transactions
			let mut ws = vec![s.initiator];
			if s.responder != s.initiator {
				ws.push(s.responder);
			}
			for w in ws {
				let wal = sim.w(w);
				if let Ok(Some(stored)) = wal.owner.get_stored_tx(wal.m(), None, Some(&s.id)) {
					if let Ok(vs) = VersionedSlate::into_version(stored, SlateVersion::V4) {
						let b = serde_json::to_vec(&vs).unwrap_or_default();
						self.bytes_scanned += b.len() as u64;
						report(out, &msc, "stored-tx", &format!("get_stored_tx of slate #{} in wallet {}", si, w), msc.scan(&b), &mut excluded);
					}
				}
				if let Ok((_, txs)) = wal.owner.retrieve_txs(wal.m(), false, None, Some(s.id), None) {
					let b = serde_json::to_vec(&txs).unwrap_or_default();
					self.bytes_scanned += b.len() as u64;
					report(out, &msc, "tx-log", &format!("retrieve_txs of slate #{} in wallet {}", si, w), msc.scan(&b), &mut excluded);
				}
			}
		}
		self.excluded_known += excluded;
		// the file oracle's known exclusion must not have hidden anything else: every exclusion is a reported known finding
		st.prev_ctx = now;
		Ok(())
	}

	fn run_case(&mut self, c: &LeakCase, dir: &Path, out: &mut Outcome) -> Result<(), String> {
		if c.entropy0.len() != 32 || c.entropy1.len() != 32 || c.entropy0 == c.entropy1 {
			out.class("degenerate-entropy");
			return Ok(());
		}
		let phrases: Vec<String> = [&c.entropy0, &c.entropy1]
			.iter()
			.map(|e| mnemonic::from_entropy(e).map_err(|e| format!("from_entropy: {:?}", e)))
			.collect::<Result<_, _>>()?;
		let base = self.scratch.join("c12a.base");
		let key = (c.entropy0.clone(), c.entropy1.clone());
		if self.base_key.as_ref() != Some(&key) {
			let _ = take_log();
			CAP_ON.store(true, Ordering::Relaxed);
			let r = build_known_world(&base, &phrases);
			CAP_ON.store(false, Ordering::Relaxed);
			self.base_log = take_log();
			r?;
			self.base_key = Some(key);
		}
		let mut fixed = phrase_needles("wallet 0", &c.entropy0, &phrases[0]);
		fixed.extend(phrase_needles("wallet 1", &c.entropy1, &phrases[1]));
		// creation-time log
		{
			let sc = Scanner::new(fixed.clone());
			let mut sigs = BTreeSet::new();
			for h in summarise(&sc, sc.scan(&self.base_log)) {
				let n = sc.needle(h.needle);
				let sig = format!("c12:leak:log:{}:{}", n.kind, h.enc);
				if sigs.insert(sig.clone()) {
					out.fail(sig, format!("log records written while creating/funding the wallets contain {} in {} form (preceded by {:?})", n.label, h.enc, String::from_utf8_lossy(&h.before)));
				}
			}
		}
		CAP_ON.store(true, Ordering::Relaxed);
		let _ = take_log();
		let res = (|| -> Result<(), String> {
			let mut sim = base::open_copy(&base, dir)?;
			for (i, p) in phrases.iter().enumerate() {
				if &sim.w(i).phrase != p {
					return Err(format!("harness: wallet {} does not report the phrase it was created from", i));
				}
			}
			sim.strict = true;
			let mut st = LeakState { fixed, prev_ctx: vec![], seen_msgs: BTreeSet::new(), live_scans: 0 };
			self.scan_point(&sim, &mut st, out, "after opening")?;
			for (oi, op) in c.ops.iter().enumerate() {
				if let Op::SelfSend { w, other_acct, args } = op {
					// stepwise, with a scan point between the steps (Sim::self_send is atomic)
					let nw = sim.world.wallets.len();
					let w = idx(*w, nw);
					let mut a = args.clone();
					a.late_lock = false;
					a.proof = false;
					out.class("op:self-send");
					let r = (|| -> Result<(), String> {
						let si = sim.init_send(w, w, &a)?;
						self.scan_point(&sim, &mut st, out, &format!("op {} self-send: after init", oi))?;
						sim.lock(si)?;
						self.scan_point(&sim, &mut st, out, &format!("op {} self-send: after lock", oi))?;
						let src = sim.active[w];
						let dst = if *other_acct { (src + 1) % ACCOUNTS.len() } else { src };
						if dst != src {
							sim.switch_account(w, dst)?;
						}
						let r = sim.deliver(si);
						if dst != src {
							sim.switch_account(w, src)?;
						}
						r?;
						self.scan_point(&sim, &mut st, out, &format!("op {} self-send: after receive", oi))?;
						sim.finalize(si)?;
						Ok(())
					})();
					sim.log.push(format!("{:?} (stepwise) -> {:?}", op, r));
				} else {
					let r = sim.apply(op);
					out.class(format!("op:{}:{}", r.kind, match &r.result { Some(Ok(_)) => "ok", Some(Err(_)) => "err", None => "noop" }));
				}
				self.scan_point(&sim, &mut st, out, &format!("after op {}", oi))?;
				if out.fails.iter().any(|f| f.sig != SIG_DB_INITIAL) {
					break;
				}
			}
			out.nontrivial = st.live_scans >= 1;
			out.class(format!("scans-with-live-context={}", std::cmp::min(st.live_scans, 8)));
			let flows: BTreeSet<&str> = sim.slates.iter().map(|s| if s.initiator == s.responder { "self" } else if s.flow == Flow::Invoice { "invoice" } else if s.late_lock { "late" } else { "send" }).collect();
			for f in flows {
				out.class(format!("flow:{}", f));
			}
			if !out.fails.is_empty() {
				let hist = sim.history();
				for f in out.fails.iter_mut() {
					f.detail = format!("{}\n--- history ---\n{}", f.detail, hist);
				}
			}
			Ok(())
		})();
		CAP_ON.store(false, Ordering::Relaxed);
		res
	}
}

impl Prop for C12Leak {
	type Case = LeakCase;
	fn id(&self) -> &'static str {
		"C12"
	}
	fn part(&self) -> &'static str {
		"leak"
	}
	fn cases(&self, tier: Tier) -> u64 {
		tier.pick(96, 1920)
	}
	fn strategy(&self, tier: Tier) -> BoxedStrategy<LeakCase> {
		let n = tier.pick(10usize, 14usize);
		// ops first: shrinking works on the history before it touches the entropy (a new entropy means a new base world)
		(prop::collection::vec(leak_op_strategy(), 4..=n), prop::collection::vec(any::<u8>(), 32), prop::collection::vec(any::<u8>(), 32))
			.prop_map(|(ops, entropy0, entropy1)| LeakCase { entropy0, entropy1, ops })
			.boxed()
	}
	fn shrink_iters(&self) -> u32 {
		self.tier.pick(24, 48)
	}
	fn rule(&self) -> String {
		"two wallets created from generated 32-byte entropy (phrase via mnemonic::from_entropy) on a real chain; histories of 4..10 (thorough 14) ops (sends incl. late-lock/proof, stepwise flows, invoices, stepwise self-sends, cancel, mine, refresh, restart); after every op (and between the steps of a self-send): every file under both wallet directories (LMDB data/lock files, saved_txs, wallet.seed, anything else), every captured log record (all levels) and every newly emitted message (slate as V4 JSON compact+pretty and V4 binary, plain and encrypted slatepack as armor / binary / JSON, get_stored_tx, retrieve_txs) is searched for: seed entropy, phrase (space/newline/comma/concatenated/JSON-string forms), every 4 consecutive phrase words as text, and sec_key/sec_nonce/initial_sec_key/initial_sec_nonce of every context readable with get_private_context (files: live now; messages+log: live now or at the previous scan point) in raw, hex lower/upper, base64 (std+url alphabets, 3 alignments) and JSON integer-array form (whitespace-insensitive). Known finding excluded by construction: integer-array form of a context key/nonce in data.mdb directly after \"initial_sec_key\":[ / \"initial_sec_nonce\":[ (counted). non-trivial = >=1 scan point with a live context".into()
	}
	fn assumptions(&self) -> Vec<String> {
		vec![
			"log records of every level count as written to disk (the wallet binary writes them to grin-wallet.log at the configured level)".into(),
			"the receiver's context is never persisted (receive_tx keeps it in memory only), so only initiator / invoice-payer contexts can be needles".into(),
		]
	}
	fn extra(&self) -> Value {
		json!({"scan_points": self.scans, "scan_points_with_live_context": self.scans_with_live_ctx, "bytes_scanned": self.bytes_scanned, "excluded_known_initial_sec_hits": self.excluded_known, "log_captured": self.log_captured})
	}
	fn run(&mut self, c: &LeakCase) -> Outcome {
		let mut out = Outcome::default();
		self.n += 1;
		let dir = self.scratch.join(format!("c12a.case{}", self.n));
		let r = self.run_case(c, &dir, &mut out);
		let _ = std::fs::remove_dir_all(&dir);
		if let Err(e) = r {
			out.fail("c12:leak:harness-error", e);
		}
		out
	}
}

// =============================================================================================
// part (b): seed file

const UNI: &[char] = &[
	'é', 'e', '\u{301}', 'ñ', 'n', '\u{303}', 'ü', 'u', '\u{308}', 'Å', 'A', '\u{30a}', '\u{212b}', '\u{2126}', 'Ω', '가', '\u{1100}',
	'\u{1161}', 'ﬁ', 'f', 'i', 'ß', 'ẞ', 'İ', 'ı', 'I', '日', '本', '😀', '\u{200b}', '\u{a0}', '\u{323}', ' ', 'ǆ', 'Σ', 'σ', 'ς',
];

/// canonical / compatibility equivalents (composed, decomposed)
const NORM: &[(&str, &str)] = &[
	("é", "e\u{301}"),
	("ñ", "n\u{303}"),
	("ü", "u\u{308}"),
	("Å", "A\u{30a}"),
	("\u{212b}", "Å"),
	("\u{2126}", "Ω"),
	("가", "\u{1100}\u{1161}"),
	("ﬁ", "fi"),
	("ǆ", "dž"),
	("\u{a0}", " "),
];

fn table_char(i: u16) -> char {
	let n_ascii = 95usize;
	let k = idx(i, n_ascii + UNI.len());
	if k < n_ascii {
		(0x20u8 + k as u8) as char
	} else {
		UNI[k - n_ascii]
	}
}

fn pw_strategy() -> BoxedStrategy<(String, String)> {
	prop_oneof![
		1 => Just(("empty".to_string(), String::new())),
		3 => prop::collection::vec(0u16..(65536u32 * 95 / (95 + UNI.len() as u32)) as u16, 1..24)
			.prop_map(|v| ("ascii".to_string(), v.into_iter().map(table_char).collect::<String>())),
		4 => prop::collection::vec(prop_oneof![1 => any::<u16>(), 3 => ((65536u32 * 95 / (95 + UNI.len() as u32)) as u16..=u16::MAX)], 1..16)
			.prop_map(|v| ("unicode".to_string(), v.into_iter().map(table_char).collect::<String>())),
		2 => prop::collection::vec(any::<u16>(), 1..8).prop_map(|v| {
			let unit: String = v.into_iter().map(table_char).collect();
			let mut s = String::new();
			while s.len() < 1024 {
				s.push_str(&unit);
			}
			("long".to_string(), s)
		}),
	]
	.boxed()
}

#[derive(Clone, Debug, Serialize, Deserialize)]
pub enum Wrong {
	Other(String),
	Replace { pos: u16, ch: u16 },
	Delete { pos: u16 },
	Insert { pos: u16, ch: u16 },
	Case { pos: u16 },
	Prefix { n: u16 },
	Append { ch: u16 },
	Prepend { ch: u16 },
	Norm { which: u16 },
	Swap { pos: u16 },
}

fn wrong_strategy() -> BoxedStrategy<Wrong> {
	prop_oneof![
		2 => pw_strategy().prop_map(|(_, s)| Wrong::Other(s)),
		2 => (any::<u16>(), any::<u16>()).prop_map(|(pos, ch)| Wrong::Replace { pos, ch }),
		2 => any::<u16>().prop_map(|pos| Wrong::Delete { pos }),
		2 => (any::<u16>(), any::<u16>()).prop_map(|(pos, ch)| Wrong::Insert { pos, ch }),
		2 => any::<u16>().prop_map(|pos| Wrong::Case { pos }),
		2 => any::<u16>().prop_map(|n| Wrong::Prefix { n }),
		1 => any::<u16>().prop_map(|ch| Wrong::Append { ch }),
		1 => any::<u16>().prop_map(|ch| Wrong::Prepend { ch }),
		3 => any::<u16>().prop_map(|which| Wrong::Norm { which }),
		1 => any::<u16>().prop_map(|pos| Wrong::Swap { pos }),
	]
	.boxed()
}

/// The wrong password a spec denotes for `pw` (None when the edit does not apply or yields `pw` itself).
fn realise(w: &Wrong, pw: &str) -> Option<(&'static str, String)> {
	let chars: Vec<char> = pw.chars().collect();
	let n = chars.len();
	let join = |v: Vec<char>| v.into_iter().collect::<String>();
	let r: Option<(&'static str, String)> = match w {
		Wrong::Other(s) => Some(("other", s.clone())),
		Wrong::Replace { pos, ch } if n > 0 => {
			let mut v = chars.clone();
			v[idx(*pos, n)] = table_char(*ch);
			Some(("replace", join(v)))
		}
		Wrong::Delete { pos } if n > 0 => {
			let mut v = chars.clone();
			v.remove(idx(*pos, n));
			Some(("delete", join(v)))
		}
		Wrong::Insert { pos, ch } => {
			let mut v = chars.clone();
			v.insert(idx(*pos, n + 1), table_char(*ch));
			Some(("insert", join(v)))
		}
		Wrong::Case { pos } => {
			let cased: Vec<usize> = (0..n)
				.filter(|i| {
					let c = chars[*i];
					c.to_uppercase().collect::<String>() != c.to_string() || c.to_lowercase().collect::<String>() != c.to_string()
				})
				.collect();
			if cased.is_empty() {
				None
			} else {
				let i = cased[idx(*pos, cased.len())];
				let c = chars[i];
				let up: String = c.to_uppercase().collect();
				let rep = if up != c.to_string() { up } else { c.to_lowercase().collect() };
				let mut s: String = chars[..i].iter().collect();
				s.push_str(&rep);
				s.extend(chars[i + 1..].iter());
				Some(("case", s))
			}
		}
		Wrong::Prefix { n: k } if n > 0 => Some(("prefix", join(chars[..idx(*k, n)].to_vec()))),
		Wrong::Append { ch } => {
			let mut v = chars.clone();
			v.push(table_char(*ch));
			Some(("append", join(v)))
		}
		Wrong::Prepend { ch } => {
			let mut v = chars.clone();
			v.insert(0, table_char(*ch));
			Some(("prepend", join(v)))
		}
		Wrong::Norm { which } => {
			// every place where one form of an equivalent pair occurs
			let mut places: Vec<(usize, &str, &str)> = vec![];
			for (a, b) in NORM {
				for (from, to) in [(*a, *b), (*b, *a)].iter() {
					let mut start = 0;
					while let Some(p) = pw[start..].find(from) {
						places.push((start + p, from, to));
						start += p + from.len();
					}
				}
			}
			if places.is_empty() {
				None
			} else {
				let (p, from, to) = places[idx(*which, places.len())];
				Some(("norm", format!("{}{}{}", &pw[..p], to, &pw[p + from.len()..])))
			}
		}
		Wrong::Swap { pos } if n > 1 => {
			let mut v = chars.clone();
			let i = idx(*pos, n - 1);
			v.swap(i, i + 1);
			Some(("swap", join(v)))
		}
		_ => None,
	};
	match r {
		Some((_, s)) if s == pw => None,
		o => o,
	}
}

#[derive(Clone, Debug, Serialize, Deserialize)]
pub struct SeedCase {
	pub entropy: Vec<u8>,
	pub pw_class: String,
	pub pw: String,
	pub pw2_class: String,
	pub pw2: String,
	/// 0: create_wallet with the phrase; 1: recover_from_mnemonic over a wallet created from another seed
	pub route: u8,
	pub wrong: Vec<Wrong>,
}

pub struct C12Seed {
	scratch: PathBuf,
	n: u64,
	wrong_tried: u64,
}

impl C12Seed {
	pub fn new(args: &Args) -> C12Seed {
		C12Seed { scratch: args.scratch.clone(), n: 0, wrong_tried: 0 }
	}

	/// What the lifecycle code answers for `pw`: (get_mnemonic, root secret after open_wallet)
	fn ask(top: &Path, pw: &str) -> (Result<String, String>, Result<Vec<u8>, String>) {
		let g = lc_do(top, |lc| lc.get_mnemonic(None, zs(pw)).map(|m| (&*m).to_string()).map_err(|e| e.to_string()));
		let o = lc_do(top, |lc| -> Result<Vec<u8>, String> {
			lc.open_wallet(None, zs(pw), false, false).map_err(|e| e.to_string())?;
			let kc = lc.wallet_inst().map_err(|e| e.to_string())?.keychain(None).map_err(|e| e.to_string())?;
			let r = root_secret(&kc);
			let _ = lc.close_wallet(None);
			Ok(r)
		});
		(g, o)
	}

	fn expect_right(top: &Path, pw: &str, entropy: &[u8], phrase: &str, truth_root: &[u8], tag: &str, out: &mut Outcome) {
		let data = top.join("wallet_data");
		match std::fs::read(data.join("wallet.seed")) {
			Err(e) => out.fail(format!("c12:seedfile:{}:no-seed-file", tag), e.to_string()),
			Ok(b) => match indep_decrypt(&b, pw) {
				Ok(s) if s == entropy => {}
				Ok(s) => out.fail(format!("c12:seedfile:{}:file-decrypts-to-other-seed", tag), format!("wallet.seed decrypts (independent routine) to {} bytes that are not the seed", s.len())),
				Err(e) => out.fail(format!("c12:seedfile:{}:file-does-not-decrypt", tag), format!("independent PBKDF2-HMAC-SHA512(100)/ChaCha20-Poly1305 reading of wallet.seed with the right password failed: {}", e)),
			},
		}
		let (g, o) = Self::ask(top, pw);
		match g {
			Ok(p) if p == phrase => {}
			Ok(_) => out.fail(format!("c12:seedfile:{}:mnemonic-differs", tag), "get_mnemonic with the right password returns another phrase".to_string()),
			Err(e) => out.fail(format!("c12:seedfile:{}:right-password-refused", tag), format!("get_mnemonic: {}", e)),
		}
		match o {
			Ok(r) if r == truth_root => {}
			Ok(_) => out.fail(format!("c12:seedfile:{}:keychain-differs", tag), "open_wallet with the right password derives another root key".to_string()),
			Err(e) => out.fail(format!("c12:seedfile:{}:right-password-refused", tag), format!("open_wallet: {}", e)),
		}
	}

	fn expect_wrong(&mut self, top: &Path, class: &str, wrong: &str, phrase: &str, truth_root: &[u8], tag: &str, out: &mut Outcome) {
		self.wrong_tried += 1;
		out.class(format!("wrong:{}", class));
		let (g, o) = Self::ask(top, wrong);
		let same = match (&g, &o) {
			(Err(_), Err(_)) => return,
			(Ok(p), _) if p != phrase => Some(false),
			(_, Ok(r)) if r != truth_root => Some(false),
			_ => Some(true),
		};
		let how = format!("get_mnemonic: {}, open_wallet: {}", if g.is_ok() { "Ok" } else { "Err" }, if o.is_ok() { "Ok" } else { "Err" });
		match same {
			Some(false) => out.fail(format!("c12:seedfile:{}:wrong-password-yields-other-seed", tag), format!("wrong password ({} variant) {:?} is accepted and yields a DIFFERENT seed ({})", class, wrong, how)),
			_ if class == "norm" => out.class("norm-variant-accepted-same-seed"),
			_ => out.fail(format!("c12:seedfile:{}:wrong-password-accepted", tag), format!("wrong password ({} variant) {:?} opens the seed ({})", class, wrong, how)),
		}
	}

	fn run_case(&mut self, c: &SeedCase, top: &Path, out: &mut Outcome) -> Result<(), String> {
		let phrase = mnemonic::from_entropy(&c.entropy).map_err(|e| format!("from_entropy: {:?}", e))?;
		let truth = ExtKeychain::from_seed(&c.entropy, false).map_err(|e| format!("{:?}", e))?;
		let truth_root = root_secret(&truth);
		out.class(format!("seed-bytes={}", c.entropy.len()));
		out.class(format!("pw:{}", c.pw_class));
		out.class(format!("route={}", c.route));
		if c.route == 0 {
			lc_do(top, |lc| lc.create_wallet(None, Some(zs(&phrase)), 32, zs(&c.pw), false)).map_err(|e| format!("create_wallet: {}", e))?;
		} else {
			lc_do(top, |lc| lc.create_wallet(None, None, 32, zs("password of the wallet that was here before"), false)).map_err(|e| format!("create_wallet: {}", e))?;
			lc_do(top, |lc| lc.recover_from_mnemonic(zs(&phrase), zs(&c.pw))).map_err(|e| format!("recover_from_mnemonic: {}", e))?;
		}
		Self::expect_right(top, &c.pw, &c.entropy, &phrase, &truth_root, "create", out);
		for w in &c.wrong {
			if let Some((class, s)) = realise(w, &c.pw) {
				self.expect_wrong(top, class, &s, &phrase, &truth_root, "create", out);
				if let Ok(b) = std::fs::read(top.join("wallet_data/wallet.seed")) {
					if indep_decrypt(&b, &s).is_ok() {
						out.fail("c12:seedfile:harness:independent-routine-accepts-wrong-password", format!("{:?}", s));
					}
				}
			} else {
				out.class("wrong:not-applicable");
			}
		}
		out.nontrivial = true;
		if c.pw2 != c.pw {
			let before: Vec<String> = seed_files(&top.join("wallet_data")).into_iter().map(|f| f.0).collect();
			match lc_do(top, |lc| lc.change_password(None, zs(&c.pw), zs(&c.pw2))) {
				Err(e) => out.fail("c12:seedfile:change:refused", format!("change_password with the right old password: {}", e)),
				Ok(()) => {
					out.class(format!("change:{}->{}", c.pw_class, c.pw2_class));
					Self::expect_right(top, &c.pw2, &c.entropy, &phrase, &truth_root, "change", out);
					self.expect_wrong(top, "old-password", &c.pw, &phrase, &truth_root, "change", out);
					for w in c.wrong.iter().take(3) {
						if let Some((class, s)) = realise(w, &c.pw2) {
							if s != c.pw {
								self.expect_wrong(top, class, &s, &phrase, &truth_root, "change", out);
							}
						}
					}
					let after: Vec<String> = seed_files(&top.join("wallet_data")).into_iter().map(|f| f.0).collect();
					if after != before {
						out.fail("c12:seedfile:change:backup-left-behind", format!("seed files before {:?}, after a successful change_password {:?} (a backup sealed under the old password remains)", before, after));
					}
				}
			}
		} else {
			out.class("change:skipped-same-password");
		}
		Ok(())
	}
}

impl Prop for C12Seed {
	type Case = SeedCase;
	fn id(&self) -> &'static str {
		"C12"
	}
	fn part(&self) -> &'static str {
		"seedfile"
	}
	fn cases(&self, tier: Tier) -> u64 {
		tier.pick(480, 9600)
	}
	fn strategy(&self, _tier: Tier) -> BoxedStrategy<SeedCase> {
		let entropy = prop_oneof![Just(16usize), Just(20), Just(24), Just(28), Just(32)].prop_flat_map(|n| prop::collection::vec(any::<u8>(), n));
		(entropy, pw_strategy(), pw_strategy(), prop_oneof![3 => Just(0u8), 1 => Just(1u8)], prop::collection::vec(wrong_strategy(), 8))
			.prop_map(|(entropy, (pw_class, pw), (pw2_class, pw2), route, wrong)| SeedCase { entropy, pw_class, pw, pw2_class, pw2, route, wrong })
			.boxed()
	}
	fn rule(&self) -> String {
		"seed of 16/20/24/28/32 generated bytes (12..24 words), password from {empty, printable ASCII 1..23 chars, unicode 1..15 chars incl. combining marks / compatibility characters / astral plane, >= 1 KiB}; wallet created by DefaultLCProvider::create_wallet(phrase) or by recover_from_mnemonic over another wallet; oracle: wallet.seed read by the harness' own routine (own JSON/hex/PBKDF2-HMAC-SHA512 on sha2, ChaCha20-Poly1305 from ring) gives the seed, get_mnemonic gives the phrase, open_wallet derives the root key of ExtKeychain::from_seed(seed); 8 generated wrong passwords per case (other password, replace/delete/insert/swap one character, case change, proper prefix, appended/prepended character, one canonical/compatibility-equivalent substitution) => get_mnemonic and open_wallet are Err (an equivalent-form variant may alternatively open the SAME seed); then change_password(pw -> pw2): all of the above for pw2, old password refused, set of wallet.seed* files unchanged; non-trivial = every case".into()
	}
	fn shrink_iters(&self) -> u32 {
		60
	}
	fn extra(&self) -> Value {
		json!({"wrong_passwords_tried": self.wrong_tried})
	}
	fn run(&mut self, c: &SeedCase) -> Outcome {
		let mut out = Outcome::default();
		self.n += 1;
		let top = self.scratch.join(format!("c12b.case{}", self.n));
		let _ = std::fs::remove_dir_all(&top);
		let r = self.run_case(c, &top, &mut out);
		let _ = std::fs::remove_dir_all(&top);
		if let Err(e) = r {
			out.fail("c12:seedfile:harness-error", e);
		}
		out
	}
}

// =============================================================================================
// part (c): interrupted change_password / recover_from_mnemonic (child process under the fsfault LD_PRELOAD shim)

const SHIM_SRC: &str = include_str!("../../fsfault/fsfault.c");

#[derive(Clone, Debug, Serialize, Deserialize)]
pub struct IntCase {
	pub entropy: Vec<u8>,
	pub old_class: String,
	pub old: String,
	pub new_class: String,
	pub new: String,
	/// 0 change_password, 1 recover_from_mnemonic with the same phrase (forgotten password), 2 recover with another phrase
	pub op: u8,
	pub other_entropy: Vec<u8>,
	/// number of backups already lying around from earlier runs (wallet.seed.bak, wallet.seed.bak.1)
	pub stale_baks: u8,
}

pub struct C12Int {
	scratch: PathBuf,
	shim: Result<PathBuf, String>,
	exe: PathBuf,
	n: u64,
	tier: Tier,
	runs: u64,
	max_points: u64,
}

fn build_shim(scratch: &Path) -> Result<PathBuf, String> {
	let src = scratch.join("fsfault.c");
	let so = scratch.join("fsfault.so");
	std::fs::write(&src, SHIM_SRC).map_err(|e| e.to_string())?;
	let mut last = String::new();
	for cc in ["cc", "clang", "gcc"].iter() {
		match std::process::Command::new(cc)
			.args(&["-shared", "-fPIC", "-O1", "-o"])
			.arg(&so)
			.arg(&src)
			.arg("-ldl")
			.output()
		{
			Ok(o) if o.status.success() => return Ok(so),
			Ok(o) => last = format!("{}: {}", cc, String::from_utf8_lossy(&o.stderr)),
			Err(e) => last = format!("{}: {}", cc, e),
		}
	}
	Err(format!("cannot build the fsfault shim: {}", last))
}

#[derive(Clone, Debug)]
struct Ev {
	op: String,
	len: usize,
}

#[derive(Clone, Debug)]
enum Fault {
	None,
	Kill(usize),
	Short(usize, usize),
	Fail(usize, Option<usize>),
}

impl C12Int {
	pub fn new(args: &Args) -> C12Int {
		C12Int {
			scratch: args.scratch.clone(),
			shim: build_shim(&args.scratch),
			exe: std::env::current_exe().unwrap_or_else(|_| PathBuf::from("gwv")),
			n: 0,
			tier: args.tier,
			runs: 0,
			max_points: 0,
		}
	}

	/// Run the operation in a child on a fresh directory holding `files`; returns (exit code or -signal, event log).
	fn child(&mut self, c: &IntCase, target_phrase: &str, files: &[(String, Vec<u8>)], top: &Path, fault: &Fault) -> Result<(i32, Vec<Ev>), String> {
		let shim = self.shim.clone()?;
		let _ = std::fs::remove_dir_all(top);
		let data = top.join("wallet_data");
		std::fs::create_dir_all(&data).map_err(|e| e.to_string())?;
		for (n, b) in files {
			std::fs::write(data.join(n), b).map_err(|e| e.to_string())?;
		}
		let logf = top.join("events.log");
		let mut cmd = std::process::Command::new(&self.exe);
		if c.op == 0 {
			cmd.arg("child-change-password").arg(top).arg(hexs(&c.old)).arg(hexs(&c.new));
		} else {
			cmd.arg("child-recover").arg(top).arg(hexs(target_phrase)).arg(hexs(&c.new));
		}
		cmd.env("LD_PRELOAD", &shim).env("FSFAULT_LOG", &logf);
		match fault {
			Fault::None => {}
			Fault::Kill(p) => {
				cmd.env("FSFAULT_KILL", p.to_string());
			}
			Fault::Short(i, n) => {
				cmd.env("FSFAULT_SHORT", format!("{}:{}", i, n));
			}
			Fault::Fail(i, n) => {
				cmd.env("FSFAULT_FAIL", match n {
					Some(n) => format!("{}:{}", i, n),
					None => i.to_string(),
				});
			}
		}
		cmd.stdin(std::process::Stdio::null()).stdout(std::process::Stdio::null()).stderr(std::process::Stdio::null());
		let st = cmd.status().map_err(|e| format!("spawn child: {}", e))?;
		self.runs += 1;
		use std::os::unix::process::ExitStatusExt;
		let code = match st.code() {
			Some(c) => c,
			None => -st.signal().unwrap_or(0),
		};
		let mut evs = vec![];
		if let Ok(s) = std::fs::read_to_string(&logf) {
			for l in s.lines() {
				let f: Vec<&str> = l.splitn(4, ' ').collect();
				if f.len() >= 3 {
					evs.push(Ev { op: f[1].to_string(), len: f[2].parse().unwrap_or(0) });
				}
			}
		}
		Ok((code, evs))
	}

	/// Oracle on the directory left behind.
	fn judge(&self, c: &IntCase, top: &Path, allowed_other: Option<&[u8]>, what: &str, opname: &str, out: &mut Outcome) {
		let mut recovered = false;
		let mut summary = vec![];
		for (name, body) in seed_files(&top.join("wallet_data")) {
			for (pwn, pw) in [("old", &c.old), ("new", &c.new)].iter() {
				match indep_decrypt(&body, pw) {
					Ok(s) if s == c.entropy => {
						recovered = true;
						summary.push(format!("{}[{} pw]=original", name, pwn));
					}
					Ok(s) if Some(&s[..]) == allowed_other => summary.push(format!("{}[{} pw]=recovered-phrase seed", name, pwn)),
					Ok(_) => {
						out.fail(
							format!("c12:interrupt:{}:different-seed", opname),
							format!("{}: {} opens with the {} password to a seed that is neither the original nor the one being recovered", what, name, pwn),
						);
					}
					Err(_) => {}
				}
			}
			if summary.iter().all(|s| !s.starts_with(&format!("{}[", name))) {
				summary.push(format!("{}({} bytes)=unreadable", name, body.len()));
			}
		}
		if !recovered {
			out.fail(
				format!("c12:interrupt:{}:original-seed-lost", opname),
				format!("{}: no wallet.seed* file gives the original seed with the old or the new password; files: {:?}", what, summary),
			);
		}
	}

	fn run_case(&mut self, c: &IntCase, work: &Path, out: &mut Outcome) -> Result<(), String> {
		let phrase = mnemonic::from_entropy(&c.entropy).map_err(|e| format!("{:?}", e))?;
		let other_phrase = mnemonic::from_entropy(&c.other_entropy).map_err(|e| format!("{:?}", e))?;
		let opname = match c.op {
			0 => "change-password",
			1 => "recover-same",
			_ => "recover-other",
		};
		let target_phrase = if c.op == 2 { other_phrase.clone() } else { phrase.clone() };
		let allowed_other: Option<Vec<u8>> = if c.op == 2 { Some(c.other_entropy.clone()) } else { None };
		out.class(format!("op:{}", opname));
		out.class(format!("old:{}/new:{}", c.old_class, c.new_class));
		out.class(format!("stale-backups={}", c.stale_baks));
		// original files, produced by the real code
		let mk = |tag: &str, pw: &str| -> Result<Vec<u8>, String> {
			let t = work.join(format!("tmpl-{}", tag));
			let _ = std::fs::remove_dir_all(&t);
			lc_do(&t, |lc| lc.create_wallet(None, Some(zs(&phrase)), 32, zs(pw), false)).map_err(|e| format!("create_wallet: {}", e))?;
			let b = std::fs::read(t.join("wallet_data/wallet.seed")).map_err(|e| e.to_string())?;
			let _ = std::fs::remove_dir_all(&t);
			Ok(b)
		};
		let mut files = vec![("wallet.seed".to_string(), mk("orig", &c.old)?)];
		for i in 0..c.stale_baks {
			let name = if i == 0 { "wallet.seed.bak".to_string() } else { format!("wallet.seed.bak.{}", i) };
			files.push((name, mk("stale", &format!("an even older password #{}", i))?));
		}
		if indep_decrypt(&files[0].1, &c.old).ok().as_deref() != Some(&c.entropy[..]) {
			return Err("harness: template seed file does not decrypt to the seed".into());
		}
		let top = work.join("run");
		// enumeration run
		let (code, evs) = self.child(c, &target_phrase, &files, &top, &Fault::None)?;
		if code != 0 {
			return Err(format!("harness: unfaulted child exited with {}", code));
		}
		if evs.len() < 3 {
			return Err(format!("harness: shim recorded only {} file operations (not loaded?)", evs.len()));
		}
		out.class(format!("events={}", evs.iter().map(|e| e.op.clone()).collect::<Vec<_>>().join(",")));
		// completed operation
		{
			let mut done = Outcome::default();
			self.judge(c, &top, allowed_other.as_deref(), "after the uninterrupted operation", opname, &mut done);
			out.fails.extend(done.fails);
			let target = if c.op == 2 { &c.other_entropy } else { &c.entropy };
			match std::fs::read(top.join("wallet_data/wallet.seed")).map_err(|e| e.to_string()).and_then(|b| indep_decrypt(&b, &c.new)) {
				Ok(s) if &s == target => {}
				other => out.fail(format!("c12:interrupt:{}:completed-run-wrong", opname), format!("after the uninterrupted operation wallet.seed does not open with the new password to the expected seed: {:?}", other.map(|s| s.len()))),
			}
		}
		// every fault
		let mut faults: Vec<Fault> = vec![];
		for (i, e) in evs.iter().enumerate() {
			faults.push(Fault::Kill(2 * i));
			faults.push(Fault::Kill(2 * i + 1));
			faults.push(Fault::Fail(i, None));
			if e.op == "write" {
				for n in 1..e.len {
					faults.push(Fault::Short(i, n));
				}
				for n in [1, e.len / 2, e.len.saturating_sub(1)].iter() {
					if *n >= 1 && *n < e.len {
						faults.push(Fault::Fail(i, Some(*n)));
					}
				}
			}
		}
		self.max_points = std::cmp::max(self.max_points, faults.len() as u64);
		let mut evals = 0u64;
		for f in &faults {
			let (code, evs2) = self.child(c, &target_phrase, &files, &top, f)?;
			evals += 1;
			let what = format!("{} with {:?} (events {:?})", opname, f, evs.iter().map(|e| format!("{}:{}", e.op, e.len)).collect::<Vec<_>>());
			match f {
				Fault::Kill(_) | Fault::Short(..) => {
					if code != -9 {
						return Err(format!("harness: {:?} did not kill the child (status {}, {} events)", f, code, evs2.len()));
					}
				}
				_ => {
					out.class(format!("fail-injected:child-exit={}", code));
					if code < 0 || code == 101 {
						out.class("fail-injected:child-abnormal");
					}
				}
			}
			self.judge(c, &top, allowed_other.as_deref(), &what, opname, out);
			if !out.fails.is_empty() {
				break;
			}
		}
		out.evals = Some(std::cmp::max(1, evals));
		out.class(format!("fault-points={}", faults.len() / 50 * 50));
		out.nontrivial = evals >= 8;
		let _ = std::fs::remove_dir_all(&top);
		Ok(())
	}
}

impl Prop for C12Int {
	type Case = IntCase;
	fn id(&self) -> &'static str {
		"C12"
	}
	fn part(&self) -> &'static str {
		"interrupt"
	}
	fn cases(&self, tier: Tier) -> u64 {
		tier.pick(64, 1280)
	}
	fn strategy(&self, _tier: Tier) -> BoxedStrategy<IntCase> {
		let entropy = || prop_oneof![Just(16usize), Just(20), Just(24), Just(28), Just(32)].prop_flat_map(|n| prop::collection::vec(any::<u8>(), n));
		(entropy(), pw_strategy(), pw_strategy(), prop_oneof![4 => Just(0u8), 1 => Just(1u8), 1 => Just(2u8)], entropy(), 0u8..3)
			.prop_map(|(entropy, (old_class, old), (new_class, new), op, other_entropy, stale_baks)| IntCase { entropy, old_class, old, new_class, new, op, other_entropy, stale_baks })
			.boxed()
	}
	fn shrink_iters(&self) -> u32 {
		self.tier.pick(12, 24)
	}
	fn rule(&self) -> String {
		"case = seed (16..32 bytes), old and new password (empty/ASCII/unicode/1 KiB), operation in {change_password, recover_from_mnemonic with the same phrase, with another phrase}, 0..2 stale backups (same seed, older passwords); the operation runs in a child process (gwv child-*) under the fsfault LD_PRELOAD shim, which numbers the mutating libc calls on paths containing 'wallet.seed' (open for writing, write, rename, unlink); one enumeration run, then one run per fault: SIGKILL before and after every call, SIGKILL after a short write of EVERY length 1..len-1, and EIO from every call (writes also after 1, len/2, len-1 bytes) with the process continuing; oracle after each run, over every wallet.seed* file x {old, new} password with the independent reader: some file gives the original seed, none gives a seed other than the original (or the one being recovered); evaluations = child runs; exhaustive over kill points per case; non-trivial = >= 8 fault runs".into()
	}
	fn assumptions(&self) -> Vec<String> {
		vec![
			"interruption = process death at a libc call boundary or within a write (data already handed to the kernel survives), or an I/O error returned by one call; power-loss reordering of unsynced data is not modelled".into(),
			"recoverable = readable from some wallet.seed* file in the data directory (a backup the user has to rename counts)".into(),
		]
	}
	fn extra(&self) -> Value {
		json!({"child_runs": self.runs, "max_fault_points_per_case": self.max_points, "shim": self.shim.as_ref().map(|p| p.to_string_lossy().to_string()).unwrap_or_else(|e| e.clone())})
	}
	fn run(&mut self, c: &IntCase) -> Outcome {
		let mut out = Outcome::default();
		self.n += 1;
		let work = self.scratch.join(format!("c12c.case{}", self.n));
		let _ = std::fs::remove_dir_all(&work);
		let _ = std::fs::create_dir_all(&work);
		let r = self.run_case(c, &work, &mut out);
		let _ = std::fs::remove_dir_all(&work);
		if let Err(e) = r {
			out.fail("c12:interrupt:harness-error", e);
		}
		out
	}
}

// =============================================================================================
// part (d): nonce / excess freshness

#[derive(Clone, Debug, Serialize, Deserialize)]
pub struct NonceCase {
	pub base: u8,
	/// three opening flows (initiating wallet, invoice?) run up to the counterparty's reply: with two wallets some wallet
	/// initiates twice and some wallet responds twice, so every history can show a reuse on its own
	pub warm: Vec<(u16, bool)>,
	pub ops: Vec<Op>,
}

fn nonce_op_strategy() -> BoxedStrategy<Op> {
	let args = || send_args_strategy(false, true, true, false);
	prop_oneof![
		6 => (0u16..3, prop_oneof![3 => Just(0xffffu16), 1 => any::<u16>()]).prop_map(|(to, take)| Op::Mine { to, take }),
		2 => any::<u16>().prop_map(|w| Op::Refresh { w }),
		2 => (any::<u16>(), any::<u16>()).prop_map(|(w, acct)| Op::SwitchAccount { w, acct }),
		14 => (any::<u16>(), any::<u16>(), args()).prop_map(|(w, to, args)| Op::InitSend { w, to, args }),
		8 => (any::<u16>(), any::<u16>(), args()).prop_map(|(w, to, mut args)| {
			args.late_lock = true;
			Op::InitSend { w, to, args }
		}),
		30 => any::<u16>().prop_map(|s| Op::Step { s }),
		4 => any::<u16>().prop_map(|s| Op::Deliver { s }),
		2 => any::<u16>().prop_map(|s| Op::Lock { s }),
		2 => any::<u16>().prop_map(|s| Op::Finalize { s }),
		2 => (any::<u16>(), any::<bool>(), any::<bool>()).prop_map(|(s, by_sender, by_slate_id)| Op::Cancel { s, by_sender, by_slate_id }),
		8 => (any::<u16>(), any::<u16>(), any::<u16>()).prop_map(|(w, payer, amount)| Op::IssueInvoice { w, payer, amount }),
		6 => (any::<u16>(), args()).prop_map(|(s, args)| Op::PayInvoice { s, args }),
		2 => any::<u16>().prop_map(|s| Op::FinalizeInvoice { s }),
		8 => (any::<u16>(), any::<bool>(), args()).prop_map(|(w, other_acct, args)| Op::SelfSend { w, other_acct, args }),
		4 => any::<u16>().prop_map(|w| Op::Restart { w }),
	]
	.boxed()
}

type Entry = (Vec<u8>, Vec<u8>); // (public nonce, public blind excess), compressed

pub struct C12Nonce {
	scratch: PathBuf,
	bases: Vec<PathBuf>,
	n: u64,
	tier: Tier,
	/// run-wide memory: (base, wallet, kind) -> value -> slate id that carried it
	memory: BTreeMap<(u8, usize, u8), BTreeMap<Vec<u8>, String>>,
	entries_total: u64,
}

impl C12Nonce {
	pub fn new(args: &Args) -> C12Nonce {
		let mut bases = vec![];
		for v in 0..2u64 {
			let d = args.scratch.join(format!("c12d.base{}", v));
			base::build(&d, &BaseSpec::standard(v)).expect("base world");
			bases.push(d);
		}
		C12Nonce { scratch: args.scratch.clone(), bases, n: 0, tier: args.tier, memory: BTreeMap::new(), entries_total: 0 }
	}

	fn run_case(&mut self, c: &NonceCase, dir: &Path, out: &mut Outcome) -> Result<(), String> {
		let bi = c.base as usize % self.bases.len();
		let mut sim = base::open_copy(&self.bases[bi], dir)?;
		sim.strict = true;
		let ser = |p: &grin_util::secp::key::PublicKey| -> Vec<u8> {
			let secp = grin_util::secp::Secp256k1::with_caps(grin_util::secp::ContextFlag::None);
			p.serialize_vec(&secp, true).to_vec()
		};
		// (slate idx, wallet, role) -> entries ; collected after every op so that replaced replies are kept too
		let mut got: BTreeSet<(usize, usize, &'static str, Entry)> = BTreeSet::new();
		let collect = |sim: &Sim, got: &mut BTreeSet<(usize, usize, &'static str, Entry)>| {
			for (si, s) in sim.slates.iter().enumerate() {
				let e1: Vec<Entry> = s.s1.participant_data.iter().map(|p| (ser(&p.public_nonce), ser(&p.public_blind_excess))).collect();
				for e in &e1 {
					got.insert((si, s.initiator, "initiator", e.clone()));
				}
				let selfsend = s.initiator == s.responder;
				let mut e2: Vec<Entry> = vec![];
				if let Some(s2) = &s.s2 {
					for p in &s2.participant_data {
						let e = (ser(&p.public_nonce), ser(&p.public_blind_excess));
						// a reply may carry the initiator's entry along; in a two-wallet flow that one is not the responder's
						if selfsend || !e1.contains(&e) {
							got.insert((si, s.responder, "responder", e.clone()));
							e2.push(e);
						}
					}
				}
				if let Some(s3) = &s.s3 {
					for p in &s3.participant_data {
						let e = (ser(&p.public_nonce), ser(&p.public_blind_excess));
						if !e2.contains(&e) {
							got.insert((si, s.initiator, "initiator", e));
						}
					}
				}
			}
		};
		let nw = sim.world.wallets.len();
		for (w, invoice) in &c.warm {
			let w = idx(*w, nw);
			let to = (w + 1) % nw;
			let r = if *invoice {
				sim.issue_invoice(w, to, 1_000_000).and_then(|si| sim.pay_invoice(si, &SendArgs::default()))
			} else {
				let a = SendArgs { amount: AmountPick::Frac(2000), ..SendArgs::default() };
				sim.init_send(w, to, &a).and_then(|si| sim.deliver(si))
			};
			sim.log.push(format!("warm flow from wallet {} (invoice: {}) -> {:?}", w, invoice, r));
			out.class(format!("warm:{}:{}", if *invoice { "invoice" } else { "send" }, if r.is_ok() { "ok" } else { "err" }));
			collect(&sim, &mut got);
		}
		for op in &c.ops {
			let r = sim.apply(op);
			out.class(format!("op:{}:{}", r.kind, match &r.result { Some(Ok(_)) => "ok", Some(Err(_)) => "err", None => "noop" }));
			collect(&sim, &mut got);
		}
		// oracle
		let mut by_wallet: BTreeMap<(usize, u8), BTreeMap<Vec<u8>, BTreeSet<usize>>> = BTreeMap::new();
		for (si, w, _role, (n, x)) in &got {
			by_wallet.entry((*w, 0)).or_default().entry(n.clone()).or_default().insert(*si);
			by_wallet.entry((*w, 1)).or_default().entry(x.clone()).or_default().insert(*si);
		}
		let kind_name = |k: u8| if k == 0 { "nonce" } else { "excess" };
		let mut per_wallet_slates: BTreeMap<usize, BTreeSet<usize>> = BTreeMap::new();
		for (si, w, _, _) in &got {
			per_wallet_slates.entry(*w).or_default().insert(*si);
		}
		for ((w, k), m) in &by_wallet {
			for (val, sis) in m {
				if sis.len() > 1 {
					let ids: Vec<String> = sis.iter().map(|i| sim.slates[*i].id.to_string()).collect();
					out.fail(
						format!("c12:nonce:{}-reused-across-slates", kind_name(*k)),
						format!("wallet {} contributed the same public {} {} to slates {:?}", w, kind_name(*k), grin_util::ToHex::to_hex(val), ids),
					);
				}
				// run-wide memory (same wallet seed in every copy of this base world): only slates of EARLIER histories count here
				let mine: BTreeSet<String> = sim.slates.iter().map(|s| s.id.to_string()).collect();
				let mem = self.memory.entry((bi as u8, *w, *k)).or_default();
				match mem.get(val) {
					Some(prev) if !mine.contains(prev) => out.fail(
						format!("c12:nonce:{}-reused-across-histories", kind_name(*k)),
						format!("wallet {} of base {} contributed public {} {} to slate {} in this history and to slate {} in an earlier history of this run (only reproducible within a run)", w, bi, kind_name(*k), grin_util::ToHex::to_hex(val), sim.slates[*sis.iter().next().unwrap()].id, prev),
					),
					Some(_) => {}
					None => {
						mem.insert(val.clone(), sim.slates[*sis.iter().next().unwrap()].id.to_string());
					}
				}
			}
		}
		// self-sends: the two roles of one wallet in one slate must differ in both values
		for (si, s) in sim.slates.iter().enumerate() {
			if s.initiator == s.responder {
				let ini: Vec<&Entry> = got.iter().filter(|g| g.0 == si && g.2 == "initiator").map(|g| &g.3).collect();
				let res: Vec<&Entry> = got.iter().filter(|g| g.0 == si && g.2 == "responder").map(|g| &g.3).collect();
				for a in &ini {
					for b in &res {
						if a.0 == b.0 {
							out.fail("c12:nonce:self-send-roles-share-nonce", format!("self-send {}: initiator and responder entries carry the same public nonce", s.id));
						}
						if a.1 == b.1 {
							out.fail("c12:nonce:self-send-roles-share-excess", format!("self-send {}: initiator and responder entries carry the same public excess", s.id));
						}
					}
				}
				if !ini.is_empty() && !res.is_empty() {
					out.class("self-send-compared");
				}
			}
		}
		self.entries_total += got.len() as u64;
		let max_slates = per_wallet_slates.values().map(|s| s.len()).max().unwrap_or(0);
		out.nontrivial = max_slates >= 2;
		out.class(format!("max-slates-per-wallet={}", std::cmp::min(max_slates, 8)));
		for s in &sim.slates {
			out.class(format!("flow:{}", if s.initiator == s.responder { "self" } else if s.flow == Flow::Invoice { "invoice" } else if s.late_lock { "late" } else { "send" }));
		}
		if !out.fails.is_empty() {
			let hist = sim.history();
			for f in out.fails.iter_mut() {
				f.detail = format!("{}\n--- history ---\n{}", f.detail, hist);
			}
		}
		Ok(())
	}
}

impl Prop for C12Nonce {
	type Case = NonceCase;
	fn id(&self) -> &'static str {
		"C12"
	}
	fn part(&self) -> &'static str {
		"nonce"
	}
	fn cases(&self, tier: Tier) -> u64 {
		tier.pick(96, 1920)
	}
	fn strategy(&self, tier: Tier) -> BoxedStrategy<NonceCase> {
		let n = tier.pick(14usize, 24usize);
		(0u8..2, prop::collection::vec((any::<u16>(), prop::bool::weighted(0.3)), 3), prop::collection::vec(nonce_op_strategy(), 4..=n))
			.prop_map(|(base, warm, ops)| NonceCase { base, warm, ops })
			.boxed()
	}
	fn shrink_iters(&self) -> u32 {
		self.tier.pick(32, 64)
	}
	fn rule(&self) -> String {
		"three opening flows (send: init+receive, or invoice: issue+pay; generated initiator) followed by histories of 4..14 (thorough 24) ops on a copy of a funded base world, driven through api::Owner / api::Foreign objects constructed with their defaults (doctest_mode=false, use_test_rng=false): sends (normal, late-lock, with proof), invoices, self-sends (same/other account), cancels, restarts; per wallet the (public nonce, public blind excess) it contributed: initiator entries from S1/I1 (and entries of S3 that are not in S2), responder entries from S2/I2 (minus entries already in S1 for two-wallet flows); oracle: within a history no nonce and no excess of a wallet occurs under two slate ids; across the histories of the run (same wallet seeds) likewise; the two roles of a self-send differ in both; non-trivial = some wallet took part in >= 2 slates".into()
	}
	fn extra(&self) -> Value {
		json!({"entries_collected": self.entries_total, "distinct_values_remembered": self.memory.values().map(|m| m.len() as u64).sum::<u64>()})
	}
	fn run(&mut self, c: &NonceCase) -> Outcome {
		let mut out = Outcome::default();
		self.n += 1;
		let dir = self.scratch.join(format!("c12d.case{}", self.n));
		let r = self.run_case(c, &dir, &mut out);
		let _ = std::fs::remove_dir_all(&dir);
		if let Err(e) = r {
			out.fail("c12:nonce:harness-error", e);
		}
		out
	}
}

// =============================================================================================

pub fn run(args: &Args, rep: &mut Report) {
	let want = |p: &str| args.part.as_deref().map(|x| x == p).unwrap_or(true);
	if let Err(e) = kdf_selftest() {
		eprintln!("error: {}", e);
		std::process::exit(3);
	}
	if want("seedfile") {
		let mut p = C12Seed::new(args);
		run_part(&mut p, args, rep);
	}
	if want("interrupt") {
		let mut p = C12Int::new(args);
		if let Err(e) = &p.shim {
			eprintln!("error: {}", e);
			std::process::exit(3);
		}
		run_part(&mut p, args, rep);
		rep.extra.insert("interrupt.exhaustive_over_kill_points".into(), json!(true));
	}
	if want("nonce") {
		let mut p = C12Nonce::new(args);
		run_part(&mut p, args, rep);
	}
	if want("leak") {
		let mut p = C12Leak::new(args);
		run_part(&mut p, args, rep);
	}
}

pub fn replay(args: &Args, part: &str, case: &Value) -> Result<Outcome, String> {
	kdf_selftest()?;
	match part {
		"leak" => replay_part(&mut C12Leak::new(args), case),
		"seedfile" => replay_part(&mut C12Seed::new(args), case),
		"interrupt" => replay_part(&mut C12Int::new(args), case),
		"nonce" => replay_part(&mut C12Nonce::new(args), case),
		_ => Err(format!("unknown part {}", part)),
	}
}
