//! C14 — a masked wallet does nothing without the right token.
//!
//! Parts:
//!  * `wrong-token`  every owner method taking a keychain mask x wrong token x wallet state:
//!                   (a) persistent state + active account unchanged, (b) key-using methods refuse.
//!  * `differential` the same wallet directory opened masked (used with its token) and unmasked receives
//!                   the same op sequence on identical copies of a frozen chain: equal deterministic results.
//!  * `closed`       after close_wallet every wallet-touching method is Err with any token; after re-open the
//!                   new token works and the old one is just another wrong token.

use crate::base;
use crate::rt::*;
use crate::sim::*;
use crate::snap;
use crate::world::{self, Wal, World};
use grin_core::core::OutputFeatures;
use grin_keychain::Identifier;
use grin_util::secp::key::SecretKey;
use grin_util::secp::pedersen::Commitment;
use grin_util::{static_secp_instance, ToHex, ZeroingString};
use grin_wallet_api::Owner;
use grin_wallet_libwallet::mwixnet::MixnetReqCreationParams;
use grin_wallet_libwallet::{
	Error, InitTxArgs, IssueInvoiceTxArgs, OutputStatus, PaymentProof, RetrieveTxQueryArgs, Slate, SlatepackAddress,
	TxLogEntryType,
};
use proptest::prelude::*;
use serde_derive::{Deserialize, Serialize};
use serde_json::{json, Value};
use std::collections::{BTreeMap, BTreeSet};
use std::path::{Path, PathBuf};
use std::rc::Rc;
use std::sync::atomic::Ordering;
use std::sync::mpsc::{channel, RecvTimeoutError};
use std::time::Duration;
use uuid::Uuid;

pub const M: usize = 0;
pub const B: usize = 1;
const PW_M: &str = "c14 pass";
pub const STATES: [&str; 4] = ["funded", "pending-send", "pending-receive", "acct1-active"];

// ---------------------------------------------------------------------------------------------
// base worlds + artifacts

/// Things a confirmed, proof-carrying send from one account of `m` left behind.
#[derive(Clone)]
pub struct Hist {
	pub finalized: Slate,
	pub tx_id: u32,
	pub slate_id: Uuid,
	pub proof: PaymentProof,
	/// armored slatepack from `b`, encrypted to m's address 0 of this account
	pub slatepack_to_m: String,
	pub unspent_commit: Commitment,
}

#[derive(Clone)]
pub struct Arts {
	/// per account of m
	pub hist: Vec<Hist>,
	/// I1 issued by b, payable by m
	pub invoice_from_b: Slate,
	/// the same invoice as plain (unencrypted) armored slatepack
	pub slatepack_plain: String,
	pub b_addr: SlatepackAddress,
	/// S1 of m that was initiated but not locked
	pub s1_unlocked: Option<Slate>,
	/// b's reply to a locked send of m
	pub s2_reply: Option<Slate>,
	/// log id (active account) of a pending entry
	pub pending_tx_id: Option<u32>,
	pub pending_slate_id: Option<Uuid>,
	/// account of m that is active in this state
	pub active: usize,
}

fn es<E: std::fmt::Display>(what: &'static str) -> impl Fn(E) -> String {
	move |e| format!("{}: {}", what, e)
}

fn log_id_of(w: &Wal, slate_id: &Uuid, parent: &Identifier) -> Result<u32, String> {
	snap::view(w)
		.txs
		.iter()
		.find(|t| t.tx_slate_id == Some(*slate_id) && &t.parent_key_id == parent)
		.map(|t| t.id)
		.ok_or_else(|| "no log entry for slate".to_string())
}

fn must_refresh(sim: &mut Sim, w: usize) -> Result<(), String> {
	match sim.refresh(w) {
		Ok(true) => Ok(()),
		other => Err(format!("refresh of wallet {} not successful: {:?}", w, other)),
	}
}

fn small_send(frac: u16, proof: bool, change: u8) -> SendArgs {
	SendArgs {
		amount: AmountPick::Frac(frac),
		use_all: false,
		change,
		min_conf: 1,
		incl_fee: false,
		late_lock: false,
		proof,
		ttl: None,
		name_acct: false,
	}
}

/// Common prefix: m (masked, 2 funded accounts), b (masked), one confirmed proof-carrying send from each
/// account of m, an open invoice issued by b.
fn build_prefix(dir: &Path) -> Result<Arts, String> {
	let _ = std::fs::remove_dir_all(dir);
	let mut w = World::create(dir)?;
	w.add_wallet("m", None, PW_M, true)?;
	w.add_wallet("b", None, "", true)?;
	for i in [M, B].iter() {
		w.wallets[*i]
			.owner
			.create_account_path(w.wallets[*i].m(), ACCOUNTS[1])
			.map_err(es("create_account_path"))?;
	}
	let mut sim = Sim::new(w);
	sim.strict = true;
	for _ in 0..4 {
		sim.mine(Some(M), 0)?;
	}
	sim.switch_account(M, 1)?;
	for _ in 0..3 {
		sim.mine(Some(M), 0)?;
	}
	for _ in 0..3 {
		sim.mine(Some(B), 0)?;
	}
	for _ in 0..4 {
		sim.mine(None, 0)?;
	}
	let mut sent: Vec<(usize, usize)> = vec![];
	for acct in [1usize, 0].iter() {
		sim.switch_account(M, *acct)?;
		must_refresh(&mut sim, M)?;
		must_refresh(&mut sim, B)?;
		let si = sim.init_send(M, B, &small_send(9000, true, 2))?;
		sim.lock(si)?;
		sim.deliver(si)?;
		sim.finalize(si)?;
		sim.post(si)?;
		sim.mine(None, 0xffff)?;
		if sim.slates[si].mined_at.is_none() {
			return Err("base: proof send was not mined".into());
		}
		sent.push((*acct, si));
	}
	sim.mine(None, 0)?;
	sim.mine(None, 0)?;
	must_refresh(&mut sim, B)?;
	let sp = sim.spendable(M, 1);
	let isi = sim.issue_invoice(B, M, std::cmp::max(1, sp / 50))?;
	let invoice = wire(&sim.slates[isi].s1)?;
	let b_addr = sim.slatepack_address(B)?;
	let slatepack_plain = sim
		.w(B)
		.owner
		.create_slatepack_message(sim.w(B).m(), &invoice, None, vec![])
		.map_err(es("create_slatepack_message plain"))?;
	let mut hist: Vec<Option<Hist>> = vec![None, None];
	for (acct, si) in sent {
		sim.switch_account(M, acct)?;
		must_refresh(&mut sim, M)?;
		let sid = sim.slates[si].id;
		let m = sim.w(M);
		let tx_id = log_id_of(m, &sid, &sim.acct_parent(acct))?;
		let proof = m
			.owner
			.retrieve_payment_proof(m.m(), false, None, Some(sid))
			.map_err(es("retrieve_payment_proof"))?;
		let addr = m.owner.get_slatepack_address(m.m(), 0).map_err(es("get_slatepack_address"))?;
		let slatepack_to_m = sim
			.w(B)
			.owner
			.create_slatepack_message(sim.w(B).m(), &invoice, Some(0), vec![addr])
			.map_err(es("create_slatepack_message"))?;
		let outs = m.owner.retrieve_outputs(m.m(), false, false, None).map_err(es("retrieve_outputs"))?.1;
		let unspent_commit = outs
			.iter()
			.find(|o| o.output.status == OutputStatus::Unspent)
			.map(|o| o.commit)
			.ok_or("base: no unspent output")?;
		hist[acct] = Some(Hist {
			finalized: sim.slates[si].s3.clone().ok_or("no s3")?,
			tx_id,
			slate_id: sid,
			proof,
			slatepack_to_m,
			unspent_commit,
		});
	}
	sim.switch_account(M, 0)?;
	must_refresh(&mut sim, M)?;
	drop(sim);
	Ok(Arts {
		hist: hist.into_iter().map(|h| h.unwrap()).collect(),
		invoice_from_b: invoice,
		slatepack_plain,
		b_addr,
		s1_unlocked: None,
		s2_reply: None,
		pending_tx_id: None,
		pending_slate_id: None,
		active: 0,
	})
}

fn build_state(prefix: &Path, dir: &Path, s: usize, arts: &Arts) -> Result<Arts, String> {
	let mut a = arts.clone();
	let mut sim = base::open_copy(prefix, dir)?;
	sim.strict = true;
	match s {
		0 => {}
		1 | 3 => {
			let acct = if s == 3 { 1 } else { 0 };
			sim.switch_account(M, acct)?;
			let si = sim.init_send(M, B, &small_send(12000, false, 1))?;
			sim.lock(si)?;
			sim.deliver(si)?;
			a.s2_reply = Some(wire(sim.slates[si].s2.as_ref().ok_or("no s2")?)?);
			let si2 = sim.init_send(M, B, &small_send(3000, false, 1))?;
			a.s1_unlocked = Some(sim.slates[si2].s1.clone());
			a.pending_slate_id = Some(sim.slates[si].id);
			a.pending_tx_id = Some(log_id_of(sim.w(M), &sim.slates[si].id, &sim.acct_parent(acct))?);
			a.active = acct;
			must_refresh(&mut sim, M)?;
		}
		_ => {
			let si = sim.init_send(B, M, &small_send(8000, false, 1))?;
			sim.lock(si)?;
			sim.deliver(si)?;
			let sp = sim.spendable(B, 1);
			sim.issue_invoice(M, B, std::cmp::max(1, sp / 40))?;
			a.pending_slate_id = Some(sim.slates[si].id);
			a.pending_tx_id = Some(log_id_of(sim.w(M), &sim.slates[si].id, &sim.acct_parent(0))?);
			must_refresh(&mut sim, M)?;
		}
	}
	drop(sim);
	Ok(a)
}

pub struct Bases {
	pub dirs: Vec<PathBuf>,
	pub arts: Vec<Arts>,
}

pub fn build_bases(scratch: &Path, tag: &str) -> Result<Bases, String> {
	let p = scratch.join(format!("c14.{}.prefix", tag));
	let arts0 = build_prefix(&p)?;
	let mut dirs = vec![];
	let mut arts = vec![];
	for s in 0..STATES.len() {
		let d = scratch.join(format!("c14.{}.state{}", tag, s));
		arts.push(build_state(&p, &d, s, &arts0)?);
		dirs.push(d);
	}
	let _ = std::fs::remove_dir_all(&p);
	Ok(Bases { dirs, arts })
}

// ---------------------------------------------------------------------------------------------
// method table

#[derive(Clone, Copy, PartialEq, Eq, Debug)]
pub enum Class {
	/// derives keys / signs / builds outputs / reveals key material / writes state: must refuse a wrong token
	Key,
	/// reads public bookkeeping only: subject to "changes nothing" only
	Read,
}

pub struct Ctx<'a> {
	pub wal: &'a Wal,
	pub art: &'a Arts,
	/// account active when the call is made
	pub acct: usize,
}

impl<'a> Ctx<'a> {
	fn hist(&self) -> &Hist {
		&self.art.hist[self.acct % self.art.hist.len()]
	}
	fn o(&self) -> &Owner<world::LC, crate::node::DirectNode, grin_keychain::ExtKeychain> {
		&self.wal.owner
	}
	fn send_args(&self, amount_div: u64) -> InitTxArgs {
		// every account holds > 100 grin spendable in every state
		let sp = 20_000_000_000u64;
		InitTxArgs {
			src_acct_name: None,
			amount: std::cmp::max(1, sp / amount_div),
			minimum_confirmations: 1,
			max_outputs: 500,
			num_change_outputs: 1,
			selection_strategy_is_use_all: false,
			..Default::default()
		}
	}
}

type Call = fn(&Ctx, Option<&SecretKey>) -> Result<(), Error>;

pub struct Entry {
	pub rpc: &'static str,
	pub variant: &'static str,
	pub class: Class,
	/// confirmed on the unchanged tree: a wrong token yields exactly InvalidKeychainMask
	pub exact: bool,
	/// never touches the wallet instance (pure codec): exempt from the closed-wallet rule
	pub pure_codec: bool,
	pub call: Call,
}

impl Entry {
	pub fn name(&self) -> String {
		format!("{}/{}", self.rpc, self.variant)
	}
}

fn e(rpc: &'static str, variant: &'static str, class: Class, exact: bool, call: Call) -> Entry {
	Entry {
		rpc,
		variant,
		class,
		exact,
		pure_codec: false,
		call,
	}
}

fn unit<T>(r: Result<T, Error>) -> Result<(), Error> {
	r.map(|_| ())
}

/// start_updater on a throw-away Owner over the same wallet instance; returns only after the updater thread
/// has ended (all senders of the status channel dropped), so its effects are visible to the caller's snapshot.
fn run_updater(c: &Ctx, t: Option<&SecretKey>) -> Result<(), Error> {
	let (tx, rx) = channel();
	let o = Owner::new(c.wal.inst.clone(), Some(tx));
	let r = o.start_updater(t, Duration::from_millis(1));
	if r.is_ok() {
		// the thread sets the flag first thing; it is never cleared by the thread itself
		let mut spins = 0u64;
		while !o.updater_running.load(Ordering::Relaxed) {
			std::thread::sleep(Duration::from_millis(1));
			spins += 1;
			if spins > 120_000 {
				eprintln!("c14: updater thread did not start within 120 s -> inconclusive");
				std::process::exit(2);
			}
		}
	}
	let _ = o.stop_updater();
	drop(o);
	let mut waited = 0u64;
	loop {
		match rx.recv_timeout(Duration::from_millis(100)) {
			Ok(_) => {}
			Err(RecvTimeoutError::Disconnected) => break,
			Err(RecvTimeoutError::Timeout) => {
				waited += 1;
				if waited > 1200 {
					eprintln!("c14: updater thread did not stop within 120 s -> inconclusive");
					std::process::exit(2);
				}
			}
		}
	}
	r
}

fn mwix(c: &Ctx, t: Option<&SecretKey>, lock: bool) -> Result<(), Error> {
	let secp = static_secp_instance();
	let k1 = SecretKey::from_slice(&secp.lock(), &[11u8; 32]).unwrap();
	let k2 = SecretKey::from_slice(&secp.lock(), &[12u8; 32]).unwrap();
	let params = MixnetReqCreationParams {
		server_keys: vec![k1, k2],
		fee_per_hop: 50_000_000,
	};
	unit(c.o().create_mwixnet_req(t, &params, &c.hist().unspent_commit, lock))
}

pub fn table() -> Vec<Entry> {
	use Class::*;
	let mut v = vec![
		e("accounts", "-", Read, false, |c, t| unit(c.o().accounts(t))),
		e("create_account_path", "new", Key, true, |c, t| unit(c.o().create_account_path(t, "c14-new"))),
		e("set_active_account", "other", Key, true, |c, t| c.o().set_active_account(t, ACCOUNTS[1 - c.acct % 2])),
		e("set_active_account", "same", Key, true, |c, t| c.o().set_active_account(t, ACCOUNTS[c.acct % 2])),
		e("retrieve_outputs", "norefresh", Key, true, |c, t| unit(c.o().retrieve_outputs(t, true, false, None))),
		e("retrieve_outputs", "refresh", Key, true, |c, t| unit(c.o().retrieve_outputs(t, false, true, None))),
		e("retrieve_outputs", "by-tx", Key, true, |c, t| {
			unit(c.o().retrieve_outputs(t, true, false, Some(c.art.pending_tx_id.unwrap_or(c.hist().tx_id))))
		}),
		e("retrieve_txs", "norefresh", Read, false, |c, t| unit(c.o().retrieve_txs(t, false, None, None, None))),
		e("retrieve_txs", "by-slate", Read, false, |c, t| {
			unit(c.o().retrieve_txs(t, false, None, Some(c.hist().slate_id), None))
		}),
		e("retrieve_txs", "refresh", Key, true, |c, t| unit(c.o().retrieve_txs(t, true, None, None, None))),
		e("query_txs", "norefresh", Read, false, |c, t| {
			let q = RetrieveTxQueryArgs {
				min_id: Some(0),
				exclude_cancelled: Some(true),
				..Default::default()
			};
			unit(c.o().retrieve_txs(t, false, None, None, Some(q)))
		}),
		e("query_txs", "refresh", Key, true, |c, t| {
			let q = RetrieveTxQueryArgs {
				include_outstanding_only: Some(true),
				..Default::default()
			};
			unit(c.o().retrieve_txs(t, true, None, None, Some(q)))
		}),
		e("retrieve_summary_info", "norefresh", Read, false, |c, t| unit(c.o().retrieve_summary_info(t, false, 1))),
		e("retrieve_summary_info", "refresh", Key, true, |c, t| unit(c.o().retrieve_summary_info(t, true, 2))),
		e("init_send_tx", "plain", Key, true, |c, t| unit(c.o().init_send_tx(t, c.send_args(9)))),
		e("init_send_tx", "late-lock", Key, true, |c, t| {
			let mut a = c.send_args(11);
			a.late_lock = Some(true);
			unit(c.o().init_send_tx(t, a))
		}),
		e("init_send_tx", "proof", Key, true, |c, t| {
			let mut a = c.send_args(13);
			a.payment_proof_recipient_address = Some(c.art.b_addr.clone());
			unit(c.o().init_send_tx(t, a))
		}),
		e("init_send_tx", "named-acct", Key, true, |c, t| {
			let mut a = c.send_args(50);
			a.src_acct_name = Some(ACCOUNTS[1 - c.acct % 2].to_string());
			unit(c.o().init_send_tx(t, a))
		}),
		e("init_send_tx", "estimate", Read, false, |c, t| {
			let mut a = c.send_args(9);
			a.estimate_only = Some(true);
			unit(c.o().init_send_tx(t, a))
		}),
		e("issue_invoice_tx", "-", Key, true, |c, t| {
			unit(c.o().issue_invoice_tx(
				t,
				IssueInvoiceTxArgs {
					amount: 1_234_567,
					..Default::default()
				},
			))
		}),
		e("process_invoice_tx", "-", Key, true, |c, t| {
			let mut a = c.send_args(9);
			a.amount = c.art.invoice_from_b.amount;
			unit(c.o().process_invoice_tx(t, &c.art.invoice_from_b, a))
		}),
		e("tx_lock_outputs", "-", Key, true, |c, t| {
			let s = c.art.s1_unlocked.clone().unwrap_or_else(|| c.hist().finalized.clone());
			c.o().tx_lock_outputs(t, &s)
		}),
		e("finalize_tx", "-", Key, true, |c, t| {
			let s = c.art.s2_reply.clone().unwrap_or_else(|| c.hist().finalized.clone());
			unit(c.o().finalize_tx(t, &s))
		}),
		e("post_tx", "-", Key, true, |c, t| c.o().post_tx(t, &c.hist().finalized, false)),
		e("cancel_tx", "by-id", Key, true, |c, t| {
			c.o().cancel_tx(t, Some(c.art.pending_tx_id.unwrap_or(c.hist().tx_id)), None)
		}),
		e("cancel_tx", "by-slate", Key, true, |c, t| {
			c.o().cancel_tx(t, None, Some(c.art.pending_slate_id.unwrap_or(c.hist().slate_id)))
		}),
		e("get_stored_tx", "by-id", Key, true, |c, t| unit(c.o().get_stored_tx(t, Some(c.hist().tx_id), None))),
		e("get_stored_tx", "by-slate", Key, true, |c, t| {
			unit(c.o().get_stored_tx(t, None, Some(&c.hist().slate_id)))
		}),
		e("get_rewind_hash", "-", Key, true, |c, t| unit(c.o().get_rewind_hash(t))),
		e("scan", "from-start", Key, true, |c, t| c.o().scan(t, None, false)),
		e("scan", "delete-unconfirmed", Key, true, |c, t| c.o().scan(t, Some(1), true)),
		e("node_height", "-", Key, true, |c, t| unit(c.o().node_height(t))),
		// the updater refreshes (writes) with the token it was started with: a wrong one must be refused by the call
		// itself, the thread's later failure is invisible to the caller
		e("start_updater", "-", Key, true, run_updater),
		e("get_slatepack_address", "0", Key, true, |c, t| unit(c.o().get_slatepack_address(t, 0))),
		e("get_slatepack_address", "7", Key, true, |c, t| unit(c.o().get_slatepack_address(t, 7))),
		e("get_slatepack_secret_key", "0", Key, true, |c, t| unit(c.o().get_slatepack_secret_key(t, 0))),
		e("create_slatepack_message", "sender", Key, true, |c, t| {
			unit(c.o().create_slatepack_message(t, &c.hist().finalized, Some(0), vec![c.art.b_addr.clone()]))
		}),
		e("create_slatepack_message", "anon", Read, false, |c, t| {
			unit(c.o().create_slatepack_message(t, &c.hist().finalized, None, vec![]))
		}),
		e("slate_from_slatepack_message", "indices", Key, true, |c, t| {
			unit(c.o().slate_from_slatepack_message(t, c.hist().slatepack_to_m.clone(), vec![0]))
		}),
		e("slate_from_slatepack_message", "plain", Read, false, |c, t| {
			unit(c.o().slate_from_slatepack_message(t, c.art.slatepack_plain.clone(), vec![]))
		}),
		e("decode_slatepack_message", "indices", Key, true, |c, t| {
			unit(c.o().decode_slatepack_message(t, c.hist().slatepack_to_m.clone(), vec![0]))
		}),
		e("decode_slatepack_message", "plain", Read, false, |c, t| {
			unit(c.o().decode_slatepack_message(t, c.art.slatepack_plain.clone(), vec![]))
		}),
		e("retrieve_payment_proof", "refresh", Key, true, |c, t| {
			unit(c.o().retrieve_payment_proof(t, true, Some(c.hist().tx_id), None))
		}),
		e("retrieve_payment_proof", "norefresh", Read, false, |c, t| {
			unit(c.o().retrieve_payment_proof(t, false, None, Some(c.hist().slate_id)))
		}),
		e("verify_payment_proof", "-", Key, true, |c, t| unit(c.o().verify_payment_proof(t, &c.hist().proof))),
		e("build_output", "-", Key, true, |c, t| unit(c.o().build_output(t, OutputFeatures::Plain, 777_000))),
		e("create_mwixnet_req", "lock", Key, true, |c, t| mwix(c, t, true)),
		e("create_mwixnet_req", "nolock", Key, true, |c, t| mwix(c, t, false)),
	];
	for x in v.iter_mut() {
		if x.class == Read && x.variant != "-" && (x.variant == "anon" || x.variant == "plain") {
			x.pure_codec = true;
		}
	}
	v
}

/// Names of the `fn <name>(&self, token: Token` methods of the OwnerRpc trait, parsed from the source the
/// harness was compiled against.
pub fn rpc_methods_with_token() -> BTreeSet<String> {
	let src = include_str!("../../../../repo/api/src/owner_rpc.rs");
	let mut out = BTreeSet::new();
	let mut rest = src;
	while let Some(i) = rest.find("fn ") {
		let after = &rest[i + 3..];
		let name_len = after.chars().take_while(|c| c.is_ascii_alphanumeric() || *c == '_').count();
		let name = &after[..name_len];
		let tail = after[name_len..].trim_start();
		if name_len > 0 && tail.starts_with('(') {
			let args: String = tail[1..].chars().take(200).filter(|c| !c.is_whitespace()).collect();
			if args.starts_with("&self,token:Token") {
				out.insert(name.to_string());
			}
		}
		rest = &rest[i + 3..];
	}
	out
}

pub fn uncovered(tab: &[Entry]) -> Vec<String> {
	let have: BTreeSet<&str> = tab.iter().map(|e| e.rpc).collect();
	rpc_methods_with_token().into_iter().filter(|m| !have.contains(m.as_str())).collect()
}

pub fn err_kind(e: &Error) -> String {
	let d = format!("{:?}", e);
	d.chars().take_while(|c| c.is_ascii_alphanumeric() || *c == '_').collect()
}

// ---------------------------------------------------------------------------------------------
// tokens

#[derive(Clone, Debug, Serialize, Deserialize)]
pub enum Tok {
	/// no token at all
	Absent,
	/// the other wallet's (b's) valid token
	Other,
	/// T with bit `i` flipped
	Flip(u8),
	/// unrelated random key
	Random(Vec<u8>),
}

impl Tok {
	pub fn kind(&self) -> &'static str {
		match self {
			Tok::Absent => "absent",
			Tok::Other => "other-wallet",
			Tok::Flip(_) => "bit-flip",
			Tok::Random(_) => "random",
		}
	}
	/// None = the generated bytes are not a valid secret key (cannot be supplied through the API)
	pub fn make(&self, t: &SecretKey, other: &SecretKey) -> Option<Option<SecretKey>> {
		let secp = static_secp_instance();
		let secp = secp.lock();
		match self {
			Tok::Absent => Some(None),
			Tok::Other => Some(Some(other.clone())),
			Tok::Flip(i) => {
				let mut b = t.0;
				b[(*i / 8) as usize] ^= 1u8 << (*i % 8);
				SecretKey::from_slice(&secp, &b).ok().map(Some)
			}
			Tok::Random(v) => {
				let mut b = [0u8; 32];
				for (i, x) in v.iter().take(32).enumerate() {
					b[i] = *x;
				}
				if &b == &t.0 {
					return None;
				}
				SecretKey::from_slice(&secp, &b).ok().map(Some)
			}
		}
	}
}

pub fn tok_strategy() -> BoxedStrategy<Tok> {
	prop_oneof![
		2 => Just(Tok::Absent),
		2 => Just(Tok::Other),
		5 => any::<u8>().prop_map(Tok::Flip),
		3 => prop::collection::vec(any::<u8>(), 32).prop_map(Tok::Random),
	]
	.boxed()
}

// ---------------------------------------------------------------------------------------------
// shared: one sweep of the table with a wrong token

pub struct Opened {
	pub side: Side,
}

impl Opened {
	pub fn w(&self, i: usize) -> &Wal {
		&self.side.world.wallets[i]
	}
}

/// Copy of base world `state`, m masked, its state's account active, refreshed; then `prefix` applied with the
/// right token (results ignored) and refreshed again.
pub fn open_state(bases: &Bases, state: usize, dir: PathBuf, prefix: &[DOp]) -> Result<Opened, String> {
	let mut side = open_side(bases, state, dir, true)?;
	if !prefix.is_empty() {
		for op in prefix {
			side.exec(op)?;
		}
		let m = side.m();
		match m.owner.retrieve_summary_info(m.m(), true, 1) {
			Ok((true, _)) => {}
			other => return Err(format!("refresh after prefix failed: {:?}", other.map(|x| x.0).map_err(|e| e.to_string()))),
		}
	}
	Ok(Opened { side })
}

/// index into the artifacts' per-account history for the currently active account (accounts created by
/// prefix ops have no history of their own: 0)
pub fn active_acct(w: &Wal) -> usize {
	if w.active_parent() == crate::props::c01::acct_parent(1) {
		1
	} else {
		0
	}
}

pub fn active_label(w: &Wal) -> Result<String, String> {
	let p = w.active_parent();
	snap::view(w).accounts.iter().find(|a| a.1 == p).map(|a| a.0.clone()).ok_or_else(|| "active account has no label".to_string())
}

fn on(mask: &[bool], i: usize) -> bool {
	mask.get(i).copied().unwrap_or(true)
}

/// Calls every selected method with `token` (which is not the wallet's token); checks (a) and (b).
/// `closed`: the wallet is closed (no in-memory state to look at; every wallet-touching call must be Err).
pub fn sweep(
	part: &str,
	cls: &str,
	tab: &[Entry],
	mask: &[bool],
	wal: &Wal,
	art: &Arts,
	acct: usize,
	token: Option<&SecretKey>,
	closed: bool,
	enforce_exact: bool,
	scratch: &Path,
	out: &mut Outcome,
) -> Result<u64, String> {
	let snap0 = snap::deep(wal, scratch)?;
	let active0 = if closed { None } else { Some(wal.active_parent()) };
	let mut n = 0u64;
	for (i, ent) in tab.iter().enumerate() {
		if !on(mask, i) {
			continue;
		}
		let ctx = Ctx { wal, art, acct };
		let name = ent.name();
		let r = match guard(|| (ent.call)(&ctx, token)) {
			Ok(r) => r,
			Err(f) => {
				out.fail(f.sig, format!("{} with a wrong token ({}): {}", name, part, f.detail));
				return Ok(n);
			}
		};
		n += 1;
		let kind = match &r {
			Ok(()) => "ok".to_string(),
			Err(e) => err_kind(e),
		};
		out.class(format!("{}:{}:{}", cls, name, kind));
		let snap1 = snap::deep(wal, scratch)?;
		let d = snap::diff(&snap0, &snap1);
		if !d.is_empty() {
			out.fail(
				format!("c14:{}:{}:state-changed", part, ent.rpc),
				format!("{} returned {:?} but changed the stored state: {}", name, r.as_ref().map_err(|e| e.to_string()), d.join("; ")),
			);
			return Ok(n);
		}
		if let Some(a0) = &active0 {
			let a1 = wal.active_parent();
			if &a1 != a0 {
				out.fail(
					format!("c14:{}:{}:active-account-changed", part, ent.rpc),
					format!("{} returned {:?}; active account {} -> {}", name, r.as_ref().map_err(|e| e.to_string()), a0.to_hex(), a1.to_hex()),
				);
				return Ok(n);
			}
		}
		if closed {
			if r.is_ok() && !ent.pure_codec && ent.rpc != "start_updater" {
				out.fail(format!("c14:{}:{}:ok-on-closed-wallet", part, ent.rpc), format!("{} succeeded on a closed wallet", name));
				return Ok(n);
			}
		} else if ent.class == Class::Key {
			out.nontrivial = true;
			match &r {
				Ok(()) => {
					out.fail(format!("c14:{}:{}:accepted", part, ent.rpc), format!("{} succeeded with a wrong token", name));
					return Ok(n);
				}
				Err(Error::InvalidKeychainMask) => {}
				Err(e) => {
					if ent.exact && enforce_exact {
						out.fail(
							format!("c14:{}:{}:other-error", part, ent.rpc),
							format!("{} with a wrong token failed with {:?} instead of InvalidKeychainMask", name, e),
						);
						return Ok(n);
					}
				}
			}
		}
	}
	Ok(n)
}

// ---------------------------------------------------------------------------------------------
// part wrong-token

#[derive(Clone, Debug, Serialize, Deserialize)]
pub struct WtCase {
	pub state: u8,
	/// ops applied with the right token before the sweep (diversifies the state)
	#[serde(default)]
	pub prefix: Vec<DOp>,
	pub tokens: Vec<Tok>,
	/// which table entries are exercised (all by default; shrinks by switching entries off)
	pub mask: Vec<bool>,
}

pub struct WrongToken {
	scratch: PathBuf,
	bases: Rc<Bases>,
	tab: Vec<Entry>,
	n: u64,
	tier: Tier,
}

impl WrongToken {
	pub fn new(args: &Args, bases: Rc<Bases>) -> WrongToken {
		WrongToken {
			scratch: args.scratch.clone(),
			bases,
			tab: table(),
			n: 0,
			tier: args.tier,
		}
	}
}

/// right-token ops run before the sweep: none in half of the cases
fn prefix_strategy(tier: Tier) -> BoxedStrategy<Vec<DOp>> {
	let n = tier.pick(3usize, 7usize);
	prop_oneof![1 => Just(vec![]), 1 => prop::collection::vec(dop_strategy(), 0..n)].boxed()
}

fn mask_strategy(n: usize) -> BoxedStrategy<Vec<bool>> {
	prop::collection::vec(prop::bool::weighted(1.0), n).boxed()
}

impl Prop for WrongToken {
	type Case = WtCase;
	fn id(&self) -> &'static str {
		"C14"
	}
	fn part(&self) -> &'static str {
		"wrong-token"
	}
	fn cases(&self, tier: Tier) -> u64 {
		tier.pick(32, 960)
	}
	fn strategy(&self, tier: Tier) -> BoxedStrategy<WtCase> {
		let n = self.tab.len();
		let extra = tier.pick(3usize, 8usize);
		(
			mask_strategy(n),
			0u8..STATES.len() as u8,
			prefix_strategy(tier),
			(Just(Tok::Absent), Just(Tok::Other), any::<u8>().prop_map(Tok::Flip), prop::collection::vec(tok_strategy(), extra)),
		)
			.prop_map(|(mask, state, prefix, t)| {
				let mut tokens = vec![t.0, t.1, t.2];
				tokens.extend(t.3);
				WtCase { state, prefix, tokens, mask }
			})
			.boxed()
	}
	fn shrink_iters(&self) -> u32 {
		self.tier.pick(64, 160)
	}
	fn rule(&self) -> String {
		format!(
			"masked wallet m (2 funded accounts, confirmed proof-carrying sends, stored txs) in one of 4 states {:?}, in half of the cases followed by 0..2 (thorough 0..6) generated right-token ops of part differential; per case 6 wrong tokens (absent, another masked wallet's valid token, T with a generated bit flipped, 3 generated from {{absent, other, bit flip, random key}}) x every entry of the static method table ({} variants of {} owner methods taking a token; arguments are artifacts with which the call succeeds under the right token where the state allows); oracle per call: raw LMDB content + stored tx files + active account unchanged; Key-class variants return Err, exactly InvalidKeychainMask where marked exact (asserted when no prefix ops ran: a method may refuse for a state reason before it reaches its keys); non-trivial = a Key-class variant was called with a wrong token",
			STATES,
			self.tab.len(),
			self.tab.iter().map(|e| e.rpc).collect::<BTreeSet<_>>().len()
		)
	}
	fn assumptions(&self) -> Vec<String> {
		vec![
			"variants that by documentation only read public bookkeeping (accounts, retrieve_txs/query_txs/retrieve_summary_info/retrieve_payment_proof without refresh, init_send_tx estimate_only, slatepack coding without sender/secret indices) are only subject to 'changes nothing'".into(),
			"start_updater is run on a throw-away Owner over the same wallet instance and joined (status channel disconnect) before the snapshot, so the updater thread's effects are included".into(),
			"tokens are valid secp256k1 scalars (as the JSON-RPC layer would deserialize); a generated byte string that is not is skipped (probability ~2^-128)".into(),
		]
	}
	fn extra(&self) -> Value {
		json!({"table_variants": self.tab.iter().map(|e| e.name()).collect::<Vec<_>>(), "rpc_methods_with_token": rpc_methods_with_token().into_iter().collect::<Vec<_>>(), "uncovered": uncovered(&self.tab)})
	}
	fn run(&mut self, c: &WtCase) -> Outcome {
		let mut out = Outcome::default();
		self.n += 1;
		let dir = self.scratch.join(format!("c14.wt.case{}", self.n));
		if let Err(e) = self.run_case(c, dir, &mut out) {
			out.fail("c14:harness-error", e);
		}
		out
	}
}

impl WrongToken {
	fn run_case(&mut self, c: &WtCase, dir: PathBuf, out: &mut Outcome) -> Result<(), String> {
		let state = c.state as usize % STATES.len();
		let o = open_state(&self.bases, state, dir, &c.prefix)?;
		let art = &self.bases.arts[state];
		let wal = o.w(M);
		let t = wal.mask.clone().ok_or("m has no mask")?;
		let other = o.w(B).mask.clone().ok_or("b has no mask")?;
		out.class(format!("state:{}", STATES[state]));
		for u in uncovered(&self.tab) {
			out.class(format!("uncovered:{}", u));
		}
		let mut evals = 0;
		for tok in &c.tokens {
			let token = match tok.make(&t, &other) {
				Some(x) => x,
				None => {
					out.class("token:not-a-valid-key");
					continue;
				}
			};
			if token.as_ref() == Some(&t) {
				continue;
			}
			out.class(format!("token:{}", tok.kind()));
			evals += sweep("wrong-token", "call", &self.tab, &c.mask, wal, art, active_acct(wal), token.as_ref(), false, c.prefix.is_empty(), &self.scratch, out)?;
			if !out.fails.is_empty() {
				break;
			}
		}
		out.evals = Some(std::cmp::max(1, evals));
		Ok(())
	}
}

// ---------------------------------------------------------------------------------------------
// part differential

#[derive(Clone, Debug, Serialize, Deserialize)]
pub enum DOp {
	NewAccount { n: u8 },
	Switch { a: u16 },
	Send { frac: u16, use_all: bool, change: u8, min_conf: u8, incl_fee: bool, late: bool, proof: bool, lock: bool, estimate: bool },
	Invoice { amount: u32 },
	/// b sends to m; m answers through the foreign API
	Receive { frac: u16 },
	/// deliver the k-th open send of m to b and finalize b's answer
	Finalize { k: u16 },
	/// pay b's standing invoice (process_invoice_tx + lock)
	PayInvoice { change: u8 },
	Cancel { k: u16 },
	Address { i: u8 },
	AddressSecret { i: u8 },
	RewindHash,
	Summary { refresh: bool, min_conf: u8 },
	Outputs { spent: bool, refresh: bool },
	Txs { refresh: bool },
	BuildOutput { amount: u32 },
}

impl DOp {
	fn name(&self) -> &'static str {
		match self {
			DOp::NewAccount { .. } => "create_account_path",
			DOp::Switch { .. } => "set_active_account",
			DOp::Send { .. } => "init_send_tx",
			DOp::Invoice { .. } => "issue_invoice_tx",
			DOp::Receive { .. } => "receive_tx",
			DOp::Finalize { .. } => "finalize_tx",
			DOp::PayInvoice { .. } => "process_invoice_tx",
			DOp::Cancel { .. } => "cancel_tx",
			DOp::Address { .. } => "get_slatepack_address",
			DOp::AddressSecret { .. } => "get_slatepack_secret_key",
			DOp::RewindHash => "get_rewind_hash",
			DOp::Summary { .. } => "retrieve_summary_info",
			DOp::Outputs { .. } => "retrieve_outputs",
			DOp::Txs { .. } => "retrieve_txs",
			DOp::BuildOutput { .. } => "build_output",
		}
	}
}

pub fn dop_strategy() -> BoxedStrategy<DOp> {
	prop_oneof![
		1 => (0u8..3).prop_map(|n| DOp::NewAccount { n }),
		3 => any::<u16>().prop_map(|a| DOp::Switch { a }),
		10 => (any::<u16>(), any::<bool>(), 1u8..4, 1u8..3, prop::bool::weighted(0.2), prop::bool::weighted(0.15), prop::bool::weighted(0.3), prop::bool::weighted(0.85), prop::bool::weighted(0.08))
			.prop_map(|(frac, use_all, change, min_conf, incl_fee, late, proof, lock, estimate)| DOp::Send { frac, use_all, change, min_conf, incl_fee, late, proof, lock, estimate }),
		2 => (1u32..2_000_000_000).prop_map(|amount| DOp::Invoice { amount }),
		3 => any::<u16>().prop_map(|frac| DOp::Receive { frac }),
		3 => any::<u16>().prop_map(|k| DOp::Finalize { k }),
		1 => (1u8..3).prop_map(|change| DOp::PayInvoice { change }),
		3 => any::<u16>().prop_map(|k| DOp::Cancel { k }),
		2 => (0u8..5).prop_map(|i| DOp::Address { i }),
		1 => (0u8..5).prop_map(|i| DOp::AddressSecret { i }),
		1 => Just(DOp::RewindHash),
		3 => (any::<bool>(), 1u8..5).prop_map(|(refresh, min_conf)| DOp::Summary { refresh, min_conf }),
		3 => (any::<bool>(), any::<bool>()).prop_map(|(spent, refresh)| DOp::Outputs { spent, refresh }),
		1 => any::<bool>().prop_map(|refresh| DOp::Txs { refresh }),
		2 => (1u32..4_000_000_000).prop_map(|amount| DOp::BuildOutput { amount }),
	]
	.boxed()
}

#[derive(Clone, Debug, Serialize, Deserialize)]
pub struct DiffCase {
	pub state: u8,
	pub ops: Vec<DOp>,
}

pub struct OpenSend {
	slate: Slate,
	usable: bool,
}

pub struct Side {
	pub world: World,
	sends: Vec<OpenSend>,
	invoice: Slate,
	b_addr: SlatepackAddress,
	dir: PathBuf,
}

impl Drop for Side {
	fn drop(&mut self) {
		let _ = std::fs::remove_dir_all(&self.dir);
	}
}

fn rj<T>(r: Result<T, Error>, f: impl FnOnce(T) -> Value) -> Value {
	match r {
		Ok(v) => json!({ "ok": f(v) }),
		Err(e) => json!({ "err": err_kind(&e) }),
	}
}

fn ids_json(v: &[(Identifier, Option<u64>, u64)]) -> Value {
	json!(v.iter().map(|(k, m, a)| json!([k.to_hex(), m, a])).collect::<Vec<_>>())
}

fn output_json(o: &grin_wallet_libwallet::OutputData) -> Value {
	json!({
		"root": o.root_key_id.to_hex(), "key_id": o.key_id.to_hex(), "n_child": o.n_child, "commit": o.commit, "mmr": o.mmr_index,
		"value": o.value, "status": snap::status_name(&o.status), "height": o.height, "lock_height": o.lock_height,
		"coinbase": o.is_coinbase, "tx_log_entry": o.tx_log_entry,
	})
}

fn tx_json(t: &grin_wallet_libwallet::TxLogEntry) -> Value {
	json!({
		"parent": t.parent_key_id.to_hex(), "id": t.id, "type": format!("{:?}", t.tx_type), "confirmed": t.confirmed,
		"num_inputs": t.num_inputs, "num_outputs": t.num_outputs, "credited": t.amount_credited.to_string(), "debited": t.amount_debited.to_string(),
		"fee": t.fee.map(|f| f.fee()), "ttl": t.ttl_cutoff_height, "has_slate_id": t.tx_slate_id.is_some(), "has_stored_tx": t.stored_tx.is_some(),
		"has_excess": t.kernel_excess.is_some(), "kernel_lookup_min_height": t.kernel_lookup_min_height,
		"proof": t.payment_proof.as_ref().map(|p| json!({
			"sender": p.sender_address.to_bytes().to_vec().to_hex(), "receiver": p.receiver_address.to_bytes().to_vec().to_hex(),
			"path": p.sender_address_path, "has_receiver_sig": p.receiver_signature.is_some(), "has_sender_sig": p.sender_signature.is_some(),
		})),
	})
}

/// Projection of the stored state on the values that do not depend on wallet-internal randomness.
fn project(w: &Wal) -> Value {
	let v = snap::view(w);
	let idx: Vec<Value> = v
		.accounts
		.iter()
		.map(|(l, p)| json!([l, p.to_hex(), w.with(|b| b.current_child_index(p).map_err(|e| e.to_string()))]))
		.collect();
	json!({
		"outputs": v.outputs.iter().map(output_json).collect::<Vec<_>>(),
		"txs": v.txs.iter().map(tx_json).collect::<Vec<_>>(),
		"accounts_and_child_index": idx,
		"active": w.active_parent().to_hex(),
		"stored_tx_files": snap::stored_files(&w.data_dir()).as_object().map(|m| m.len()),
	})
}

fn has_err(v: &Value) -> bool {
	match v {
		Value::Object(m) => m.contains_key("err") || m.contains_key("b-side") || m.values().any(has_err),
		Value::Array(a) => a.iter().any(has_err),
		_ => false,
	}
}

fn first_diff(a: &Value, b: &Value, path: &str) -> Option<String> {
	if a == b {
		return None;
	}
	match (a, b) {
		(Value::Object(x), Value::Object(y)) => {
			let keys: BTreeSet<&String> = x.keys().chain(y.keys()).collect();
			for k in keys {
				let (u, v) = (x.get(k).unwrap_or(&Value::Null), y.get(k).unwrap_or(&Value::Null));
				if let Some(d) = first_diff(u, v, &format!("{}/{}", path, k)) {
					return Some(d);
				}
			}
			None
		}
		(Value::Array(x), Value::Array(y)) => {
			if x.len() != y.len() {
				return Some(format!("{}: {} vs {} elements; masked {} | unmasked {}", path, x.len(), y.len(), a, b));
			}
			for (i, (u, v)) in x.iter().zip(y.iter()).enumerate() {
				if let Some(d) = first_diff(u, v, &format!("{}[{}]", path, i)) {
					return Some(d);
				}
			}
			None
		}
		_ => Some(format!("{}: masked {} | unmasked {}", path, a, b)),
	}
}

impl Side {
	fn m(&self) -> &Wal {
		&self.world.wallets[M]
	}
	fn b(&self) -> &Wal {
		&self.world.wallets[B]
	}
	fn spendable(&self, w: &Wal, min_conf: u64) -> u64 {
		w.owner.retrieve_summary_info(w.m(), false, min_conf).map(|r| r.1.amount_currently_spendable).unwrap_or(0)
	}
	fn labels(&self) -> Vec<String> {
		let mut l: Vec<String> = snap::view(self.m()).accounts.iter().map(|a| a.0.clone()).collect();
		l.sort();
		l
	}
	fn ctx_json(&self, id: &Uuid) -> Value {
		let w = self.m();
		let mask = w.mask.clone();
		match w.with(|b| b.get_private_context(mask.as_ref(), id.as_bytes())) {
			Ok(c) => json!({"inputs": ids_json(&c.input_ids), "outputs": ids_json(&c.output_ids), "amount": c.amount.to_string(), "fee": c.fee.map(|f| f.fee()), "parent": c.parent_key_id.to_hex(), "proof_index": c.payment_proof_derivation_index}),
			Err(e) => json!({ "err": err_kind(&e) }),
		}
	}
	fn slate_json(s: &Slate) -> Value {
		json!({
			"amount": s.amount.to_string(), "fee": s.fee_fields.fee(), "state": format!("{:?}", s.state), "ttl": s.ttl_cutoff_height,
			"participants": s.participant_data.len(), "num_participants": s.num_participants,
			"proof_sender": s.payment_proof.as_ref().map(|p| p.sender_address.to_bytes().to_vec().to_hex()),
			"tx": s.tx.as_ref().map(|t| json!({"inputs": t.inputs().len(), "outputs": t.outputs().len(), "kernels": t.kernels().len(), "fee": t.fee()})),
		})
	}

	/// Returns (deterministic projection of the result, "a send was initiated and locked")
	fn exec(&mut self, op: &DOp) -> Result<(Value, bool), String> {
		let tok = self.m().mask.clone();
		let t = tok.as_ref();
		let o = &self.world.wallets[M].owner;
		let mut sent = false;
		let v = match op {
			DOp::NewAccount { n } => rj(o.create_account_path(t, &format!("d{}", n)), |id| json!(id.to_hex())),
			DOp::Switch { a } => {
				let l = self.labels();
				let label = l[idx(*a, l.len())].clone();
				json!([label, rj(o.set_active_account(t, &label), |_| Value::Null)])
			}
			DOp::Send { frac, use_all, change, min_conf, incl_fee, late, proof, lock, estimate } => {
				let sp = self.spendable(self.m(), *min_conf as u64);
				let amount = std::cmp::max(1, ((sp as u128 * *frac as u128) >> 17) as u64);
				let args = InitTxArgs {
					src_acct_name: None,
					amount,
					amount_includes_fee: if *incl_fee { Some(true) } else { None },
					minimum_confirmations: *min_conf as u64,
					max_outputs: 500,
					num_change_outputs: *change as u32,
					selection_strategy_is_use_all: *use_all,
					payment_proof_recipient_address: if *proof { Some(self.b_addr.clone()) } else { None },
					late_lock: Some(*late),
					estimate_only: Some(*estimate),
					..Default::default()
				};
				match o.init_send_tx(t, args) {
					Err(e) => json!({"amount": amount.to_string(), "err": err_kind(&e)}),
					Ok(s) => {
						let mut j = json!({"requested": amount.to_string(), "slate": Side::slate_json(&s)});
						if !*estimate {
							j["context"] = self.ctx_json(&s.id);
							let mut usable = *late;
							if *lock && !*late {
								let r = o.tx_lock_outputs(t, &s);
								usable = r.is_ok();
								sent = r.is_ok();
								j["lock"] = rj(r, |_| Value::Null);
							}
							self.sends.push(OpenSend { slate: s, usable });
						}
						j
					}
				}
			}
			DOp::Invoice { amount } => rj(
				o.issue_invoice_tx(
					t,
					IssueInvoiceTxArgs {
						amount: *amount as u64,
						..Default::default()
					},
				),
				|s| json!({"slate": Side::slate_json(&s), "context": self.ctx_json(&s.id)}),
			),
			DOp::Receive { frac } => {
				let b = self.b();
				let sp = self.spendable(b, 1);
				let amount = std::cmp::max(1, ((sp as u128 * *frac as u128) >> 19) as u64);
				let args = InitTxArgs {
					amount,
					minimum_confirmations: 1,
					max_outputs: 500,
					num_change_outputs: 1,
					selection_strategy_is_use_all: false,
					..Default::default()
				};
				match b.owner.init_send_tx(b.m(), args).and_then(|s| b.owner.tx_lock_outputs(b.m(), &s).map(|_| s)) {
					Err(e) => json!({"b-side": err_kind(&e), "amount": amount.to_string()}),
					Ok(s1) => {
						let s1 = wire(&s1)?;
						rj(self.m().foreign().receive_tx(&s1, None, None), |s| json!({"amount": amount.to_string(), "slate": Side::slate_json(&s)}))
					}
				}
			}
			DOp::Finalize { k } => {
				let c: Vec<usize> = (0..self.sends.len()).filter(|i| self.sends[*i].usable).collect();
				if c.is_empty() {
					json!("noop")
				} else {
					let i = c[idx(*k, c.len())];
					self.sends[i].usable = false;
					let s1 = wire(&self.sends[i].slate)?;
					match self.b().foreign().receive_tx(&s1, None, None) {
						Err(e) => json!({"pick": i, "b-side": err_kind(&e)}),
						Ok(s2) => {
							let s2 = wire(&s2)?;
							json!({"pick": i, "finalize": rj(o.finalize_tx(t, &s2), |s| Side::slate_json(&s))})
						}
					}
				}
			}
			DOp::PayInvoice { change } => {
				let args = InitTxArgs {
					amount: self.invoice.amount,
					minimum_confirmations: 1,
					max_outputs: 500,
					num_change_outputs: *change as u32,
					selection_strategy_is_use_all: false,
					..Default::default()
				};
				match o.process_invoice_tx(t, &self.invoice, args) {
					Err(e) => json!({ "err": err_kind(&e) }),
					Ok(s) => {
						let r = o.tx_lock_outputs(t, &s);
						json!({"slate": Side::slate_json(&s), "context": self.ctx_json(&s.id), "lock": rj(r, |_| Value::Null)})
					}
				}
			}
			DOp::Cancel { k } => {
				let parent = self.m().active_parent();
				let v = snap::view(self.m());
				let c: Vec<u32> = v
					.txs
					.iter()
					.filter(|x| x.parent_key_id == parent && !x.confirmed && (x.tx_type == TxLogEntryType::TxSent || x.tx_type == TxLogEntryType::TxReceived))
					.map(|x| x.id)
					.collect();
				if c.is_empty() {
					json!("noop")
				} else {
					let id = c[idx(*k, c.len())];
					json!([id, rj(o.cancel_tx(t, Some(id), None), |_| Value::Null)])
				}
			}
			DOp::Address { i } => rj(o.get_slatepack_address(t, *i as u32), |a| json!(a.to_string())),
			DOp::AddressSecret { i } => rj(o.get_slatepack_secret_key(t, *i as u32), |k| json!(k.as_bytes().to_vec().to_hex())),
			DOp::RewindHash => rj(o.get_rewind_hash(t), |h| json!(h)),
			DOp::Summary { refresh, min_conf } => rj(o.retrieve_summary_info(t, *refresh, *min_conf as u64), |(v, i)| json!([v, serde_json::to_value(&i).unwrap_or(Value::Null)])),
			DOp::Outputs { spent, refresh } => rj(o.retrieve_outputs(t, *spent, *refresh, None), |(v, l)| {
				json!([v, l.iter().map(|m| json!([m.commit.0.to_vec().to_hex(), output_json(&m.output)])).collect::<Vec<_>>()])
			}),
			DOp::Txs { refresh } => rj(o.retrieve_txs(t, *refresh, None, None, None), |(v, l)| json!([v, l.iter().map(tx_json).collect::<Vec<_>>()])),
			DOp::BuildOutput { amount } => rj(o.build_output(t, OutputFeatures::Plain, *amount as u64), |b| {
				json!({"key_id": b.key_id.to_hex(), "blind": b.blind.to_hex(), "commit": b.output.identifier.commit.0.to_vec().to_hex()})
			}),
		};
		Ok((v, sent))
	}
}

pub fn open_side(bases: &Bases, state: usize, dir: PathBuf, masked: bool) -> Result<Side, String> {
	let _ = std::fs::remove_dir_all(&dir);
	world::copy_tree(&bases.dirs[state], &dir).map_err(|e| e.to_string())?;
	let mp = dir.join("world.json");
	let mut meta: Value = serde_json::from_slice(&std::fs::read(&mp).map_err(|e| e.to_string())?).map_err(|e| e.to_string())?;
	meta["wallets"][M]["masked"] = json!(masked);
	std::fs::write(&mp, serde_json::to_vec(&meta).unwrap()).map_err(|e| e.to_string())?;
	let world = World::open(&dir)?;
	let art = &bases.arts[state];
	let side = Side {
		world,
		sends: vec![],
		invoice: art.invoice_from_b.clone(),
		b_addr: art.b_addr.clone(),
		dir,
	};
	if side.m().mask.is_some() != masked {
		return Err("side opened with the wrong masking mode".into());
	}
	let m = side.m();
	m.owner.set_active_account(m.m(), ACCOUNTS[art.active]).map_err(es("set_active_account"))?;
	match m.owner.retrieve_summary_info(m.m(), true, 1) {
		Ok((true, _)) => {}
		other => return Err(format!("side refresh failed: {:?}", other.map(|x| x.0).map_err(|e| e.to_string()))),
	}
	Ok(side)
}


pub struct Differential {
	scratch: PathBuf,
	bases: Rc<Bases>,
	n: u64,
	tier: Tier,
}

impl Differential {
	pub fn new(args: &Args, bases: Rc<Bases>) -> Differential {
		Differential {
			scratch: args.scratch.clone(),
			bases,
			n: 0,
			tier: args.tier,
		}
	}

	fn run_case(&mut self, c: &DiffCase, out: &mut Outcome) -> Result<(), String> {
		let state = c.state as usize % STATES.len();
		out.class(format!("state:{}", STATES[state]));
		let mut a = open_side(&self.bases, state, self.scratch.join(format!("c14.df.case{}.a", self.n)), true)?;
		let mut b = open_side(&self.bases, state, self.scratch.join(format!("c14.df.case{}.b", self.n)), false)?;
		let (pa, pb) = (project(a.m()), project(b.m()));
		if let Some(d) = first_diff(&pa, &pb, "") {
			return Err(format!("sides differ before the first op: {}", d));
		}
		let mut hist = vec![];
		let mut sends = 0;
		for op in &c.ops {
			let (ra, sa) = a.exec(op)?;
			let (rb, sb) = b.exec(op)?;
			hist.push(format!("{:?} -> {}", op, ra));
			let kind = if has_err(&ra) { "err" } else if ra == json!("noop") { "noop" } else { "done" };
			out.class(format!("op:{}:{}", op.name(), kind));
			if let Some(d) = first_diff(&ra, &rb, "") {
				out.fail(
					format!("c14:differential:{}:result-differs", op.name()),
					format!("{:?}: deterministic part of the result differs at {}\n--- history (masked side) ---\n{}", op, d, hist.join("\n")),
				);
				return Ok(());
			}
			let (pa, pb) = (project(a.m()), project(b.m()));
			if let Some(d) = first_diff(&pa, &pb, "") {
				out.fail(
					format!("c14:differential:{}:state-differs", op.name()),
					format!("after {:?} the stored states differ at {}\n--- history (masked side) ---\n{}", op, d, hist.join("\n")),
				);
				return Ok(());
			}
			if sa && sb {
				sends += 1;
			}
		}
		out.class(format!("locked-sends={}", std::cmp::min(sends, 4)));
		out.nontrivial = sends >= 1;
		Ok(())
	}
}

impl Prop for Differential {
	type Case = DiffCase;
	fn id(&self) -> &'static str {
		"C14"
	}
	fn part(&self) -> &'static str {
		"differential"
	}
	fn cases(&self, tier: Tier) -> u64 {
		tier.pick(64, 1600)
	}
	fn strategy(&self, tier: Tier) -> BoxedStrategy<DiffCase> {
		let n = tier.pick(12usize, 24usize);
		(0u8..STATES.len() as u8, prop::collection::vec(dop_strategy(), 4..n))
			.prop_map(|(state, ops)| DiffCase { state, ops })
			.boxed()
	}
	fn shrink_iters(&self) -> u32 {
		self.tier.pick(64, 160)
	}
	fn rule(&self) -> String {
		"two copies of one world directory (state as in part wrong-token): wallet m opened masked and driven with its token T vs. opened unmasked and driven with no token; same sequence of 4..12 (thorough 24) ops {create_account_path, set_active_account, init_send_tx(generated args; estimate / late-lock / proof / +tx_lock_outputs), issue_invoice_tx, foreign receive_tx of a send from b, deliver-to-b + finalize_tx, process_invoice_tx + lock, cancel_tx, get_slatepack_address(i), get_slatepack_secret_key(i), get_rewind_hash, retrieve_summary_info, retrieve_outputs, retrieve_txs, build_output} on a frozen chain; after every op: Ok/Err kind and every deterministic return value (amounts, fees, slate state, selected inputs and change key ids from the stored context, addresses, keys, rewind hash, balances, outputs with commitments, key id / blind / commitment of built outputs) equal, and projected stored state equal (outputs: root/key_id/n_child/commit/value/status/height/lock_height/tx_log_entry; log: type/amounts/fee/counts/confirmed/proof addresses; accounts; child indices; active account; number of stored tx files); slate ids, nonces, signatures, excesses, timestamps excluded; non-trivial = at least one init_send_tx + tx_lock_outputs succeeded on both sides".into()
	}
	fn assumptions(&self) -> Vec<String> {
		vec![
			"the unmasked reference is the same wallet directory (same seed file) opened with use_mask=false: two wallets from one phrase cannot be funded on one chain (identical coinbase commitments)".into(),
			"num_change_outputs in 1..=3, minimum_confirmations in 1..=2 (C01's domain restrictions)".into(),
		]
	}
	fn run(&mut self, c: &DiffCase) -> Outcome {
		let mut out = Outcome::default();
		self.n += 1;
		if let Err(e) = self.run_case(c, &mut out) {
			out.fail("c14:harness-error", e);
		}
		out
	}
}

// ---------------------------------------------------------------------------------------------
// part closed

#[derive(Clone, Debug, Serialize, Deserialize)]
pub enum CTok {
	Right,
	Wrong(Tok),
}

#[derive(Clone, Debug, Serialize, Deserialize)]
pub struct ClosedCase {
	pub state: u8,
	#[serde(default)]
	pub prefix: Vec<DOp>,
	pub tok: CTok,
	pub mask: Vec<bool>,
}

pub struct Closed {
	scratch: PathBuf,
	bases: Rc<Bases>,
	tab: Vec<Entry>,
	n: u64,
	tier: Tier,
}

impl Closed {
	pub fn new(args: &Args, bases: Rc<Bases>) -> Closed {
		Closed {
			scratch: args.scratch.clone(),
			bases,
			tab: table(),
			n: 0,
			tier: args.tier,
		}
	}

	fn run_case(&mut self, c: &ClosedCase, dir: PathBuf, out: &mut Outcome) -> Result<(), String> {
		let state = c.state as usize % STATES.len();
		let o = open_state(&self.bases, state, dir, &c.prefix)?;
		let art = &self.bases.arts[state];
		let wal = o.w(M);
		let t = wal.mask.clone().ok_or("m has no mask")?;
		let other = o.w(B).mask.clone().ok_or("b has no mask")?;
		out.class(format!("state:{}", STATES[state]));
		let addr0 = wal.owner.get_slatepack_address(Some(&t), 0).map_err(es("address"))?.to_string();
		let rewind0 = wal.owner.get_rewind_hash(Some(&t)).map_err(es("rewind hash"))?;
		let info0 = wal.owner.retrieve_summary_info(Some(&t), false, 1).map_err(es("info"))?.1;
		let snap0 = snap::deep(wal, &self.scratch)?;
		let acct0 = active_acct(wal);
		let label0 = active_label(wal)?;
		wal.owner.close_wallet(None).map_err(es("close_wallet"))?;
		let token = match &c.tok {
			CTok::Right => Some(t.clone()),
			CTok::Wrong(k) => match k.make(&t, &other) {
				Some(x) => x,
				None => {
					out.class("token:not-a-valid-key");
					return Ok(());
				}
			},
		};
		out.class(format!("token:{}", match &c.tok { CTok::Right => "right", CTok::Wrong(k) => k.kind() }));
		let mut evals = sweep("closed", "closed-call", &self.tab, &c.mask, wal, art, acct0, token.as_ref(), true, c.prefix.is_empty(), &self.scratch, out)?;
		out.nontrivial = evals > 0;
		if !out.fails.is_empty() {
			return Ok(());
		}
		// re-open with the password: new token
		let t2 = match wal.owner.open_wallet(None, ZeroingString::from(wal.password.as_str()), true) {
			Ok(Some(t2)) => t2,
			Ok(None) => {
				out.fail("c14:closed:reopen:no-token", "open_wallet(use_mask=true) returned no token");
				return Ok(());
			}
			Err(e) => {
				out.fail("c14:closed:reopen:failed", format!("open_wallet with the right password failed: {}", e));
				return Ok(());
			}
		};
		let o2 = &wal.owner;
		let mut check = |what: &str, r: Result<bool, Error>| match r {
			Ok(true) => {}
			Ok(false) => out.fail(format!("c14:closed:reopen:{}-differs", what), format!("{} with the new token differs from the value before close", what)),
			Err(e) => out.fail(format!("c14:closed:reopen:new-token-refused:{}", what), format!("{} with the new token: {}", what, e)),
		};
		check("set_active_account", o2.set_active_account(Some(&t2), &label0).map(|_| true));
		check("get_rewind_hash", o2.get_rewind_hash(Some(&t2)).map(|h| h == rewind0));
		check("get_slatepack_address", o2.get_slatepack_address(Some(&t2), 0).map(|a| a.to_string() == addr0));
		check(
			"retrieve_summary_info",
			o2.retrieve_summary_info(Some(&t2), true, 1)
				.map(|(v, i)| v && serde_json::to_value(&i).ok() == serde_json::to_value(&info0).ok()),
		);
		if !out.fails.is_empty() {
			return Ok(());
		}
		let snap1 = snap::deep(wal, &self.scratch)?;
		let d = snap::diff(&snap0, &snap1);
		if !d.is_empty() {
			out.fail("c14:closed:state-changed-over-close-reopen", d.join("; "));
			return Ok(());
		}
		if t2 != t {
			out.class("token:stale");
			evals += sweep("stale-token", "stale-call", &self.tab, &c.mask, wal, art, acct0, Some(&t), false, c.prefix.is_empty(), &self.scratch, out)?;
		}
		out.evals = Some(std::cmp::max(1, evals));
		Ok(())
	}
}

impl Prop for Closed {
	type Case = ClosedCase;
	fn id(&self) -> &'static str {
		"C14"
	}
	fn part(&self) -> &'static str {
		"closed"
	}
	fn cases(&self, tier: Tier) -> u64 {
		tier.pick(32, 640)
	}
	fn strategy(&self, tier: Tier) -> BoxedStrategy<ClosedCase> {
		let n = self.tab.len();
		(
			mask_strategy(n),
			0u8..STATES.len() as u8,
			prefix_strategy(tier),
			prop_oneof![2 => Just(CTok::Right), 3 => tok_strategy().prop_map(CTok::Wrong)],
		)
			.prop_map(|(mask, state, prefix, tok)| ClosedCase { state, prefix, tok, mask })
			.boxed()
	}
	fn shrink_iters(&self) -> u32 {
		self.tier.pick(64, 160)
	}
	fn rule(&self) -> String {
		"state as in part wrong-token; close_wallet; every table entry called with a generated token (the right one, absent, other wallet's, bit flip, random): Err (exempt: start_updater, which only spawns a thread, and the three pure slatepack codec variants that never touch the wallet) and raw stored state unchanged; then open_wallet(password, use_mask=true): set_active_account / get_rewind_hash / get_slatepack_address / retrieve_summary_info(refresh) succeed with the NEW token and equal the values before close, stored state equals the state before close; then the whole table with the OLD token as in part wrong-token (signatures c14:stale-token:*); non-trivial = at least one call on the closed wallet".into()
	}
	fn extra(&self) -> Value {
		json!({})
	}
	fn run(&mut self, c: &ClosedCase) -> Outcome {
		let mut out = Outcome::default();
		self.n += 1;
		let dir = self.scratch.join(format!("c14.cl.case{}", self.n));
		if let Err(e) = self.run_case(c, dir, &mut out) {
			out.fail("c14:harness-error", e);
		}
		out
	}
}

// ---------------------------------------------------------------------------------------------
// control: every table entry with the RIGHT token on a fresh copy (evidence that the arguments are live)

pub fn control(args: &Args, rep: &mut Report, states: &[usize], bases: &Bases) -> Result<(), String> {
	let tab = table();
	let mut res: BTreeMap<String, Vec<String>> = BTreeMap::new();
	let mut n = 0;
	for s in states {
		for (i, ent) in tab.iter().enumerate() {
			// spread over the shards
			if (i as u64) % args.nshards != args.shard {
				continue;
			}
			n += 1;
			let o = open_state(bases, *s, args.scratch.join(format!("c14.ctl.case{}", n)), &[])?;
			let wal = o.w(M);
			let ctx = Ctx {
				wal,
				art: &bases.arts[*s],
				acct: bases.arts[*s].active,
			};
			let r = guard(|| (ent.call)(&ctx, wal.m()));
			let k = match r {
				Ok(Ok(())) => "ok".to_string(),
				Ok(Err(e)) => err_kind(&e),
				Err(f) => f.sig,
			};
			*rep.classes.entry(format!("control:right-token:{}:{}:{}", STATES[*s], ent.name(), k)).or_insert(0) += 1;
			res.entry(ent.name()).or_default().push(format!("{}={}", STATES[*s], k));
		}
	}
	rep.extra.insert(format!("control.right-token.shard{}", args.shard), json!(res));
	Ok(())
}

pub fn run(args: &Args, rep: &mut Report) {
	let want = |p: &str| args.part.as_deref().map(|x| x == p).unwrap_or(true);
	// a masked wallet driven with its right token must be able to go through plain sends/receives; if it
	// cannot, nothing below can be judged: harness error (exit 3), reported on stderr
	let bases = match guard(|| build_bases(&args.scratch, "base")) {
		Ok(Ok(b)) => Rc::new(b),
		Ok(Err(e)) => {
			eprintln!("C14: cannot build the base worlds (masked wallets driven with their right token): {}", e);
			std::process::exit(3);
		}
		Err(f) => {
			eprintln!("C14: panic while building the base worlds: {}", f.detail);
			std::process::exit(3);
		}
	};
	let unc = uncovered(&table());
	rep.extra.insert("uncovered".into(), json!(unc));
	for u in &unc {
		*rep.classes.entry(format!("uncovered:{}", u)).or_insert(0) += 1;
	}
	if args.part.as_deref() == Some("control") || args.part.is_none() {
		let states: Vec<usize> = if args.tier == Tier::Thorough || args.part.is_some() { (0..STATES.len()).collect() } else { vec![1] };
		if let Err(e) = control(args, rep, &states, &bases) {
			rep.extra.insert("control.error".into(), json!(e));
		}
	}
	if want("wrong-token") {
		let mut p = WrongToken::new(args, bases.clone());
		run_part(&mut p, args, rep);
	}
	if want("differential") {
		let mut p = Differential::new(args, bases.clone());
		run_part(&mut p, args, rep);
	}
	if want("closed") {
		let mut p = Closed::new(args, bases.clone());
		run_part(&mut p, args, rep);
	}
}

pub fn replay(args: &Args, part: &str, case: &Value) -> Result<Outcome, String> {
	let bases = Rc::new(build_bases(&args.scratch, "base")?);
	match part {
		"wrong-token" => replay_part(&mut WrongToken::new(args, bases), case),
		"differential" => replay_part(&mut Differential::new(args, bases), case),
		"closed" => replay_part(&mut Closed::new(args, bases), case),
		_ => Err(format!("unknown part {}", part)),
	}
}

#[allow(dead_code)]
fn _unused(_: TxLogEntryType, _: ZeroingString) {}
