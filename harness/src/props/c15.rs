//! C15 — no key derivation path is ever used for two outputs.
//!
//! Histories of output-creating operations over 2 wallets x 2 accounts (receive, change outputs incl. late-locked,
//! coinbase fresh / re-requested naming the previous candidate / naming a non-candidate, invoices, build_output,
//! self-sends) interleaved with account switches, restarts, crashes at persistent-effect boundaries of those
//! operations (fault wrapper on the LIVE wallet directory, wallet reopened with the real lifecycle code, history
//! continues on it) and restores from seed (new directory from the same phrase + scan, optionally interrupted).
//!
//! Oracle: per wallet seed and directory lineage a map (full key path -> outputs seen), fed by every OutputData in
//! every snapshot after every op, every key id + commitment returned by build_coinbase / build_output, every output
//! in every slate / transaction the wallet returned (rewound with an independently derived keychain).

use crate::base::{self, BaseSpec};
use crate::fault::{self, FaultWallet, Mode, Ran};
use crate::node::DirectNode;
use crate::rt::*;
use crate::sim::*;
use crate::snap;
use crate::truth;
use crate::world;
use grin_core::core::{Output, OutputFeatures, TxKernel};
use grin_core::libtx::proof::{self, ProofBuilder};
use grin_keychain::{ExtKeychain, Identifier, Keychain, SwitchCommitmentType};
use grin_util::secp::key::SecretKey;
use grin_wallet_api::{Foreign, Owner};
use grin_wallet_libwallet::{
	BlockFees, BuiltOutput, CbData, InitTxArgs, IssueInvoiceTxArgs, OutputData, OutputStatus, Slate, WalletLCProvider,
};
use proptest::prelude::*;
use serde_derive::{Deserialize, Serialize};
use std::collections::{BTreeMap, BTreeSet};
use std::path::{Path, PathBuf};
use uuid::Uuid;

pub const SIG_REUSED: &str = "c15:path-reused";
/// the defect DESIGN.md §6 expects (shared with C07): a caller-named key of a NON-candidate record is re-used
pub const SIG_CB_NAMED: &str = "c15:coinbase-named-key:non-candidate-path-reused";
pub const SIG_RESTORE: &str = "c15:restore:next-path-not-beyond-chain";
pub const SIG_RESTORE_INTERRUPTED: &str = "c15:restore:next-path-not-beyond-chain:after-interrupted-scan";
pub const SIG_SHARED_COMMIT: &str = "c15:commitment-shared-by-two-paths";

// ---------------------------------------------------------------------------------------------
// case language

#[derive(Clone, Debug, Serialize, Deserialize, PartialEq)]
pub enum CbName {
	/// `key_id: None`
	Fresh,
	/// name the latest candidate this wallet handed out that was not mined and is still an Unconfirmed coinbase record
	Prev,
	/// name the key of an existing record that is NOT an unconfirmed coinbase candidate (index into those records)
	NonCandidate(u16),
	/// name a key the wallet holds no record for: an earlier unmined candidate whose record is gone (other directory of
	/// the same seed, cleaned up), or else the path 0..2 places ahead of the account's highest recorded index
	NoRecord(u16),
}

/// One output-creating API call on wallet `w` (with what has to happen before it on the live world).
#[derive(Clone, Debug, Serialize, Deserialize)]
pub enum Target {
	/// the other wallet initiates + locks a send to `w`; call = foreign receive_tx on `w`
	Receive { args: SendArgs },
	/// call = owner init_send_tx (allocates the change keys unless late-locked)
	InitSend { args: SendArgs, name_other: bool },
	/// `w` initiates a send (live); call = owner tx_lock_outputs (stores the change outputs)
	Lock { args: SendArgs, name_other: bool },
	/// `w` initiates a late-locked send, the other wallet receives it (live); call = owner finalize_tx
	FinalizeLate { args: SendArgs },
	/// call = owner issue_invoice_tx (creates the payee's output)
	IssueInvoice { amount: u16 },
	/// the other wallet issues an invoice (live); call = owner process_invoice_tx on `w` (allocates change keys)
	PayInvoice { amount: u16, args: SendArgs },
	/// call = foreign build_coinbase for height tip+1, fees = `fees` * 1_000_000
	Coinbase { name: CbName, fees: u8 },
	/// call = owner build_output
	BuildOutput { amount: u16 },
	/// call = owner scan from height 1
	Scan { delete_unconfirmed: bool },
}

#[derive(Clone, Debug, Serialize, Deserialize)]
pub enum COp {
	Do { w: u16, t: Target },
	/// same, but run through the fault wrapper on the live directory, crashing before/after the k-th persistent effect
	Crash { w: u16, t: Target, k: u16, after: bool },
	/// next legal protocol step of a live slate (lock -> deliver -> finalize -> post), or a new default send
	Step { s: u16 },
	/// to: 0 = nobody, k>0 = wallet k-1 (active account) through build_coinbase; `named` = the request names the
	/// wallet's previous unmined candidate, as a mining node does
	Mine { to: u16, take: u16, named: bool },
	Switch { w: u16, acct: u16 },
	Restart { w: u16 },
	Refresh { w: u16 },
	/// two payments to wallet w; the one received later (higher key index) is mined first (engine op OutOfOrderReceives)
	#[serde(alias = "OutOfOrder")]
	OutOfOrder { w: u16 },
	SelfSend { w: u16, other_acct: bool, args: SendArgs },
	Cancel { s: u16, by_sender: bool },
	/// abandon the wallet directory, create a new wallet from the same phrase, scan (explicitly or through the first
	/// refresh), optionally crash the scan at effect k and run it again, then hand out paths
	Restore { w: u16, accts_first: bool, via_refresh: bool, crash: Option<(u16, bool)>, probe: u8 },
}

#[derive(Clone, Debug, Serialize, Deserialize)]
pub struct Case {
	pub base: u8,
	pub ops: Vec<COp>,
}

/// Send arguments as the engine generates them, except that "use all outputs" (which reserves the whole account until
/// the transaction is mined) is taken less often, so that histories keep creating outputs.
fn args_strategy(allow_late: bool) -> BoxedStrategy<SendArgs> {
	(send_args_strategy(false, allow_late, false, false), prop::bool::weighted(0.2))
		.prop_map(|(mut a, ua)| {
			a.use_all = ua;
			a
		})
		.boxed()
}

fn target_strategy() -> BoxedStrategy<Target> {
	let a = || args_strategy(false);
	prop_oneof![
		5 => a().prop_map(|args| Target::Receive { args }),
		1 => (a(), prop::bool::weighted(0.4)).prop_map(|(args, name_other)| Target::InitSend { args, name_other }),
		3 => (a(), prop::bool::weighted(0.4)).prop_map(|(args, name_other)| Target::Lock { args, name_other }),
		2 => a().prop_map(|args| Target::FinalizeLate { args }),
		2 => any::<u16>().prop_map(|amount| Target::IssueInvoice { amount }),
		1 => (any::<u16>(), a()).prop_map(|(amount, args)| Target::PayInvoice { amount, args }),
		5 => (prop_oneof![3 => Just(CbName::Fresh), 4 => Just(CbName::Prev), 1 => any::<u16>().prop_map(CbName::NonCandidate), 2 => any::<u16>().prop_map(CbName::NoRecord)], 0u8..4)
			.prop_map(|(name, fees)| Target::Coinbase { name, fees }),
		3 => any::<u16>().prop_map(|amount| Target::BuildOutput { amount }),
		1 => any::<bool>().prop_map(|delete_unconfirmed| Target::Scan { delete_unconfirmed }),
	]
	.boxed()
}

fn op_strategy() -> BoxedStrategy<COp> {
	let a = || args_strategy(true);
	prop_oneof![
		10 => (any::<u16>(), target_strategy()).prop_map(|(w, t)| COp::Do { w, t }),
		6 => (any::<u16>(), target_strategy(), any::<u16>(), any::<bool>()).prop_map(|(w, t, k, after)| COp::Crash { w, t, k, after }),
		8 => any::<u16>().prop_map(|s| COp::Step { s }),
		6 => (0u16..3, prop_oneof![3 => Just(0xffffu16), 1 => any::<u16>()], any::<bool>()).prop_map(|(to, take, named)| COp::Mine { to, take, named }),
		3 => (any::<u16>(), any::<u16>()).prop_map(|(w, acct)| COp::Switch { w, acct }),
		3 => any::<u16>().prop_map(|w| COp::Restart { w }),
		2 => any::<u16>().prop_map(|w| COp::Refresh { w }),
		3 => any::<u16>().prop_map(|w| COp::OutOfOrder { w }),
		2 => (any::<u16>(), any::<bool>(), a()).prop_map(|(w, other_acct, args)| COp::SelfSend { w, other_acct, args }),
		1 => (any::<u16>(), any::<bool>()).prop_map(|(s, by_sender)| COp::Cancel { s, by_sender }),
		3 => (any::<u16>(), any::<bool>(), any::<bool>(), prop_oneof![2 => Just(None), 1 => (any::<u16>(), any::<bool>()).prop_map(Some)], 0u8..3)
			.prop_map(|(w, accts_first, via_refresh, crash, probe)| COp::Restore { w, accts_first, via_refresh, crash, probe }),
	]
	.boxed()
}

// ---------------------------------------------------------------------------------------------
// oracle state

#[derive(Clone, Debug, PartialEq)]
enum Origin {
	/// seen in a wallet snapshot without anything that identifies the creating call
	Unknown,
	/// found in the chain's unspent set by the ground-truth rewind
	Chain,
	/// created for this slate (from the returned slate, or an Unconfirmed record whose log entry names the slate)
	Slate(Uuid),
	/// returned by the n-th build_coinbase call
	Cb(u32),
	/// returned by the n-th build_output call
	Built(u32),
}

impl Origin {
	fn definite(&self) -> bool {
		matches!(self, Origin::Slate(_) | Origin::Cb(_) | Origin::Built(_))
	}
}

#[derive(Clone, Debug)]
struct Obs {
	commit: Vec<u8>,
	value: u64,
	origin: Origin,
	is_cb: Option<bool>,
	op: usize,
	how: String,
}

#[derive(Clone, Copy, Debug, PartialEq)]
enum RecMode {
	Normal,
	/// the stated exception applies to this path right now (named, still-Unconfirmed coinbase candidate)
	CbReplace,
	/// a failure for this observation has already been reported: just record
	Force,
}

struct RestoreInfo {
	/// account path -> highest child index among the seed's unspent outputs on chain when the restore ran
	chain_max: BTreeMap<Vec<u8>, u32>,
	/// accounts for which a new path has been handed out since
	first_seen: BTreeSet<Vec<u8>>,
	/// the restoring scan was interrupted by a crash and run again
	interrupted: bool,
}

#[derive(Default)]
struct Lineage {
	gen: u32,
	paths: BTreeMap<Vec<u8>, Vec<Obs>>,
	commits: BTreeMap<Vec<u8>, Vec<u8>>,
	/// every commitment an earlier directory of the same seed ever showed
	old_commits: BTreeSet<Vec<u8>>,
	restore: Option<RestoreInfo>,
	/// paths for which a crashed, named coinbase request may have replaced the candidate
	allow_cb_replace: BTreeSet<Vec<u8>>,
	/// paths on which the known defect (named non-candidate key re-used) fired: what follows on them is a consequence
	tainted: BTreeSet<Vec<u8>>,
}

struct NewObs<'a> {
	key_id: &'a Identifier,
	commit: Vec<u8>,
	value: u64,
	origin: Origin,
	is_cb: Option<bool>,
	/// this observation is a record / result of a creation by the CURRENT directory (not a restored chain output)
	created_here: bool,
	how: String,
}

struct Cand {
	w: usize,
	key_id: Identifier,
	commit: Vec<u8>,
	mined: bool,
}

struct St {
	lin: Vec<Lineage>,
	kcs: Vec<ExtKeychain>,
	cands: Vec<Cand>,
	cb_n: u32,
	built_n: u32,
	opi: usize,
	/// per wallet: 'C' a new path was handed out, 'R' restart or crash, 'X' restore
	events: Vec<Vec<char>>,
	skipped_old: u64,
	cnt_n: u64,
}

fn path_str(k: &Identifier) -> String {
	format!("{} ({})", k.to_bip_32_string(), grin_util::ToHex::to_hex(&k.to_bytes().to_vec()))
}

fn hex(v: &[u8]) -> String {
	grin_util::ToHex::to_hex(&v.to_vec())
}

impl St {
	/// Record one observation for wallet slot `w`; returns true when the path was not known before.
	fn record(&mut self, w: usize, o: NewObs, mode: RecMode, out: &mut Outcome) -> bool {
		let opi = self.opi;
		let l = &mut self.lin[w];
		let path = o.key_id.to_bytes().to_vec();
		let mode = if l.tainted.contains(&path) { RecMode::Force } else { mode };
		if let Some(p2) = l.commits.get(&o.commit) {
			if p2 != &path && mode != RecMode::Force {
				out.fail(
					SIG_SHARED_COMMIT,
					format!("wallet {}: commitment {} seen under key path {} and under {} ({})", w, hex(&o.commit), hex(p2), path_str(o.key_id), o.how),
				);
			}
		}
		let restored = l.restore.is_some();
		let interrupted = l.restore.as_ref().map(|r| r.interrupted).unwrap_or(false);
		let restore_sig = if interrupted { SIG_RESTORE_INTERRUPTED } else { SIG_RESTORE };
		let existing = l.paths.entry(path.clone()).or_insert_with(Vec::new);
		let obs = Obs {
			commit: o.commit.clone(),
			value: o.value,
			origin: o.origin.clone(),
			is_cb: o.is_cb,
			op: opi,
			how: o.how.clone(),
		};
		if existing.is_empty() {
			existing.push(obs);
			l.commits.insert(o.commit.clone(), path.clone());
			if o.origin != Origin::Chain && o.created_here {
				if let Some(r) = l.restore.as_mut() {
					let parent = o.key_id.parent_path().to_bytes().to_vec();
					if r.first_seen.insert(parent.clone()) {
						let n = o.key_id.to_path().last_path_index();
						if let Some(max) = r.chain_max.get(&parent) {
							if n <= *max && mode != RecMode::Force {
								out.fail(
									restore_sig,
									format!(
										"wallet {} (restored from seed): first path handed out in account {} after the restore is {} (child {}), not beyond the highest child {} of that account among the seed's unspent outputs on chain ({})",
										w,
										o.key_id.parent_path().to_bip_32_string(),
										path_str(o.key_id),
										n,
										max,
										o.how
									),
								);
							}
						}
					}
				}
			}
			return o.created_here && o.origin != Origin::Chain;
		}
		let all_chain = existing.iter().all(|e| e.origin == Origin::Chain);
		let describe = |e: &Obs| format!("commit {} value {} [{:?}, coinbase {:?}, first seen at op #{} {}]", hex(&e.commit), e.value, e.origin, e.is_cb, e.op, e.how);
		let same: Vec<usize> = (0..existing.len()).filter(|i| existing[*i].commit == o.commit).collect();
		match same.first().cloned() {
			Some(first) => {
				// the same (path, value): one output seen again, unless two different creating calls stand behind it
				let same_origin_known = o.origin.definite() && same.iter().any(|i| existing[*i].origin == o.origin);
				let other_origin = same.iter().map(|i| &existing[*i]).find(|e| e.origin.definite() && o.origin.definite() && e.origin != o.origin).cloned();
				let origin_conflict = other_origin.is_some() && !same_origin_known;
				let cb_other = same.iter().map(|i| &existing[*i]).find(|e| matches!((e.is_cb, o.is_cb), (Some(a), Some(b)) if a != b)).cloned();
				// a record freshly created by this directory under the path (and commitment) of an output that the chain held when the seed was restored
				let chain_other = if restored && o.created_here && o.origin != Origin::Chain && same.iter().all(|i| existing[*i].origin == Origin::Chain) { Some(existing[first].clone()) } else { None };
				let excepted = mode == RecMode::CbReplace && o.is_cb != Some(false) && same.iter().all(|i| existing[*i].is_cb != Some(false));
				let conflict = if origin_conflict { other_origin } else if cb_other.is_some() { cb_other } else { chain_other.clone() };
				if let (Some(e), false, true) = (conflict, excepted, mode != RecMode::Force) {
					out.fail(
						if chain_other.is_some() && !origin_conflict { restore_sig } else { SIG_REUSED },
						format!(
							"wallet {}: key path {} used for two different outputs with the same commitment: {} and now [{:?}, coinbase {:?}, op #{} {}]",
							w,
							path_str(o.key_id),
							describe(&e),
							o.origin,
							o.is_cb,
							opi,
							o.how
						),
					);
				}
				if o.origin.definite() && !same_origin_known && (origin_conflict || chain_other.is_some()) {
					// keep both creating calls on file
					existing.push(obs);
				} else {
					let slot = &mut existing[first];
					if slot.origin == Origin::Unknown && o.origin != Origin::Unknown {
						slot.origin = o.origin.clone();
					}
					if slot.is_cb.is_none() {
						slot.is_cb = o.is_cb;
					}
				}
				false
			}
			None => {
				let excepted = mode == RecMode::CbReplace && o.is_cb != Some(false) && existing.iter().all(|e| e.is_cb != Some(false));
				if !excepted && mode != RecMode::Force {
					let prev: Vec<String> = existing.iter().map(|e| describe(e)).collect();
					out.fail(
						if all_chain && restored { restore_sig } else { SIG_REUSED },
						format!(
							"wallet {}: key path {} already stands for {} and is now used for a different output: commit {} value {} [{:?}, coinbase {:?}, op #{} {}]",
							w,
							path_str(o.key_id),
							prev.join(" ; "),
							hex(&o.commit),
							o.value,
							o.origin,
							o.is_cb,
							opi,
							o.how
						),
					);
				}
				existing.push(obs);
				l.commits.insert(o.commit.clone(), path.clone());
				false
			}
		}
	}

	/// A call that must hand out an unused path (fresh coinbase, build_output, receive): anything known under it is a reuse.
	fn expect_fresh(&mut self, w: usize, key_id: &Identifier, how: &str, out: &mut Outcome) -> bool {
		let l = &self.lin[w];
		let path = key_id.to_bytes().to_vec();
		if l.tainted.contains(&path) {
			return true;
		}
		match l.paths.get(&path) {
			None => true,
			Some(ex) if ex.is_empty() => true,
			Some(ex) => {
				let all_chain = ex.iter().all(|e| e.origin == Origin::Chain);
				let interrupted = l.restore.as_ref().map(|r| r.interrupted).unwrap_or(false);
				let sig = if all_chain && l.restore.is_some() {
					if interrupted {
						SIG_RESTORE_INTERRUPTED
					} else {
						SIG_RESTORE
					}
				} else {
					SIG_REUSED
				};
				let prev: Vec<String> = ex.iter().map(|e| format!("commit {} value {} [{:?}, op #{} {}]", hex(&e.commit), e.value, e.origin, e.op, e.how)).collect();
				out.fail(
					sig,
					format!("wallet {}: {} handed out key path {} which already stands for {}", w, how, path_str(key_id), prev.join(" ; ")),
				);
				false
			}
		}
	}

	fn created(&mut self, w: usize) {
		self.events[w].push('C');
	}
}

/// Outputs among `outs` that belong to `kc`, learnt by rewinding the range proofs: (path, value, commitment, coinbase).
fn owned_outputs(outs: &[Output], kc: &ExtKeychain) -> Vec<(Identifier, u64, Vec<u8>, bool)> {
	let b = ProofBuilder::new(kc);
	outs.iter()
		.filter_map(|o| {
			let c = o.commitment();
			match proof::rewind(kc.secp(), &b, c, None, o.proof) {
				Ok(Some((v, id, _))) => Some((id, v, c.0.to_vec(), o.is_coinbase())),
				_ => None,
			}
		})
		.collect()
}

fn slate_outputs(s: &Slate) -> Vec<Output> {
	match &s.tx {
		Some(t) => t.outputs().to_vec(),
		None => vec![],
	}
}

// ---------------------------------------------------------------------------------------------
// calls, generic over the lifecycle provider (real wallet handle or fault wrapper)

#[derive(Clone)]
enum Call {
	Receive(Slate),
	InitSend(InitTxArgs),
	Lock(Slate),
	Finalize(Slate),
	IssueInvoice(u64),
	PayInvoice(Slate, InitTxArgs),
	Coinbase(BlockFees),
	BuildOutput(u64),
	Scan(bool),
	/// refresh from the node; a wallet created from a phrase performs its full scan here
	RefreshScan,
}

enum Ret {
	Slate(Slate),
	Cb(CbData),
	Built(BuiltOutput),
	Unit,
}

fn do_call<L>(owner: &Owner<L, DirectNode, ExtKeychain>, foreign: &Foreign<'static, L, DirectNode, ExtKeychain>, m: Option<&SecretKey>, c: &Call) -> Result<Ret, String>
where
	L: WalletLCProvider<'static, DirectNode, ExtKeychain> + 'static,
{
	let e = |e: grin_wallet_libwallet::Error| e.to_string();
	match c {
		Call::Receive(s) => foreign.receive_tx(s, None, None).map(Ret::Slate).map_err(e),
		Call::InitSend(a) => owner.init_send_tx(m, a.clone()).map(Ret::Slate).map_err(e),
		Call::Lock(s) => owner.tx_lock_outputs(m, s).map(|_| Ret::Unit).map_err(e),
		Call::Finalize(s) => owner.finalize_tx(m, s).map(Ret::Slate).map_err(e),
		Call::IssueInvoice(a) => owner
			.issue_invoice_tx(
				m,
				IssueInvoiceTxArgs {
					amount: *a,
					..Default::default()
				},
			)
			.map(Ret::Slate)
			.map_err(e),
		Call::PayInvoice(s, a) => owner.process_invoice_tx(m, s, a.clone()).map(Ret::Slate).map_err(e),
		Call::Coinbase(bf) => foreign.build_coinbase(bf).map(Ret::Cb).map_err(e),
		Call::BuildOutput(v) => owner.build_output(m, OutputFeatures::Plain, *v).map(Ret::Built).map_err(e),
		Call::Scan(d) => owner.scan(m, None, *d).map(|_| Ret::Unit).map_err(e),
		Call::RefreshScan => match owner.retrieve_summary_info(m, true, 1) {
			Ok((true, _)) => Ok(Ret::Unit),
			Ok((false, _)) => Err("node not reachable".into()),
			Err(x) => Err(x.to_string()),
		},
	}
}

/// What `prepare` hands to the call and to `integrate`.
struct Prep {
	call: Call,
	kind: &'static str,
	/// ledger index of the slate the call works on
	si: Option<usize>,
	/// coinbase: the key named in the request and whether its record (no mmr index) was an Unconfirmed coinbase candidate
	named: Option<Identifier>,
	pre_candidate: Option<bool>,
	/// send arguments used for a slate this call creates
	args: Option<SendArgs>,
	amount: u64,
	acct: usize,
}

pub struct C15 {
	scratch: PathBuf,
	bases: Vec<PathBuf>,
	/// why a funded base world could not be built (then an unfunded one is used: wallets and accounts only)
	base_fallback: Option<String>,
	n: u64,
	tier: Tier,
}

impl C15 {
	pub fn new(args: &Args) -> C15 {
		let mut bases = vec![];
		let mut base_fallback = None;
		for v in 0..3u64 {
			let d = args.scratch.join(format!("c15.base{}", v));
			match base::build(&d, &BaseSpec::standard(v)) {
				Ok(_) => bases.push(d),
				Err(e) => {
					// A wallet that re-uses key paths cannot even mine two blocks (the chain refuses the second,
					// identical, coinbase output). The histories then start from wallets without funds; their
					// coinbase / build_output / mining ops still run and are judged.
					base_fallback = Some(e);
					let spec = BaseSpec {
						mined: vec![],
						tail: 0,
						wallets: 2,
					};
					base::build(&d, &spec).expect("unfunded base world");
					bases.push(d);
				}
			}
		}
		C15 {
			scratch: args.scratch.clone(),
			bases,
			base_fallback,
			n: 0,
			tier: args.tier,
		}
	}
}

impl Prop for C15 {
	type Case = Case;
	fn id(&self) -> &'static str {
		"C15"
	}
	fn cases(&self, tier: Tier) -> u64 {
		tier.pick(208, 5000)
	}
	fn strategy(&self, tier: Tier) -> BoxedStrategy<Case> {
		let n = tier.pick(15usize, 21usize);
		(0u8..3, prop::collection::vec(op_strategy(), tier.pick(6usize, 8usize)..n))
			.prop_map(|(base, ops)| Case { base, ops })
			.boxed()
	}
	fn shrink_iters(&self) -> u32 {
		self.tier.pick(40, 80)
	}
	fn rule(&self) -> String {
		"histories of 6..14 (thorough 8..20) ops over 2 wallets x 2 accounts on a real chain: single output-creating API calls (receive_tx; init_send_tx and tx_lock_outputs with 0..4 change outputs, optionally naming the non-active source account; late-locked finalize_tx; issue_invoice_tx; process_invoice_tx; build_coinbase fresh / naming the previous unmined candidate / naming a non-candidate record; build_output; scan), the same calls run through the fault wrapper on the live wallet directory with a crash before/after a generated persistent effect followed by a reopen with the real lifecycle code, protocol steps, mining through build_coinbase (optionally re-requested naming the previous candidate), account switches, restarts, refresh, self-sends, cancel, and restores from seed (new directory, same phrase, explicit scan or first refresh, accounts re-created before or after, scan optionally crashed at a generated effect and run again) followed by further output creation. Oracle per wallet directory lineage: (full key id -> outputs seen) fed by every record of every snapshot after every op, every build_coinbase/build_output result, every output of every returned slate rewound with an independently derived keychain, and the chain's unspent set at the end; a path with two commitments, or one commitment with two different creating calls (slate ids / coinbase calls / build_output calls) or coinbase flags, is a violation unless both are coinbase candidates, the earlier record still Unconfirmed and the later request named that key; calls that must take a new path (fresh coinbase, build_output, receive) must return an unseen path; after a restore the first path handed out per account must lie beyond every child index of that account among the seed's unspent outputs on chain at restore time; no commitment under two paths. non-trivial = some wallet handed out paths both before and after a restart/crash of it, or handed out a path after a restore; distinct by case hash".into()
	}
	fn assumptions(&self) -> Vec<String> {
		vec![
			"a restore can only learn the paths of outputs that are unspent on chain when it runs: paths of spent or still pending outputs of the abandoned directory may be handed out again (inherent); each restored directory therefore starts a new map seeded with the chain's unspent outputs, and records of outputs created by the abandoned directory that surface later are ignored".into(),
			"a coinbase request names a previous candidate only while the harness (the only miner) has not mined it; naming a record that is not an Unconfirmed coinbase candidate is generated as its own class".into(),
			"sends use minimum_confirmations >= 1 (an Unconfirmed record is never selected as input, so its log entry identifies the creating slate)".into(),
			"crashes are modelled at persistent-effect boundaries (batch commit, key-index bump, stored-tx write) by unwinding, dropping the instance and reopening the directory; one process per wallet directory".into(),
			"node always reachable; no forks".into(),
		]
	}
	fn extra(&self) -> serde_json::Value {
		serde_json::json!({"funded_base_world_failed": self.base_fallback})
	}
	fn run(&mut self, c: &Case) -> Outcome {
		let mut out = Outcome::default();
		self.n += 1;
		if self.base_fallback.is_some() {
			out.class("base:unfunded-fallback");
		}
		let dir = self.scratch.join(format!("c15.case{}", self.n));
		let r = self.run_case(c, &dir, &mut out);
		let _ = std::fs::remove_dir_all(&dir);
		let _ = std::fs::remove_dir_all(self.scratch.join(format!("c15.cnt{}", self.n)));
		if let Err(e) = r {
			out.fail("c15:harness-error", e);
		}
		out
	}
}

fn label_for(sim: &Sim, w: usize, acct: usize) -> Option<String> {
	let parent = sim.acct_parent(acct);
	sim.w(w).with(|b| b.acct_path_iter().find(|m| m.path == parent).map(|m| m.label))
}

/// Switch wallet `w` to the account with the path of ACCOUNTS[acct], whatever its label (a restore names accounts
/// "account_N"); creates the account when the wallet has none at that path.
fn switch(sim: &mut Sim, w: usize, acct: usize) -> Result<(), String> {
	let label = match label_for(sim, w, acct) {
		Some(l) => l,
		None => {
			let p = sim
				.w(w)
				.owner
				.create_account_path(sim.w(w).m(), ACCOUNTS[acct])
				.map_err(|e| e.to_string())?;
			if p != sim.acct_parent(acct) {
				return Err(format!("new account got path {}", p.to_bip_32_string()));
			}
			ACCOUNTS[acct].to_string()
		}
	};
	sim.w(w).set_account(&label)?;
	sim.active[w] = acct;
	Ok(())
}

/// The engine's idea of the active account follows the wallet (the engine switches by the labels of the base world,
/// which a restored wallet may not have).
fn resync_active(sim: &mut Sim) {
	for w in 0..sim.world.wallets.len() {
		let p = sim.w(w).active_parent();
		if let Some(a) = (0..ACCOUNTS.len()).find(|a| sim.acct_parent(*a) == p) {
			sim.active[w] = a;
		}
	}
}

fn push_send_rec(sim: &mut Sim, w: usize, to: usize, acct: usize, sl: Slate, a: &SendArgs, amount: u64) -> usize {
	let cutoff = if sl.ttl_cutoff_height == 0 { None } else { Some(sl.ttl_cutoff_height) };
	sim.slates.push(SlateRec {
		id: sl.id,
		flow: Flow::Send,
		initiator: w,
		initiator_acct: acct,
		responder: to,
		responder_acct: None,
		stage: Stage::Init,
		s1: sl,
		s2: None,
		s3: None,
		late_lock: a.late_lock,
		locked: false,
		posted: false,
		mined_at: None,
		cancelled_by: BTreeSet::new(),
		amount_requested: amount,
		args: Some(a.clone()),
		proof: false,
		ttl_cutoff: cutoff,
		tx: None,
		rejected_by_chain: None,
		step_failures: 0,
	});
	sim.slates.len() - 1
}

fn push_invoice_rec(sim: &mut Sim, w: usize, payer: usize, acct: usize, sl: Slate, amount: u64) -> usize {
	sim.slates.push(SlateRec {
		id: sl.id,
		flow: Flow::Invoice,
		initiator: w,
		initiator_acct: acct,
		responder: payer,
		responder_acct: None,
		stage: Stage::Init,
		s1: sl,
		s2: None,
		s3: None,
		late_lock: false,
		locked: false,
		posted: false,
		mined_at: None,
		cancelled_by: BTreeSet::new(),
		amount_requested: amount,
		args: None,
		proof: false,
		ttl_cutoff: None,
		tx: None,
		rejected_by_chain: None,
		step_failures: 0,
	});
	sim.slates.len() - 1
}

fn is_candidate(o: &OutputData) -> bool {
	o.is_coinbase && o.status == OutputStatus::Unconfirmed
}

impl C15 {
	fn run_case(&mut self, c: &Case, dir: &PathBuf, out: &mut Outcome) -> Result<(), String> {
		let mut sim = base::open_copy(&self.bases[c.base as usize % self.bases.len()], dir)?;
		sim.strict = true;
		let nw = sim.world.wallets.len();
		let kcs: Vec<ExtKeychain> = (0..nw).map(|i| truth::keychain_from_phrase(&sim.w(i).phrase)).collect::<Result<_, _>>()?;
		let mut st = St {
			lin: (0..nw).map(|_| Lineage::default()).collect(),
			kcs,
			cands: vec![],
			cb_n: 0,
			built_n: 0,
			opi: 0,
			events: vec![vec![]; nw],
			skipped_old: 0,
			cnt_n: 0,
		};
		// what the base world holds is known before the history starts
		self.observe_all(&sim, &mut st, out, false);
		for e in st.events.iter_mut() {
			e.clear();
		}
		for (i, op) in c.ops.iter().enumerate() {
			st.opi = i + 1;
			let line = match self.apply(&mut sim, &mut st, op, out) {
				Ok(s) => s,
				Err(e) => return Err(format!("op #{} {:?}: {}\n--- history ---\n{}", i + 1, op, e, sim.history())),
			};
			if !line.is_empty() {
				sim.log.push(format!("#{} {:?} -> {}", i + 1, op, line));
			}
			resync_active(&mut sim);
			self.observe_contexts(&sim, &mut st, out);
			self.observe_all(&sim, &mut st, out, true);
			for l in st.lin.iter_mut() {
				l.allow_cb_replace.clear();
			}
			if out.fails.iter().any(|f| f.sig != SIG_CB_NAMED) {
				break;
			}
		}
		// the chain's view at the end: every unspent output of each seed stands under its real path
		st.opi = c.ops.len() + 1;
		if out.fails.is_empty() {
			for w in 0..nw {
				let owned = truth::owned_utxos(&sim.world.chain, &st.kcs[w])?;
				for o in owned {
					let cm = o.commit.0.to_vec();
					if st.lin[w].old_commits.contains(&cm) && !st.lin[w].commits.contains_key(&cm) {
						continue;
					}
					st.record(
						w,
						NewObs {
							key_id: &o.key_id,
							commit: cm,
							value: o.value,
							origin: Origin::Chain,
							is_cb: Some(o.is_coinbase),
							created_here: false,
							how: format!("unspent on chain at height {}", o.height),
						},
						RecMode::Normal,
						out,
					);
				}
			}
		}
		// classification
		let mut nontrivial = false;
		for w in 0..nw {
			let ev: String = st.events[w].iter().collect();
			let first_c = ev.find('C');
			let crash_between = match first_c {
				Some(i) => match ev[i..].find('R') {
					Some(j) => ev[i + j..].contains('C'),
					None => false,
				},
				None => false,
			};
			let restore_then_create = match ev.find('X') {
				Some(i) => ev[i..].contains('C'),
				None => false,
			};
			if crash_between {
				out.class("restart-or-crash-between-creations");
				nontrivial = true;
			}
			if restore_then_create {
				out.class("creation-after-restore");
				nontrivial = true;
			}
			let n_c = ev.matches('C').count();
			out.class(format!("new-paths-w{}={}", w, std::cmp::min(n_c, 12) / 3 * 3));
		}
		out.nontrivial = nontrivial;
		if st.skipped_old > 0 {
			out.class("old-directory-output-surfaced-after-restore");
		}
		if !out.fails.is_empty() {
			let hist = sim.history();
			for f in out.fails.iter_mut() {
				f.detail = format!("{}\n--- history ---\n{}", f.detail, hist);
			}
		}
		Ok(())
	}

	fn observe_all(&self, sim: &Sim, st: &mut St, out: &mut Outcome, count_events: bool) {
		for w in 0..sim.world.wallets.len() {
			let v = snap::view(sim.w(w));
			for o in &v.outputs {
				let commit = match commit_of(o) {
					Some(c) => c,
					None => match st.kcs[w].commit(o.value, &o.key_id, SwitchCommitmentType::Regular) {
						Ok(c) => c.0.to_vec(),
						Err(_) => continue,
					},
				};
				// an output of the abandoned directory that surfaced (mined after the restore, found by a later scan)
				if st.lin[w].old_commits.contains(&commit) && !st.lin[w].commits.contains_key(&commit) {
					st.skipped_old += 1;
					continue;
				}
				let fresh_record = o.status == OutputStatus::Unconfirmed && o.mmr_index.is_none();
				let origin = if fresh_record && !o.is_coinbase {
					o.tx_log_entry
						.and_then(|id| v.txs.iter().find(|t| t.id == id && t.parent_key_id == o.root_key_id))
						.and_then(|t| t.tx_slate_id)
						.map(Origin::Slate)
						.unwrap_or(Origin::Unknown)
				} else {
					Origin::Unknown
				};
				let path = o.key_id.to_bytes().to_vec();
				let mode = if st.lin[w].allow_cb_replace.contains(&path) && o.is_coinbase { RecMode::CbReplace } else { RecMode::Normal };
				let created_here = fresh_record || st.lin[w].restore.is_none();
				let is_new = st.record(
					w,
					NewObs {
						key_id: &o.key_id,
						commit,
						value: o.value,
						origin,
						is_cb: Some(o.is_coinbase),
						created_here,
						how: format!("record {} in account {}", snap::status_name(&o.status), o.root_key_id.to_bip_32_string()),
					},
					mode,
					out,
				);
				if is_new && count_events {
					st.created(w);
				}
			}
		}
	}

	/// The outputs a wallet has planned for its pending slates (stored transaction contexts, read through the public
	/// backend trait): change keys are allocated when the context is created, before any record exists.
	fn observe_contexts(&self, sim: &Sim, st: &mut St, out: &mut Outcome) {
		for si in 0..sim.slates.len() {
			let (id, a, b, done) = {
				let r = &sim.slates[si];
				(r.id, r.initiator, r.responder, r.stage == Stage::Finalized)
			};
			if done {
				continue;
			}
			let mut parties = vec![a];
			if b != a {
				parties.push(b);
			}
			for w in parties {
				let ctx = match sim.w(w).with(|bk| bk.get_private_context(sim.w(w).m(), id.as_bytes())) {
					Ok(c) => c,
					Err(_) => continue,
				};
				let ids = ctx.get_outputs();
				for (i, (kid, _mmr, v)) in ids.iter().enumerate() {
					if ids[..i].iter().any(|o| &o.0 == kid) {
						out.fail(
							SIG_REUSED,
							format!("wallet {}: the stored context of slate {} plans two outputs on the same key path {}", w, id, path_str(kid)),
						);
						continue;
					}
					let commit = match st.kcs[w].commit(*v, kid, SwitchCommitmentType::Regular) {
						Ok(c) => c.0.to_vec(),
						Err(_) => continue,
					};
					let is_new = st.record(
						w,
						NewObs {
							key_id: kid,
							commit,
							value: *v,
							origin: Origin::Slate(id),
							is_cb: Some(false),
							created_here: true,
							how: "output planned in the stored transaction context".into(),
						},
						RecMode::Normal,
						out,
					);
					if is_new {
						st.created(w);
					}
				}
			}
		}
	}

	/// Record the outputs of a returned slate that belong to wallet `w`.
	fn observe_slate(&self, st: &mut St, w: usize, s: &Slate, must_be_fresh: bool, how: &str, out: &mut Outcome) {
		let owned = owned_outputs(&slate_outputs(s), &st.kcs[w]);
		for (i, a) in owned.iter().enumerate() {
			if owned[..i].iter().any(|b| b.0 == a.0) {
				out.fail(
					SIG_REUSED,
					format!("wallet {}: {}: two outputs of one slate ({}) are built on the same key path {}", w, how, s.id, path_str(&a.0)),
				);
			}
		}
		for (id, v, cm, is_cb) in owned {
			let mut mode = RecMode::Normal;
			if must_be_fresh && !st.expect_fresh(w, &id, how, out) {
				mode = RecMode::Force;
			}
			let is_new = st.record(
				w,
				NewObs {
					key_id: &id,
					commit: cm,
					value: v,
					origin: Origin::Slate(s.id),
					is_cb: Some(is_cb),
					created_here: true,
					how: how.to_string(),
				},
				mode,
				out,
			);
			if is_new {
				st.created(w);
			}
		}
	}

	fn prepare(&self, sim: &mut Sim, st: &St, w: usize, t: &Target) -> Result<Prep, String> {
		let other = (w + 1) % sim.world.wallets.len();
		let acct = sim.active[w];
		let mut p = Prep {
			call: Call::Scan(false),
			kind: "",
			si: None,
			named: None,
			pre_candidate: None,
			args: None,
			amount: 0,
			acct,
		};
		match t {
			Target::Receive { args } => {
				let mut a = args.clone();
				a.late_lock = false;
				let si = sim.init_send(other, w, &a)?;
				sim.lock(si)?;
				p.call = Call::Receive(wire(&sim.slates[si].s1)?);
				p.si = Some(si);
				p.kind = "receive";
			}
			Target::InitSend { args, name_other } | Target::Lock { args, name_other } => {
				let mut a = args.clone();
				let is_lock = matches!(t, Target::Lock { .. });
				if is_lock {
					a.late_lock = false;
				}
				let mut amount = sim.pick_amount(w, &a);
				let mut ia = sim.init_args(w, &a, amount, None);
				let mut src = acct;
				if *name_other {
					src = (acct + 1) % ACCOUNTS.len();
					ia.src_acct_name = label_for(sim, w, src).or(Some(ACCOUNTS[src].to_string()));
					amount = 1_000_000_000 + (amount % 3) * 500_000_000;
					ia.amount = amount;
					ia.amount_includes_fee = None;
				}
				p.amount = amount;
				p.acct = src;
				p.args = Some(a.clone());
				if is_lock {
					let sl = sim.w(w).owner.init_send_tx(sim.w(w).m(), ia).map_err(|e| e.to_string())?;
					let si = push_send_rec(sim, w, other, src, sl.clone(), &a, amount);
					p.si = Some(si);
					p.call = Call::Lock(sl);
					p.kind = "lock";
				} else {
					p.call = Call::InitSend(ia);
					p.kind = "init-send";
				}
			}
			Target::FinalizeLate { args } => {
				let mut a = args.clone();
				a.late_lock = true;
				let si = sim.init_send(w, other, &a)?;
				sim.deliver(si)?;
				p.call = Call::Finalize(wire(sim.slates[si].s2.as_ref().ok_or("no S2")?)?);
				p.si = Some(si);
				p.kind = "finalize-late";
			}
			Target::IssueInvoice { amount } => {
				let sp = sim.spendable(other, 1);
				let amt = std::cmp::max(1, ((sp as u128 * *amount as u128) >> 17) as u64);
				p.amount = amt;
				p.call = Call::IssueInvoice(amt);
				p.kind = "issue-invoice";
			}
			Target::PayInvoice { amount, args } => {
				let sp = sim.spendable(w, args.min_conf as u64);
				let amt = std::cmp::max(1, ((sp as u128 * *amount as u128) >> 17) as u64);
				let si = sim.issue_invoice(other, w, amt)?;
				let mut ia = sim.init_args(w, args, amt, None);
				ia.amount_includes_fee = None;
				ia.late_lock = Some(false);
				p.call = Call::PayInvoice(wire(&sim.slates[si].s1)?, ia);
				p.si = Some(si);
				p.args = Some(args.clone());
				p.kind = "pay-invoice";
			}
			Target::Coinbase { name, fees } => {
				let v = snap::view(sim.w(w));
				let named: Option<Identifier> = match name {
					CbName::Fresh => None,
					CbName::Prev => prev_candidate(st, &v, w),
					CbName::NonCandidate(i) => {
						let c: Vec<&OutputData> = v.outputs.iter().filter(|o| o.mmr_index.is_none() && !is_candidate(o)).collect();
						if c.is_empty() {
							None
						} else {
							Some(c[idx(*i, c.len())].key_id.clone())
						}
					}
					CbName::NoRecord(i) => {
						let parent = sim.w(w).active_parent();
						let gone: Vec<Identifier> = st
							.cands
							.iter()
							.filter(|c| c.w == w && !c.mined && c.key_id.parent_path() == parent)
							.filter(|c| !v.outputs.iter().any(|o| o.key_id == c.key_id))
							.map(|c| c.key_id.clone())
							.collect();
						if !gone.is_empty() && i % 2 == 0 {
							Some(gone[idx(*i / 2, gone.len())].clone())
						} else {
							let top = v.outputs.iter().filter(|o| o.root_key_id == parent).map(|o| o.n_child).max().unwrap_or(0);
							let mut path = parent.to_path();
							path.depth = 3;
							path.path[2] = grin_keychain::ChildNumber::from(top + 1 + (*i as u32 / 2) % 3);
							Some(path.to_identifier())
						}
					}
				};
				p.pre_candidate = named.as_ref().map(|k| v.outputs.iter().any(|o| &o.key_id == k && o.mmr_index.is_none() && is_candidate(o)));
				p.named = named.clone();
				p.call = Call::Coinbase(BlockFees {
					fees: *fees as u64 * 1_000_000,
					height: sim.world.height() + 1,
					key_id: named,
				});
				p.kind = match name {
					CbName::Fresh => "coinbase-fresh",
					CbName::Prev => "coinbase-named-candidate",
					CbName::NonCandidate(_) => "coinbase-named-non-candidate",
					CbName::NoRecord(_) => "coinbase-named-no-record",
				};
				if p.named.is_none() {
					p.kind = "coinbase-fresh";
				}
			}
			Target::BuildOutput { amount } => {
				p.call = Call::BuildOutput(1 + *amount as u64 * 1_000_003);
				p.kind = "build-output";
			}
			Target::Scan { delete_unconfirmed } => {
				p.call = Call::Scan(*delete_unconfirmed);
				p.kind = "scan";
			}
		}
		Ok(p)
	}

	/// Judge and record a build_coinbase result.
	fn judge_coinbase(&self, st: &mut St, w: usize, named: &Option<Identifier>, pre_candidate: Option<bool>, cb: &CbData, out: &mut Outcome) -> Result<usize, String> {
		st.cb_n += 1;
		let n = st.cb_n;
		let rew = owned_outputs(&[cb.output.clone()], &st.kcs[w]);
		let (kid, value, commit) = match rew.first() {
			Some((id, v, c, _)) => (id.clone(), *v, c.clone()),
			None => (cb.key_id.clone().ok_or("build_coinbase returned no key id and its output does not rewind")?, 0, cb.output.commitment().0.to_vec()),
		};
		let path = kid.to_bytes().to_vec();
		let known = st.lin[w].paths.get(&path).map(|v| !v.is_empty()).unwrap_or(false);
		let how = match named {
			Some(k) => format!("build_coinbase call {} naming {}", n, k.to_bip_32_string()),
			None => format!("build_coinbase call {} (no key named)", n),
		};
		let mode = if !known {
			RecMode::Normal
		} else if named.as_ref() == Some(&kid) {
			if pre_candidate == Some(true) {
				RecMode::CbReplace
			} else {
				let prev: Vec<String> = st.lin[w].paths[&path].iter().map(|e| format!("commit {} value {} [{:?}, coinbase {:?}, op #{} {}]", hex(&e.commit), e.value, e.origin, e.is_cb, e.op, e.how)).collect();
				out.fail(
					SIG_CB_NAMED,
					format!(
						"wallet {}: {} re-used that key path {} for a new coinbase output (commit {} value {}) although its record is not an Unconfirmed coinbase candidate; the path already stands for {}",
						w,
						how,
						path_str(&kid),
						hex(&commit),
						value,
						prev.join(" ; ")
					),
				);
				st.lin[w].tainted.insert(path.clone());
				RecMode::Force
			}
		} else {
			st.expect_fresh(w, &kid, &how, out);
			RecMode::Force
		};
		let is_new = st.record(
			w,
			NewObs {
				key_id: &kid,
				commit: commit.clone(),
				value,
				origin: Origin::Cb(n),
				is_cb: Some(true),
				created_here: true,
				how,
			},
			mode,
			out,
		);
		if is_new {
			st.created(w);
		}
		st.cands.push(Cand {
			w,
			key_id: kid,
			commit,
			mined: false,
		});
		Ok(st.cands.len() - 1)
	}

	fn integrate(&self, sim: &mut Sim, st: &mut St, w: usize, p: &Prep, ret: Ret, out: &mut Outcome) -> Result<(), String> {
		let other = (w + 1) % sim.world.wallets.len();
		match (&p.call, ret) {
			(Call::Receive(_), Ret::Slate(s2)) => {
				self.observe_slate(st, w, &s2, true, "output in the slate returned by receive_tx", out);
				let si = p.si.unwrap();
				let s = &mut sim.slates[si];
				s.s2 = Some(s2);
				s.responder_acct = Some(p.acct);
				if s.stage < Stage::Replied {
					s.stage = Stage::Replied;
				}
			}
			(Call::InitSend(_), Ret::Slate(s1)) => {
				self.observe_slate(st, w, &s1, false, "output in the slate returned by init_send_tx", out);
				push_send_rec(sim, w, other, p.acct, s1, p.args.as_ref().unwrap(), p.amount);
			}
			(Call::Lock(_), Ret::Unit) => {
				sim.slates[p.si.unwrap()].locked = true;
			}
			(Call::Finalize(_), Ret::Slate(s3)) => {
				self.observe_slate(st, w, &s3, false, "output in the transaction returned by finalize_tx", out);
				let s = &mut sim.slates[p.si.unwrap()];
				s.locked = true;
				s.tx = s3.tx.clone();
				s.s3 = Some(s3);
				s.stage = Stage::Finalized;
			}
			(Call::IssueInvoice(_), Ret::Slate(i1)) => {
				self.observe_slate(st, w, &i1, true, "output in the slate returned by issue_invoice_tx", out);
				push_invoice_rec(sim, w, other, p.acct, i1, p.amount);
			}
			(Call::PayInvoice(_, _), Ret::Slate(i2)) => {
				self.observe_slate(st, w, &i2, false, "output in the slate returned by process_invoice_tx", out);
				let si = p.si.unwrap();
				{
					let s = &mut sim.slates[si];
					s.s2 = Some(i2);
					s.responder_acct = Some(p.acct);
					s.args = p.args.clone();
					if s.stage < Stage::Replied {
						s.stage = Stage::Replied;
					}
				}
				let _ = sim.lock(si);
			}
			(Call::Coinbase(_), Ret::Cb(cb)) => {
				self.judge_coinbase(st, w, &p.named, p.pre_candidate, &cb, out)?;
			}
			(Call::BuildOutput(v), Ret::Built(b)) => {
				st.built_n += 1;
				let n = st.built_n;
				let how = format!("build_output call {}", n);
				let rew = owned_outputs(&[b.output.clone()], &st.kcs[w]);
				let kid = rew.first().map(|r| r.0.clone()).unwrap_or(b.key_id.clone());
				let mode = if st.expect_fresh(w, &kid, &how, out) { RecMode::Normal } else { RecMode::Force };
				let is_new = st.record(
					w,
					NewObs {
						key_id: &kid,
						commit: b.output.commitment().0.to_vec(),
						value: *v,
						origin: Origin::Built(n),
						is_cb: Some(false),
						created_here: true,
						how,
					},
					mode,
					out,
				);
				if is_new {
					st.created(w);
				}
			}
			_ => {}
		}
		Ok(())
	}

	/// Run `call` on wallet `w` through the fault wrapper on its LIVE directory, crashing at effect idx(k, N) where N is
	/// counted beforehand on a copy. The wallet is reopened with the real lifecycle code in every case.
	/// Ok(None) = the unfaulted call does not succeed (nothing was run on the live directory).
	fn faulted(&self, sim: &mut Sim, st: &mut St, w: usize, call: &Call, k: u16, after: bool, out: &mut Outcome) -> Result<Option<(Ran<Result<Ret, String>>, String)>, String> {
		let node = sim.world.node.clone();
		let kc = st.kcs[w].clone();
		let d = sim.world.detach_wallet(w);
		st.cnt_n += 1;
		let cnt_root = self.scratch.join(format!("c15.cnt{}", self.n));
		let _ = std::fs::remove_dir_all(&cnt_root);
		let counted: Result<Result<Vec<String>, String>, Fail> = (|| {
			world::copy_tree(&d.dir, &cnt_root.join(&d.name)).map_err(|e| Fail::new("c15:harness-error", e.to_string()))?;
			let fw = FaultWallet::open(&cnt_root.join(&d.name), node.clone(), kc.clone(), d.active.clone()).map_err(|e| Fail::new("c15:harness-error", e))?;
			fw.ctl.count_only();
			let r = fault::run_faulty(|| do_call(&fw.owner, &fw.foreign(), None, call));
			let eff = fw.ctl.effects();
			drop(fw);
			match r {
				Ran::Done(Ok(_)) => Ok(Ok(eff)),
				Ran::Done(Err(e)) => Ok(Err(e)),
				Ran::Crashed(_) => Err(Fail::new("c15:harness-error", "crash without a plan")),
				Ran::Panicked(f) => Err(f),
			}
		})();
		let _ = std::fs::remove_dir_all(&cnt_root);
		let effects = match counted {
			Ok(Ok(e)) => e,
			Ok(Err(e)) => {
				sim.world.attach_wallet(&d)?;
				crate::rt::dbg(&format!("c15 unfaulted call fails: {}", e));
				return Ok(None);
			}
			Err(f) => {
				sim.world.attach_wallet(&d)?;
				if f.sig == "c15:harness-error" {
					return Err(f.detail);
				}
				out.fails.push(f);
				return Ok(None);
			}
		};
		let res = {
			let fw = FaultWallet::open(&d.dir, node.clone(), kc, d.active.clone())?;
			let tag;
			if effects.is_empty() {
				fw.ctl.count_only();
				tag = "no persistent effect".to_string();
			} else {
				let kk = idx(k, effects.len());
				fw.ctl.arm(kk, if after { Mode::CrashAfter } else { Mode::CrashBefore });
				tag = format!("crash {} effect {}/{} ({})", if after { "after" } else { "before" }, kk, effects.len(), effects[kk]);
			}
			let r = fault::run_faulty(|| do_call(&fw.owner, &fw.foreign(), None, call));
			drop(fw);
			(r, tag)
		};
		if let Err(e) = guard(|| sim.world.attach_wallet(&d)) .unwrap_or_else(|f| Err(f.detail)) {
			out.fail("c15:cannot-reopen-after-crash", format!("wallet {} does not open after {}: {}", w, res.1, e));
			return Err(format!("wallet {} lost after {}", w, res.1));
		}
		st.events[w].push('R');
		Ok(Some(res))
	}

	fn apply(&mut self, sim: &mut Sim, st: &mut St, op: &COp, out: &mut Outcome) -> Result<String, String> {
		let nw = sim.world.wallets.len();
		match op {
			COp::Do { w, t } => {
				let w = idx(*w, nw);
				let p = match self.prepare(sim, st, w, t) {
					Ok(p) => p,
					Err(e) => {
						out.class("do:not-prepared");
						crate::rt::dbg(&format!("c15 do not prepared: {}", e));
						return Ok(format!("not prepared: {}", e));
					}
				};
				let r = do_call(&sim.w(w).owner, &sim.w(w).foreign(), sim.w(w).m(), &p.call);
				out.class(format!("do:{}:{}", p.kind, if r.is_ok() { "ok" } else { "err" }));
				if let (true, Target::InitSend { name_other: true, .. } | Target::Lock { name_other: true, .. }) = (r.is_ok(), t) {
					// change keys are derived in the ACTIVE account although the source account is the other one
					out.class("do:source-account-named-is-not-the-active-one:ok");
				}
				match r {
					Ok(ret) => {
						self.integrate(sim, st, w, &p, ret, out)?;
						Ok(format!("{} ok", p.kind))
					}
					Err(e) => Ok(format!("{} ERR {}", p.kind, e)),
				}
			}
			COp::Crash { w, t, k, after } => {
				let w = idx(*w, nw);
				// naming a non-candidate is shown without a crash; under a crash it would only blur the two findings
				let t = match t {
					Target::Coinbase { name: CbName::NonCandidate(_), fees } => Target::Coinbase { name: CbName::Prev, fees: *fees },
					other => other.clone(),
				};
				let p = match self.prepare(sim, st, w, &t) {
					Ok(p) => p,
					Err(e) => {
						out.class("crash:not-prepared");
						crate::rt::dbg(&format!("c15 crash not prepared: {}", e));
						return Ok(format!("not prepared: {}", e));
					}
				};
				match self.faulted(sim, st, w, &p.call, *k, *after, out)? {
					None => {
						out.class(format!("crash:{}:unfaulted-err", p.kind));
						Ok(format!("{}: the call does not succeed without a fault, not run", p.kind))
					}
					Some((Ran::Done(Ok(ret)), tag)) => {
						out.class(format!("crash:{}:completed", p.kind));
						self.integrate(sim, st, w, &p, ret, out)?;
						Ok(format!("{} completed ({})", p.kind, tag))
					}
					Some((Ran::Done(Err(e)), tag)) => {
						out.class(format!("crash:{}:err", p.kind));
						Ok(format!("{} ERR {} ({})", p.kind, e, tag))
					}
					Some((Ran::Crashed(_), tag)) => {
						out.class(format!("crash:{}:crashed", p.kind));
						if let (Some(k), Some(true)) = (&p.named, p.pre_candidate) {
							st.lin[w].allow_cb_replace.insert(k.to_bytes().to_vec());
						}
						Ok(format!("{} CRASHED: {}; wallet reopened", p.kind, tag))
					}
					Some((Ran::Panicked(f), tag)) => {
						out.fails.push(Fail::new(f.sig, format!("{} ({} under {})", f.detail, p.kind, tag)));
						Ok(format!("{} PANICKED ({})", p.kind, tag))
					}
				}
			}
			COp::Step { s } => {
				if !sim.slates.iter().any(|r| !r.is_cancelled() && !r.posted) {
					// nothing in flight: a plain payment to the wallet chosen by `s`
					out.class("step:nothing-in-flight");
					let t = Target::Receive {
						args: SendArgs {
							use_all: false,
							amount: AmountPick::Frac(s.wrapping_mul(31)),
							..SendArgs::default()
						},
					};
					return self.apply(sim, st, &COp::Do { w: *s, t }, out);
				}
				let r = sim.apply(&Op::Step { s: *s });
				out.class(format!("step:{}:{}", r.kind, if r.ok() { "ok" } else { "err" }));
				if r.ok() {
					if let (Some(si), Some(w)) = (r.slate, r.wallet) {
						match r.kind.as_str() {
							"deliver" => {
								if let Some(s2) = sim.slates[si].s2.clone() {
									self.observe_slate(st, w, &s2, true, "output in the slate returned by receive_tx", out);
								}
							}
							"finalize" | "finalize-invoice" => {
								if let Some(s3) = sim.slates[si].s3.clone() {
									self.observe_slate(st, w, &s3, false, "output in the finalized transaction", out);
								}
							}
							"pay-invoice" => {
								if let Some(i2) = sim.slates[si].s2.clone() {
									self.observe_slate(st, w, &i2, false, "output in the slate returned by process_invoice_tx", out);
								}
							}
							_ => {}
						}
					}
				}
				Ok(String::new())
			}
			COp::Mine { to, take, named } => {
				if *to == 0 {
					let r = sim.mine(None, *take);
					out.class(format!("mine:nobody:{}", if r.is_ok() { "ok" } else { "err" }));
					return Ok(format!("{:?}", r));
				}
				let w = idx(to.wrapping_sub(1), nw);
				let chosen = sim.select_mempool(*take);
				let fees: u64 = chosen.iter().map(|t| t.fee()).sum();
				let mut v = snap::view(sim.w(w));
				let mut name = if *named { prev_candidate(st, &v, w) } else { None };
				if *named && name.is_none() {
					// a mining node asks once when it starts on the block (nothing to collect yet) and again, naming
					// the key it was given, when the block's transactions changed
					let bf0 = BlockFees {
						fees: 0,
						height: sim.world.height() + 1,
						key_id: None,
					};
					if let Ok(cb0) = sim.w(w).foreign().build_coinbase(&bf0) {
						self.judge_coinbase(st, w, &None, None, &cb0, out)?;
						v = snap::view(sim.w(w));
						name = prev_candidate(st, &v, w);
					}
				}
				let pre_candidate = name.as_ref().map(|k| v.outputs.iter().any(|o| &o.key_id == k && o.mmr_index.is_none() && is_candidate(o)));
				let bf = BlockFees {
					fees,
					height: sim.world.height() + 1,
					key_id: name.clone(),
				};
				let cb = match sim.w(w).foreign().build_coinbase(&bf) {
					Ok(cb) => cb,
					Err(e) => {
						sim.world.node.with(|s| s.mempool.extend(chosen));
						out.class("mine:coinbase-err");
						return Ok(format!("build_coinbase ERR {}", e));
					}
				};
				let ci = self.judge_coinbase(st, w, &name, pre_candidate, &cb, out)?;
				let rew: (Output, TxKernel) = (cb.output.clone(), cb.kernel.clone());
				let n_tx = chosen.len();
				match sim.mine_with_reward(chosen, rew) {
					Ok(h) => {
						let cm = st.cands[ci].commit.clone();
						for c in st.cands.iter_mut().filter(|c| c.w == w && c.commit == cm) {
							c.mined = true;
						}
						out.class(if name.is_some() { "mine:named-candidate:ok" } else { "mine:fresh:ok" });
						Ok(format!("block {} to wallet {} with {} txs, coinbase key {}{}", h, w, n_tx, st.cands[ci].key_id.to_bip_32_string(), if name.is_some() { " (re-requested naming the previous candidate)" } else { "" }))
					}
					Err(e) => {
						out.class("mine:block-err");
						Ok(format!("block ERR {}", e))
					}
				}
			}
			COp::Switch { w, acct } => {
				let w = idx(*w, nw);
				let a = idx(*acct, ACCOUNTS.len());
				let r = switch(sim, w, a);
				out.class("switch");
				Ok(format!("{:?}", r))
			}
			COp::Restart { w } => {
				let w = idx(*w, nw);
				sim.restart(w)?;
				st.events[w].push('R');
				out.class("restart");
				Ok("ok".into())
			}
			COp::Refresh { w } => {
				let w = idx(*w, nw);
				let r = sim.refresh(w);
				out.class("refresh");
				Ok(format!("{:?}", r))
			}
			COp::OutOfOrder { w } => {
				let w = idx(*w, nw);
				let r = sim.out_of_order_receives(w);
				out.class(format!("out-of-order:{}", if r.is_ok() { "ok" } else { "err" }));
				Ok(format!("{:?}", r))
			}
			COp::SelfSend { w, other_acct, args } => {
				let w = idx(*w, nw);
				// the destination account must exist under its usual label for the engine's self-send
				let r = sim.self_send(w, *other_acct, args);
				out.class(format!("self-send:{}", if r.is_ok() { "ok" } else { "err" }));
				// make sure the engine's idea of the active account is the wallet's
				let a = sim.active[w];
				let _ = switch(sim, w, a);
				match r {
					Ok(si) => {
						if let Some(s2) = sim.slates[si].s2.clone() {
							self.observe_slate(st, w, &s2, true, "output in the slate returned by receive_tx (self-send)", out);
						}
						if let Some(s3) = sim.slates[si].s3.clone() {
							self.observe_slate(st, w, &s3, false, "output in the finalized transaction (self-send)", out);
						}
						Ok("ok".into())
					}
					Err(e) => Ok(format!("ERR {}", e)),
				}
			}
			COp::Cancel { s, by_sender } => {
				let r = sim.apply(&Op::Cancel {
					s: *s,
					by_sender: *by_sender,
					by_slate_id: true,
				});
				out.class(format!("cancel:{}", if r.ok() { "ok" } else if r.effective { "err" } else { "noop" }));
				Ok(String::new())
			}
			COp::Restore { w, accts_first, via_refresh, crash, probe } => {
				let w = idx(*w, nw);
				self.restore(sim, st, w, *accts_first, *via_refresh, crash.clone(), *probe, out)
			}
		}
	}

	fn restore(&mut self, sim: &mut Sim, st: &mut St, w: usize, accts_first: bool, via_refresh: bool, crash: Option<(u16, bool)>, probe: u8, out: &mut Outcome) -> Result<String, String> {
		let node = sim.world.node.clone();
		let d = sim.world.detach_wallet(w);
		let gen = st.lin[w].gen + 1;
		let bak = sim.world.dir.join(format!("{}.abandoned{}", d.name, gen));
		std::fs::rename(&d.dir, &bak).map_err(|e| format!("rename wallet dir: {}", e))?;
		let wal = world::create_wallet(&sim.world.dir, &d.name, node, Some(&d.phrase), &d.password, d.masked)?;
		sim.world.wallets.insert(w, wal);
		sim.active[w] = 0;
		// whatever the abandoned directory had in flight is lost to this wallet
		for s in sim.slates.iter_mut() {
			if (s.initiator == w || s.responder == w) && s.stage < Stage::Finalized {
				s.cancelled_by.insert(w);
			}
		}
		// the chain's truth for this seed, now
		let owned = truth::owned_utxos(&sim.world.chain, &st.kcs[w])?;
		let mut nl = Lineage::default();
		nl.gen = gen;
		nl.old_commits = st.lin[w].old_commits.clone();
		for c in st.lin[w].commits.keys() {
			nl.old_commits.insert(c.clone());
		}
		let mut chain_max: BTreeMap<Vec<u8>, u32> = BTreeMap::new();
		for o in &owned {
			let parent = o.key_id.parent_path().to_bytes().to_vec();
			let n = o.n_child();
			let e = chain_max.entry(parent).or_insert(n);
			if n > *e {
				*e = n;
			}
		}
		nl.restore = Some(RestoreInfo {
			chain_max,
			first_seen: BTreeSet::new(),
			interrupted: false,
		});
		st.lin[w] = nl;
		for o in &owned {
			st.record(
				w,
				NewObs {
					key_id: &o.key_id,
					commit: o.commit.0.to_vec(),
					value: o.value,
					origin: Origin::Chain,
					is_cb: Some(o.is_coinbase),
					created_here: false,
					how: format!("unspent on chain at height {} when the seed was restored", o.height),
				},
				// the chain as it stands is the baseline of the new directory, whatever earlier directories left on it
				// (a pending output of an abandoned directory and an output of its successor may share a path: inherent)
				RecMode::Force,
				out,
			);
		}
		st.events[w].push('X');
		if accts_first {
			for a in 1..ACCOUNTS.len() {
				sim.w(w).owner.create_account_path(sim.w(w).m(), ACCOUNTS[a]).map_err(|e| e.to_string())?;
			}
		}
		let call = if via_refresh { Call::RefreshScan } else { Call::Scan(false) };
		let mut note = String::new();
		if let Some((k, after)) = crash {
			match self.faulted(sim, st, w, &call, k, after, out)? {
				Some((Ran::Crashed(_), tag)) => {
					st.lin[w].restore.as_mut().unwrap().interrupted = true;
					out.class("restore:scan-crashed-and-rerun");
					note = format!("scan CRASHED: {}; wallet reopened; ", tag);
				}
				Some((Ran::Panicked(f), tag)) => {
					out.fails.push(Fail::new(f.sig, format!("{} (restoring scan under {})", f.detail, tag)));
				}
				Some((Ran::Done(Err(e)), _)) => return Err(format!("restoring scan failed: {}", e)),
				Some((Ran::Done(Ok(_)), _)) => {}
				None => return Err("restoring scan fails without a fault".into()),
			}
		}
		// the (re-)run that completes
		do_call(&sim.w(w).owner, &sim.w(w).foreign(), sim.w(w).m(), &call).map_err(|e| format!("restoring scan failed: {}", e))?;
		out.class(format!("restore:{}:{}", if via_refresh { "first-refresh" } else { "scan" }, if accts_first { "accounts-first" } else { "accounts-from-scan" }));
		// pick up the restored records before anything is handed out
		self.observe_all(sim, st, out, false);
		match probe {
			1 => {
				for a in (0..ACCOUNTS.len()).rev() {
					switch(sim, w, a)?;
					let p = Prep {
						call: Call::BuildOutput(7_000_000 + a as u64),
						kind: "build-output",
						si: None,
						named: None,
						pre_candidate: None,
						args: None,
						amount: 0,
						acct: a,
					};
					if let Ok(ret) = do_call(&sim.w(w).owner, &sim.w(w).foreign(), sim.w(w).m(), &p.call) {
						self.integrate(sim, st, w, &p, ret, out)?;
					}
				}
				note.push_str("probe: build_output in every account");
			}
			2 => {
				let bf = BlockFees {
					fees: 0,
					height: sim.world.height() + 1,
					key_id: None,
				};
				if let Ok(cb) = sim.w(w).foreign().build_coinbase(&bf) {
					self.judge_coinbase(st, w, &None, None, &cb, out)?;
				}
				note.push_str("probe: fresh coinbase in the default account");
			}
			_ => note.push_str("no probe"),
		}
		Ok(format!("restored from seed (directory generation {}): {}", gen, note))
	}
}

/// The latest candidate wallet `w` handed out that the harness has not mined and whose record is still an
/// Unconfirmed coinbase candidate in the wallet.
fn prev_candidate(st: &St, v: &snap::View, w: usize) -> Option<Identifier> {
	st.cands
		.iter()
		.rev()
		.filter(|c| c.w == w && !c.mined)
		// no candidate under the same path was mined either (the record would then stand for a block's reward)
		.filter(|c| !st.cands.iter().any(|m| m.w == w && m.mined && m.key_id == c.key_id))
		.find(|c| v.outputs.iter().any(|o| o.key_id == c.key_id && o.mmr_index.is_none() && is_candidate(o)))
		.map(|c| c.key_id.clone())
}

pub fn run(args: &Args, rep: &mut Report) {
	let mut p = C15::new(args);
	run_part(&mut p, args, rep);
}

pub fn replay(args: &Args, _part: &str, case: &serde_json::Value) -> Result<Outcome, String> {
	replay_part(&mut C15::new(args), case)
}

#[allow(dead_code)]
fn _unused(_: &Path) {}
