//! C16 — scanning restores and repairs the wallet to the chain's truth, idempotently.
//!
//! Parts:
//!  * `restore`: generated history -> NEW wallet from the same phrase -> scan (or plain refresh) -> records == chain truth
//!  * `repair` : generated history -> divergences injected through the public batch API / cancel-after-broadcast ->
//!               scan(start, delete_unconfirmed) -> repaired; second identical scan changes nothing
//!  * `big`    : (thorough only) one chain with > 1000 unspent outputs, page 1000
//! Start heights (None, 1, every block height, tip, tip+1) are a dimension of both `restore` and `repair`.

use crate::base::{self, BaseSpec};
use crate::rt::*;
use crate::sim::*;
use crate::snap::{self, View};
use crate::truth::{self, Owned};
use crate::world::{self, Wal, World};
use grin_core::core::hash::Hashed;
use grin_core::core::OutputFeatures;
use grin_core::global;
use grin_keychain::{ExtKeychain, Identifier};
use grin_util::ToHex;
use grin_wallet_libwallet::{
	InitTxArgs, IssueInvoiceTxArgs, OutputData, OutputStatus, TxLogEntry, TxLogEntryType, WalletInfo,
};
use proptest::prelude::*;
use serde_derive::{Deserialize, Serialize};
use std::collections::{BTreeMap, BTreeSet};
use std::path::{Path, PathBuf};

pub const PAGES: [u64; 6] = [1, 2, 3, 7, 64, 1000];
const EXTRA_ACCT: &str = "acct2";

/// signature of the genuine defect expected by DESIGN.md §6 (named non-active account => key path of the active account)
pub const SIG_NAMED: &str = "c16:restore:named-account-key-path";
/// signature of the genuine defect: scan(delete_unconfirmed) deletes the record of a confirmed output of an inactive account
pub const SIG_INACTIVE_DROP: &str = "c16:repair:delete-unconfirmed-drops-confirmed-output-of-inactive-account";

#[derive(Clone, Debug, Serialize, Deserialize, PartialEq)]
pub enum StartPick {
	None,
	One,
	/// 1 + idx(k, tip): every block height
	Height(u16),
	Tip,
	TipPlus1,
}

impl StartPick {
	fn resolve(&self, tip: u64) -> Option<u64> {
		match self {
			StartPick::None => None,
			StartPick::One => Some(1),
			StartPick::Height(k) => Some(1 + idx(*k, tip as usize) as u64),
			StartPick::Tip => Some(tip),
			StartPick::TipPlus1 => Some(tip + 1),
		}
	}
	fn class(&self) -> &'static str {
		match self {
			StartPick::None => "none",
			StartPick::One => "1",
			StartPick::Height(_) => "mid",
			StartPick::Tip => "tip",
			StartPick::TipPlus1 => "tip+1",
		}
	}
}

fn start_strategy() -> BoxedStrategy<StartPick> {
	prop_oneof![
		8 => Just(StartPick::None),
		3 => Just(StartPick::One),
		6 => any::<u16>().prop_map(StartPick::Height),
		2 => Just(StartPick::Tip),
		1 => Just(StartPick::TipPlus1),
	]
	.boxed()
}

fn page_strategy() -> BoxedStrategy<u8> {
	prop_oneof![3 => Just(0u8), 3 => Just(1u8), 3 => Just(2u8), 3 => Just(3u8), 1 => Just(4u8), 1 => Just(5u8)].boxed()
}

fn hist_args() -> BoxedStrategy<SendArgs> {
	// no min_conf 0 (C05 open finding), no TTL (C17), no payment proofs (irrelevant here, slower)
	(send_args_strategy(false, true, false, false), prop_oneof![1 => Just(1u8), 2 => Just(2u8), 2 => Just(3u8), 1 => Just(4u8)], any::<bool>())
		.prop_map(|(mut a, ch, bias)| {
			if bias {
				a.change = ch;
			}
			a
		})
		.boxed()
}

/// History ops: honest flows, accounts, mining (to nobody / wallet 0 / wallet 1), a few restarts and refreshes.
pub fn hist_op() -> BoxedStrategy<Op> {
	let args = hist_args;
	let to = || prop_oneof![2 => Just(0u16), 3 => Just(1u16), 3 => Just(0x8001u16)];
	prop_oneof![
		16 => (to(), prop_oneof![3 => Just(0xffffu16), 1 => any::<u16>()]).prop_map(|(to, take)| Op::Mine { to, take }),
		3 => any::<u16>().prop_map(|w| Op::Refresh { w }),
		7 => (any::<u16>(), any::<u16>()).prop_map(|(w, acct)| Op::SwitchAccount { w, acct }),
		10 => (any::<u16>(), any::<u16>(), args()).prop_map(|(w, to, args)| Op::InitSend { w, to, args }),
		34 => any::<u16>().prop_map(|s| Op::Step { s }),
		3 => any::<u16>().prop_map(|s| Op::Post { s }),
		2 => (any::<u16>(), any::<bool>(), any::<bool>()).prop_map(|(s, by_sender, by_slate_id)| Op::Cancel { s, by_sender, by_slate_id }),
		3 => (any::<u16>(), any::<u16>(), any::<u16>()).prop_map(|(w, payer, amount)| Op::IssueInvoice { w, payer, amount }),
		3 => (any::<u16>(), args()).prop_map(|(s, args)| Op::PayInvoice { s, args }),
		1 => any::<u16>().prop_map(|s| Op::FinalizeInvoice { s }),
		10 => (any::<u16>(), any::<bool>(), args()).prop_map(|(w, other_acct, args)| Op::SelfSend { w, other_acct, args }),
		1 => any::<u16>().prop_map(|w| Op::Restart { w }),
		4 => any::<u16>().prop_map(|w| Op::OutOfOrderReceives { w }),
	]
	.boxed()
}

// ---------------------------------------------------------------------------------------------
// shared helpers

fn cm(o: &OutputData) -> Option<Vec<u8>> {
	commit_of(o)
}

fn commits_of(wal: &Wal) -> BTreeSet<Vec<u8>> {
	snap::view(wal).outputs.iter().filter_map(cm).collect()
}

#[derive(Clone, Copy, Debug, PartialEq, Eq)]
struct Fig {
	locked: u128,
	immature: u128,
	awaiting: u128,
	spendable: u128,
	total: u128,
}

fn fig_info(i: &WalletInfo) -> Fig {
	Fig {
		locked: i.amount_locked as u128,
		immature: i.amount_immature as u128,
		awaiting: i.amount_awaiting_confirmation as u128,
		spendable: i.amount_currently_spendable as u128,
		total: i.total as u128,
	}
}

/// Figures an account must report at tip `h` for `min_conf`, from chain data only (+ which of its
/// chain outputs the wallet currently holds reserved).
fn fig_truth<'a>(owned: impl Iterator<Item = &'a Owned>, locked: &BTreeSet<Vec<u8>>, h: u64, min_conf: u64) -> Fig {
	let mat = global::coinbase_maturity();
	let mut f = Fig { locked: 0, immature: 0, awaiting: 0, spendable: 0, total: 0 };
	for t in owned {
		if locked.contains(&t.commit.0.to_vec()) {
			f.locked += t.value as u128;
		} else if t.is_coinbase && t.height + mat > h {
			f.immature += t.value as u128;
		} else if h - t.height + 1 < min_conf {
			f.awaiting += t.value as u128;
		} else {
			f.spendable += t.value as u128;
		}
	}
	f.total = f.spendable + f.awaiting + f.immature;
	f
}

fn min_confs() -> [u64; 3] {
	[1, 2, global::coinbase_maturity() + 2]
}

/// Switch `wal` to the account `label`, refresh, and return its figures for every min_conf of `min_confs()`.
fn account_figures(wal: &Wal, label: &str) -> Result<(bool, Vec<Fig>), String> {
	wal.set_account(label)?;
	let mut v = vec![];
	let mut validated = false;
	for (i, m) in min_confs().iter().enumerate() {
		let (val, info) = wal.owner.retrieve_summary_info(wal.m(), i == 0, *m).map_err(|e| format!("retrieve_summary_info: {}", e))?;
		if i == 0 {
			validated = val;
		}
		v.push(fig_info(&info));
	}
	Ok((validated, v))
}

/// Mine the whole mempool, one transaction per block (a block of the test chain holds little more than one
/// multi-output transaction), at least one block.
fn mine_all(sim: &mut Sim) -> Result<(), String> {
	let mut rounds = 0;
	loop {
		let n = sim.world.node.with(|s| s.mempool.len());
		if n == 0 && rounds > 0 {
			return Ok(());
		}
		sim.mine(None, 1)?;
		rounds += 1;
		if rounds > 64 {
			return Err("mempool does not drain".into());
		}
	}
}

/// owner.scan with a paging-call budget (a paging loop that never terminates becomes an error, not a hang)
fn guarded<T>(world: &World, f: impl FnOnce() -> T) -> T {
	let size = world.head_header().output_mmr_size;
	world.node.with(|s| {
		s.pmmr_calls = 0;
		s.pmmr_limit = 2 * size + 32;
	});
	let r = f();
	world.node.with(|s| s.pmmr_limit = 0);
	r
}

fn scan(world: &World, wal: &Wal, start: Option<u64>, delete: bool) -> Result<(), String> {
	guarded(world, || wal.owner.scan(wal.m(), start, delete).map_err(|e| e.to_string()))
}

fn hexs(c: &[u8]) -> String {
	let mut s = c.to_vec().to_hex();
	s.truncate(16);
	s
}

/// Attribute checks of one Unspent record against the chain.
fn check_record(tag: &str, o: &OutputData, t: &Owned, expect_acct: Option<&Identifier>, named: &BTreeSet<Vec<u8>>, out: &mut Outcome) {
	let mat = global::coinbase_maturity();
	let c = hexs(&t.commit.0);
	if o.value != t.value {
		out.fail(format!("c16:{}:value", tag), format!("record {} value {} but the chain output rewinds to {}", c, o.value, t.value));
	}
	if o.height != t.height {
		out.fail(format!("c16:{}:height", tag), format!("record {} height {} but the output is in block {}", c, o.height, t.height));
	}
	if o.is_coinbase != t.is_coinbase {
		out.fail(format!("c16:{}:coinbase-flag", tag), format!("record {} is_coinbase {} but chain says {}", c, o.is_coinbase, t.is_coinbase));
	}
	if t.is_coinbase {
		if o.lock_height != t.height + mat {
			out.fail(format!("c16:{}:lock-height", tag), format!("coinbase record {} at height {} has lock_height {} (expected height + maturity = {})", c, t.height, o.lock_height, t.height + mat));
		}
	} else if o.lock_height > t.height {
		out.fail(format!("c16:{}:lock-height", tag), format!("plain record {} at height {} has lock_height {} (> its height)", c, t.height, o.lock_height));
	}
	if o.key_id != t.key_id || o.n_child != t.n_child() {
		out.fail(format!("c16:{}:key-path", tag), format!("record {} key {} n_child {} but the proof rewinds to {} ({})", c, o.key_id.to_hex(), o.n_child, t.key_id.to_hex(), t.n_child()));
	}
	if let Some(a) = expect_acct {
		if &o.root_key_id != a {
			if named.contains(&t.commit.0.to_vec()) {
				out.fail(
					SIG_NAMED,
					format!("output {} (value {}, height {}) was created by an operation that named a non-active account: the original wallet books it under {} but its key path {} belongs to {}, so the scan attributes it to {}", c, t.value, t.height, a.to_hex(), t.key_id.to_hex(), t.parent.to_hex(), o.root_key_id.to_hex()),
				);
			} else {
				out.fail(format!("c16:{}:account", tag), format!("record {} is attributed to account {} but belongs to {}", c, o.root_key_id.to_hex(), a.to_hex()));
			}
		}
	}
}

fn add_history(out: &mut Outcome, sim: &Sim, extra: &[String]) {
	if !out.fails.is_empty() {
		let hist = sim.history();
		for f in out.fails.iter_mut() {
			f.detail = format!("{}\n--- steps ---\n{}\n--- history ---\n{}", f.detail, extra.join("\n"), hist);
		}
	}
}

fn bucket(n: usize) -> &'static str {
	match n {
		0 => "0",
		1..=4 => "1-4",
		5..=9 => "5-9",
		10..=19 => "10-19",
		20..=39 => "20-39",
		_ => "40+",
	}
}

/// labels and paths of all accounts of a wallet
fn accounts(wal: &Wal) -> Vec<(String, Identifier)> {
	let mut a = snap::view(wal).accounts;
	a.sort_by(|x, y| x.1.to_bytes().to_vec().cmp(&y.1.to_bytes().to_vec()));
	a
}

// ---------------------------------------------------------------------------------------------
// operations that name a NON-active account explicitly (separate counted class)

#[derive(Clone, Debug, Serialize, Deserialize)]
pub enum NamedOp {
	/// init_send_tx with src_acct_name = the other account (change outputs)
	Send { frac: u16, change: u8 },
	/// receive_tx with dest_acct_name = the other account
	Receive { frac: u16 },
	/// issue_invoice_tx with dest_acct_name = the other account
	Invoice { frac: u16 },
}

fn named_strategy() -> BoxedStrategy<NamedOp> {
	prop_oneof![
		(any::<u16>(), 1u8..4).prop_map(|(frac, change)| NamedOp::Send { frac, change }),
		any::<u16>().prop_map(|frac| NamedOp::Receive { frac }),
		any::<u16>().prop_map(|frac| NamedOp::Invoice { frac }),
	]
	.boxed()
}

/// Make sure wallet `o`'s active account has something spendable (switching its account if needed).
fn ensure_funds(sim: &mut Sim, o: usize) -> Result<(), String> {
	let cur = sim.active[o];
	for k in 0..ACCOUNTS.len() {
		let a = (cur + k) % ACCOUNTS.len();
		sim.switch_account(o, a)?;
		let _ = sim.refresh(o);
		if sim.spendable(o, 1) >= 100_000_000 {
			return Ok(());
		}
	}
	sim.switch_account(o, cur)?;
	Err("counterparty has nothing spendable".into())
}

/// Runs one named-account operation of wallet `w` to completion (mined). Returns the commitments it created in `w`.
fn run_named(sim: &mut Sim, w: usize, op: &NamedOp) -> Result<BTreeSet<Vec<u8>>, String> {
	let o = 1 - w;
	let a = sim.active[w];
	let b = (a + 1) % ACCOUNTS.len();
	let before = commits_of(sim.w(w));
	match op {
		NamedOp::Send { frac, change } => {
			// spendable of the named account
			sim.switch_account(w, b)?;
			let _ = sim.refresh(w);
			let sp = sim.spendable(w, 1);
			sim.switch_account(w, a)?;
			if sp < 10_000_000 {
				return Err("named account has nothing spendable".into());
			}
			let amount = std::cmp::max(1, ((sp as u128 * *frac as u128) >> 17) as u64);
			let args = InitTxArgs {
				src_acct_name: Some(ACCOUNTS[b].to_string()),
				amount,
				minimum_confirmations: 1,
				max_outputs: 500,
				num_change_outputs: *change as u32,
				selection_strategy_is_use_all: false,
				..Default::default()
			};
			let s1 = sim.w(w).owner.init_send_tx(sim.w(w).m(), args).map_err(|e| format!("init_send_tx: {}", e))?;
			sim.w(w).owner.tx_lock_outputs(sim.w(w).m(), &s1).map_err(|e| format!("tx_lock_outputs: {}", e))?;
			let s2 = sim.w(o).foreign().receive_tx(&wire(&s1)?, None, None).map_err(|e| format!("receive_tx: {}", e))?;
			// finalize looks the transaction up in the active account: the user addresses the named account for this step
			sim.switch_account(w, b)?;
			let s3 = sim.w(w).owner.finalize_tx(sim.w(w).m(), &wire(&s2)?).map_err(|e| format!("finalize_tx: {}", e));
			sim.switch_account(w, a)?;
			let s3 = s3?;
			sim.w(w).owner.post_tx(sim.w(w).m(), &s3, true).map_err(|e| format!("post_tx: {}", e))?;
		}
		NamedOp::Receive { frac } => {
			ensure_funds(sim, o)?;
			let sa = SendArgs { amount: AmountPick::Frac(*frac / 2), ..SendArgs::default() };
			let si = sim.init_send(o, w, &sa)?;
			sim.lock(si)?;
			let s1 = wire(&sim.slates[si].s1)?;
			let s2 = sim.w(w).foreign().receive_tx(&s1, Some(ACCOUNTS[b]), None).map_err(|e| format!("receive_tx: {}", e))?;
			sim.slates[si].s2 = Some(s2);
			sim.slates[si].responder_acct = Some(b);
			sim.slates[si].stage = Stage::Replied;
			sim.finalize(si)?;
			sim.post(si)?;
		}
		NamedOp::Invoice { frac } => {
			ensure_funds(sim, o)?;
			let sp = sim.spendable(o, 1);
			if sp < 10_000_000 {
				return Err("payer has nothing spendable".into());
			}
			let amount = std::cmp::max(1, ((sp as u128 * *frac as u128) >> 18) as u64);
			let i1 = sim
				.w(w)
				.owner
				.issue_invoice_tx(sim.w(w).m(), IssueInvoiceTxArgs { dest_acct_name: Some(ACCOUNTS[b].to_string()), amount, ..Default::default() })
				.map_err(|e| format!("issue_invoice_tx: {}", e))?;
			let mut pa = sim.init_args(o, &SendArgs::default(), amount, None);
			pa.amount_includes_fee = None;
			pa.late_lock = Some(false);
			let i2 = sim.w(o).owner.process_invoice_tx(sim.w(o).m(), &wire(&i1)?, pa).map_err(|e| format!("process_invoice_tx: {}", e))?;
			sim.w(o).owner.tx_lock_outputs(sim.w(o).m(), &i2).map_err(|e| format!("tx_lock_outputs: {}", e))?;
			let i3 = sim.w(w).foreign().finalize_tx(&wire(&i2)?, false).map_err(|e| format!("finalize_tx: {}", e))?;
			sim.w(o).owner.post_tx(sim.w(o).m(), &i3, true).map_err(|e| format!("post_tx: {}", e))?;
		}
	}
	let after = commits_of(sim.w(w));
	mine_all(&mut *sim)?;
	Ok(after.difference(&before).cloned().collect())
}

// ---------------------------------------------------------------------------------------------
// part (a): restore

#[derive(Clone, Debug, Serialize, Deserialize)]
pub struct RestoreCase {
	pub base: u8,
	pub ops: Vec<Op>,
	/// which wallet is restored
	pub wallet: u16,
	/// blocks mined to a third account of that wallet before the history (0 = no third account)
	pub extra_acct_blocks: u8,
	/// mine the mempool and cancel what is still pending before restoring (original wallet quiescent)
	pub settle: bool,
	/// operations naming a non-active account (separate class; usually empty)
	pub named: Vec<NamedOp>,
	/// self-sends with 4 change outputs appended to the history (more plain outputs per case)
	#[serde(default)]
	pub fanout: u8,
	pub page: u8,
	/// false: owner.scan; true: only retrieve_summary_info(refresh) on the new wallet
	pub by_refresh: bool,
	pub start: StartPick,
}

pub struct Restore {
	scratch: PathBuf,
	bases: Result<Vec<PathBuf>, String>,
	/// base 3: the standard funded world followed by > 100 empty blocks (built on first use): the wallet's
	/// oldest outputs lie below tip - 100, where a plain refresh does not look
	deep: Option<Result<PathBuf, String>>,
	n: u64,
	tier: Tier,
}

/// Base worlds (shared by the parts of this process; a base world is only ever copied, never opened in place).
/// An error here means plain mining + refresh of a fresh wallet failed: reported as a failure of every case.
fn build_bases(args: &Args, _tag: &str) -> Result<Vec<PathBuf>, String> {
	let mut bases = vec![];
	for v in 0..3u64 {
		let d = args.scratch.join(format!("c16.base{}", v));
		if !d.join("world.json").exists() || !d.join("built.ok").exists() {
			base::build(&d, &BaseSpec::standard(v)).map_err(|e| format!("building base world {}: {}", v, e))?;
			let _ = std::fs::write(d.join("built.ok"), b"ok");
		}
		bases.push(d);
	}
	Ok(bases)
}

/// Standard funded world (books brought up to date), then 102 empty blocks, then every account refreshed again.
/// (The wallet must see its coinbase outputs confirm before they are 50 blocks old: it forgets older unconfirmed
/// coinbase candidates by design.)
fn build_deep(d: &Path) -> Result<PathBuf, String> {
	base::build(d, &BaseSpec::standard(0))?;
	let w = World::open(d)?;
	let mut sim = Sim::new(w);
	for _ in 0..102 {
		sim.mine(None, 0)?;
	}
	for wi in 0..sim.world.wallets.len() {
		for a in (0..ACCOUNTS.len()).rev() {
			sim.switch_account(wi, a)?;
			match sim.refresh(wi) {
				Ok(true) => {}
				other => return Err(format!("refresh failed: {:?}", other)),
			}
		}
	}
	sim.world.save_meta();
	drop(sim);
	Ok(d.to_path_buf())
}

impl Restore {
	pub fn new(args: &Args) -> Restore {
		Restore {
			scratch: args.scratch.clone(),
			bases: build_bases(args, "restore"),
			deep: None,
			n: 0,
			tier: args.tier,
		}
	}
}

impl Prop for Restore {
	type Case = RestoreCase;
	fn id(&self) -> &'static str {
		"C16"
	}
	fn part(&self) -> &'static str {
		"restore"
	}
	fn cases(&self, tier: Tier) -> u64 {
		tier.pick(80, 2000)
	}
	fn shrink_iters(&self) -> u32 {
		self.tier.pick(24, 64)
	}
	fn strategy(&self, tier: Tier) -> BoxedStrategy<RestoreCase> {
		let n = tier.pick(36usize, 48usize);
		(
			prop_oneof![1 => Just(0u8), 1 => Just(1u8), 1 => Just(2u8), 1 => Just(3u8)],
			prop::collection::vec(hist_op(), 10..n),
			any::<u16>(),
			prop_oneof![2 => Just(0u8), 1 => Just(1u8), 1 => Just(2u8)],
			prop::bool::weighted(0.6),
			prop_oneof![4 => Just(vec![]), 1 => prop::collection::vec(named_strategy(), 1..3)],
			(page_strategy(), 0u8..5),
			prop::bool::weighted(0.25),
			start_strategy(),
		)
			.prop_map(|(base, ops, wallet, extra_acct_blocks, settle, named, (page, fanout), by_refresh, start)| RestoreCase {
				base,
				ops,
				wallet,
				extra_acct_blocks,
				settle,
				named,
				fanout,
				page,
				by_refresh,
				start,
			})
			.boxed()
	}
	fn rule(&self) -> String {
		"history of 10..36 (thorough 48) honest ops + 0..4 fan-out self-sends over 2 wallets x 2(+1) accounts on one of 3 funded base worlds or (1 in 4) a base world followed by > 100 empty blocks (mining to both wallets, sends both ways with 0..4 change outputs, self-sends same/other account, invoices, cancels before post, restarts), node page size in {1,2,3,7,64,1000}; NEW wallet from the same phrase in a fresh directory, then owner.scan(start in {None,1,every height,tip,tip+1}) or only retrieve_summary_info(refresh); oracle: restored records == unspent outputs that rewind under an independently derived keychain (commit, value, height, coinbase flag, lock height, key path, account = the account the original wallet books it under), all Unspent, one log entry per restored output, per-account figures == figures recomputed from chain data and == the original wallet's after its own refresh (where the original holds no reservation), repeat scan changes nothing, next key index > every on-chain index of the account; partial scans: every owned output of height >= start recorded, nothing else recorded, and a later full scan completes it. non-trivial = >= 2 accounts with outputs and owned outputs > page size; distinct by case hash".into()
	}
	fn assumptions(&self) -> Vec<String> {
		vec![
			"history domain as C04: steps in legal order, a cancelled transaction is never mined, no forks, sends use minimum_confirmations >= 1, no TTL".into(),
			"an output's account is the account the original wallet books it under; operations naming a NON-active account are a separate counted class (known finding c16:restore:named-account-key-path)".into(),
			"plain outputs: any lock_height <= height accepted (scan.rs uses = height); coinbase: exactly height + coinbase maturity".into(),
			"figures of a restored account are read after switching to it and refreshing (last confirmed height is kept per account)".into(),
			"the original wallet's spendable/total are compared only for accounts in which it holds no Locked record of a chain output".into(),
		]
	}
	fn run(&mut self, c: &RestoreCase) -> Outcome {
		let mut out = Outcome::default();
		self.n += 1;
		let dir = self.scratch.join(format!("c16.restore.case{}", self.n));
		let r = self.run_case(c, &dir, &mut out);
		let _ = std::fs::remove_dir_all(&dir);
		if let Err(e) = r {
			out.fail("c16:harness-error", e);
		}
		out
	}
}

/// Check a freshly restored wallet's view against the chain. `full`: exactness, otherwise only outputs of height >= s are required.
fn check_restored_view(
	tag: &str,
	rv: &View,
	tmap: &BTreeMap<Vec<u8>, Owned>,
	acct_of: &BTreeMap<Vec<u8>, Identifier>,
	named: &BTreeSet<Vec<u8>>,
	s: u64,
	out: &mut Outcome,
) {
	let mut seen: BTreeSet<Vec<u8>> = BTreeSet::new();
	for o in &rv.outputs {
		let c = match cm(o) {
			Some(c) => c,
			None => {
				out.fail(format!("c16:{}:record-without-commit", tag), format!("{:?}", o));
				continue;
			}
		};
		if o.status != OutputStatus::Unspent {
			out.fail(format!("c16:{}:non-unspent-record", tag), format!("restored wallet holds a {:?} record {} value {}", o.status, hexs(&c), o.value));
			continue;
		}
		if !seen.insert(c.clone()) {
			out.fail(format!("c16:{}:duplicate-record", tag), format!("two records for commitment {}", hexs(&c)));
		}
		match tmap.get(&c) {
			None => out.fail(format!("c16:{}:extra-record", tag), format!("restored wallet records {} value {} height {} which is not an unspent output of this seed", hexs(&c), o.value, o.height)),
			Some(t) => {
				check_record(tag, o, t, acct_of.get(&c).or(Some(&t.parent)), named, out);
				// documented: a corresponding log entry is created for every restored output
				let e: Vec<&TxLogEntry> = rv.txs.iter().filter(|e| e.parent_key_id == o.root_key_id && Some(e.id) == o.tx_log_entry).collect();
				if e.len() != 1 || e[0].amount_credited != o.value || !e[0].confirmed {
					out.fail(format!("c16:{}:log-entry", tag), format!("restored output {} (value {}) has no corresponding confirmed log entry crediting it: {:?}", hexs(&c), o.value, e));
				}
			}
		}
	}
	for (c, t) in tmap {
		if t.height >= s && !seen.contains(c) {
			out.fail(
				format!("c16:{}:missing-output", tag),
				format!("unspent output {} value {} height {} mmr pos {} (key {}) belongs to the seed but was not restored (scan start {})", hexs(c), t.value, t.height, t.mmr_pos, t.key_id.to_hex(), s),
			);
		}
	}
	if rv.txs.len() != rv.outputs.len() {
		out.fail(format!("c16:{}:log-entry-count", tag), format!("{} log entries for {} restored outputs (one corresponding entry per restored output is documented)", rv.txs.len(), rv.outputs.len()));
	}
}

impl Restore {
	fn run_case(&mut self, c: &RestoreCase, dir: &PathBuf, out: &mut Outcome) -> Result<(), String> {
		let bases = match &self.bases {
			Ok(b) => b.clone(),
			Err(e) => {
				out.fail("c16:base-world", format!("mining to a fresh wallet and refreshing it failed: {}", e));
				return Ok(());
			}
		};
		let base_dir = if c.base as usize % (bases.len() + 1) == bases.len() {
			if self.deep.is_none() {
				let d = self.scratch.join("c16.deepbase");
				self.deep = Some(build_deep(&d).map_err(|e| format!("building deep base world: {}", e)));
			}
			out.class("base:deep(>100 blocks)");
			match self.deep.clone().unwrap() {
				Ok(d) => d,
				Err(e) => {
					out.fail("c16:base-world", e);
					return Ok(());
				}
			}
		} else {
			bases[c.base as usize % (bases.len() + 1)].clone()
		};
		let mut sim = base::open_copy(&base_dir, dir)?;
		sim.strict = true;
		sim.never_mine_cancelled = true;
		let w = idx(c.wallet, sim.world.wallets.len());
		let mut steps: Vec<String> = vec![];

		if c.extra_acct_blocks > 0 {
			sim.w(w).owner.create_account_path(sim.w(w).m(), EXTRA_ACCT).map_err(|e| e.to_string())?;
			sim.w(w).set_account(EXTRA_ACCT)?;
			for _ in 0..c.extra_acct_blocks {
				sim.world.mine(Some(w), &[])?;
			}
			sim.w(w).set_account(ACCOUNTS[sim.active[w]])?;
			steps.push(format!("{} blocks mined to third account of wallet {}", c.extra_acct_blocks, w));
		}
		for op in &c.ops {
			let r = sim.apply(op);
			out.class(format!("op:{}:{}", r.kind, match &r.result { Some(Ok(_)) => "ok", Some(Err(_)) => "err", None => "noop" }));
		}
		sim.set_node_down(false);
		for k in 0..c.fanout {
			let sa = SendArgs { amount: AmountPick::Frac(9000), use_all: false, change: 4, ..SendArgs::default() };
			let _ = ensure_funds(&mut sim, w);
			match sim.self_send(w, k % 2 == 1, &sa) {
				Ok(si) => {
					let _ = sim.post(si);
					mine_all(&mut sim)?;
					out.class("fanout:ok");
				}
				Err(_) => out.class("fanout:unavailable"),
			}
		}
		let mut named: BTreeSet<Vec<u8>> = BTreeSet::new();
		for nop in &c.named {
			let kind = match nop {
				NamedOp::Send { .. } => "send",
				NamedOp::Receive { .. } => "receive",
				NamedOp::Invoice { .. } => "invoice",
			};
			match run_named(&mut sim, w, nop) {
				Ok(cs) => {
					out.class(format!("named:{}:ok", kind));
					steps.push(format!("named-account op {:?} by wallet {} (active account {}) created {} output(s)", nop, w, sim.active[w], cs.len()));
					named.extend(cs);
				}
				Err(e) => {
					out.class(format!("named:{}:unavailable", kind));
					crate::rt::dbg(&format!("named op {:?} unavailable: {}", nop, e));
					steps.push(format!("named-account op {:?} not completed: {}", nop, e));
				}
			}
		}
		if c.settle {
			mine_all(&mut sim)?;
			for si in 0..sim.slates.len() {
				let (posted, cancelled, payer, locked) = {
					let s = &sim.slates[si];
					(s.posted, s.is_cancelled(), s.payer(), s.locked)
				};
				if !posted && !cancelled && locked {
					let _ = sim.cancel(payer, si, false);
				}
			}
			sim.mine(None, 0)?;
		}
		let page = PAGES[c.page as usize % PAGES.len()];
		let r = restore_and_check(&self.scratch, &mut sim, w, dir, page, c.by_refresh, &c.start, &named, out, &mut steps);
		add_history(out, &sim, &steps);
		r
	}
}

/// The restore phase proper: original wallet's own view, NEW wallet from the same phrase, scan, oracle.
#[allow(clippy::too_many_arguments)]
fn restore_and_check(
	scratch: &Path,
	sim: &mut Sim,
	w: usize,
	dir: &Path,
	page: u64,
	by_refresh: bool,
	start_pick: &StartPick,
	named: &BTreeSet<Vec<u8>>,
	out: &mut Outcome,
	steps: &mut Vec<String>,
) -> Result<(), String> {
	{
		let phrase = sim.w(w).phrase.clone();
		let kc: ExtKeychain = truth::keychain_from_phrase(&phrase)?;
		// the original wallet's own view of every account, after its own refresh
		let tip = sim.world.height();
		let mut orig_figs: BTreeMap<Vec<u8>, Vec<Fig>> = BTreeMap::new();
		for (label, path) in accounts(sim.w(w)) {
			let (validated, figs) = account_figures(sim.w(w), &label)?;
			if !validated {
				return Err(format!("original wallet: refresh of account {} not successful", label));
			}
			orig_figs.insert(path.to_bytes().to_vec(), figs);
		}
		let orig_view = snap::view(sim.w(w));
		let owned = truth::owned_utxos(&sim.world.chain, &kc)?;
		let tmap = truth::by_commit(&owned);
		let mut acct_of: BTreeMap<Vec<u8>, Identifier> = BTreeMap::new();
		for o in &orig_view.outputs {
			if let Some(cc) = cm(o) {
				if o.status != OutputStatus::Spent && tmap.contains_key(&cc) {
					acct_of.insert(cc, o.root_key_id.clone());
				}
			}
		}
		// the original wallet must itself agree with the chain (C04's business; counted, not judged here)
		let orig_ok = tmap.keys().all(|k| acct_of.contains_key(k));
		if !orig_ok {
			out.class("original-wallet-incomplete");
			for (k, t) in tmap.iter().filter(|(k, _)| !acct_of.contains_key(*k)) {
				let recs: Vec<String> = orig_view.outputs.iter().filter(|o| cm(o).as_ref() == Some(k)).map(|o| format!("{:?}@{}", o.status, o.root_key_id.to_hex())).collect();
				crate::rt::dbg(&format!("original wallet has no live record for chain output {} value {} height {} coinbase {} key {}: records {:?}", hexs(k), t.value, t.height, t.is_coinbase, t.key_id.to_hex(), recs));
			}
		}
		let named_on_chain: BTreeSet<Vec<u8>> = named.iter().filter(|k| tmap.contains_key(*k)).cloned().collect();
		let n_accts_with_outputs = owned.iter().map(|t| acct_of.get(&t.commit.0.to_vec()).unwrap_or(&t.parent).to_bytes().to_vec()).collect::<BTreeSet<_>>().len();
		out.class(format!("page={}", page));
		out.class(format!("owned={}", bucket(owned.len())));
		out.class(format!("accounts-with-outputs={}", n_accts_with_outputs));
		out.class(format!("coinbase-owned={}", bucket(owned.iter().filter(|t| t.is_coinbase).count())));
		out.class(format!("plain-owned={}", bucket(owned.iter().filter(|t| !t.is_coinbase).count())));
		let spent_records = orig_view.outputs.iter().filter(|o| o.status == OutputStatus::Spent).count();
		out.class(format!("spent-records={}", bucket(spent_records)));
		if !named_on_chain.is_empty() {
			out.class("named-outputs-on-chain");
		}
		out.nontrivial = n_accts_with_outputs >= 2 && owned.len() as u64 > page;

		// ---- restore
		sim.world.node.with(|s| s.page = page);
		let rw = world::create_wallet(&dir.join("restored"), "r", sim.world.node.clone(), Some(&phrase), "", false)?;
		let start = if by_refresh { None } else { start_pick.resolve(tip) };
		let s_eff = start.unwrap_or(1);
		let full = s_eff <= 1;
		out.class(if by_refresh { "mode:refresh".to_string() } else { format!("mode:scan:start={}", start_pick.class()) });
		steps.push(format!("restore: tip {} page {} by_refresh {} start {:?}; {} owned outputs in {} accounts", tip, page, by_refresh, start, owned.len(), n_accts_with_outputs));
		let r = if by_refresh {
			guarded(&sim.world, || rw.owner.retrieve_summary_info(rw.m(), true, 1).map_err(|e| e.to_string()).and_then(|r| if r.0 { Ok(()) } else { Err("refresh reported not validated although the node is up".to_string()) }))
		} else {
			scan(&sim.world, &rw, start, false)
		};
		if let Err(e) = r {
			out.fail("c16:restore:scan-error", format!("restore scan failed: {}", e));
			return Ok(());
		}
		let rv = snap::view(&rw);
		check_restored_view(if full { "restore" } else { "restore-partial" }, &rv, &tmap, &acct_of, &named_on_chain, s_eff, out);
		if !full && out.fails.is_empty() {
			// a later full scan completes a partial one
			if let Err(e) = scan(&sim.world, &rw, None, false) {
				out.fail("c16:restore:scan-error", format!("full scan after partial scan failed: {}", e));
			} else {
				let rv2 = snap::view(&rw);
				check_restored_view("restore-after-partial", &rv2, &tmap, &acct_of, &named_on_chain, 1, out);
			}
		}
		let named_hit = out.fails.iter().any(|f| f.sig == SIG_NAMED);
		if out.fails.is_empty() {
			// repeat changes nothing
			let s1 = snap::deep(&rw, scratch)?;
			let r2 = if by_refresh {
				guarded(&sim.world, || rw.owner.retrieve_summary_info(rw.m(), true, 1).map(|_| ()).map_err(|e| e.to_string()))
			} else {
				scan(&sim.world, &rw, None, false)
			};
			if let Err(e) = r2 {
				out.fail("c16:restore:scan-error", format!("second scan failed: {}", e));
			}
			let s2 = snap::deep(&rw, scratch)?;
			// a repeated plain refresh legitimately resumes from the last scanned block (that record may change)
			let d = if by_refresh { snap::diff_filtered(&s1, &s2, &['l']) } else { snap::diff(&s1, &s2) };
			if !d.is_empty() && !by_refresh {
				out.fail("c16:restore:second-scan-changed", format!("a second scan of the restored wallet changed its state: {}", d.join(" | ")));
			} else if !d.is_empty() {
				// by_refresh: first call was the initial scan (init status changes on the FIRST call only)
				out.fail("c16:restore:second-refresh-changed", format!("a second refresh of the restored wallet changed its state: {}", d.join(" | ")));
			}
		}
		if out.fails.is_empty() {
			// accounts, figures, next key
			let racc = accounts(&rw);
			let mat = global::coinbase_maturity();
			let _ = mat;
			let no_locked: BTreeSet<Vec<u8>> = BTreeSet::new();
			let mut parents: BTreeSet<Vec<u8>> = BTreeSet::new();
			for t in &owned {
				parents.insert(t.parent.to_bytes().to_vec());
			}
			for p in &parents {
				if !racc.iter().any(|(_, path)| &path.to_bytes().to_vec() == p) {
					out.fail("c16:restore:account-missing", format!("outputs of account path {} are on chain but the restored wallet has no such account", p.to_hex()));
				}
			}
			for (label, path) in &racc {
				let pb = path.to_bytes().to_vec();
				let (validated, figs) = account_figures(&rw, label)?;
				if !validated {
					out.fail("c16:restore:refresh-failed", format!("refresh of restored account {} not validated", label));
					continue;
				}
				let mine: Vec<&Owned> = owned.iter().filter(|t| t.parent == *path).collect();
				for (i, m) in min_confs().iter().enumerate() {
					let want = fig_truth(mine.iter().cloned(), &no_locked, tip, *m);
					if figs[i] != want {
						out.fail("c16:restore:figures", format!("restored account {} ({}) min_conf {} tip {}: reports {:?}, chain says {:?}", label, path.to_hex(), m, tip, figs[i], want));
						break;
					}
				}
				// against the original wallet
				if let Some(of) = orig_figs.get(&pb) {
					let orig_locked = orig_view.outputs.iter().any(|o| o.root_key_id == *path && o.status == OutputStatus::Locked && cm(o).map(|k| tmap.contains_key(&k)).unwrap_or(false));
					if !orig_locked && orig_ok {
						out.class("compared-with-original");
						for (i, m) in min_confs().iter().enumerate() {
							if of[i].spendable != figs[i].spendable || of[i].total != figs[i].total {
								out.fail(
									"c16:restore:vs-original",
									format!("account {} min_conf {}: original wallet reports spendable {} total {}, restored wallet spendable {} total {}", path.to_hex(), m, of[i].spendable, of[i].total, figs[i].spendable, figs[i].total),
								);
								break;
							}
						}
					} else {
						out.class("original-holds-reservation");
					}
				}
				// next key handed out lies beyond every index found on chain
				if !mine.is_empty() {
					let max_child = mine.iter().map(|t| t.n_child()).max().unwrap();
					match rw.owner.build_output(rw.m(), OutputFeatures::Plain, 1_000_000) {
						Ok(bo) => {
							let got = bo.key_id.to_path().last_path_index();
							if bo.key_id.parent_path() != *path || got <= max_child {
								out.fail("c16:restore:next-key", format!("restored account {}: next key {} (index {}) is not beyond the highest index found on chain ({})", path.to_hex(), bo.key_id.to_hex(), got, max_child));
							}
						}
						Err(e) => out.fail("c16:restore:next-key", format!("build_output failed on restored wallet: {}", e)),
					}
				}
			}
		}
		if named_hit {
			// consequences of the same root cause are not reported separately
			out.fails.retain(|f| f.sig == SIG_NAMED);
			out.fails.truncate(1);
		}
		drop(rw);
		Ok(())
	}
}

// ---------------------------------------------------------------------------------------------
// part (b): repair

#[derive(Clone, Debug, Serialize, Deserialize)]
pub enum Inject {
	/// delete the record of an unspent chain output
	Delete { i: u16 },
	/// Unspent -> Spent
	Spent { i: u16 },
	/// Unspent -> Locked, with a fresh outstanding TxSent entry pointing at it or with no entry
	Locked { i: u16, with_log: bool },
	/// add an Unconfirmed record for an output that never reached the chain
	StaleUnconfirmed { acct: u16, value: u16, coinbase: bool, with_log: bool },
}

fn inject_strategy() -> BoxedStrategy<Inject> {
	prop_oneof![
		3 => any::<u16>().prop_map(|i| Inject::Delete { i }),
		3 => any::<u16>().prop_map(|i| Inject::Spent { i }),
		3 => (any::<u16>(), any::<bool>()).prop_map(|(i, with_log)| Inject::Locked { i, with_log }),
		2 => (any::<u16>(), any::<u16>(), prop::bool::weighted(0.3), any::<bool>()).prop_map(|(acct, value, coinbase, with_log)| Inject::StaleUnconfirmed { acct, value, coinbase, with_log }),
	]
	.boxed()
}

#[derive(Clone, Debug, Serialize, Deserialize)]
pub struct Cab {
	/// 0 send to the other wallet, sender cancels; 1 self-send same account; 2 self-send other account; 3 receive from the other wallet, receiver cancels;
	/// 4 (no divergence) plain receive into `acct`, NOT cancelled, mined while the scan runs with the other account active
	pub kind: u8,
	pub acct: u16,
	pub args: SendArgs,
}

#[derive(Clone, Debug, Serialize, Deserialize)]
pub struct RepairCase {
	pub base: u8,
	pub ops: Vec<Op>,
	pub wallet: u16,
	/// cancel-after-broadcast (performed before the batch injections, then mined)
	pub cab: Option<Cab>,
	/// reorganisation: the last `fork` blocks are replaced by fork+1 empty blocks (only when `cab` is None; 0 = none)
	#[serde(default)]
	pub fork: u8,
	/// self-sends with 4 change outputs appended to the history
	#[serde(default)]
	pub fanout: u8,
	pub inj: Vec<Inject>,
	pub scan_acct: u16,
	pub start: StartPick,
	pub delete_unconfirmed: bool,
	pub page: u8,
}

pub struct Repair {
	scratch: PathBuf,
	bases: Result<Vec<PathBuf>, String>,
	n: u64,
	tier: Tier,
}

impl Repair {
	pub fn new(args: &Args) -> Repair {
		Repair {
			scratch: args.scratch.clone(),
			bases: build_bases(args, "repair"),
			n: 0,
			tier: args.tier,
		}
	}
}

impl Prop for Repair {
	type Case = RepairCase;
	fn id(&self) -> &'static str {
		"C16"
	}
	fn part(&self) -> &'static str {
		"repair"
	}
	fn cases(&self, tier: Tier) -> u64 {
		tier.pick(96, 2400)
	}
	fn shrink_iters(&self) -> u32 {
		self.tier.pick(24, 64)
	}
	fn strategy(&self, tier: Tier) -> BoxedStrategy<RepairCase> {
		let n = tier.pick(16usize, 30usize);
		(
			0u8..3,
			prop::collection::vec(hist_op(), 3..n),
			any::<u16>(),
			prop_oneof![
				3 => Just(None),
				2 => (prop_oneof![1 => Just(0u8), 1 => Just(1u8), 1 => Just(2u8), 1 => Just(3u8), 2 => Just(4u8)], any::<u16>(), send_args_strategy(false, false, false, false)).prop_map(|(kind, acct, args)| Some(Cab { kind, acct, args })),
			],
			(prop::collection::vec(inject_strategy(), 0..5), prop_oneof![3 => Just(0u8), 1 => Just(1u8), 1 => Just(2u8), 1 => Just(3u8)], 0u8..4),
			any::<u16>(),
			start_strategy(),
			any::<bool>(),
			page_strategy(),
		)
			.prop_map(|(base, ops, wallet, cab, (inj, fork, fanout), scan_acct, start, delete_unconfirmed, page)| RepairCase {
				base,
				ops,
				wallet,
				cab,
				fork,
				fanout,
				inj,
				scan_acct,
				start,
				delete_unconfirmed,
				page,
			})
			.boxed()
	}
	fn rule(&self) -> String {
		"history of 3..16 (thorough 30) honest ops, mempool mined, every account of the target wallet refreshed (books == chain is a counted precondition); then optional reorganisation (last 1..3 blocks replaced by a longer empty branch) or cancel-after-broadcast (send to other wallet / self-send same or other account cancelled by the sender, or a receive cancelled by the receiver, after post; then mined) and 0..4 divergences through the public batch API (delete record, Unspent->Spent, Unspent->Locked with/without log entry, stale Unconfirmed plain/coinbase record with/without log entry); owner.scan(start in {None,1,every height,tip,tip+1}, delete_unconfirmed in {false,true}) with page size in {1,2,3,7,64,1000}; oracle right after the scan: every owned chain output of height >= start is recorded Unspent (delete_unconfirmed=false: may stay Locked if it was Locked; Unconfirmed only in an account that was not active), every Unspent record is an owned chain output with the chain's value/height/coinbase flag/account, no duplicates; delete_unconfirmed (full scan): no Unconfirmed record and no Locked record of a chain output remains; second identical scan leaves the raw DB and stored files byte-identical; then per account after its own refresh: figures == figures from chain data, live records == chain. non-trivial = >= 1 effective divergence; distinct by case hash".into()
	}
	fn assumptions(&self) -> Vec<String> {
		vec![
			"a scan following a cancel-after-broadcast by the sender is run with the sending account active (the refresh that precedes the scan is per account by design)".into(),
			"delete_unconfirmed=false does not have to release reservations or drop unconfirmed records (statement: 'when asked to drop pending transactions')".into(),
			"for partial scans nothing is required of records below the start height; dropping of stale Unconfirmed records is only required of full scans".into(),
			"after a reorganisation, Unspent records of accounts other than the active one may be stale until that account's own refresh (the refresh preceding a scan is per account); they are checked after that refresh".into(),
		]
	}
	fn run(&mut self, c: &RepairCase) -> Outcome {
		let mut out = Outcome::default();
		self.n += 1;
		let dir = self.scratch.join(format!("c16.repair.case{}", self.n));
		let r = self.run_case(c, &dir, &mut out);
		let _ = std::fs::remove_dir_all(&dir);
		if let Err(e) = r {
			out.fail("c16:harness-error", e);
		}
		out
	}
}

fn find_entry(v: &View, parent: &Identifier, slate: &uuid::Uuid, ty: TxLogEntryType) -> Option<u32> {
	v.txs.iter().find(|t| &t.parent_key_id == parent && t.tx_slate_id == Some(*slate) && t.tx_type == ty).map(|t| t.id)
}

/// cancel-after-broadcast. Ok(Some(account the scan must run in)) when the cancelled transaction was mined.
fn run_cab(sim: &mut Sim, w: usize, cab: &Cab, steps: &mut Vec<String>) -> Result<Option<usize>, String> {
	let o = 1 - w;
	let a = idx(cab.acct, ACCOUNTS.len());
	sim.switch_account(w, a)?;
	if cab.kind % 5 == 4 {
		ensure_funds(sim, o)?;
		let si = sim.init_send(o, w, &cab.args)?;
		sim.lock(si)?;
		sim.deliver(si)?;
		sim.finalize(si)?;
		sim.post(si)?;
		mine_all(&mut *sim)?;
		if sim.slates[si].mined_at.is_none() {
			return Err("transaction was not mined".into());
		}
		let confirmed_at = sim.world.height();
		// 0..3 more blocks pass before the scan, so that start heights above the confirming block exist below the tip
		for _ in 0..(cab.args.change % 4) {
			sim.mine(None, 0)?;
		}
		steps.push(format!("wallet {} received a payment into account {} which confirmed at height {} (account not refreshed since; tip now {})", w, a, confirmed_at, sim.world.height()));
		return Ok(Some((a + 1) % ACCOUNTS.len()));
	}
	let (si, canceller_entry) = match cab.kind % 5 {
		0 => {
			let si = sim.init_send(w, o, &cab.args)?;
			sim.lock(si)?;
			sim.deliver(si)?;
			sim.finalize(si)?;
			(si, TxLogEntryType::TxSent)
		}
		1 => (sim.self_send(w, false, &cab.args)?, TxLogEntryType::TxSent),
		2 => (sim.self_send(w, true, &cab.args)?, TxLogEntryType::TxSent),
		_ => {
			ensure_funds(sim, o)?;
			let si = sim.init_send(o, w, &cab.args)?;
			sim.lock(si)?;
			sim.deliver(si)?;
			sim.finalize(si)?;
			(si, TxLogEntryType::TxReceived)
		}
	};
	sim.post(si)?;
	let id = sim.slates[si].id;
	let v = snap::view(sim.w(w));
	let parent = sim.acct_parent(a);
	let entry = find_entry(&v, &parent, &id, canceller_entry).ok_or("no log entry to cancel")?;
	sim.w(w).owner.cancel_tx(sim.w(w).m(), Some(entry), None).map_err(|e| format!("cancel_tx: {}", e))?;
	sim.slates[si].cancelled_by.insert(w);
	steps.push(format!("cancel-after-broadcast kind {} in account {} of wallet {}: posted, then log entry {} cancelled", cab.kind % 5, a, w, entry));
	mine_all(&mut *sim)?;
	if sim.slates[si].mined_at.is_none() {
		return Err("cancelled transaction was not mined".into());
	}
	steps.push(format!("cancelled transaction mined at height {}", sim.world.height()));
	Ok(Some(a))
}

/// Replace the last `depth` blocks by `depth + 1` empty blocks (rewards to nobody): a real reorganisation on the same chain object.
fn reorg(world: &mut World, depth: u64) -> Result<(), String> {
	let head = world.head_header();
	let depth = std::cmp::min(depth, head.height.saturating_sub(1));
	let mut anc = head.clone();
	for _ in 0..depth {
		anc = world.chain.get_previous_header(&anc).map_err(|e| format!("get_previous_header: {:?}", e))?;
	}
	let mut prev = anc.clone();
	for _ in 0..depth + 1 {
		let rew = world.coinbase_nobody(0);
		let b = world.build_block(&prev, &[], rew)?;
		world.process(b.clone())?;
		prev = b.header;
	}
	let h = world.head_header();
	if h.height != anc.height + depth + 1 || h.hash() != prev.hash() {
		return Err(format!("reorganisation did not take: head {} expected height {}", h.height, anc.height + depth + 1));
	}
	Ok(())
}

fn det_uuid(n: u32) -> uuid::Uuid {
	let mut b = [0xc1u8; 16];
	b[0..4].copy_from_slice(&n.to_be_bytes());
	uuid::Uuid::from_bytes(b)
}

impl Repair {
	fn run_case(&mut self, c: &RepairCase, dir: &PathBuf, out: &mut Outcome) -> Result<(), String> {
		let bases = match &self.bases {
			Ok(b) => b.clone(),
			Err(e) => {
				out.fail("c16:base-world", format!("mining to a fresh wallet and refreshing it failed: {}", e));
				return Ok(());
			}
		};
		let mut sim = base::open_copy(&bases[c.base as usize % bases.len()], dir)?;
		sim.strict = true;
		sim.never_mine_cancelled = true;
		let w = idx(c.wallet, sim.world.wallets.len());
		let kc: ExtKeychain = truth::keychain_from_phrase(&sim.w(w).phrase)?;
		let mut steps: Vec<String> = vec![];
		for op in &c.ops {
			let r = sim.apply(op);
			out.class(format!("op:{}:{}", r.kind, match &r.result { Some(Ok(_)) => "ok", Some(Err(_)) => "err", None => "noop" }));
		}
		sim.set_node_down(false);
		for k in 0..c.fanout {
			let sa = SendArgs { amount: AmountPick::Frac(9000), use_all: false, change: 4, ..SendArgs::default() };
			let _ = ensure_funds(&mut sim, w);
			match sim.self_send(w, k % 2 == 1, &sa) {
				Ok(si) => {
					let _ = sim.post(si);
					mine_all(&mut sim)?;
					out.class("fanout:ok");
				}
				Err(_) => out.class("fanout:unavailable"),
			}
		}
		mine_all(&mut sim)?;
		sim.never_mine_cancelled = false;
		for a in (0..ACCOUNTS.len()).rev() {
			sim.switch_account(w, a)?;
			match sim.refresh(w) {
				Ok(true) => {}
				other => return Err(format!("pre-injection refresh not successful: {:?}", other)),
			}
		}
		// precondition: the wallet's books equal the chain (C04's business; counted)
		{
			let owned = truth::owned_utxos(&sim.world.chain, &kc)?;
			let tmap = truth::by_commit(&owned);
			let v = snap::view(sim.w(w));
			let live: BTreeSet<Vec<u8>> = v.outputs.iter().filter(|o| o.status == OutputStatus::Unspent || o.status == OutputStatus::Locked).filter_map(cm).collect();
			let want: BTreeSet<Vec<u8>> = tmap.keys().cloned().collect();
			if live != want {
				out.class("precondition-failed");
				return Ok(());
			}
		}
		// ---- divergences
		let mut n_div = 0usize;
		let mut forced_acct: Option<usize> = None;
		if let Some(cab) = &c.cab {
			match run_cab(&mut sim, w, cab, &mut steps) {
				Ok(Some(a)) => {
					if cab.kind % 5 != 4 {
						n_div += 1;
					}
					out.class(format!("cab:{}:mined", cab.kind % 5));
					if cab.kind % 5 != 3 {
						forced_acct = Some(a);
					}
				}
				Ok(None) => {}
				Err(e) => {
					out.class(format!("cab:{}:unavailable", cab.kind % 5));
					steps.push(format!("cancel-after-broadcast not completed: {}", e));
				}
			}
		}
		let mut forked = false;
		if c.cab.is_none() && c.fork > 0 {
			let t0: BTreeSet<Vec<u8>> = truth::owned_utxos(&sim.world.chain, &kc)?.iter().map(|t| t.commit.0.to_vec()).collect();
			let h0 = sim.world.height();
			reorg(&mut sim.world, c.fork as u64)?;
			let t1: BTreeSet<Vec<u8>> = truth::owned_utxos(&sim.world.chain, &kc)?.iter().map(|t| t.commit.0.to_vec()).collect();
			forked = true;
			steps.push(format!("reorganisation: last {} block(s) below height {} replaced by {} empty blocks; {} owned outputs disappeared, {} reappeared", c.fork, h0, c.fork + 1, t0.difference(&t1).count(), t1.difference(&t0).count()));
			if t0 != t1 {
				n_div += 1;
				out.class(format!("fork:{}:effective", c.fork));
				if t1.difference(&t0).count() > 0 {
					out.class("fork:spent-outputs-reappeared");
				}
			} else {
				out.class(format!("fork:{}:no-effect", c.fork));
			}
		}
		let tip = sim.world.height();
		let owned = truth::owned_utxos(&sim.world.chain, &kc)?;
		let tmap = truth::by_commit(&owned);
		let before = snap::view(sim.w(w));
		// account every chain output is booked under (records as they are now; else key path)
		let mut acct_of: BTreeMap<Vec<u8>, Identifier> = BTreeMap::new();
		for o in &before.outputs {
			if let Some(cc) = cm(o) {
				if tmap.contains_key(&cc) {
					acct_of.insert(cc, o.root_key_id.clone());
				}
			}
		}
		let mut cands: Vec<OutputData> = before
			.outputs
			.iter()
			.filter(|o| o.status == OutputStatus::Unspent && cm(o).map(|k| tmap.contains_key(&k)).unwrap_or(false))
			.cloned()
			.collect();
		for (k, inj) in c.inj.iter().enumerate() {
			let wal = sim.w(w);
			let desc: Result<Option<String>, String> = match inj {
				Inject::Delete { i } | Inject::Spent { i } | Inject::Locked { i, .. } => {
					if cands.is_empty() {
						Ok(None)
					} else {
						let mut o = cands.remove(idx(*i, cands.len()));
						wal.with(|b| -> Result<Option<String>, String> {
							let parent = o.root_key_id.clone();
							let mut batch = b.batch(wal.m()).map_err(|e| e.to_string())?;
							let d = match inj {
								Inject::Delete { .. } => {
									batch.delete(&o.key_id, &o.mmr_index).map_err(|e| e.to_string())?;
									format!("record of {} (value {}, height {}, coinbase {}) deleted", o.key_id.to_hex(), o.value, o.height, o.is_coinbase)
								}
								Inject::Spent { .. } => {
									o.status = OutputStatus::Spent;
									let d = format!("record of {} (value {}, height {}) marked Spent", o.key_id.to_hex(), o.value, o.height);
									batch.save(o).map_err(|e| e.to_string())?;
									d
								}
								Inject::Locked { with_log, .. } => {
									o.status = OutputStatus::Locked;
									if *with_log {
										let id = batch.next_tx_log_id(&parent).map_err(|e| e.to_string())?;
										let mut t = TxLogEntry::new(parent.clone(), TxLogEntryType::TxSent, id);
										t.tx_slate_id = Some(det_uuid(k as u32));
										t.amount_debited = o.value;
										t.num_inputs = 1;
										batch.save_tx_log_entry(t, &parent).map_err(|e| e.to_string())?;
										o.tx_log_entry = Some(id);
									} else {
										o.tx_log_entry = None;
									}
									let d = format!("record of {} (value {}, height {}) marked Locked (log entry: {:?})", o.key_id.to_hex(), o.value, o.height, o.tx_log_entry);
									batch.save(o).map_err(|e| e.to_string())?;
									d
								}
								_ => unreachable!(),
							};
							batch.commit().map_err(|e| e.to_string())?;
							Ok(Some(d))
						})
					}
				}
				Inject::StaleUnconfirmed { acct, value, coinbase, with_log } => {
					let a = idx(*acct, ACCOUNTS.len());
					let parent = sim.acct_parent(a);
					wal.with(|b| -> Result<Option<String>, String> {
						let cur = b.parent_key_id();
						b.set_parent_key_id(parent.clone());
						let key = b.next_child(wal.m());
						b.set_parent_key_id(cur);
						let key_id = key.map_err(|e| e.to_string())?;
						let val = 1_000_000u64 + (*value as u64) * 1_000_000;
						let commit = b.calc_commit_for_cache(wal.m(), val, &key_id).map_err(|e| e.to_string())?;
						let mut batch = b.batch(wal.m()).map_err(|e| e.to_string())?;
						let mut log = None;
						if *with_log && !*coinbase {
							let id = batch.next_tx_log_id(&parent).map_err(|e| e.to_string())?;
							let mut t = TxLogEntry::new(parent.clone(), TxLogEntryType::TxReceived, id);
							t.tx_slate_id = Some(det_uuid(1000 + k as u32));
							t.amount_credited = val;
							t.num_outputs = 1;
							batch.save_tx_log_entry(t, &parent).map_err(|e| e.to_string())?;
							log = Some(id);
						}
						let (height, lock_height) = if *coinbase { (tip + 1, tip + 1 + global::coinbase_maturity()) } else { (tip, 0) };
						batch
							.save(OutputData {
								root_key_id: parent.clone(),
								n_child: key_id.to_path().last_path_index(),
								key_id: key_id.clone(),
								mmr_index: None,
								commit,
								value: val,
								status: OutputStatus::Unconfirmed,
								height,
								lock_height,
								is_coinbase: *coinbase,
								tx_log_entry: log,
							})
							.map_err(|e| e.to_string())?;
						batch.commit().map_err(|e| e.to_string())?;
						Ok(Some(format!("stale Unconfirmed record {} value {} coinbase {} added to account {} (log entry {:?})", key_id.to_hex(), val, coinbase, a, log)))
					})
				}
			};
			match desc? {
				Some(d) => {
					n_div += 1;
					out.class(format!(
						"inject:{}",
						match inj {
							Inject::Delete { .. } => "delete",
							Inject::Spent { .. } => "spent",
							Inject::Locked { with_log: true, .. } => "locked+log",
							Inject::Locked { .. } => "locked",
							Inject::StaleUnconfirmed { coinbase: true, .. } => "stale-unconfirmed-coinbase",
							Inject::StaleUnconfirmed { .. } => "stale-unconfirmed",
						}
					));
					steps.push(format!("inject: {}", d));
				}
				None => out.class("inject:no-candidate"),
			}
		}
		out.nontrivial = n_div >= 1;
		out.class(format!("divergences={}", std::cmp::min(n_div, 5)));
		// ---- scan
		let page = PAGES[c.page as usize % PAGES.len()];
		sim.world.node.with(|s| s.page = page);
		let sa = forced_acct.unwrap_or_else(|| idx(c.scan_acct, ACCOUNTS.len()));
		sim.switch_account(w, sa)?;
		let active_parent = sim.acct_parent(sa);
		let mut start = c.start.resolve(tip);
		if let (Some(cab), Some(s0)) = (&c.cab, start) {
			if cab.kind % 5 == 4 && forced_acct.is_some() && s0 > 1 {
				// partial scans that start above the block which confirmed the not-yet-refreshed receive
				let below = (cab.args.change % 4) as u64;
				let ch = tip.saturating_sub(below);
				start = Some(ch + 1 + s0 % (tip - ch + 1));
			}
		}
		let s_eff = start.unwrap_or(1);
		let full = s_eff <= 1;
		let del = c.delete_unconfirmed;
		out.class(format!("page={}", page));
		out.class(format!("owned={}", bucket(owned.len())));
		out.class(format!("scan:start={}:delete={}", c.start.class(), del));
		let pre = snap::view(sim.w(w));
		let pre_status: BTreeMap<Vec<u8>, (OutputStatus, Identifier)> = pre.outputs.iter().filter(|o| o.status != OutputStatus::Spent).filter_map(|o| cm(o).map(|k| (k, (o.status.clone(), o.root_key_id.clone())))).collect();
		let pending_locked = pre.outputs.iter().filter(|o| o.status == OutputStatus::Locked).count();
		let pending_unconf = pre.outputs.iter().filter(|o| o.status == OutputStatus::Unconfirmed).count();
		out.class(format!("pre-scan-locked={}", bucket(pending_locked)));
		out.class(format!("pre-scan-unconfirmed={}", bucket(pending_unconf)));
		// confirmed outputs still booked Unconfirmed in an account that is not active (its own refresh has not run since)
		let stale_inactive: Vec<Vec<u8>> = pre
			.outputs
			.iter()
			.filter(|o| o.status == OutputStatus::Unconfirmed && o.root_key_id != active_parent)
			.filter_map(cm)
			.filter(|k| tmap.contains_key(k))
			.collect();
		steps.push(format!("scan: wallet {} active account {} tip {} page {} start {:?} delete_unconfirmed {}", w, sa, tip, page, start, del));
		if let Err(e) = scan(&sim.world, sim.w(w), start, del) {
			out.fail("c16:repair:scan-error", format!("scan failed: {}", e));
			add_history(out, &sim, &steps);
			return Ok(());
		}
		let v1 = snap::view(sim.w(w));
		if del && !stale_inactive.is_empty() {
			out.class("delete-with-confirmed-unconfirmed-in-inactive-account");
			let gone: Vec<&Vec<u8>> = stale_inactive
				.iter()
				.filter(|k| !v1.outputs.iter().any(|o| cm(o).as_ref() == Some(*k) && (o.status == OutputStatus::Unspent || o.status == OutputStatus::Unconfirmed)))
				.collect();
			if !gone.is_empty() {
				let t = &tmap[gone[0]];
				out.fail(
					SIG_INACTIVE_DROP,
					format!(
						"scan(delete_unconfirmed=true) run with account {} active deleted the record of output {} (value {}, confirmed at height {}, account {}), which IS in the chain's unspent set: it was still booked Unconfirmed only because its own account had not been refreshed since it confirmed",
						sa,
						hexs(gone[0]),
						t.value,
						t.height,
						t.parent.to_hex()
					),
				);
				add_history(out, &sim, &steps);
				return Ok(());
			}
		}
		// A: every owned chain output at or above the start height is recorded
		let no_named = BTreeSet::new();
		for (k, t) in &tmap {
			if t.height < s_eff {
				continue;
			}
			let recs: Vec<&OutputData> = v1.outputs.iter().filter(|o| cm(o).as_ref() == Some(k) && o.status != OutputStatus::Spent).collect();
			if recs.len() > 1 {
				out.fail("c16:repair:duplicate-record", format!("{} live records for chain output {}", recs.len(), hexs(k)));
				continue;
			}
			let st = recs.first().map(|o| o.status.clone());
			let pre_st = pre_status.get(k);
			let ok = match (&st, del) {
				(Some(OutputStatus::Unspent), _) => true,
				(Some(OutputStatus::Locked), false) => matches!(pre_st, Some((OutputStatus::Locked, _))),
				(Some(OutputStatus::Unconfirmed), false) => matches!(pre_st, Some((OutputStatus::Unconfirmed, p)) if *p != active_parent),
				_ => false,
			};
			if !ok {
				let has_spent = v1.outputs.iter().any(|o| cm(o).as_ref() == Some(k) && o.status == OutputStatus::Spent);
				let sig = match (&st, pre_st.map(|x| &x.0)) {
					(None, _) if has_spent => "c16:repair:spent-not-repaired",
					(None, _) => "c16:repair:not-restored",
					(Some(OutputStatus::Locked), _) => "c16:repair:locked-remains",
					(Some(OutputStatus::Unconfirmed), _) => "c16:repair:unconfirmed-remains",
					_ => "c16:repair:not-unspent",
				};
				out.fail(
					sig,
					format!("after scan(start {:?}, delete_unconfirmed {}): chain output {} (value {}, height {}, coinbase {}) is recorded as {:?} (before the scan: {:?})", start, del, hexs(k), t.value, t.height, t.is_coinbase, st, pre_st.map(|x| &x.0)),
				);
			}
		}
		// B: every Unspent record is an owned, unspent chain output with the chain's attributes
		for o in v1.outputs.iter().filter(|o| o.status == OutputStatus::Unspent) {
			match cm(o).and_then(|k| tmap.get(&k).map(|t| (k, t))) {
				// after a reorganisation, records of accounts that were not active are only brought up to date by their own refresh
				None if forked && o.root_key_id != active_parent => {}
				None => out.fail("c16:repair:unspent-not-on-chain", format!("after the scan the wallet records {} (value {}, height {}, account {}) as Unspent but it is not an unspent output of this seed on chain", o.key_id.to_hex(), o.value, o.height, o.root_key_id.to_hex())),
				Some((k, t)) => check_record("repair", o, t, acct_of.get(&k).or(Some(&t.parent)), &no_named, out),
			}
		}
		// D: asked to drop pending transactions
		if del && full {
			for o in &v1.outputs {
				let on_chain = cm(o).map(|k| tmap.contains_key(&k)).unwrap_or(false);
				if o.status == OutputStatus::Unconfirmed {
					out.fail("c16:repair:unconfirmed-remains", format!("delete_unconfirmed full scan left an Unconfirmed record {} value {} (on chain: {})", o.key_id.to_hex(), o.value, on_chain));
				}
				if o.status == OutputStatus::Locked && (on_chain || o.root_key_id == active_parent) {
					out.fail("c16:repair:locked-remains", format!("delete_unconfirmed full scan left a Locked record {} value {} (on chain: {})", o.key_id.to_hex(), o.value, on_chain));
				}
			}
		}
		// E: second identical scan changes nothing
		if out.fails.is_empty() {
			let s1 = snap::deep(sim.w(w), &self.scratch)?;
			if let Err(e) = scan(&sim.world, sim.w(w), start, del) {
				out.fail("c16:repair:scan-error", format!("second scan failed: {}", e));
			}
			let s2 = snap::deep(sim.w(w), &self.scratch)?;
			let d = snap::diff(&s1, &s2);
			if !d.is_empty() {
				out.fail("c16:repair:second-scan-changed", format!("a second identical scan changed the wallet: {}", d.join(" | ")));
			}
		}
		// F: per account, after its own refresh: figures and live records equal the chain
		if out.fails.is_empty() {
			for a in 0..ACCOUNTS.len() {
				let parent = sim.acct_parent(a);
				if forked && a != sa {
					// after a reorganisation an account is brought up to date by a scan run with it active
					// (a plain refresh only looks at outputs of outstanding transactions)
					sim.switch_account(w, a)?;
					if let Err(e) = scan(&sim.world, sim.w(w), start, del) {
						out.fail("c16:repair:scan-error", format!("scan with account {} active failed: {}", a, e));
						break;
					}
				}
				let (validated, figs) = account_figures(sim.w(w), ACCOUNTS[a])?;
				sim.active[w] = a;
				if !validated {
					return Err("post-scan refresh not validated".into());
				}
				let v = snap::view(sim.w(w));
				let mine: Vec<&Owned> = owned.iter().filter(|t| acct_of.get(&t.commit.0.to_vec()).unwrap_or(&t.parent) == &parent).collect();
				let locked: BTreeSet<Vec<u8>> = v.outputs.iter().filter(|o| o.root_key_id == parent && o.status == OutputStatus::Locked).filter_map(cm).collect();
				if del && full && locked.iter().any(|k| tmap.contains_key(k)) {
					out.fail("c16:repair:locked-remains", format!("account {} still holds a reservation on a chain output after a delete_unconfirmed full scan", a));
				}
				let live: BTreeSet<Vec<u8>> = v.outputs.iter().filter(|o| o.root_key_id == parent && (o.status == OutputStatus::Unspent || o.status == OutputStatus::Locked)).filter_map(cm).collect();
				let want: BTreeSet<Vec<u8>> = mine.iter().map(|t| t.commit.0.to_vec()).collect();
				if live != want {
					let extra: Vec<String> = live.difference(&want).map(|k| hexs(k)).collect();
					let missing: Vec<String> = want.difference(&live).map(|k| hexs(k)).collect();
					out.fail("c16:repair:books-differ-after-refresh", format!("account {} after scan and its own refresh: live records not on chain {:?}; chain outputs without live record {:?}", a, extra, missing));
					continue;
				}
				for (i, m) in min_confs().iter().enumerate() {
					let want = fig_truth(mine.iter().cloned(), &locked, tip, *m);
					if figs[i] != want {
						out.fail("c16:repair:figures", format!("account {} min_conf {} tip {}: reports {:?}, chain says {:?}", a, m, tip, figs[i], want));
						break;
					}
				}
			}
		}
		add_history(out, &sim, &steps);
		Ok(())
	}
}

// ---------------------------------------------------------------------------------------------

// ---------------------------------------------------------------------------------------------
// part `big` (thorough only): > 1000 unspent outputs on chain, page 1000

#[derive(Clone, Debug, Serialize, Deserialize)]
pub struct BigCase {
	pub by_refresh: bool,
	/// node page size: 1000, or one off on either side
	pub page: u16,
}

pub struct Big {
	scratch: PathBuf,
	base: Option<PathBuf>,
	n: u64,
}

impl Big {
	pub fn new(args: &Args) -> Big {
		Big { scratch: args.scratch.clone(), base: None, n: 0 }
	}
	/// 993 blocks to nobody, then 5 + 5 blocks to two accounts of the wallet, then 4 + 102 to nobody (outputs below tip - 100):
	/// the wallet's outputs straddle the 1000th unspent output on chain.
	fn base(&mut self) -> Result<PathBuf, String> {
		if let Some(b) = &self.base {
			return Ok(b.clone());
		}
		let d = self.scratch.join("c16.bigbase");
		let _ = std::fs::remove_dir_all(&d);
		let mut w = World::create(&d)?;
		w.add_wallet("w0", None, "", false)?;
		w.add_wallet("w1", None, "", false)?;
		w.wallets[0].owner.create_account_path(w.wallets[0].m(), ACCOUNTS[1]).map_err(|e| e.to_string())?;
		w.mine_n(None, 993)?;
		w.mine_n(Some(0), 5)?;
		w.wallets[0].set_account(ACCOUNTS[1])?;
		w.mine_n(Some(0), 5)?;
		w.mine_n(None, 4)?;
		// the wallet sees its outputs confirm (it forgets unconfirmed coinbase candidates older than 50 blocks)
		for round in 0..2 {
			for a in (0..ACCOUNTS.len()).rev() {
				w.wallets[0].set_account(ACCOUNTS[a])?;
				let r = w.wallets[0].owner.retrieve_summary_info(w.wallets[0].m(), true, 1).map_err(|e| e.to_string())?;
				if !r.0 {
					return Err("big base: refresh not validated".into());
				}
			}
			if round == 0 {
				w.mine_n(None, 102)?;
			}
		}
		w.save_meta();
		drop(w);
		self.base = Some(d.clone());
		Ok(d)
	}
}

impl Prop for Big {
	type Case = BigCase;
	fn id(&self) -> &'static str {
		"C16"
	}
	fn part(&self) -> &'static str {
		"big"
	}
	fn cases(&self, tier: Tier) -> u64 {
		tier.pick(0, 3)
	}
	fn shrink_iters(&self) -> u32 {
		2
	}
	fn strategy(&self, _tier: Tier) -> BoxedStrategy<BigCase> {
		(any::<bool>(), prop_oneof![2 => Just(1000u16), 1 => Just(999u16), 1 => Just(1001u16)]).prop_map(|(by_refresh, page)| BigCase { by_refresh, page }).boxed()
	}
	fn rule(&self) -> String {
		"thorough only: one chain of 1109 blocks with > 1000 unspent outputs, the wallet's 10 coinbase outputs (2 accounts) straddling the 1000th; restore with page size 999/1000/1001 (the wallet asks for batches of 1000) by scan or by refresh; same oracle as `restore`".into()
	}
	fn run(&mut self, c: &BigCase) -> Outcome {
		let mut out = Outcome::default();
		self.n += 1;
		let dir = self.scratch.join(format!("c16.big.case{}", self.n));
		let r = (|| -> Result<(), String> {
			let base = self.base()?;
			let mut sim = base::open_copy(&base, &dir)?;
			let mut steps = vec![];
			let named = BTreeSet::new();
			let n_unspent = sim.world.chain.unspent_outputs_by_pmmr_index(1, 100_000, None).map_err(|e| format!("{:?}", e))?.2.len();
			out.class(format!("unspent-outputs-on-chain>1000={}", n_unspent > 1000));
			let r = restore_and_check(&self.scratch, &mut sim, 0, &dir, c.page as u64, c.by_refresh, &StartPick::None, &named, &mut out, &mut steps);
			out.nontrivial = n_unspent as u64 > c.page as u64;
			add_history(&mut out, &sim, &steps);
			r
		})();
		let _ = std::fs::remove_dir_all(&dir);
		if let Err(e) = r {
			out.fail("c16:harness-error", e);
		}
		out
	}
}

fn want(args: &Args, p: &str) -> bool {
	args.part.as_deref().map(|x| x == p).unwrap_or(true)
}

pub fn run(args: &Args, rep: &mut Report) {
	if want(args, "restore") {
		let mut p = Restore::new(args);
		run_part(&mut p, args, rep);
	}
	if want(args, "repair") {
		let mut p = Repair::new(args);
		run_part(&mut p, args, rep);
	}
	if want(args, "big") && (args.tier == Tier::Thorough || args.part.as_deref() == Some("big")) {
		let mut p = Big::new(args);
		run_part(&mut p, args, rep);
	}
}

pub fn replay(args: &Args, part: &str, case: &serde_json::Value) -> Result<Outcome, String> {
	match part {
		"restore" => replay_part(&mut Restore::new(args), case),
		"repair" => replay_part(&mut Repair::new(args), case),
		"big" => replay_part(&mut Big::new(args), case),
		_ => Err(format!("unknown part {}", part)),
	}
}

#[allow(dead_code)]
fn _unused(_p: &Path) {}
