//! C17 — expired slates are refused at every step; expired pending transactions are released at refresh.
//!
//! Five parts, one per placement of the cutoff:
//!   receive           S1 delivered to foreign `receive_tx`
//!   pay-invoice       I1 given to owner `process_invoice_tx`
//!   finalize          S2 reply given to the sender's `finalize_tx`
//!   finalize-invoice  I2 reply given to the payee's `finalize_tx`
//!   expire            the wallet's own pending entries (sender / recipient / invoice payer) + refresh at tip around c
//!
//! Every case of the four step parts prepares a world once (other pending transactions, the target slate, wallet
//! refreshed at h, 0..3 more blocks mined without refreshing), closes it, and then sweeps ALL seven cutoffs
//! {0, 1, h-1, h, h+1, h+k, u64::MAX}: each on its own copy of the prepared world, re-opened from disk.
//! The expire part sweeps the tips {now, c-1, c, c+1} (directly, and as one chained path) the same way.

use crate::base::{self, BaseSpec};
use crate::rt::*;
use crate::sim::*;
use crate::snap::{self, View};
use crate::world::World;
use grin_wallet_libwallet::{Error as WErr, IssueInvoiceTxArgs, OutputData, OutputStatus, Slate, TxLogEntry, TxLogEntryType};
use proptest::prelude::*;
use serde_derive::{Deserialize, Serialize};
use std::collections::{BTreeMap, BTreeSet};
use std::path::{Path, PathBuf};
use uuid::Uuid;

/// wallet under test / counterparty
const W: usize = 0;
const X: usize = 1;

// ---------------------------------------------------------------------------------------------
// cutoffs

#[derive(Clone, Copy, Debug, PartialEq, Eq, PartialOrd, Ord)]
pub enum Cut {
	None,
	One,
	HMinus1,
	H,
	HPlus1,
	HPlusK,
	Max,
}

pub const CUTS: [Cut; 7] = [Cut::None, Cut::One, Cut::HMinus1, Cut::H, Cut::HPlus1, Cut::HPlusK, Cut::Max];

impl Cut {
	fn name(&self) -> &'static str {
		match self {
			Cut::None => "c=0",
			Cut::One => "c=1",
			Cut::HMinus1 => "c=h-1",
			Cut::H => "c=h",
			Cut::HPlus1 => "c=h+1",
			Cut::HPlusK => "c=h+k",
			Cut::Max => "c=max",
		}
	}
	fn value(&self, h: u64, k: u64) -> u64 {
		match self {
			Cut::None => 0,
			Cut::One => 1,
			Cut::HMinus1 => h - 1,
			Cut::H => h,
			Cut::HPlus1 => h + 1,
			Cut::HPlusK => h + k,
			Cut::Max => u64::MAX,
		}
	}
	/// `ttl_blocks` to pass at height `t` so that the slate honestly carries this cutoff, given that the wallet
	/// under test will refresh at h = t + m
	fn blocks(&self, t: u64, m: u64, k: u64) -> Option<u64> {
		match self {
			Cut::None | Cut::One => None,
			Cut::HMinus1 => Some(m - 1),
			Cut::H => Some(m),
			Cut::HPlus1 => Some(m + 1),
			Cut::HPlusK => Some(m + k),
			Cut::Max => Some(u64::MAX - t),
		}
	}
}

// ---------------------------------------------------------------------------------------------
// other pending transactions

#[derive(Clone, Debug, Serialize, Deserialize)]
pub struct Other {
	/// 0 W sends (locked) · 1 W received from X · 2 W issued an invoice · 3 W paid X's invoice (locked)
	pub kind: u8,
	/// 0 no cutoff · 1 far ahead (40 blocks) · n>=2: n-2 (+shift) blocks from the tip at creation
	pub ttl: u8,
}

fn other_strategy() -> BoxedStrategy<Other> {
	(0u8..4, prop_oneof![3 => Just(0u8), 2 => Just(1u8), 4 => 2u8..8])
		.prop_map(|(kind, ttl)| Other { kind, ttl })
		.boxed()
}

fn others_strategy() -> BoxedStrategy<(u8, Vec<Other>)> {
	(
		prop_oneof![4 => Just(0u8), 4 => Just(2u8), 1 => Just(1u8), 1 => Just(3u8)],
		prop::collection::vec(other_strategy(), 3..=3),
	)
		.boxed()
}

/// `shift` is added to near cutoffs (step parts: the blocks mined before W's refresh, so that near cutoffs lie around h)
fn other_ttl(o: &Other, shift: u8) -> Option<u8> {
	match o.ttl {
		0 => None,
		1 => Some(40),
		n => Some(n - 2 + shift),
	}
}

/// Create one other pending transaction in W's active account. Returns (slate id, cutoff it was created with).
fn make_other(sim: &mut Sim, o: &Other, shift: u8, hist: &mut Vec<String>) -> Result<(Uuid, Option<u64>), String> {
	let tip = sim.world.height();
	let ttl = other_ttl(o, shift);
	let cut = ttl.map(|b| tip + b as u64);
	let small = SendArgs {
		amount: AmountPick::Frac(2500),
		use_all: false,
		change: 1,
		min_conf: 1,
		ttl,
		..SendArgs::default()
	};
	let r = match o.kind % 4 {
		0 => {
			let si = sim.init_send(W, X, &small)?;
			sim.lock(si)?;
			(sim.slates[si].id, cut)
		}
		1 => {
			// X never reserves: it only needs to produce an honest S1
			let si = sim.init_send(X, W, &small)?;
			sim.deliver(si)?;
			(sim.slates[si].id, cut)
		}
		2 => {
			let amt = std::cmp::max(1, sim.spendable(X, 1) / 50);
			let si = sim.issue_invoice(W, X, amt)?;
			(sim.slates[si].id, None)
		}
		_ => {
			let amt = std::cmp::max(1, sim.spendable(W, 1) / 40);
			let si = sim.issue_invoice(X, W, amt)?;
			sim.pay_invoice(si, &small)?;
			sim.lock(si)?;
			(sim.slates[si].id, cut)
		}
	};
	hist.push(format!("other kind={} created at tip {} with cutoff {:?} (slate {})", o.kind % 4, tip, r.1, r.0));
	Ok(r)
}

// ---------------------------------------------------------------------------------------------
// helpers on the raw API

fn sanitize(a: &SendArgs, allow_ttl: bool) -> SendArgs {
	let mut a = a.clone();
	a.amount = match a.amount {
		AmountPick::Frac(f) => AmountPick::Frac(f >> 1),
		AmountPick::Over => AmountPick::One,
		x => x,
	};
	if a.late_lock {
		a.proof = false;
	}
	// an amount of 1 cannot include the fee
	if a.amount == AmountPick::One {
		a.incl_fee = false;
	}
	// zero change outputs is only accepted when there is no change at all
	if a.change == 0 && a.amount != AmountPick::AllInclFee {
		a.change = 1;
	}
	if !allow_ttl {
		a.ttl = None;
	}
	a
}

fn init_send_raw(sim: &Sim, w: usize, to: usize, a: &SendArgs, ttl_blocks: Option<u64>) -> Result<Slate, String> {
	let amount = sim.pick_amount(w, a);
	let proof_to = if a.proof { Some(sim.slatepack_address(to)?) } else { None };
	let mut args = sim.init_args(w, a, amount, proof_to);
	args.ttl_blocks = ttl_blocks;
	sim.w(w).owner.init_send_tx(sim.w(w).m(), args).map_err(|e| format!("init_send_tx: {}", e))
}

fn lock_raw(sim: &Sim, w: usize, s: &Slate) -> Result<(), String> {
	sim.w(w).owner.tx_lock_outputs(sim.w(w).m(), s).map_err(|e| format!("tx_lock_outputs: {}", e))
}

fn receive_raw(sim: &Sim, w: usize, s: &Slate) -> Result<Slate, WErr> {
	let s = wire(s).map_err(WErr::GenericError)?;
	sim.w(w).foreign().receive_tx(&s, None, None)
}

fn finalize_raw(sim: &Sim, w: usize, s: &Slate, via_foreign: bool) -> Result<Slate, WErr> {
	let s = wire(s).map_err(WErr::GenericError)?;
	if via_foreign {
		sim.w(w).foreign().finalize_tx(&s, false)
	} else {
		sim.w(w).owner.finalize_tx(sim.w(w).m(), &s)
	}
}

fn issue_raw(sim: &Sim, w: usize, amount: u64) -> Result<Slate, String> {
	sim.w(w)
		.owner
		.issue_invoice_tx(
			sim.w(w).m(),
			IssueInvoiceTxArgs {
				amount,
				..Default::default()
			},
		)
		.map_err(|e| format!("issue_invoice_tx: {}", e))
}

fn pay_raw(sim: &Sim, w: usize, i1: &Slate, a: &SendArgs, amount: u64, ttl_blocks: Option<u64>) -> Result<Slate, WErr> {
	let i1 = wire(i1).map_err(WErr::GenericError)?;
	let mut args = sim.init_args(w, a, amount, None);
	args.num_change_outputs = std::cmp::max(1, args.num_change_outputs);
	args.amount_includes_fee = None;
	args.late_lock = Some(false);
	args.ttl_blocks = ttl_blocks;
	sim.w(w).owner.process_invoice_tx(sim.w(w).m(), &i1, args)
}

fn refresh_raw(sim: &Sim, w: usize) -> Result<bool, WErr> {
	sim.w(w).owner.retrieve_summary_info(sim.w(w).m(), true, 1).map(|r| r.0)
}

fn must_refresh(sim: &Sim, w: usize, what: &str) -> Result<(), String> {
	match refresh_raw(sim, w) {
		Ok(true) => Ok(()),
		Ok(false) => Err(format!("{}: refresh not validated although the node is up", what)),
		Err(e) => Err(format!("{}: refresh failed: {}", what, e)),
	}
}

fn stored_h(sim: &Sim, w: usize) -> u64 {
	sim.w(w).with(|b| b.last_confirmed_height().unwrap_or(u64::MAX))
}

fn open_branch(prep: &Path, to: &Path, acct: usize) -> Result<Sim, String> {
	let _ = std::fs::remove_dir_all(to);
	crate::world::copy_tree(prep, to).map_err(|e| e.to_string())?;
	let w = World::open(to)?;
	let mut sim = Sim::new(w);
	sim.switch_account(W, acct)?;
	Ok(sim)
}

fn pending_in(v: &View, parent: &grin_keychain::Identifier) -> Vec<TxLogEntry> {
	v.txs
		.iter()
		.filter(|t| &t.parent_key_id == parent && !t.confirmed && matches!(t.tx_type, TxLogEntryType::TxSent | TxLogEntryType::TxReceived))
		.cloned()
		.collect()
}

fn build_bases(args: &Args) -> Vec<PathBuf> {
	let specs = [
		BaseSpec {
			mined: vec![(0, 0, 5), (1, 0, 4), (0, 1, 4)],
			tail: 3,
			wallets: 2,
		},
		BaseSpec {
			mined: vec![(0, 1, 4), (1, 0, 3), (0, 0, 6), (1, 1, 1)],
			tail: 4,
			wallets: 2,
		},
	];
	let mut v = vec![];
	for (i, s) in specs.iter().enumerate() {
		let d = args.scratch.join(format!("c17.base{}", i));
		base::build(&d, s).expect("base world");
		v.push(d);
	}
	v
}

fn append_history(out: &mut Outcome, hist: &[String]) {
	if !out.fails.is_empty() {
		let h = hist.join("\n");
		for f in out.fails.iter_mut() {
			f.detail = format!("{}\n--- history ---\n{}", f.detail, h);
		}
	}
}

// ---------------------------------------------------------------------------------------------
// step parts

#[derive(Clone, Copy, Debug, PartialEq, Eq)]
pub enum Place {
	Receive,
	PayInvoice,
	FinalizeSend,
	FinalizeInvoice,
}

impl Place {
	fn name(&self) -> &'static str {
		match self {
			Place::Receive => "receive",
			Place::PayInvoice => "pay-invoice",
			Place::FinalizeSend => "finalize",
			Place::FinalizeInvoice => "finalize-invoice",
		}
	}
	fn from_name(s: &str) -> Option<Place> {
		[Place::Receive, Place::PayInvoice, Place::FinalizeSend, Place::FinalizeInvoice]
			.iter()
			.copied()
			.find(|p| p.name() == s)
	}
	/// cutoff the target slate can honestly carry from its creation (others are produced by editing the field)
	fn clamp_carried(&self, c: Cut) -> Cut {
		match self {
			Place::Receive => match c {
				Cut::One => Cut::None,
				x => x,
			},
			Place::PayInvoice => Cut::None,
			Place::FinalizeSend | Place::FinalizeInvoice => match c {
				Cut::HPlus1 | Cut::HPlusK | Cut::Max => c,
				_ => Cut::None,
			},
		}
	}
}

#[derive(Clone, Debug, Serialize, Deserialize)]
pub struct StepCase {
	pub base: u8,
	/// active account of the wallet under test
	pub acct: u8,
	pub n_others: u8,
	pub others: Vec<Other>,
	/// blocks mined between the creation of the slates and the wallet's refresh (h = start + m)
	pub m: u8,
	/// blocks mined after that refresh, without refreshing (tip = h + hoff)
	pub hoff: u8,
	pub k: u8,
	/// index into CUTS: the cutoff the slate carries from its honest creation via ttl_blocks (clamped per placement)
	pub carried: u8,
	/// arguments of the spending side of the target transaction
	pub args: SendArgs,
	pub via_foreign: bool,
	/// after the refresh at h and the hoff blocks, the wallet's OTHER account refreshes at the tip
	pub other_acct_refresh: bool,
}

pub struct Steps {
	place: Place,
	scratch: PathBuf,
	bases: Vec<PathBuf>,
	n: u64,
}

enum StepRes {
	Ok,
	Expired,
	Other(String),
}

struct Branch {
	cut: Cut,
	c: u64,
	edited: bool,
	res: StepRes,
	diff: Vec<String>,
}

impl Prop for Steps {
	type Case = StepCase;
	fn id(&self) -> &'static str {
		"C17"
	}
	fn part(&self) -> &'static str {
		self.place.name()
	}
	fn cases(&self, tier: Tier) -> u64 {
		tier.pick(48, 800)
	}
	fn shrink_iters(&self) -> u32 {
		8
	}
	fn strategy(&self, _tier: Tier) -> BoxedStrategy<StepCase> {
		let place = self.place;
		(
			0u8..2,
			prop_oneof![3 => Just(0u8), 1 => Just(1u8)],
			others_strategy(),
			1u8..4,
			0u8..4,
			2u8..10,
			prop_oneof![3 => Just(0u8), 5 => 2u8..7],
			send_args_strategy(false, place == Place::FinalizeSend, place == Place::Receive || place == Place::FinalizeSend, place == Place::PayInvoice),
			any::<bool>(),
			prop::bool::weighted(0.15),
		)
			.prop_map(|(base, acct, (n_others, others), m, hoff, k, carried, args, via_foreign, other_acct_refresh)| StepCase {
				base,
				acct,
				n_others,
				others,
				m,
				hoff,
				k,
				carried,
				args,
				via_foreign,
				other_acct_refresh,
			})
			.boxed()
	}
	fn rule(&self) -> String {
		format!(
			"placement '{}': wallet W (account 0/1 active) with 0..3 other pending transactions (sent+locked / received / invoice issued / invoice paid, each with no, a far or a near cutoff); the target slate is created honestly (optionally carrying a cutoff from ttl_blocks), m=1..3 blocks are mined, W refreshes (h), hoff=0..3 more blocks are mined WITHOUT refresh (optionally W's other account refreshes at the tip); the world is closed and, on 7 copies re-opened from disk, the slate is handed to the step with ttl_cutoff_height = each of {{0, 1, h-1, h, h+1, h+k, u64::MAX}} (field edited unless it is the honestly carried value). Oracle: refused with raw DB + stored files unchanged (snap::deep) iff c != 0 and h >= c; otherwise the step must succeed (a TransactionExpired error, or any error while another unexpired branch of the same case succeeds, is a violation). Not judged (classes only): a reply whose honest cutoff was stripped to 0; cutoffs in (h, tip] when another account of the wallet has observed the tip. non-trivial = every case (each sweeps c in {{0, max, h-1, h, h+1}}); distinct by case hash; evaluations = judged branches",
			self.place.name()
		)
	}
	fn assumptions(&self) -> Vec<String> {
		vec![
			"the height a wallet 'has observed' is the chain height at the last successful refresh of its active account (libwallet check_ttl doc / controller/tests/ttl_cutoff.rs: 'Wallet 2 will need to have updated past the TTL'); blocks mined since then do not count".into(),
			"ttl_cutoff_height is not covered by any signature, so a counterparty can supply any value: editing the field of an otherwise honest slate is an input a real caller can produce".into(),
		]
	}
	fn run(&mut self, c: &StepCase) -> Outcome {
		let mut out = Outcome::default();
		self.n += 1;
		let dir = self.scratch.join(format!("c17.{}.case{}", self.place.name(), self.n));
		let mut hist = vec![];
		let r = self.run_case(c, &dir, &mut out, &mut hist);
		let _ = std::fs::remove_dir_all(&dir);
		if let Err(e) = r {
			out.fail("c17:harness-error", e);
		}
		append_history(&mut out, &hist);
		out
	}
}

impl Steps {
	fn run_case(&mut self, c: &StepCase, dir: &PathBuf, out: &mut Outcome, hist: &mut Vec<String>) -> Result<(), String> {
		let place = self.place;
		let pname = place.name();
		let prep = dir.join("prep");
		let mut sim = base::open_copy(&self.bases[c.base as usize % self.bases.len()], &prep)?;
		let acct = c.acct as usize % ACCOUNTS.len();
		sim.switch_account(W, acct)?;
		let t0 = sim.world.height();
		let m = std::cmp::max(1, c.m as u64 % 4);
		let hoff = c.hoff as u64 % 4;
		let k = std::cmp::max(2, c.k as u64 % 16);
		let carried = place.clamp_carried(CUTS[c.carried as usize % CUTS.len()]);
		let n_others = std::cmp::min(c.n_others as usize, c.others.len());
		let args = sanitize(&c.args, place == Place::PayInvoice);
		hist.push(format!("start tip {} ; W account {} ; placement {} ; carried {} ; m {} hoff {} k {}", t0, acct, pname, carried.name(), m, hoff, k));
		// ---- other pending transactions of W
		let mut made = 0;
		for o in c.others.iter().take(n_others) {
			match make_other(&mut sim, o, m as u8, hist) {
				Ok(_) => made += 1,
				Err(e) => {
					out.class("other-not-created");
					hist.push(format!("other kind={} not created: {}", o.kind % 4, e));
				}
			}
		}
		// ---- the target slate, produced by honest steps at tip t0
		let ttl_blocks = carried.blocks(t0, m, k);
		let mut pay_amount = 0u64;
		let target: Result<Slate, String> = (|| match place {
			Place::Receive => {
				let mut a = args.clone();
				a.late_lock = false;
				init_send_raw(&sim, X, W, &a, ttl_blocks)
			}
			Place::PayInvoice => {
				let sp = sim.spendable(W, args.min_conf as u64);
				pay_amount = std::cmp::max(1, sp / 3);
				issue_raw(&sim, X, pay_amount)
			}
			Place::FinalizeSend => {
				let s1 = init_send_raw(&sim, W, X, &args, ttl_blocks)?;
				if !args.late_lock {
					lock_raw(&sim, W, &s1)?;
				}
				receive_raw(&sim, X, &s1).map_err(|e| format!("X receive_tx: {}", e))
			}
			Place::FinalizeInvoice => {
				let amt = std::cmp::max(1, sim.spendable(X, args.min_conf as u64) / 3);
				let i1 = issue_raw(&sim, W, amt)?;
				let i2 = pay_raw(&sim, X, &i1, &args, amt, ttl_blocks).map_err(|e| format!("X process_invoice_tx: {}", e))?;
				lock_raw(&sim, X, &i2)?;
				Ok(i2)
			}
		})();
		let target = match target {
			Ok(s) => s,
			Err(e) => {
				out.class("target-not-created");
				hist.push(format!("target not created: {}", e));
				crate::rt::dbg(&format!("c17 {}: target not created: {}", pname, e));
				return Ok(());
			}
		};
		hist.push(format!("target slate {} created, ttl_cutoff_height {}", target.id, target.ttl_cutoff_height));
		// ---- W observes h = t0 + m, the chain moves on to h + hoff
		for _ in 0..m {
			sim.mine(None, 0)?;
		}
		must_refresh(&sim, W, "refresh at h")?;
		let h = sim.world.height();
		for _ in 0..hoff {
			sim.mine(None, 0)?;
		}
		let mut observed_max = h;
		if c.other_acct_refresh {
			let oa = (acct + 1) % ACCOUNTS.len();
			sim.switch_account(W, oa)?;
			must_refresh(&sim, W, "refresh of the other account")?;
			sim.switch_account(W, acct)?;
			observed_max = sim.world.height();
			out.class("other-account-refreshed-at-tip");
		}
		let tip = sim.world.height();
		hist.push(format!("W refreshed account {} at h={} ; tip now {}{}", acct, h, tip, if c.other_acct_refresh { " ; W's other account refreshed at the tip" } else { "" }));
		let sh = stored_h(&sim, W);
		if sh != h {
			return Err(format!("harness assumption broken: active account refreshed at {} but its stored last confirmed height is {}", h, sh));
		}
		let want_carried = carried.value(h, k);
		if target.ttl_cutoff_height != want_carried {
			out.fail(
				format!("c17:{}:cutoff-value", pname),
				format!("slate created at tip {} with ttl_blocks {:?} carries cutoff {} instead of {}", t0, ttl_blocks, target.ttl_cutoff_height, want_carried),
			);
			return Ok(());
		}
		let parent = sim.w(W).active_parent();
		let pending = pending_in(&snap::view(sim.w(W)), &parent)
			.iter()
			.filter(|t| t.tx_slate_id != Some(target.id))
			.count();
		out.class(format!("others-pending={}", std::cmp::min(pending, 3)));
		out.class(format!("others-asked={}", if n_others == 0 { "0" } else if n_others == 2 { "2" } else { "1|3" }));
		out.class(format!("hoff={}", hoff));
		out.class(format!("carried:{}", carried.name()));
		let _ = made;
		drop(sim);
		// ---- sweep
		let mut branches: Vec<Branch> = vec![];
		for (bi, cut) in CUTS.iter().enumerate() {
			let cval = cut.value(h, k);
			let mut sl = target.clone();
			let edited = *cut != carried;
			sl.ttl_cutoff_height = cval;
			let bdir = dir.join(format!("b{}", bi));
			let s2 = open_branch(&prep, &bdir, acct)?;
			if stored_h(&s2, W) != h {
				return Err("re-opened wallet reports a different last confirmed height".into());
			}
			let before = snap::deep(s2.w(W), &self.scratch)?;
			let r: Result<Slate, WErr> = match place {
				Place::Receive => receive_raw(&s2, W, &sl),
				Place::PayInvoice => pay_raw(&s2, W, &sl, &args, pay_amount, args.ttl.map(|t| t as u64)),
				Place::FinalizeSend | Place::FinalizeInvoice => finalize_raw(&s2, W, &sl, c.via_foreign),
			};
			let after = snap::deep(s2.w(W), &self.scratch)?;
			let diff = snap::diff(&before, &after);
			let res = match r {
				Ok(_) => StepRes::Ok,
				Err(WErr::TransactionExpired) => StepRes::Expired,
				Err(e) => StepRes::Other(format!("{} ({:?})", e, e)),
			};
			hist.push(format!(
				"branch {} ({}{}): {} -> {} ; {} record(s) changed",
				cut.name(),
				cval,
				if edited { ", field edited" } else { ", as honestly created" },
				pname,
				match &res {
					StepRes::Ok => "Ok".to_string(),
					StepRes::Expired => "Err TransactionExpired".to_string(),
					StepRes::Other(e) => format!("Err {}", e),
				},
				diff.len()
			));
			drop(s2);
			let _ = std::fs::remove_dir_all(&bdir);
			branches.push(Branch {
				cut: *cut,
				c: cval,
				edited,
				res,
				diff,
			});
		}
		// ---- judge
		let is_reply = matches!(place, Place::FinalizeSend | Place::FinalizeInvoice);
		let mut judged = 0u64;
		let mut ok_unexpired = 0;
		let mut other_err: Vec<(Cut, String)> = vec![];
		for b in &branches {
			let expired = b.c != 0 && h >= b.c;
			let ambiguous = !expired && b.c != 0 && observed_max >= b.c;
			let stripped = is_reply && b.edited && b.c == 0 && carried != Cut::None;
			let oc = match &b.res {
				StepRes::Ok => "ok",
				StepRes::Expired => "refused-expired",
				StepRes::Other(_) => "refused-other",
			};
			if stripped {
				out.class(format!("observed:stripped-reply:{}", oc));
				continue;
			}
			if ambiguous {
				out.class(format!("observed:cutoff-seen-by-other-account-only:{}", oc));
				continue;
			}
			judged += 1;
			out.class(format!("{}:{}", b.cut.name(), oc));
			if expired {
				match &b.res {
					StepRes::Ok => out.fail(
						format!("c17:{}:expired-accepted", pname),
						format!("{} accepted a slate with cutoff {} although the wallet's active account last refreshed at height {} >= cutoff (tip {})", pname, b.c, h, tip),
					),
					_ => {
						if !b.diff.is_empty() {
							out.fail(
								format!("c17:{}:refused-but-changed", pname),
								format!("{} refused the expired slate (cutoff {}, h {}) but changed wallet state: {:?}", pname, b.c, h, b.diff),
							);
						}
					}
				}
			} else {
				match &b.res {
					StepRes::Ok => ok_unexpired += 1,
					StepRes::Expired => out.fail(
						format!("c17:{}:unexpired-refused", pname),
						format!("{} refused as expired a slate with cutoff {} although the wallet has only observed height {} (tip {})", pname, b.c, h, tip),
					),
					StepRes::Other(e) => other_err.push((b.cut, e.clone())),
				}
			}
		}
		if !other_err.is_empty() {
			if ok_unexpired > 0 {
				let (cut, e) = &other_err[0];
				out.fail(
					format!("c17:{}:cutoff-dependent-failure", pname),
					format!("{} succeeds for some unexpired cutoffs but fails for {} (h {}): {}", pname, cut.name(), h, e),
				);
			} else {
				// the step fails whatever the cutoff: not a TTL matter (environment of this case)
				out.class("env:step-fails-for-every-unexpired-cutoff");
				crate::rt::dbg(&format!("c17 {}: step fails for every unexpired cutoff: {}", pname, other_err[0].1));
			}
		}
		out.evals = Some(std::cmp::max(1, judged));
		out.nontrivial = judged > 0;
		Ok(())
	}
}

// ---------------------------------------------------------------------------------------------
// expire part

#[derive(Clone, Debug, Serialize, Deserialize)]
pub struct ExpCase {
	pub base: u8,
	pub acct: u8,
	pub n_others: u8,
	pub others: Vec<Other>,
	/// 0 sender (ttl_blocks at init) · 1 recipient (cutoff carried by the received slate; k % 3 == 0: W cancels the
	/// receive and takes the same slate again, so a cancelled and a live entry share the slate id) · 2 invoice payer
	/// (ttl_blocks when paying) · 3 self-send inside W's active account (a sent and a received entry share the slate id)
	pub role: u8,
	/// 0 entry created · 1 counterparty replied · 2 finalized · 3 posted and mined
	pub stage: u8,
	/// stage 3: W refreshes right after the block that confirms the transaction
	pub seen_confirmed: bool,
	/// 0 none · 1..=4: ttl_blocks 0..3 · 5: ttl_blocks k · 6: cutoff u64::MAX
	pub b_sel: u8,
	pub k: u8,
	/// recipient role: cutoff from the sender's ttl_blocks (true) or edited into S1 (false)
	pub honest: bool,
	/// the spending side sends everything it has, fee included: the transaction has no change output
	pub no_change: bool,
	pub args: SendArgs,
}

pub struct Expire {
	scratch: PathBuf,
	bases: Vec<PathBuf>,
	n: u64,
}

struct ExpCtx {
	cuts: BTreeMap<Uuid, Option<u64>>,
	mined: BTreeSet<Uuid>,
	target: Option<Uuid>,
	judged: u64,
	near: bool,
}

fn outs_of<'a>(v: &'a View, parent: &grin_keychain::Identifier, log_id: u32) -> Vec<&'a OutputData> {
	v.outputs.iter().filter(|o| &o.root_key_id == parent && o.tx_log_entry == Some(log_id)).collect()
}

fn find_out<'a>(v: &'a View, o: &OutputData) -> Option<&'a OutputData> {
	v.outputs.iter().find(|x| x.key_id == o.key_id && x.mmr_index == o.mmr_index)
}

/// Refresh W at the current tip and judge every entry that was pending before. Returns false when the path must stop.
fn judged_refresh(sim: &Sim, ctx: &mut ExpCtx, out: &mut Outcome, hist: &mut Vec<String>) -> Result<bool, String> {
	let parent = sim.w(W).active_parent();
	let t = sim.world.height();
	let v0 = snap::view(sim.w(W));
	let pend = pending_in(&v0, &parent);
	match refresh_raw(sim, W) {
		Ok(true) => {}
		Ok(false) => return Err("refresh not validated although the node is up".into()),
		Err(e) => {
			let confirmed_expired = pend.iter().any(|p| {
				p.tx_slate_id.map(|i| ctx.mined.contains(&i)).unwrap_or(false)
					&& p.tx_slate_id.and_then(|i| ctx.cuts.get(&i).cloned()).flatten().map(|c| t >= c).unwrap_or(false)
			});
			let sig = match (&e, confirmed_expired) {
				(WErr::TransactionNotCancellable(_), true) => "c17:expire:refresh-fails-on-confirmed-expired",
				_ => "c17:expire:refresh-error",
			};
			hist.push(format!("refresh at tip {} -> Err {}", t, e));
			out.class("refresh:error");
			out.fail(sig, format!("refresh at tip {} failed: {} ({:?})", t, e, e));
			return Ok(false);
		}
	}
	let v1 = snap::view(sim.w(W));
	hist.push(format!("refresh at tip {} -> ok ({} entries were pending)", t, pend.len()));
	for e in &pend {
		let id = match e.tx_slate_id {
			Some(i) => i,
			None => continue,
		};
		let cut = match ctx.cuts.get(&id) {
			Some(c) => *c,
			None => continue,
		};
		let is_target = ctx.target == Some(id);
		let who = if is_target { "target" } else { "other" };
		let now = match v1.txs.iter().find(|x| x.parent_key_id == parent && x.id == e.id) {
			Some(n) => n,
			None => {
				out.fail("c17:expire:entry-lost", format!("entry {} ({:?}) disappeared at refresh (tip {})", e.id, e.tx_type, t));
				continue;
			}
		};
		let cancelled_now = matches!(now.tx_type, TxLogEntryType::TxSentCancelled | TxLogEntryType::TxReceivedCancelled);
		let outs0 = outs_of(&v0, &parent, e.id);
		ctx.judged += 1;
		match cut {
			None | Some(u64::MAX) => ctx.near = true,
			Some(c) => {
				if (c as i128 - t as i128).abs() <= 1 {
					ctx.near = true
				}
			}
		}
		let rel = match cut {
			None => "no-cutoff".to_string(),
			Some(u64::MAX) => "c=max".to_string(),
			Some(c) if t + 1 < c => "tip<c-1".to_string(),
			Some(c) if t + 1 == c => "tip=c-1".to_string(),
			Some(c) if t == c => "tip=c".to_string(),
			Some(c) if t == c + 1 => "tip=c+1".to_string(),
			_ => "tip>c+1".to_string(),
		};
		if ctx.mined.contains(&id) {
			out.class(format!("{}:on-chain:{}:{}", who, rel, if cancelled_now { "cancelled" } else if now.confirmed { "confirmed" } else { "pending" }));
			if cancelled_now {
				out.fail(
					"c17:expire:confirmed-cancelled",
					format!("{:?} entry {} (cutoff {:?}) whose transaction is on the chain was cancelled by the refresh at tip {}", e.tx_type, e.id, cut, t),
				);
			}
			continue;
		}
		let expired = cut.map(|c| t >= c).unwrap_or(false);
		out.class(format!("{}:{}:{}", who, rel, if cancelled_now { "cancelled" } else { "kept" }));
		if expired {
			let want = match e.tx_type {
				TxLogEntryType::TxSent => TxLogEntryType::TxSentCancelled,
				_ => TxLogEntryType::TxReceivedCancelled,
			};
			if now.tx_type != want {
				out.fail(
					"c17:expire:not-cancelled",
					format!("{:?} entry {} with cutoff {:?} is {:?} after a refresh at tip {} >= cutoff (expected {:?})", e.tx_type, e.id, cut, now.tx_type, t, want),
				);
				continue;
			}
			for o in &outs0 {
				let n = find_out(&v1, o);
				match o.status {
					OutputStatus::Locked => match n {
						Some(n) if n.status == OutputStatus::Unspent && n.value == o.value => {}
						other => out.fail(
							"c17:expire:input-not-released",
							format!("input {:?} (value {}) reserved by the expired entry {} is {:?} after the refresh at tip {}, expected Unspent", o.key_id, o.value, e.id, other.map(|x| (x.status.clone(), x.value)), t),
						),
					},
					OutputStatus::Unconfirmed => {
						if let Some(n) = n {
							out.fail(
								"c17:expire:output-remains",
								format!("output {:?} created by the expired entry {} is still recorded ({:?}) after the refresh at tip {}", o.key_id, e.id, n.status, t),
							);
						}
					}
					_ => {}
				}
			}
		} else {
			if cancelled_now {
				out.fail(
					"c17:expire:unexpired-cancelled",
					format!("{:?} entry {} with cutoff {:?} was cancelled by a refresh at tip {} (cutoff absent or still ahead)", e.tx_type, e.id, cut, t),
				);
				continue;
			}
			if serde_json::to_value(e).ok() != serde_json::to_value(now).ok() {
				out.fail("c17:expire:unexpired-entry-touched", format!("entry changed at refresh (tip {}, cutoff {:?}): {:?} -> {:?}", t, cut, e, now));
			}
			for o in &outs0 {
				match find_out(&v1, o) {
					Some(n) if n.status == o.status && n.value == o.value => {}
					other => out.fail(
						"c17:expire:unexpired-output-touched",
						format!("output {:?} ({:?}) of the unexpired entry {} (cutoff {:?}) is {:?} after the refresh at tip {}", o.key_id, o.status, e.id, cut, other.map(|x| (x.status.clone(), x.value)), t),
					),
				}
			}
		}
	}
	Ok(true)
}

impl Prop for Expire {
	type Case = ExpCase;
	fn id(&self) -> &'static str {
		"C17"
	}
	fn part(&self) -> &'static str {
		"expire"
	}
	fn cases(&self, tier: Tier) -> u64 {
		tier.pick(96, 1600)
	}
	fn shrink_iters(&self) -> u32 {
		8
	}
	fn strategy(&self, _tier: Tier) -> BoxedStrategy<ExpCase> {
		(
			0u8..2,
			prop_oneof![3 => Just(0u8), 1 => Just(1u8)],
			others_strategy(),
			prop_oneof![3 => Just(0u8), 3 => Just(1u8), 3 => Just(2u8), 2 => Just(3u8)],
			prop_oneof![3 => Just(0u8), 1 => Just(1u8), 2 => Just(2u8), 3 => Just(3u8)],
			any::<bool>(),
			prop_oneof![1 => Just(0u8), 8 => 1u8..6, 1 => Just(6u8)],
			4u8..9,
			any::<bool>(),
			prop::bool::weighted(0.3),
			send_args_strategy(false, true, false, false),
		)
			.prop_map(|(base, acct, (n_others, others), role, stage, seen_confirmed, b_sel, k, honest, no_change, args)| ExpCase {
				base,
				acct,
				n_others,
				others,
				role,
				stage,
				seen_confirmed,
				b_sel,
				k,
				honest,
				no_change,
				args,
			})
			.boxed()
	}
	fn rule(&self) -> String {
		"wallet W (account 0/1 active) with 0..3 other pending transactions (own or no cutoffs) and a target transaction in which W is sender (ttl_blocks at init), recipient (cutoff carried by the received slate, honest or edited; in a third of the cases W cancels the receive and takes the same slate again), invoice payer (ttl_blocks when paying) or both sides of a self-send inside one account, cutoff c = creation tip + {none, 0, 1, 2, 3, k} or u64::MAX, advanced to stage created / replied / finalized / mined (optionally seen confirmed); the world is closed and re-opened on copies; paths: direct jump to each tip in {now, c-1, c, c+1} and one chained path refreshing at each of them in turn. Oracle after every refresh at tip T, for every entry of the active account that was pending before it: transaction on chain => never cancelled; cutoff c' != none and T >= c' => entry TxSentCancelled/TxReceivedCancelled, its Locked inputs Unspent with the same value, its Unconfirmed outputs gone; otherwise entry record and its outputs identical. The expected cutoff is the one the harness asked for (creation tip + ttl_blocks), not the stored field. A refresh returning an error is a violation. non-trivial = some judged entry has |T - c'| <= 1 or c' in {none, max}; distinct by case hash; evaluations = judged (entry, refresh) pairs".into()
	}
	fn assumptions(&self) -> Vec<String> {
		vec!["only entries of the account that is active during the refresh are judged (a refresh updates the active account)".into(), "inputs are selected with minimum_confirmations >= 1, so a released input is an on-chain unspent output and must read Unspent".into()]
	}
	fn run(&mut self, c: &ExpCase) -> Outcome {
		let mut out = Outcome::default();
		self.n += 1;
		let dir = self.scratch.join(format!("c17.expire.case{}", self.n));
		let mut hist = vec![];
		let r = self.run_case(c, &dir, &mut out, &mut hist);
		let _ = std::fs::remove_dir_all(&dir);
		if let Err(e) = r {
			out.fail("c17:harness-error", e);
		}
		append_history(&mut out, &hist);
		out
	}
}

impl Expire {
	fn run_case(&mut self, c: &ExpCase, dir: &PathBuf, out: &mut Outcome, hist: &mut Vec<String>) -> Result<(), String> {
		let prep = dir.join("prep");
		let mut sim = base::open_copy(&self.bases[c.base as usize % self.bases.len()], &prep)?;
		let acct = c.acct as usize % ACCOUNTS.len();
		sim.switch_account(W, acct)?;
		let t0 = sim.world.height();
		let k = std::cmp::max(4, c.k as u64 % 16);
		let role = c.role % 4;
		let stage = c.stage % 4;
		let mut args = c.args.clone();
		if c.no_change {
			args.amount = AmountPick::AllInclFee;
			args.use_all = true;
		}
		let mut args = sanitize(&args, false);
		if role == 3 {
			args.proof = false;
		}
		if stage < 2 || role != 0 {
			args.late_lock = false;
		} else if c.k % 4 != 3 && !args.proof {
			// most finalized sender cases are late-locked (reservation and log entry are made at finalize time)
			args.late_lock = true;
		}
		let b: Option<u64> = match c.b_sel % 7 {
			0 => None,
			n @ 1..=4 => Some(n as u64 - 1),
			5 => Some(k),
			_ => Some(u64::MAX - t0),
		};
		let cut = b.map(|b| t0 + b);
		hist.push(format!("start tip {} ; W account {} ; role {} stage {} ttl_blocks {:?} -> cutoff {:?}", t0, acct, role, stage, b, cut));
		let mut ctx = ExpCtx {
			cuts: BTreeMap::new(),
			mined: BTreeSet::new(),
			target: None,
			judged: 0,
			near: false,
		};
		let n_others = std::cmp::min(c.n_others as usize, c.others.len());
		for o in c.others.iter().take(n_others) {
			match make_other(&mut sim, o, 0, hist) {
				Ok((id, cu)) => {
					ctx.cuts.insert(id, cu);
				}
				Err(e) => {
					out.class("other-not-created");
					hist.push(format!("other kind={} not created: {}", o.kind % 4, e));
				}
			}
		}
		out.class(format!("others-asked={}", if n_others == 0 { "0" } else if n_others == 2 { "2" } else { "1|3" }));
		out.class(format!("role={} stage={}", role, stage));
		// ---- target
		let mut reached = 0u8;
		let mut entry_exists = false;
		let mut bad_cut: Option<String> = None;
		let tr: Result<(), String> = (|| {
			let check = |s: &Slate, bad: &mut Option<String>| {
				if s.ttl_cutoff_height != cut.unwrap_or(0) {
					*bad = Some(format!("slate created at tip {} with ttl_blocks {:?} carries cutoff {} instead of {}", t0, b, s.ttl_cutoff_height, cut.unwrap_or(0)));
				}
			};
			match role {
				0 => {
					let s1 = init_send_raw(&sim, W, X, &args, b)?;
					ctx.target = Some(s1.id);
					ctx.cuts.insert(s1.id, cut);
					check(&s1, &mut bad_cut);
					if !args.late_lock {
						lock_raw(&sim, W, &s1)?;
						entry_exists = true;
					}
					if stage >= 1 {
						let s2 = receive_raw(&sim, X, &s1).map_err(|e| format!("X receive_tx: {}", e))?;
						reached = 1;
						if stage >= 2 {
							if args.late_lock && c.k % 8 != 0 {
								// a late-locked send selects and reserves at finalize time: let the chain move on in between,
								// the recorded cutoff must still be the one the slate carries
								sim.mine(None, 0)?;
								hist.push(format!("block mined between reply and late-locked finalize, tip {}", sim.world.height()));
							}
							let s3 = finalize_raw(&sim, W, &s2, false).map_err(|e| format!("W finalize_tx: {}", e))?;
							entry_exists = true;
							reached = 2;
							if stage >= 3 {
								sim.w(W).owner.post_tx(sim.w(W).m(), &s3, true).map_err(|e| format!("post_tx: {}", e))?;
							}
						}
					}
				}
				1 => {
					let mut s1 = init_send_raw(&sim, X, W, &args, if c.honest { b } else { None })?;
					if c.honest {
						check(&s1, &mut bad_cut);
					} else {
						s1.ttl_cutoff_height = cut.unwrap_or(0);
					}
					ctx.target = Some(s1.id);
					ctx.cuts.insert(s1.id, cut);
					if stage >= 2 {
						lock_raw(&sim, X, &s1)?;
					}
					let mut s2 = receive_raw(&sim, W, &s1).map_err(|e| format!("W receive_tx: {}", e))?;
					entry_exists = true;
					if c.k % 3 == 0 {
						// W drops the payment and then accepts the same slate again: one cancelled and one live entry
						sim.w(W).owner.cancel_tx(sim.w(W).m(), None, Some(s1.id)).map_err(|e| format!("W cancel_tx: {}", e))?;
						s2 = receive_raw(&sim, W, &s1).map_err(|e| format!("W receive_tx (again): {}", e))?;
						hist.push("W cancelled the received entry and received the same slate again".into());
					}
					if stage >= 2 {
						let s3 = finalize_raw(&sim, X, &s2, false).map_err(|e| format!("X finalize_tx: {}", e))?;
						reached = 2;
						if stage >= 3 {
							sim.w(X).owner.post_tx(sim.w(X).m(), &s3, true).map_err(|e| format!("post_tx: {}", e))?;
						}
					}
				}
				3 => {
					let s1 = init_send_raw(&sim, W, W, &args, b)?;
					ctx.target = Some(s1.id);
					ctx.cuts.insert(s1.id, cut);
					check(&s1, &mut bad_cut);
					lock_raw(&sim, W, &s1)?;
					entry_exists = true;
					if stage >= 1 {
						let s2 = receive_raw(&sim, W, &s1).map_err(|e| format!("W receive_tx (self): {}", e))?;
						reached = 1;
						if stage >= 2 {
							let s3 = finalize_raw(&sim, W, &s2, false).map_err(|e| format!("W finalize_tx (self): {}", e))?;
							reached = 2;
							if stage >= 3 {
								sim.w(W).owner.post_tx(sim.w(W).m(), &s3, true).map_err(|e| format!("post_tx: {}", e))?;
							}
						}
					}
				}
				_ => {
					let amt = std::cmp::max(1, sim.spendable(W, args.min_conf as u64) / 3);
					let i1 = issue_raw(&sim, X, amt)?;
					let i2 = pay_raw(&sim, W, &i1, &args, amt, b).map_err(|e| format!("W process_invoice_tx: {}", e))?;
					ctx.target = Some(i2.id);
					ctx.cuts.insert(i2.id, cut);
					check(&i2, &mut bad_cut);
					lock_raw(&sim, W, &i2)?;
					entry_exists = true;
					if stage >= 2 {
						let i3 = finalize_raw(&sim, X, &i2, true).map_err(|e| format!("X finalize_tx: {}", e))?;
						reached = 2;
						if stage >= 3 {
							sim.w(X).owner.post_tx(sim.w(X).m(), &i3, true).map_err(|e| format!("post_tx: {}", e))?;
						}
					}
				}
			}
			if stage >= 3 {
				let n = sim.mine(None, 0xffff)?;
				if n >= 1 {
					reached = 3;
					if let Some(id) = ctx.target {
						ctx.mined.insert(id);
					}
				} else {
					return Err("posted transaction was not accepted into the block".into());
				}
			}
			Ok(())
		})();
		if let Some(e) = bad_cut {
			out.fail("c17:expire:cutoff-value", e);
			return Ok(());
		}
		if let Err(e) = tr {
			hist.push(format!("target stopped at stage {}: {}", reached, e));
			out.class("target-stopped-early");
		}
		if !entry_exists {
			out.class("no-target-entry");
		}
		hist.push(format!("target {:?} reached stage {} ; entry exists: {} ; tip {}", ctx.target, reached, entry_exists, sim.world.height()));
		out.class(format!("reached={}", reached));
		if reached == 3 && c.seen_confirmed {
			out.class("seen-confirmed");
			if !judged_refresh(&sim, &mut ctx, out, hist)? {
				out.evals = Some(std::cmp::max(1, ctx.judged));
				out.nontrivial = true;
				return Ok(());
			}
		}
		let t_now = sim.world.height();
		drop(sim);
		// ---- paths
		let focus = if entry_exists { cut } else { ctx.cuts.values().filter_map(|c| *c).min() };
		let mut tips: BTreeSet<u64> = BTreeSet::new();
		tips.insert(t_now);
		match focus {
			Some(cv) if cv <= t_now + 9 && cv + 1 >= t_now => {
				for t in &[cv.saturating_sub(1), cv, cv + 1] {
					if *t >= t_now {
						tips.insert(*t);
					}
				}
			}
			_ => {
				tips.insert(t_now + 1);
				tips.insert(t_now + 3);
			}
		}
		let tips: Vec<u64> = tips.into_iter().collect();
		let mut paths: Vec<Vec<u64>> = tips.iter().map(|t| vec![*t]).collect();
		if tips.len() > 1 {
			paths.push(tips.clone());
		}
		for (pi, path) in paths.iter().enumerate() {
			let bdir = dir.join(format!("p{}", pi));
			let mut s2 = open_branch(&prep, &bdir, acct)?;
			hist.push(format!("path {:?}", path));
			for t in path {
				while s2.world.height() < *t {
					s2.mine(None, 0)?;
				}
				if !judged_refresh(&s2, &mut ctx, out, hist)? {
					break;
				}
			}
			drop(s2);
			let _ = std::fs::remove_dir_all(&bdir);
			if !out.fails.is_empty() {
				break;
			}
		}
		out.evals = Some(std::cmp::max(1, ctx.judged));
		out.nontrivial = ctx.near && ctx.judged > 0;
		Ok(())
	}
}

// ---------------------------------------------------------------------------------------------

pub fn run(args: &Args, rep: &mut Report) {
	let bases = build_bases(args);
	let want = |p: &str| args.part.as_ref().map(|x| x == p).unwrap_or(true);
	for place in [Place::Receive, Place::PayInvoice, Place::FinalizeSend, Place::FinalizeInvoice].iter() {
		if want(place.name()) {
			let mut p = Steps {
				place: *place,
				scratch: args.scratch.clone(),
				bases: bases.clone(),
				n: 0,
			};
			run_part(&mut p, args, rep);
		}
	}
	if want("expire") {
		let mut p = Expire {
			scratch: args.scratch.clone(),
			bases: bases.clone(),
			n: 0,
		};
		run_part(&mut p, args, rep);
	}
}

pub fn replay(args: &Args, part: &str, case: &serde_json::Value) -> Result<Outcome, String> {
	let bases = build_bases(args);
	if part == "expire" {
		return replay_part(
			&mut Expire {
				scratch: args.scratch.clone(),
				bases,
				n: 0,
			},
			case,
		);
	}
	match Place::from_name(part) {
		Some(place) => replay_part(
			&mut Steps {
				place,
				scratch: args.scratch.clone(),
				bases,
				n: 0,
			},
			case,
		),
		None => Err(format!("unknown part {}", part)),
	}
}
