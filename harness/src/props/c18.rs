//! C18 — a reorganised-away incoming payment is found reverted by scan, never spendable.
//!
//! Scenario: wallet 0 pays wallet 1 (the receiver); the payment is mined at block r and confirmed by the
//! receiver. A fork is then mined on an ancestor `depth` blocks below the tip on the REAL chain
//! (`World::mine_on`), long enough to become the best chain, with or without the payment transaction.
//! Up to three flip-flops re-extend the losing branch. `owner.scan` / ordinary refreshes are issued at
//! generated points (before the fork overtakes, right after, after re-mining).
//!
//! Ground truth = `truth::owned_utxos` on the current best chain (independent rewind) + kernel lookup.

use crate::base::{self, BaseSpec};
use crate::rt::*;
use crate::sim::*;
use crate::snap;
use crate::truth::{self, Owned};
use grin_core::core::hash::Hash;
use grin_core::core::{BlockHeader, Transaction};
use grin_core::global;
use grin_keychain::{ExtKeychain, Identifier};
use grin_util::secp::pedersen::Commitment;
use grin_wallet_libwallet::{InitTxArgs, OutputData, OutputStatus, TxLogEntryType, WalletInfo};
use proptest::prelude::*;
use serde_derive::{Deserialize, Serialize};
use std::collections::BTreeMap;
use std::path::PathBuf;
use uuid::Uuid;

const SENDER: usize = 0;
const RECEIVER: usize = 1;

#[derive(Clone, Debug, Serialize, Deserialize)]
pub struct Look {
	/// 0 nothing, 1 ordinary refresh (retrieve_summary_info(refresh=true)), 2 owner.scan(None, false)
	pub kind: u8,
	/// after a scan: read the figures with refresh_from_node=true (as the repo's own revert test does)
	pub read_refresh: bool,
	/// after a scan: 0 none, 1 estimate (use_all), 2 real init_send_tx + tx_lock_outputs (then cancel)
	pub probe: u8,
	pub frac: u16,
	pub min_conf: u8,
	pub use_all: bool,
}

#[derive(Clone, Debug, Serialize, Deserialize)]
pub struct Round {
	/// blocks beyond the one that overtakes
	pub extra: u8,
	/// reward per block of this extension (cycled): 0 nobody, 1 receiver
	pub rewards: Vec<u8>,
	/// include the payment transaction in block idx(tx_at, len) of this extension (only if this branch lacks it)
	pub tx_at: Option<u16>,
	/// look after idx(mid_at, need+1) blocks of the extension, i.e. before it overtakes
	pub mid_at: u16,
	pub mid: Look,
	/// looks right after the extension has become the best chain
	pub after: Vec<Look>,
}

#[derive(Clone, Debug, Serialize, Deserialize)]
pub struct Case {
	pub base: u8,
	/// receiver's active account (0 default, 1 acct1)
	pub racct: u8,
	pub amount: u16,
	/// rewards of the blocks before the payment block (0 nobody, 1 receiver)
	pub pre: Vec<u8>,
	/// receiver refreshes before receiving (moves kernel_lookup_min_height)
	pub pre_refresh: bool,
	pub r_rew: u8,
	/// rewards of the blocks after the payment block on the original branch
	pub post: Vec<u8>,
	pub early_refresh: bool,
	pub tip_refresh: bool,
	/// fork point = tip - depth (1..=6)
	pub depth: u8,
	/// round 0 = the fork; rounds 1.. = flip-flops (the losing branch is re-extended)
	pub rounds: Vec<Round>,
	/// if the best chain lacks the payment at the end: mine it again on the tip, then ONE ordinary refresh
	pub remine: bool,
	pub remine_scan_first: bool,
	pub remine_confs: u8,
	pub remine_rewards: Vec<u8>,
	/// final look (kind forced to scan)
	pub last: Look,
}

fn look_strategy(w_none: u32, w_refresh: u32, w_scan: u32) -> BoxedStrategy<Look> {
	(
		prop_oneof![w_none => Just(0u8), w_refresh => Just(1u8), w_scan => Just(2u8)],
		any::<bool>(),
		prop_oneof![2 => Just(0u8), 3 => Just(1u8), 4 => Just(2u8)],
		any::<u16>(),
		prop_oneof![1 => Just(0u8), 5 => Just(1u8), 2 => Just(2u8), 1 => Just(3u8)],
		any::<bool>(),
	)
		.prop_map(|(kind, read_refresh, probe, frac, min_conf, use_all)| Look {
			kind,
			read_refresh,
			probe,
			frac,
			min_conf,
			use_all,
		})
		.boxed()
}

fn round_strategy() -> BoxedStrategy<Round> {
	(
		prop_oneof![3 => Just(0u8), 2 => Just(1u8), 1 => Just(2u8)],
		prop::collection::vec(0u8..2, 1..4),
		prop_oneof![5 => Just(None), 2 => any::<u16>().prop_map(Some)],
		any::<u16>(),
		look_strategy(5, 2, 3),
		prop::collection::vec(look_strategy(2, 3, 5), 1..3),
	)
		.prop_map(|(extra, rewards, tx_at, mid_at, mid, after)| Round {
			extra,
			rewards,
			tx_at,
			mid_at,
			mid,
			after,
		})
		.boxed()
}

pub struct C18 {
	scratch: PathBuf,
	bases: Vec<PathBuf>,
	n: u64,
	/// wall-clock seconds per activity (reported in coverage only; no oracle depends on it)
	t: BTreeMap<&'static str, f64>,
}

impl C18 {
	fn tick(&mut self, what: &'static str, t0: std::time::Instant) {
		*self.t.entry(what).or_insert(0.0) += t0.elapsed().as_secs_f64();
	}
	pub fn new(args: &Args) -> C18 {
		let mut bases = vec![];
		for v in 0..3u64 {
			let d = args.scratch.join(format!("c18.base{}", v));
			base::build(&d, &BaseSpec::standard(v)).expect("base world");
			bases.push(d);
		}
		C18 {
			scratch: args.scratch.clone(),
			bases,
			n: 0,
			t: BTreeMap::new(),
		}
	}
}

/// What the harness knows about the payment under study (protocol ledger, not a wallet model).
struct Pay {
	slate_id: Uuid,
	tx: Transaction,
	excess: Commitment,
	commit: Vec<u8>,
	value: u64,
	parent: Identifier,
}

struct Branch {
	tip: BlockHeader,
	has_tx: bool,
}

#[derive(Default)]
struct St {
	/// head at which the last owner.scan completed with all checks passing
	synced_at: Option<Hash>,
	/// the first reorg has happened
	forked: bool,
	/// number of scan looks evaluated after the first reorg on a chain lacking / containing the kernel
	scans_lacking: u32,
	scans_containing: u32,
	probes_send: u32,
	probes_est: u32,
}

#[derive(Clone, Debug)]
struct PayView {
	ty: Option<TxLogEntryType>,
	confirmed: bool,
	status: Option<OutputStatus>,
	height: u64,
	/// the output record no longer points at the receive entry (tx_lock_outputs of a later send re-linked it)
	relinked: bool,
}

impl PayView {
	fn short(&self) -> String {
		format!(
			"{}{}/{}",
			match &self.ty {
				Some(t) => format!("{:?}", t),
				None => "NoEntry".into(),
			},
			if self.confirmed { "+" } else { "-" },
			match &self.status {
				Some(s) => snap::status_name(s),
				None => "NoOutput",
			}
		)
	}
}

fn pay_view(sim: &Sim, p: &Pay) -> PayView {
	let v = snap::view(sim.w(RECEIVER));
	// the entry as the owner API reports it (active account = the payment's account); fall back to the raw log
	let api: Vec<grin_wallet_libwallet::TxLogEntry> = sim
		.w(RECEIVER)
		.owner
		.retrieve_txs(sim.w(RECEIVER).m(), false, None, Some(p.slate_id), None)
		.map(|r| r.1)
		.unwrap_or_default();
	let e = api
		.iter()
		.find(|t| t.tx_slate_id == Some(p.slate_id) && t.parent_key_id == p.parent)
		.or_else(|| v.txs.iter().find(|t| t.tx_slate_id == Some(p.slate_id) && t.parent_key_id == p.parent));
	let o = v.outputs.iter().find(|o| commit_of(o).as_ref() == Some(&p.commit));
	PayView {
		ty: e.map(|t| t.tx_type.clone()),
		confirmed: e.map(|t| t.confirmed).unwrap_or(false),
		status: o.map(|o| o.status.clone()),
		height: o.map(|o| o.height).unwrap_or(0),
		relinked: match (e, o) {
			(Some(e), Some(o)) => o.tx_log_entry != Some(e.id),
			_ => false,
		},
	}
}

fn info(sim: &Sim, refresh: bool, min_conf: u64) -> Result<(bool, WalletInfo), String> {
	sim.w(RECEIVER)
		.owner
		.retrieve_summary_info(sim.w(RECEIVER).m(), refresh, min_conf)
		.map_err(|e| e.to_string())
}

fn head_hash(sim: &Sim) -> Hash {
	sim.world.chain.head().unwrap().last_block_h
}

/// Owned unspent outputs of account `parent` on the current best chain, by commitment.
fn truth_of(sim: &Sim, kc: &ExtKeychain, parent: &Identifier) -> Result<BTreeMap<Vec<u8>, Owned>, String> {
	let owned = truth::owned_utxos(&sim.world.chain, kc)?;
	Ok(owned
		.into_iter()
		.filter(|o| &o.parent == parent)
		.map(|o| (o.commit.0.to_vec(), o))
		.collect())
}

/// (spendable, awaiting, immature, total) recomputed from chain data; `locked` = commitments the wallet reserved.
fn figures(g: &BTreeMap<Vec<u8>, Owned>, locked: &[Vec<u8>], tip: u64, min_conf: u64) -> (u128, u128, u128, u128) {
	let mat = global::coinbase_maturity();
	let (mut sp, mut aw, mut im) = (0u128, 0u128, 0u128);
	for (c, t) in g {
		if locked.contains(c) {
			continue;
		}
		if t.is_coinbase && t.height + mat > tip {
			im += t.value as u128;
		} else if tip - t.height + 1 < min_conf {
			aw += t.value as u128;
		} else {
			sp += t.value as u128;
		}
	}
	(sp, aw, im, sp + aw + im)
}

/// Sum of the chain's unspent outputs of the account that are mature and have >= min_conf confirmations.
fn eligible_sum(g: &BTreeMap<Vec<u8>, Owned>, tip: u64, min_conf: u64) -> u128 {
	let mat = global::coinbase_maturity();
	g.values()
		.filter(|t| !(t.is_coinbase && t.height + mat > tip) && tip - t.height + 1 >= min_conf)
		.map(|t| t.value as u128)
		.sum()
}

/// Compare the live records (Unspent / Locked) of account `parent` with the chain's unspent set.
/// Returns true when both sets are equal. Over-counting is a failure; an owned UTXO the wallet does not
/// count is only a failure for the payment output itself (anything else is not this property's business).
fn check_records(
	sim: &Sim,
	parent: &Identifier,
	g: &BTreeMap<Vec<u8>, Owned>,
	pay: Option<&Pay>,
	tag: &str,
	out: &mut Outcome,
) -> (bool, Vec<Vec<u8>>) {
	let v = snap::view(sim.w(RECEIVER));
	let tip = sim.world.height();
	let live: Vec<&OutputData> = v
		.outputs
		.iter()
		.filter(|o| &o.root_key_id == parent && (o.status == OutputStatus::Unspent || o.status == OutputStatus::Locked))
		.collect();
	let mut equal = true;
	let mut locked = vec![];
	let mut seen: Vec<Vec<u8>> = vec![];
	for o in &live {
		let c = match commit_of(o) {
			Some(c) => c,
			None => continue,
		};
		if o.status == OutputStatus::Locked {
			locked.push(c.clone());
		}
		seen.push(c.clone());
		if !g.contains_key(&c) {
			equal = false;
			let kind = if pay.map(|p| p.commit == c).unwrap_or(false) {
				"reverted-output-counted"
			} else if o.is_coinbase {
				"orphaned-coinbase-counted"
			} else {
				"live-record-not-on-chain"
			};
			out.fail(
				format!("c18:{}:{}", tag, kind),
				format!(
					"receiver still records {:?} output value {} height {} coinbase={} as live, but the best chain's unspent set does not contain it (tip {})",
					o.status, o.value, o.height, o.is_coinbase, tip
				),
			);
		}
	}
	for (c, t) in g {
		if !seen.contains(c) {
			equal = false;
			if pay.map(|p| &p.commit == c).unwrap_or(false) {
				out.fail(
					format!("c18:{}:payment-on-chain-not-counted", tag),
					format!("the payment output (value {}, height {}) is unspent on the best chain but the receiver has no live record for it (tip {})", t.value, t.height, tip),
				);
			} else {
				out.class(format!("note:{}:owned-utxo-not-live", tag));
			}
		}
	}
	(equal, locked)
}

impl Prop for C18 {
	type Case = Case;
	fn id(&self) -> &'static str {
		"C18"
	}
	fn cases(&self, tier: Tier) -> u64 {
		tier.pick(96, 2400)
	}
	fn shrink_iters(&self) -> u32 {
		20
	}
	fn strategy(&self, tier: Tier) -> BoxedStrategy<Case> {
		let max_rounds = tier.pick(4usize, 5usize);
		(
			(
				0u8..3,
				prop_oneof![3 => Just(0u8), 1 => Just(1u8)],
				any::<u16>(),
				prop::collection::vec(0u8..2, 0..3),
				any::<bool>(),
				0u8..2,
				prop_oneof![
					3 => prop::collection::vec(0u8..2, 0..1),
					3 => prop::collection::vec(0u8..2, 1..2),
					2 => prop::collection::vec(0u8..2, 2..3),
					1 => prop::collection::vec(0u8..2, 3..4),
					1 => prop::collection::vec(0u8..2, 4..6),
				],
				any::<bool>(),
				any::<bool>(),
				1u8..7,
			),
			prop::collection::vec(round_strategy(), 1..max_rounds),
			(
				prop::bool::weighted(0.7),
				prop::bool::weighted(0.75),
				0u8..4,
				prop::collection::vec(0u8..2, 1..3),
				look_strategy(0, 0, 1),
			),
		)
			.prop_map(
				|((base, racct, amount, pre, pre_refresh, r_rew, post, early_refresh, tip_refresh, depth), rounds, (remine, remine_scan_first, remine_confs, remine_rewards, last))| Case {
					base,
					racct,
					amount,
					pre,
					pre_refresh,
					r_rew,
					post,
					early_refresh,
					tip_refresh,
					depth,
					rounds,
					remine,
					remine_scan_first,
					remine_confs,
					remine_rewards,
					last,
				},
			)
			.boxed()
	}
	fn rule(&self) -> String {
		"receiver wallet (default or named account) with an incoming payment from wallet 0 mined at block r and confirmed by a refresh (0..2 blocks before, 0..5 after r, rewards to the receiver or nobody, refresh after r and/or at the tip); a fork on the real grin_chain mined on the ancestor 1..6 blocks below the tip (fork point below / at / above r) with length overtake+0..2, with or without the payment transaction at a generated position; 0..2 flip-flops re-extending the losing branch (thorough: 0..3); looks (none / ordinary refresh / owner.scan(None,false), figures read with or without refresh) before each extension overtakes and right after; optional re-mining of the transaction on the tip followed by ONE ordinary refresh; final scan. Oracle after every owner.scan, against the chain's unspent set rewound with an independent keychain: kernel absent => entry TxReverted and unconfirmed, amount_reverted == value, no live record for the payment output or any orphaned coinbase, total/spendable/immature/awaiting == figures recomputed from the chain (min_conf 1 and 3); kernel present => entry TxReceived confirmed, output Unspent at the chain's height, amount_reverted == 0; probes: estimate(use_all) total <= chain-eligible sum, real init_send_tx + tx_lock_outputs reserves only outputs in the chain's unspent set. An ordinary refresh is only required to re-confirm a TxReverted entry once the kernel is on the best chain again (what else it does is recorded as classes). non-trivial = the fork removes the block containing the payment and >= 1 scan is evaluated after the reorg; distinct by case hash".into()
	}
	fn assumptions(&self) -> Vec<String> {
		vec![
			"the reverted state is only required after owner.scan (which starts with update_outputs(update_all=true)); what a plain refresh reports after a reorg is recorded, not judged".into(),
			"every branch that becomes best is strictly higher than the previous tip (a lower tip makes the wallet refuse to update by design: 'chain is syncing')".into(),
			"the receiver does not spend the payment output; the sender wallet is not used after the payment is posted".into(),
			"the other account of the receiver is checked once at the end after its own scan (summary figures are per active account)".into(),
		]
	}
	fn extra(&self) -> serde_json::Value {
		serde_json::json!({ "seconds_by_activity": self.t })
	}
	fn run(&mut self, c: &Case) -> Outcome {
		let mut out = Outcome::default();
		self.n += 1;
		let dir = self.scratch.join(format!("c18.case{}", self.n));
		let r = self.run_case(c, &dir, &mut out);
		let _ = std::fs::remove_dir_all(&dir);
		if let Err(e) = r {
			out.fail("c18:harness-error", e);
		}
		out
	}
}

fn pick(v: &[u8], j: usize) -> u8 {
	if v.is_empty() {
		0
	} else {
		v[j % v.len()]
	}
}

fn rew(v: u8) -> Option<usize> {
	if v % 2 == 1 {
		Some(RECEIVER)
	} else {
		None
	}
}

impl C18 {
	fn run_case(&mut self, c: &Case, dir: &PathBuf, out: &mut Outcome) -> Result<(), String> {
		let t0 = std::time::Instant::now();
		let mut sim = base::open_copy(&self.bases[c.base as usize % self.bases.len()], dir)?;
		self.tick("open_copy", t0);
		let t0 = std::time::Instant::now();
		let r = self.scenario(c, &mut sim, out);
		self.tick("scenario_total", t0);

		if !out.fails.is_empty() || r.is_err() {
			let hist = sim.history();
			for f in out.fails.iter_mut() {
				f.detail = format!("{}\n--- history ---\n{}", f.detail, hist);
			}
			if let Err(e) = r {
				return Err(format!("{}\n--- history ---\n{}", e, hist));
			}
		}
		Ok(())
	}

	fn scenario(&mut self, c: &Case, sim: &mut Sim, out: &mut Outcome) -> Result<(), String> {
		let racct = c.racct as usize % ACCOUNTS.len();
		if racct != 0 {
			sim.switch_account(RECEIVER, racct)?;
		}
		let parent = sim.acct_parent(racct);
		let kc = truth::keychain_from_phrase(&sim.w(RECEIVER).phrase)?;
		let base_tip = sim.world.height();
		let t_setup = std::time::Instant::now();

		// --- the confirmed incoming payment -------------------------------------------------------
		for v in &c.pre {
			sim.mine(rew(*v), 0)?;
			sim.log.push(format!("pre block {} -> {:?}", sim.world.height(), rew(*v)));
		}
		if c.pre_refresh {
			must_refresh(sim, "pre")?;
		}
		let f = 1000u32 + ((c.amount as u32 * 50000) >> 16);
		let args = SendArgs {
			amount: AmountPick::Frac(f as u16),
			use_all: false,
			..SendArgs::default()
		};
		let si = sim.init_send(SENDER, RECEIVER, &args).map_err(|e| format!("setup init_send: {}", e))?;
		sim.lock(si).map_err(|e| format!("setup lock: {}", e))?;
		sim.deliver(si).map_err(|e| format!("setup deliver: {}", e))?;
		sim.finalize(si).map_err(|e| format!("setup finalize: {}", e))?;
		sim.post(si).map_err(|e| format!("setup post: {}", e))?;
		let n = sim.mine(rew(c.r_rew), 0xffff)?;
		let r_height = sim.world.height();
		if n != 1 || sim.slates[si].mined_at != Some(r_height) {
			return Err(format!("setup: payment not mined ({} txs in block {}; {:?})", n, r_height, sim.slates[si].rejected_by_chain));
		}
		let tx = sim.slates[si].tx.clone().ok_or("setup: no final tx")?;
		let pay = {
			let v = snap::view(sim.w(RECEIVER));
			let id = sim.slates[si].id;
			let e = v
				.txs
				.iter()
				.find(|t| t.tx_slate_id == Some(id) && t.parent_key_id == parent)
				.ok_or("setup: receiver has no entry for the payment")?;
			let o = v
				.outputs
				.iter()
				.find(|o| o.root_key_id == parent && o.tx_log_entry == Some(e.id) && !o.is_coinbase)
				.ok_or("setup: receiver has no output for the payment")?;
			Pay {
				slate_id: id,
				excess: tx.kernels()[0].excess,
				tx: tx.clone(),
				commit: commit_of(o).ok_or("setup: payment output without commit")?,
				value: o.value,
				parent: parent.clone(),
			}
		};
		sim.log.push(format!("payment of {} mined at r={} (reward {:?})", pay.value, r_height, rew(c.r_rew)));
		if c.early_refresh {
			must_refresh(sim, "after r")?;
		}
		for v in &c.post {
			sim.mine(rew(*v), 0)?;
			sim.log.push(format!("post block {} -> {:?}", sim.world.height(), rew(*v)));
		}
		if c.tip_refresh || !c.early_refresh {
			must_refresh(sim, "tip")?;
		}
		{
			let pv = pay_view(sim, &pay);
			if pv.ty != Some(TxLogEntryType::TxReceived) || !pv.confirmed || pv.status != Some(OutputStatus::Unspent) {
				return Err(format!("setup: payment not confirmed by the receiver before the fork: {}", pv.short()));
			}
		}

		self.tick("setup_payment", t_setup);
		// --- the fork and the flip-flops -----------------------------------------------------------
		let h = sim.world.height();
		let depth = std::cmp::max(1, std::cmp::min(c.depth as u64, 6));
		let fork_point = h - depth;
		let removed = fork_point < r_height;
		let mut br = [
			Branch {
				tip: sim.world.head_header(),
				has_tx: true,
			},
			Branch {
				tip: sim.world.header_at(fork_point)?,
				has_tx: !removed,
			},
		];
		out.class(format!(
			"fork-point:{}",
			if fork_point >= r_height {
				"above-r (payment block survives)"
			} else if fork_point + 1 == r_height {
				"at-r (payment block is the first orphaned)"
			} else {
				"below-r"
			}
		));
		out.class(format!("depth={}", depth));
		if fork_point < base_tip {
			out.class("fork-reaches-into-base-world");
		}
		let mut st = St::default();
		let mut win = 0usize;
		for (k, round) in c.rounds.iter().enumerate() {
			let lose = 1 - win;
			let need = br[win].tip.height - br[lose].tip.height;
			let len = need + 1 + (round.extra % 3) as u64;
			let mid_j = idx(round.mid_at, (need + 1) as usize) as u64;
			let tx_k = if br[lose].has_tx { None } else { round.tx_at.map(|t| idx(t, len as usize) as u64) };
			if k == 0 {
				out.class(if tx_k.is_some() { "fork:with-tx" } else if removed { "fork:without-tx" } else { "fork:tx-below-fork-point" });
			}
			sim.log.push(format!(
				"round {}: extend branch {} (tip {}) by {} to overtake branch {} (tip {}), tx at {:?}",
				k, lose, br[lose].tip.height, len, win, br[win].tip.height, tx_k
			));
			for j in 0..len {
				if j == mid_j {
					self.look(sim, &kc, &pay, &mut st, &round.mid, &format!("mid{}", k), out)?;
					if !out.fails.is_empty() {
						return Ok(());
					}
				}
				let txs: Vec<Transaction> = if Some(j) == tx_k { vec![pay.tx.clone()] } else { vec![] };
				let to = rew(pick(&round.rewards, j as usize));
				let prev = br[lose].tip.clone();
				let t0 = std::time::Instant::now();
				let b = sim.world.mine_on(&prev, to, &txs).map_err(|e| format!("fork block {} of round {}: {}", j, k, e))?;
				self.tick("fork_blocks", t0);
				br[lose].tip = b.header.clone();
				if !txs.is_empty() {
					br[lose].has_tx = true;
				}
				sim.log.push(format!("   block h={} on branch {} -> {:?}{}", b.header.height, lose, to, if txs.is_empty() { "" } else { " +payment" }));
			}
			if sim.world.head_header().hash_eq(&br[lose].tip) {
				win = lose;
			} else {
				return Err(format!("round {}: the extended branch did not become the best chain (head {})", k, sim.world.tip_string()));
			}
			st.forked = true;
			let on = truth::kernel_on_chain(&sim.world.chain, &pay.excess);
			if on != br[win].has_tx {
				return Err(format!("round {}: harness bookkeeping says branch has_tx={} but kernel lookup says {}", k, br[win].has_tx, on));
			}
			if k > 0 {
				out.class(format!("flip{}:{}", std::cmp::min(k, 3), if on { "payment-back" } else { "payment-gone" }));
			}
			for (i, l) in round.after.iter().enumerate() {
				self.look(sim, &kc, &pay, &mut st, l, &format!("after{}.{}", k, i), out)?;
				if !out.fails.is_empty() {
					return Ok(());
				}
			}
		}
		out.class(format!("rounds={}", c.rounds.len()));

		// --- mined again: ONE ordinary refresh must re-confirm ------------------------------------------
		if c.remine && !truth::kernel_on_chain(&sim.world.chain, &pay.excess) {
			if c.remine_scan_first {
				let l = Look {
					kind: 2,
					read_refresh: false,
					probe: 0,
					frac: 0,
					min_conf: 1,
					use_all: true,
				};
				self.look(sim, &kc, &pay, &mut st, &l, "pre-remine", out)?;
				if !out.fails.is_empty() {
					return Ok(());
				}
			}
			let before = pay_view(sim, &pay);
			let synced = st.synced_at == Some(head_hash(sim));
			sim.world
				.chain
				.validate_tx(&pay.tx)
				.map_err(|e| format!("remine: stored payment tx not valid on the best chain: {:?}", e))?;
			let confs = (c.remine_confs % 4) as usize;
			for j in 0..=confs {
				let to = rew(pick(&c.remine_rewards, j));
				let txs: Vec<Transaction> = if j == 0 { vec![pay.tx.clone()] } else { vec![] };
				let b = sim.world.mine(to, &txs)?;
				sim.log.push(format!("remine: block h={} -> {:?}{}", b.header.height, to, if j == 0 { " +payment" } else { "" }));
			}
			let tip = sim.world.height();
			let (ok, inf) = info(sim, true, 1).map_err(|e| format!("remine refresh: {}", e))?;
			sim.log.push(format!("remine: ordinary refresh -> refreshed={}", ok));
			if !ok {
				out.fail("c18:remine:refresh-unavailable", "retrieve_summary_info(refresh=true) reported not refreshed with the node up".to_string());
				return Ok(());
			}
			let after = pay_view(sim, &pay);
			out.class(format!("remine:{}=>{}{}", before.short(), after.short(), if synced { " (synced)" } else { "" }));
			if after.ty != Some(TxLogEntryType::TxReceived) || !after.confirmed {
				out.fail(
					"c18:remine:not-reconfirmed",
					format!("payment mined again at {} (tip {}), one ordinary refresh later the entry is {} (before: {})", tip - confs as u64, tip, after.short(), before.short()),
				);
			}
			if after.status != Some(OutputStatus::Unspent) {
				out.fail(
					"c18:remine:output-not-unspent",
					format!("payment mined again, one ordinary refresh later its output is {} (before: {})", after.short(), before.short()),
				);
			}
			if inf.amount_reverted != 0 {
				out.fail("c18:remine:amount-reverted-nonzero", format!("amount_reverted {} after re-confirmation", inf.amount_reverted));
			}
			if out.fails.is_empty() && synced {
				// books were equal to the chain at the previous head and no reorg happened since: C04's domain
				let g = truth_of(sim, &kc, &parent)?;
				let (equal, locked) = check_records(sim, &parent, &g, Some(&pay), "remine", out);
				if equal && out.fails.is_empty() {
					let want = figures(&g, &locked, tip, 1);
					let got = (
						inf.amount_currently_spendable as u128,
						inf.amount_awaiting_confirmation as u128,
						inf.amount_immature as u128,
						inf.total as u128,
					);
					if got != want {
						out.fail(
							"c18:remine:figures",
							format!("after re-mining + one refresh (tip {}): (spendable,awaiting,immature,total) = {:?}, chain says {:?}", tip, got, want),
						);
					}
				}
				if before.ty == Some(TxLogEntryType::TxReverted) {
					out.class("remine:reverted->reconfirmed-checked");
				}
			}
			if !out.fails.is_empty() {
				return Ok(());
			}
		}

		// --- final scan ------------------------------------------------------------------------------
		let mut last = c.last.clone();
		last.kind = 2;
		self.look(sim, &kc, &pay, &mut st, &last, "final", out)?;
		if !out.fails.is_empty() {
			return Ok(());
		}

		// --- the receiver's other account (orphaned base-world coinbases) --------------------------------
		{
			let other = (racct + 1) % ACCOUNTS.len();
			sim.switch_account(RECEIVER, other)?;
			let op = sim.acct_parent(other);
			let r = sim.w(RECEIVER).owner.scan(sim.w(RECEIVER).m(), None, false).map_err(|e| e.to_string());
			sim.log.push(format!("other account {}: scan -> {:?}", other, r));
			if let Err(e) = r {
				out.fail("c18:scan:error", format!("owner.scan on the other account failed: {}", e));
				return Ok(());
			}
			let g = truth_of(sim, &kc, &op)?;
			let tip = sim.world.height();
			let (equal, locked) = check_records(sim, &op, &g, None, "other-acct", out);
			if equal && out.fails.is_empty() {
				let inf = info(sim, false, 1)?.1;
				let want = figures(&g, &locked, tip, 1);
				let got = (
					inf.amount_currently_spendable as u128,
					inf.amount_awaiting_confirmation as u128,
					inf.amount_immature as u128,
					inf.total as u128,
				);
				if got != want {
					out.fail(
						"c18:other-acct:figures",
						format!("other account after scan (tip {}): (spendable,awaiting,immature,total) = {:?}, chain says {:?}", tip, got, want),
					);
				}
			}
		}

		out.nontrivial = removed && (st.scans_lacking + st.scans_containing) > 0;
		if st.scans_lacking > 0 {
			out.class("evaluated:scan-on-chain-lacking-kernel");
		}
		if st.scans_containing > 0 {
			out.class("evaluated:scan-on-chain-containing-kernel");
		}
		if st.probes_send > 0 {
			out.class("evaluated:probe-send");
		}
		if st.probes_est > 0 {
			out.class("evaluated:probe-estimate");
		}
		Ok(())
	}

	fn look(&mut self, sim: &mut Sim, kc: &ExtKeychain, pay: &Pay, st: &mut St, l: &Look, tag: &str, out: &mut Outcome) -> Result<(), String> {
		match l.kind % 3 {
			0 => Ok(()),
			1 => self.look_refresh(sim, pay, st, tag, out),
			_ => self.look_scan(sim, kc, pay, st, l, tag, out),
		}
	}

	fn look_refresh(&mut self, sim: &mut Sim, pay: &Pay, st: &mut St, tag: &str, out: &mut Outcome) -> Result<(), String> {
		let before = pay_view(sim, pay);
		let on = truth::kernel_on_chain(&sim.world.chain, &pay.excess);
		let t0 = std::time::Instant::now();
		let r = info(sim, true, 1);
		self.tick("plain_refresh", t0);
		sim.log.push(format!(
			"look {}: ordinary refresh at {} (kernel on chain: {}) -> {}",
			tag,
			sim.world.tip_string(),
			on,
			match &r {
				Ok((b, _)) => format!("refreshed={}", b),
				Err(e) => format!("ERR {}", e),
			}
		));
		let inf = match r {
			Ok((true, i)) => i,
			Ok((false, _)) => {
				out.fail("c18:refresh:unavailable", "retrieve_summary_info(refresh=true) reported not refreshed with the node up".to_string());
				return Ok(());
			}
			Err(e) => {
				out.fail("c18:refresh:error", e);
				return Ok(());
			}
		};
		let after = pay_view(sim, pay);
		if st.forked {
			out.class(format!("plain-refresh:kernel-{}:{}=>{}", if on { "present" } else { "absent" }, before.short(), after.short()));
		}
		// the one thing an ordinary refresh must do: re-confirm a reverted payment that is on the chain again
		if before.ty == Some(TxLogEntryType::TxReverted) && on {
			if after.ty != Some(TxLogEntryType::TxReceived) || !after.confirmed {
				out.fail(
					"c18:refresh:not-reconfirmed",
					format!("payment is on the best chain again; after an ordinary refresh the entry is {} (before {})", after.short(), before.short()),
				);
			}
			if after.status != Some(OutputStatus::Unspent) {
				out.fail(
					"c18:refresh:output-not-unspent",
					format!("payment is on the best chain again; after an ordinary refresh its output is {} (before {})", after.short(), before.short()),
				);
			}
			if inf.amount_reverted != 0 {
				out.fail("c18:refresh:amount-reverted-nonzero", format!("amount_reverted {} after re-confirmation", inf.amount_reverted));
			}
		}
		Ok(())
	}

	fn look_scan(&mut self, sim: &mut Sim, kc: &ExtKeychain, pay: &Pay, st: &mut St, l: &Look, tag: &str, out: &mut Outcome) -> Result<(), String> {
		let before = pay_view(sim, pay);
		let t0 = std::time::Instant::now();
		// in a quarter of the scans the node stops answering after a generated number of calls: the interrupted scan
		// must fail, or be complete and right; when it failed, the scan repeated with the node back is the one judged
		let r = if l.frac % 4 == 1 {
			let after = ((l.frac / 4) % 24) as u64;
			sim.world.node.with(|s| {
				s.down = false;
				s.down_after = Some(after);
			});
			let r1 = sim.w(RECEIVER).owner.scan(sim.w(RECEIVER).m(), None, false).map_err(|e| e.to_string());
			sim.set_node_down(false);
			out.class(format!("scan:node-fails-after-n-calls:{}", if r1.is_ok() { "ok" } else { "err" }));
			sim.log.push(format!("look {}: owner.scan with the node failing after {} calls -> {:?}; node back", tag, after, r1));
			if r1.is_err() {
				sim.w(RECEIVER).owner.scan(sim.w(RECEIVER).m(), None, false).map_err(|e| e.to_string())
			} else {
				r1
			}
		} else {
			sim.w(RECEIVER).owner.scan(sim.w(RECEIVER).m(), None, false).map_err(|e| e.to_string())
		};
		self.tick("owner_scan", t0);
		let on = truth::kernel_on_chain(&sim.world.chain, &pay.excess);
		let tip = sim.world.height();
		sim.log.push(format!("look {}: owner.scan at {} (kernel on chain: {}) -> {:?}", tag, sim.world.tip_string(), on, r));
		if let Err(e) = r {
			out.fail("c18:scan:error", format!("owner.scan(None,false) failed with the node up: {}", e));
			return Ok(());
		}
		let (ok, i1) = info(sim, l.read_refresh, 1)?;
		if l.read_refresh && !ok {
			out.fail("c18:refresh:unavailable", "retrieve_summary_info(refresh=true) after scan reported not refreshed with the node up".to_string());
			return Ok(());
		}
		let i3 = info(sim, false, 3)?.1;
		let after = pay_view(sim, pay);
		if st.forked {
			if on {
				st.scans_containing += 1;
			} else {
				st.scans_lacking += 1;
			}
			out.class(format!("scan:kernel-{}:{}=>{}", if on { "present" } else { "absent" }, before.short(), after.short()));
		}
		let t0 = std::time::Instant::now();
		let g = truth_of(sim, kc, &pay.parent)?;
		self.tick("truth", t0);
		if !on {
			if after.ty != Some(TxLogEntryType::TxReverted) && before.relinked {
				// KNOWN FINDING classifier: the receiver reserved the payment output for a send of its own
				// (tx_lock_outputs overwrites OutputData.tx_log_entry with the send's log id) and cancelled it;
				// cancel does not restore the link, so find_reverted_kernels no longer finds the TxReceived entry.
				out.fail(
					"c18:scan:not-reported-reverted:output-relinked-by-cancelled-send",
					format!(
						"best chain (tip {}) lacks the payment's kernel; after owner.scan the entry is {} (before {}); amount_reverted {}. The output's tx_log_entry points at a cancelled send of the receiver, not at the receive entry",
						tip,
						after.short(),
						before.short(),
						i1.amount_reverted
					),
				);
				return Ok(());
			}
			if after.ty != Some(TxLogEntryType::TxReverted) {
				out.fail(
					"c18:scan:not-reported-reverted",
					format!("best chain (tip {}) lacks the payment's kernel; after owner.scan the entry is {} (before {})", tip, after.short(), before.short()),
				);
			} else if after.confirmed {
				out.fail("c18:scan:reverted-still-confirmed", format!("entry is TxReverted but confirmed=true (tip {})", tip));
			}
			if i1.amount_reverted != pay.value {
				out.fail(
					"c18:scan:amount-reverted",
					format!("amount_reverted {} != payment value {} after scan on a chain lacking the kernel (payment now {})", i1.amount_reverted, pay.value, after.short()),
				);
			}
		} else {
			if after.ty != Some(TxLogEntryType::TxReceived) || !after.confirmed {
				out.fail(
					"c18:scan:on-chain-not-confirmed",
					format!("best chain (tip {}) contains the payment's kernel; after owner.scan the entry is {} (before {})", tip, after.short(), before.short()),
				);
			}
			match g.get(&pay.commit) {
				Some(t) => {
					if after.status != Some(OutputStatus::Unspent) || after.height != t.height {
						out.fail(
							"c18:scan:on-chain-output-state",
							format!("payment output is unspent on the best chain at height {}; after owner.scan the record is {} at height {}", t.height, after.short(), after.height),
						);
					}
				}
				None => return Err("kernel on chain but payment output not in the chain's unspent set".into()),
			}
			if i1.amount_reverted != 0 {
				out.fail("c18:scan:amount-reverted-nonzero", format!("amount_reverted {} although the payment is on the best chain", i1.amount_reverted));
			}
		}
		let (equal, locked) = check_records(sim, &pay.parent, &g, Some(pay), "scan", out);
		if equal && out.fails.is_empty() {
			for (mc, inf) in [(1u64, &i1), (3u64, &i3)].iter() {
				let want = figures(&g, &locked, tip, *mc);
				let got = (
					inf.amount_currently_spendable as u128,
					inf.amount_awaiting_confirmation as u128,
					inf.amount_immature as u128,
					inf.total as u128,
				);
				if got != want {
					out.fail(
						"c18:scan:figures",
						format!("after scan, min_conf {} tip {}: (spendable,awaiting,immature,total) = {:?}, chain says {:?}", mc, tip, got, want),
					);
					break;
				}
			}
		}
		if !out.fails.is_empty() {
			return Ok(());
		}
		if equal {
			st.synced_at = Some(head_hash(sim));
		}
		// --- probes: what would the wallet spend now? ---------------------------------------------------
		let t_probe = std::time::Instant::now();
		let r = self.probe(sim, pay, st, l, &g, tip, &after, out);
		self.tick("probes", t_probe);
		r
	}

	#[allow(clippy::too_many_arguments)]
	fn probe(&mut self, sim: &mut Sim, pay: &Pay, st: &mut St, l: &Look, g: &BTreeMap<Vec<u8>, Owned>, tip: u64, after: &PayView, out: &mut Outcome) -> Result<(), String> {
		let mc = (l.min_conf % 4) as u64;
		let on = after.ty == Some(TxLogEntryType::TxReceived);
		let mut kind = l.probe % 3;
		if kind == 2 && on && l.frac % 4 != 0 {
			// Known-finding avoidance (counted): a real send + cancel while the payment is live re-links its output
			// (see c18:scan:not-reported-reverted:output-relinked-by-cancelled-send) and would end ~10% of all
			// cases at that finding. Three out of four such probes are downgraded to an estimate.
			out.class("probe:send-downgraded-to-estimate(known-finding avoidance)");
			kind = 1;
		}
		match kind {
			1 => {
				let a = InitTxArgs {
					src_acct_name: None,
					amount: 1,
					minimum_confirmations: mc,
					max_outputs: 500,
					num_change_outputs: 1,
					selection_strategy_is_use_all: true,
					estimate_only: Some(true),
					..Default::default()
				};
				let r = sim.w(RECEIVER).owner.init_send_tx(sim.w(RECEIVER).m(), a);
				let elig = eligible_sum(&g, tip, mc);
				st.probes_est += 1;
				match r {
					Ok(s) => {
						sim.log.push(format!("   probe estimate(use_all, min_conf {}) -> total {} (chain-eligible {})", mc, s.amount, elig));
						if s.amount as u128 > elig {
							out.fail(
								"c18:probe:estimate-exceeds-chain",
								format!("estimate with use_all/min_conf {} selects {} but only {} is unspent, mature and confirmed on the best chain (payment {}, value {})", mc, s.amount, elig, after.short(), pay.value),
							);
						} else if s.amount as u128 == elig {
							out.class("probe:estimate==chain-eligible");
						} else {
							out.class("probe:estimate<chain-eligible");
						}
					}
					Err(e) => {
						sim.log.push(format!("   probe estimate(use_all, min_conf {}) -> ERR {} (chain-eligible {})", mc, e, elig));
						out.class("probe:estimate-refused");
					}
				}
			}
			2 => {
				let sp = info(sim, false, mc)?.1.amount_currently_spendable;
				if sp == 0 {
					out.class("probe:send-nothing-spendable");
					return Ok(());
				}
				let amount = std::cmp::max(1, ((sp as u128 * l.frac as u128) >> 16) as u64);
				let a = InitTxArgs {
					src_acct_name: None,
					amount,
					minimum_confirmations: mc,
					max_outputs: 500,
					num_change_outputs: 1,
					selection_strategy_is_use_all: l.use_all,
					estimate_only: Some(false),
					..Default::default()
				};
				let r = sim.w(RECEIVER).owner.init_send_tx(sim.w(RECEIVER).m(), a);
				match r {
					Err(e) => {
						sim.log.push(format!("   probe send {} (min_conf {}, use_all {}) -> ERR {}", amount, mc, l.use_all, e));
						out.class("probe:send-refused");
					}
					Ok(s) => {
						let lr = sim.w(RECEIVER).owner.tx_lock_outputs(sim.w(RECEIVER).m(), &s).map_err(|e| e.to_string());
						sim.log.push(format!("   probe send {} (min_conf {}, use_all {}) -> ok, lock -> {:?}", amount, mc, l.use_all, lr));
						if lr.is_ok() {
							st.probes_send += 1;
							let v = snap::view(sim.w(RECEIVER));
							let mut nsel = 0;
							for o in v.outputs.iter().filter(|o| o.root_key_id == pay.parent && o.status == OutputStatus::Locked) {
								nsel += 1;
								let c = commit_of(o).unwrap_or_default();
								if !g.contains_key(&c) {
									let kind = if c == pay.commit {
										"selected-reverted-output"
									} else if o.is_coinbase {
										"selected-orphaned-coinbase"
									} else {
										"selected-output-not-on-chain"
									};
									out.fail(
										format!("c18:probe:{}", kind),
										format!("init_send_tx({}, min_conf {}) reserved an input (value {}, height {}, coinbase={}) that is not in the best chain's unspent set (tip {})", amount, mc, o.value, o.height, o.is_coinbase, tip),
									);
								}
							}
							out.class(format!("probe:send-inputs={}", std::cmp::min(nsel, 4)));
						}
						// release the reservation again (by slate id)
						sim.w(RECEIVER)
							.owner
							.cancel_tx(sim.w(RECEIVER).m(), None, Some(s.id))
							.map_err(|e| format!("probe cancel: {}", e))?;
					}
				}
			}
			_ => {}
		}
		Ok(())
	}
}

fn must_refresh(sim: &mut Sim, what: &str) -> Result<(), String> {
	let r = sim.refresh(RECEIVER);
	sim.log.push(format!("receiver refresh ({}) at {} -> {:?}", what, sim.world.tip_string(), r));
	match r {
		Ok(true) => Ok(()),
		other => Err(format!("setup refresh ({}) not successful: {:?}", what, other)),
	}
}

trait HashEq {
	fn hash_eq(&self, other: &BlockHeader) -> bool;
}
impl HashEq for BlockHeader {
	fn hash_eq(&self, other: &BlockHeader) -> bool {
		use grin_core::core::hash::Hashed;
		self.hash() == other.hash()
	}
}

pub fn run(args: &Args, rep: &mut Report) {
	let mut p = C18::new(args);
	run_part(&mut p, args, rep);
}

pub fn replay(args: &Args, _part: &str, case: &serde_json::Value) -> Result<Outcome, String> {
	replay_part(&mut C18::new(args), case)
}
