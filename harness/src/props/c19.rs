//! C19 — transaction-log queries return exactly what was asked for.
//!
//! One case = one synthetic transaction log (0..40 entries over 1-3 accounts) written with
//! `save_tx_log_entry` into a real LMDB wallet + a batch of queries issued through
//! `Owner::retrieve_txs(mask, refresh=false, tx_id, tx_slate_id, query_args)`.
//!
//! Oracle: a reference filter written from the field documentation of `RetrieveTxQueryArgs`
//! (libwallet/src/api_impl/types.rs), the documentation of `Owner::retrieve_txs` ("from the active
//! account", "if tx_id or tx_slate_id is provided query args are ignored") and the property text.
//! The answer is judged by a validity predicate (subset of qualifying / length / monotone keys /
//! valid top-k under ties), not against one expected list. Where the documentation does not pin a
//! meaning down, every reading is accepted (see `Reading`).

use crate::node::DirectNode;
use crate::rt::*;
use crate::world::{self, Wal};
use chrono::{DateTime, Duration, TimeZone, Utc};
use grin_keychain::Identifier;
use grin_wallet_libwallet::{
	RetrieveTxQueryArgs, RetrieveTxQuerySortField, RetrieveTxQuerySortOrder, TxLogEntry, TxLogEntryType,
};
use proptest::prelude::*;
use serde_derive::{Deserialize, Serialize};
use serde_json::{json, Value};
use std::collections::{BTreeMap, BTreeSet};
use std::path::PathBuf;
use uuid::Uuid;

// ---------------------------------------------------------------------------------------------
// case

/// amounts: small pool so that ties and boundary-equal bounds are the norm
pub const AMOUNTS: [u64; 7] = [0, 1, 2, 3, 1_000, 1_001, 60_000_000_000];
/// instants (ns after BASE_TS)
pub const INSTANTS_NS: [i64; 6] = [
	0,
	1,
	1_000_000_000,
	3_600_000_000_000,
	86_400_000_000_000,
	400 * 86_400_000_000_000,
];
const BASE_TS: i64 = 1_600_000_000;
const N_SLATES: u8 = 5;
const LABELS: [&str; 3] = ["default", "acct1", "acct2"];

#[derive(Clone, Debug, Serialize, Deserialize)]
pub struct ESpec {
	/// account (mod number of accounts of the log)
	pub acct: u8,
	/// 0 ConfirmedCoinbase 1 TxReceived 2 TxSent 3 TxReceivedCancelled 4 TxSentCancelled 5 TxReverted
	pub ty: u8,
	pub confirmed: bool,
	/// indices into AMOUNTS (a: 1.., b: 0..)
	pub a: u8,
	pub b: u8,
	/// index into INSTANTS_NS
	pub created: u8,
	/// confirmation instant = created + offset (clipped), or absent
	pub conf: Option<u8>,
	/// slate id from a pool of N_SLATES, or none
	pub slate: Option<u8>,
}

#[derive(Clone, Debug, Serialize, Deserialize)]
pub struct LogSpec {
	pub n_accts: u8,
	pub entries: Vec<ESpec>,
}

/// a bound = (pick-th smallest distinct value occurring in the log) + delta
#[derive(Clone, Debug, Serialize, Deserialize)]
pub struct Sel {
	pub pick: u16,
	pub delta: i8,
}

/// a time bound = INSTANTS[k] + delta nanoseconds
#[derive(Clone, Debug, Serialize, Deserialize)]
pub struct TsSel {
	pub k: u8,
	pub delta: i8,
}

#[derive(Clone, Debug, Serialize, Deserialize)]
pub enum LimitSel {
	Abs(u8),
	/// number of qualifying entries + delta
	Qual(i8),
	Max,
}

#[derive(Clone, Debug, Default, Serialize, Deserialize)]
pub struct QSpec {
	pub min_id: Option<Sel>,
	pub max_id: Option<Sel>,
	pub limit: Option<LimitSel>,
	pub exclude_cancelled: Option<bool>,
	pub include_outstanding_only: Option<bool>,
	pub include_confirmed_only: Option<bool>,
	pub include_sent_only: Option<bool>,
	pub include_received_only: Option<bool>,
	pub include_coinbase_only: Option<bool>,
	pub include_reverted_only: Option<bool>,
	pub min_amount: Option<Sel>,
	pub max_amount: Option<Sel>,
	pub min_creation: Option<TsSel>,
	pub max_creation: Option<TsSel>,
	pub min_confirmed: Option<TsSel>,
	pub max_confirmed: Option<TsSel>,
	/// 0 Id 1 Creation 2 Confirmation 3 TotalAmount 4 Credited 5 Debited
	pub sort_field: Option<u8>,
	/// true = Desc
	pub sort_desc: Option<bool>,
}

#[derive(Clone, Debug, Serialize, Deserialize)]
pub enum Query {
	Adv(QSpec),
	/// legacy look-up by log id (optionally also slate id); `with_args`: also pass query args, which the
	/// documentation says are ignored
	ById { id: Sel, slate: Option<u8>, with_args: bool },
	BySlate { slate: u8, with_args: bool },
	/// no id, no slate id, no query args: the active account's whole log
	All,
}

#[derive(Clone, Debug, Serialize, Deserialize)]
pub struct QCase {
	pub acct: u8,
	pub q: Query,
}

#[derive(Clone, Debug, Serialize, Deserialize)]
pub struct Case {
	pub log: LogSpec,
	pub queries: Vec<QCase>,
}

// ---------------------------------------------------------------------------------------------
// strategies

fn espec_strategy() -> BoxedStrategy<ESpec> {
	(
		0u8..3,
		0u8..6,
		any::<bool>(),
		1u8..AMOUNTS.len() as u8,
		0u8..AMOUNTS.len() as u8,
		0u8..INSTANTS_NS.len() as u8,
		prop::option::weighted(0.65, 0u8..4),
		prop::option::weighted(0.7, 0u8..N_SLATES),
	)
		.prop_map(|(acct, ty, confirmed, a, b, created, conf, slate)| ESpec {
			acct,
			ty,
			confirmed,
			a,
			b,
			created,
			conf,
			slate,
		})
		.boxed()
}

fn log_strategy(max_entries: usize) -> BoxedStrategy<LogSpec> {
	(
		prop_oneof![2 => Just(1u8), 3 => Just(2u8), 3 => Just(3u8)],
		prop::collection::vec(espec_strategy(), 0..=max_entries),
	)
		.prop_map(|(n_accts, entries)| LogSpec { n_accts, entries })
		.boxed()
}

fn sel() -> BoxedStrategy<Sel> {
	(any::<u16>(), prop_oneof![2 => Just(0i8), 1 => Just(-1i8), 1 => Just(1i8)])
		.prop_map(|(pick, delta)| Sel { pick, delta })
		.boxed()
}

fn tssel() -> BoxedStrategy<TsSel> {
	(
		0u8..INSTANTS_NS.len() as u8,
		prop_oneof![2 => Just(0i8), 1 => Just(-1i8), 1 => Just(1i8)],
	)
		.prop_map(|(k, delta)| TsSel { k, delta })
		.boxed()
}

fn flag(p_some: f64) -> BoxedStrategy<Option<bool>> {
	prop::option::weighted(p_some, prop::bool::weighted(0.55)).boxed()
}

fn qspec_strategy() -> BoxedStrategy<QSpec> {
	let ids = (prop::option::weighted(0.25, sel()), prop::option::weighted(0.25, sel()));
	let limit = prop::option::weighted(
		0.45,
		prop_oneof![
			1 => Just(LimitSel::Abs(0)),
			1 => Just(LimitSel::Abs(1)),
			3 => (0u8..44).prop_map(LimitSel::Abs),
			3 => (-1i8..=1).prop_map(LimitSel::Qual),
			1 => Just(LimitSel::Max),
		],
	);
	let flags = (flag(0.22), flag(0.16), flag(0.16), flag(0.1), flag(0.1), flag(0.08), flag(0.08));
	let amts = (prop::option::weighted(0.22, sel()), prop::option::weighted(0.22, sel()));
	let tss = (
		prop::option::weighted(0.2, tssel()),
		prop::option::weighted(0.2, tssel()),
		prop::option::weighted(0.2, tssel()),
		prop::option::weighted(0.2, tssel()),
	);
	let sort = (prop::option::weighted(0.8, 0u8..6), prop::option::weighted(0.7, any::<bool>()));
	(ids, limit, flags, amts, tss, sort)
		.prop_map(|(ids, limit, f, amts, t, sort)| QSpec {
			min_id: ids.0,
			max_id: ids.1,
			limit,
			exclude_cancelled: f.0,
			include_outstanding_only: f.1,
			include_confirmed_only: f.2,
			include_sent_only: f.3,
			include_received_only: f.4,
			include_coinbase_only: f.5,
			include_reverted_only: f.6,
			min_amount: amts.0,
			max_amount: amts.1,
			min_creation: t.0,
			max_creation: t.1,
			min_confirmed: t.2,
			max_confirmed: t.3,
			sort_field: sort.0,
			sort_desc: sort.1,
		})
		.boxed()
}

fn query_strategy() -> BoxedStrategy<QCase> {
	(
		0u8..3,
		prop_oneof![
			40 => qspec_strategy().prop_map(Query::Adv),
			4 => (sel(), prop::option::weighted(0.25, 0u8..=N_SLATES), prop::bool::weighted(0.3))
				.prop_map(|(id, slate, with_args)| Query::ById { id, slate, with_args }),
			4 => (0u8..=N_SLATES, prop::bool::weighted(0.3)).prop_map(|(slate, with_args)| Query::BySlate { slate, with_args }),
			1 => Just(Query::All),
		],
	)
		.prop_map(|(acct, q)| QCase { acct, q })
		.boxed()
}

// ---------------------------------------------------------------------------------------------
// materialisation

fn instant(ns: i64) -> DateTime<Utc> {
	Utc.timestamp_opt(BASE_TS, 0).unwrap() + Duration::nanoseconds(ns)
}

fn ts_of(s: &TsSel) -> DateTime<Utc> {
	instant(INSTANTS_NS[s.k as usize % INSTANTS_NS.len()] + s.delta as i64)
}

fn slate_uuid(k: u8) -> Uuid {
	Uuid::from_u128(0x6772696e_0000_4000_8000_000000000000u128 + k as u128 + 1)
}

fn ty_of(t: u8) -> TxLogEntryType {
	match t % 6 {
		0 => TxLogEntryType::ConfirmedCoinbase,
		1 => TxLogEntryType::TxReceived,
		2 => TxLogEntryType::TxSent,
		3 => TxLogEntryType::TxReceivedCancelled,
		4 => TxLogEntryType::TxSentCancelled,
		_ => TxLogEntryType::TxReverted,
	}
}

fn is_sent(t: &TxLogEntryType) -> bool {
	*t == TxLogEntryType::TxSent || *t == TxLogEntryType::TxSentCancelled
}

/// The log as the wallet would hold it: ids dense per account in order of appearance; a sending entry
/// debits at least what it credits (change), every other type only credits.
fn materialise(log: &LogSpec, parents: &[Identifier]) -> Vec<TxLogEntry> {
	let n = std::cmp::max(1, std::cmp::min(log.n_accts as usize, parents.len()));
	let mut next = vec![0u32; n];
	log.entries
		.iter()
		.map(|s| {
			let a = s.acct as usize % n;
			let id = next[a];
			next[a] += 1;
			let ty = ty_of(s.ty);
			let mut e = TxLogEntry::new(parents[a].clone(), ty.clone(), id);
			let va = AMOUNTS[std::cmp::max(1, s.a as usize % AMOUNTS.len())];
			let vb = AMOUNTS[s.b as usize % AMOUNTS.len()];
			if is_sent(&ty) {
				e.amount_debited = std::cmp::max(va, vb);
				e.amount_credited = std::cmp::min(va, vb);
				e.num_inputs = 1;
				e.num_outputs = if e.amount_credited > 0 { 1 } else { 0 };
			} else {
				e.amount_credited = va;
				e.amount_debited = 0;
				e.num_outputs = 1;
			}
			let ci = s.created as usize % INSTANTS_NS.len();
			e.creation_ts = instant(INSTANTS_NS[ci]);
			e.confirmation_ts = s
				.conf
				.map(|off| instant(INSTANTS_NS[std::cmp::min(ci + off as usize, INSTANTS_NS.len() - 1)]));
			e.confirmed = s.confirmed;
			e.tx_slate_id = s.slate.map(|k| slate_uuid(k % N_SLATES));
			e
		})
		.collect()
}

fn pick_val(cands: &[i128], s: &Sel) -> i128 {
	let base = if cands.is_empty() { 0 } else { cands[idx(s.pick, cands.len())] };
	base + s.delta as i128
}

fn clamp_u64(v: i128) -> u64 {
	if v < 0 {
		0
	} else if v > u64::MAX as i128 {
		u64::MAX
	} else {
		v as u64
	}
}

fn clamp_u32(v: i128) -> u32 {
	if v < 0 {
		0
	} else if v > u32::MAX as i128 {
		u32::MAX
	} else {
		v as u32
	}
}

fn id_cands(entries: &[TxLogEntry]) -> Vec<i128> {
	let s: BTreeSet<i128> = entries.iter().map(|e| e.id as i128).collect();
	s.into_iter().collect()
}

fn amount_cands(entries: &[TxLogEntry]) -> Vec<i128> {
	let mut s: BTreeSet<i128> = BTreeSet::new();
	for e in entries {
		s.insert((e.amount_credited as i128 - e.amount_debited as i128).abs());
		s.insert(e.amount_credited as i128);
		s.insert(e.amount_debited as i128);
	}
	s.into_iter().collect()
}

fn sort_field_of(k: u8) -> RetrieveTxQuerySortField {
	match k % 6 {
		0 => RetrieveTxQuerySortField::Id,
		1 => RetrieveTxQuerySortField::CreationTimestamp,
		2 => RetrieveTxQuerySortField::ConfirmationTimestamp,
		3 => RetrieveTxQuerySortField::TotalAmount,
		4 => RetrieveTxQuerySortField::AmountCredited,
		_ => RetrieveTxQuerySortField::AmountDebited,
	}
}

const SORT_NAMES: [&str; 6] = ["id", "creation_ts", "confirmation_ts", "total_amount", "amount_credited", "amount_debited"];

fn build_args(q: &QSpec, entries: &[TxLogEntry]) -> RetrieveTxQueryArgs {
	let ids = id_cands(entries);
	let amts = amount_cands(entries);
	RetrieveTxQueryArgs {
		min_id: q.min_id.as_ref().map(|s| clamp_u32(pick_val(&ids, s))),
		max_id: q.max_id.as_ref().map(|s| clamp_u32(pick_val(&ids, s))),
		limit: None, // resolved by the caller (may refer to the number of qualifying entries)
		exclude_cancelled: q.exclude_cancelled,
		include_outstanding_only: q.include_outstanding_only,
		include_confirmed_only: q.include_confirmed_only,
		include_sent_only: q.include_sent_only,
		include_received_only: q.include_received_only,
		include_coinbase_only: q.include_coinbase_only,
		include_reverted_only: q.include_reverted_only,
		min_amount: q.min_amount.as_ref().map(|s| clamp_u64(pick_val(&amts, s))),
		max_amount: q.max_amount.as_ref().map(|s| clamp_u64(pick_val(&amts, s))),
		min_creation_timestamp: q.min_creation.as_ref().map(ts_of),
		max_creation_timestamp: q.max_creation.as_ref().map(ts_of),
		min_confirmed_timestamp: q.min_confirmed.as_ref().map(ts_of),
		max_confirmed_timestamp: q.max_confirmed.as_ref().map(ts_of),
		sort_field: q.sort_field.map(sort_field_of),
		sort_order: q.sort_desc.map(|d| if d { RetrieveTxQuerySortOrder::Desc } else { RetrieveTxQuerySortOrder::Asc }),
	}
}

// ---------------------------------------------------------------------------------------------
// reference model (from the documentation)

/// Places where the field documentation leaves the meaning open; every combination is accepted.
/// `MAIN` is the reading the implementation and controller/tests/tx_list_filter.rs use.
#[derive(Clone, Copy, Debug)]
pub struct Reading {
	/// doc: "total amount (amount_credited - amount_debited)" taken literally (signed) for every type;
	/// main reading: debited - credited for sending entries, credited - debited otherwise
	pub amount_literal: bool,
	/// "sent transactions" includes cancelled sends (main) or not
	pub sent_cancelled: bool,
	/// "received transactions": 0 {Received} 1 {Received, ReceivedCancelled} (main) 2 {.., Reverted} 3 {Received, Reverted}
	pub recv_set: u8,
	/// "outstanding": not confirmed (main) / not confirmed and Sent|Received|Reverted (meaning of the legacy
	/// `outstanding_only` in the same module)
	pub outstanding_legacy: bool,
	/// an entry without confirmation time passes (main) / fails bounds on the confirmation time
	pub conf_none_passes: bool,
}

pub const MAIN: Reading = Reading {
	amount_literal: false,
	sent_cancelled: true,
	recv_set: 1,
	outstanding_legacy: false,
	conf_none_passes: true,
};

fn all_readings() -> Vec<Reading> {
	let mut v = vec![MAIN];
	for al in &[false, true] {
		for sc in &[true, false] {
			for rs in &[1u8, 0, 2, 3] {
				for ol in &[false, true] {
					for cn in &[true, false] {
						v.push(Reading {
							amount_literal: *al,
							sent_cancelled: *sc,
							recv_set: *rs,
							outstanding_legacy: *ol,
							conf_none_passes: *cn,
						});
					}
				}
			}
		}
	}
	v
}

/// Models of the *open known findings* — used only to name the root cause of a failing answer and to keep
/// searching past it. With all three false this is the documented behaviour.
#[derive(Clone, Copy, Debug, Default, PartialEq)]
pub struct Defects {
	/// advanced queries ignore the active account
	pub acct_ignored: bool,
	/// max_creation_timestamp is never applied
	pub max_creation_ignored: bool,
	/// min_confirmed_timestamp additionally demands creation_ts <= bound
	pub min_conf_on_creation: bool,
}

pub const SIG_ACCT: &str = "c19:adv:account-ignored";
pub const SIG_MAXCR: &str = "c19:adv:max-creation-ts-ignored";
pub const SIG_MINCF: &str = "c19:adv:min-confirmed-ts-filters-creation";

#[derive(Clone, Copy, Debug, PartialEq, Eq, PartialOrd, Ord)]
pub enum Crit {
	Account,
	ExcludeCancelled,
	OutstandingOnly,
	ConfirmedOnly,
	SentOnly,
	ReceivedOnly,
	CoinbaseOnly,
	RevertedOnly,
	MinId,
	MaxId,
	MinAmount,
	MaxAmount,
	MinCreation,
	MaxCreation,
	MinConfirmed,
	MaxConfirmed,
}

pub const QUERY_CRITS: [Crit; 15] = [
	Crit::ExcludeCancelled,
	Crit::OutstandingOnly,
	Crit::ConfirmedOnly,
	Crit::SentOnly,
	Crit::ReceivedOnly,
	Crit::CoinbaseOnly,
	Crit::RevertedOnly,
	Crit::MinId,
	Crit::MaxId,
	Crit::MinAmount,
	Crit::MaxAmount,
	Crit::MinCreation,
	Crit::MaxCreation,
	Crit::MinConfirmed,
	Crit::MaxConfirmed,
];

impl Crit {
	fn name(&self) -> &'static str {
		match self {
			Crit::Account => "account",
			Crit::ExcludeCancelled => "exclude_cancelled",
			Crit::OutstandingOnly => "include_outstanding_only",
			Crit::ConfirmedOnly => "include_confirmed_only",
			Crit::SentOnly => "include_sent_only",
			Crit::ReceivedOnly => "include_received_only",
			Crit::CoinbaseOnly => "include_coinbase_only",
			Crit::RevertedOnly => "include_reverted_only",
			Crit::MinId => "min_id",
			Crit::MaxId => "max_id",
			Crit::MinAmount => "min_amount",
			Crit::MaxAmount => "max_amount",
			Crit::MinCreation => "min_creation_timestamp",
			Crit::MaxCreation => "max_creation_timestamp",
			Crit::MinConfirmed => "min_confirmed_timestamp",
			Crit::MaxConfirmed => "max_confirmed_timestamp",
		}
	}
	/// is the criterion supplied (and able to filter) in this query
	fn supplied(&self, q: &RetrieveTxQueryArgs) -> bool {
		match self {
			Crit::Account => true,
			Crit::ExcludeCancelled => q.exclude_cancelled == Some(true),
			Crit::OutstandingOnly => q.include_outstanding_only == Some(true),
			Crit::ConfirmedOnly => q.include_confirmed_only == Some(true),
			Crit::SentOnly => q.include_sent_only == Some(true),
			Crit::ReceivedOnly => q.include_received_only == Some(true),
			Crit::CoinbaseOnly => q.include_coinbase_only == Some(true),
			Crit::RevertedOnly => q.include_reverted_only == Some(true),
			Crit::MinId => q.min_id.is_some(),
			Crit::MaxId => q.max_id.is_some(),
			Crit::MinAmount => q.min_amount.is_some(),
			Crit::MaxAmount => q.max_amount.is_some(),
			Crit::MinCreation => q.min_creation_timestamp.is_some(),
			Crit::MaxCreation => q.max_creation_timestamp.is_some(),
			Crit::MinConfirmed => q.min_confirmed_timestamp.is_some(),
			Crit::MaxConfirmed => q.max_confirmed_timestamp.is_some(),
		}
	}
}

fn total_amount(e: &TxLogEntry, rd: &Reading) -> i128 {
	let c = e.amount_credited as i128;
	let d = e.amount_debited as i128;
	if !rd.amount_literal && is_sent(&e.tx_type) {
		d - c
	} else {
		c - d
	}
}

/// Does entry `e` satisfy criterion `c` of query `q` (omitted criteria do not filter).
fn holds(c: Crit, e: &TxLogEntry, active: &Identifier, q: &RetrieveTxQueryArgs, rd: &Reading, df: &Defects) -> bool {
	use TxLogEntryType::*;
	if !c.supplied(q) {
		return true;
	}
	match c {
		Crit::Account => df.acct_ignored || e.parent_key_id == *active,
		Crit::ExcludeCancelled => e.tx_type != TxReceivedCancelled && e.tx_type != TxSentCancelled,
		Crit::OutstandingOnly => {
			!e.confirmed && (!rd.outstanding_legacy || e.tx_type == TxSent || e.tx_type == TxReceived || e.tx_type == TxReverted)
		}
		Crit::ConfirmedOnly => e.confirmed,
		Crit::SentOnly => e.tx_type == TxSent || (rd.sent_cancelled && e.tx_type == TxSentCancelled),
		Crit::ReceivedOnly => {
			e.tx_type == TxReceived
				|| ((rd.recv_set == 1 || rd.recv_set == 2) && e.tx_type == TxReceivedCancelled)
				|| ((rd.recv_set == 2 || rd.recv_set == 3) && e.tx_type == TxReverted)
		}
		Crit::CoinbaseOnly => e.tx_type == ConfirmedCoinbase,
		Crit::RevertedOnly => e.tx_type == TxReverted,
		Crit::MinId => e.id >= q.min_id.unwrap(),
		Crit::MaxId => e.id <= q.max_id.unwrap(),
		Crit::MinAmount => total_amount(e, rd) >= q.min_amount.unwrap() as i128,
		Crit::MaxAmount => total_amount(e, rd) <= q.max_amount.unwrap() as i128,
		Crit::MinCreation => e.creation_ts >= q.min_creation_timestamp.unwrap(),
		Crit::MaxCreation => df.max_creation_ignored || e.creation_ts <= q.max_creation_timestamp.unwrap(),
		Crit::MinConfirmed => {
			let v = q.min_confirmed_timestamp.unwrap();
			let doc = match e.confirmation_ts {
				Some(t) => t >= v,
				None => rd.conf_none_passes,
			};
			doc && (!df.min_conf_on_creation || e.creation_ts <= v)
		}
		Crit::MaxConfirmed => match e.confirmation_ts {
			Some(t) => t <= q.max_confirmed_timestamp.unwrap(),
			None => rd.conf_none_passes,
		},
	}
}

fn violated(e: &TxLogEntry, active: &Identifier, q: &RetrieveTxQueryArgs, rd: &Reading, df: &Defects) -> Vec<Crit> {
	let mut v = vec![];
	if !holds(Crit::Account, e, active, q, rd, df) {
		v.push(Crit::Account);
	}
	for c in QUERY_CRITS.iter() {
		if !holds(*c, e, active, q, rd, df) {
			v.push(*c);
		}
	}
	v
}

/// sort key; None = unranked (no confirmation time when sorting by it: rank undocumented)
fn sort_key(e: &TxLogEntry, f: &RetrieveTxQuerySortField, rd: &Reading) -> Option<i128> {
	match f {
		RetrieveTxQuerySortField::Id => Some(e.id as i128),
		RetrieveTxQuerySortField::CreationTimestamp => Some(ts_key(&e.creation_ts)),
		RetrieveTxQuerySortField::ConfirmationTimestamp => e.confirmation_ts.as_ref().map(ts_key),
		RetrieveTxQuerySortField::TotalAmount => Some(total_amount(e, rd)),
		RetrieveTxQuerySortField::AmountCredited => Some(e.amount_credited as i128),
		RetrieveTxQuerySortField::AmountDebited => Some(e.amount_debited as i128),
	}
}

fn ts_key(t: &DateTime<Utc>) -> i128 {
	t.timestamp() as i128 * 1_000_000_000 + t.timestamp_subsec_nanos() as i128
}

fn sort_name(f: &RetrieveTxQuerySortField) -> &'static str {
	match f {
		RetrieveTxQuerySortField::Id => SORT_NAMES[0],
		RetrieveTxQuerySortField::CreationTimestamp => SORT_NAMES[1],
		RetrieveTxQuerySortField::ConfirmationTimestamp => SORT_NAMES[2],
		RetrieveTxQuerySortField::TotalAmount => SORT_NAMES[3],
		RetrieveTxQuerySortField::AmountCredited => SORT_NAMES[4],
		RetrieveTxQuerySortField::AmountDebited => SORT_NAMES[5],
	}
}

type Key = (Vec<u8>, u32);
fn key_of(e: &TxLogEntry) -> Key {
	(e.parent_key_id.to_bytes().to_vec(), e.id)
}

/// Validity of an answer to an advanced query under one reading / defect model.
/// `res` are indices into `entries` (answer already matched to stored entries, no duplicates).
/// Returns (number of elementary errors, failed predicates); valid iff the list is empty.
fn judge_adv(
	entries: &[TxLogEntry],
	active: &Identifier,
	q: &RetrieveTxQueryArgs,
	res: &[usize],
	rd: &Reading,
	df: &Defects,
) -> (usize, Vec<Fail>) {
	let mut fails: Vec<Fail> = vec![];
	let mut errors = 0usize;
	let qual: Vec<usize> = (0..entries.len())
		.filter(|i| violated(&entries[*i], active, q, rd, df).is_empty())
		.collect();
	// 1. every returned entry qualifies
	let mut bad: BTreeMap<Crit, usize> = BTreeMap::new();
	let mut good_returned = 0usize;
	for i in res {
		let v = violated(&entries[*i], active, q, rd, df);
		if v.is_empty() {
			good_returned += 1;
		} else {
			errors += 1;
		}
		for c in v {
			bad.entry(c).or_insert(*i);
		}
	}
	for (c, i) in &bad {
		fails.push(Fail::new(
			format!("c19:adv:returned-violates:{}", c.name()),
			format!("returned entry does not satisfy `{}`: {}", c.name(), brief(&entries[*i])),
		));
	}
	// 2. length = min(limit, #qualifying)
	let lim = q.limit.map(|l| l as usize).unwrap_or(usize::MAX);
	let want = std::cmp::min(lim, qual.len());
	if res.len() > lim {
		errors += res.len() - lim;
		fails.push(Fail::new("c19:adv:limit-exceeded", format!("limit {} but {} entries returned", lim, res.len())));
	}
	if good_returned < want {
		errors += want - good_returned;
		if res.len() < want {
			let missing: Vec<String> = qual.iter().filter(|i| !res.contains(i)).take(3).map(|i| brief(&entries[*i])).collect();
			fails.push(Fail::new(
				"c19:adv:qualifying-omitted",
				format!(
					"{} entries qualify, limit {:?}: expected {} entries, got {}; omitted e.g. {:?}",
					qual.len(),
					q.limit,
					want,
					res.len(),
					missing
				),
			));
		}
	}
	// 3. keys monotone in the requested direction (entries without a rank are skipped)
	let field = q.sort_field.clone().unwrap_or(RetrieveTxQuerySortField::Id);
	let desc = match q.sort_order {
		Some(RetrieveTxQuerySortOrder::Desc) => true,
		_ => false,
	};
	let dir = |k: i128| if desc { -k } else { k };
	let ranked: Vec<i128> = res.iter().filter_map(|i| sort_key(&entries[*i], &field, rd)).map(dir).collect();
	if ranked.windows(2).any(|w| w[0] > w[1]) {
		errors += 1;
		fails.push(Fail::new(
			format!("c19:adv:not-sorted:{}", sort_name(&field)),
			format!("keys ({}{}) of the answer are not monotone: {:?}", sort_name(&field), if desc { " desc" } else { " asc" }, ranked),
		));
	}
	// 4. truncated by the limit: a valid top-k (no omitted qualifying entry ranks strictly before a returned one)
	if bad.is_empty() && res.len() == lim && qual.len() > lim {
		if let Some(worst) = ranked.iter().max() {
			for i in qual.iter().filter(|i| !res.contains(i)) {
				if let Some(k) = sort_key(&entries[*i], &field, rd) {
					if dir(k) < *worst {
						errors += 1;
						fails.push(Fail::new(
							format!("c19:adv:not-top-k:{}", sort_name(&field)),
							format!(
								"omitted qualifying entry ranks before a returned one (sort {}{}, limit {:?}): {}",
								sort_name(&field),
								if desc { " desc" } else { " asc" },
								q.limit,
								brief(&entries[*i])
							),
						));
						break;
					}
				}
			}
		}
	}
	(errors, fails)
}

fn brief(e: &TxLogEntry) -> String {
	format!(
		"{{acct {} id {} {:?} confirmed {} credited {} debited {} created {} confirmed_at {:?}}}",
		e.parent_key_id.to_bip_32_string(),
		e.id,
		e.tx_type,
		e.confirmed,
		e.amount_credited,
		e.amount_debited,
		e.creation_ts.to_rfc3339_opts(chrono::SecondsFormat::Nanos, true),
		e.confirmation_ts.map(|t| t.to_rfc3339_opts(chrono::SecondsFormat::Nanos, true))
	)
}

// ---------------------------------------------------------------------------------------------

pub struct C19 {
	scratch: PathBuf,
	base: PathBuf,
	n: u64,
	readings: Vec<Reading>,
	max_entries: usize,
	max_queries: usize,
	nontrivial_queries: u64,
	queries: u64,
	alt_reading_accepts: u64,
	last_alt: Option<String>,
	/// which of the three modelled findings are listed as open in known_findings.json
	known: [bool; 3],
}

impl C19 {
	pub fn new(args: &Args) -> C19 {
		world::init_globals();
		let base = args.scratch.join("c19.base");
		let node = DirectNode::new(None);
		{
			let w = world::create_wallet(&base, "w", node, None, "", false).expect("wallet");
			w.owner.create_account_path(w.m(), LABELS[1]).unwrap();
			w.owner.create_account_path(w.m(), LABELS[2]).unwrap();
		}
		C19 {
			scratch: args.scratch.clone(),
			base,
			n: 0,
			readings: all_readings(),
			max_entries: 40,
			max_queries: 40,
			nontrivial_queries: 0,
			queries: 0,
			alt_reading_accepts: 0,
			last_alt: None,
			known: [
				args.known_open.iter().any(|k| k == SIG_ACCT),
				args.known_open.iter().any(|k| k == SIG_MAXCR),
				args.known_open.iter().any(|k| k == SIG_MINCF),
			],
		}
	}
}

impl Prop for C19 {
	type Case = Case;
	fn id(&self) -> &'static str {
		"C19"
	}
	fn part(&self) -> &'static str {
		"main"
	}
	fn cases(&self, tier: Tier) -> u64 {
		tier.pick(2_400, 100_000)
	}
	fn shrink_iters(&self) -> u32 {
		400
	}
	fn strategy(&self, _tier: Tier) -> BoxedStrategy<Case> {
		let mq = self.max_queries;
		(log_strategy(self.max_entries), prop::collection::vec(query_strategy(), 1..=mq))
			.prop_map(|(log, queries)| Case { log, queries })
			.boxed()
	}
	fn rule(&self) -> String {
		"one case = a synthetic log (0..40 entries, 1-3 accounts, six types, confirmed flag, amounts from a pool of 7, creation/confirmation instants from a pool of 6 with confirmation possibly absent, slate ids from a pool of 5, ids dense per account) written with save_tx_log_entry into a real LMDB wallet, and 1-40 queries through Owner::retrieve_txs(refresh=false) from a chosen active account: advanced queries (each of the 18 RetrieveTxQueryArgs fields independently None/Some; id/amount bounds = a value of the log +-1, time bounds = pool instant +-1ns; limit in {0,1,k,#qualifying-1,#qualifying,#qualifying+1,u32::MAX}), look-ups by log id (+-1 around existing ids), by slate id (pool + an absent one), both, with or without (ignored) query args, and the plain listing. evaluations = queries. A query is non-trivial if it supplies >= 2 criteria each of which, taken alone, rejects >= 1 and accepts >= 1 entry of the active account; a case is counted non-trivial if it has such a query (number of such queries: extra.main.nontrivial_queries); distinct by case hash".into()
	}
	fn assumptions(&self) -> Vec<String> {
		vec![
			"log entries have the shape the wallet writes: sending entries debit >= credit, all other types debit 0; confirmation time, when present, is not before creation time".into(),
			"undocumented meanings are accepted in every reading: total amount oriented by type or literally credited-debited; 'sent'/'received' with or without the matching cancelled type (received also with/without reverted); 'outstanding' = unconfirmed, or unconfirmed and Sent/Received/Reverted; an entry without confirmation time passes or fails confirmation-time bounds, and may rank anywhere when sorting by confirmation time; order of legacy look-up results is free".into(),
		]
	}
	fn extra(&self) -> Value {
		json!({"nontrivial_queries": self.nontrivial_queries, "queries": self.queries, "accepted_only_under_alternative_reading": self.alt_reading_accepts})
	}
	fn run(&mut self, c: &Case) -> Outcome {
		let mut out = Outcome::default();
		self.n += 1;
		let dir = self.scratch.join(format!("c19.{}", self.n));
		let _ = std::fs::remove_dir_all(&dir);
		world::copy_tree(&self.base, &dir).unwrap();
		let res = self.run_in(&dir, c, &mut out);
		let _ = std::fs::remove_dir_all(&dir);
		if let Err(e) = res {
			out.fail("c19:harness-error", e);
		}
		out.evals = Some(c.queries.len() as u64);
		out
	}
}

impl C19 {
	fn run_in(&mut self, dir: &PathBuf, c: &Case, out: &mut Outcome) -> Result<(), String> {
		let w = world::open_wallet(dir, "w", DirectNode::new(None), "", false)?;
		let accts = w.owner.accounts(w.m()).map_err(|e| format!("accounts: {}", e))?;
		let mut parents = vec![];
		for l in LABELS.iter() {
			parents.push(
				accts
					.iter()
					.find(|a| a.label == *l)
					.ok_or_else(|| format!("account {} missing", l))?
					.path
					.clone(),
			);
		}
		let n_accts = std::cmp::max(1, std::cmp::min(c.log.n_accts as usize, 3));
		let entries = materialise(&c.log, &parents);
		w.with(|b| -> Result<(), String> {
			let mut batch = b.batch(None).map_err(|e| e.to_string())?;
			for e in &entries {
				batch.save_tx_log_entry(e.clone(), &e.parent_key_id).map_err(|e| e.to_string())?;
			}
			batch.commit().map_err(|e| e.to_string())
		})?;
		let stored: BTreeMap<Key, (usize, Value)> = entries
			.iter()
			.enumerate()
			.map(|(i, e)| (key_of(e), (i, serde_json::to_value(e).unwrap())))
			.collect();
		out.class(format!("log:accounts={}", n_accts));
		out.class(format!(
			"log:entries={}",
			match entries.len() {
				0 => "0",
				1..=5 => "1-5",
				6..=15 => "6-15",
				16..=30 => "16-30",
				_ => "31-40",
			}
		));
		let mut active_label = "";
		for qc in &c.queries {
			let a = qc.acct as usize % n_accts;
			if active_label != LABELS[a] {
				w.set_account(LABELS[a])?;
				active_label = LABELS[a];
			}
			let active = &parents[a];
			self.queries += 1;
			match &qc.q {
				Query::Adv(qs) => {
					let mut qa = build_args(qs, &entries);
					let nq = entries
						.iter()
						.filter(|e| violated(e, active, &qa, &MAIN, &Defects::default()).is_empty())
						.count();
					qa.limit = qs.limit.as_ref().map(|l| match l {
						LimitSel::Abs(k) => *k as u32,
						LimitSel::Qual(d) => clamp_u32(nq as i128 + *d as i128),
						LimitSel::Max => u32::MAX,
					});
					let r = w.owner.retrieve_txs(w.m(), false, None, None, Some(qa.clone()));
					let got = match r {
						Ok((_, v)) => v,
						Err(e) => {
							out.fail("c19:adv:error", format!("query {} failed: {}", serde_json::to_string(&qa).unwrap(), e));
							continue;
						}
					};
					self.classify_adv(out, &entries, active, &qa, nq, got.len());
					let idxs = match match_stored(&stored, &got, "adv", out) {
						Some(i) => i,
						None => continue,
					};
					let fails = self.judge(&entries, active, &qa, &idxs);
					if let Some(c) = self.last_alt.take() {
						out.class(c);
					}
					for mut f in fails {
						f.detail = format!(
							"{} | active account {} | query {} | answer ids {:?}",
							f.detail,
							LABELS[a],
							serde_json::to_string(&qa).unwrap(),
							idxs.iter().map(|i| (entries[*i].parent_key_id.to_bip_32_string(), entries[*i].id)).collect::<Vec<_>>()
						);
						out.fails.push(f);
					}
				}
				Query::ById { id, slate, with_args } => {
					let ids = id_cands(&entries);
					let want_id = clamp_u32(pick_val(&ids, id));
					let sl = slate.map(slate_uuid);
					let args = ignored_args(*with_args);
					let r = w.owner.retrieve_txs(w.m(), false, Some(want_id), sl, args);
					let expect: Vec<usize> = (0..entries.len())
						.filter(|i| {
							let e = &entries[*i];
							e.parent_key_id == *active && e.id == want_id && sl.map(|s| e.tx_slate_id == Some(s)).unwrap_or(true)
						})
						.collect();
					let tag = if sl.is_some() { "by-id+slate" } else { "by-id" };
					self.check_legacy(out, tag, &entries, &stored, active, r, &expect, format!("tx_id {} slate {:?} args {}", want_id, sl, with_args));
				}
				Query::BySlate { slate, with_args } => {
					let sl = slate_uuid(*slate);
					let args = ignored_args(*with_args);
					let r = w.owner.retrieve_txs(w.m(), false, None, Some(sl), args);
					let expect: Vec<usize> = (0..entries.len())
						.filter(|i| entries[*i].parent_key_id == *active && entries[*i].tx_slate_id == Some(sl))
						.collect();
					self.check_legacy(out, "by-slate", &entries, &stored, active, r, &expect, format!("slate {} args {}", sl, with_args));
				}
				Query::All => {
					let r = w.owner.retrieve_txs(w.m(), false, None, None, None);
					let expect: Vec<usize> = (0..entries.len()).filter(|i| entries[*i].parent_key_id == *active).collect();
					self.check_legacy(out, "all", &entries, &stored, active, r, &expect, "no arguments".to_string());
				}
			}
		}
		Ok(())
	}

	/// Accept if valid under any reading; otherwise name the cause: the smallest set of known-finding models
	/// that explains the answer, or the failed predicates themselves.
	fn judge(&mut self, entries: &[TxLogEntry], active: &Identifier, q: &RetrieveTxQueryArgs, res: &[usize]) -> Vec<Fail> {
		let none = Defects::default();
		let (_, main_fails) = judge_adv(entries, active, q, res, &MAIN, &none);
		if main_fails.is_empty() {
			return vec![];
		}
		let subsets: [[bool; 3]; 8] = [
			[false, false, false],
			[true, false, false],
			[false, true, false],
			[false, false, true],
			[true, true, false],
			[true, false, true],
			[false, true, true],
			[true, true, true],
		];
		let mut best: Option<((usize, usize, usize), Defects, Vec<Fail>)> = None;
		for s in subsets.iter() {
			let df = Defects {
				acct_ignored: s[0],
				max_creation_ignored: s[1],
				min_conf_on_creation: s[2],
			};
			for rd in self.readings.iter() {
				let (_, f) = judge_adv(entries, active, q, res, rd, &df);
				if f.is_empty() {
					if df == none {
						self.alt_reading_accepts += 1;
						self.last_alt = Some(format!(
							"adv:accepted-under-alternative-reading:{}{}{}{}{}",
							if rd.amount_literal { "amount-literal," } else { "" },
							if !rd.sent_cancelled { "sent-without-cancelled," } else { "" },
							if rd.recv_set != 1 { "received-set," } else { "" },
							if rd.outstanding_legacy { "outstanding-legacy," } else { "" },
							if !rd.conf_none_passes { "no-conf-time-fails-bounds," } else { "" }
						));
						return vec![];
					}
					let mut v = vec![];
					if df.acct_ignored {
						v.push(Fail::new(SIG_ACCT, format!("answer is only explained by: advanced query ignores the active account. {}", first_detail(&main_fails))));
					}
					if df.max_creation_ignored {
						v.push(Fail::new(SIG_MAXCR, format!("answer is only explained by: max_creation_timestamp not applied. {}", first_detail(&main_fails))));
					}
					if df.min_conf_on_creation {
						v.push(Fail::new(
							SIG_MINCF,
							format!("answer is only explained by: min_confirmed_timestamp also filters creation_ts <= bound. {}", first_detail(&main_fails)),
						));
					}
					return v;
				}
			}
			// unexplained under this model (main reading): remember the model leaving the fewest elementary errors
			let (n_err, f) = judge_adv(entries, active, q, res, &MAIN, &df);
			// ties: prefer models made of findings listed as open, and among those the larger one
			let unknown_toggles = (0..3).filter(|i| s[*i] && !self.known[*i]).count();
			let known_off = (0..3).filter(|i| !s[*i] && self.known[*i]).count();
			let score = (n_err, unknown_toggles, known_off);
			let better = match &best {
				None => true,
				Some((n, _, _)) => score < *n,
			};
			if better {
				best = Some((score, df, f));
			}
		}
		let (_, df, mut f) = best.unwrap();
		if df.acct_ignored {
			f.push(Fail::new(SIG_ACCT, "part of the best explanation of an otherwise unexplained answer".to_string()));
		}
		if df.max_creation_ignored {
			f.push(Fail::new(SIG_MAXCR, "part of the best explanation of an otherwise unexplained answer".to_string()));
		}
		if df.min_conf_on_creation {
			f.push(Fail::new(SIG_MINCF, "part of the best explanation of an otherwise unexplained answer".to_string()));
		}
		f
	}

	fn classify_adv(&mut self, out: &mut Outcome, entries: &[TxLogEntry], active: &Identifier, qa: &RetrieveTxQueryArgs, nq: usize, got: usize) {
		let none = Defects::default();
		let mine: Vec<&TxLogEntry> = entries.iter().filter(|e| e.parent_key_id == *active).collect();
		let mut supplied = 0;
		let mut discr = 0;
		for c in QUERY_CRITS.iter() {
			if c.supplied(qa) {
				supplied += 1;
				let acc = mine.iter().filter(|e| holds(*c, e, active, qa, &MAIN, &none)).count();
				if acc >= 1 && acc < mine.len() {
					discr += 1;
					out.class(format!("adv:discriminating:{}", c.name()));
				}
			}
		}
		out.class(format!("adv:criteria={}", std::cmp::min(supplied, 6)));
		out.class(format!("adv:discriminating={}", std::cmp::min(discr, 5)));
		out.class(format!(
			"adv:qualifying={}",
			match nq {
				0 => "0",
				1 => "1",
				2..=5 => "2-5",
				_ => "6+",
			}
		));
		if let Some(l) = qa.limit {
			let l = l as usize;
			out.class(if l < nq {
				"adv:limit<qualifying"
			} else if l == nq {
				"adv:limit=qualifying"
			} else {
				"adv:limit>qualifying"
			});
		}
		let f = qa.sort_field.clone().unwrap_or(RetrieveTxQuerySortField::Id);
		out.class(format!(
			"adv:sort={}{}",
			sort_name(&f),
			match qa.sort_order {
				Some(RetrieveTxQuerySortOrder::Desc) => ":desc",
				Some(RetrieveTxQuerySortOrder::Asc) => ":asc",
				None => ":default",
			}
		));
		if got > 1 {
			out.class("adv:answer>1");
		}
		if discr >= 2 {
			out.class("adv:nontrivial");
			out.nontrivial = true;
			self.nontrivial_queries += 1;
		}
	}

	fn check_legacy(
		&mut self,
		out: &mut Outcome,
		tag: &str,
		entries: &[TxLogEntry],
		stored: &BTreeMap<Key, (usize, Value)>,
		active: &Identifier,
		r: Result<(bool, Vec<TxLogEntry>), grin_wallet_libwallet::Error>,
		expect: &[usize],
		what: String,
	) {
		let got = match r {
			Ok((_, v)) => v,
			Err(e) => {
				out.fail(format!("c19:{}:error", tag), format!("look-up ({}) failed: {}", what, e));
				return;
			}
		};
		out.class(format!("{}:matches={}", tag, std::cmp::min(expect.len(), 3)));
		// does the same id / slate id exist in another account (so that the account matters)?
		let idxs = match match_stored(stored, &got, tag, out) {
			Some(i) => i,
			None => return,
		};
		for i in &idxs {
			if !expect.contains(i) {
				let e = &entries[*i];
				if e.parent_key_id != *active {
					out.fail(format!("c19:{}:other-account-entry", tag), format!("look-up ({}) returned an entry of another account: {}", what, brief(e)));
				} else {
					out.fail(format!("c19:{}:unexpected-entry", tag), format!("look-up ({}) returned a non-matching entry: {}", what, brief(e)));
				}
			}
		}
		for i in expect {
			if !idxs.contains(i) {
				out.fail(format!("c19:{}:missing-entry", tag), format!("look-up ({}) did not return matching entry {}", what, brief(&entries[*i])));
			}
		}
	}
}

fn first_detail(f: &[Fail]) -> String {
	f.iter().map(|x| format!("[{}] {}", x.sig, x.detail)).collect::<Vec<_>>().join(" ; ")
}

/// Query args passed together with tx_id / tx_slate_id; documented to be ignored. Chosen so that they would
/// empty the answer if they were applied.
fn ignored_args(with: bool) -> Option<RetrieveTxQueryArgs> {
	if !with {
		return None;
	}
	let mut a = RetrieveTxQueryArgs::default();
	a.limit = Some(0);
	a.min_id = Some(u32::MAX);
	Some(a)
}

/// Every returned entry must be one of the stored entries, unaltered, and returned once.
fn match_stored(stored: &BTreeMap<Key, (usize, Value)>, got: &[TxLogEntry], tag: &str, out: &mut Outcome) -> Option<Vec<usize>> {
	let mut idxs = vec![];
	let mut ok = true;
	for g in got {
		match stored.get(&key_of(g)) {
			None => {
				out.fail(format!("c19:{}:unknown-entry", tag), format!("returned entry was never written: {}", brief(g)));
				ok = false;
			}
			Some((i, v)) => {
				if serde_json::to_value(g).unwrap() != *v {
					out.fail(format!("c19:{}:entry-altered", tag), format!("returned entry differs from the stored one: {} vs {}", serde_json::to_string(g).unwrap(), v));
					ok = false;
				}
				if idxs.contains(i) {
					out.fail(format!("c19:{}:duplicate-entry", tag), format!("entry returned twice: {}", brief(g)));
					ok = false;
				}
				idxs.push(*i);
			}
		}
	}
	if ok {
		Some(idxs)
	} else {
		None
	}
}

pub fn run(args: &Args, rep: &mut Report) {
	let mut p = C19::new(args);
	run_part(&mut p, args, rep);
}

pub fn replay(args: &Args, _part: &str, case: &Value) -> Result<Outcome, String> {
	replay_part(&mut C19::new(args), case)
}

#[allow(dead_code)]
fn _unused(_w: &Wal) {}
