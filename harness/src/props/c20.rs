//! C20 — background refresh never clobbers concurrent wallet operations.
//!
//! Engine: cooperative scheduler (src/sched.rs) over real OS threads, parked at every `wallet_lock!`
//! acquisition through the `verif_hooks` callback. Thread R runs a refresh
//! (`retrieve_summary_info(refresh)` = `update_wallet_state`) or `scan`; threads O_i each run one prepared
//! operation on the same wallet instance. Oracle = serialisability: the same operations are run in every
//! serial order from a copy of the same on-disk start state; the projected final state + every
//! operation's result class of the interleaved run must equal those of at least one serial order.

use crate::base::{self, BaseSpec};
use crate::rt::*;
use crate::sched::{self, Tail, Trace};
use crate::sim::{wire, Sim};
use crate::snap;
use crate::world::{self, Wal};
use grin_chain::Options;
use grin_core::core::Block;
use grin_core::global::{self, ChainTypes};
use grin_util::secp::key::SecretKey;
use grin_util::ToHex;
use grin_wallet_api::{Foreign, Owner};
use grin_wallet_libwallet::{Error as WErr, InitTxArgs, Slate, TxLogEntryType};
use proptest::prelude::*;
use serde_derive::{Deserialize, Serialize};
use serde_json::{json, Map, Value};
use std::collections::BTreeMap;
use std::path::{Path, PathBuf};
use std::sync::mpsc::channel;
use std::sync::{Arc, Mutex};
use std::time::Duration;
use uuid::Uuid;

// ---------------------------------------------------------------------------------------------
// configuration language

/// What thread R runs. 0 = refresh (retrieve_summary_info(refresh=true) -> update_wallet_state),
/// 1 = scan(None, delete_unconfirmed=false), 2 = scan(None, delete_unconfirmed=true)
pub const R_REFRESH: u8 = 0;
pub const R_SCAN: u8 = 1;
pub const R_SCAN_DELETE: u8 = 2;

/// Operation kinds of the O threads.
pub const O_INIT: u8 = 0; // init_send_tx (fresh slate, created inside the phase)
pub const O_LOCK: u8 = 1; // tx_lock_outputs of the prepared unlocked slate A
pub const O_RECV: u8 = 2; // foreign receive_tx of the prepared S1 from the peer
pub const O_FIN: u8 = 3; // finalize_tx of the prepared S2
pub const O_CANCEL: u8 = 4; // cancel_tx of the state's pending entry
pub const O_REFRESH: u8 = 5; // retrieve_summary_info(refresh)
pub const O_MINE: u8 = 6; // node event: the prepared block is accepted by the node (no wallet call)
pub const O_CANCEL2: u8 = 7; // cancel_tx of a second, unrelated pending entry X (state past-ttl only)
pub const O_DOWN: u8 = 8; // node event: the node becomes unreachable (every node call fails from here on; no wallet call)

fn op_name(k: u8) -> &'static str {
	match k {
		O_INIT => "init_send",
		O_LOCK => "lock",
		O_RECV => "receive",
		O_FIN => "finalize",
		O_CANCEL => "cancel",
		O_REFRESH => "refresh",
		O_MINE => "block-mined",
		O_CANCEL2 => "cancel-other",
		O_DOWN => "node-unreachable",
		_ => "?",
	}
}
fn r_name(k: u8) -> &'static str {
	match k {
		R_REFRESH => "R:refresh",
		R_SCAN => "R:scan",
		_ => "R:scan-delete",
	}
}
/// operations that hold the wallet lock for their whole duration (no hook inside): one segment
fn is_atomic(k: u8) -> bool {
	matches!(k, O_INIT | O_LOCK | O_RECV | O_FIN | O_MINE | O_DOWN)
}

/// Start states.
pub const S_PENDING_UNLOCKED: u8 = 0;
pub const S_LOCKED: u8 = 1;
pub const S_REPLY: u8 = 2;
pub const S_PENDING_RECV: u8 = 3;
pub const S_MINED_UNREFRESHED: u8 = 4;
pub const S_PAST_TTL: u8 = 5;
pub const S_NOCHANGE_MINED: u8 = 6;
/// event states: the transaction is posted, the block containing it is built but not yet accepted
pub const S_NOCHANGE_POSTED: u8 = 7;
pub const S_CHANGE_POSTED: u8 = 8;
/// the subject is the RECIPIENT of the posted transaction
pub const S_RECV_POSTED: u8 = 9;
pub const N_FROZEN_STATES: u8 = 7;

fn state_name(k: u8) -> &'static str {
	match k {
		S_PENDING_UNLOCKED => "pending-unlocked-send",
		S_LOCKED => "locked-send",
		S_REPLY => "reply-in-hand",
		S_PENDING_RECV => "pending-receive",
		S_MINED_UNREFRESHED => "mined-unrefreshed",
		S_PAST_TTL => "past-ttl",
		S_NOCHANGE_MINED => "nochange-mined-unrefreshed",
		S_NOCHANGE_POSTED => "nochange-posted-block-pending",
		S_CHANGE_POSTED => "change-posted-block-pending",
		S_RECV_POSTED => "received-posted-block-pending",
		_ => "?",
	}
}

/// Variation of a start state (thorough tier draws several per kind).
#[derive(Clone, Debug, Serialize, Deserialize, PartialEq, Eq, PartialOrd, Ord)]
pub struct Var {
	/// base world spec 0..3
	pub base: u8,
	/// amount of the subject's sends, in 1/16 of one coinbase reward (1..=14)
	pub amt: u8,
	/// change outputs of the subject's sends (1..=2)
	pub change: u8,
	/// payment proof on the state's main send
	pub proof: bool,
	/// cancel addressed by log id instead of slate id
	pub by_id: bool,
}

impl Default for Var {
	fn default() -> Var {
		Var {
			base: 0,
			amt: 5,
			change: 1,
			proof: false,
			by_id: false,
		}
	}
}

fn var_strategy() -> BoxedStrategy<Var> {
	(0u8..3, 1u8..=14, 1u8..=2, any::<bool>(), any::<bool>())
		.prop_map(|(base, amt, change, proof, by_id)| Var {
			base,
			amt,
			change,
			proof,
			by_id,
		})
		.boxed()
}

#[derive(Clone, Debug, Serialize, Deserialize)]
pub struct Case {
	pub state: u8,
	pub var: Var,
	pub r: u8,
	/// O threads (thread index i+1 runs ops[i])
	pub ops: Vec<u8>,
	/// None: enumerate schedules systematically (see `bound`); Some: run exactly these schedules
	pub scheds: Option<Vec<Vec<u8>>>,
	/// preemption bound for enumeration (None = every schedule)
	pub bound: Option<u32>,
	/// maximum number of executions when enumerating
	#[serde(default)]
	pub limit: u64,
}

// ---------------------------------------------------------------------------------------------
// prepared start states

const REWARD: u64 = 60_000_000_000;

#[derive(Clone)]
pub struct Prepared {
	pub init_args: InitTxArgs,
	pub lock: Option<Slate>,
	pub recv: Option<Slate>,
	pub fin: Option<Slate>,
	pub cancel: Option<(Option<u32>, Uuid)>,
	pub cancel2: Option<Uuid>,
	pub block: Option<Block>,
	pub labels: BTreeMap<Uuid, String>,
	/// kernel excesses that are functions of the prepared material (present in the start state, or the
	/// final excess of the prepared reply); every other excess is drawn from the wallet's RNG inside the
	/// phase (e.g. receive_tx picks a random offset share) and is compared as "present"
	pub known_excess: Vec<String>,
}

pub struct StartState {
	pub dir: PathBuf,
	pub prep: Prepared,
}

fn base_spec(v: u8) -> BaseSpec {
	match v % 3 {
		0 => BaseSpec {
			mined: vec![(0, 0, 5), (1, 0, 4)],
			tail: 3,
			wallets: 2,
		},
		1 => BaseSpec {
			mined: vec![(0, 0, 4), (1, 0, 3), (0, 1, 1)],
			tail: 4,
			wallets: 2,
		},
		_ => BaseSpec {
			mined: vec![(1, 0, 3), (0, 0, 6)],
			tail: 3,
			wallets: 2,
		},
	}
}

fn es<E: std::fmt::Display>(what: &'static str) -> impl Fn(E) -> String {
	move |e| format!("{}: {}", what, e)
}

fn send_args(amount: u64, change: u8, ttl: Option<u64>, incl_fee: bool) -> InitTxArgs {
	InitTxArgs {
		src_acct_name: None,
		amount,
		amount_includes_fee: if incl_fee { Some(true) } else { None },
		minimum_confirmations: 1,
		max_outputs: 500,
		num_change_outputs: change as u32,
		selection_strategy_is_use_all: false,
		ttl_blocks: ttl,
		late_lock: Some(false),
		estimate_only: Some(false),
		..Default::default()
	}
}

struct Builder<'a> {
	sim: &'a mut Sim,
	labels: BTreeMap<Uuid, String>,
}

impl<'a> Builder<'a> {
	fn init(&mut self, w: usize, args: InitTxArgs, label: &str) -> Result<Slate, String> {
		let s = self.sim.w(w).owner.init_send_tx(self.sim.w(w).m(), args).map_err(es("prep init_send_tx"))?;
		self.labels.insert(s.id, label.to_string());
		Ok(s)
	}
	fn lock(&mut self, w: usize, s: &Slate) -> Result<(), String> {
		self.sim.w(w).owner.tx_lock_outputs(self.sim.w(w).m(), s).map_err(es("prep tx_lock_outputs"))
	}
	fn receive(&mut self, w: usize, s1: &Slate) -> Result<Slate, String> {
		let s1 = wire(s1)?;
		self.sim.w(w).foreign().receive_tx(&s1, None, None).map_err(es("prep receive_tx"))
	}
	fn finalize(&mut self, w: usize, s2: &Slate) -> Result<Slate, String> {
		let s2 = wire(s2)?;
		self.sim.w(w).owner.finalize_tx(self.sim.w(w).m(), &s2).map_err(es("prep finalize_tx"))
	}
	fn post(&mut self, w: usize, s3: &Slate) -> Result<(), String> {
		self.sim.w(w).owner.post_tx(self.sim.w(w).m(), s3, true).map_err(es("prep post_tx"))
	}
	fn full(&mut self, from: usize, to: usize, args: InitTxArgs, label: &str) -> Result<Slate, String> {
		let s1 = self.init(from, args, label)?;
		self.lock(from, &s1)?;
		let s2 = self.receive(to, &s1)?;
		let s3 = self.finalize(from, &s2)?;
		self.post(from, &s3)?;
		Ok(s3)
	}
}

fn build_state(base_dir: &Path, dir: &Path, kind: u8, var: &Var) -> Result<StartState, String> {
	let mut sim = base::open_copy(base_dir, dir)?;
	let amt = (REWARD / 16) * (var.amt.max(1).min(14) as u64);
	let peer_amt = REWARD / 8;
	let proof_addr = if var.proof { Some(sim.slatepack_address(1)?) } else { None };
	let mut b = Builder {
		sim: &mut sim,
		labels: BTreeMap::new(),
	};
	let (w, p) = (0usize, 1usize);
	// operand of O_RECV in every state: a locked send of the peer, not yet delivered
	let s1_in = b.init(p, send_args(peer_amt, 1, None, false), "in")?;
	b.lock(p, &s1_in)?;
	let mut main_args = send_args(amt, var.change, None, false);
	main_args.payment_proof_recipient_address = proof_addr.clone();
	let second_args = send_args(REWARD / 4, 1, None, false);
	let mut prep = Prepared {
		init_args: send_args(REWARD / 5, 1, None, false),
		lock: None,
		recv: Some(wire(&s1_in)?),
		fin: None,
		cancel: None,
		cancel2: None,
		block: None,
		labels: BTreeMap::new(),
		known_excess: vec![],
	};
	let cancel_id: Option<Uuid>;
	match kind {
		S_PENDING_UNLOCKED => {
			let a = b.init(w, main_args, "A")?;
			cancel_id = Some(a.id);
			prep.lock = Some(wire(&a)?);
		}
		S_LOCKED => {
			let s = b.init(w, main_args, "B")?;
			b.lock(w, &s)?;
			cancel_id = Some(s.id);
			let a = b.init(w, second_args, "A")?;
			prep.lock = Some(wire(&a)?);
		}
		S_REPLY => {
			let s = b.init(w, main_args, "C")?;
			b.lock(w, &s)?;
			let s2 = b.receive(p, &s)?;
			prep.fin = Some(wire(&s2)?);
			cancel_id = Some(s.id);
			let a = b.init(w, second_args, "A")?;
			prep.lock = Some(wire(&a)?);
		}
		S_PENDING_RECV => {
			let d = b.init(p, send_args(peer_amt, 1, None, false), "D")?;
			b.lock(p, &d)?;
			let _s2 = b.receive(w, &d)?;
			cancel_id = Some(d.id);
			let a = b.init(w, second_args, "A")?;
			prep.lock = Some(wire(&a)?);
		}
		S_MINED_UNREFRESHED => {
			let e1 = b.full(w, p, main_args, "E1")?;
			let _e2 = b.full(p, w, send_args(peer_amt, 1, None, false), "E2")?;
			let a = b.init(w, second_args, "A")?;
			prep.lock = Some(wire(&a)?);
			cancel_id = Some(e1.id);
			// one block with both transactions, rewarded to the subject; one more on top
			b.sim.mine(Some(w), 0xffff)?;
			b.sim.mine(None, 0xffff)?;
		}
		S_PAST_TTL => {
			let mut args = main_args;
			args.ttl_blocks = Some(2);
			let g = b.init(w, args, "G")?;
			b.lock(w, &g)?;
			let s2 = b.receive(p, &g)?;
			prep.fin = Some(wire(&s2)?);
			cancel_id = Some(g.id);
			// an unrelated pending (locked) send without TTL
			let x = b.init(w, second_args.clone(), "X")?;
			b.lock(w, &x)?;
			prep.cancel2 = Some(x.id);
			let a = b.init(w, second_args, "A")?;
			prep.lock = Some(wire(&a)?);
			for _ in 0..3 {
				b.sim.mine(None, 0xffff)?;
			}
		}
		S_NOCHANGE_MINED | S_NOCHANGE_POSTED | S_CHANGE_POSTED => {
			let a = b.init(w, second_args, "A")?;
			prep.lock = Some(wire(&a)?);
			let mut args = if kind == S_CHANGE_POSTED { main_args } else { send_args(REWARD, 1, None, true) };
			args.payment_proof_recipient_address = proof_addr.clone();
			let h = b.full(w, p, args, "H")?;
			cancel_id = Some(h.id);
			if kind == S_NOCHANGE_MINED {
				b.sim.mine(None, 0xffff)?;
			} else {
				// build the block that contains the posted transaction, do not process it yet
				let txs = b.sim.world.node.take_mempool();
				let prev = b.sim.world.head_header();
				let fees: u64 = txs.iter().map(|t| t.fee()).sum();
				let rew = b.sim.world.coinbase_nobody(fees);
				let blk = b.sim.world.build_block(&prev, &txs, rew)?;
				prep.block = Some(blk);
			}
		}
		S_RECV_POSTED => {
			let a = b.init(w, second_args, "A")?;
			prep.lock = Some(wire(&a)?);
			let h = b.full(p, w, send_args(peer_amt, 1, None, false), "H")?;
			cancel_id = Some(h.id);
			let txs = b.sim.world.node.take_mempool();
			let prev = b.sim.world.head_header();
			let fees: u64 = txs.iter().map(|t| t.fee()).sum();
			let rew = b.sim.world.coinbase_nobody(fees);
			prep.block = Some(b.sim.world.build_block(&prev, &txs, rew)?);
		}
		_ => return Err(format!("unknown state kind {}", kind)),
	}
	prep.labels = b.labels.clone();
	for t in snap::view(sim.w(w)).txs.iter() {
		if let Some(e) = &t.kernel_excess {
			prep.known_excess.push(hex(&e.0));
		}
	}
	if let Some(s2) = &prep.fin {
		let secp = grin_util::static_secp_instance();
		let secp = secp.lock();
		if let Ok(e) = s2.calc_excess(&secp) {
			prep.known_excess.push(hex(&e.0));
		}
	}
	if let Some(id) = cancel_id {
		let tx_id = if var.by_id {
			let v = snap::view(sim.w(w));
			let parent = sim.w(w).active_parent();
			v.txs
				.iter()
				.find(|t| t.tx_slate_id == Some(id) && t.parent_key_id == parent && matches!(t.tx_type, TxLogEntryType::TxSent | TxLogEntryType::TxReceived))
				.map(|t| t.id)
		} else {
			None
		};
		prep.cancel = Some((tx_id, id));
	}
	drop(sim);
	Ok(StartState {
		dir: dir.to_path_buf(),
		prep,
	})
}

/// Operations available in a start state (operand prepared).
fn available_ops(kind: u8, prep: &Prepared) -> Vec<u8> {
	let mut v = vec![O_INIT];
	if prep.lock.is_some() {
		v.push(O_LOCK);
	}
	if prep.recv.is_some() {
		v.push(O_RECV);
	}
	if prep.fin.is_some() {
		v.push(O_FIN);
	}
	if prep.cancel.is_some() {
		v.push(O_CANCEL);
	}
	v.push(O_REFRESH);
	if prep.block.is_some() {
		v.push(O_MINE);
	}
	if prep.cancel2.is_some() {
		v.push(O_CANCEL2);
	}
	v.push(O_DOWN);
	let _ = kind;
	v
}

// ---------------------------------------------------------------------------------------------
// executing one operation

#[derive(Clone)]
enum OpInst {
	Refresh,
	Scan(bool),
	Init(InitTxArgs),
	Lock(Slate),
	Recv(Slate),
	Fin(Slate),
	Cancel(Option<u32>, Option<Uuid>),
	Mine(Block),
	Down,
}

fn err_class(e: &WErr) -> String {
	let d = format!("{:?}", e);
	let cls: String = d.chars().take_while(|c| c.is_ascii_alphanumeric() || *c == '_').collect();
	format!("err:{}", cls)
}

/// Runs one operation against the shared wallet instance; returns (result class, slate id created).
fn run_op(op: &OpInst, inst: &world::WInst, mask: &Option<SecretKey>, chain: &Arc<grin_chain::Chain>, node: &crate::node::DirectNode) -> (String, Option<Uuid>) {
	let (tx, _rx) = channel();
	let m = mask.as_ref();
	match op {
		OpInst::Refresh => {
			let o: Owner<world::LC, crate::node::DirectNode, grin_keychain::ExtKeychain> = Owner::new(inst.clone(), Some(tx));
			match o.retrieve_summary_info(m, true, 1) {
				Ok((validated, _)) => (format!("ok:validated={}", validated), None),
				Err(e) => (err_class(&e), None),
			}
		}
		OpInst::Scan(del) => {
			let o = Owner::new(inst.clone(), Some(tx));
			match o.scan(m, None, *del) {
				Ok(()) => ("ok".into(), None),
				Err(e) => (err_class(&e), None),
			}
		}
		OpInst::Init(args) => {
			let o = Owner::new(inst.clone(), Some(tx));
			match o.init_send_tx(m, args.clone()) {
				Ok(s) => ("ok".into(), Some(s.id)),
				Err(e) => (err_class(&e), None),
			}
		}
		OpInst::Lock(s) => {
			let o = Owner::new(inst.clone(), Some(tx));
			match o.tx_lock_outputs(m, s) {
				Ok(()) => ("ok".into(), None),
				Err(e) => (err_class(&e), None),
			}
		}
		OpInst::Recv(s) => {
			let f = Foreign::new(inst.clone(), mask.clone(), None, false);
			match f.receive_tx(s, None, None) {
				Ok(_) => ("ok".into(), None),
				Err(e) => (err_class(&e), None),
			}
		}
		OpInst::Fin(s) => {
			let o = Owner::new(inst.clone(), Some(tx));
			match o.finalize_tx(m, s) {
				Ok(_) => ("ok".into(), None),
				Err(e) => (err_class(&e), None),
			}
		}
		OpInst::Cancel(tx_id, slate_id) => {
			let o = Owner::new(inst.clone(), Some(tx));
			match o.cancel_tx(m, *tx_id, *slate_id) {
				Ok(()) => ("ok".into(), None),
				Err(e) => (err_class(&e), None),
			}
		}
		OpInst::Mine(b) => match chain.process_block(b.clone(), Options::MINE) {
			Ok(_) => ("ok".into(), None),
			Err(e) => (format!("err:chain:{:?}", e).chars().take(60).collect(), None),
		},
		OpInst::Down => {
			node.set_down(true);
			("ok".into(), None)
		}
	}
}

fn instantiate(prep: &Prepared, r: u8, ops: &[u8]) -> Result<Vec<OpInst>, String> {
	let mut v = vec![match r {
		R_REFRESH => OpInst::Refresh,
		R_SCAN => OpInst::Scan(false),
		R_SCAN_DELETE => OpInst::Scan(true),
		_ => return Err(format!("bad r kind {}", r)),
	}];
	for k in ops {
		v.push(match *k {
			O_INIT => OpInst::Init(prep.init_args.clone()),
			O_LOCK => OpInst::Lock(prep.lock.clone().ok_or("no operand: lock")?),
			O_RECV => OpInst::Recv(prep.recv.clone().ok_or("no operand: receive")?),
			O_FIN => OpInst::Fin(prep.fin.clone().ok_or("no operand: finalize")?),
			O_CANCEL => {
				let (tx_id, id) = prep.cancel.clone().ok_or("no operand: cancel")?;
				if tx_id.is_some() {
					OpInst::Cancel(tx_id, None)
				} else {
					OpInst::Cancel(None, Some(id))
				}
			}
			O_REFRESH => OpInst::Refresh,
			O_CANCEL2 => OpInst::Cancel(None, Some(prep.cancel2.clone().ok_or("no operand: cancel-other")?)),
			O_MINE => OpInst::Mine(prep.block.clone().ok_or("no operand: block")?),
			O_DOWN => OpInst::Down,
			k => return Err(format!("bad op kind {}", k)),
		});
	}
	Ok(v)
}

// ---------------------------------------------------------------------------------------------
// projection of the final state

fn hex(b: &[u8]) -> String {
	b.to_vec().to_hex()
}

fn lenpref_json(v: &[u8]) -> Option<Value> {
	if v.len() > 8 {
		let mut l = [0u8; 8];
		l.copy_from_slice(&v[0..8]);
		if u64::from_be_bytes(l) as usize == v.len() - 8 {
			return serde_json::from_slice::<Value>(&v[8..]).ok();
		}
	}
	None
}

fn project(wal: &Wal, chain: &Arc<grin_chain::Chain>, scratch: &Path, labels: &BTreeMap<Uuid, String>, known_excess: &[String]) -> Result<Value, String> {
	let v = snap::view(wal);
	let label = |id: &Option<Uuid>| -> Value {
		match id {
			None => Value::Null,
			Some(u) => Value::String(labels.get(u).cloned().unwrap_or_else(|| "unknown-slate".to_string())),
		}
	};
	// log entries: everything the statement names; no log id (ids interleave legitimately), no timestamps
	let mut entry_digest: BTreeMap<(Vec<u8>, u32), String> = BTreeMap::new();
	let mut entries: Vec<Value> = vec![];
	for t in &v.txs {
		let e = json!({
			"acct": hex(&t.parent_key_id.to_bytes()),
			"slate": label(&t.tx_slate_id),
			"type": format!("{:?}", t.tx_type),
			"confirmed": t.confirmed,
			"debited": t.amount_debited,
			"credited": t.amount_credited,
			"fee": t.fee.map(|f| f.fee()),
			"ttl": t.ttl_cutoff_height,
			"excess": match &t.kernel_excess { None => Value::Null, Some(c) => if known_excess.contains(&hex(&c.0)) { json!(hex(&c.0)) } else { json!("present (not derivable from the prepared material)") } },
			"proof": match &t.payment_proof { None => Value::Null, Some(p) => json!({
				"receiver": hex(p.receiver_address.as_bytes()),
				"receiver_sig": p.receiver_signature.is_some(),
				"sender_sig": p.sender_signature.is_some(),
			}) },
			"n_in": t.num_inputs,
			"n_out": t.num_outputs,
			"stored_tx": t.stored_tx.is_some(),
			"reverted": t.reverted_after.is_some(),
		});
		entry_digest.insert(
			(t.parent_key_id.to_bytes().to_vec(), t.id),
			format!("{}/{:?}/{}", e["slate"].as_str().unwrap_or("-"), t.tx_type, if t.confirmed { "confirmed" } else { "unconfirmed" }),
		);
		entries.push(e);
	}
	entries.sort_by_key(|e| e.to_string());
	let mut outputs: Vec<Value> = vec![];
	for o in &v.outputs {
		let link = match o.tx_log_entry {
			None => Value::Null,
			Some(i) => json!(entry_digest.get(&(o.root_key_id.to_bytes().to_vec(), i)).cloned().unwrap_or_else(|| "dangling".to_string())),
		};
		// not wallet state: whether the chain's UTXO set holds the commitment at the end of the run (the same in
		// every run of a configuration; used by the classifiers)
		let in_utxo = crate::sim::commit_of(o)
			.map(|c| matches!(chain.get_unspent(grin_util::secp::pedersen::Commitment::from_vec(c)), Ok(Some(_))))
			.unwrap_or(false);
		outputs.push(json!({
			"in_utxo": in_utxo,
			"key": hex(&o.key_id.to_bytes()),
			"commit": o.commit,
			"acct": hex(&o.root_key_id.to_bytes()),
			"status": snap::status_name(&o.status),
			"value": o.value,
			"coinbase": o.is_coinbase,
			"entry": link,
		}));
	}
	outputs.sort_by_key(|e| e.to_string());
	// raw records: key indices ('d'), last confirmed heights ('c'), private contexts ('p')
	let raw = snap::raw_db(wal, scratch)?;
	let mut child = Map::new();
	let mut lch = Map::new();
	let mut ctxs: Vec<Value> = vec![];
	for (k, val) in raw.iter() {
		if k.len() < 2 {
			continue;
		}
		match k[0] {
			b'd' => {
				child.insert(hex(&k[2..]), json!(hex(val)));
			}
			b'c' => {
				lch.insert(hex(&k[2..]), json!(hex(val)));
			}
			b'p' => {
				let id = if k.len() >= 18 { Uuid::from_slice(&k[2..18]).ok() } else { None };
				let j = lenpref_json(val).unwrap_or(Value::Null);
				let ids = |f: &str| -> Value {
					let mut a: Vec<String> = j[f]
						.as_array()
						.cloned()
						.unwrap_or_default()
						.iter()
						.map(|t| format!("{}:{}", t[0].as_str().unwrap_or("?"), t[2]))
						.collect();
					a.sort();
					json!(a)
				};
				ctxs.push(json!({
					"slate": label(&id),
					"inputs": ids("input_ids"),
					"outputs": ids("output_ids"),
					"amount": j["amount"].clone(),
					"fee": j["fee"].clone(),
					"acct": j["parent_key_id"].clone(),
				}));
			}
			_ => {}
		}
	}
	ctxs.sort_by_key(|e| e.to_string());
	let mut accounts: Vec<Value> = v.accounts.iter().map(|(l, p)| json!([l, hex(&p.to_bytes())])).collect();
	accounts.sort_by_key(|e| e.to_string());
	// stored transaction files (names carry slate ids: map to labels)
	let mut files: Vec<String> = vec![];
	if let Ok(rd) = std::fs::read_dir(wal.data_dir().join("saved_txs")) {
		for e in rd.flatten() {
			let name = e.file_name().to_string_lossy().to_string();
			let stem = name.trim_end_matches(".grintx");
			let l = Uuid::parse_str(stem).ok().and_then(|u| labels.get(&u).cloned()).unwrap_or_else(|| "unknown-slate".to_string());
			files.push(l);
		}
	}
	files.sort();
	Ok(json!({
		"entries": entries,
		"outputs": outputs,
		"child_index": child,
		"last_confirmed_height": lch,
		"contexts": ctxs,
		"accounts": accounts,
		"stored_files": files,
	}))
}

/// One difference between the interleaved run (left) and a serial run (right).
#[derive(Clone, Debug)]
pub struct DiffItem {
	/// "entries" | "outputs" | "contexts" | "result" | other top-level key of the projection
	pub section: String,
	/// record (or value) on the interleaved side; Null when absent
	pub left: Value,
	pub right: Value,
	pub text: String,
}

fn rec_ident(v: &Value) -> String {
	format!(
		"{}|{}|{}|{}",
		v["key"],
		v["slate"],
		v["type"].as_str().map(|t| t.trim_end_matches("Cancelled").to_string()).unwrap_or_default(),
		v["acct"]
	)
}

fn field_diff(a: &Value, b: &Value) -> String {
	let mut d = vec![];
	if let (Some(ma), Some(mb)) = (a.as_object(), b.as_object()) {
		for (k, va) in ma {
			let vb = mb.get(k).cloned().unwrap_or(Value::Null);
			if *va != vb {
				d.push(format!(".{}: {} vs {}", k, va, vb));
			}
		}
	}
	d.join("; ")
}

fn diff_proj(a: &Value, b: &Value) -> Vec<DiffItem> {
	let mut out = vec![];
	let empty = Map::new();
	let ma = a.as_object().unwrap_or(&empty);
	let mb = b.as_object().unwrap_or(&empty);
	for (sect, va) in ma {
		let vb = mb.get(sect).cloned().unwrap_or(Value::Null);
		if *va == vb {
			continue;
		}
		match (va, &vb) {
			(Value::Array(aa), Value::Array(ab)) if sect == "entries" || sect == "outputs" || sect == "contexts" => {
				let mut only_a: Vec<&Value> = aa.iter().filter(|x| !ab.contains(x)).collect();
				let mut only_b: Vec<&Value> = ab.iter().filter(|x| !aa.contains(x)).collect();
				let mut i = 0;
				while i < only_a.len() {
					if let Some(j) = only_b.iter().position(|y| rec_ident(y) == rec_ident(only_a[i])) {
						out.push(DiffItem {
							section: sect.clone(),
							left: only_a[i].clone(),
							right: only_b[j].clone(),
							text: format!("{}[{}]: {}", sect, rec_ident(only_a[i]), field_diff(only_a[i], only_b[j])),
						});
						only_a.remove(i);
						only_b.remove(j);
					} else {
						i += 1;
					}
				}
				for x in only_a {
					out.push(DiffItem {
						section: sect.clone(),
						left: x.clone(),
						right: Value::Null,
						text: format!("{}: only in the interleaved run: {}", sect, x),
					});
				}
				for y in only_b {
					out.push(DiffItem {
						section: sect.clone(),
						left: Value::Null,
						right: y.clone(),
						text: format!("{}: only in the serial run: {}", sect, y),
					});
				}
			}
			_ => out.push(DiffItem {
				section: sect.clone(),
				left: va.clone(),
				right: vb.clone(),
				text: format!("{}: {} vs {}", sect, va, vb),
			}),
		}
	}
	out
}

// ---------------------------------------------------------------------------------------------
// one execution

#[derive(Clone, Debug)]
pub struct RunOut {
	pub proj: Value,
	pub results: Vec<String>,
	pub trace: Option<Trace>,
}

pub enum Mode<'a> {
	Serial(&'a [usize]),
	Interleaved(&'a [u8], Tail),
}

fn thread_setup() {
	global::set_local_chain_type(ChainTypes::AutomatedTesting);
}

pub struct HangInfo {
	pub trace: Trace,
	pub running: usize,
}

fn hang_limit() -> Duration {
	let s = std::env::var("GWV_SCHED_HANG_S").ok().and_then(|v| v.parse::<u64>().ok()).unwrap_or(60);
	Duration::from_secs(s)
}

static RUN_N: std::sync::atomic::AtomicU64 = std::sync::atomic::AtomicU64::new(0);

/// Execute the configuration once from a fresh copy of the start state.
fn exec(scratch: &Path, st: &StartState, insts: &[OpInst], final_refresh: bool, mode: Mode) -> Result<Result<RunOut, HangInfo>, String> {
	let n = RUN_N.fetch_add(1, std::sync::atomic::Ordering::Relaxed);
	let prof = std::env::var("GWV_C20_PROFILE").is_ok();
	let t0 = std::time::Instant::now();
	let dir = scratch.join(format!("c20.run{}", n));
	let _ = std::fs::remove_dir_all(&dir);
	world::copy_tree(&st.dir, &dir).map_err(|e| format!("copy state: {}", e))?;
	let t1 = std::time::Instant::now();
	let w = open_min(&dir)?;
	let t2 = std::time::Instant::now();
	let wal = &w.wal;
	let results: Arc<Mutex<Vec<Option<(String, Option<Uuid>)>>>> = Arc::new(Mutex::new(vec![None; insts.len()]));
	let trace;
	let mut jobs: Vec<sched::Job> = vec![];
	for (i, op) in insts.iter().enumerate() {
		let op = op.clone();
		let inst = wal.inst.clone();
		let mask = wal.mask.clone();
		let chain = w.chain.clone();
		let res = results.clone();
		let node = w.node.clone();
		jobs.push(Box::new(move || {
			let r = run_op(&op, &inst, &mask, &chain, &node);
			res.lock().unwrap()[i] = Some(r);
		}));
	}
	let ran = match mode {
		// serial orders run on scheduler threads too (each as an atomic unit), so that a self-deadlock is
		// caught by the same watchdog
		Mode::Serial(order) => sched::run_opt(jobs, &sched::serial_schedule(order), hang_limit(), thread_setup, Tail::IndexOrder, true),
		Mode::Interleaved(schedule, tail) => sched::run(jobs, schedule, hang_limit(), thread_setup, tail),
	};
	match ran {
		Ok(t) => trace = Some(t),
		Err(h) => {
			return Ok(Err(HangInfo {
				trace: h.trace,
				running: h.running,
			}))
		}
	}
	let t3 = std::time::Instant::now();
	let mut res_out = vec![];
	let mut labels = st.prep.labels.clone();
	{
		let r = results.lock().unwrap();
		for (i, x) in r.iter().enumerate() {
			match x {
				Some((cls, newid)) => {
					if let Some(u) = newid {
						labels.insert(*u, format!("new#{}", i));
					}
					res_out.push(cls.clone());
				}
				None => {
					// the thread panicked (or never ran)
					let p = trace.as_ref().and_then(|t| t.panics.get(i).cloned().flatten());
					res_out.push(match p {
						Some(sig) => format!("panic:{}", sig),
						None => "not-run".to_string(),
					});
				}
			}
		}
	}
	// with a node that fails part-way, what a refresh / scan RETURNS depends on which of its node calls fails first
	// (a refresh swallows a failure of its first call, reports later ones; a scan reports any): that is a property of
	// the result, not of the wallet state the statement is about. The results of refresh / scan threads are therefore
	// not compared in configurations with the node-unreachable event; every other result and the whole state are.
	if insts.iter().any(|o| matches!(o, OpInst::Down)) {
		for (i, o) in insts.iter().enumerate() {
			if matches!(o, OpInst::Refresh | OpInst::Scan(_)) && !res_out[i].starts_with("panic:") && res_out[i] != "not-run" {
				res_out[i] = "returned(result not compared: node fails during the phase)".to_string();
			}
		}
	}
	if final_refresh {
		if std::env::var("GWV_C20_DUMP").is_ok() {
			if let Ok(p) = project(wal, &w.chain, scratch, &labels, &st.prep.known_excess) {
				eprintln!("[c20 dump] before final refresh ({:?}): entries {} outputs {}", res_out, p["entries"], p["outputs"]);
			}
		}
		// the quiescent refresh talks to a reachable node again
		w.node.set_down(false);
		let (r, _) = run_op(&OpInst::Refresh, &wal.inst, &wal.mask, &w.chain, &w.node);
		res_out.push(format!("final-refresh:{}", r));
	}
	let proj = project(wal, &w.chain, scratch, &labels, &st.prep.known_excess)?;
	let t4 = std::time::Instant::now();
	drop(w);
	let _ = std::fs::remove_dir_all(&dir);
	if prof {
		eprintln!("[c20 profile] copy {:?} open {:?} ops {:?} project {:?} close {:?}", t1 - t0, t2 - t1, t3 - t2, t4 - t3, t4.elapsed());
	}
	Ok(Ok(RunOut {
		proj,
		results: res_out,
		trace,
	}))
}

/// Kernel excesses that the prepared lock / finalize operations will store are functions of the prepared
/// material (contexts and slates fixed before the phase): learn them by running each of the two operations
/// once on a throw-away copy of the start state.
fn learn_excesses(scratch: &Path, st: &mut StartState) -> Result<(), String> {
	let mut ops: Vec<OpInst> = vec![];
	if let Some(s) = &st.prep.lock {
		ops.push(OpInst::Lock(s.clone()));
	}
	if let Some(s) = &st.prep.fin {
		ops.push(OpInst::Fin(s.clone()));
	}
	for op in ops {
		let n = RUN_N.fetch_add(1, std::sync::atomic::Ordering::Relaxed);
		let dir = scratch.join(format!("c20.dry{}", n));
		let _ = std::fs::remove_dir_all(&dir);
		world::copy_tree(&st.dir, &dir).map_err(|e| format!("copy state: {}", e))?;
		{
			let w = open_min(&dir)?;
			let _ = run_op(&op, &w.wal.inst, &w.wal.mask, &w.chain, &w.node);
			for t in snap::view(&w.wal).txs.iter() {
				if let Some(e) = &t.kernel_excess {
					let h = hex(&e.0);
					if !st.prep.known_excess.contains(&h) {
						st.prep.known_excess.push(h);
					}
				}
			}
		}
		let _ = std::fs::remove_dir_all(&dir);
	}
	Ok(())
}

/// chain + subject wallet only (the peer wallet is not needed inside the phase)
struct MinWorld {
	wal: Wal,
	chain: Arc<grin_chain::Chain>,
	node: crate::node::DirectNode,
}

fn open_min(dir: &Path) -> Result<MinWorld, String> {
	world::init_globals();
	let gbytes = std::fs::read(dir.join("genesis.bin")).map_err(|e| e.to_string())?;
	let genesis: Block = grin_core::ser::deserialize(&mut &gbytes[..], grin_core::ser::ProtocolVersion(1), grin_core::ser::DeserializationMode::default()).map_err(|e| format!("{:?}", e))?;
	let chain = world::open_chain(dir, &genesis)?;
	let node = crate::node::DirectNode::new(Some(chain.clone()));
	let wal = world::open_wallet(dir, "w0", node.clone(), "", false)?;
	Ok(MinWorld { wal, chain, node })
}

/// Outcome with thread i renamed to thread perm[i] (results moved, "new#i" labels renamed, record lists re-sorted).
fn permute_out(r: &RunOut, perm: &[usize]) -> (Value, Vec<String>) {
	let mut results = r.results.clone();
	for (i, j) in perm.iter().enumerate() {
		if i < r.results.len() && *j < results.len() {
			results[*j] = r.results[i].clone();
		}
	}
	let mut txt = r.proj.to_string();
	for (i, j) in perm.iter().enumerate() {
		txt = txt.replace(&format!("\"new#{}\"", i), &format!("\"new#~{}\"", j));
	}
	txt = txt.replace("new#~", "new#");
	let mut v: Value = serde_json::from_str(&txt).unwrap_or(Value::Null);
	for k in ["entries", "outputs", "contexts"].iter() {
		if let Some(a) = v.get_mut(*k).and_then(|a| a.as_array_mut()) {
			a.sort_by_key(|e| e.to_string());
		}
	}
	if let Some(a) = v.get_mut("stored_files").and_then(|a| a.as_array_mut()) {
		a.sort_by_key(|e| e.to_string());
	}
	(v, results)
}

fn permutations(n: usize) -> Vec<Vec<usize>> {
	fn rec(cur: &mut Vec<usize>, used: &mut Vec<bool>, n: usize, out: &mut Vec<Vec<usize>>) {
		if cur.len() == n {
			out.push(cur.clone());
			return;
		}
		for i in 0..n {
			if !used[i] {
				used[i] = true;
				cur.push(i);
				rec(cur, used, n, out);
				cur.pop();
				used[i] = false;
			}
		}
	}
	let mut out = vec![];
	rec(&mut vec![], &mut vec![false; n], n, &mut out);
	out
}

// ---------------------------------------------------------------------------------------------
// the property

/// One cell of a deterministic grid.
#[derive(Clone, Debug)]
pub struct Cell {
	pub state: u8,
	pub r: u8,
	pub ops: Vec<u8>,
	/// preemption bound (None = all schedules)
	pub bound: Option<u32>,
	/// maximum number of executions
	pub limit: u64,
}

const COLS: usize = 16;

/// Arrange cells in rows of 16 columns such that a column (= the cases one of 16 shards executes) contains
/// cells of as few start states as possible (a start state costs ~1.5 s to build). Holes are `None`.
fn layout(cells: Vec<Cell>) -> Vec<Option<Cell>> {
	let mut by_state: BTreeMap<u8, Vec<Cell>> = BTreeMap::new();
	for c in cells {
		by_state.entry(c.state).or_default().push(c);
	}
	if by_state.is_empty() {
		return vec![];
	}
	// weight of a cell ~ number of executions
	let weight = |c: &Cell| -> u64 { std::cmp::min(c.limit, if c.bound.is_none() && c.ops.len() == 1 { 16 } else if c.ops.len() == 1 { 30 } else { 250 }) };
	// columns per state: at least one (states may share a column when there are more than 16), then greedily
	// to the state with the largest weight per column
	let states: Vec<u8> = by_state.keys().cloned().collect();
	let mut ncols: BTreeMap<u8, usize> = states.iter().map(|s| (*s, 1usize)).collect();
	let total_w = |s: &u8| -> u64 { by_state[s].iter().map(|c| weight(c)).sum() };
	let mut used = states.len();
	while used < COLS {
		let best = states
			.iter()
			.filter(|s| ncols[*s] < by_state[*s].len())
			.max_by_key(|s| total_w(s) * 1000 / ncols[*s] as u64)
			.cloned();
		match best {
			Some(b) => {
				*ncols.get_mut(&b).unwrap() += 1;
				used += 1;
			}
			None => break,
		}
	}
	// column -> list of cells
	let mut cols: Vec<Vec<Cell>> = vec![vec![]; COLS];
	let mut next_col = 0usize;
	for s in &states {
		let n = ncols[s];
		let my_cols: Vec<usize> = (0..n).map(|k| (next_col + k) % COLS).collect();
		next_col = (next_col + n) % COLS;
		// heaviest first, always into the lightest column
		let mut cs = by_state[s].clone();
		cs.sort_by_key(|c| std::cmp::Reverse(weight(c)));
		for c in cs {
			let col = *my_cols.iter().min_by_key(|k| cols[**k].iter().map(|c| weight(c)).sum::<u64>()).unwrap();
			cols[col].push(c);
		}
	}
	let rows = cols.iter().map(|c| c.len()).max().unwrap_or(0);
	let mut out = vec![];
	for r in 0..rows {
		for c in 0..COLS {
			out.push(cols[c].get(r).cloned());
		}
	}
	out
}

/// part ex1: (start state x R kind x one O operation)
fn ex1_cells(tier: Tier) -> Vec<Cell> {
	let mut v = vec![];
	for s in 0..N_FROZEN_STATES {
		for r in [R_REFRESH, R_SCAN].iter() {
			for o in [O_INIT, O_LOCK, O_RECV, O_FIN, O_CANCEL, O_REFRESH, O_CANCEL2].iter() {
				// operands that do not exist in a state
				if *o == O_FIN && !(s == S_REPLY || s == S_PAST_TTL) {
					continue;
				}
				if *o == O_CANCEL2 && s != S_PAST_TTL {
					continue;
				}
				v.push(Cell {
					state: s,
					r: *r,
					ops: vec![*o],
					bound: if is_atomic(*o) { None } else { Some(tier.pick(1, 2)) },
					limit: tier.pick(400, 6000),
				});
			}
		}
	}
	v
}

/// part ex2: two lock-holding operations, all schedules
fn ex2_cells(_tier: Tier) -> Vec<Cell> {
	let mut v = vec![];
	for s in 0..N_FROZEN_STATES {
		for r in [R_REFRESH, R_SCAN].iter() {
			let mut ops = vec![O_INIT, O_LOCK, O_RECV];
			if s == S_REPLY || s == S_PAST_TTL {
				ops.push(O_FIN);
			}
			for i in 0..ops.len() {
				for j in (i + 1)..ops.len() {
					v.push(Cell {
						state: s,
						r: *r,
						ops: vec![ops[i], ops[j]],
						bound: None,
						limit: 6000,
					});
				}
			}
		}
	}
	v
}

/// part evt: the node event "prepared block accepted" is one of the threads
fn evt_cells(tier: Tier) -> Vec<Cell> {
	let mut v = vec![];
	for s in [S_NOCHANGE_POSTED, S_CHANGE_POSTED, S_RECV_POSTED].iter() {
		for r in [R_REFRESH, R_SCAN].iter() {
			v.push(Cell {
				state: *s,
				r: *r,
				ops: vec![O_MINE],
				bound: None,
				limit: 6000,
			});
		}
		let mut two: Vec<(u8, u8)> = vec![(R_REFRESH, O_CANCEL), (R_REFRESH, O_REFRESH)];
		if tier == Tier::Thorough {
			two.extend(vec![(R_SCAN, O_CANCEL), (R_SCAN, O_REFRESH), (R_REFRESH, O_RECV), (R_REFRESH, O_LOCK), (R_REFRESH, O_INIT), (R_SCAN, O_RECV)]);
		}
		for (r, o) in two {
			v.push(Cell {
				state: *s,
				r,
				ops: vec![o, O_MINE],
				bound: if is_atomic(o) { None } else { Some(env_u64("GWV_C20_EVT_BOUND").map(|b| b as u32).unwrap_or(tier.pick(1, 2))) },
				limit: env_u64("GWV_C20_EVT_LIMIT").unwrap_or(tier.pick(160, 6000)),
			});
		}
	}
	v
}

/// part dwn: the node event 'node unreachable' (every node call fails from that point on), alone and together with
/// the block event and a second refresh
fn dwn_cells(tier: Tier) -> Vec<Cell> {
	let mut v = vec![];
	let lim = env_u64("GWV_C20_DWN_LIMIT").unwrap_or(tier.pick(220, 6000));
	let bound = Some(env_u64("GWV_C20_DWN_BOUND").map(|b| b as u32).unwrap_or(1));
	// a posted transaction whose block arrives while R runs, a second refresh that sees the block, and the node
	// going away: R works on a chain view older than the wallet records when its node calls start to fail
	for s in [S_CHANGE_POSTED, S_NOCHANGE_POSTED, S_RECV_POSTED].iter() {
		let rs: Vec<u8> = vec![R_SCAN, R_REFRESH];
		for r in rs {
			v.push(Cell {
				state: *s,
				r,
				ops: vec![O_REFRESH, O_MINE, O_DOWN],
				bound,
				limit: lim,
			});
			if tier == Tier::Thorough {
				v.push(Cell {
					state: *s,
					r,
					ops: vec![O_MINE, O_DOWN],
					bound: None,
					limit: lim,
				});
			}
		}
	}
	// frozen chain: the node goes away at every point of R (all schedules), and next to a cancel / a receive
	let frozen: Vec<u8> = if tier == Tier::Thorough { (0..N_FROZEN_STATES).collect() } else { vec![S_LOCKED, S_MINED_UNREFRESHED, S_PAST_TTL, S_NOCHANGE_MINED] };
	for s in frozen {
		for r in [R_REFRESH, R_SCAN].iter() {
			v.push(Cell {
				state: s,
				r: *r,
				ops: vec![O_DOWN],
				bound: None,
				limit: 6000,
			});
			if tier == Tier::Thorough {
				for o in [O_RECV, O_REFRESH].iter() {
					v.push(Cell {
						state: s,
						r: *r,
						ops: vec![*o, O_DOWN],
						bound: if is_atomic(*o) { None } else { bound },
						limit: lim,
					});
				}
			}
		}
	}
	v
}

/// exploration aid (not used by the registered commands): deeper preemption bound / execution limit for the evt cells
fn env_u64(k: &str) -> Option<u64> {
	std::env::var(k).ok().and_then(|v| v.parse().ok())
}

pub struct C20 {
	part: &'static str,
	scratch: PathBuf,
	replay_dir: PathBuf,
	grid: Vec<Option<Cell>>,
	bases: BTreeMap<u8, PathBuf>,
	states: BTreeMap<(u8, Var), Arc<StartState>>,
	/// serial-order outcomes per configuration
	serial: BTreeMap<String, Arc<Vec<(Vec<usize>, RunOut)>>>,
	// counters for evidence
	schedules: u64,
	nontrivial_schedules: u64,
	serial_runs: u64,
	configs_exhaustive: u64,
	configs_bounded: u64,
	configs_cut: u64,
	configs_sampled: u64,
	max_r_segments: u32,
	all_exhaustive: bool,
}

impl C20 {
	pub fn new(args: &Args, part: &'static str) -> C20 {
		sched::install_hook();
		let grid = match part {
			"ex1" => layout(ex1_cells(args.tier)),
			"ex2" => layout(ex2_cells(args.tier)),
			"evt" => layout(evt_cells(args.tier)),
			"dwn" => layout(dwn_cells(args.tier)),
			_ => vec![],
		};
		C20 {
			part,
			scratch: args.scratch.clone(),
			replay_dir: args.replay_dir.clone(),
			grid,
			bases: BTreeMap::new(),
			states: BTreeMap::new(),
			serial: BTreeMap::new(),
			schedules: 0,
			nontrivial_schedules: 0,
			serial_runs: 0,
			configs_exhaustive: 0,
			configs_bounded: 0,
			configs_cut: 0,
			configs_sampled: 0,
			max_r_segments: 0,
			all_exhaustive: true,
		}
	}

	fn state(&mut self, kind: u8, var: &Var) -> Result<Arc<StartState>, String> {
		let key = (kind, var.clone());
		if let Some(s) = self.states.get(&key) {
			return Ok(s.clone());
		}
		// bounded cache: start states are a few hundred KB each
		if self.states.len() >= 24 {
			let victim = self.states.keys().next().cloned().unwrap();
			if let Some(s) = self.states.remove(&victim) {
				let _ = std::fs::remove_dir_all(&s.dir);
			}
			self.serial.clear();
		}
		let bv = var.base % 3;
		if !self.bases.contains_key(&bv) {
			let d = self.scratch.join(format!("c20.{}.base{}", self.part, bv));
			base::build(&d, &base_spec(bv))?;
			self.bases.insert(bv, d);
		}
		let dir = self.scratch.join(format!("c20.{}.state{}", self.part, RUN_N.fetch_add(1, std::sync::atomic::Ordering::Relaxed)));
		let mut st = build_state(&self.bases[&bv], &dir, kind, var)?;
		learn_excesses(&self.scratch, &mut st)?;
		let st = Arc::new(st);
		self.states.insert(key, st.clone());
		Ok(st)
	}

	fn save_hang_and_exit(&self, c: &Case, sched_bytes: &[u8], h: &HangInfo, names: &[String]) -> ! {
		let dir = self.replay_dir.join("C20");
		let _ = std::fs::create_dir_all(&dir);
		let mut cc = c.clone();
		// explicit decisions executed up to (and including) the step that hung: independent of the tail mode
		let explicit = sched::explicit_schedule(&h.trace);
		cc.scheds = Some(vec![if explicit.is_empty() { sched_bytes.to_vec() } else { explicit }]);
		let body = json!({
			"property": "C20",
			"part": self.part,
			"signature": "c20:hang",
			"observed": format!("thread {} neither parked nor finished within {} s; executed so far: {}", names.get(h.running).cloned().unwrap_or_default(), hang_limit().as_secs(), h.trace.render(names)),
			"case": cc,
		});
		let p = dir.join(format!("hang-{:016x}.json", case_hash(&cc)));
		let _ = std::fs::write(&p, serde_json::to_vec_pretty(&body).unwrap());
		eprintln!(
			"C20: HANG (possible deadlock): thread {} neither parked nor finished within {} s -> inconclusive (exit 2); executed so far: {}; schedule saved to {}",
			names.get(h.running).cloned().unwrap_or_default(),
			hang_limit().as_secs(),
			h.trace.render(names),
			p.display()
		);
		let _ = std::fs::remove_dir_all(&self.scratch);
		std::process::exit(2);
	}

	fn run_case(&mut self, c: &Case, out: &mut Outcome) -> Result<(), String> {
		if c.ops.is_empty() {
			out.class("grid-hole");
			out.evals = Some(0);
			return Ok(());
		}
		let st = self.state(c.state, &c.var)?;
		let avail = available_ops(c.state, &st.prep);
		for o in &c.ops {
			if !avail.contains(o) {
				out.class("op-not-available");
				out.evals = Some(0);
				return Ok(());
			}
		}
		let insts = instantiate(&st.prep, c.r, &c.ops)?;
		let has_event = c.ops.contains(&O_MINE) || c.ops.contains(&O_DOWN);
		let mut names: Vec<String> = vec!["R".to_string()];
		for (i, o) in c.ops.iter().enumerate() {
			names.push(format!("O{}:{}", i + 1, op_name(*o)));
		}
		let cfg_name = format!("{}+{}", r_name(c.r), c.ops.iter().map(|o| op_name(*o)).collect::<Vec<_>>().join("+"));
		out.class(format!("state={}", state_name(c.state)));
		out.class(format!("config={}", cfg_name));
		// ---- serial orders (cached per configuration)
		let key = format!("{}|{:?}|{}|{:?}", c.state, c.var, c.r, c.ops);
		let serial = match self.serial.get(&key) {
			Some(s) => s.clone(),
			None => {
				let mut v: Vec<(Vec<usize>, RunOut)> = vec![];
				let mut seen: Vec<Vec<u8>> = vec![];
				for order in permutations(insts.len()) {
					// orders that only swap identical operations are the same order
					let kinds: Vec<u8> = order.iter().map(|i| if *i == 0 { 255 } else { c.ops[*i - 1] }).collect();
					if seen.contains(&kinds) {
						continue;
					}
					seen.push(kinds);
					self.serial_runs += 1;
					match exec(&self.scratch, &st, &insts, has_event, Mode::Serial(&order))? {
						Ok(r) => v.push((order, r)),
						Err(h) => {
							// a hang without any interleaving: saved as the serial schedule
							let names: Vec<String> = std::iter::once("R".to_string()).chain(c.ops.iter().enumerate().map(|(i, o)| format!("O{}:{}(atomic)", i + 1, op_name(*o)))).collect();
							self.save_hang_and_exit(c, &sched::serial_schedule(&order), &h, &names);
						}
					}
				}
				let a = Arc::new(v);
				self.serial.insert(key, a.clone());
				a
			}
		};
		let distinct_serial = {
			let mut d: Vec<String> = serial.iter().map(|(_, r)| format!("{}{:?}", r.proj, r.results)).collect();
			d.sort();
			d.dedup();
			d.len()
		};
		out.class(format!("distinct-serial-outcomes={}", distinct_serial));
		// ---- interleaved runs
		let mut n_sched = 0u64;
		let mut n_nontriv = 0u64;
		let mut fails: Vec<Fail> = vec![];
		let mut hang: Option<(Vec<u8>, HangInfo)> = None;
		let mut max_r = 0u32;
		let mut n_accepted = 0u64;
		let scratch = self.scratch.clone();
		// threads that run the identical operation are interchangeable: outcomes are compared modulo
		// permutations of such threads (the serial orders are enumerated up to the same symmetry)
		let symmetries: Vec<Vec<usize>> = permutations(insts.len())
			.into_iter()
			.filter(|p| p.iter().enumerate().any(|(i, j)| i != *j) && p.iter().enumerate().all(|(i, j)| i == *j || (i > 0 && *j > 0 && c.ops[i - 1] == c.ops[*j - 1])))
			.collect();
		let mut judge = |sched_bytes: &[u8], tail: Tail| -> Option<Trace> {
			if hang.is_some() {
				return None;
			}
			let r = match exec(&scratch, &st, &insts, has_event, Mode::Interleaved(sched_bytes, tail)) {
				Ok(Ok(r)) => r,
				Ok(Err(h)) => {
					hang = Some((sched_bytes.to_vec(), h));
					return None;
				}
				Err(e) => {
					fails.push(Fail::new("c20:harness-error", e));
					return None;
				}
			};
			let trace = r.trace.clone().unwrap();
			if std::env::var("GWV_C20_TRACE").is_ok() {
				eprintln!("[c20 trace] {:?} => {} :: {:?}", sched_bytes, trace.render(&names), r.results);
			}
			n_sched += 1;
			if trace.other_ran_between_sections_of(0) {
				n_nontriv += 1;
			}
			max_r = std::cmp::max(max_r, trace.segments[0]);
			let matches = serial.iter().any(|(_, s)| s.proj == r.proj && s.results == r.results)
				|| (!symmetries.is_empty() && symmetries.iter().any(|perm| {
					let (pj, rs) = permute_out(&r, perm);
					serial.iter().any(|(_, s)| s.proj == pj && s.results == rs)
				}));
			if !matches {
				// nearest serial order for the report
				let mut best: Option<(Vec<DiffItem>, &Vec<usize>, &RunOut)> = None;
				for (order, s) in serial.iter() {
					let mut d = diff_proj(&r.proj, &s.proj);
					for i in 0..r.results.len() {
						if r.results[i] != s.results[i] {
							let who = if i < names.len() { names[i].clone() } else { "final".to_string() };
							d.push(DiffItem {
								section: "result".into(),
								left: json!({"thread": i, "result": r.results[i]}),
								right: json!({"thread": i, "result": s.results[i]}),
								text: format!("result[{}]: {} vs {}", who, r.results[i], s.results[i]),
							});
						}
					}
					if best.as_ref().map(|b| d.len() < b.0.len()).unwrap_or(true) {
						best = Some((d, order, s));
					}
				}
				let (d, order, s) = best.unwrap();
				if std::env::var("GWV_C20_DUMP").is_ok() {
					eprintln!("[c20 dump] interleaved: {}\n[c20 dump] nearest serial: {}", r.proj, s.proj);
					for it in &d {
						eprintln!("[c20 dump] diff: {}", it.text);
					}
				}
				let explicit = sched::explicit_schedule(&trace);
				let header = format!(
					"state {} ({:?}), threads [{}]; schedule {:?} (explicit decisions {:?}) executed as: {}\nresults: {:?}\nno serial order of the same operations reaches this outcome ({} orders, {} distinct outcomes). Nearest serial order {:?} (results {:?}) differs in (left = interleaved run, right = serial run):\n",
					state_name(c.state),
					c.var,
					names.join(", "),
					sched_bytes,
					explicit,
					trace.render(&names),
					r.results,
					serial.len(),
					distinct_serial,
					order.iter().map(|i| names[*i].clone()).collect::<Vec<_>>(),
					s.results,
				);
				// attribute every difference to a root cause
				let mut by_sig: BTreeMap<String, Vec<String>> = BTreeMap::new();
				for it in &d {
					match attribute(it, &d, c, &cfg_name, &r.results, &r.proj) {
						Some(sig) => by_sig.entry(sig).or_default().push(it.text.clone()),
						None => n_accepted += 1,
					}
				}
				for (sig, lines) in by_sig {
					if fails.iter().any(|f| f.sig == sig) {
						continue;
					}
					let mut detail = header.clone();
					for l in lines.iter().take(12) {
						detail.push_str("  ");
						detail.push_str(l);
						detail.push('\n');
					}
					if d.len() > lines.len() {
						detail.push_str(&format!("  (+ {} further differences attributed to other signatures)\n", d.len() - lines.len()));
					}
					fails.push(Fail::new(sig, detail));
				}
			}
			Some(trace)
		};
		let mut mode_class = String::new();
		match &c.scheds {
			Some(list) => {
				for s in list {
					let _ = judge(s, Tail::IndexOrder);
				}
				self.configs_sampled += 1;
				self.all_exhaustive = false;
				mode_class.push_str("mode=given-schedules");
			}
			None => {
				let (_n, complete) = sched::enumerate(c.bound, c.limit.max(1), |bytes| judge(bytes, Tail::NonPreemptive));
				if complete && c.bound.is_none() {
					self.configs_exhaustive += 1;
					mode_class.push_str("mode=exhaustive");
				} else if complete {
					self.configs_bounded += 1;
					self.all_exhaustive = false;
					mode_class.push_str(&format!("mode=preemption-bound-{}", c.bound.unwrap_or(0)));
				} else {
					self.configs_cut += 1;
					self.all_exhaustive = false;
					mode_class.push_str(&format!("mode=enumeration-cut-at-{}", c.limit));
				}
			}
		}
		out.class(mode_class);
		if let Some((bytes, h)) = hang {
			self.save_hang_and_exit(c, &bytes, &h, &names);
		}
		self.schedules += n_sched;
		self.nontrivial_schedules += n_nontriv;
		self.max_r_segments = std::cmp::max(self.max_r_segments, max_r);
		out.evals = Some(n_sched);
		out.nontrivial = n_nontriv > 0;
		out.class(format!("r-lock-sections={}", max_r.saturating_sub(1)));
		if n_accepted > 0 {
			out.class("accepted:cancel-after-block-seen-leaves-inputs-spent");
		}
		out.fails.extend(fails);
		Ok(())
	}
}

// ---------------------------------------------------------------------------------------------
// named classifiers: every difference is attributed to a root cause; what no classifier recognises gets a
// generic signature naming configuration and kind of record

fn s_of<'a>(v: &'a Value, k: &str) -> &'a str {
	v[k].as_str().unwrap_or("")
}

/// `results` = result classes of the interleaved run (index 0 = R, i = O_i).
fn attribute(it: &DiffItem, all: &[DiffItem], c: &Case, cfg: &str, results: &[String], proj: &Value) -> Option<String> {
	let (l, r) = (&it.left, &it.right);
	// --- accepted: a cancel that lands after a concurrent refresh has already seen the block that spends the
	// transaction's inputs leaves those inputs Spent (true on chain) where every serial order leaves them
	// Unspent (the cancelled-then-mined inaccuracy of the sequential code, C04/C18 domain): the interleaved
	// outcome is the one that agrees with the chain
	if it.section == "outputs"
		&& s_of(l, "status") == "Spent"
		&& s_of(r, "status") == "Unspent"
		&& l["in_utxo"] == json!(false)
		&& s_of(l, "entry") == s_of(r, "entry")
		&& s_of(l, "entry").contains("Cancelled/")
		&& c.ops.contains(&O_MINE)
	{
		return None;
	}
	// --- D1: the TTL sweep at the end of update_wallet_state walks the log entries it read in step 2; when
	// another thread has cancelled one of them meanwhile, tx::cancel_tx fails and the error is propagated: the
	// refresh (or the operation that embeds it) fails with TransactionNotCancellable
	let ttl_result = |x: &DiffItem| x.section == "result" && s_of(&x.left, "result") == "err:TransactionNotCancellable" && s_of(&x.right, "result").starts_with("ok");
	if c.state == S_PAST_TTL {
		if ttl_result(it) {
			return Some("c20:ttl-sweep-on-stale-list-fails".into());
		}
		// consequence: the embedding cancel of the unrelated entry X did not happen
		let cancel2_failed = all.iter().any(|x| ttl_result(x) && x.left["thread"].as_u64().map(|t| t >= 1 && c.ops.get(t as usize - 1) == Some(&O_CANCEL2)).unwrap_or(false));
		if cancel2_failed {
			let about_x = |v: &Value| s_of(v, "slate") == "X" || s_of(v, "entry").starts_with("X/");
			if (it.section == "entries" || it.section == "outputs" || it.section == "contexts") && (about_x(l) || about_x(r)) {
				return Some("c20:ttl-sweep-on-stale-list-fails".into());
			}
		}
	}
	// --- D3: scan (also the one embedded in every refresh) pairs a list of chain outputs collected BEFORE with
	// wallet records read AFTER another thread refreshed its outputs against a newer block (a refresh, the
	// refresh embedded in cancel_tx, or the output refresh at the start of init_send_tx): an input spent by the
	// new block looks "marked spent but in the UTXO set"; scan marks it Unspent and cancels its log entry
	// although nobody cancelled the transaction
	let a_cancel_succeeded = c.ops.iter().enumerate().any(|(i, o)| *o == O_CANCEL && results.get(i + 1).map(|r| r == "ok").unwrap_or(false));
	if c.ops.contains(&O_MINE) && !a_cancel_succeeded {
		if it.section == "entries" && s_of(l, "type").ends_with("Cancelled") && !s_of(r, "type").ends_with("Cancelled") && !r.is_null() {
			return Some("c20:scan-stale-chain-view-undoes-spend".into());
		}
		if it.section == "outputs" && s_of(l, "entry").contains("Cancelled/") && !s_of(r, "entry").contains("Cancelled/") && !r.is_null() {
			return Some("c20:scan-stale-chain-view-undoes-spend".into());
		}
	}
	// ... and the user's own cancel of that transaction then finds it "not cancellable": the state may even equal
	// that of the serial order in which the cancel succeeded; only the cancel's answer differs
	if c.ops.contains(&O_MINE) && !a_cancel_succeeded && it.section == "result" && s_of(l, "result") == "err:TransactionNotCancellable" && s_of(r, "result") == "ok" {
		let is_cancel = l["thread"].as_u64().map(|t| t >= 1 && c.ops.get(t as usize - 1) == Some(&O_CANCEL)).unwrap_or(false);
		let somebody_cancelled = proj["entries"].as_array().map(|a| a.iter().any(|e| s_of(e, "type").ends_with("Cancelled") && s_of(e, "slate") == "H")).unwrap_or(false);
		if is_cancel && somebody_cancelled {
			return Some("c20:scan-stale-chain-view-undoes-spend".into());
		}
	}
	if it.section == "entries" && s_of(l, "type").ends_with("Cancelled") && l["confirmed"] == json!(true) && !s_of(r, "type").ends_with("Cancelled") {
		return Some("c20:scan-stale-chain-view-undoes-spend".into());
	}
	if it.section == "outputs" && s_of(l, "entry").contains("Cancelled/confirmed") && !s_of(r, "entry").contains("Cancelled") {
		return Some("c20:scan-stale-chain-view-undoes-spend".into());
	}
	// the same repair, its entry change overwritten afterwards by the kernel step's stale write-back: what
	// remains is the resurrected input (Unspent in the books, not in the UTXO set) of a confirmed send
	if it.section == "outputs"
		&& c.ops.contains(&O_MINE)
		&& s_of(l, "status") == "Unspent"
		&& s_of(r, "status") == "Spent"
		&& l["in_utxo"] == json!(false)
		&& s_of(l, "entry") == s_of(r, "entry")
		&& s_of(l, "entry").ends_with("/TxSent/confirmed")
	{
		return Some("c20:scan-stale-chain-view-undoes-spend".into());
	}
	// --- D2: a transaction confirmed through its kernel (step 2) while its outputs were last refreshed
	// against the previous block drops out of every later refresh (only outputs of outstanding transactions
	// are refreshed): inputs stay Locked / the received output stays Unconfirmed
	if it.section == "outputs" {
		let e = s_of(l, "entry");
		let st = (s_of(l, "status"), s_of(r, "status"));
		if e == s_of(r, "entry") && (e.ends_with("/TxSent/confirmed") && st == ("Locked", "Spent") || e.ends_with("/TxReceived/confirmed") && st == ("Unconfirmed", "Unspent")) {
			return Some("c20:kernel-confirmed-tx-outputs-never-refreshed".into());
		}
	}
	// --- D4: update_txs_via_kernel writes back the log entry it read in step 2 over the entry a concurrent
	// cancel has changed meanwhile: the cancel reported success, the entry is an un-cancelled confirmed one
	let cancel_ok = c.ops.iter().enumerate().any(|(i, o)| (*o == O_CANCEL) && all.iter().all(|x| !(x.section == "result" && x.left["thread"].as_u64() == Some(i as u64 + 1))));
	let _ = cancel_ok;
	// variant: the overwritten state coincides with that of the serial order in which the cancel came too late
	// and was refused; only the cancel's answer (Ok) gives it away
	if c.ops.contains(&O_MINE) && it.section == "result" && s_of(l, "result") == "ok" && s_of(r, "result") == "err:TransactionNotCancellable" {
		let is_cancel = l["thread"].as_u64().map(|t| t >= 1 && c.ops.get(t as usize - 1) == Some(&O_CANCEL)).unwrap_or(false);
		let uncancelled_confirmed = proj["entries"]
			.as_array()
			.map(|a| a.iter().any(|e| matches!(s_of(e, "type"), "TxSent" | "TxReceived") && e["confirmed"] == json!(true) && s_of(e, "slate") == "H"))
			.unwrap_or(false);
		if is_cancel && uncancelled_confirmed {
			return Some("c20:kernel-confirm-overwrites-cancel".into());
		}
	}
	if it.section == "entries" && matches!(s_of(l, "type"), "TxSent" | "TxReceived") && l["confirmed"] == json!(true) && s_of(r, "type").ends_with("Cancelled") {
		return Some("c20:kernel-confirm-overwrites-cancel".into());
	}
	if it.section == "outputs" && (s_of(l, "entry").ends_with("/TxSent/confirmed") || s_of(l, "entry").ends_with("/TxReceived/confirmed")) && s_of(r, "entry").contains("Cancelled/") {
		return Some("c20:kernel-confirm-overwrites-cancel".into());
	}
	Some(format!("c20:not-serialisable:{}:{}", cfg, it.section))
}

impl Prop for C20 {
	type Case = Case;
	fn id(&self) -> &'static str {
		"C20"
	}
	fn part(&self) -> &'static str {
		self.part
	}
	fn shrink_iters(&self) -> u32 {
		16
	}
	fn cases(&self, tier: Tier) -> u64 {
		match self.part {
			"ex1" => self.grid.len() as u64 * tier.pick(1, 6),
			"ex2" => tier.pick(0, self.grid.len() as u64),
			"evt" => self.grid.len() as u64 * tier.pick(1, 3),
			"dwn" => self.grid.len() as u64 * tier.pick(1, 2),
			"pat" => tier.pick(32, 1200),
			_ => tier.pick(48, 2000),
		}
	}
	fn strategy(&self, tier: Tier) -> BoxedStrategy<Case> {
		self.strategy_at(tier, 0).unwrap()
	}
	fn strategy_at(&self, tier: Tier, index: u64) -> Option<BoxedStrategy<Case>> {
		if self.part == "pat" {
			// structured deep schedules for the event states: R runs a sections, the (multi-section) operation O runs b
			// sections, the block is accepted, R runs j more sections, O completes, R completes. Up to 3 preemptions,
			// i.e. beyond the enumerated bounds; (a, b, j) are drawn, 8 schedules per case.
			let pat = (0u8..10, 6u8..16, 0u8..9).prop_map(|(a, b, j)| {
				let mut v = vec![0u8; a as usize];
				v.extend(std::iter::repeat(86u8).take(b as usize));
				v.push(171);
				v.extend(std::iter::repeat(0u8).take(j as usize));
				v.push(128);
				v
			});
			return Some(
				(
					prop_oneof![Just(S_NOCHANGE_POSTED), Just(S_CHANGE_POSTED), Just(S_RECV_POSTED)],
					if tier == Tier::Quick { Just(Var::default()).boxed() } else { prop_oneof![1 => Just(Var::default()), 1 => var_strategy()].boxed() },
					prop_oneof![3 => Just(R_REFRESH), 1 => Just(R_SCAN)],
					prop_oneof![2 => Just(O_CANCEL), 1 => Just(O_REFRESH)],
					prop::collection::vec(pat, 8..=8),
				)
					.prop_map(|(state, var, r, o, scheds)| Case {
						state,
						var,
						r,
						ops: vec![o, O_MINE],
						scheds: Some(scheds),
						bound: None,
						limit: 0,
					})
					.boxed(),
			);
		}
		if self.part != "smp" {
			// deterministic grid; the first round uses the default variation of each start state, later
			// rounds (thorough) draw one
			let n = self.grid.len().max(1) as u64;
			let cell = self.grid.get((index % n) as usize).cloned().flatten();
			let round = index / n;
			let var = if round == 0 { Just(Var::default()).boxed() } else { var_strategy() };
			return Some(match cell {
				None => Just(Case {
					state: 0,
					var: Var::default(),
					r: 0,
					ops: vec![],
					scheds: None,
					bound: None,
					limit: 0,
				})
				.boxed(),
				Some(cell) => {
					// the deeper preemption bound of the thorough tier applies to the first round only
					let bound = cell.bound.map(|b| if round == 0 { b } else { 1 });
					var.prop_map(move |var| Case {
						state: cell.state,
						var,
						r: cell.r,
						ops: cell.ops.clone(),
						scheds: None,
						bound,
						limit: cell.limit,
					})
					.boxed()
				}
			});
		}
		// sampled: R + 2..3 operations, random schedules
		let nsched = 6usize;
		Some(
			(
				0u8..N_FROZEN_STATES,
				if tier == Tier::Quick { Just(Var::default()).boxed() } else { prop_oneof![1 => Just(Var::default()), 2 => var_strategy()].boxed() },
				prop_oneof![3 => Just(R_REFRESH), 2 => Just(R_SCAN), 1 => Just(R_SCAN_DELETE)],
				prop::collection::vec(prop_oneof![1 => Just(O_INIT), 1 => Just(O_LOCK), 1 => Just(O_RECV), 1 => Just(O_FIN), 2 => Just(O_CANCEL), 1 => Just(O_REFRESH), 1 => Just(O_CANCEL2)], 2..=3).prop_flat_map(|v| if v.len() == 3 { prop_oneof![1 => Just(v.clone()), 1 => Just(v[..2].to_vec())].boxed() } else { Just(v).boxed() }),
				prop::collection::vec(prop::collection::vec(any::<u8>(), 0..48), nsched..=nsched),
			)
				.prop_map(|(state, var, r, mut ops, scheds)| {
					// operands missing in the state degrade to an operation every state offers
					for o in ops.iter_mut() {
						if *o == O_FIN && !(state == S_REPLY || state == S_PAST_TTL) {
							*o = O_RECV;
						}
						if *o == O_CANCEL2 && state != S_PAST_TTL {
							*o = O_CANCEL;
						}
					}
					ops.sort();
					Case {
						state,
						var,
						r,
						ops,
						scheds: Some(scheds),
						bound: None,
						limit: 0,
					}
				})
				.boxed(),
		)
	}
	fn rule(&self) -> String {
		match self.part {
			"ex1" => "every (start state x R kind x one O operation) cell: all schedules enumerated when O holds the wallet lock for its whole duration (init_send, lock, receive, finalize: R's lock sections + 1 positions); O = cancel / refresh (themselves sequences of lock sections) enumerated up to a preemption bound (1 quick; 2 in the first thorough round, 1 in the later rounds that draw state variations). evaluations = schedules executed; non-trivial = schedule in which an O thread runs strictly between two lock sections of R (counted per schedule in extra.nontrivial_schedules; a case is non-trivial if it contains one)".into(),
			"ex2" => "thorough only: every (start state x R kind x two lock-holding O operations) cell, all schedules".into(),
			"evt" => "start states with a posted transaction whose block is built but not yet accepted; one thread is the node event 'block accepted'; R + event: all schedules; R + cancel/refresh + event: preemption bound 1 (quick, at most 160 executions) / 2 (thorough, first round; later rounds with drawn state variations use bound 1); state compared after one additional quiescent refresh in both the interleaved and the serial runs".into(),
			"dwn" => "node event 'node unreachable' (every node call fails from that point on; a thread of its own, one atomic step). Event start states x R in {scan, refresh} x {second refresh, block accepted, node unreachable}: preemption bound 1 with free choice whenever a thread ends (R is interrupted once; block, refresh and node failure land there in every order), cut at 220 executions (quick) / 6000 (thorough); thorough also R + block + node unreachable with all schedules. Frozen start states x R in {refresh, scan} x node unreachable: all schedules (the node fails before every lock section of R); thorough adds receive / refresh next to it (cancel_tx next to a failing node is not generated: whether its own refresh swallows or reports the failure decides its result, which this oracle would have to leave uncompared). Compared after one quiescent refresh against a reachable node, in both the interleaved and the serial runs; the return values of refresh / scan threads are not compared in this part (they depend on which node call fails first), the wallet state and all other results are".into(),
			"pat" => "event start states (posted transaction, block built but not accepted), R in {refresh, scan}, O in {cancel, refresh}, node event 'block accepted'; 8 constructed schedules per case of the shape R x a, O x b, block, R x j, O to its end, R to its end with drawn (a, b, j): up to 3 preemptions, i.e. deeper than the enumerated bounds of evt; judged like evt (one quiescent refresh after both the interleaved and the serial runs)".into(),
			_ => "R + 2..3 operations drawn from {init_send, lock, receive, finalize, cancel x2, refresh, cancel-other}, 6 random schedules (choice bytes) per case, R in {refresh, scan, scan(delete_unconfirmed)}; non-trivial as in ex1".into(),
		}
	}
	fn assumptions(&self) -> Vec<String> {
		vec![
			"interleavings are produced at wallet-lock acquisitions (wallet_lock! hook); API methods that lock the wallet directly (init_send_tx, tx_lock_outputs, finalize_tx, receive_tx) are atomic units".into(),
			"parts ex1/ex2/smp: the chain is frozen during the concurrent phase (no node events); part evt adds the single node event 'prepared block accepted'; part dwn adds the node event 'node unreachable' (all node calls fail from one point on; the node does not come back before the phase ends, it is reachable again for the quiescent refresh)".into(),
			"part evt compares after one more quiescent refresh (a refresh that straddles a new block legitimately mixes two chain heights; the statement is read as: the mixture must be healed by the next refresh and must not lose an operation's recorded effect)".into(),
			"projection: per output key id, commitment, account, status, value, coinbase flag and the (slate, type, confirmed) of its log entry; per log entry account, slate, type, confirmed, amounts, fee, ttl, kernel excess, payment-proof fields present, num inputs/outputs, stored-tx reference; key index and last confirmed height per account; private contexts (slate, input ids, output ids, amount, fee); account paths; stored tx files. Not projected: log ids, timestamps, output heights, last scanned block, kernel_lookup_min_height".into(),
			"slate ids created inside the phase are compared as 'new#<thread>'; kernel excesses that depend on wallet randomness drawn inside the phase are compared as present/absent".into(),
			"operation results (of R and of every O) are compared by class (ok / error variant name)".into(),
		]
	}
	fn extra(&self) -> Value {
		json!({
			"schedules_executed": self.schedules,
			"nontrivial_schedules": self.nontrivial_schedules,
			"serial_runs": self.serial_runs,
			"configs_exhaustive": self.configs_exhaustive,
			"configs_preemption_bounded": self.configs_bounded,
			"configs_enumeration_cut": self.configs_cut,
			"configs_sampled": self.configs_sampled,
			"max_r_lock_sections": self.max_r_segments.saturating_sub(1),
		})
	}
	fn run(&mut self, c: &Case) -> Outcome {
		let mut out = Outcome::default();
		if let Err(e) = self.run_case(c, &mut out) {
			out.fail("c20:harness-error", e);
		}
		out
	}
}

const PARTS: [&str; 6] = ["ex1", "ex2", "evt", "dwn", "pat", "smp"];

pub fn run(args: &Args, rep: &mut Report) {
	let mut all_ex = true;
	let mut any = false;
	for part in PARTS.iter() {
		if let Some(p) = &args.part {
			if p != part {
				continue;
			}
		}
		let mut p = C20::new(args, part);
		if p.cases(args.tier) == 0 && args.cases.is_none() {
			continue;
		}
		run_part(&mut p, args, rep);
		any = true;
		all_ex = all_ex && p.all_exhaustive && (p.configs_exhaustive > 0);
		// free the scratch space of this part
		for (_, s) in p.states.iter() {
			let _ = std::fs::remove_dir_all(&s.dir);
		}
		for (_, d) in p.bases.iter() {
			let _ = std::fs::remove_dir_all(d);
		}
	}
	if any && all_ex {
		rep.exhaustive = Some(true);
	}
}

pub fn replay(args: &Args, part: &str, case: &serde_json::Value) -> Result<Outcome, String> {
	let part: &'static str = PARTS.iter().find(|p| **p == part).cloned().unwrap_or("smp");
	replay_part(&mut C20::new(args, part), case)
}
