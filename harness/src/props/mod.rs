pub mod c01;
pub mod c02;
pub mod c03;
pub mod c04;
pub mod c05;
pub mod c06;
pub mod c07;
pub mod c08;
pub mod c09;
pub mod c10;
pub mod c11;
pub mod c12;
pub mod c13;
pub mod c14;
pub mod c15;
pub mod c16;
pub mod c17;
pub mod c18;
pub mod c19;
pub mod c20;

use crate::rt::{Args, Outcome, Report};
use serde_json::Value;

pub fn run(args: &Args, rep: &mut Report) -> Result<(), String> {
	match args.prop.as_str() {
		"C01" => c01::run(args, rep),
		"C02" => c02::run(args, rep),
		"C03" => c03::run(args, rep),
		"C04" => c04::run(args, rep),
		"C05" => c05::run(args, rep),
		"C06" => c06::run(args, rep),
		"C07" => c07::run(args, rep),
		"C08" => c08::run(args, rep),
		"C09" => c09::run(args, rep),
		"C10" => c10::run(args, rep),
		"C11" => c11::run(args, rep),
		"C12" => c12::run(args, rep),
		"C13" => c13::run(args, rep),
		"C14" => c14::run(args, rep),
		"C15" => c15::run(args, rep),
		"C16" => c16::run(args, rep),
		"C17" => c17::run(args, rep),
		"C18" => c18::run(args, rep),
		"C19" => c19::run(args, rep),
		"C20" => c20::run(args, rep),
		p => return Err(format!("unknown property {}", p)),
	}
	Ok(())
}

pub fn replay(args: &Args, part: &str, case: &Value) -> Result<Outcome, String> {
	match args.prop.as_str() {
		"C01" => c01::replay(args, part, case),
		"C02" => c02::replay(args, part, case),
		"C03" => c03::replay(args, part, case),
		"C04" => c04::replay(args, part, case),
		"C05" => c05::replay(args, part, case),
		"C06" => c06::replay(args, part, case),
		"C07" => c07::replay(args, part, case),
		"C08" => c08::replay(args, part, case),
		"C09" => c09::replay(args, part, case),
		"C10" => c10::replay(args, part, case),
		"C11" => c11::replay(args, part, case),
		"C12" => c12::replay(args, part, case),
		"C13" => c13::replay(args, part, case),
		"C14" => c14::replay(args, part, case),
		"C15" => c15::replay(args, part, case),
		"C16" => c16::replay(args, part, case),
		"C17" => c17::replay(args, part, case),
		"C18" => c18::replay(args, part, case),
		"C19" => c19::replay(args, part, case),
		"C20" => c20::replay(args, part, case),
		p => Err(format!("unknown property {}", p)),
	}
}
