//! Runtime shared by all properties: per-case seeding, proptest runner with shrinking,
//! panic capture, known-finding tolerance, shard reports, replay files.

use proptest::strategy::{BoxedStrategy, Strategy, ValueTree};
use proptest::test_runner::{Config, RngAlgorithm, TestCaseError, TestError, TestRng, TestRunner};
use serde::de::DeserializeOwned;
use serde::Serialize;
use serde_json::{json, Value};
use sha2::{Digest, Sha256};
use std::cell::RefCell;
use std::collections::{BTreeMap, BTreeSet};
use std::fmt::Debug;
use std::panic::{self, AssertUnwindSafe};
use std::path::PathBuf;
use std::sync::atomic::{AtomicU64, Ordering};
use std::sync::Mutex;
use std::time::Instant;

#[derive(Clone, Copy, Debug, PartialEq, Eq)]
pub enum Tier {
	Quick,
	Thorough,
}

impl Tier {
	pub fn name(&self) -> &'static str {
		match self {
			Tier::Quick => "quick",
			Tier::Thorough => "thorough",
		}
	}
	pub fn pick<T>(&self, q: T, t: T) -> T {
		match self {
			Tier::Quick => q,
			Tier::Thorough => t,
		}
	}
}

#[derive(Clone, Debug)]
pub struct Args {
	pub prop: String,
	pub tier: Tier,
	pub seed: u64,
	pub shard: u64,
	pub nshards: u64,
	pub out: Option<PathBuf>,
	pub replay_dir: PathBuf,
	pub known_open: Vec<String>,
	pub cases: Option<u64>,
	pub scratch: PathBuf,
	pub part: Option<String>,
}

/// A failure of one case. `sig` is the root-cause signature (stable, no line numbers / random data).
#[derive(Clone, Debug)]
pub struct Fail {
	pub sig: String,
	pub detail: String,
}

impl Fail {
	pub fn new(sig: impl Into<String>, detail: impl Into<String>) -> Fail {
		Fail {
			sig: sig.into(),
			detail: detail.into(),
		}
	}
}

#[derive(Clone, Debug, Default)]
pub struct Outcome {
	pub nontrivial: bool,
	pub classes: Vec<String>,
	pub fails: Vec<Fail>,
	/// key used for distinctness of non-trivial cases (default: hash of the case)
	pub distinct_key: Option<String>,
	/// number of evaluations this case stands for (default 1)
	pub evals: Option<u64>,
}

impl Outcome {
	pub fn class(&mut self, c: impl Into<String>) {
		self.classes.push(c.into());
	}
	pub fn fail(&mut self, sig: impl Into<String>, detail: impl Into<String>) {
		self.fails.push(Fail::new(sig, detail));
	}
}

pub trait Prop {
	type Case: Debug + Clone + Serialize + DeserializeOwned + 'static;
	fn id(&self) -> &'static str;
	/// name of sub-part (for evidence); a property may consist of several parts run in sequence
	fn part(&self) -> &'static str {
		"main"
	}
	fn cases(&self, tier: Tier) -> u64;
	fn strategy(&self, tier: Tier) -> BoxedStrategy<Self::Case>;
	fn run(&mut self, case: &Self::Case) -> Outcome;
	fn rule(&self) -> String;
	fn assumptions(&self) -> Vec<String> {
		vec![]
	}
	/// extra key/values merged into coverage
	fn extra(&self) -> Value {
		json!({})
	}
	/// shrink budget (iterations) for a failing case
	fn shrink_iters(&self) -> u32 {
		200
	}
	/// Properties that enumerate a grid deterministically return a strategy that depends on the case index
	/// (C20: cell = index mod number of cells). Default: None = use `strategy(tier)` for every case.
	fn strategy_at(&self, _tier: Tier, _index: u64) -> Option<BoxedStrategy<Self::Case>> {
		None
	}
}

// ---------------------------------------------------------------------------------------------
// panic capture

lazy_static::lazy_static! {
	static ref LAST_PANIC: Mutex<Option<(String, String)>> = Mutex::new(None);
}
static QUIET: AtomicU64 = AtomicU64::new(1);

pub fn install_panic_hook() {
	panic::set_hook(Box::new(|info| {
		let loc = info
			.location()
			.map(|l| l.file().to_string())
			.unwrap_or_else(|| "?".into());
		let msg = if let Some(s) = info.payload().downcast_ref::<&str>() {
			s.to_string()
		} else if let Some(s) = info.payload().downcast_ref::<String>() {
			s.clone()
		} else {
			"<non-string payload>".to_string()
		};
		if QUIET.load(Ordering::Relaxed) == 0 {
			eprintln!("panic at {}: {}", loc, msg);
		}
		*LAST_PANIC.lock().unwrap() = Some((loc, msg));
	}));
}

pub fn dbg(m: &str) {
	if QUIET.load(Ordering::Relaxed) == 0 {
		eprintln!("[dbg] {}", m);
	}
}

pub fn set_quiet(q: bool) {
	QUIET.store(if q { 1 } else { 0 }, Ordering::Relaxed);
}

fn norm_path(p: &str) -> String {
	// strip registry prefix
	if let Some(i) = p.find("registry/src/") {
		let rest = &p[i + "registry/src/".len()..];
		if let Some(j) = rest.find('/') {
			return rest[j + 1..].to_string();
		}
	}
	if let Some(i) = p.find("/repo/") {
		return p[i + 6..].to_string();
	}
	if let Some(i) = p.find("repo/") {
		return p[i + 5..].to_string();
	}
	p.to_string()
}

/// Normalise a panic message into a class: digits -> '#', hex blobs collapsed, truncated.
pub fn norm_msg(m: &str) -> String {
	let mut out = String::new();
	let mut last_hash = false;
	for ch in m.chars().take(400) {
		if ch.is_ascii_digit() {
			if !last_hash {
				out.push('#');
				last_hash = true;
			}
		} else {
			last_hash = false;
			out.push(if ch == '\n' { ' ' } else { ch });
		}
	}
	// collapse long hex-like words
	let words: Vec<String> = out
		.split(' ')
		.map(|w| {
			if w.len() > 24 && w.chars().all(|c| c.is_ascii_hexdigit() || c == '#') {
				"<hex>".to_string()
			} else {
				w.to_string()
			}
		})
		.collect();
	let mut s = words.join(" ");
	let mut n = std::cmp::min(120, s.len());
	while !s.is_char_boundary(n) {
		n -= 1;
	}
	s.truncate(n);
	s
}

/// Build a Fail from the most recent panic recorded by the hook (for callers doing their own catch_unwind).
pub fn fail_from_last_panic() -> Fail {
	let (loc, msg) = LAST_PANIC
		.lock()
		.unwrap()
		.take()
		.unwrap_or(("?".into(), "?".into()));
	Fail {
		sig: format!("panic@{}:{}", norm_path(&loc), norm_msg(&msg)),
		detail: format!("panic at {}: {}", loc, msg),
	}
}

/// Run `f`, converting a panic into a Fail with a stable signature.
pub fn guard<T>(f: impl FnOnce() -> T) -> Result<T, Fail> {
	*LAST_PANIC.lock().unwrap() = None;
	match panic::catch_unwind(AssertUnwindSafe(f)) {
		Ok(v) => Ok(v),
		Err(_) => {
			let (loc, msg) = LAST_PANIC
				.lock()
				.unwrap()
				.take()
				.unwrap_or(("?".into(), "?".into()));
			let sig = format!("panic@{}:{}", norm_path(&loc), norm_msg(&msg));
			Err(Fail {
				sig,
				detail: format!("panic at {}: {}", loc, msg),
			})
		}
	}
}

// ---------------------------------------------------------------------------------------------
// seeds / hashing

pub fn h64(parts: &[&[u8]]) -> u64 {
	let mut h = Sha256::new();
	for p in parts {
		h.update((p.len() as u64).to_le_bytes());
		h.update(p);
	}
	let d = h.finalize();
	let mut b = [0u8; 8];
	b.copy_from_slice(&d[0..8]);
	u64::from_le_bytes(b)
}

pub fn seed32(seed: u64, prop: &str, part: &str, tier: Tier, i: u64) -> [u8; 32] {
	let mut h = Sha256::new();
	h.update(b"gwv-case-seed");
	h.update(seed.to_le_bytes());
	h.update(prop.as_bytes());
	h.update(b"/");
	h.update(part.as_bytes());
	h.update(b"/");
	h.update(tier.name().as_bytes());
	h.update(i.to_le_bytes());
	let d = h.finalize();
	let mut b = [0u8; 32];
	b.copy_from_slice(&d);
	b
}

pub fn case_hash<T: Serialize>(c: &T) -> u64 {
	let s = serde_json::to_vec(c).unwrap_or_default();
	h64(&[&s])
}

/// Monotone index mapping (shrinks towards 0).
pub fn idx(i: u16, len: usize) -> usize {
	if len == 0 {
		0
	} else {
		((i as usize) * len) >> 16
	}
}

// ---------------------------------------------------------------------------------------------
// shard report

#[derive(Default)]
pub struct Report {
	pub evaluations: u64,
	pub nontrivial: BTreeSet<String>,
	pub classes: BTreeMap<String, u64>,
	pub samples: Vec<Value>,
	pub violations: Vec<Value>,
	pub known: BTreeMap<String, u64>,
	pub repeats: BTreeMap<String, u64>,
	pub parts: BTreeMap<String, Value>,
	pub rules: Vec<String>,
	pub assumptions: BTreeSet<String>,
	pub extra: BTreeMap<String, Value>,
	pub exhaustive: Option<bool>,
}

impl Report {
	pub fn to_json(&self, args: &Args, wall: f64) -> Value {
		json!({
			"property_id": args.prop,
			"tier": args.tier.name(),
			"seed": args.seed,
			"shard": args.shard,
			"nshards": args.nshards,
			"evaluations": self.evaluations,
			"nontrivial": self.nontrivial.iter().collect::<Vec<_>>(),
			"classes": self.classes,
			"samples": self.samples,
			"violations": self.violations,
			"known": self.known,
			"repeats": self.repeats,
			"rules": self.rules,
			"assumptions": self.assumptions.iter().collect::<Vec<_>>(),
			"extra": self.extra,
			"exhaustive": self.exhaustive,
			"wall_s": wall,
		})
	}
}

fn write_replay(args: &Args, part: &str, case: &Value, fail: &Fail, case_seed_idx: u64) -> String {
	let dir = args.replay_dir.join(&args.prop);
	let _ = std::fs::create_dir_all(&dir);
	let body = json!({
		"property": args.prop,
		"part": part,
		"tier": args.tier.name(),
		"seed": args.seed,
		"case_index": case_seed_idx,
		"signature": fail.sig,
		"observed": fail.detail,
		"case": case,
	});
	let h = h64(&[serde_json::to_string(&json!([args.prop, part, fail.sig, case]))
		.unwrap()
		.as_bytes()]);
	let p = dir.join(format!("{:016x}.json", h));
	let _ = std::fs::write(&p, serde_json::to_vec_pretty(&body).unwrap());
	p.to_string_lossy().to_string()
}

/// Run one property part over its share of cases; merges into `rep`.
pub fn run_part<P: Prop>(p: &mut P, args: &Args, rep: &mut Report) {
	let total = args.cases.unwrap_or_else(|| p.cases(args.tier));
	let strat = p.strategy(args.tier);
	let part = p.part().to_string();
	let id = p.id();
	rep.rules.push(format!("[{}] {}", part, p.rule()));
	for a in p.assumptions() {
		rep.assumptions.insert(a);
	}
	let mut part_evals = 0u64;
	let mut part_nontriv = 0u64;
	let reported_sigs: RefCell<BTreeSet<String>> = RefCell::new(BTreeSet::new());
	let shrink_iters = p.shrink_iters();
	let pcell = RefCell::new(p);
	let mut i = args.shard;
	// a case (including its shrinking) that makes no progress for this long is a hang: exit 2 (inconclusive)
	let wd = Watchdog::start(900, format!("{} part {}", id, part));
	while i < total {
		wd.tick();
		let s32 = seed32(args.seed, id, &part, args.tier, i);
		let rng = TestRng::from_seed(RngAlgorithm::ChaCha, &s32);
		let cfg = Config {
			cases: 1,
			failure_persistence: None,
			max_shrink_iters: shrink_iters,
			max_shrink_time: 0,
			..Config::default()
		};
		let mut runner = TestRunner::new_with_rng(cfg, rng);
		let strat_i = pcell.borrow().strategy_at(args.tier, i);
		let strat = match &strat_i {
			Some(s) => s,
			None => &strat,
		};
		// state shared with closure
		let first_fail: RefCell<Option<Fail>> = RefCell::new(None);
		let first_outcome: RefCell<Option<(Outcome, Value, u64)>> = RefCell::new(None);
		let known_hits: RefCell<Vec<String>> = RefCell::new(vec![]);
		let repeat_hits: RefCell<Vec<String>> = RefCell::new(vec![]);
		let res = runner.run(strat, |case| {
			let shrinking = first_fail.borrow().is_some();
			let out = match guard(|| pcell.borrow_mut().run(&case)) {
				Ok(o) => o,
				Err(f) => Outcome {
					nontrivial: true,
					classes: vec!["panic".into()],
					fails: vec![f],
					..Default::default()
				},
			};
			if !shrinking {
				let cv = serde_json::to_value(&case).unwrap_or(Value::Null);
				let ch = case_hash(&case);
				*first_outcome.borrow_mut() = Some((out.clone(), cv, ch));
			}
			// split fails into known/unknown
			let mut unknown: Option<Fail> = None;
			for f in &out.fails {
				if args.known_open.iter().any(|k| k == &f.sig) {
					if !shrinking {
						known_hits.borrow_mut().push(f.sig.clone());
					}
				} else if reported_sigs.borrow().contains(&f.sig) {
					// same root cause already reported (and shrunk) by this shard: count, do not shrink again
					if !shrinking {
						repeat_hits.borrow_mut().push(f.sig.clone());
					}
				} else if unknown.is_none() {
					unknown = Some(f.clone());
				}
			}
			if shrinking {
				// only the same root cause counts as a failure while shrinking
				let want = first_fail.borrow().as_ref().unwrap().sig.clone();
				if let Some(f) = out.fails.iter().find(|f| f.sig == want) {
					*first_fail.borrow_mut() = Some(f.clone());
					return Err(TestCaseError::fail(f.sig.clone()));
				}
				return Ok(());
			}
			if let Some(f) = unknown {
				*first_fail.borrow_mut() = Some(f.clone());
				return Err(TestCaseError::fail(f.sig));
			}
			Ok(())
		});
		if let Some((out, cv, ch)) = first_outcome.borrow_mut().take() {
			let ev = out.evals.unwrap_or(1);
			rep.evaluations += ev;
			part_evals += ev;
			for c in &out.classes {
				*rep.classes.entry(format!("{}:{}", part, c)).or_insert(0) += 1;
			}
			if out.nontrivial {
				let key = out
					.distinct_key
					.clone()
					.unwrap_or_else(|| format!("{:016x}", ch));
				if rep.nontrivial.insert(format!("{}:{}", part, key)) {
					part_nontriv += 1;
				}
			}
			let want_samples = 3;
			let have = rep
				.samples
				.iter()
				.filter(|s| s["part"] == Value::String(part.clone()))
				.count();
			if (have < want_samples && out.nontrivial) || (have == 0 && i == args.shard) {
				rep.samples
					.push(json!({"part": part, "case_index": i, "case": cv, "classes": out.classes}));
			}
		}
		for k in known_hits.borrow().iter() {
			*rep.known.entry(k.clone()).or_insert(0) += 1;
		}
		for k in repeat_hits.borrow().iter() {
			*rep.repeats.entry(k.clone()).or_insert(0) += 1;
		}
		match res {
			Ok(()) => {}
			Err(TestError::Fail(_, minimal)) => {
				let f = first_fail.borrow().clone().unwrap();
				if reported_sigs.borrow_mut().insert(f.sig.clone()) {
					let cv = serde_json::to_value(&minimal).unwrap_or(Value::Null);
					let path = write_replay(args, &part, &cv, &f, i);
					rep.violations.push(json!({
						"part": part, "signature": f.sig, "detail": f.detail, "replay": path, "case_index": i,
					}));
				}
			}
			Err(TestError::Abort(r)) => {
				// generator rejected too much: treat as harness error
				eprintln!("proptest abort in {} {}: {}", id, part, r);
				std::process::exit(3);
			}
		}
		i += args.nshards;
	}
	let p = pcell.into_inner();
	rep.parts.insert(
		part.clone(),
		json!({"evaluations": part_evals, "distinct_nontrivial": part_nontriv}),
	);
	let ex = p.extra();
	if let Value::Object(m) = ex {
		for (k, v) in m {
			rep.extra.insert(format!("{}.{}", part, k), v);
		}
	}
}

/// Replay one case from a replay file (no generators involved).
pub fn replay_part<P: Prop>(p: &mut P, case: &Value) -> Result<Outcome, String> {
	let c: P::Case = serde_json::from_value(case.clone()).map_err(|e| format!("bad case: {}", e))?;
	Ok(match guard(|| p.run(&c)) {
		Ok(o) => o,
		Err(f) => Outcome {
			nontrivial: true,
			fails: vec![f],
			..Default::default()
		},
	})
}

/// Generate one value from a strategy with a given seed (for non-shrinking uses).
pub fn gen_one<T: Debug>(strat: &BoxedStrategy<T>, s32: &[u8; 32]) -> T {
	let rng = TestRng::from_seed(RngAlgorithm::ChaCha, s32);
	let mut runner = TestRunner::new_with_rng(Config::default(), rng);
	strat.new_tree(&mut runner).unwrap().current()
}

pub struct Timer(Instant);
impl Timer {
	pub fn start() -> Timer {
		Timer(Instant::now())
	}
	pub fn secs(&self) -> f64 {
		self.0.elapsed().as_secs_f64()
	}
}

/// Watchdog: if `tick` is not called for `limit_s` seconds, exit(2) (inconclusive).
pub struct Watchdog {
	last: std::sync::Arc<AtomicU64>,
	alive: std::sync::Arc<AtomicU64>,
}
impl Watchdog {
	pub fn start(limit_s: u64, what: String) -> Watchdog {
		let last = std::sync::Arc::new(AtomicU64::new(now_s()));
		let alive = std::sync::Arc::new(AtomicU64::new(1));
		let l2 = last.clone();
		let a2 = alive.clone();
		std::thread::spawn(move || loop {
			std::thread::sleep(std::time::Duration::from_secs(1));
			if a2.load(Ordering::Relaxed) == 0 {
				return;
			}
			let l = l2.load(Ordering::Relaxed);
			if now_s().saturating_sub(l) > limit_s {
				eprintln!("WATCHDOG: no progress for {}s in {} -> inconclusive (exit 2)", limit_s, what);
				std::process::exit(2);
			}
		});
		Watchdog { last, alive }
	}
	pub fn tick(&self) {
		self.last.store(now_s(), Ordering::Relaxed);
	}
}
impl Drop for Watchdog {
	fn drop(&mut self) {
		self.alive.store(0, Ordering::Relaxed);
	}
}
fn now_s() -> u64 {
	use std::time::{SystemTime, UNIX_EPOCH};
	SystemTime::now()
		.duration_since(UNIX_EPOCH)
		.map(|d| d.as_secs())
		.unwrap_or(0)
}
