//! Cooperative scheduler over real OS threads, driven by the `wallet_lock!` hook
//! (`grin_wallet_libwallet::verif_hooks::set_before_wallet_lock`).
//!
//! Every registered thread parks (a) once before it starts its operation and (b) immediately before
//! every `wallet_lock!` acquisition, i.e. while it holds no wallet lock. Exactly one registered thread
//! runs at any time; the scheduler (the calling thread) waits until the running thread parks or
//! finishes and then picks the next one according to a SCHEDULE = sequence of choice bytes, each mapped
//! monotonically (`(c * n) >> 8`) onto the currently runnable threads (in thread-index order). A choice
//! byte is consumed only when more than one thread is runnable; when the sequence is exhausted the
//! lowest-index runnable thread is chosen (so the remaining threads run to completion in index order).
//! Threads that never registered (the harness itself) pass through the hook untouched.
//!
//! A running thread that neither parks nor finishes within the hang limit is a deadlock/hang: `run`
//! returns `Err(Hang)` and the caller must save the schedule and leave the process with exit code 2
//! (the stuck threads cannot be joined).

use std::cell::RefCell;
use std::sync::{Arc, Condvar, Mutex, Once};
use std::time::{Duration, Instant};

#[derive(Clone, Copy, Debug, PartialEq, Eq)]
enum St {
	/// parked (before start or at a lock point), waiting for the token
	Parked,
	Running,
	Done,
}

struct TState {
	st: St,
	/// number of times this thread parked (1 = the initial park before its operation)
	parks: u32,
	/// set by the scheduler: this thread may go
	go: bool,
	panicked: Option<String>,
}

struct State {
	threads: Vec<TState>,
}

struct Inner {
	m: Mutex<State>,
	cv: Condvar,
}

thread_local! {
	/// (thread index, scheduler, atomic): an atomic thread parks only before it starts (serial orders)
	static ME: RefCell<Option<(usize, Arc<Inner>, bool)>> = RefCell::new(None);
}

static INSTALL: Once = Once::new();

/// Install the global hook (idempotent). Unregistered threads are not affected by it.
pub fn install_hook() {
	INSTALL.call_once(|| {
		grin_wallet_libwallet::verif_hooks::set_before_wallet_lock(Some(Box::new(|| {
			let me = ME.with(|m| m.borrow().clone());
			if let Some((id, inner, atomic)) = me {
				if !atomic {
					inner.park(id);
				}
			}
		})));
	});
}

impl Inner {
	/// Called on a registered thread: report "parked" and block until told to go.
	fn park(&self, id: usize) {
		let mut s = self.m.lock().unwrap();
		s.threads[id].st = St::Parked;
		s.threads[id].parks += 1;
		s.threads[id].go = false;
		self.cv.notify_all();
		while !s.threads[id].go {
			s = self.cv.wait(s).unwrap();
		}
		s.threads[id].st = St::Running;
	}
	fn done(&self, id: usize, panicked: Option<String>) {
		let mut s = self.m.lock().unwrap();
		s.threads[id].st = St::Done;
		s.threads[id].panicked = panicked;
		self.cv.notify_all();
	}
}

/// One scheduling step, as executed.
#[derive(Clone, Debug)]
pub struct Step {
	/// thread indices that were runnable (parked), in index order
	pub runnable: Vec<usize>,
	/// position chosen within `runnable`
	pub pos: usize,
	/// thread index chosen
	pub tid: usize,
	/// park count of every thread at this moment (1 = parked before start, k+1 = parked before its k-th lock section)
	pub parks: Vec<u32>,
	/// true when the choice consumed a schedule byte (more than one runnable)
	pub decision: bool,
}

#[derive(Clone, Debug, Default)]
pub struct Trace {
	pub steps: Vec<Step>,
	/// number of segments each thread executed (= number of times it was given the token)
	pub segments: Vec<u32>,
	pub panics: Vec<Option<String>>,
}

impl Trace {
	/// decisions only: (number of options, option taken, runnable tids, previously running tid)
	pub fn decisions(&self) -> Vec<(usize, usize)> {
		self.steps.iter().filter(|s| s.decision).map(|s| (s.runnable.len(), s.pos)).collect()
	}
	/// Non-triviality rule of C20: some thread other than `r` was run at a moment at which `r` had
	/// completed at least one lock section and was parked before another one.
	pub fn other_ran_between_sections_of(&self, r: usize) -> bool {
		self.steps.iter().any(|s| s.tid != r && s.runnable.contains(&r) && s.parks[r] >= 3)
	}
	/// compact rendering "R R O1 R ..." given thread names
	pub fn render(&self, names: &[String]) -> String {
		self.steps.iter().map(|s| names[s.tid].clone()).collect::<Vec<_>>().join(" ")
	}
}

#[derive(Debug)]
pub struct Hang {
	pub trace: Trace,
	pub running: usize,
	pub waited_s: u64,
}

/// Choice byte that selects option `k` of `n` under the mapping `(c * n) >> 8`.
pub fn byte_for(k: usize, n: usize) -> u8 {
	if n <= 1 || k == 0 {
		return 0;
	}
	let c = (k * 256 + n - 1) / n;
	debug_assert!(c < 256 && (c * n) >> 8 == k);
	c as u8
}

pub fn pick(c: u8, n: usize) -> usize {
	((c as usize) * n) >> 8
}

pub type Job = Box<dyn FnOnce() + Send + 'static>;

/// What happens at decisions after the schedule bytes are used up.
#[derive(Clone, Copy, Debug, PartialEq, Eq)]
pub enum Tail {
	/// lowest-index runnable thread (the remaining threads run to completion in index order)
	IndexOrder,
	/// keep running the thread that ran last while it is runnable, else the lowest-index one (used by the
	/// enumerator so that the continuation of a prefix adds no preemptions)
	NonPreemptive,
}

fn default_pos(runnable: &[usize], last: Option<usize>, tail: Tail) -> usize {
	match (tail, last) {
		(Tail::NonPreemptive, Some(l)) => runnable.iter().position(|t| *t == l).unwrap_or(0),
		_ => 0,
	}
}

/// Run `jobs` (thread i runs jobs[i]) under `schedule`. `before_thread` runs at the start of every spawned
/// thread (thread-local set-up). Returns the executed trace, or Hang.
pub fn run(jobs: Vec<Job>, schedule: &[u8], hang_limit: Duration, before_thread: fn(), tail: Tail) -> Result<Trace, Hang> {
	run_opt(jobs, schedule, hang_limit, before_thread, tail, false)
}

/// Schedule that runs the threads one after the other in `order` (to be used with `atomic = true`).
pub fn serial_schedule(order: &[usize]) -> Vec<u8> {
	let mut left: Vec<usize> = {
		let mut v = order.to_vec();
		v.sort();
		v
	};
	let mut out = vec![];
	for t in order {
		let pos = left.iter().position(|x| x == t).unwrap();
		if left.len() > 1 {
			out.push(byte_for(pos, left.len()));
		}
		left.remove(pos);
	}
	out
}

/// As `run`; with `atomic` the threads do not park at lock points: each runs to completion once started
/// (serial execution under the same hang watchdog).
pub fn run_opt(jobs: Vec<Job>, schedule: &[u8], hang_limit: Duration, before_thread: fn(), tail: Tail, atomic: bool) -> Result<Trace, Hang> {
	install_hook();
	let n = jobs.len();
	let inner = Arc::new(Inner {
		m: Mutex::new(State {
			threads: (0..n)
				.map(|_| TState {
					st: St::Running,
					parks: 0,
					go: false,
					panicked: None,
				})
				.collect(),
		}),
		cv: Condvar::new(),
	});
	let mut handles = vec![];
	for (id, job) in jobs.into_iter().enumerate() {
		let inn = inner.clone();
		let h = std::thread::Builder::new()
			.name(format!("gwv-sched-{}", id))
			.stack_size(16 << 20)
			.spawn(move || {
				before_thread();
				ME.with(|m| *m.borrow_mut() = Some((id, inn.clone(), atomic)));
				// initial park: nothing of the operation has run yet
				inn.park(id);
				let r = std::panic::catch_unwind(std::panic::AssertUnwindSafe(job));
				ME.with(|m| *m.borrow_mut() = None);
				let p = match r {
					Ok(()) => None,
					Err(_) => Some(crate::rt::fail_from_last_panic().sig),
				};
				inn.done(id, p);
			})
			.expect("spawn");
		handles.push(h);
	}
	let mut trace = Trace {
		steps: vec![],
		segments: vec![0; n],
		panics: vec![None; n],
	};
	let mut sched_pos = 0usize;
	let mut current: Option<usize> = None;
	loop {
		// wait until nobody is running
		let mut s = inner.m.lock().unwrap();
		let t0 = Instant::now();
		loop {
			let busy = s.threads.iter().any(|t| t.st == St::Running);
			if !busy {
				break;
			}
			let left = hang_limit.checked_sub(t0.elapsed());
			match left {
				None => {
					let running = current.unwrap_or_else(|| s.threads.iter().position(|t| t.st == St::Running).unwrap_or(0));
					drop(s);
					// the stuck threads are leaked on purpose
					std::mem::forget(handles);
					return Err(Hang {
						trace,
						running,
						waited_s: hang_limit.as_secs(),
					});
				}
				Some(l) => {
					let (g, _) = inner.cv.wait_timeout(s, std::cmp::min(l, Duration::from_millis(500))).unwrap();
					s = g;
				}
			}
		}
		let runnable: Vec<usize> = (0..n).filter(|i| s.threads[*i].st == St::Parked).collect();
		if runnable.is_empty() {
			for i in 0..n {
				trace.panics[i] = s.threads[i].panicked.clone();
			}
			break;
		}
		let decision = runnable.len() > 1;
		let pos = if decision {
			let p = if sched_pos < schedule.len() { pick(schedule[sched_pos], runnable.len()) } else { default_pos(&runnable, current, tail) };
			sched_pos += 1;
			p
		} else {
			0
		};
		let tid = runnable[pos];
		trace.steps.push(Step {
			runnable: runnable.clone(),
			pos,
			tid,
			parks: s.threads.iter().map(|t| t.parks).collect(),
			decision,
		});
		trace.segments[tid] += 1;
		s.threads[tid].st = St::Running;
		s.threads[tid].go = true;
		current = Some(tid);
		inner.cv.notify_all();
		drop(s);
	}
	for h in handles {
		let _ = h.join();
	}
	Ok(trace)
}

// ---------------------------------------------------------------------------------------------
// systematic enumeration (stateless depth-first search over decisions)

/// Depth-first enumeration of schedules. `exec(schedule)` must execute the configuration under the given
/// schedule with `Tail::NonPreemptive` and return the trace (deterministic control flow assumed: the same
/// prefix leads to the same decision points). `max_preempt`: None = all schedules; Some(k) = only schedules
/// with at most k preemptions (a preemption = choosing another thread while the thread that ran last is
/// still runnable). `limit` = maximum number of executions. Returns (executions, complete) where complete =
/// the (bounded) space was enumerated entirely.
pub fn enumerate(max_preempt: Option<u32>, limit: u64, mut exec: impl FnMut(&[u8]) -> Option<Trace>) -> (u64, bool) {
	// explicit prefix: (position, number of options) per decision
	let mut prefix: Vec<(usize, usize)> = vec![];
	let mut count = 0u64;
	loop {
		if count >= limit {
			return (count, false);
		}
		let bytes: Vec<u8> = prefix.iter().map(|(k, n)| byte_for(*k, *n)).collect();
		let trace = match exec(&bytes) {
			Some(t) => t,
			None => return (count, false),
		};
		count += 1;
		// decisions along the executed path: options in exploration order (default first, then index order),
		// rank taken, preemptions used before the decision
		struct D {
			runnable: Vec<usize>,
			order: Vec<usize>,
			rank: usize,
			last: Option<usize>,
			used_before: u32,
		}
		let mut path: Vec<D> = vec![];
		let mut last: Option<usize> = None;
		let mut used = 0u32;
		for s in &trace.steps {
			if s.decision {
				let d = default_pos(&s.runnable, last, Tail::NonPreemptive);
				let mut order = vec![d];
				order.extend((0..s.runnable.len()).filter(|p| *p != d));
				let rank = order.iter().position(|p| *p == s.pos).unwrap();
				path.push(D {
					runnable: s.runnable.clone(),
					order,
					rank,
					last,
					used_before: used,
				});
			}
			if let Some(l) = last {
				if s.tid != l && s.runnable.contains(&l) {
					used += 1;
				}
			}
			last = Some(s.tid);
		}
		// backtrack: deepest decision with an untried admissible option
		let mut next: Option<(usize, usize)> = None; // (decision index, new position)
		'outer: for di in (0..path.len()).rev() {
			let d = &path[di];
			for nr in (d.rank + 1)..d.order.len() {
				let np = d.order[nr];
				let cost = match d.last {
					Some(l) if d.runnable.contains(&l) && d.runnable[np] != l => 1,
					_ => 0,
				};
				if let Some(mp) = max_preempt {
					if d.used_before + cost > mp {
						continue;
					}
				}
				next = Some((di, np));
				break 'outer;
			}
		}
		match next {
			None => return (count, true),
			Some((di, np)) => {
				prefix = path[..di].iter().map(|d| (d.runnable[..].len(), d)).map(|(n, d)| (d.order[d.rank], n)).collect();
				prefix.push((np, path[di].runnable.len()));
			}
		}
	}
}

/// Complete explicit schedule (one byte per decision) that reproduces `trace` under either tail mode.
pub fn explicit_schedule(trace: &Trace) -> Vec<u8> {
	trace.steps.iter().filter(|s| s.decision).map(|s| byte_for(s.pos, s.runnable.len())).collect()
}
